import SynapModel.ModuleFwd
import Props.C12
/-!
# `Sequential` = composition of its members, `Neuron` = `Linear` with one output (C14)
-/
namespace Proofs.FusedMod
open Synap Synap.NDArray Synap.Modules Synap.ModuleFwd Synap.Kernels

variable {σ τ : Type}

/-- one member call in the Kleisli category of `Option` (state threaded) -/
def step (call : Nat → σ → τ → Option (σ × τ)) (acc : σ × τ) (k : Nat) : Option (σ × τ) := call k acc.1 acc.2

/-- left fold of the members' forwards, first registered first, each fed the previous output -/
def composeCalls (call : Nat → σ → τ → Option (σ × τ)) (ks : List Nat) (st : σ) (x : τ) : Option (σ × τ) :=
  ks.foldlM (step call) (st, x)

/-- the loop body of `sequentialForward` -/
def body (call : Nat → σ → τ → Option (σ × τ)) (acc : Option (σ × τ × τ)) (k : Nat) : Option (σ × τ × τ) :=
  match acc with
  | none => none
  | some (st, inp, _) =>
    match call k st inp with
    | none => none
    | some (st', out) => some (st', out, out)

theorem sequentialForward_def (call : Nat → σ → τ → Option (σ × τ)) (w : World) (m : Nat) (st : σ) (x : τ) :
    sequentialForward call w m st x =
      ((applyOrder w m).foldl (body call) (some (st, x, x))).map (fun r => (r.1, r.2.2)) := rfl

theorem loop_none (call : Nat → σ → τ → Option (σ × τ)) (ks : List Nat) : ks.foldl (body call) none = none := by
  induction ks with
  | nil => rfl
  | cons k ks ih => exact ih

theorem loop_eq (call : Nat → σ → τ → Option (σ × τ)) (ks : List Nat) : ∀ (st : σ) (t : τ),
    (ks.foldl (body call) (some (st, t, t))).map (fun r => (r.1, r.2.2)) = ks.foldlM (step call) (st, t) := by
  induction ks with
  | nil => intro st t; rfl
  | cons k ks ih =>
    intro st t
    rw [List.foldl_cons, List.foldlM_cons]
    show (List.foldl (body call) (match call k st t with | none => none | some (st', out) => some (st', out, out)) ks).map _
      = (call k st t).bind _
    cases call k st t with
    | none => rw [loop_none]; rfl
    | some r => exact ih r.1 r.2

/-- `Sequential.forward` on ANY module world: the left fold of the member modules' forwards in the order of
    `submodules()` -/
theorem sequentialForward_eq_fold (call : Nat → σ → τ → Option (σ × τ)) (w : World) (m : Nat) (st : σ) (x : τ) :
    sequentialForward call w m st x = composeCalls call (applyOrder w m) st x := by
  rw [sequentialForward_def, loop_eq]; rfl

/-- **Sequential = composition of its modules**: the model of `Sequential(*modules)(x)` is the left fold of the
    member forwards in registration (argument) order — for every list of module ids, repeated ids included, every
    stateful / failing member behaviour `call`, and every world it is built in. -/
theorem sequential_is_composition (call : Nat → σ → τ → Option (σ × τ)) (w : World) (ks : List Nat) (st : σ) (x : τ) :
    sequentialForward call (sequential w ks).1 (sequential w ks).2 st x = composeCalls call ks st x := by
  rw [sequentialForward_eq_fold, Props.C12.sequential_order]

/-- the empty `Sequential` is the identity (D32) and a one-member `Sequential` is that member -/
theorem sequential_nil_single (call : Nat → σ → τ → Option (σ × τ)) (w : World) (k : Nat) (st : σ) (x : τ) :
    sequentialForward call (sequential w []).1 (sequential w []).2 st x = some (st, x) ∧
    sequentialForward call (sequential w [k]).1 (sequential w [k]).2 st x = call k st x := by
  rw [sequential_is_composition, sequential_is_composition]
  simp [composeCalls, step]

/-- concatenating member lists composes the Sequentials: `Sequential(*ks₁, *ks₂) = Sequential(*ks₂) ∘ Sequential(*ks₁)` -/
theorem sequential_append (call : Nat → σ → τ → Option (σ × τ)) (w w1 w2 : World) (ks1 ks2 : List Nat) (st : σ) (x : τ) :
    sequentialForward call (sequential w (ks1 ++ ks2)).1 (sequential w (ks1 ++ ks2)).2 st x =
      (sequentialForward call (sequential w1 ks1).1 (sequential w1 ks1).2 st x).bind (fun r =>
        sequentialForward call (sequential w2 ks2).1 (sequential w2 ks2).2 r.1 r.2) := by
  simp only [sequential_is_composition, composeCalls, List.foldlM_append, Option.bind_eq_bind]

/-- for members that neither fail nor touch the state (activations, `Linear`, `Flatten` on accepted inputs …):
    plain function composition `f_{k_n} ∘ … ∘ f_{k_1}` -/
theorem sequential_is_function_composition (f : Nat → τ → τ) (w : World) (ks : List Nat) (st : σ) (x : τ) :
    sequentialForward (fun k s t => some (s, f k t)) (sequential w ks).1 (sequential w ks).2 st x =
      some (st, ks.foldl (fun t k => f k t) x) := by
  rw [sequential_is_composition]
  unfold composeCalls step
  induction ks generalizing x with
  | nil => rfl
  | cons k ks ih => rw [List.foldlM_cons, List.foldl_cons]; exact ih (f k x)

/-! ### `Sequential(OrderedDict)` with distinct keys -/

theorem seqDict_fold (m : Nat) (ks : List (String × Nat)) :
    ∀ (w1 : World) (M : Mod), w1.mods[m]? = some M → (M.subs.map (·.1) ++ ks.map (·.1)).Nodup →
      ∃ M' : Mod, (ks.foldl (fun w (x : String × Nat) => regMod w m x.1 x.2) w1).mods[m]? = some M' ∧
        M'.subs.map (·.2) = M.subs.map (·.2) ++ ks.map (·.2) := by
  induction ks with
  | nil => intro w1 M hM _; exact ⟨M, hM, by simp⟩
  | cons e ks ih =>
    intro w1 M hM hnd
    rw [List.foldl_cons]
    have hfresh : ∀ e' ∈ M.subs, e'.1 ≠ e.1 := by
      intro e' he' heq
      rw [List.nodup_append] at hnd
      exact hnd.2.2 e'.1 (List.mem_map_of_mem he') e.1 (by simp) heq
    have h1 : (regMod w1 m e.1 e.2).mods[m]? =
        some { M with params := odPop M.params e.1, subs := M.subs ++ [(e.1, e.2)] } := by
      rw [regMod, Props.C12.updMod_getElem?, hM]
      simp only [Option.map_some, if_true, Props.C12.odSet_fresh _ _ _ hfresh]
    obtain ⟨M', hM', hsubs⟩ := ih _ _ h1 (by
      simpa [List.map_append, List.append_assoc] using hnd)
    exact ⟨M', hM', by simpa using hsubs⟩

/-- **Sequential(OrderedDict) = composition of the dictionary's values in insertion order** (distinct keys, as in
    an `OrderedDict`) -/
theorem sequentialDict_is_composition (call : Nat → σ → τ → Option (σ × τ)) (w : World) (ks : List (String × Nat))
    (hk : (ks.map (·.1)).Nodup) (st : σ) (x : τ) :
    sequentialForward call (sequentialDict w ks).1 (sequentialDict w ks).2 st x = composeCalls call (ks.map (·.2)) st x := by
  rw [sequentialForward_eq_fold]
  have h0 : (newMod w).1.mods[(newMod w).2]? = some ⟨[], [], true⟩ := by simp [newMod]
  obtain ⟨M', hM', hsubs⟩ := seqDict_fold (newMod w).2 ks (newMod w).1 _ h0 (by simpa using hk)
  have : (sequentialDict w ks).1.mods[(sequentialDict w ks).2]? = some M' := hM'
  simp only [applyOrder, this]
  rw [show M'.subs.map (·.2) = ks.map (·.2) by simpa using hsubs]

example : (([("a", 0), ("b", 1), ("c", 0)] : List (String × Nat)).map (·.1)).Nodup := by decide

/-! ### Neuron -/
section
variable {α : Type} [Zero α] [Add α] [Mul α]

/-- **Neuron = Linear with one output**: the same object as `Linear(in_features, 1, bias)`, so its weight has
    shape `(1, in_features)`, its bias shape `(1,)`, and its forward is `F.linear(x, weight, bias)` behind the same
    `in_features` assertion; there is no activation. -/
theorem neuron_is_linear (inF : Nat) (bias : Bool) (wv bv : List α) (x : NDArray α) :
    Neuron.init inF bias wv bv = Linear.init inF 1 bias wv bv ∧
    (Neuron.init inF bias wv bv).weight.shape = [1, inF] ∧
    (Neuron.init inF bias wv bv).bias.map (·.shape) = (if bias then some [1] else none) ∧
    Neuron.forward (Neuron.init inF bias wv bv) x = Linear.forward (Linear.init inF 1 bias wv bv) x ∧
    (x.shape[1]? = some inF →
      Neuron.forward (Neuron.init inF bias wv bv) x =
        linearForward x ⟨[1, inF], wv⟩ (if bias then some ⟨[1], bv⟩ else none)) ∧
    (x.shape[1]? ≠ some inF → Neuron.forward (Neuron.init inF bias wv bv) x = none) := by
  refine ⟨rfl, rfl, by cases bias <;> rfl, rfl, fun h => ?_, fun h => ?_⟩
  · simp [Neuron.forward, Linear.forward, h, Neuron.init, Linear.init]
  · unfold Neuron.forward Linear.forward
    cases hx : x.shape[1]? with
    | none => rfl
    | some d =>
      have : d ≠ inF := fun e => h (by rw [hx, e])
      simp [Neuron.init, Linear.init, this]

example : (⟨[2, 3], [1, 2, 3, 4, 5, 6]⟩ : NDArray Int).shape[1]? = some 3 := by decide
end

end Proofs.FusedMod
