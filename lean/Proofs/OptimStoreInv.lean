import Proofs.OptimStoreHeap
/-!
# Separation invariant of `Synap.OptimStore` and the frame of every transition

`Inv s`: every place (parameter data, gradient, momentum buffer / first moment, second moment)
holds a buffer of the heap, and two different places never hold the same buffer.
`Moves W C s s'`: the transition `s → s'` overwrote only buffers in `W`, rebound only places in `C`,
and rebound them to fresh buffers only.  Every transition of the model is a `Moves` with a small
`W` and `C`; `Moves` preserves `Inv`.
-/
namespace Proofs.OptimStore
open Synap.OptimStore
open Synap.Optim (SGDCfg AdamCfg HasSqrt)

variable {α : Type}

/-- extension order with a *set* of buffers that may have been overwritten -/
def ExtP (W : BufId → Prop) (h h' : Heap α) : Prop :=
  h.length ≤ h'.length ∧ ∀ x, x < h.length → ¬ W x → rdBuf h' x = rdBuf h x

theorem ExtP.refl (W : BufId → Prop) (h : Heap α) : ExtP W h h := ⟨Nat.le_refl _, fun _ _ _ => rfl⟩

theorem ExtP.trans {W : BufId → Prop} {h₁ h₂ h₃ : Heap α} (a : ExtP W h₁ h₂) (b : ExtP W h₂ h₃) :
    ExtP W h₁ h₃ :=
  ⟨Nat.le_trans a.1 b.1, fun x hx hw => by
    rw [b.2 x (Nat.lt_of_lt_of_le hx a.1) hw, a.2 x hx hw]⟩

theorem ExtP.mono {W W' : BufId → Prop} {h h' : Heap α} (hW : ∀ x, W x → W' x) (a : ExtP W h h') :
    ExtP W' h h' := ⟨a.1, fun x hx hw => a.2 x hx (fun w => hw (hW x w))⟩

theorem Ext.toP {w : Option BufId} {h h' : Heap α} (a : Ext w h h') : ExtP (fun x => some x = w) h h' :=
  ⟨a.1, fun x hx hw => a.2 x hx hw⟩

theorem Ext.toP_none {h h' : Heap α} (a : Ext none h h') (W : BufId → Prop) : ExtP W h h' :=
  ⟨a.1, fun x hx _ => a.2 x hx (by simp)⟩

/-! ### the invariant -/

structure Inv (s : Store α) : Prop where
  /-- every place holds a buffer of the heap -/
  bounded : ∀ r i x, slot s r i = some x → x < s.heap.length
  /-- two places holding the same buffer are the same place -/
  sep : ∀ r i r' i' x, slot s r i = some x → slot s r' i' = some x → r = r' ∧ i = i'

structure Moves (W : BufId → Prop) (C : Role → Nat → Prop) (s s' : Store α) : Prop where
  ext : ExtP W s.heap s'.heap
  data : ∀ i, slot s' .data i = slot s .data i
  same : ∀ r i, ¬ C r i → slot s' r i = slot s r i
  fresh : ∀ r i x, slot s' r i = some x → slot s r i = some x ∨ (s.heap.length ≤ x ∧ x < s'.heap.length)
  uniq : ∀ r i r' i' x, s.heap.length ≤ x → slot s' r i = some x → slot s' r' i' = some x →
    r = r' ∧ i = i'

theorem Moves.inv {W : BufId → Prop} {C : Role → Nat → Prop} {s s' : Store α} (hI : Inv s)
    (m : Moves W C s s') : Inv s' := by
  constructor
  · intro r i x hx
    rcases m.fresh r i x hx with h | h
    · exact Nat.lt_of_lt_of_le (hI.bounded r i x h) m.ext.1
    · exact h.2
  · intro r i r' i' x hx hx'
    by_cases hlt : x < s.heap.length
    · rcases m.fresh r i x hx with h | h
      · rcases m.fresh r' i' x hx' with h' | h'
        · exact hI.sep r i r' i' x h h'
        · exact absurd hlt (Nat.not_lt.mpr h'.1)
      · exact absurd hlt (Nat.not_lt.mpr h.1)
    · exact m.uniq r i r' i' x (Nat.le_of_not_lt hlt) hx hx'

theorem Moves.refl (W : BufId → Prop) (C : Role → Nat → Prop) {s : Store α} (hI : Inv s) :
    Moves W C s s :=
  ⟨ExtP.refl _ _, fun _ => rfl, fun _ _ _ => rfl, fun _ _ _ h => Or.inl h,
   fun r i _ _ x hx h _ => absurd (hI.bounded r i x h) (Nat.not_lt.mpr hx)⟩

theorem Moves.trans {W : BufId → Prop} {C : Role → Nat → Prop} {s₁ s₂ s₃ : Store α}
    (a : Moves W C s₁ s₂) (b : Moves W C s₂ s₃) : Moves W C s₁ s₃ := by
  refine ⟨a.ext.trans b.ext, fun i => (b.data i).trans (a.data i),
    fun r i h => (b.same r i h).trans (a.same r i h), ?_, ?_⟩
  · intro r i x hx
    rcases b.fresh r i x hx with h | h
    · rcases a.fresh r i x h with h' | h'
      · exact Or.inl h'
      · exact Or.inr ⟨h'.1, Nat.lt_of_lt_of_le h'.2 b.ext.1⟩
    · exact Or.inr ⟨Nat.le_trans a.ext.1 h.1, h.2⟩
  · intro r i r' i' x hx h h'
    by_cases hlt : x < s₂.heap.length
    · rcases b.fresh r i x h with g | g
      · rcases b.fresh r' i' x h' with g' | g'
        · exact a.uniq r i r' i' x hx g g'
        · exact absurd hlt (Nat.not_lt.mpr g'.1)
      · exact absurd hlt (Nat.not_lt.mpr g.1)
    · exact b.uniq r i r' i' x (Nat.le_of_not_lt hlt) h h'

theorem Moves.mono {W W' : BufId → Prop} {C C' : Role → Nat → Prop} {s s' : Store α}
    (hW : ∀ x, W x → W' x) (hC : ∀ r i, C r i → C' r i) (a : Moves W C s s') : Moves W' C' s s' :=
  ⟨a.ext.mono hW, a.data, fun r i h => a.same r i (fun c => h (hC r i c)), a.fresh, a.uniq⟩

/-- a loop of transitions -/
theorem moves_foldl {W : BufId → Prop} {C : Role → Nat → Prop} (H : Store α → Prop)
    (f : Store α → Nat → Store α)
    (hf : ∀ s j, Inv s → H s → Moves W C s (f s j) ∧ H (f s j))
    (l : List Nat) (s : Store α) (hI : Inv s) (h0 : H s) :
    Moves W C s (l.foldl f s) ∧ H (l.foldl f s) := by
  induction l generalizing s with
  | nil => exact ⟨Moves.refl W C hI, h0⟩
  | cons j l ih =>
    have m := hf s j hI h0
    have r := ih (f s j) (m.1.inv hI) m.2
    exact ⟨m.1.trans r.1, r.2⟩

/-- only one place is rebound -/
theorem Moves.of_single {W : BufId → Prop} {s s' : Store α} (hI : Inv s) (hext : ExtP W s.heap s'.heap)
    (r0 : Role) (i0 : Nat) (hr0 : r0 ≠ .data)
    (hsame : ∀ r i, ¬ (r = r0 ∧ i = i0) → slot s' r i = slot s r i)
    (hfresh : ∀ x, slot s' r0 i0 = some x →
      slot s r0 i0 = some x ∨ (s.heap.length ≤ x ∧ x < s'.heap.length)) :
    Moves W (fun r i => r = r0 ∧ i = i0) s s' := by
  refine ⟨hext, fun i => hsame _ _ (fun h => hr0 h.1.symm), hsame, ?_, ?_⟩
  · intro r i x hx
    by_cases h : r = r0 ∧ i = i0
    · obtain ⟨rfl, rfl⟩ := h; exact hfresh x hx
    · rw [hsame r i h] at hx; exact Or.inl hx
  · intro r i r' i' x hlen hx hx'
    have key : ∀ r i, slot s' r i = some x → r = r0 ∧ i = i0 := by
      intro r i h
      refine Classical.byContradiction fun hn => ?_
      rw [hsame r i hn] at h
      exact absurd (hI.bounded r i x h) (Nat.not_lt.mpr hlen)
    obtain ⟨rfl, rfl⟩ := key r i hx
    obtain ⟨rfl, rfl⟩ := key r' i' hx'
    exact ⟨rfl, rfl⟩

/-- the two moment places of one parameter are rebound, to two different fresh buffers -/
theorem Moves.of_two {W : BufId → Prop} {s s' : Store α} (hI : Inv s) (hext : ExtP W s.heap s'.heap)
    (i0 : Nat) (x1 x2 : BufId) (hne : x1 ≠ x2)
    (hx1 : s.heap.length ≤ x1 ∧ x1 < s'.heap.length) (hx2 : s.heap.length ≤ x2 ∧ x2 < s'.heap.length)
    (hsame : ∀ r i, ¬ ((r = .b1 ∨ r = .b2) ∧ i = i0) → slot s' r i = slot s r i)
    (h1 : slot s' .b1 i0 = slot s .b1 i0 ∨ slot s' .b1 i0 = some x1)
    (h2 : slot s' .b2 i0 = slot s .b2 i0 ∨ slot s' .b2 i0 = some x2) :
    Moves W (fun r i => (r = .b1 ∨ r = .b2) ∧ i = i0) s s' := by
  have hfr : ∀ r i x, slot s' r i = some x → slot s r i = some x ∨
      (s.heap.length ≤ x ∧ x < s'.heap.length ∧ ((r = .b1 ∧ i = i0 ∧ x = x1) ∨ (r = .b2 ∧ i = i0 ∧ x = x2))) := by
    intro r i x hx
    by_cases h : (r = .b1 ∨ r = .b2) ∧ i = i0
    · obtain ⟨hr, rfl⟩ := h
      rcases hr with rfl | rfl
      · rcases h1 with h1 | h1
        · rw [h1] at hx; exact Or.inl hx
        · rw [h1] at hx; cases hx; exact Or.inr ⟨hx1.1, hx1.2, Or.inl ⟨rfl, rfl, rfl⟩⟩
      · rcases h2 with h2 | h2
        · rw [h2] at hx; exact Or.inl hx
        · rw [h2] at hx; cases hx; exact Or.inr ⟨hx2.1, hx2.2, Or.inr ⟨rfl, rfl, rfl⟩⟩
    · rw [hsame r i h] at hx; exact Or.inl hx
  refine ⟨hext, fun i => hsame _ _ (fun h => by rcases h.1 with h | h <;> cases h), hsame, ?_, ?_⟩
  · intro r i x hx
    rcases hfr r i x hx with h | h
    · exact Or.inl h
    · exact Or.inr ⟨h.1, h.2.1⟩
  · intro r i r' i' x hlen hx hx'
    rcases hfr r i x hx with h | h
    · exact absurd (hI.bounded r i x h) (Nat.not_lt.mpr hlen)
    · rcases hfr r' i' x hx' with h' | h'
      · exact absurd (hI.bounded r' i' x h') (Nat.not_lt.mpr hlen)
      · rcases h.2.2 with ⟨rfl, rfl, rfl⟩ | ⟨rfl, rfl, rfl⟩ <;>
          rcases h'.2.2 with ⟨rfl, rfl, e⟩ | ⟨rfl, rfl, e⟩
        · exact ⟨rfl, rfl⟩
        · exact absurd e hne
        · exact absurd e.symm hne
        · exact ⟨rfl, rfl⟩

end Proofs.OptimStore
