import SynapModel.Api
import SynapModel.EngineStack
import SynapModel.Generated.EngineLogic
/-!
# The decision logic of `tensor.py`, as read on this run, is the decision logic of the engine model

`SynapModel/Generated/EngineLogic.lean` is rewritten from `/repo/synapgrad/tensor.py` by `harness/engine_logic.py` on every run.
Each generated condition is a Boolean function of *named* atoms (`child__grad_is_None`, `node_is_self`, …); the theorems apply
them with named arguments to the corresponding fields of the model, so both a changed formula and a changed atom break them.
The `*_uses_src` theorems restate the transition functions of the model (`zeroCheck`, `stackStep`, `visit`, `sweep`, `finish`,
`backward`, `mkTensor`, `setRequiresGrad`, `retainGrad`, `ctxEnter`, `ctxExit`) with the generated conditions in place: the
engine theorems of C03 / C04 / C07 / C17 are theorems about a machine steered by exactly the conditions the source contains.
-/
set_option linter.unusedSectionVars false
namespace Proofs.EngineLogicTie
open Synap Synap.Engine Synap.Gen.Engine

/-! ### conditions -/
theorem is_leaf_is_model (n : Node G) :
    n.isLeaf = is_leaf (self_requires_grad := n.reqGrad) (self_grad_fn_is_None := n.back.isNone) := by
  unfold Node.isLeaf is_leaf; cases n.reqGrad <;> cases n.back.isNone <;> rfl

theorem zero_cond_is_model (n : Node G) (visited : Bool) :
    (n.reqGrad && (n.grad.isNone || (!n.isLeaf && !visited))) =
      backward_zero_cond (child_requires_grad := n.reqGrad) (child__grad_is_None := n.grad.isNone)
        (child_is_leaf := n.isLeaf) (child_in_visited_nodes := visited) := by
  unfold backward_zero_cond; cases n.reqGrad <;> cases n.grad.isNone <;> cases n.isLeaf <;> cases visited <;> rfl

theorem release_cond_is_model (n : Node G) (v root : Nat) (retainAll : Bool) :
    (v ≠ root && !n.isLeaf && !n.retain && !retainAll) =
      backward_releases (node_is_self := decide (v = root)) (node_is_leaf := n.isLeaf) (node__retain_grad := n.retain)
        (retain_grads__ := retainAll) := by
  unfold backward_releases
  by_cases h : v = root <;> cases n.isLeaf <;> cases n.retain <;> cases retainAll <;> simp [h]

/-! ### the traversal: `zeroCheck`, `stackStep`, `visit` -/
theorem zeroCheck_uses_src (s : DfsSt G) (c : Nat) :
    zeroCheck s c = match s.ns[c]? with
      | some n =>
        if backward_zero_cond (child_requires_grad := n.reqGrad) (child__grad_is_None := n.grad.isNone)
            (child_is_leaf := n.isLeaf) (child_in_visited_nodes := s.visited.contains c)
        then { s with ns := setGrad s.ns c (some n.zero), trace := s.trace ++ [TrEv.zero c] }
        else s
      | none => s := by
  unfold zeroCheck
  cases h : s.ns[c]? with
  | none => rfl
  | some n => simp only [zero_cond_is_model]

/-- one turn of the explicit-stack machine: the child is pushed exactly when the source's push condition holds -/
theorem stackStep_uses_src (s : DfsSt G) (v c : Nat) (cs : List Nat) (st : List Frame) :
    stackStep s (⟨v, c :: cs⟩ :: st) =
      (let s' := zeroCheck s c
       if backward_push_cond (child_in_visited_nodes := s'.visited.contains c)
       then ({ s' with visited := c :: s'.visited }, ⟨c, childrenOf s'.ns c⟩ :: ⟨v, cs⟩ :: st)
       else (s', ⟨v, cs⟩ :: st)) := by
  simp only [stackStep, backward_push_cond]
  cases (zeroCheck s c).visited.contains c <;> rfl

/-! ### the sweep, the root gradient and the entry guard -/
theorem root_accumulates_is_model (r : Node G) (s : DfsSt G) (root : Nat) (g : G) [Add G] :
    (match r.isLeaf, r.grad with
       | true, some old => setGrad s.ns root (some (old + g))
       | _, _ => setGrad s.ns root (some g)) =
    (if backward_root_accumulates (self_is_leaf := r.isLeaf) (self__grad_is_None := r.grad.isNone)
     then setGrad s.ns root (some ((r.grad.getD r.zero) + g)) else setGrad s.ns root (some g)) := by
  unfold backward_root_accumulates
  cases r.isLeaf <;> cases h : r.grad <;> simp

theorem backward_guard_is_model [Add G] (ns : Graph G) (root : Nat) (g : G) (retainAll : Bool) (r : Node G) (h : ns[root]? = some r) :
    backward ns root g retainAll =
      if backward_rejects (self_requires_grad := r.reqGrad) then none else finish (traverse ns root) root g retainAll := by
  unfold backward backward_rejects; rw [h]

/-- `node.grad_fn()` is called exactly when the source's condition holds (`back = none` is `grad_fn is None`) -/
theorem calls_grad_fn_is_model (n : Node G) :
    n.back.isSome = backward_calls_grad_fn (node_grad_fn_is_None := n.back.isNone) := by
  unfold backward_calls_grad_fn; cases n.back <;> rfl

/-- one step of the sweep: after the (guarded) `grad_fn` call the buffer is released exactly when the source's condition holds -/
theorem sweep_uses_src [Add G] (root : Nat) (retainAll : Bool) (v : Nat) (rest : List Nat) (ns : Graph G) (tr : List TrEv)
    (n : Node G) (h : ns[v]? = some n) :
    sweep root retainAll (v :: rest) ns tr =
      (let r := match n.back, n.grad with
        | some f, some g => ((f g).bind (accumulate ns n.children)).map (fun ns' => (ns', tr ++ [TrEv.call v]))
        | some _, none => none
        | none, _ => some (ns, tr)
       match r with
       | none => none
       | some (ns, tr) =>
         if backward_releases (node_is_self := decide (v = root)) (node_is_leaf := n.isLeaf) (node__retain_grad := n.retain)
             (retain_grads__ := retainAll)
         then sweep root retainAll rest (setGrad ns v none) (tr ++ [TrEv.release v])
         else sweep root retainAll rest ns tr) := by
  rw [sweep, h]
  simp only [release_cond_is_model]
  rfl

/-- the recursive traversal the engine theorems are stated for tests the same condition (it is proved equal to the
    explicit-stack machine in `Proofs.EngineStack`) -/
theorem visit_uses_src (f v : Nat) (s : DfsSt G) :
    visit (f + 1) v s =
      (if s.visited.contains v then s else
       let s := { s with visited := v :: s.visited }
       let ch := match s.ns[v]? with | some n => n.children | none => []
       let s := ch.foldl (fun s c => visit f c (zeroCheck s c)) s
       { s with ordered := s.ordered ++ [v] }) := by
  rw [visit]
  rfl

/-! ### creation rule and setters (`SynapModel/Api.lean`) -/
section Api
variable {α : Type} [Zero α]
open Synap.Api

theorem mkTensor_uses_src (st : TState α) (v : NDArray α) (dt : DType) (requiresGrad : Bool) (children : List Nat)
    (back : Option (NDArray α → Option (List (Option (NDArray α))))) :
    mkTensor st v dt requiresGrad children back =
      (let rg := creation_req_grad (requires_grad := requiresGrad) (gradient__ := st.modes.grad)
       if creation_rejects (req_grad := rg) (self_is_floating_point := dt.isFloat) then none else
       let node : Node (NDArray α) :=
         { children := if creation_keeps_children (req_grad := rg) then children else [], reqGrad := rg,
           back := if rg then back else none, retain := false, grad := none, zero := NDArray.zeros v.shape }
       some ({ st with g := st.g ++ [node], vals := st.vals ++ [v], dtypes := st.dtypes ++ [dt] }, st.g.length)) := by
  unfold mkTensor creation_req_grad creation_rejects creation_keeps_children
  rfl

theorem setRequiresGrad_uses_src (st : TState α) (i : Nat) (v : Bool) (n : Node (NDArray α)) (dt : DType)
    (hn : st.g[i]? = some n) (hd : st.dtypes[i]? = some dt) :
    setRequiresGrad st i v =
      if set_requires_grad_rejects_nonleaf (self_is_leaf := n.isLeaf) then none
      else if set_requires_grad_rejects_dtype (value := v) (self_is_floating_point := dt.isFloat) then none
      else some { st with g := st.g.zipIdx.map (fun (m, k) => if k = i then { m with reqGrad := v } else m) } := by
  unfold setRequiresGrad set_requires_grad_rejects_nonleaf set_requires_grad_rejects_dtype
  rw [hn, hd]

theorem retainGrad_uses_src (st : TState α) (i : Nat) (n : Node (NDArray α)) (hn : st.g[i]? = some n) :
    retainGrad st i =
      if retain_grad_rejects (self_requires_grad := n.reqGrad) then none
      else some { st with g := st.g.zipIdx.map (fun (m, k) => if k = i then { m with retain := true } else m) } := by
  unfold retainGrad retain_grad_rejects
  rw [hn]
end Api

/-! ### grad-mode contexts -/
theorem ctxNew_uses_src (m : Modes) :
    (ctxNew m .noGrad).prev = (no_grad_init m.grad false).2 ∧ (ctxNew m .retainGrads).prev = (retain_grads_init m.retain false).2 :=
  ⟨rfl, rfl⟩

theorem ctxEnter_uses_src (m : Modes) (c : Ctx) :
    ctxEnter m c = match c.kind with
      | .noGrad => ({ m with grad := (no_grad_enter m.grad c.prev).1 }, { c with prev := (no_grad_enter m.grad c.prev).2 })
      | .retainGrads => ({ m with retain := (retain_grads_enter m.retain c.prev).1 }, { c with prev := (retain_grads_enter m.retain c.prev).2 }) := by
  unfold ctxEnter; cases c.kind <;> rfl

theorem ctxExit_uses_src (m : Modes) (c : Ctx) :
    ctxExit m c = match c.kind with
      | .noGrad => { m with grad := (no_grad_exit m.grad c.prev).1 }
      | .retainGrads => { m with retain := (retain_grads_exit m.retain c.prev).1 } := by
  unfold ctxExit; cases c.kind <;> rfl

/-! ### the public surface Python's dispatch depends on

`a += b` on a `Tensor` is `a = a.__add__(b)` (so the flag rule proved for the binary operator applies to the augmented statement)
exactly because `Tensor` defines no in-place operator method; `Parameter(…)` is created by `Tensor.__init__` (so the creation rule
— requested flag and grad mode, float guard — applies to parameters) exactly because `Parameter` is a subclass of `Tensor` alone that
overrides neither construction nor the flag property.  Both facts are read from the class bodies on every run. -/
def inplaceOperators : List String :=
  ["__iadd__", "__isub__", "__imul__", "__itruediv__", "__ifloordiv__", "__imod__", "__ipow__", "__imatmul__",
   "__iand__", "__ior__", "__ixor__", "__ilshift__", "__irshift__"]

theorem tensor_defines_no_inplace_operator : ∀ m ∈ inplaceOperators, m ∉ tensorMethods := by decide

/-- attribute hooks that would bypass the property setters of the flags -/
theorem tensor_defines_no_attribute_hook :
    "__setattr__" ∉ tensorMethods ∧ "__getattr__" ∉ tensorMethods ∧ "__getattribute__" ∉ tensorMethods ∧ "__new__" ∉ tensorMethods ∧
    tensorBases = [] := by decide

theorem parameter_is_created_by_tensor_init :
    parameterBases = ["Tensor"] ∧ "__init__" ∉ parameterMethods ∧ "__new__" ∉ parameterMethods ∧ "requires_grad" ∉ parameterMethods ∧
    "__setattr__" ∉ parameterMethods ∧ "is_leaf" ∉ parameterMethods ∧ "backward" ∉ parameterMethods := by decide

/-! ### the statement skeletons of the two loops are the ones `stackStep` / `sweep` were written from -/
theorem traversal_skeleton_is_modelled : traversalSkeleton = [
    "ordered_nodes = []",
    "visited_nodes = set()",
    "visited_nodes.add(self)",
    "stack = [(self, iter(self._children))]",
    "while stack:",
    "  node, children = stack[-1]",
    "  for child in children:",
    "    if <backward_zero_cond>:",
    "      child.zero_()",
    "    if <backward_push_cond>:",
    "      visited_nodes.add(child)",
    "      stack.append((child, iter(child._children)))",
    "      break",
    "  else:",
    "    ordered_nodes.append(node)",
    "    stack.pop()"] := by decide

theorem sweep_skeleton_is_modelled : sweepSkeleton = [
    "for i, node in enumerate(reversed(ordered_nodes)):",
    "  if <backward_calls_grad_fn>:",
    "    node.grad_fn()",
    "  if <backward_releases>:",
    "    del node._grad",
    "    node._grad = None"] := by decide

end Proofs.EngineLogicTie
