import Proofs.EngineLogicTraversal
import Proofs.EngineLogicBuffers
import Proofs.EngineLogicFlags
/-! all ties between `Generated/EngineLogic.lean` and the engine model (the three parts are imported separately by the Props files) -/
