import Proofs.VJPDefs
import Proofs.AdjointBcastB
/-! # helpers for `Proofs.VJPBce` -/
namespace Proofs.NL
open Synap Synap.NDArray Synap.Np Synap.Kernels Proofs.Core Proofs.Calc

/-- `bcast2` of two arrays of the same shape: total, same shape, pointwise -/
theorem bce_bcast2_same {α : Type} [Zero α] (f : α → α → α) (x y : NDArray α) (hs : y.shape = x.shape) :
    ∃ z, bcast2 f x y = some z ∧ z.WF ∧ z.shape = x.shape ∧
      ∀ i, validIdx x.shape i → z.get i = f (x.get i) (y.get i) := by
  refine ⟨_, Proofs.Adjoint.bcast2_eq f x y x.shape (by rw [hs]; exact broadcastShapes_self _),
    ofFn_wf _ _, rfl, fun i hi => ?_⟩
  rw [get_ofFn _ _ _ hi, hs, Proofs.Adjoint.bcastIdx_self _ _ hi]

theorem bce_epsilon_pos : (0 : ℝ) < (epsilon : ℝ) := by
  norm_num [epsilon]

theorem bce_frac_close (E ε : ℝ) (hE : 0 < E) (hε : 0 < ε) : |E / (1 + E + ε) - E / (1 + E)| ≤ ε := by
  have h1 : (0 : ℝ) < 1 + E := by linarith
  have h2 : (0 : ℝ) < 1 + E + ε := by linarith
  have h : E / (1 + E + ε) - E / (1 + E) = -(E * ε / ((1 + E) * (1 + E + ε))) := by
    field_simp
    ring
  rw [h, abs_neg, abs_of_nonneg (by positivity), div_le_iff₀ (by positivity)]
  nlinarith [mul_pos hE hε, mul_pos hε h1, mul_pos hε h2, mul_pos (mul_pos hε h1) h2, mul_pos (mul_pos hε hE) hE,
    mul_pos (mul_pos hε hE) hε]

/-- the stabilised form equals the plain `softplus` form -/
theorem bce_logits_scalar_eq (tn x y : ℝ) :
    (1 - y) * x + tn + Real.log (Real.exp (-tn) + Real.exp (-x - tn)) = (1 - y) * x + Real.log (1 + Real.exp (-x)) := by
  have h : Real.exp (-tn) + Real.exp (-x - tn) = Real.exp (-tn) * (1 + Real.exp (-x)) := by
    rw [sub_eq_add_neg, Real.exp_add]; ring
  rw [h, Real.log_mul (Real.exp_pos _).ne' (by positivity), Real.log_exp]
  ring

theorem bce_softplus_deriv (x y : ℝ) :
    HasDerivAt (fun x => (1 - y) * x + Real.log (1 + Real.exp (-x))) ((1 - y) - 1 / (1 + Real.exp x)) x := by
  have h1 : HasDerivAt (fun x : ℝ => Real.exp (-x)) (Real.exp (-x) * (-1)) x :=
    (Real.hasDerivAt_exp (-x)).comp x (hasDerivAt_neg x)
  have h2 : HasDerivAt (fun x : ℝ => 1 + Real.exp (-x)) (Real.exp (-x) * (-1)) x := by
    simpa using h1.const_add 1
  have h3 := h2.log (by positivity)
  have h4 : HasDerivAt (fun x : ℝ => (1 - y) * x) (1 - y) x := by
    simpa using (hasDerivAt_id x).const_mul (1 - y)
  have h5 : HasDerivAt (fun x => (1 - y) * x + Real.log (1 + Real.exp (-x))) _ x := h4.add h3
  refine h5.congr_deriv ?_
  rw [Real.exp_neg]
  have : Real.exp x ≠ 0 := (Real.exp_pos x).ne'
  have : 1 + Real.exp x ≠ 0 := by positivity
  field_simp
  ring

end Proofs.NL
