import Proofs.EngineStruct
/-!
# Helper lemmas for `Proofs/EngineDuality.lean` that need no algebra

`setGrad` look-ups, a one-directional skeleton relation preserved by the sweep, the
"parents first" property of the reversed post-order, elementary facts about `Reach`, and the fact
that the post-order produced by `visit` depends only on the skeleton of the graph.
-/
namespace Proofs.Engine
open Synap.Engine

variable {G : Type}

/-! ### `setGrad` -/

-- `getElem?_setGrad` and `length_setGrad` come from `Proofs/EngineBasic.lean`

/-! ### Skeleton relation (from the current graph back to the original one) -/

/-- every node of `ns` is a node of `ns0` up to its gradient buffer -/
def DSkel (ns0 ns : Graph G) : Prop :=
  ∀ (v : Nat) (n : Node G), ns[v]? = some n → ∃ n0, ns0[v]? = some n0 ∧
    n.children = n0.children ∧ n.reqGrad = n0.reqGrad ∧ n.back = n0.back ∧ n.retain = n0.retain ∧
    n.zero = n0.zero

theorem DSkel.refl (ns : Graph G) : DSkel ns ns := fun _ n h => ⟨n, h, rfl, rfl, rfl, rfl, rfl⟩

theorem DSkel.setGrad {ns0 ns : Graph G} (h : DSkel ns0 ns) (i : Nat) (g : Option G) :
    DSkel ns0 (setGrad ns i g) := by
  intro v n hn
  rw [getElem?_setGrad] at hn
  cases hv : ns[v]? with
  | none => simp [hv] at hn
  | some m =>
    simp only [hv, Option.map_some, Option.some.injEq] at hn
    obtain ⟨n0, h0, h1, h2, h3, h4, h5⟩ := h v m hv
    refine ⟨n0, h0, ?_⟩
    subst hn
    split <;> simp_all

theorem DSkel.of_sameSkeleton {ns0 ns : Graph G} (h : SameSkeleton ns0 ns) : DSkel ns0 ns := by
  intro v n hn
  have hv : v < ns0.length := by
    have := (List.getElem?_eq_some_iff.mp hn).1
    rw [h.1] at this; exact this
  obtain ⟨n', hn', h1, h2, h3, h4, h5⟩ := h.2 v ns0[v] (List.getElem?_eq_getElem hv)
  rw [hn] at hn'
  cases hn'
  exact ⟨ns0[v], List.getElem?_eq_getElem hv, h1, h2, h3, h4, h5⟩

theorem DSkel.trans {a b c : Graph G} (h1 : DSkel a b) (h2 : DSkel b c) : DSkel a c := by
  intro v n hn
  obtain ⟨m, hm, e1, e2, e3, e4, e5⟩ := h2 v n hn
  obtain ⟨k, hk, f1, f2, f3, f4, f5⟩ := h1 v m hm
  exact ⟨k, hk, e1.trans f1, e2.trans f2, e3.trans f3, e4.trans f4, e5.trans f5⟩

theorem SameSkeleton.symm' {a b : Graph G} (h : SameSkeleton a b) : SameSkeleton b a := by
  refine ⟨h.1.symm, ?_⟩
  intro v n hn
  obtain ⟨n0, h0, e1, e2, e3, e4, e5⟩ := DSkel.of_sameSkeleton h v n hn
  exact ⟨n0, h0, e1.symm, e2.symm, e3.symm, e4.symm, e5.symm⟩

theorem Node.isLeaf_congr {n m : Node G} (h2 : n.reqGrad = m.reqGrad) (h3 : n.back = m.back) :
    n.isLeaf = m.isLeaf := by
  simp [Node.isLeaf, h2, h3]

/-! ### `Reach` -/

-- `Reach.le` comes from `Proofs/EngineStruct.lean`

theorem Reach.eq_or_child {ns : Graph G} {u v : Nat} (h : Reach ns u v) :
    u = v ∨ ChildOfReach ns u v := by
  induction h with
  | refl u => exact Or.inl rfl
  | @step u c v n hu hc hr ih =>
    right
    rcases ih with rfl | ⟨w, m, hw, hm, hv⟩
    · exact ⟨u, n, Reach.refl u, hu, hc⟩
    · exact ⟨w, m, Reach.step hu hc hw, hm, hv⟩

theorem not_childOfReach_root {ns : Graph G} (hw : WFG ns) (root : Nat) :
    ¬ ChildOfReach ns root root := by
  rintro ⟨u, m, hr, hm, hc⟩
  have h1 := Reach.le hw hr
  have h2 := hw u m hm root hc
  omega

theorem Reach.congr_skel {a b : Graph G} (h : DSkel a b) {u v : Nat} (hr : Reach b u v) :
    Reach a u v := by
  induction hr with
  | refl u => exact Reach.refl u
  | @step u c v n hu hc _ ih =>
    obtain ⟨n0, h0, e1, _⟩ := h u n hu
    exact Reach.step h0 (e1 ▸ hc) ih

theorem WFG.congr_skel {a b : Graph G} (h : DSkel a b) (hw : WFG a) : WFG b := by
  intro v n hn c hc
  obtain ⟨n0, h0, e1, _⟩ := h v n hn
  exact hw v n0 h0 c (e1 ▸ hc)

/-! ### Parents-first lists -/

/-- parents first: a node does not occur again, and all its operands occur later -/
def TopoL (ns0 : Graph G) : List Nat → Prop
  | [] => True
  | u :: tl => u ∉ tl ∧ (∀ n0, ns0[u]? = some n0 → ∀ c ∈ n0.children, c ∈ tl) ∧ TopoL ns0 tl

theorem TopoL.nodup {ns0 : Graph G} : ∀ {l : List Nat}, TopoL ns0 l → l.Nodup
  | [], _ => List.nodup_nil
  | _ :: _, h => List.nodup_cons.mpr ⟨h.1, TopoL.nodup h.2.2⟩

theorem TopoL.not_child {ns0 : Graph G} : ∀ {l : List Nat}, TopoL ns0 l → ∀ x, x ∉ l →
    ∀ u ∈ l, ∀ n0, ns0[u]? = some n0 → x ∉ n0.children
  | [], _, _, _, u, hu => by simp at hu
  | a :: t, h, x, hx, u, hu => by
    intro n0 h0 hc
    rcases List.mem_cons.mp hu with rfl | hu'
    · exact hx (List.mem_cons_of_mem _ (h.2.1 n0 h0 x hc))
    · exact TopoL.not_child h.2.2 x (fun hh => hx (List.mem_cons_of_mem _ hh)) u hu' n0 h0 hc

/-- `c` occurs strictly after `u` in `l` -/
def AfterIn (l : List Nat) (c u : Nat) : Prop := ∃ l1 l2, l = l1 ++ u :: l2 ∧ c ∈ l2

theorem AfterIn.of_beforeIn_reverse {l : List Nat} {c u : Nat} (h : BeforeIn l c u) :
    AfterIn l.reverse c u := by
  obtain ⟨l1, l2, rfl, hc⟩ := h
  refine ⟨l2.reverse, l1.reverse, by simp, by simpa using hc⟩

theorem TopoL.of_afterIn {ns0 : Graph G} : ∀ (l : List Nat), l.Nodup →
    (∀ u ∈ l, ∀ n0, ns0[u]? = some n0 → ∀ c ∈ n0.children, AfterIn l c u) → TopoL ns0 l
  | [], _, _ => trivial
  | a :: t, hnd, h => by
    have hat : a ∉ t := (List.nodup_cons.mp hnd).1
    refine ⟨hat, ?_, TopoL.of_afterIn t (List.nodup_cons.mp hnd).2 ?_⟩
    · intro n0 h0 c hc
      obtain ⟨l1, l2, e, hc2⟩ := h a (List.mem_cons_self) n0 h0 c hc
      cases l1 with
      | nil =>
        simp only [List.nil_append, List.cons.injEq, true_and] at e
        exact e ▸ hc2
      | cons b l1' =>
        simp only [List.cons_append, List.cons.injEq] at e
        exact absurd (e.2 ▸ (by simp : a ∈ l1' ++ a :: l2)) hat
    · intro u hu n0 h0 c hc
      obtain ⟨l1, l2, e, hc2⟩ := h u (List.mem_cons_of_mem _ hu) n0 h0 c hc
      cases l1 with
      | nil =>
        simp only [List.nil_append, List.cons.injEq] at e
        exact absurd (e.1 ▸ hu) hat
      | cons b l1' =>
        simp only [List.cons_append, List.cons.injEq] at e
        exact ⟨l1', l2, e.2, hc2⟩

/-! ### The post-order depends only on the `children` fields -/

/-- the zero-initialisation `visit` performs on operand `c` before descending into it -/
def zeroStep (s : DfsSt G) (c : Nat) : DfsSt G :=
  match s.ns[c]? with
  | some n =>
    if n.reqGrad && (n.grad.isNone || (!n.isLeaf && !s.visited.contains c))
    then { s with ns := setGrad s.ns c (some n.zero), trace := s.trace ++ [TrEv.zero c] }
    else s
  | none => s

/-- operands of node `v` -/
def kidsOf (ns : Graph G) (v : Nat) : List Nat :=
  match ns[v]? with | some n => n.children | none => []

theorem dual_visit_succ (f v : Nat) (s : DfsSt G) :
    visit (f + 1) v s =
      if s.visited.contains v then s else
        let s2 := (kidsOf s.ns v).foldl (fun s c => visit f c (zeroStep s c))
          { s with visited := v :: s.visited }
        { s2 with ordered := s2.ordered ++ [v] } := rfl

/-- the two graphs have the same `children` everywhere -/
def KidsEq (a b : Graph G) : Prop := ∀ v : Nat, (a[v]?).map Node.children = (b[v]?).map Node.children

theorem KidsEq.setGrad_left {a b : Graph G} (h : KidsEq a b) (i : Nat) (g : Option G) :
    KidsEq (setGrad a i g) b := by
  intro v
  rw [getElem?_setGrad, ← h v]
  cases a[v]? with
  | none => rfl
  | some n => simp only [Option.map_some]; split <;> rfl

theorem KidsEq.symm {a b : Graph G} (h : KidsEq a b) : KidsEq b a := fun v => (h v).symm

theorem KidsEq.kidsOf {a b : Graph G} (h : KidsEq a b) (v : Nat) : kidsOf a v = kidsOf b v := by
  have := h v
  unfold Proofs.Engine.kidsOf
  cases ha : a[v]? <;> cases hb : b[v]? <;> simp_all

/-- the traversal states agree on everything that steers the traversal -/
structure DfsRel (s t : DfsSt G) : Prop where
  visited : s.visited = t.visited
  ordered : s.ordered = t.ordered
  kids : KidsEq s.ns t.ns

theorem DfsRel.symm {s t : DfsSt G} (h : DfsRel s t) : DfsRel t s :=
  ⟨h.visited.symm, h.ordered.symm, h.kids.symm⟩

theorem DfsRel.zeroStep_left {s t : DfsSt G} (h : DfsRel s t) (c : Nat) :
    DfsRel (zeroStep s c) t := by
  unfold Proofs.Engine.zeroStep
  split
  · split
    · exact ⟨h.visited, h.ordered, h.kids.setGrad_left _ _⟩
    · exact h
  · exact h

theorem DfsRel.zeroStep {s t : DfsSt G} (h : DfsRel s t) (c : Nat) :
    DfsRel (zeroStep s c) (zeroStep t c) :=
  ((h.zeroStep_left c).symm.zeroStep_left c).symm

theorem visit_rel : ∀ (f v : Nat) (s t : DfsSt G), DfsRel s t → DfsRel (visit f v s) (visit f v t)
  | 0, _, _, _, h => h
  | f + 1, v, s, t, h => by
    rw [dual_visit_succ, dual_visit_succ, ← h.visited, ← h.kids.kidsOf v]
    split
    · exact h
    · have hfold : ∀ (ch : List Nat) (s t : DfsSt G), DfsRel s t →
          DfsRel (ch.foldl (fun s c => visit f c (zeroStep s c)) s)
            (ch.foldl (fun s c => visit f c (zeroStep s c)) t) := by
        intro ch
        induction ch with
        | nil => intro s t h; exact h
        | cons c cs ih =>
          intro s t h
          simp only [List.foldl_cons]
          exact ih _ _ (visit_rel f c _ _ (h.zeroStep c))
      have h2 := hfold (kidsOf s.ns v) { s with visited := v :: s.visited }
        { t with visited := v :: s.visited } ⟨rfl, h.ordered, h.kids⟩
      exact ⟨h2.visited, by simp only [h2.ordered], h2.kids⟩

/-- **The post-order only depends on the skeleton.** -/
theorem traverse_ordered_congr {a b : Graph G} (h : SameSkeleton a b) (root : Nat) :
    (traverse a root).ordered = (traverse b root).ordered := by
  unfold traverse
  rw [h.1]
  refine (visit_rel _ root ⟨[], [], a, []⟩ ⟨[], [], b, []⟩ ⟨rfl, rfl, ?_⟩).ordered
  intro v
  cases ha : a[v]? with
  | none =>
    have : b[v]? = none := by
      rw [List.getElem?_eq_none_iff] at ha ⊢
      rw [h.1]; exact ha
    simp [this]
  | some n =>
    obtain ⟨n', hn', e1, _⟩ := h.2 v n ha
    simp [hn', e1]

end Proofs.Engine
