import SynapModel.TrainMetrics
/-!
# Lemmas about `SynapModel/TrainMetrics.lean` (Evaluator state machine, history of `fit`)

Closed forms of the loops, the behaviour of `record_metrics`, the arg-max rule.  No Mathlib.
-/
namespace Synap.Train

/-! ### arg-max : the first index of the maximum -/

/-- the body of the fold in `argmax` -/
def amStep (acc : Int × Nat × Nat) (v : Int) : Int × Nat × Nat :=
  if v > acc.1 then (v, acc.2.2, acc.2.2 + 1) else (acc.1, acc.2.1, acc.2.2 + 1)

theorem argmax_cons (x : Int) (xs : List Int) : argmax (x :: xs) = (xs.foldl amStep (x, 0, 1)).2.1 := by
  unfold argmax
  congr 2

theorem am_inv (xs : List Int) : ∀ (l r : List Int) (m : Int),
    (∀ a ∈ l, a < m) → (∀ a ∈ r, a ≤ m) →
    ∃ l' m' r', l ++ m :: r ++ xs = l' ++ m' :: r' ∧
      (xs.foldl amStep (m, l.length, (l ++ m :: r).length)).2.1 = l'.length ∧
      (∀ a ∈ l', a < m') ∧ (∀ a ∈ r', a ≤ m') := by
  induction xs with
  | nil => intro l r m hl hr; exact ⟨l, m, r, by simp, by simp, hl, hr⟩
  | cons v xs ih =>
    intro l r m hl hr
    rw [List.foldl_cons]
    by_cases hv : v > m
    · have hstep : amStep (m, l.length, (l ++ m :: r).length) v = (v, (l ++ m :: r).length, ((l ++ m :: r) ++ v :: []).length) := by
        simp [amStep, hv] <;> omega
      rw [hstep]
      have := ih (l ++ m :: r) [] v (by
        intro a ha
        rcases List.mem_append.mp ha with h | h
        · exact Int.lt_trans (hl a h) hv
        · rcases List.mem_cons.mp h with h | h
          · subst h; exact hv
          · exact Int.lt_of_le_of_lt (hr a h) hv) (by simp)
      obtain ⟨l', m', r', e1, e2, e3, e4⟩ := this
      exact ⟨l', m', r', by simpa using e1, by simpa using e2, e3, e4⟩
    · have hstep : amStep (m, l.length, (l ++ m :: r).length) v = (m, l.length, (l ++ m :: (r ++ [v])).length) := by
        simp [amStep, hv]; omega
      rw [hstep]
      have := ih l (r ++ [v]) m hl (by
        intro a ha
        rcases List.mem_append.mp ha with h | h
        · exact hr a h
        · have : a = v := by simpa using h
          subst this; exact Int.not_lt.mp hv)
      obtain ⟨l', m', r', e1, e2, e3, e4⟩ := this
      exact ⟨l', m', r', by simpa using e1, e2, e3, e4⟩

/-- `np.argmax` of a non-empty row: the row splits as `l ++ m :: r` with `argmax = |l|`, every entry
    before strictly smaller, every entry after not larger -/
theorem argmax_split (row : List Int) (h : row ≠ []) :
    ∃ l m r, row = l ++ m :: r ∧ argmax row = l.length ∧ (∀ a ∈ l, a < m) ∧ (∀ a ∈ r, a ≤ m) := by
  cases row with
  | nil => exact absurd rfl h
  | cons x xs =>
    obtain ⟨l', m', r', e1, e2, e3, e4⟩ := am_inv xs [] [] x (by simp) (by simp)
    refine ⟨l', m', r', by simpa using e1, ?_, e3, e4⟩
    rw [argmax_cons]
    simpa using e2

/-! ### the evaluator -/

theorem batchTrue_append (cfg : EvCfg) (a b : List Sample) : batchTrue cfg (a ++ b) = batchTrue cfg a ++ batchTrue cfg b := by
  simp [batchTrue]
theorem batchPred_append (cfg : EvCfg) (a b : List Sample) : batchPred cfg (a ++ b) = batchPred cfg a ++ batchPred cfg b := by
  simp [batchPred]
@[simp] theorem batchTrue_length (cfg : EvCfg) (a : List Sample) : (batchTrue cfg a).length = a.length := by simp [batchTrue]
@[simp] theorem batchPred_length (cfg : EvCfg) (a : List Sample) : (batchPred cfg a).length = a.length := by simp [batchPred]

/-- is the (int16) decoded prediction of the sample equal to its (int16) decoded label? -/
def correct (cfg : EvCfg) (s : Sample) : Bool :=
  decide (wrap16 (decodeTrue cfg.mode s) = wrap16 (decodePred cfg.mode cfg.scale s))

/-- number of correctly predicted samples -/
def correctCount (cfg : EvCfg) (ss : List Sample) : Nat := (ss.filter (correct cfg)).length

theorem countEq_batch (cfg : EvCfg) (ss : List Sample) :
    countEq (batchTrue cfg ss) (batchPred cfg ss) = correctCount cfg ss := by
  induction ss with
  | nil => rfl
  | cons s ss ih =>
    simp only [countEq, batchTrue, batchPred, List.map_cons, List.zipWith_cons_cons, List.sum_cons] at ih ⊢
    rw [ih]
    by_cases h : wrap16 (decodeTrue cfg.mode s) = wrap16 (decodePred cfg.mode cfg.scale s)
    · simp [correctCount, correct, h]; omega
    · simp [correctCount, correct, h]

theorem evStep_some (cfg : EvCfg) (st : EvState) (pre : Option String) (b : List Sample) (r : EvState × List Metric)
    (h : evStep cfg st pre b = some r) :
    stepOk cfg.mode b = true ∧ r.1 = ⟨st.yTrue ++ batchTrue cfg b, st.yPred ++ batchPred cfg b⟩ ∧
    r.2 = computeMetrics cfg (batchTrue cfg b) (batchPred cfg b) pre cfg.stepCb := by
  unfold evStep at h
  by_cases hok : stepOk cfg.mode b = true
  · simp [hok] at h; subst h; exact ⟨hok, rfl, rfl⟩
  · simp [hok] at h

theorem evStep_ok (cfg : EvCfg) (st : EvState) (pre : Option String) (b : List Sample) (hok : stepOk cfg.mode b = true) :
    evStep cfg st pre b = some (⟨st.yTrue ++ batchTrue cfg b, st.yPred ++ batchPred cfg b⟩,
      computeMetrics cfg (batchTrue cfg b) (batchPred cfg b) pre cfg.stepCb) := by
  simp [evStep, hok]

/-- any sequence of admissible steps appends the decoded labels / predictions of all its samples, in order -/
theorem evSteps_ok (cfg : EvCfg) (pre : Option String) (bs : List (List Sample)) :
    ∀ st : EvState, (∀ b ∈ bs, stepOk cfg.mode b = true) →
    evSteps cfg pre st bs = some ⟨st.yTrue ++ batchTrue cfg bs.flatten, st.yPred ++ batchPred cfg bs.flatten⟩ := by
  induction bs with
  | nil => intro st _; simp [evSteps, batchTrue, batchPred]
  | cons b bs ih =>
    intro st hok
    rw [evSteps, evStep_ok cfg st pre b (hok b (by simp))]
    simp only [Option.bind_some]
    rw [ih _ (fun b' hb' => hok b' (by simp [hb']))]
    simp [batchTrue_append, batchPred_append, List.append_assoc]

/-! ### the batch loops of `__train` / `__validate` -/

def samplesOf (bs : List LBatch) : List Sample := bs.flatMap (·.samples)
def lossSum (bs : List LBatch) : Rat := (bs.map (·.loss)).sum
/-- the mean of the batch losses -/
def meanLoss (bs : List LBatch) : Rat := lossSum bs / (bs.length : Rat)

/-- the evaluator's buffers after it has seen the batches `bs` on top of `st` -/
def stAfter (ev : Option EvCfg) (st : EvState) (bs : List LBatch) : EvState :=
  match ev with
  | none => st
  | some cfg => ⟨st.yTrue ++ batchTrue cfg (samplesOf bs), st.yPred ++ batchPred cfg (samplesOf bs)⟩

theorem batchLoop_spec (ev : Option EvCfg) (pre : Option String) (bs : List LBatch) :
    ∀ (st : EvState) (acc : Rat) (st' : EvState) (r : Rat), batchLoop ev pre st acc bs = some (st', r) →
      r = acc + lossSum bs ∧ st' = stAfter ev st bs := by
  induction bs with
  | nil =>
    intro st acc st' r h
    simp only [batchLoop, Option.some.injEq, Prod.mk.injEq] at h
    obtain ⟨rfl, rfl⟩ := h
    cases ev <;> simp [lossSum, stAfter, samplesOf, batchTrue, batchPred, Rat.add_zero]
  | cons b bs ih =>
    intro st acc st' r h
    cases ev with
    | none =>
      simp only [batchLoop] at h
      obtain ⟨h1, h2⟩ := ih st (acc + b.loss) st' r h
      refine ⟨?_, ?_⟩
      · rw [h1]; simp [lossSum, List.sum_cons, Rat.add_assoc]
      · simpa [stAfter] using h2
    | some cfg =>
      simp only [batchLoop] at h
      cases hs : evStep cfg st pre b.samples with
      | none => simp [hs] at h
      | some r1 =>
        simp only [hs, Option.bind_some] at h
        obtain ⟨_, e1, _⟩ := evStep_some cfg st pre b.samples r1 hs
        obtain ⟨h1, h2⟩ := ih r1.1 (acc + b.loss) st' r h
        refine ⟨?_, ?_⟩
        · rw [h1]; simp [lossSum, List.sum_cons, Rat.add_assoc]
        · rw [h2, e1]
          simp [stAfter, samplesOf, batchTrue_append, batchPred_append, List.append_assoc]

/-- the metric list one `__train` / `__validate` returns when the evaluator was found in state `st` -/
def specMetrics (ev : Option EvCfg) (pre : Option String) (lossKey : String) (st : EvState) (bs : List LBatch) : List Metric :=
  [(lossKey, .num (meanLoss bs))] ++
    (match ev with
     | none => []
     | some cfg => computeMetrics cfg (stAfter ev st bs).yTrue (stAfter ev st bs).yPred pre cfg.epochCb)

theorem epochMetrics_spec (ev : Option EvCfg) (pre : Option String) (lossKey : String) (st : EvState) (bs : List LBatch)
    (st' : EvState) (ms : List Metric) (h : epochMetrics ev pre lossKey st bs = some (st', ms)) :
    bs ≠ [] ∧ ms = specMetrics ev pre lossKey st bs ∧
    st' = (match ev with | none => st | some _ => EvState.empty) := by
  unfold epochMetrics at h
  cases hl : batchLoop ev pre st 0 bs with
  | none => simp [hl] at h
  | some p =>
    obtain ⟨s1, r⟩ := p
    obtain ⟨h1, h2⟩ := batchLoop_spec ev pre bs st 0 s1 r hl
    simp only [hl] at h
    by_cases he : bs.isEmpty = true
    · simp [he] at h
    · simp only [he] at h
      have hne : bs ≠ [] := by intro e; subst e; simp at he
      refine ⟨hne, ?_⟩
      have hr : r = lossSum bs := by rw [h1, Rat.zero_add]
      cases ev with
      | none =>
        simp only [Bool.false_eq_true, ↓reduceIte, Option.some.injEq, Prod.mk.injEq] at h
        obtain ⟨rfl, rfl⟩ := h
        exact ⟨by simp [specMetrics, meanLoss, hr], by simpa [stAfter] using h2⟩
      | some cfg =>
        simp only [Bool.false_eq_true, ↓reduceIte, evCompute, evReset, Option.some.injEq, Prod.mk.injEq] at h
        obtain ⟨rfl, rfl⟩ := h
        exact ⟨by simp [specMetrics, meanLoss, hr, h2], rfl⟩

/-! ### `record_metrics` -/

/-- the update `recordOne` applies to every entry when the key is present -/
def upd (k : String) (v : MVal) (e : String × List MVal) : String × List MVal :=
  if e.1 == k then (e.1, e.2 ++ [v]) else e

@[simp] theorem upd_fst (k : String) (v : MVal) (e : String × List MVal) : (upd k v e).1 = e.1 := by
  unfold upd; split <;> rfl

theorem histGet_map_upd (h : Hist) (k k' : String) (v : MVal) :
    histGet (h.map (upd k v)) k' = match h.find? (fun e => e.1 == k') with
      | some e => (upd k v e).2
      | none => [] := by
  have hcomp : ((fun e : String × List MVal => e.1 == k') ∘ upd k v) = (fun e => e.1 == k') := by
    funext e; simp
  unfold histGet
  rw [List.find?_map, hcomp]
  cases h.find? (fun e => e.1 == k') <;> rfl

theorem histGet_recordOne (h : Hist) (k k' : String) (v : MVal) :
    histGet (recordOne h k v) k' = histGet h k' ++ (if k = k' then [v] else []) := by
  unfold recordOne
  by_cases hany : h.any (fun e => e.1 == k) = true
  · simp only [hany, ↓reduceIte]
    have hm := histGet_map_upd h k k' v
    unfold upd at hm
    rw [hm]
    unfold histGet
    cases hf : h.find? (fun e => e.1 == k') with
    | none =>
      by_cases hk : k = k'
      · subst hk
        obtain ⟨e, he, hek⟩ := List.any_eq_true.mp hany
        have := List.find?_eq_none.mp hf e he
        exact absurd hek this
      · simp [hk]
    | some e =>
      have hek' : e.1 = k' := by simpa using List.find?_some hf
      by_cases hk : k = k'
      · subst hk; simp [hek']
      · have : ¬ e.1 = k := by intro e'; exact hk (e'.symm.trans hek')
        simp [hk, this]
  · have hnone : ∀ e ∈ h, ¬ e.1 = k := by
      intro e he hek
      apply hany
      exact List.any_eq_true.mpr ⟨e, he, by simpa using hek⟩
    simp only [hany, Bool.false_eq_true, ↓reduceIte]
    by_cases hk : k = k'
    · subst hk
      have : h.find? (fun e => e.1 == k) = none := by
        apply List.find?_eq_none.mpr
        intro e he; simpa using hnone e he
      simp [histGet, List.find?_append, this]
    · have hkb : (k == k') = false := by simpa using hk
      simp only [hk, ↓reduceIte, List.append_nil, histGet, List.find?_append]
      cases hf : List.find? (fun e => e.1 == k') h with
      | some e => simp
      | none => simp [hkb]

/-- values of the metrics named `k`, in order -/
def valuesNamed (k : String) (ms : List Metric) : List MVal := (ms.filter (fun m => m.1 == k)).map (·.2)

theorem valuesNamed_append (k : String) (a b : List Metric) : valuesNamed k (a ++ b) = valuesNamed k a ++ valuesNamed k b := by
  simp [valuesNamed]

/-- `record_metrics` appends, to the list of every key, the values of the pairs of that name (in order) — whatever
    the names are -/
theorem histGet_record (ms : List Metric) : ∀ (h h' : Hist), record h ms = some h' →
    ∀ k, histGet h' k = histGet h k ++ valuesNamed k ms := by
  induction ms with
  | nil => intro h h' e k; simp [record] at e; subst e; simp [valuesNamed]
  | cons m ms ih =>
    intro h h' e k
    obtain ⟨mk, mv⟩ := m
    simp only [record] at e
    by_cases hf : mv.isFloating = true
    · simp only [hf, ↓reduceIte] at e
      rw [ih _ _ e k, histGet_recordOne]
      by_cases hk : mk = k
      · subst hk; simp [valuesNamed]
      · have : (mk == k) = false := by simpa using hk
        simp [valuesNamed, hk, this]
    · simp [hf] at e

theorem record_append (a b : List Metric) : ∀ h : Hist, record h (a ++ b) = (record h a).bind (fun h' => record h' b) := by
  induction a with
  | nil => intro h; simp [record]
  | cons m a ih =>
    intro h
    obtain ⟨mk, mv⟩ := m
    simp only [List.cons_append, record]
    by_cases hf : mv.isFloating = true
    · simp [hf, ih]
    · simp [hf]

/-! ### keys of the history -/

/-- keys in insertion order after recording pairs named `new` on top of keys `ks` -/
def addKeys (ks new : List String) : List String := new.foldl (fun ks k => if k ∈ ks then ks else ks ++ [k]) ks

theorem keys_recordOne (h : Hist) (k : String) (v : MVal) :
    (recordOne h k v).map Prod.fst = if k ∈ h.map Prod.fst then h.map Prod.fst else h.map Prod.fst ++ [k] := by
  unfold recordOne
  by_cases hany : h.any (fun e => e.1 == k) = true
  · have hmem : k ∈ h.map Prod.fst := by
      obtain ⟨e, he, hek⟩ := List.any_eq_true.mp hany
      exact List.mem_map.mpr ⟨e, he, by simpa using hek⟩
    simp only [hany, ↓reduceIte, hmem, List.map_map]
    apply List.map_congr_left
    intro e _
    exact upd_fst k v e
  · have hmem : ¬ k ∈ h.map Prod.fst := by
      intro hm
      obtain ⟨e, he, hek⟩ := List.mem_map.mp hm
      exact hany (List.any_eq_true.mpr ⟨e, he, by simpa using hek⟩)
    simp [hany, hmem]

theorem keys_record (ms : List Metric) : ∀ (h h' : Hist), record h ms = some h' →
    h'.map Prod.fst = addKeys (h.map Prod.fst) (ms.map Prod.fst) := by
  induction ms with
  | nil => intro h h' e; simp [record] at e; subst e; simp [addKeys]
  | cons m ms ih =>
    intro h h' e
    obtain ⟨mk, mv⟩ := m
    simp only [record] at e
    by_cases hf : mv.isFloating = true
    · simp only [hf, ↓reduceIte] at e
      rw [ih _ _ e, keys_recordOne]
      simp [addKeys]
    · simp [hf] at e

theorem addKeys_fresh (new : List String) : ∀ ks : List String, (ks ++ new).Nodup → addKeys ks new = ks ++ new := by
  induction new with
  | nil => intro ks _; simp [addKeys]
  | cons k new ih =>
    intro ks hnd
    have hk : ¬ k ∈ ks := by
      intro hm
      have := (List.nodup_append.mp hnd).2.2 k hm k (by simp)
      exact this rfl
    have : addKeys ks (k :: new) = addKeys (ks ++ [k]) new := by simp [addKeys, hk]
    rw [this, ih (ks ++ [k]) (by simpa [List.append_assoc] using hnd)]
    simp

theorem addKeys_known (new : List String) : ∀ ks : List String, (∀ k ∈ new, k ∈ ks) → addKeys ks new = ks := by
  induction new with
  | nil => intro ks _; simp [addKeys]
  | cons k new ih =>
    intro ks hsub
    have hk : k ∈ ks := hsub k (by simp)
    have : addKeys ks (k :: new) = addKeys ks new := by simp [addKeys, hk]
    rw [this]
    exact ih ks (fun k' hk' => hsub k' (by simp [hk']))

theorem valuesNamed_of_nodup (ms : List Metric) (k : String) (v : MVal) (hnd : (ms.map Prod.fst).Nodup) (hm : (k, v) ∈ ms) :
    valuesNamed k ms = [v] := by
  induction ms with
  | nil => simp at hm
  | cons m ms ih =>
    obtain ⟨mk, mv⟩ := m
    simp only [List.map_cons, List.nodup_cons] at hnd
    rcases List.mem_cons.mp hm with h | h
    · have h1 : k = mk := by injection h
      have h2 : v = mv := by injection h
      subst h1; subst h2
      have : ∀ m ∈ ms, ¬ m.1 = k := by
        intro m hm' e
        exact hnd.1 (List.mem_map.mpr ⟨m, hm', e⟩)
      have hfil : ms.filter (fun m => m.1 == k) = [] := by
        apply List.filter_eq_nil_iff.mpr
        intro m hm'; simpa using this m hm'
      simp [valuesNamed, hfil]
    · have hne : ¬ mk = k := by
        intro e
        exact hnd.1 (List.mem_map.mpr ⟨(k, v), h, e.symm⟩)
      have : (mk == k) = false := by simpa using hne
      simp only [valuesNamed, List.filter_cons, this] at ih ⊢
      exact ih hnd.2 h

theorem valuesNamed_length_of_nodup (ms : List Metric) (k : String) (hnd : (ms.map Prod.fst).Nodup) (hm : k ∈ ms.map Prod.fst) :
    (valuesNamed k ms).length = 1 := by
  obtain ⟨m, hm1, hm2⟩ := List.mem_map.mp hm
  obtain ⟨mk, mv⟩ := m
  simp only at hm2
  subst hm2
  rw [valuesNamed_of_nodup ms mk mv hnd hm1]; rfl

/-! ### `fit` -/

/-- the metric pairs one epoch of `fit` records (training, then validation), evaluator found empty -/
def epochSpec (ev : Option EvCfg) (hasVal : Bool) (d : EpochData) : List Metric :=
  specMetrics ev none "loss" EvState.empty d.train ++
    (if hasVal then specMetrics ev (some "val") "val_loss" EvState.empty d.val else [])

theorem epochV_spec (ev : Option EvCfg) (hasVal : Bool) (h h' : Hist) (d : EpochData) (st' : EvState)
    (e : epochV ev hasVal EvState.empty h d = some (st', h')) :
    st' = EvState.empty ∧ record h (epochSpec ev hasVal d) = some h' ∧ d.train ≠ [] ∧ (hasVal = true → d.val ≠ []) := by
  unfold epochV at e
  cases ht : trainEpochV ev EvState.empty d.train with
  | none => simp [ht] at e
  | some p =>
    obtain ⟨s1, tm⟩ := p
    obtain ⟨t1, t2, t3⟩ := epochMetrics_spec ev none "loss" EvState.empty d.train s1 tm ht
    have hs1 : s1 = EvState.empty := by cases ev <;> simpa using t3
    subst hs1
    simp only [ht] at e
    cases hr : record h tm with
    | none => simp [hr] at e
    | some h1 =>
      simp only [hr] at e
      cases hv : hasVal with
      | false =>
        simp only [hv, Bool.false_eq_true, ↓reduceIte, Option.some.injEq, Prod.mk.injEq] at e
        obtain ⟨rfl, rfl⟩ := e
        refine ⟨rfl, ?_, t1, by simp⟩
        simp [epochSpec, ← t2, hr]
      | true =>
        simp only [hv, ↓reduceIte] at e
        cases hvm : validateV ev EvState.empty d.val with
        | none => simp [hvm] at e
        | some q =>
          obtain ⟨s2, vm⟩ := q
          obtain ⟨v1, v2, v3⟩ := epochMetrics_spec ev (some "val") "val_loss" EvState.empty d.val s2 vm hvm
          have hs2 : s2 = EvState.empty := by cases ev <;> simpa using v3
          subst hs2
          simp only [hvm] at e
          cases hr2 : record h1 vm with
          | none => simp [hr2] at e
          | some h2 =>
            simp only [hr2, Option.some.injEq, Prod.mk.injEq] at e
            obtain ⟨rfl, rfl⟩ := e
            refine ⟨rfl, ?_, t1, fun _ => v1⟩
            simp only [epochSpec, ↓reduceIte, record_append, ← t2, hr, Option.bind_some, ← v2, hr2]

theorem fitV_spec (ev : Option EvCfg) (hasVal : Bool) (ds : List EpochData) :
    ∀ (h H : Hist) (st : EvState), fitV ev hasVal EvState.empty h ds = some (st, H) →
      st = EvState.empty ∧
      (∀ k, histGet H k = histGet h k ++ ds.flatMap (fun d => valuesNamed k (epochSpec ev hasVal d))) ∧
      H.map Prod.fst = ds.foldl (fun ks d => addKeys ks ((epochSpec ev hasVal d).map Prod.fst)) (h.map Prod.fst) ∧
      (∀ d ∈ ds, d.train ≠ [] ∧ (hasVal = true → d.val ≠ [])) := by
  induction ds with
  | nil => intro h H st e; simp [fitV] at e; obtain ⟨rfl, rfl⟩ := e; simp
  | cons d ds ih =>
    intro h H st e
    simp only [fitV] at e
    cases he : epochV ev hasVal EvState.empty h d with
    | none => simp [he] at e
    | some p =>
      obtain ⟨s1, h1⟩ := p
      obtain ⟨rfl, hrec, hne⟩ := epochV_spec ev hasVal h h1 d s1 he
      simp only [he, Option.bind_some] at e
      obtain ⟨i1, i2, i3, i4⟩ := ih h1 H st e
      refine ⟨i1, ?_, ?_, ?_⟩
      · intro k
        rw [i2 k, histGet_record _ _ _ hrec k]
        simp [List.append_assoc]
      · rw [i3, keys_record _ _ _ hrec]
        simp
      · intro d' hd'
        rcases List.mem_cons.mp hd' with h' | h'
        · subst h'; exact hne
        · exact i4 d' h'

end Synap.Train
