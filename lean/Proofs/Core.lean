import SynapModel.Core.NDArray
import Mathlib.Algebra.BigOperators.Group.Finset.Basic
import Mathlib.Algebra.BigOperators.Ring.Finset
import Mathlib.Algebra.BigOperators.Group.List.Basic
import Mathlib.Algebra.Ring.Defs
import Mathlib.Data.List.Nodup
/-!
# Core lemmas about shapes, row-major enumeration and arrays in index-function form

`get_ofFn` moves every kernel theorem to the level of index functions; `gather_scatter_adjoint`
is the one generic fact behind the vector-Jacobian products of all data-movement ops:
the adjoint of *gather by an index map φ* is *scatter-add by φ*.
-/
namespace Proofs.Core
open Synap Synap.NDArray

theorem size_nil : Shape.size ([] : Shape) = 1 := rfl
theorem size_cons (n : Nat) (s : Shape) : Shape.size (n :: s) = n * Shape.size s := rfl

/-! ### enumeration -/
theorem size_eq_prod (s : Shape) : Shape.size s = s.prod := by
  induction s with
  | nil => rfl
  | cons n s ih => rw [size_cons, List.prod_cons, ih]

theorem length_allIdx (s : Shape) : (allIdx s).length = Shape.size s := by
  induction s with
  | nil => rfl
  | cons n s ih =>
    simp only [allIdx, List.length_flatMap, List.length_map, ih, size_cons]
    induction n with
    | zero => simp
    | succ m ihm => rw [List.range_succ, List.map_append, List.sum_append, ihm]; simp [Nat.add_mul]

theorem mem_allIdx (s : Shape) (i : Idx) : i ∈ allIdx s ↔ validIdx s i := by
  induction s generalizing i with
  | nil => cases i <;> simp [allIdx, validIdx]
  | cons n s ih =>
    cases i with
    | nil => simp [allIdx, validIdx]
    | cons a i => simp [allIdx, validIdx, List.mem_flatMap, List.mem_map, ih]

theorem allIdx_nodup (s : Shape) : (allIdx s).Nodup := by
  induction s with
  | nil => simp [allIdx]
  | cons n s ih =>
    rw [allIdx, List.nodup_flatMap]
    refine ⟨fun a _ => ih.map (List.cons_injective), ?_⟩
    refine List.Pairwise.imp_of_mem ?_ (List.nodup_range (n := n))
    intro a b _ _ hab
    simp only [Function.onFun, List.disjoint_left, List.mem_map]
    rintro x ⟨i, _, rfl⟩ ⟨k, _, hk⟩
    exact hab (List.cons.inj hk).1.symm

theorem validIdxB_iff (s : Shape) (i : Idx) : validIdxB s i = true ↔ validIdx s i := by
  induction s generalizing i with
  | nil => cases i <;> simp [validIdxB, validIdx]
  | cons n s ih => cases i <;> simp [validIdxB, validIdx, ih]

theorem validIdx_length (s : Shape) (i : Idx) (h : validIdx s i) : i.length = s.length := by
  induction s generalizing i with
  | nil => cases i <;> simp_all [validIdx]
  | cons n s ih =>
    cases i with
    | nil => simp [validIdx] at h
    | cons a i => simp [ih i h.2]

theorem ravel_lt (s : Shape) (i : Idx) (h : validIdx s i) : ravel s i < Shape.size s := by
  induction s generalizing i with
  | nil => cases i <;> simp_all [validIdx, ravel, size_nil]
  | cons n s ih =>
    cases i with
    | nil => simp [validIdx] at h
    | cons a i =>
      obtain ⟨ha, hi⟩ := h
      have := ih i hi
      simp only [ravel, size_cons]
      calc a * Shape.size s + ravel s i < a * Shape.size s + Shape.size s := by omega
        _ = (a + 1) * Shape.size s := by rw [Nat.add_mul]; simp
        _ ≤ n * Shape.size s := Nat.mul_le_mul_right _ ha

/-- blocks of uniform length -/
theorem getElem?_flatMap_range {β} (n P : Nat) (g : Nat → List β) (hg : ∀ a, (g a).length = P)
    (a r : Nat) (ha : a < n) (hr : r < P) :
    ((List.range n).flatMap g)[a * P + r]? = (g a)[r]? := by
  induction n with
  | zero => omega
  | succ n ih =>
    rw [List.range_succ, List.flatMap_append]
    have hlen : ((List.range n).flatMap g).length = n * P := by
      rw [List.length_flatMap]
      have : (List.map (fun a => (g a).length) (List.range n)) = List.replicate n P := by
        apply List.ext_getElem <;> simp [hg]
      rw [this]; simp
    by_cases h : a < n
    · rw [List.getElem?_append_left, ih h]
      rw [hlen]
      calc a * P + r < a * P + P := by omega
        _ = (a+1) * P := by rw [Nat.add_mul]; simp
        _ ≤ n * P := Nat.mul_le_mul_right _ h
    · have : a = n := by omega
      subst this
      rw [List.getElem?_append_right (by rw [hlen]; omega), hlen]
      simp

/-- the `ravel s i`-th entry of the enumeration is `i` -/
theorem allIdx_ravel (s : Shape) (i : Idx) (h : validIdx s i) : (allIdx s)[ravel s i]? = some i := by
  induction s generalizing i with
  | nil => cases i <;> simp_all [validIdx, ravel, allIdx]
  | cons n s ih =>
    cases i with
    | nil => simp [validIdx] at h
    | cons a i =>
      obtain ⟨ha, hi⟩ := h
      have hr := ravel_lt s i hi
      simp only [allIdx, ravel]
      rw [getElem?_flatMap_range n (Shape.size s) _ (by intro a; simp [length_allIdx]) a _ ha hr]
      simp [ih i hi]

theorem unravel_ravel (s : Shape) (i : Idx) (h : validIdx s i) : unravel s (ravel s i) = i := by
  induction s generalizing i with
  | nil => cases i <;> simp_all [validIdx, unravel]
  | cons n s ih =>
    cases i with
    | nil => simp [validIdx] at h
    | cons a i =>
      obtain ⟨ha, hi⟩ := h
      have hr := ravel_lt s i hi
      have hpos : 0 < Shape.size s := by omega
      simp only [ravel, unravel]
      rw [Nat.mul_comm, Nat.mul_add_div hpos, Nat.mul_add_mod, Nat.div_eq_of_lt hr, Nat.mod_eq_of_lt hr,
        ih i hi]
      simp

theorem ravel_unravel (s : Shape) (k : Nat) (h : k < Shape.size s) :
    validIdx s (unravel s k) ∧ ravel s (unravel s k) = k := by
  induction s generalizing k with
  | nil => simp [size_nil] at h; simp [unravel, validIdx, ravel, h]
  | cons n s ih =>
    rw [size_cons] at h
    have hpos : 0 < Shape.size s := by
      rcases Nat.eq_zero_or_pos (Shape.size s) with h0 | h0
      · rw [h0] at h; omega
      · exact h0
    obtain ⟨h1, h2⟩ := ih (k % Shape.size s) (Nat.mod_lt _ hpos)
    refine ⟨⟨?_, h1⟩, ?_⟩
    · exact (Nat.div_lt_iff_lt_mul hpos).2 h
    · simp only [unravel, ravel, h2]
      exact Nat.div_add_mod' k (Shape.size s)

/-! ### arrays -/
variable {α : Type}

theorem ofFn_shape (s : Shape) (f : Idx → α) : (ofFn s f).shape = s := rfl

theorem ofFn_wf (s : Shape) (f : Idx → α) : (ofFn s f).WF := by
  simp [WF, ofFn, length_allIdx]

/-- **the fundamental lemma**: reading an index-function array at a valid index gives the function value -/
theorem get_ofFn [Zero α] (s : Shape) (f : Idx → α) (i : Idx) (h : validIdx s i) : (ofFn s f).get i = f i := by
  simp [NDArray.get, ofFn, List.getD_eq_getElem?_getD, List.getElem?_map, allIdx_ravel s i h]

/-- extensionality: well-formed arrays of equal shape that agree at every valid index are equal -/
theorem ext_get [Zero α] (x y : NDArray α) (hx : x.WF) (hy : y.WF) (hs : x.shape = y.shape)
    (h : ∀ i, validIdx x.shape i → x.get i = y.get i) : x = y := by
  obtain ⟨sx, dx⟩ := x
  obtain ⟨sy, dy⟩ := y
  simp only [WF] at hx hy
  simp only at hs
  subst hs
  congr 1
  apply List.ext_getElem (by rw [hx, hy])
  intro k h1 h2
  obtain ⟨hv, hr⟩ := ravel_unravel sx k (hx ▸ h1)
  have := h _ hv
  simp only [NDArray.get, hr, List.getD_eq_getElem?_getD] at this
  simpa [h1, h2] using this

/-- a well-formed array is the index-function array of its own `get` -/
theorem ofFn_get [Zero α] (x : NDArray α) (hx : x.WF) : ofFn x.shape x.get = x :=
  ext_get _ _ (ofFn_wf _ _) hx rfl (fun _ hi => get_ofFn _ _ _ hi)

theorem get_gather [Zero α] (outShape : Shape) (φ : Idx → Idx) (x : NDArray α) (j : Idx) (h : validIdx outShape j) :
    (gather outShape φ x).get j = x.get (φ j) :=
  get_ofFn _ _ _ h

theorem get_scatterAdd [Zero α] [Add α] (inShape gShape : Shape) (φ : Idx → Idx) (g : NDArray α) (i : Idx)
    (h : validIdx inShape i) :
    (scatterAdd inShape gShape φ g).get i = (((allIdx gShape).filter (fun j => φ j == i)).map g.get).sum :=
  get_ofFn _ _ _ h

/-! ### the pairing and the adjoint of gather -/
section Ring
variable {R : Type} [CommSemiring R]

/-- `dot x y` as a sum over the valid indices of `x`'s shape -/
theorem dot_eq_sum (x y : NDArray R) :
    dot x y = ((allIdx x.shape).map (fun i => x.get i * y.get i)).sum := rfl

theorem dot_comm (x y : NDArray R) (hs : x.shape = y.shape) : dot x y = dot y x := by
  simp only [dot, hs, mul_comm]

/-- `dot` against an index-function array, as a sum of function values -/
theorem dot_ofFn (s : Shape) (f : Idx → R) (y : NDArray R) :
    dot (ofFn s f) y = ((allIdx s).map (fun i => f i * y.get i)).sum := by
  rw [dot_eq_sum, ofFn_shape]
  congr 1
  apply List.map_congr_left
  intro i hi
  rw [get_ofFn s f i ((mem_allIdx s i).1 hi)]

/-- bilinearity in the first argument, at the level of index functions -/
theorem dot_ofFn_add (s : Shape) (f g : Idx → R) (y : NDArray R) :
    dot (ofFn s (fun i => f i + g i)) y = dot (ofFn s f) y + dot (ofFn s g) y := by
  simp only [dot_ofFn, add_mul, List.sum_map_add]

theorem dot_ofFn_smul (s : Shape) (c : R) (f : Idx → R) (y : NDArray R) :
    dot (ofFn s (fun i => c * f i)) y = c * dot (ofFn s f) y := by
  simp only [dot_ofFn, mul_assoc, List.sum_map_mul_left]

/-- the Finset-level adjoint identity -/
theorem finset_gather_scatter_adjoint {ι κ : Type} [DecidableEq ι]
    (I : Finset ι) (J : Finset κ) (φ : κ → ι) (hφ : ∀ j ∈ J, φ j ∈ I)
    (x : ι → R) (g : κ → R) :
    ∑ j ∈ J, x (φ j) * g j = ∑ i ∈ I, x i * ∑ j ∈ J with φ j = i, g j := by
  simp_rw [Finset.mul_sum]
  rw [← Finset.sum_fiberwise_of_maps_to hφ]
  apply Finset.sum_congr rfl
  intro i _
  apply Finset.sum_congr rfl
  intro j hj
  rw [(Finset.mem_filter.mp hj).2]

/-- **Adjoint of gather is scatter-add.**  For any index map `φ` sending valid indices of the
    output shape to valid indices of the input shape:
    `⟪gather φ v, g⟫ = ⟪v, scatterAdd φ g⟫`. -/
theorem gather_scatter_adjoint (inShape outShape : Shape) (φ : Idx → Idx)
    (hφ : ∀ j, validIdx outShape j → validIdx inShape (φ j))
    (v g : NDArray R) (hv : v.shape = inShape) :
    dot (gather outShape φ v) g = dot v (scatterAdd inShape outShape φ g) := by
  subst hv
  rw [gather, dot_ofFn, dot_eq_sum]
  have hR : ((allIdx v.shape).map (fun i => v.get i * (scatterAdd v.shape outShape φ g).get i)).sum
      = ((allIdx v.shape).map (fun i => v.get i *
          (((allIdx outShape).filter (fun j => φ j == i)).map g.get).sum)).sum := by
    congr 1
    apply List.map_congr_left
    intro i hi
    rw [get_scatterAdd _ _ _ _ _ ((mem_allIdx _ i).1 hi)]
  rw [hR, ← List.sum_toFinset _ (allIdx_nodup outShape), ← List.sum_toFinset _ (allIdx_nodup v.shape)]
  rw [finset_gather_scatter_adjoint (allIdx v.shape).toFinset (allIdx outShape).toFinset φ
    (by
      intro j hj
      rw [List.mem_toFinset, mem_allIdx] at hj ⊢
      exact hφ j hj)]
  apply Finset.sum_congr rfl
  intro i _
  congr 1
  rw [← List.sum_toFinset _ ((allIdx_nodup outShape).filter _), List.toFinset_filter]
  apply Finset.sum_congr _ (fun _ _ => rfl)
  ext j
  simp

/-- pairing with a basis vector picks out one entry -/
theorem sum_map_ite_mul [DecidableEq Idx] (l : List Idx) (hl : l.Nodup) (i : Idx) (f : Idx → R) :
    (l.map (fun k => (if k = i then (1 : R) else 0) * f k)).sum = if i ∈ l then f i else 0 := by
  induction l with
  | nil => simp
  | cons a l ih =>
    rw [List.nodup_cons] at hl
    rw [List.map_cons, List.sum_cons, ih hl.2]
    by_cases h : a = i
    · subst h
      simp [hl.1]
    · have h' : ¬ i = a := fun e => h e.symm
      simp [h, h']

/-- non-degeneracy of the pairing: an array (of shape `s`, well-formed) that pairs to zero with
    every basis array is zero — so the adjoint identity determines the backward kernel uniquely -/
theorem dot_nondegenerate [DecidableEq (Idx)] (s : Shape) (y : NDArray R) (hy : y.WF) (hs : y.shape = s)
    (h : ∀ i, validIdx s i → dot (ofFn s (fun k => if k = i then 1 else 0)) y = 0) :
    y = zeros s := by
  subst hs
  apply ext_get _ _ hy (ofFn_wf _ _) rfl
  intro i hi
  have := h i hi
  rw [dot_ofFn, sum_map_ite_mul _ (allIdx_nodup _), if_pos ((mem_allIdx _ i).2 hi)] at this
  rw [this]
  exact (get_ofFn y.shape (fun _ => (0 : R)) i hi).symm

end Ring

/-! ### broadcasting index maps -/

/-- NumPy's rule for one aligned pair of sizes (the function `broadcastShapes` maps over the
    zipped padded shapes) -/
def bcRule : Nat × Nat → Option Nat := fun (x, y) =>
  if x = y then some x else if x = 1 then some y else if y = 1 then some x else none

/-- what one operand size `x` must satisfy against the broadcast size `z` -/
def BcOK (x z : Nat) : Prop := z = x ∨ x = 1

theorem bcRule_ok {x y z : Nat} (h : bcRule (x, y) = some z) : BcOK x z ∧ BcOK y z := by
  simp only [bcRule] at h
  unfold BcOK
  split_ifs at h <;> simp_all

theorem mapM_bcRule_forall₂ : ∀ (pa pb s : List Nat), pa.length = pb.length →
    (List.zip pa pb).mapM bcRule = some s → List.Forall₂ BcOK pa s ∧ List.Forall₂ BcOK pb s
  | [], [], s, _, h => by
    simp at h; subst h; exact ⟨.nil, .nil⟩
  | x :: pa, y :: pb, s, hl, h => by
    rw [List.zip_cons_cons, List.mapM_cons] at h
    cases hz : bcRule (x, y) with
    | none => simp [hz] at h
    | some z =>
      cases hm : (List.zip pa pb).mapM bcRule with
      | none => simp [hz, hm] at h
      | some s' =>
        simp [hz, hm] at h
        subst h
        have ⟨h1, h2⟩ := mapM_bcRule_forall₂ pa pb s' (by simpa using hl) hm
        have ⟨k1, k2⟩ := bcRule_ok hz
        exact ⟨.cons k1 h1, .cons k2 h2⟩
  | [], _ :: _, _, hl, _ => by simp at hl
  | _ :: _, [], _, hl, _ => by simp at hl

theorem broadcastShapes_eq (a b : Shape) :
    broadcastShapes a b =
      (List.zip (List.replicate (max a.length b.length - a.length) 1 ++ a)
        (List.replicate (max a.length b.length - b.length) 1 ++ b)).mapM bcRule := rfl

theorem zipWith_valid : ∀ (a s : Shape) (j : Idx), List.Forall₂ BcOK a s → validIdx s j →
    validIdx a (List.zipWith (fun n x => if n = 1 then 0 else x) a j)
  | [], [], [], _, _ => by simp [validIdx]
  | n :: a, z :: s, x :: j, h, hj => by
    rw [List.forall₂_cons] at h
    obtain ⟨hx, hj⟩ := hj
    refine ⟨?_, zipWith_valid a s j h.2 hj⟩
    rcases h.1 with rfl | rfl
    · show (if z = 1 then 0 else x) < z
      split_ifs <;> omega
    · simp
  | [], _ :: _, _, h, _ => by cases h
  | _ :: _, [], _, h, _ => by cases h
  | [], [], _ :: _, _, hj => by simp [validIdx] at hj
  | _ :: _, _ :: _, [], _, hj => by simp [validIdx] at hj

theorem bcastIdx_cons (a : Shape) (x : Nat) (j : Idx) (h : a.length ≤ j.length) :
    bcastIdx a (x :: j) = bcastIdx a j := by
  unfold bcastIdx
  have : (x :: j).length - a.length = (j.length - a.length) + 1 := by simp; omega
  simp only [this, List.drop_succ_cons]

theorem bcastIdx_valid_pad (a : Shape) : ∀ (m : Nat) (s : Shape) (j : Idx),
    List.Forall₂ BcOK (List.replicate m 1 ++ a) s → validIdx s j → validIdx a (bcastIdx a j)
  | 0, s, j, h, hj => by
    simp only [List.replicate_zero, List.nil_append] at h
    have hl : j.length = a.length := by rw [validIdx_length s j hj, h.length_eq]
    unfold bcastIdx
    simp only [hl, Nat.sub_self, List.drop_zero]
    exact zipWith_valid a s j h hj
  | m + 1, [], _, h, _ => by simp [List.replicate_succ] at h
  | m + 1, z :: s, [], _, hj => by simp [validIdx] at hj
  | m + 1, z :: s, x :: j, h, hj => by
    rw [List.replicate_succ, List.cons_append, List.forall₂_cons] at h
    have hl : a.length ≤ j.length := by
      rw [validIdx_length s j hj.2, ← h.2.length_eq]; simp
    rw [bcastIdx_cons a x j hl]
    exact bcastIdx_valid_pad a m s j h.2 hj.2

/-- the broadcast projection sends valid indices of the broadcast shape to valid indices of the operand -/
theorem bcastIdx_valid (a b s : Shape) (h : broadcastShapes a b = some s) (j : Idx) (hj : validIdx s j) :
    validIdx a (bcastIdx a j) ∧ validIdx b (bcastIdx b j) := by
  rw [broadcastShapes_eq] at h
  have ⟨h1, h2⟩ := mapM_bcRule_forall₂ _ _ s (by simp) h
  exact ⟨bcastIdx_valid_pad a _ s j h1 hj, bcastIdx_valid_pad b _ s j h2 hj⟩

theorem mapM_bcRule_self (a : Shape) : (List.zip a a).mapM bcRule = some a := by
  induction a with
  | nil => simp
  | cons x a ih => rw [List.zip_cons_cons, List.mapM_cons, ih]; simp [bcRule]

theorem broadcastShapes_self (a : Shape) : broadcastShapes a a = some a := by
  rw [broadcastShapes_eq]
  simpa using mapM_bcRule_self a

end Proofs.Core
