import SynapModel.Generated.OptimSteps
import Mathlib.Algebra.Field.Basic
import Mathlib.Tactic.Ring
/-!
# The optimizer steps in the source, as translated on this run, are the update functions of the model

`SynapModel/Generated/OptimSteps.lean` is rewritten from `/repo/synapgrad/optim/optimizers.py` by `harness/optim_formulas.py` on
every run: `Synap.Gen.sgd_step / adam_step / adamw_step` are the bodies of the per-parameter loops of `SGD.step`, `Adam.step`
and `AdamW.step` (after the guard that skips frozen parameters and parameters without gradient), for one element of one parameter.
The theorems say they are `sgdUpdate` / `adamUpdate` of `SynapModel/Optim.lean` — the functions the trajectory theorems of C08
(`sgd_refines`, `adam_refines`, `store_*`) are about — for every hyper-parameter value, flag combination and state, over any field.
The Boolean parameters of the generated functions are named after the tests the source makes (`weight_decay != 0`, `momentum != 0`,
`nesterov`, `maximize`), so a changed test changes the signature and these statements stop elaborating.
-/
namespace Proofs.OptimStepTie
open Synap Synap.Optim

variable {α : Type} [Field α] [HasSqrt α]
set_option linter.unusedSectionVars false

theorem sgd_step_eq (c : SGDCfg α) (θ g : α) (buf : Option α) :
    Gen.sgd_step (dampening := c.dampening) (lr := c.lr) (momentum := c.momentum) (weight_decay := c.weightDecay)
      (maximize := c.maximize) (momentum_ne_0 := c.useMom) (nesterov := c.nesterov) (weight_decay_ne_0 := c.useWd) θ g buf
    = sgdUpdate c θ g buf := by
  unfold Gen.sgd_step sgdUpdate
  cases c.useWd <;> cases c.useMom <;> cases c.nesterov <;> cases c.maximize <;> cases buf <;> simp

theorem adam_step_eq (c : AdamCfg α) (hd : c.decoupled = false) (θ g : α) (mo : Moments α) :
    Gen.adam_step (beta1 := c.beta1) (beta2 := c.beta2) (epsilon := c.eps) (lr := c.lr) (weight_decay := c.weightDecay)
      (maximize := c.maximize) (weight_decay_ne_0 := c.useWd) θ g mo.m1 mo.m2 mo.t
    = ((adamUpdate c θ g mo).1, (adamUpdate c θ g mo).2.m1, (adamUpdate c θ g mo).2.m2, (adamUpdate c θ g mo).2.t) := by
  unfold Gen.adam_step adamUpdate
  rw [hd]
  cases c.useWd <;> cases c.maximize <;> simp

theorem adamw_step_eq (c : AdamCfg α) (hd : c.decoupled = true) (θ g : α) (mo : Moments α) :
    Gen.adamw_step (beta1 := c.beta1) (beta2 := c.beta2) (epsilon := c.eps) (lr := c.lr) (weight_decay := c.weightDecay)
      (maximize := c.maximize) θ g mo.m1 mo.m2 mo.t
    = ((adamUpdate c θ g mo).1, (adamUpdate c θ g mo).2.m1, (adamUpdate c θ g mo).2.m2, (adamUpdate c θ g mo).2.t) := by
  unfold Gen.adamw_step adamUpdate
  rw [hd]
  cases c.useWd <;> cases c.maximize <;> simp

end Proofs.OptimStepTie
