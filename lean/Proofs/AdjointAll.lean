import Proofs.AdjointMove
import Proofs.AdjointAlg
