import Proofs.OptimStoreSteps
/-!
# Events and histories of `Synap.OptimStore`: the separation invariant at every reachable state,
# and what each kind of event leaves untouched
-/
namespace Proofs.OptimStore
open Synap.OptimStore
open Synap.Optim (SGDCfg AdamCfg HasSqrt)

variable {α : Type}

/-- a place that the transition neither rebinds nor overwrites keeps its buffer and its content -/
theorem Moves.keeps {W : BufId → Prop} {C : Role → Nat → Prop} {s s' : Store α} (hI : Inv s)
    (m : Moves W C s s') {r : Role} {j : Nat} {x : BufId} (hx : slot s r j = some x) (hC : ¬ C r j)
    (hW : ¬ W x) : slot s' r j = some x ∧ rdBuf s'.heap x = rdBuf s.heap x :=
  ⟨by rw [m.same r j hC]; exact hx, m.ext.2 x (hI.bounded r j x hx) hW⟩

/-- a buffer that no place holds is not overwritten when only held buffers are, and stays unheld -/
theorem Moves.foreign {W : BufId → Prop} {C : Role → Nat → Prop} {s s' : Store α}
    (m : Moves W C s s') (hW : ∀ x, W x → ∃ r j, slot s r j = some x) {x : BufId}
    (hx : x < s.heap.length) (hf : ∀ r j, slot s r j ≠ some x) :
    rdBuf s'.heap x = rdBuf s.heap x ∧ ∀ r j, slot s' r j ≠ some x := by
  refine ⟨m.ext.2 x hx (fun w => ?_), fun r j h => ?_⟩
  · obtain ⟨r, j, h⟩ := hW x w; exact hf r j h
  · rcases m.fresh r j x h with h' | h'
    · exact hf r j h'
    · exact absurd hx (Nat.not_lt.mpr h'.1)

/-! ### what the engine events keep -/

theorem accumulate_keeps [Add α] [Zero α] {s : Store α} (hI : Inv s) (i : Nat) (g : List α)
    {r : Role} {j : Nat} {x : BufId} (hr : r ≠ .grad) (hx : slot s r j = some x) :
    slot (accumulate s i g) r j = some x ∧ rdBuf (accumulate s i g).heap x = rdBuf s.heap x :=
  (accumulate_moves s hI i g).keeps hI hx (fun h => hr h.1)
    (fun h => hr (hI.sep r j .grad i x hx h).1)

theorem accumulateRoot_keeps [Add α] {s : Store α} (hI : Inv s) (i : Nat) (g : List α)
    {r : Role} {j : Nat} {x : BufId} (hr : r ≠ .grad) (hx : slot s r j = some x) :
    slot (accumulateRoot s i g) r j = some x ∧ rdBuf (accumulateRoot s i g).heap x = rdBuf s.heap x :=
  (accumulateRoot_moves s hI i g).keeps hI hx (fun h => hr h.1) (fun h => h)

theorem zeroGrad_keeps [Zero α] {s : Store α} (hI : Inv s) {r : Role} {j : Nat} {x : BufId}
    (hr : r ≠ .grad) (hx : slot s r j = some x) :
    slot (zeroGrad s) r j = some x ∧ rdBuf (zeroGrad s).heap x = rdBuf s.heap x :=
  (zeroGrad_moves s hI).keeps hI hx hr (fun h => h)

/-- `zero_grad` overwrites nothing at all: even the old gradient arrays keep their content -/
theorem zeroGrad_overwrites_nothing [Zero α] {s : Store α} (hI : Inv s) {x : BufId}
    (hx : x < s.heap.length) : rdBuf (zeroGrad s).heap x = rdBuf s.heap x :=
  (zeroGrad_moves s hI).ext.2 x hx (fun h => h)

theorem active_not_grad {s : Store α} (hI : Inv s) {j : Nat} {x : BufId}
    (hx : slot s .grad j = some x) : ¬ ∃ j', Active s j' x := by
  rintro ⟨j', p, gb, hp, -, -, rfl⟩
  have := (hI.sep .data j' .grad j p.data (slot_data_of hp) hx).1
  cases this

theorem active_not_inactive {s : Store α} (hI : Inv s) {j : Nat} {p : PS} (hp : s.ps[j]? = some p)
    (h : p.rg = false ∨ p.grad = none) : ¬ ∃ j', Active s j' p.data := by
  rintro ⟨j', p', gb, hp', hrg, hg, hd⟩
  have hj : j' = j := (hI.sep .data j' .data j p.data (by rw [slot_data_of hp', hd]) (slot_data_of hp)).2
  subst hj
  rw [hp] at hp'; cases hp'
  rcases h with h | h
  · rw [h] at hrg; cases hrg
  · rw [h] at hg; cases hg

section SGD
variable [Add α] [Sub α] [Mul α] [Div α] [Neg α] [Zero α] [One α]
set_option linter.unusedSectionVars false

theorem sgdStep_keeps_grads (c : SGDCfg α) {s : Store α} (hI : Inv s) {j : Nat} {x : BufId}
    (hx : slot s .grad j = some x) :
    slot (sgdStep c s) .grad j = some x ∧ rdBuf (sgdStep c s).heap x = rdBuf s.heap x :=
  (sgdStep_moves c s hI).1.keeps hI hx (by simp) (active_not_grad hI hx)

theorem sgdStep_keeps_inactive (c : SGDCfg α) {s : Store α} (hI : Inv s) {j : Nat} {p : PS}
    (hp : s.ps[j]? = some p) (h : p.rg = false ∨ p.grad = none) :
    rdBuf (sgdStep c s).heap p.data = rdBuf s.heap p.data :=
  (sgdStep_moves c s hI).1.ext.2 p.data (hI.bounded .data j _ (slot_data_of hp)) (active_not_inactive hI hp h)

/-- every SGD event is a `Moves` that overwrites held buffers only -/
theorem sgdEv_moves (c : SGDCfg α) (s : Store α) (hI : Inv s) (e : Ev α) :
    ∃ W C, Moves W C s (sgdEv c s e) ∧ ∀ x, W x → ∃ r j, slot s r j = some x := by
  cases e with
  | backward i g => exact ⟨_, _, accumulate_moves s hI i g, fun x h => ⟨_, _, h⟩⟩
  | backwardRoot i g => exact ⟨_, _, accumulateRoot_moves s hI i g, fun x h => h.elim⟩
  | zeroGrad => exact ⟨_, _, zeroGrad_moves s hI, fun x h => h.elim⟩
  | setRg i b => exact ⟨_, _, setRg_moves s hI i b, fun x h => h.elim⟩
  | step =>
    refine ⟨_, _, (sgdStep_moves c s hI).1, ?_⟩
    rintro x ⟨j, p, gb, hp, -, -, rfl⟩
    exact ⟨.data, j, slot_data_of hp⟩

end SGD

section Adam
variable [Add α] [Sub α] [Mul α] [Div α] [Neg α] [Zero α] [One α] [HPow α Nat α] [HasSqrt α]
set_option linter.unusedSectionVars false

theorem adamStep_keeps_grads (c : AdamCfg α) {s : Store α} (hI : Inv s) {j : Nat} {x : BufId}
    (hx : slot s .grad j = some x) :
    slot (adamStep c s) .grad j = some x ∧ rdBuf (adamStep c s).heap x = rdBuf s.heap x :=
  (adamStep_moves c s hI).1.keeps hI hx (by simp) (active_not_grad hI hx)

theorem adamStep_keeps_inactive (c : AdamCfg α) {s : Store α} (hI : Inv s) {j : Nat} {p : PS}
    (hp : s.ps[j]? = some p) (h : p.rg = false ∨ p.grad = none) :
    rdBuf (adamStep c s).heap p.data = rdBuf s.heap p.data :=
  (adamStep_moves c s hI).1.ext.2 p.data (hI.bounded .data j _ (slot_data_of hp)) (active_not_inactive hI hp h)

theorem adamEv_moves (c : AdamCfg α) (s : Store α) (hI : Inv s) (e : Ev α) :
    ∃ W C, Moves W C s (adamEv c s e) ∧ ∀ x, W x → ∃ r j, slot s r j = some x := by
  cases e with
  | backward i g => exact ⟨_, _, accumulate_moves s hI i g, fun x h => ⟨_, _, h⟩⟩
  | backwardRoot i g => exact ⟨_, _, accumulateRoot_moves s hI i g, fun x h => h.elim⟩
  | zeroGrad => exact ⟨_, _, zeroGrad_moves s hI, fun x h => h.elim⟩
  | setRg i b => exact ⟨_, _, setRg_moves s hI i b, fun x h => h.elim⟩
  | step =>
    refine ⟨_, _, (adamStep_moves c s hI).1, ?_⟩
    rintro x ⟨j, p, gb, hp, -, -, rfl⟩
    exact ⟨.data, j, slot_data_of hp⟩

end Adam

/-! ### histories -/

/-- what holds after any history of events each of which is a `Moves` overwriting held buffers only -/
theorem run_generic {E : Type} (ev : Store α → E → Store α)
    (hev : ∀ s e, Inv s → ∃ W C, Moves W C s (ev s e) ∧ ∀ x, W x → ∃ r j, slot s r j = some x)
    (evs : List E) (s : Store α) (hI : Inv s) :
    Inv (evs.foldl ev s) ∧ (∀ j, slot (evs.foldl ev s) .data j = slot s .data j) ∧
    s.heap.length ≤ (evs.foldl ev s).heap.length ∧
    ∀ x, x < s.heap.length → (∀ r j, slot s r j ≠ some x) →
      rdBuf (evs.foldl ev s).heap x = rdBuf s.heap x := by
  induction evs generalizing s with
  | nil => exact ⟨hI, fun _ => rfl, Nat.le_refl _, fun _ _ _ => rfl⟩
  | cons e es ih =>
    obtain ⟨W, C, m, hW⟩ := hev s e hI
    obtain ⟨h1, h2, h3, h4⟩ := ih (ev s e) (m.inv hI)
    refine ⟨h1, fun j => (h2 j).trans (m.data j), Nat.le_trans m.ext.1 h3, fun x hx hf => ?_⟩
    obtain ⟨f1, f2⟩ := m.foreign hW hx hf
    rw [List.foldl_cons, h4 x (Nat.lt_of_lt_of_le hx m.ext.1) f2, f1]

/-! ### the initial state -/

theorem inv_mk (arrs : List (List α)) (rgs : List Bool) (h : rgs.length ≤ arrs.length) :
    Inv (mk arrs rgs) := by
  have hd : ∀ i x, slot (mk arrs rgs) .data i = some x → x = i ∧ i < rgs.length := by
    intro i x hx
    simp only [slot, mk, List.getElem?_map, List.getElem?_zipIdx] at hx
    cases hr : rgs[i]? with
    | none => simp [hr] at hx
    | some b =>
      have hl : i < rgs.length := (List.getElem?_eq_some_iff.mp hr).1
      simp [hr] at hx
      exact ⟨hx.symm, hl⟩
  have hn : ∀ r i, r ≠ .data → slot (mk arrs rgs) r i = none := by
    intro r i hr
    cases r
    · exact absurd rfl hr
    · simp only [slot, mk, List.getElem?_map, List.getElem?_zipIdx]
      cases rgs[i]? <;> simp
    · simp only [slot, mk, List.getElem?_map]
      cases rgs[i]? <;> simp
    · simp only [slot, mk, List.getElem?_map]
      cases rgs[i]? <;> simp
  constructor
  · intro r i x hx
    by_cases hr : r = .data
    · subst hr
      obtain ⟨rfl, hl⟩ := hd i x hx
      exact Nat.lt_of_lt_of_le hl h
    · rw [hn r i hr] at hx; cases hx
  · intro r i r' i' x hx hx'
    by_cases hr : r = .data
    · by_cases hr' : r' = .data
      · subst hr; subst hr'
        obtain ⟨rfl, _⟩ := hd i x hx
        obtain ⟨e, _⟩ := hd i' x hx'
        exact ⟨rfl, e⟩
      · rw [hn r' i' hr'] at hx'; cases hx'
    · rw [hn r i hr] at hx; cases hx

end Proofs.OptimStore
