import Proofs.AdjointGeneral
import SynapModel.Np
import Mathlib.Data.List.GetD
/-!
# Axis permutations: `transposeP` by a permutation and by its inverse are adjoint

`PermPair n p q` : `p`, `q` are lists of length `n` with entries `< n`, mutually inverse as maps
on `[0, n)`.  `swapPerm n a b` is paired with itself, `moveaxisPerm n s d` with `moveaxisPerm n d s`.
-/
namespace Proofs.Adjoint
open Synap Synap.NDArray Synap.Np Proofs.Core

/-- `p` and `q` are mutually inverse permutations of `[0, n)` (entries read with `getD · 0`) -/
def PermPair (n : Nat) (p q : List Nat) : Prop :=
  p.length = n ∧ q.length = n ∧
    ∀ k, k < n → p.getD k 0 < n ∧ q.getD k 0 < n ∧ q.getD (p.getD k 0) 0 = k ∧ p.getD (q.getD k 0) 0 = k

theorem PermPair.symm {n : Nat} {p q : List Nat} (h : PermPair n p q) : PermPair n q p :=
  ⟨h.2.1, h.1, fun k hk => ⟨(h.2.2 k hk).2.1, (h.2.2 k hk).1, (h.2.2 k hk).2.2.2, (h.2.2 k hk).2.2.1⟩⟩

theorem length_permute (l p : List Nat) : (permute l p).length = p.length := by
  simp [permute]

theorem getD_permute (l p : List Nat) (k : Nat) (hk : k < p.length) :
    (permute l p).getD k 0 = l.getD (p.getD k 0) 0 := by
  simp [permute, List.getD_eq_getElem?_getD, List.getElem?_map, List.getElem?_eq_getElem hk]

theorem permute_permute {n : Nat} {p q : List Nat} (h : PermPair n p q) (l : List Nat)
    (hl : l.length = n) : permute (permute l q) p = l := by
  apply List.ext_getElem
  · rw [length_permute, h.1, hl]
  · intro k h1 h2
    rw [length_permute] at h1
    have hk : k < n := h.1 ▸ h1
    obtain ⟨hp, _, hqp, _⟩ := h.2.2 k hk
    have e1 := getD_permute (permute l q) p k h1
    rw [getD_permute l q _ (by rw [h.2.1]; exact hp), hqp] at e1
    rw [List.getD_eq_getElem _ _ (by rw [length_permute]; exact h1), List.getD_eq_getElem _ _ h2] at e1
    exact e1

theorem PermPair.nodup {n : Nat} {p q : List Nat} (h : PermPair n p q) : p.Nodup := by
  rw [List.nodup_iff_injective_getElem]
  rintro ⟨i, hi⟩ ⟨j, hj⟩ hij
  simp only at hij
  have hi' : i < n := h.1 ▸ hi
  have hj' : j < n := h.1 ▸ hj
  have e1 := (h.2.2 i hi').2.2.1
  have e2 := (h.2.2 j hj').2.2.1
  rw [List.getD_eq_getElem _ _ hi] at e1
  rw [List.getD_eq_getElem _ _ hj] at e2
  rw [hij, e2] at e1
  exact Fin.ext e1.symm

theorem PermPair.invPerm_eq {n : Nat} {p q : List Nat} (h : PermPair n p q) : invPerm p = q := by
  unfold invPerm
  apply List.ext_getElem
  · simp [h.1, h.2.1]
  · intro k h1 h2
    have hk : k < n := h.2.1 ▸ h2
    obtain ⟨_, hq, _, hpq⟩ := h.2.2 k hk
    rw [List.getD_eq_getElem _ _ h2] at hq hpq
    have hq' : q[k] < p.length := by rw [h.1]; exact hq
    rw [List.getD_eq_getElem _ _ hq'] at hpq
    simp only [List.getElem_map, List.getElem_range]
    have := h.nodup.idxOf_getElem q[k] hq'
    rw [hpq] at this
    exact this

theorem permute_valid {n : Nat} {p q : List Nat} (h : PermPair n p q) (s : Shape) (j : Idx)
    (hs : s.length = n) (hj : validIdx (permute s p) j) : validIdx s (permute j q) := by
  rw [validIdx_iff_getD] at hj ⊢
  obtain ⟨hjl, hjv⟩ := hj
  rw [length_permute] at hjl hjv
  refine ⟨by rw [length_permute, h.2.1, hs], fun k hk => ?_⟩
  rw [hs] at hk
  obtain ⟨_, hq, _, hpq⟩ := h.2.2 k hk
  rw [getD_permute j q k (by rw [h.2.1]; exact hk)]
  have := hjv (q.getD k 0) (by rw [h.1]; exact hq)
  rw [getD_permute s p _ (by rw [h.1]; exact hq), hpq] at this
  exact this

section
variable {R : Type} [CommSemiring R]

/-- **transpose by a permutation and by its inverse are adjoint** -/
theorem transposeP_adj {n : Nat} {p q : List Nat} (h : PermPair n p q) (s : Shape) (hs : s.length = n) :
    IsAdjoint (R := R) s (permute s p) (fun v => some (transposeP v p)) (fun g => some (transposeP g q)) := by
  have hsp : (permute s p).length = n := by rw [length_permute, h.1]
  apply isAdjoint_of_gather_bij s (permute s p) (fun j => permute j q) (fun i => permute i p)
  · intro j hj; exact permute_valid h s j hs hj
  · intro i hi
    have := permute_valid h.symm (permute s p) i hsp (by rw [permute_permute h.symm s hs]; exact hi)
    exact this
  · intro j hj
    exact permute_permute h j (by rw [validIdx_length _ _ hj, hsp])
  · intro i hi
    exact permute_permute h.symm i (by rw [validIdx_length _ _ hi, hs])
  · intro v _ hvs
    simp only [transposeP, h.invPerm_eq, hvs]
  · intro g _ hgs
    simp only [transposeP, h.symm.invPerm_eq, hgs, permute_permute h.symm s hs]

end

/-! ### the two concrete families -/

theorem swapPerm_getD (n a b k : Nat) (hk : k < n) :
    (swapPerm n a b).getD k 0 = if k = a then b else if k = b then a else k := by
  simp [swapPerm, List.getD_eq_getElem?_getD, List.getElem?_map, List.getElem?_range hk]

theorem swapPerm_pair (n a b : Nat) (ha : a < n) (hb : b < n) :
    PermPair n (swapPerm n a b) (swapPerm n a b) := by
  refine ⟨by simp [swapPerm], by simp [swapPerm], fun k hk => ?_⟩
  have e := swapPerm_getD n a b k hk
  have hlt : (swapPerm n a b).getD k 0 < n := by rw [e]; split_ifs <;> omega
  have e2 := swapPerm_getD n a b _ hlt
  refine ⟨hlt, hlt, ?_, ?_⟩ <;>
  · rw [e2, e]; split_ifs <;> omega

theorem filter_ne_range (n s : Nat) (hs : s < n) :
    (List.range n).filter (fun x => decide (x ≠ s)) = List.range s ++ List.range' (s + 1) (n - s - 1) := by
  have h1 : List.range n = List.range' 0 s ++ (s :: List.range' (s + 1) (n - s - 1)) := by
    have := List.range'_append_1 (s := 0) (m := s) (n := n - s - 1 + 1)
    rw [Nat.zero_add] at this
    rw [List.range_eq_range', ← List.range'_succ, this]
    congr 1; omega
  rw [h1, List.filter_append, List.filter_cons]
  simp only [ne_eq, not_true_eq_false, decide_false, Bool.false_eq_true, ↓reduceIte]
  rw [List.range_eq_range']
  congr 1
  · rw [List.filter_eq_self]
    intro a ha
    rw [List.mem_range'_1] at ha
    simp; omega
  · rw [List.filter_eq_self]
    intro a ha
    rw [List.mem_range'_1] at ha
    simp; omega

theorem moveaxisPerm_length (n s d : Nat) (hs : s < n) (hd : d < n) : (moveaxisPerm n s d).length = n := by
  simp only [moveaxisPerm, insertAt, filter_ne_range n s hs]
  simp; omega

/-- the entries of `np.moveaxis`'s axis order -/
theorem moveaxisPerm_getD (n s d k : Nat) (hs : s < n) (hd : d < n) (hk : k < n) :
    (moveaxisPerm n s d).getD k 0 =
      if k = d then s else
        if (if k < d then k else k - 1) < s then (if k < d then k else k - 1)
        else (if k < d then k else k - 1) + 1 := by
  simp only [moveaxisPerm, insertAt, filter_ne_range n s hs]
  have hlen : (List.range s ++ List.range' (s + 1) (n - s - 1)).length = n - 1 := by simp; omega
  have hrest : ∀ m, m < n - 1 →
      (List.range s ++ List.range' (s + 1) (n - s - 1))[m]? = some (if m < s then m else m + 1) := by
    intro m hm
    by_cases h : m < s
    · rw [List.getElem?_append_left (by simpa using h), List.getElem?_range h, if_pos h]
    · rw [List.getElem?_append_right (by simpa using h), if_neg h]
      simp only [List.length_range]
      rw [List.getElem?_range' (by omega)]
      congr 1; omega
  rw [List.getD_eq_getElem?_getD]
  by_cases h1 : k < d
  · rw [List.getElem?_append_left (by rw [List.length_take, hlen]; omega),
      List.getElem?_take_of_lt h1, hrest k (by omega)]
    have : k ≠ d := by omega
    simp [this, h1]
  · by_cases h2 : k = d
    · subst h2
      rw [List.getElem?_append_right (by rw [List.length_take, hlen]; omega)]
      have : k - (List.take k (List.range s ++ List.range' (s + 1) (n - s - 1))).length = 0 := by
        rw [List.length_take, hlen]; omega
      rw [this]; simp
    · rw [List.getElem?_append_right (by rw [List.length_take, hlen]; omega)]
      have : k - (List.take d (List.range s ++ List.range' (s + 1) (n - s - 1))).length = (k - d - 1) + 1 := by
        rw [List.length_take, hlen]; omega
      rw [this, List.getElem?_cons_succ, List.getElem?_drop]
      have e : d + (k - d - 1) = k - 1 := by omega
      rw [e, hrest (k - 1) (by omega)]
      simp [h1, h2]

theorem moveaxisPerm_pair (n s d : Nat) (hs : s < n) (hd : d < n) :
    PermPair n (moveaxisPerm n s d) (moveaxisPerm n d s) := by
  refine ⟨moveaxisPerm_length n s d hs hd, moveaxisPerm_length n d s hd hs, fun k hk => ?_⟩
  have e1 := moveaxisPerm_getD n s d k hs hd hk
  have e2 := moveaxisPerm_getD n d s k hd hs hk
  have l1 : (moveaxisPerm n s d).getD k 0 < n := by rw [e1]; split_ifs <;> omega
  have l2 : (moveaxisPerm n d s).getD k 0 < n := by rw [e2]; split_ifs <;> omega
  refine ⟨l1, l2, ?_, ?_⟩
  · rw [moveaxisPerm_getD n d s _ hd hs l1, e1]; split_ifs <;> omega
  · rw [moveaxisPerm_getD n s d _ hs hd l2, e2]; split_ifs <;> omega

end Proofs.Adjoint
