import Proofs.EngineBasic
/-!
# Helper material for `Proofs/EngineStruct.lean`, part 2: the traversal

Three inductions over `visit`, two of them through `visit_rule`:
* order (`visit_order`): the spike's post-order invariants, plus closure of the visited set under a predicate;
* gradient buffers, trace and counts (`visit_grads`);
* a two-run simulation (`visit_sim`).
-/
namespace Proofs.Engine
open Synap.Engine

variable {G : Type}

/-! ### list facts -/

/-- `c` occurs strictly before `u` in `l` (same as `BeforeIn` of `EngineStruct`) -/
def Before (l : List Nat) (c u : Nat) : Prop := ∃ l1 l2, l = l1 ++ u :: l2 ∧ c ∈ l1

theorem Before.append {l : List Nat} {c u : Nat} (h : Before l c u) (t : List Nat) :
    Before (l ++ t) c u := by
  obtain ⟨l1, l2, rfl, hc⟩ := h
  exact ⟨l1, l2 ++ t, by simp, hc⟩

theorem Before.last {l : List Nat} {c : Nat} (h : c ∈ l) (u : Nat) : Before (l ++ [u]) c u :=
  ⟨l, [], rfl, h⟩

abbrev St := List Nat × List Nat   -- (visited, ordered)

def pr (s : DfsSt G) : St := (s.visited, s.ordered)

@[simp] theorem pr_enc (s : DfsSt G) (c : Nat) : pr (enc s c) = pr s := by simp [pr]

def DfsInv (ch : Nat → List Nat) (R : Nat → Prop) (s : St) : Prop :=
  s.2.Nodup ∧ (∀ x ∈ s.2, x ∈ s.1) ∧ (∀ u ∈ s.2, ∀ c ∈ ch u, Before s.2 c u) ∧ (∀ x ∈ s.1, R x)

/-- all gray (visited, not yet listed) nodes are ≥ b -/
def GB (b : Nat) (s : St) : Prop := ∀ x ∈ s.1, x ∉ s.2 → b ≤ x

def Mono (s s' : St) : Prop :=
  (∃ new, s'.2 = s.2 ++ new) ∧ (∀ x ∈ s.1, x ∈ s'.1) ∧
  (∀ x ∈ s'.2, x ∈ s.2 ∨ x ∉ s.1) ∧ (∀ x ∈ s'.1, x ∉ s'.2 → x ∈ s.1 ∧ x ∉ s.2)

theorem Mono.refl (s : St) : Mono s s :=
  ⟨⟨[], by simp⟩, fun _ h => h, fun _ h => Or.inl h, fun _ h1 h2 => ⟨h1, h2⟩⟩

theorem Mono.trans {a b c : St} (h1 : Mono a b) (h2 : Mono b c) : Mono a c := by
  obtain ⟨⟨n1, e1⟩, v1, l1, g1⟩ := h1
  obtain ⟨⟨n2, e2⟩, v2, l2, g2⟩ := h2
  refine ⟨⟨n1 ++ n2, by rw [e2, e1, List.append_assoc]⟩, fun x h => v2 x (v1 x h), ?_, ?_⟩
  · intro x hx
    rcases l2 x hx with h | h
    · exact l1 x h
    · exact Or.inr (fun hx1 => h (v1 x hx1))
  · intro x hx hnx
    obtain ⟨hb1, hb2⟩ := g2 x hx hnx
    exact g1 x hb1 hb2

theorem GB.mono {b : Nat} {s s' : St} (h : GB b s) (m : Mono s s') : GB b s' := by
  intro x hx hnx
  obtain ⟨h1, h2⟩ := m.2.2.2 x hx hnx
  exact h x h1 h2

theorem mem_of_mono {s s' : St} (m : Mono s s') {x : Nat} (h : x ∈ s.2) : x ∈ s'.2 := by
  obtain ⟨⟨n, e⟩, _⟩ := m
  rw [e]; exact List.mem_append_left _ h

/-! ### order -/

section Order
variable (ns0 : Graph G) (hw : ∀ u c, c ∈ chOf ns0 u → c < u)
variable (R : Nat → Prop) (hR : ∀ u c, R u → c ∈ chOf ns0 u → R c)
include hw hR

theorem visit_order (f v : Nat) (s : DfsSt G) (hv : v < f) (hs : Skel ns0 s.ns)
    (hI : DfsInv (chOf ns0) R (pr s)) (hG : GB (v+1) (pr s)) (hRv : R v) :
    DfsInv (chOf ns0) R (pr (visit f v s)) ∧ v ∈ (visit f v s).ordered ∧ Mono (pr s) (pr (visit f v s)) := by
  refine visit_rule ns0 hw
    (fun v s => DfsInv (chOf ns0) R (pr s) ∧ GB (v+1) (pr s) ∧ R v)
    (fun v s s' => DfsInv (chOf ns0) R (pr s') ∧ v ∈ s'.ordered ∧ Mono (pr s) (pr s'))
    (fun v s cs t => v ∉ s.visited ∧ DfsInv (chOf ns0) R (pr s) ∧ R v ∧ DfsInv (chOf ns0) R (pr t) ∧
      GB v (pr t) ∧ Mono (v :: s.visited, s.ordered) (pr t) ∧ (∀ c ∈ chOf ns0 v, c ∈ cs ∨ c ∈ t.ordered))
    ?_ ?_ ?_ ?_ f v s hv hs ⟨hI, hG, hRv⟩
  · -- already visited
    rintro v s ⟨hI, hG, _⟩ hvis
    refine ⟨hI, ?_, Mono.refl _⟩
    by_cases hn : v ∈ s.ordered
    · exact hn
    · have := hG v hvis hn
      omega
  · -- init
    rintro v s _ ⟨hI, hG, hRv⟩ hvis
    refine ⟨hvis, hI, hRv, ⟨hI.1, fun x hx => List.mem_cons_of_mem _ (hI.2.1 x hx), hI.2.2.1, ?_⟩, ?_,
      Mono.refl _, fun c hc => Or.inl hc⟩
    · intro x hx
      rcases List.mem_cons.mp hx with rfl | h
      · exact hRv
      · exact hI.2.2.2 x h
    · intro x hx hnx
      rcases List.mem_cons.mp hx with rfl | h
      · exact Nat.le_refl _
      · exact Nat.le_of_succ_le (hG x h hnx)
  · -- step
    rintro v s c cs t _ hc ⟨hvis, hIs, hRv, hIt, hGt, hMt, hch⟩
    have hcv : c < v := hw v c hc
    refine ⟨⟨by rw [pr_enc]; exact hIt, ?_, hR v c hRv hc⟩, ?_⟩
    · rw [pr_enc]; intro x hx hnx; exact Nat.le_trans hcv (hGt x hx hnx)
    · rintro t' _ ⟨hI', hmem, hM'⟩
      rw [pr_enc] at hM'
      refine ⟨hvis, hIs, hRv, hI', hGt.mono hM', hMt.trans hM', ?_⟩
      intro c' hc'
      rcases hch c' hc' with h | h
      · rcases List.mem_cons.mp h with rfl | h
        · exact Or.inr hmem
        · exact Or.inl h
      · exact Or.inr (mem_of_mono hM' h)
  · -- finish
    rintro v s t _ ⟨hvis, hI, hRv, hI', _, hM', hmem'⟩
    obtain ⟨⟨new, enew⟩, hv1, hl, hg⟩ := hM'
    have hvs' : v ∈ t.visited := hv1 v (by simp)
    have hvn : v ∉ t.ordered := by
      intro h
      rcases hl v h with h | h
      · exact hvis (hI.2.1 v h)
      · exact h (by simp)
    have hmem : ∀ c ∈ chOf ns0 v, c ∈ t.ordered := fun c hc => by
      rcases hmem' c hc with h | h
      · simp at h
      · exact h
    refine ⟨⟨?_, ?_, ?_, hI'.2.2.2⟩, by simp, ⟨⟨new ++ [v], ?_⟩, ?_, ?_, ?_⟩⟩
    · exact List.nodup_append.mpr ⟨hI'.1, by simp, by
        intro a ha b hb; simp at hb; subst hb; intro h; subst h; exact hvn ha⟩
    · intro x hx
      rcases List.mem_append.mp hx with h | h
      · exact hI'.2.1 x h
      · simp at h; subst h; exact hvs'
    · intro u hu c hc
      rcases List.mem_append.mp hu with h | h
      · exact (hI'.2.2.1 u h c hc).append _
      · simp at h; subst h; exact Before.last (hmem c hc) _
    · show t.ordered ++ [v] = s.ordered ++ (new ++ [v])
      have : t.ordered = s.ordered ++ new := enew
      rw [this]; simp
    · intro x hx; exact hv1 x (List.mem_cons_of_mem _ hx)
    · intro x hx
      rcases List.mem_append.mp hx with h | h
      · rcases hl x h with h' | h'
        · exact Or.inl h'
        · exact Or.inr (fun hx1 => h' (List.mem_cons_of_mem _ hx1))
      · simp at h; subst h; exact Or.inr hvis
    · intro x hx hnx
      have hnx' : x ∉ t.ordered := fun h => hnx (List.mem_append_left _ h)
      obtain ⟨h1, h2⟩ := hg x hx hnx'
      rcases List.mem_cons.mp h1 with rfl | h
      · exact absurd (List.mem_append_right _ (by simp)) hnx
      · exact ⟨h, h2⟩

end Order

/-! ### gradient buffers, trace, counts -/

/-- the buffer an operand requiring grad holds after the traversal -/
def expG (n : Node G) : Option G := if n.isLeaf then some (n.grad.getD n.zero) else some n.zero

def GI (ns0 : Graph G) (X : Nat → Prop) (ns : Graph G) : Prop :=
  ∀ k n n', ns0[k]? = some n → ns[k]? = some n' →
    (X k ∧ n.reqGrad = true → n'.grad = expG n) ∧ (¬ (X k ∧ n.reqGrad = true) → n'.grad = n.grad)

theorem GI.congr {ns0 ns : Graph G} {X Y : Nat → Prop} (h : ∀ k, X k ↔ Y k) (hg : GI ns0 X ns) :
    GI ns0 Y ns := by
  intro k n n' h0 h1
  have := hg k n n' h0 h1
  rw [h k] at this
  exact this

theorem enc_GI (ns0 : Graph G) (root : Nat) (t : DfsSt G) (c : Nat) (hs : Skel ns0 t.ns) (hc : c ≠ root)
    (hg : GI ns0 (fun k => k ∈ t.visited ∧ k ≠ root) t.ns) :
    GI ns0 (fun k => (k ∈ t.visited ∨ k = c) ∧ k ≠ root) (enc t c).ns ∧
    ((enc t c).trace = t.trace ∨ (c ∉ t.visited ∧ (enc t c).trace = t.trace ++ [TrEv.zero c])) := by
  rcases enc_cases' t c with ⟨he, hcond⟩ | ⟨n', hn', hcond, he⟩
  · rw [he]
    refine ⟨?_, Or.inl rfl⟩
    intro k n n1 h0 h1
    have hgk := hg k n n1 h0 h1
    by_cases hk : k = c
    · subst hk
      have hc' := hcond n1 h1
      obtain ⟨m, hm, hst⟩ := hs.get h0
      rw [h1] at hm; cases hm
      have hrq : n1.reqGrad = n.reqGrad := ((strip_eq_iff _ _).mp hst).2.1
      have hlf : n1.isLeaf = n.isLeaf := isLeaf_of_strip hst
      by_cases hv : k ∈ t.visited
      · constructor
        · intro ⟨_, hr⟩; exact hgk.1 ⟨⟨hv, hc⟩, hr⟩
        · intro hne; exact hgk.2 (fun ⟨_, hr⟩ => hne ⟨⟨Or.inl hv, hc⟩, hr⟩)
      · have hgn : n1.grad = n.grad := hgk.2 (fun ⟨⟨h, _⟩, _⟩ => hv h)
        constructor
        · intro ⟨_, hr⟩
          simp [encCond, hrq, hr, hv] at hc'
          obtain ⟨g, hg'⟩ := Option.isSome_iff_exists.mp hc'.1
          simp [expG, ← hlf, hc'.2, ← hgn, hg']
        · intro _; exact hgn
    · constructor
      · intro ⟨⟨h, hkr⟩, hr⟩; exact hgk.1 ⟨⟨h.resolve_right hk, hkr⟩, hr⟩
      · intro hne; exact hgk.2 (fun ⟨⟨h, hkr⟩, hr⟩ => hne ⟨⟨Or.inl h, hkr⟩, hr⟩)
  · obtain ⟨m, hm, hst⟩ := hs.symm.get hn'
    have hgc := hg c m n' hm hn'
    have hrq : m.reqGrad = n'.reqGrad := ((strip_eq_iff _ _).mp hst).2.1
    have hzero : m.zero = n'.zero := ((strip_eq_iff _ _).mp hst).2.2.2.2
    have hlf : m.isLeaf = n'.isLeaf := isLeaf_of_strip hst
    simp only [encCond, Bool.and_eq_true, Bool.or_eq_true, Bool.not_eq_true', List.contains_eq_mem,
      decide_eq_false_iff_not] at hcond
    obtain ⟨hr, hcond⟩ := hcond
    have hv : c ∉ t.visited := by
      intro hv
      have h1 := hgc.1 ⟨⟨hv, hc⟩, hrq ▸ hr⟩
      rcases hcond with h | h
      · rw [h1] at h; unfold expG at h; split at h <;> simp at h
      · exact h.2 hv
    have hgn : n'.grad = m.grad := hgc.2 (fun ⟨⟨h, _⟩, _⟩ => hv h)
    rw [he]
    refine ⟨?_, Or.inr ⟨hv, rfl⟩⟩
    intro k n n1 h0 h1
    simp only at h1
    by_cases hk : k = c
    · subst hk
      rw [getElem?_setGrad_self, hn'] at h1
      simp only [Option.map_some, Option.some.injEq] at h1
      subst h1
      rw [hm] at h0; cases h0
      constructor
      · intro _
        show some n'.zero = expG m
        unfold expG
        rcases hcond with h | h
        · rw [hgn] at h
          cases hmg : m.grad with
          | none => simp [hzero]
          | some g => simp [hmg] at h
        · rw [hlf, h.1]; simp [hzero]
      · intro hne; exact absurd ⟨⟨Or.inr rfl, hc⟩, hrq ▸ hr⟩ hne
    · rw [getElem?_setGrad_ne _ _ _ _ hk] at h1
      have hgk := hg k n n1 h0 h1
      constructor
      · intro ⟨⟨h, hkr⟩, hr⟩; exact hgk.1 ⟨⟨h.resolve_right hk, hkr⟩, hr⟩
      · intro hne; exact hgk.2 (fun ⟨⟨h, hkr⟩, hr⟩ => hne ⟨⟨Or.inl h, hkr⟩, hr⟩)

/-- what a call of `visit` on `v` guarantees about buffers, trace and counts -/
structure GQ (ns0 : Graph G) (root v : Nat) (s s' : DfsSt G) : Prop where
  gi : GI ns0 (fun k => k ∈ s'.visited ∧ k ≠ root) s'.ns
  mem : v ∈ s'.visited
  sub : ∀ x ∈ s.visited, x ∈ s'.visited
  tr : s'.trace.length + s.visited.length + (if v ∈ s.visited then 0 else 1) ≤ s.trace.length + s'.visited.length
  ord : s'.visited.length + s.ordered.length = s.visited.length + s'.ordered.length
  zeros : ∀ e ∈ s'.trace, e ∈ s.trace ∨ ∃ c, e = TrEv.zero c

section Grads
variable (ns0 : Graph G) (hw : ∀ u c, c ∈ chOf ns0 u → c < u) (root : Nat)
include hw

theorem visit_grads (f v : Nat) (s : DfsSt G) (hv : v < f) (hs : Skel ns0 s.ns) (hvr : v ≤ root)
    (hg : GI ns0 (fun k => (k ∈ s.visited ∨ k = v) ∧ k ≠ root) s.ns) :
    GQ ns0 root v s (visit f v s) := by
  refine visit_rule ns0 hw
    (fun v s => v ≤ root ∧ GI ns0 (fun k => (k ∈ s.visited ∨ k = v) ∧ k ≠ root) s.ns)
    (fun v s s' => GQ ns0 root v s s')
    (fun v s _ t => v ≤ root ∧ GI ns0 (fun k => k ∈ t.visited ∧ k ≠ root) t.ns ∧ v ∈ t.visited ∧
      (∀ x ∈ s.visited, x ∈ t.visited) ∧
      t.trace.length + s.visited.length + 1 ≤ s.trace.length + t.visited.length ∧
      t.visited.length + s.ordered.length = s.visited.length + 1 + t.ordered.length ∧
      (∀ e ∈ t.trace, e ∈ s.trace ∨ ∃ c, e = TrEv.zero c))
    ?_ ?_ ?_ ?_ f v s hv hs ⟨hvr, hg⟩
  · rintro v s ⟨_, hg⟩ hvis
    exact ⟨hg.congr (fun k => ⟨fun ⟨h, hk⟩ => ⟨h.elim id (fun e => e ▸ hvis), hk⟩, fun ⟨h, hk⟩ => ⟨Or.inl h, hk⟩⟩),
      hvis, fun _ h => h, by simp [hvis], rfl, fun _ h => Or.inl h⟩
  · rintro v s _ ⟨hvr, hg⟩ hvis
    refine ⟨hvr, hg.congr (fun k => by simp [List.mem_cons, or_comm]), by simp,
      fun x hx => List.mem_cons_of_mem _ hx, by simp; omega, by simp, fun _ h => Or.inl h⟩
  · rintro v s c cs t hst hc ⟨hvr, hg, hvt, hsub, htr, hord, hz⟩
    have hcv : c < v := hw v c hc
    have hcr : c ≠ root := by omega
    obtain ⟨hg', htr'⟩ := enc_GI ns0 root t c hst hcr hg
    refine ⟨⟨by omega, by simpa only [enc_visited] using hg'⟩, ?_⟩
    intro t' _ q
    have qtr := q.tr
    have qord := q.ord
    simp only [enc_visited, enc_ordered] at qtr qord
    refine ⟨hvr, q.gi, q.sub v (by simpa using hvt), fun x hx => q.sub x (by simpa using hsub x hx), ?_, ?_, ?_⟩
    · rcases htr' with h | ⟨hcn, h⟩
      · rw [h] at qtr; split at qtr <;> omega
      · rw [h] at qtr; simp only [hcn, if_false, List.length_append, List.length_singleton] at qtr; omega
    · omega
    · intro e he
      rcases q.zeros e he with h | h
      · rcases htr' with h' | ⟨_, h'⟩
        · rw [h'] at h; exact hz e h
        · rw [h'] at h
          rcases List.mem_append.mp h with h | h
          · exact hz e h
          · exact Or.inr ⟨c, by simpa using h⟩
      · exact Or.inr h
  · rintro v s t _ ⟨_, hg, hvt, hsub, htr, hord, hz⟩
    refine ⟨hg, hvt, hsub, ?_, ?_, hz⟩
    · show t.trace.length + s.visited.length + (if v ∈ s.visited then 0 else 1) ≤ s.trace.length + t.visited.length
      split <;> omega
    · show t.visited.length + s.ordered.length = s.visited.length + (t.ordered ++ [v]).length
      simp; omega

end Grads

/-! ### two runs on graphs that agree up to non-leaf gradients -/

/-- the two traversal states agree on everything but buffers of unvisited non-leaves (and the root) -/
structure Rel2 (root : Nat) (X : Nat → Prop) (sa sb : DfsSt G) : Prop where
  vis : sa.visited = sb.visited
  ord : sa.ordered = sb.ordered
  tr : sa.trace = sb.trace
  skel : Skel sa.ns sb.ns
  agree : ∀ k na, sa.ns[k]? = some na → (na.isLeaf = true ∨ (X k ∧ k ≠ root)) → sb.ns[k]? = some na
  hasG : ∀ k na, sa.ns[k]? = some na → X k → k ≠ root → na.reqGrad = true → na.grad.isSome = true

theorem Rel2.mono {root : Nat} {X Y : Nat → Prop} {sa sb : DfsSt G} (h : ∀ k, Y k → X k)
    (r : Rel2 root X sa sb) : Rel2 root Y sa sb :=
  ⟨r.vis, r.ord, r.tr, r.skel,
    fun k na hk hx => r.agree k na hk (hx.imp id (fun ⟨a, b⟩ => ⟨h k a, b⟩)),
    fun k na hk hx => r.hasG k na hk (h k hx)⟩

theorem enc_of_get {s : DfsSt G} {c : Nat} {n : Node G} (h : s.ns[c]? = some n) :
    enc s c = if encCond s c n then { s with ns := setGrad s.ns c (some n.zero), trace := s.trace ++ [TrEv.zero c] } else s := by
  simp [enc, h]

theorem Rel2.set {root : Nat} {X : Nat → Prop} {ta tb : DfsSt G} (r : Rel2 root X ta tb) {c : Nat}
    {na nb : Node G} (ha : ta.ns[c]? = some na) (hb : tb.ns[c]? = some nb) :
    Rel2 root (fun k => X k ∨ k = c)
      { ta with ns := setGrad ta.ns c (some na.zero), trace := ta.trace ++ [TrEv.zero c] }
      { tb with ns := setGrad tb.ns c (some nb.zero), trace := tb.trace ++ [TrEv.zero c] } := by
  obtain ⟨m, hm, hst⟩ := r.skel.get ha
  rw [hb] at hm; cases hm
  have hz : nb.zero = na.zero := ((strip_eq_iff _ _).mp hst).2.2.2.2
  refine ⟨r.vis, r.ord, by simp [r.tr], ((skel_setGrad _ _ _).symm.trans r.skel).trans (skel_setGrad _ _ _), ?_, ?_⟩
  · intro k n hk hx
    simp only at hk ⊢
    by_cases hkc : k = c
    · subst hkc
      rw [getElem?_setGrad_self, ha] at hk
      rw [getElem?_setGrad_self, hb, hz]
      simp only [Option.map_some, Option.some.injEq] at hk ⊢
      rw [← hk]; exact withGrad_of_strip hst _
    · rw [getElem?_setGrad_ne _ _ _ _ hkc] at hk ⊢
      exact r.agree k n hk (hx.imp id (fun ⟨a, b⟩ => ⟨a.resolve_right hkc, b⟩))
  · intro k n hk hx hkr hrq
    simp only at hk
    by_cases hkc : k = c
    · subst hkc
      rw [getElem?_setGrad_self, ha] at hk
      simp only [Option.map_some, Option.some.injEq] at hk
      rw [← hk]; rfl
    · rw [getElem?_setGrad_ne _ _ _ _ hkc] at hk
      exact r.hasG k n hk (hx.resolve_right hkc) hkr hrq

theorem enc_sim {root : Nat} {ta tb : DfsSt G} (r : Rel2 root (fun k => k ∈ ta.visited) ta tb) {c : Nat}
    (hc : c ≠ root) :
    Rel2 root (fun k => k ∈ ta.visited ∨ k = c) (enc ta c) (enc tb c) := by
  cases ha : ta.ns[c]? with
  | none =>
    have hb : tb.ns[c]? = none := r.skel.get_none ha
    have e1 : enc ta c = ta := by simp [enc, ha]
    have e2 : enc tb c = tb := by simp [enc, hb]
    rw [e1, e2]
    refine ⟨r.vis, r.ord, r.tr, r.skel, ?_, ?_⟩
    · intro k n hk hx
      refine r.agree k n hk (hx.imp id (fun ⟨a, b⟩ => ⟨a.resolve_right ?_, b⟩))
      rintro rfl; rw [ha] at hk; cases hk
    · intro k n hk hx
      refine r.hasG k n hk (hx.resolve_right ?_)
      rintro rfl; rw [ha] at hk; cases hk
  | some na =>
    by_cases hA : na.isLeaf = true ∨ c ∈ ta.visited
    · have hb : tb.ns[c]? = some na := r.agree c na ha (hA.imp id (fun h => ⟨h, hc⟩))
      have hcond : encCond tb c na = encCond ta c na := by simp [encCond, r.vis]
      rw [enc_of_get ha, enc_of_get hb, hcond]
      by_cases hcd : encCond ta c na = true
      · simp only [hcd, if_true]; exact r.set ha hb
      · rw [if_neg hcd, if_neg hcd]
        refine ⟨r.vis, r.ord, r.tr, r.skel, ?_, ?_⟩
        · intro k n hk hx
          by_cases hkc : k = c
          · subst hkc; rw [ha] at hk; cases hk; exact hb
          · exact r.agree k n hk (hx.imp id (fun ⟨a, b⟩ => ⟨a.resolve_right hkc, b⟩))
        · intro k n hk hx hkr hrq
          by_cases hkc : k = c
          · subst hkc; rw [ha] at hk; cases hk
            simp only [encCond, hrq, Bool.true_and, Bool.or_eq_true, not_or] at hcd
            have := hcd.1
            cases hg : na.grad <;> simp_all
          · exact r.hasG k n hk (hx.resolve_right hkc) hkr hrq
    · have hA' : na.isLeaf = false ∧ c ∉ ta.visited := by
        constructor
        · cases h : na.isLeaf <;> simp_all
        · exact fun h => hA (Or.inr h)
      obtain ⟨nb, hb, hst⟩ := r.skel.get ha
      have hlf : nb.isLeaf = na.isLeaf := isLeaf_of_strip hst
      have hrq : nb.reqGrad = na.reqGrad := ((strip_eq_iff _ _).mp hst).2.1
      have hr : na.reqGrad = true := by
        have := hA'.1; simp only [Node.isLeaf] at this
        cases h : na.reqGrad <;> simp_all
      have hca : encCond ta c na = true := by simp [encCond, hr, hA'.1, hA'.2]
      have hcb : encCond tb c nb = true := by simp [encCond, hrq, hr, hlf, hA'.1, ← r.vis, hA'.2]
      rw [enc_of_get ha, enc_of_get hb]
      simp only [hca, hcb, if_true]
      exact r.set ha hb

section Sim
variable (ns0 : Graph G) (hw : ∀ u c, c ∈ chOf ns0 u → c < u) (root : Nat)
include hw

omit hw in
theorem fold_sim (f v : Nat) (hvr : v ≤ root)
    (IH : ∀ c (sa sb : DfsSt G), c ≤ root → Skel ns0 sa.ns → Rel2 root (fun k => k ∈ sa.visited ∨ k = c) sa sb →
      Rel2 root (fun k => k ∈ (visit f c sa).visited) (visit f c sa) (visit f c sb)) :
    ∀ (cs : List Nat) (ta tb : DfsSt G), (∀ c ∈ cs, c < v) → Skel ns0 ta.ns →
      Rel2 root (fun k => k ∈ ta.visited) ta tb →
      Rel2 root (fun k => k ∈ (cs.foldl (fun s c => visit f c (enc s c)) ta).visited)
        (cs.foldl (fun s c => visit f c (enc s c)) ta) (cs.foldl (fun s c => visit f c (enc s c)) tb) := by
  intro cs
  induction cs with
  | nil => intro ta tb _ _ r; exact r
  | cons c cs ih =>
    intro ta tb hcs hs r
    simp only [List.foldl_cons]
    have hc := hcs c (by simp)
    have r1 := enc_sim r (c := c) (by omega)
    have hs1 : Skel ns0 (enc ta c).ns := hs.trans (enc_skel ta c)
    have r2 := IH c (enc ta c) (enc tb c) (by omega) hs1 (by simpa only [enc_visited] using r1)
    exact ih _ _ (fun c' h' => hcs c' (by simp [h'])) (hs1.trans (visit_skel f c _)) r2

theorem visit_sim : ∀ (f v : Nat) (sa sb : DfsSt G), v ≤ root → Skel ns0 sa.ns →
    Rel2 root (fun k => k ∈ sa.visited ∨ k = v) sa sb →
    Rel2 root (fun k => k ∈ (visit f v sa).visited) (visit f v sa) (visit f v sb) := by
  intro f
  induction f with
  | zero => intro v sa sb _ _ r; exact r.mono (fun k h => Or.inl h)
  | succ f ih =>
    intro v sa sb hvr hs r
    rw [visit_succ, visit_succ]
    by_cases hvs : v ∈ sa.visited
    · have h1 : sa.visited.contains v = true := by simpa using hvs
      have h2 : sb.visited.contains v = true := by rw [← r.vis]; exact h1
      simp only [h1, h2, if_true]
      exact r.mono (fun k h => Or.inl h)
    · have h1 : ¬ (sa.visited.contains v = true) := by simpa using hvs
      have h2 : ¬ (sb.visited.contains v = true) := by rw [← r.vis]; exact h1
      simp only [h1, h2]
      have hcha : chOf sa.ns v = chOf ns0 v := (chOf_skel hs v).symm
      have hchb : chOf sb.ns v = chOf ns0 v := (chOf_skel (hs.trans r.skel) v).symm
      rw [hcha, hchb]
      have r0 : Rel2 root (fun k => k ∈ v :: sa.visited)
          { sa with visited := v :: sa.visited } { sb with visited := v :: sb.visited } :=
        ⟨by simp [r.vis], r.ord, r.tr, r.skel,
          fun k na hk hx => r.agree k na hk (hx.imp id (fun ⟨a, b⟩ => ⟨by simpa [or_comm] using a, b⟩)),
          fun k na hk hx => r.hasG k na hk (by simpa [or_comm] using hx)⟩
      have rf := fold_sim ns0 root f v hvr ih (chOf ns0 v) { sa with visited := v :: sa.visited }
        { sb with visited := v :: sb.visited } (fun c hc => hw v c hc) hs r0
      exact ⟨rf.vis, by simp [rf.ord], rf.tr, rf.skel, rf.agree, rf.hasG⟩

end Sim

end Proofs.Engine
