import SynapModel.Ops
import Proofs.EngineStruct
/-!
# Helper material for Props/C10 and Props/C11

* `BufInv R ns` : every present gradient buffer `g` of a node `n` satisfies `R n.zero g`; preserved
  by every phase of `Engine.backward` when `R z z` and `R z a → R z (a + b)`.
* `sweep_fixed` : `sweep` leaves node `k` alone when `k` is no operand of a swept node and is not
  released.
* `mkTensor` / `applyOp` / `Ops.apply` : exact description of the appended entries.
-/
namespace Proofs.Api
open Synap Synap.NDArray Synap.Api Synap.Ops Synap.Engine Proofs.Engine

/-! ### an invariant on gradient buffers -/
section Buf
variable {G : Type}

/-- every present gradient buffer is `R`-related to the node's `zero` field -/
def BufInv (R : G → G → Prop) (ns : Graph G) : Prop :=
  ∀ (i : Nat) (n : Node G) (g : G), ns[i]? = some n → n.grad = some g → R n.zero g

theorem bufInv_setGrad {R : G → G → Prop} {ns : Graph G} (h : BufInv R ns) (i : Nat) (x : Option G)
    (hx : ∀ n y, ns[i]? = some n → x = some y → R n.zero y) : BufInv R (setGrad ns i x) := by
  intro k n g hk hg
  rw [getElem?_setGrad] at hk
  cases hn : ns[k]? with
  | none => simp [hn] at hk
  | some m =>
    rw [hn] at hk
    simp only [Option.map_some, Option.some.injEq] at hk
    by_cases e : k = i
    · subst e
      rw [if_pos rfl] at hk
      subst hk
      exact hx m g hn hg
    · rw [if_neg e] at hk; subst hk; exact h k _ g hn hg

theorem bufInv_enc {R : G → G → Prop} (hz : ∀ z, R z z) (s : DfsSt G) (c : Nat) (h : BufInv R s.ns) :
    BufInv R (enc s c).ns := by
  rcases enc_cases s c with e | ⟨n, hn, _, e⟩ <;> rw [e]
  · exact h
  · refine bufInv_setGrad h c _ ?_
    intro m y hm hy
    rw [hn] at hm; cases hm; cases hy
    exact hz _

theorem bufInv_visit {R : G → G → Prop} (hz : ∀ z, R z z) :
    ∀ (f v : Nat) (s : DfsSt G), BufInv R s.ns → BufInv R (visit f v s).ns := by
  intro f
  induction f with
  | zero => intro v s h; exact h
  | succ f ih =>
    intro v s h
    rw [visit_succ]
    by_cases hv : s.visited.contains v = true
    · simp only [hv, if_true]; exact h
    · simp only [hv]
      have fold : ∀ (cs : List Nat) (t : DfsSt G), BufInv R t.ns →
          BufInv R (cs.foldl (fun s c => visit f c (enc s c)) t).ns := by
        intro cs
        induction cs with
        | nil => intro t ht; exact ht
        | cons c cs ihc =>
          intro t ht
          simp only [List.foldl_cons]
          exact ihc _ (ih c _ (bufInv_enc hz t c ht))
      exact fold (chOf s.ns v) { s with visited := v :: s.visited } h

variable [Add G]

theorem bufInv_accumulate {R : G → G → Prop} (hadd : ∀ z a b, R z a → R z (a + b))
    (ns : Graph G) (cs : List Nat) (gs : List (Option G)) (ns' : Graph G)
    (h : accumulate ns cs gs = some ns') (hi : BufInv R ns) : BufInv R ns' := by
  fun_induction accumulate ns cs gs generalizing ns' with
  | case1 ns c cs g gs n hc hr old hold ih =>
    refine ih ns' h (bufInv_setGrad hi c _ ?_)
    intro m y hm hy
    rw [hc] at hm; cases hm; cases hy
    exact hadd _ _ _ (hi c n old hc hold)
  | case2 => cases h
  | case3 ns c cs g gs n hc hr ih => exact ih ns' h hi
  | case4 => cases h
  | case5 ns c cs gs ih => exact ih ns' h hi
  | case6 t ns x h1 h2 => cases h; exact hi

theorem bufInv_backStep {R : G → G → Prop} (hadd : ∀ z a b, R z a → R z (a + b))
    {ns : Graph G} {v : Nat} {n : Node G} {tr : List TrEv} {p : Graph G × List TrEv}
    (h : backStep ns v n tr = some p) (hi : BufInv R ns) : BufInv R p.1 := by
  unfold backStep at h
  split at h
  · rename_i f g hf hg
    cases hfg : f g with
    | none => simp [hfg] at h
    | some l =>
      simp only [hfg, Option.bind_some, Option.map_eq_some_iff] at h
      obtain ⟨ns', hacc, rfl⟩ := h
      exact bufInv_accumulate hadd _ _ _ _ hacc hi
  · cases h
  · cases h; exact hi

omit [Add G] in
theorem bufInv_relStep {R : G → G → Prop} (root : Nat) (rA : Bool) (v : Nat) (n : Node G)
    (p : Graph G × List TrEv) (hi : BufInv R p.1) : BufInv R (relStep root rA v n p).1 := by
  unfold relStep; split
  · exact bufInv_setGrad hi v none (fun _ _ _ hy => by cases hy)
  · exact hi

theorem bufInv_sweep {R : G → G → Prop} (hadd : ∀ z a b, R z a → R z (a + b)) (root : Nat) (rA : Bool) :
    ∀ (L : List Nat) (ns : Graph G) (tr : List TrEv) (ns' : Graph G) (tr' : List TrEv),
      sweep root rA L ns tr = some (ns', tr') → BufInv R ns → BufInv R ns' := by
  intro L
  induction L with
  | nil => intro ns tr ns' tr' h hi; rw [sweep_nil] at h; cases h; exact hi
  | cons v rest ih =>
    intro ns tr ns' tr' h hi
    rw [sweep_cons] at h
    cases hv : ns[v]? with
    | none => simp [hv] at h
    | some n =>
      simp only [hv] at h
      cases hb : backStep ns v n tr with
      | none => simp [hb] at h
      | some p =>
        simp only [hb] at h
        exact ih _ _ _ _ h (bufInv_relStep root rA v n p (bufInv_backStep hadd hb hi))

theorem bufInv_finish {R : G → G → Prop} (hadd : ∀ z a b, R z a → R z (a + b))
    (s : DfsSt G) (root : Nat) (g : G) (rA : Bool) (ns' : Graph G) (tr : List TrEv)
    (h : finish s root g rA = some (ns', tr)) (hi : BufInv R s.ns)
    (hg : ∀ r', s.ns[root]? = some r' → R r'.zero g) : BufInv R ns' := by
  unfold finish at h
  refine bufInv_sweep hadd root rA _ _ _ _ _ h ?_
  cases hr : s.ns[root]? with
  | none => exact hi
  | some r' =>
    simp only
    have hgr := hg r' hr
    cases hl : r'.isLeaf <;> cases hgd : r'.grad <;> simp only
    all_goals
      refine bufInv_setGrad hi root _ ?_
      intro m y hm hy
      rw [hr] at hm; cases hm; cases hy
    · exact hgr
    · exact hgr
    · exact hgr
    · exact hadd _ _ _ (hi root r' _ hr hgd)

/-- **`Engine.backward` preserves every buffer invariant** that holds of `zero` itself, is stable
    under `old + _`, and holds of the caller's gradient at the root. -/
theorem bufInv_backward {R : G → G → Prop} (hz : ∀ z, R z z) (hadd : ∀ z a b, R z a → R z (a + b))
    (ns : Graph G) (root : Nat) (g : G) (rA : Bool) (ns' : Graph G) (tr : List TrEv)
    (h : Engine.backward ns root g rA = some (ns', tr)) (hi : BufInv R ns)
    (hg : ∀ r, ns[root]? = some r → R r.zero g) : BufInv R ns' := by
  unfold Engine.backward at h
  cases hr : ns[root]? with
  | none => simp [hr] at h
  | some r =>
    simp only [hr] at h
    split at h
    · cases h
    · refine bufInv_finish hadd _ root g rA ns' tr h (bufInv_visit hz _ _ _ hi) ?_
      intro r' hr'
      obtain ⟨m, hm, hst⟩ := (visit_skel (ns.length + 1) root ⟨[], [], ns, []⟩).get hr
      change (traverse ns root).ns[root]? = some m at hm
      rw [hr'] at hm; cases hm
      rw [((strip_eq_iff _ _).mp hst).2.2.2.2]
      exact hg r hr

/-! ### nodes `sweep` does not touch -/

theorem sweep_fixed (root : Nat) (rA : Bool) (k : Nat) :
    ∀ (L : List Nat) (ns : Graph G) (tr : List TrEv) (ns' : Graph G) (tr' : List TrEv),
      (∀ v ∈ L, k ∉ chOf ns v) → (k ∈ L → k = root) →
      sweep root rA L ns tr = some (ns', tr') → ns'[k]? = ns[k]? := by
  intro L
  induction L with
  | nil => intro ns tr ns' tr' _ _ h; rw [sweep_nil] at h; cases h; rfl
  | cons v rest ih =>
    intro ns tr ns' tr' hch hk h
    rw [sweep_cons] at h
    cases hv : ns[v]? with
    | none => simp [hv] at h
    | some n =>
      simp only [hv] at h
      cases hb : backStep ns v n tr with
      | none => simp [hb] at h
      | some p =>
        obtain ⟨ns2, tr2⟩ := p
        simp only [hb] at h
        obtain ⟨hacc, _, _⟩ := back_spec hb
        have hsk3 : Skel ns (relStep root rA v n (ns2, tr2)).1 :=
          hacc.skel.trans (relStep_skel root rA v n (ns2, tr2))
        have hkc : k ∉ n.children := by
          have := hch v List.mem_cons_self
          simpa [chOf, hv] using this
        have h2 : ns2[k]? = ns[k]? := hacc.frame k hkc
        have h3 : (relStep root rA v n (ns2, tr2)).1[k]? = ns[k]? := by
          by_cases hkv : k = v
          · subst hkv
            have hroot : k = root := hk List.mem_cons_self
            have : relCond root rA k n = false := by simp [relCond, hroot]
            rw [relStep_self, this, h2]
            cases ns[k]? <;> simp
          · rw [relStep_ne _ _ _ _ _ k hkv]; exact h2
        rw [ih _ _ _ _ (fun u hu => by rw [← chOf_skel hsk3 u]; exact hch u (List.mem_cons_of_mem _ hu))
          (fun hm => hk (List.mem_cons_of_mem _ hm)) h, h3]

/-- **the root of a non-leaf `backward` call ends up holding exactly the caller's gradient** -/
theorem backward_root_grad (ns : Graph G) (hw : WFG ns) (root : Nat) (g : G) (rA : Bool)
    (ns' : Graph G) (tr : List TrEv) (h : Engine.backward ns root g rA = some (ns', tr))
    (r : Node G) (hr : ns[root]? = some r) (hleaf : r.isLeaf = false) :
    ∃ r', ns'[root]? = some r' ∧ r'.grad = some g := by
  obtain ⟨r0, hr0, hrg, F, _⟩ := backward_facts hw h
  rw [backward_eq ns root g rA r0 hr0 hrg] at h
  obtain ⟨r1, hr1, hst⟩ := F.skel.get hr
  have hl1 : r1.isLeaf = false := by rw [isLeaf_of_strip hst]; exact hleaf
  have hsk : Skel ns (ns1 ns root g) := F.skel.trans (ns1_skel ns root g)
  have hfix := sweep_fixed root rA root _ _ _ _ _ (fun v hv => by
      rw [← chOf_skel hsk v]
      intro hm
      have h1 := hw.ch v root hm
      have h2 := ((F.mem_ord v).mp (List.mem_reverse.mp hv)).le hw
      omega) (fun _ => rfl) h
  rw [ns1_root ns root g hr1, rootVal_nonleaf _ root g hr1 hl1] at hfix
  exact ⟨_, hfix, rfl⟩

end Buf

/-! ### `mkTensor`, `applyOp`, `Ops.apply` -/

section ApiS
variable {α : Type} [Zero α]

/-- the node `mkTensor` creates -/
def mkNode (st : TState α) (v : NDArray α) (rg : Bool) (ch : List Nat)
    (bk : Option (NDArray α → Option (List (Option (NDArray α))))) : Node (NDArray α) :=
  { children := if (rg && st.modes.grad) then ch else [], reqGrad := rg && st.modes.grad,
    back := if (rg && st.modes.grad) then bk else none, retain := false, grad := none, zero := zeros v.shape }

theorem mkTensor_eq (st : TState α) (v : NDArray α) (dt : DType) (rg : Bool) (ch : List Nat)
    (bk : Option (NDArray α → Option (List (Option (NDArray α))))) :
    mkTensor st v dt rg ch bk =
      if (rg && st.modes.grad && !dt.isFloat) = true then none
      else some ({ st with g := st.g ++ [mkNode st v rg ch bk], vals := st.vals ++ [v],
                           dtypes := st.dtypes ++ [dt] }, st.g.length) := rfl

theorem zeros_shape (s : Shape) : (zeros s : NDArray α).shape = s := rfl

/-- the step of the fold in `applyOp` -/
def stepF (inputs : List Nat) (dt : DType) (rg : Bool) (acc : TState α × List Nat) (o : OpOut α) :
    Option (TState α × List Nat) :=
  (mkTensor acc.1 o.value dt rg inputs (some o.back)).bind (fun p => some (p.1, acc.2 ++ [p.2]))

/-- `any(operands require grad)` -/
def rgOf (st : TState α) (inputs : List Nat) : Bool :=
  (inputs.map (fun i => match st.g[i]? with | some n => n.reqGrad | none => false)).any id

theorem applyOp_eq (st : TState α) (inputs : List Nat) (dt : DType) (outs : List (OpOut α)) :
    applyOp st inputs dt outs = outs.foldlM (stepF inputs dt (rgOf st inputs)) (st, []) := rfl

theorem stepF_eq (inputs : List Nat) (dt : DType) (rg : Bool) (acc : TState α × List Nat) (o : OpOut α) :
    stepF inputs dt rg acc o =
      if (rg && acc.1.modes.grad && !dt.isFloat) = true then none
      else some ({ acc.1 with g := acc.1.g ++ [mkNode acc.1 o.value rg inputs (some o.back)],
                              vals := acc.1.vals ++ [o.value], dtypes := acc.1.dtypes ++ [dt] },
                 acc.2 ++ [acc.1.g.length]) := by
  unfold stepF; rw [mkTensor_eq]; split <;> rfl

/-- exact description of a successful fold of `applyOp` -/
theorem fold_spec (inputs : List Nat) (dt : DType) (rg : Bool) :
    ∀ (outs : List (OpOut α)) (acc res : TState α × List Nat),
      outs.foldlM (stepF inputs dt rg) acc = some res →
      res.1.vals = acc.1.vals ++ outs.map (·.value) ∧
      res.1.dtypes = acc.1.dtypes ++ List.replicate outs.length dt ∧
      (∃ new, res.1.g = acc.1.g ++ new ∧ new.length = outs.length ∧
        ∀ n ∈ new, n.reqGrad = (rg && acc.1.modes.grad)) ∧
      res.1.modes = acc.1.modes ∧
      res.2 = acc.2 ++ List.range' acc.1.g.length outs.length ∧
      (outs ≠ [] → (rg && acc.1.modes.grad && !dt.isFloat) = false) := by
  intro outs
  induction outs with
  | nil =>
    intro acc res h
    simp only [List.foldlM_nil, pure, Option.some.injEq] at h
    subst h
    exact ⟨by simp, by simp, ⟨[], by simp, rfl, by simp⟩, rfl, by simp, fun h => absurd rfl h⟩
  | cons o os ih =>
    intro acc res h
    rw [List.foldlM_cons] at h
    simp only [bind, Option.bind_eq_some_iff] at h
    obtain ⟨acc1, h1, h2⟩ := h
    rw [stepF_eq] at h1
    split at h1
    · cases h1
    · rename_i hc
      simp only [Option.some.injEq] at h1
      subst h1
      obtain ⟨a, b, ⟨new, c1, c2, c3⟩, d, e, _⟩ := ih _ _ h2
      simp only at a b c1 c3 d e
      refine ⟨by rw [a]; simp, by rw [b]; simp [List.replicate_succ], ⟨mkNode acc.1 o.value rg inputs (some o.back) :: new, by rw [c1]; simp, by simp [c2], ?_⟩,
        d, by rw [e]; simp [List.range'_succ], fun _ => by simpa using hc⟩
      intro n hn
      rcases List.mem_cons.mp hn with rfl | hn
      · rfl
      · exact c3 n hn

/-- the fold succeeds as soon as one `mkTensor` would -/
theorem fold_succ (inputs : List Nat) (dt : DType) (rg : Bool) :
    ∀ (outs : List (OpOut α)) (acc : TState α × List Nat),
      (rg && acc.1.modes.grad && !dt.isFloat) = false →
      ∃ res, outs.foldlM (stepF inputs dt rg) acc = some res := by
  intro outs
  induction outs with
  | nil => intro acc _; exact ⟨acc, rfl⟩
  | cons o os ih =>
    intro acc hc
    rw [List.foldlM_cons, stepF_eq, if_neg (by rw [hc]; simp)]
    exact ih _ hc

end ApiS

section OpsS
variable {α : Type} [Zero α] [One α] [Add α] [Sub α] [Mul α] [Div α] [Neg α] [NatCast α]
  [OfScientific α] [LT α] [DecidableLT α] [LE α] [DecidableLE α] [Transc α]

theorem apply_eq (st : TState α) (op : Op α) (inputs : List Nat) :
    Ops.apply st op inputs =
      (inputs.mapM (fun i => st.vals[i]?)).bind (fun ins => (evalOp op ins).bind (fun outs =>
        applyOp st inputs (resultDType (inputs.filterMap (fun i => st.dtypes[i]?))) outs)) := rfl

theorem apply_inv {st : TState α} {op : Op α} {inputs : List Nat} {res : TState α × List Nat}
    (h : Ops.apply st op inputs = some res) :
    ∃ ins outs, inputs.mapM (fun i => st.vals[i]?) = some ins ∧ evalOp op ins = some outs ∧
      outs.foldlM (stepF inputs (resultDType (inputs.filterMap (fun i => st.dtypes[i]?))) (rgOf st inputs)) (st, [])
        = some res := by
  rw [apply_eq] at h
  simp only [Option.bind_eq_some_iff] at h
  obtain ⟨ins, h1, outs, h2, h3⟩ := h
  exact ⟨ins, outs, h1, h2, h3⟩

theorem mapM_opt_congr {β γ : Type} {f g : β → Option γ} (l : List β) (h : ∀ i ∈ l, f i = g i) :
    l.mapM f = l.mapM g := by
  induction l with
  | nil => rfl
  | cons a l ih =>
    rw [List.mapM_cons, List.mapM_cons, h a List.mem_cons_self, ih (fun i hi => h i (List.mem_cons_of_mem _ hi))]

theorem filterMap_congr_mem {β γ : Type} {f g : β → Option γ} (l : List β) (h : ∀ i ∈ l, f i = g i) :
    l.filterMap f = l.filterMap g := by
  induction l with
  | nil => rfl
  | cons a l ih =>
    rw [List.filterMap_cons, List.filterMap_cons, h a List.mem_cons_self,
      ih (fun i hi => h i (List.mem_cons_of_mem _ hi))]

theorem range'_map_getElem?_append {β : Type} (a b : List β) :
    (List.range' a.length b.length).map (fun k => (a ++ b)[k]?) = b.map some := by
  apply List.ext_getElem?
  intro j
  simp only [List.getElem?_map]
  by_cases hj : j < b.length
  · simp [hj]
  · simp [hj]

end OpsS
section OpsS2
variable {α : Type} [Zero α] [One α] [Add α] [Sub α] [Mul α] [Div α] [Neg α] [NatCast α]
  [OfScientific α] [LT α] [DecidableLT α] [LE α] [DecidableLE α] [Transc α]

theorem range'_map_getElem?_append' {β : Type} (a b : List β) (s m : Nat) (ha : a.length = s)
    (hb : b.length = m) : (List.range' s m).map (fun k => (a ++ b)[k]?) = b.map some := by
  subst ha; subst hb; exact range'_map_getElem?_append a b

/-- everything a successful `Ops.apply` guarantees about the new state -/
theorem apply_spec {st st' : TState α} {op : Op α} {inputs ks : List Nat}
    (h : Ops.apply st op inputs = some (st', ks)) :
    ∃ ins outs, inputs.mapM (fun i => st.vals[i]?) = some ins ∧ evalOp op ins = some outs ∧
      st'.vals = st.vals ++ outs.map (·.value) ∧
      st'.dtypes = st.dtypes ++
        List.replicate outs.length (resultDType (inputs.filterMap (fun i => st.dtypes[i]?))) ∧
      (∃ new, st'.g = st.g ++ new ∧ new.length = outs.length ∧
        ∀ n ∈ new, n.reqGrad = (rgOf st inputs && st.modes.grad)) ∧
      st'.modes = st.modes ∧
      ks = List.range' st.g.length outs.length ∧
      (outs ≠ [] → (rgOf st inputs && st.modes.grad &&
        !(resultDType (inputs.filterMap (fun i => st.dtypes[i]?))).isFloat) = false) := by
  obtain ⟨ins, outs, h1, h2, h3⟩ := apply_inv h
  obtain ⟨a, b, c, d, e, f⟩ := fold_spec _ _ _ _ _ _ h3
  exact ⟨ins, outs, h1, h2, a, b, c, d, by simpa using e, f⟩

/-- `Ops.apply` succeeds when the operands exist, the kernel accepts them and the dtype rule of
    `Tensor.__init__` is met -/
theorem apply_succ {st : TState α} {op : Op α} {inputs : List Nat} {ins : List (NDArray α)}
    {outs : List (OpOut α)} (h1 : inputs.mapM (fun i => st.vals[i]?) = some ins)
    (h2 : evalOp op ins = some outs)
    (h3 : outs ≠ [] → (rgOf st inputs && st.modes.grad &&
        !(resultDType (inputs.filterMap (fun i => st.dtypes[i]?))).isFloat) = false) :
    ∃ res, Ops.apply st op inputs = some res := by
  rw [apply_eq, h1, Option.bind_some, h2, Option.bind_some, applyOp_eq]
  cases outs with
  | nil => exact ⟨_, rfl⟩
  | cons o os => exact fold_succ _ _ _ _ _ (h3 (by simp))

end OpsS2
end Proofs.Api
