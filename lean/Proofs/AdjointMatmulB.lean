import Proofs.AdjointBcastB
import Mathlib.Algebra.BigOperators.Group.Finset.Sigma
/-!
# Matrix product with batch broadcasting: index bookkeeping and the two transposes
-/
namespace Proofs.Adjoint
open Synap Synap.NDArray Synap.Np Synap.Kernels Proofs.Core

/-! ### sums over product shapes -/
section Sums
variable {M : Type} [AddCommMonoid M]

theorem sum_flatMap_map {β γ : Type} (l : List β) (g : β → List γ) (f : γ → M) :
    ((l.flatMap g).map f).sum = (l.map (fun p => ((g p).map f).sum)).sum := by
  induction l with
  | nil => simp
  | cons a l ih => simp [List.flatMap_cons, ih]

theorem allIdx_append (s t : Shape) :
    allIdx (s ++ t) = (allIdx s).flatMap (fun p => (allIdx t).map (p ++ ·)) := by
  induction s with
  | nil => simp [allIdx]
  | cons n s ih =>
    simp only [List.cons_append, allIdx, ih, List.flatMap_assoc, List.map_flatMap, List.flatMap_map,
      List.map_map]
    rfl

theorem sum_allIdx_append (s t : Shape) (f : Idx → M) :
    ((allIdx (s ++ t)).map f).sum
      = ((allIdx s).map (fun p => ((allIdx t).map (fun q => f (p ++ q))).sum)).sum := by
  rw [allIdx_append, sum_flatMap_map]
  simp only [List.map_map]
  rfl

theorem sum_range_eq (n : Nat) (f : Nat → M) : ((List.range n).map f).sum = ∑ i ∈ Finset.range n, f i := by
  rw [← List.sum_toFinset _ (List.nodup_range)]
  exact Finset.sum_congr (by ext; simp) (fun _ _ => rfl)

theorem sum_allIdx_two (n m : Nat) (f : Idx → M) :
    ((allIdx [n, m]).map f).sum = ∑ i ∈ Finset.range n, ∑ l ∈ Finset.range m, f [i, l] := by
  simp only [allIdx, sum_flatMap_map, List.map_map, List.map_cons, List.map_nil, List.sum_cons,
    List.sum_nil, sum_range_eq]
  simp

/-- a sum over a shape with two trailing axes, as batch / row / column sums -/
theorem sum_allIdx_append_two (s : Shape) (n m : Nat) (f : Idx → M) :
    ((allIdx (s ++ [n, m])).map f).sum
      = ((allIdx s).map (fun p => ∑ i ∈ Finset.range n, ∑ l ∈ Finset.range m, f (p ++ [i, l]))).sum := by
  rw [sum_allIdx_append]
  congr 1
  apply List.map_congr_left
  intro p _
  exact sum_allIdx_two n m (fun q => f (p ++ q))

end Sums

/-! ### validity and broadcasting on shapes with trailing axes -/
theorem validIdx_append : ∀ (s t : Shape) (p q : Idx), validIdx s p → validIdx t q →
    validIdx (s ++ t) (p ++ q)
  | [], _, [], _, _, hq => by simpa using hq
  | n :: s, t, x :: p, q, hp, hq => by
    simp only [List.cons_append]
    exact ⟨hp.1, validIdx_append s t p q hp.2 hq⟩
  | [], _, _ :: _, _, hp, _ => by simp [validIdx] at hp
  | _ :: _, _, [], _, hp, _ => by simp [validIdx] at hp

theorem validIdx_two (n m i l : Nat) (hi : i < n) (hl : l < m) : validIdx [n, m] [i, l] :=
  ⟨hi, hl, trivial⟩

theorem bcastIdx_append_two (s : Shape) (n k : Nat) (p : Idx) (i t : Nat) (hl : s.length ≤ p.length)
    (hi : i < n) (ht : t < k) :
    bcastIdx (s ++ [n, k]) (p ++ [i, t]) = bcastIdx s p ++ [i, t] := by
  unfold bcastIdx
  have e : (p ++ [i, t]).length - (s ++ [n, k]).length = p.length - s.length := by
    simp only [List.length_append, List.length_cons, List.length_nil]; omega
  rw [e, List.drop_append_of_le_length (by omega),
    List.zipWith_append (by rw [List.length_drop]; omega)]
  congr 1
  have h1 : ¬ n = 1 ∨ i = 0 := by omega
  have h2 : ¬ k = 1 ∨ t = 0 := by omega
  simp only [List.zipWith_cons_cons, List.zipWith_nil_right]
  rcases h1 with h1 | h1 <;> rcases h2 with h2 | h2 <;> simp [h1, h2]

theorem bcOK_append_two (m' : Nat) (s batch : Shape) (n k : Nat)
    (h : List.Forall₂ BcOK (List.replicate m' 1 ++ s) batch) :
    List.Forall₂ BcOK (List.replicate m' 1 ++ (s ++ [n, k])) (batch ++ [n, k]) := by
  rw [← List.append_assoc]
  exact List.rel_append h (.cons (Or.inl rfl) (.cons (Or.inl rfl) .nil))

/-! ### swapping the last two axes -/
theorem getElem_swapPerm (n a b i : Nat) (h : i < (swapPerm n a b).length) :
    (swapPerm n a b)[i] = if i = a then b else if i = b then a else i := by
  simp [swapPerm]

theorem length_swapPerm (n a b : Nat) : (swapPerm n a b).length = n := by simp [swapPerm]

theorem swapPerm_nodup (c : Nat) : (swapPerm (c + 2) c (c + 1)).Nodup := by
  unfold swapPerm
  apply List.Nodup.map_on _ List.nodup_range
  intro x hx y hy
  simp only [List.mem_range] at hx hy
  split_ifs <;> omega

theorem invPerm_swapPerm (c : Nat) : invPerm (swapPerm (c + 2) c (c + 1)) = swapPerm (c + 2) c (c + 1) := by
  apply List.ext_getElem
  · simp [invPerm, length_swapPerm]
  · intro i h1 h2
    rw [length_swapPerm] at h2
    have hnd := swapPerm_nodup c
    have hlen := length_swapPerm (c + 2) c (c + 1)
    have hσ : (if i = c then c + 1 else if i = c + 1 then c else i) < (swapPerm (c + 2) c (c + 1)).length := by
      rw [hlen]; split_ifs <;> omega
    have key := hnd.idxOf_getElem _ hσ
    rw [getElem_swapPerm] at key
    have e : (if (if i = c then c + 1 else if i = c + 1 then c else i) = c then c + 1
        else if (if i = c then c + 1 else if i = c + 1 then c else i) = c + 1 then c
        else (if i = c then c + 1 else if i = c + 1 then c else i)) = i := by
      split_ifs <;> omega
    rw [e] at key
    simp only [invPerm, List.getElem_map, List.getElem_range, key, getElem_swapPerm]

theorem permute_swapPerm (p : List Nat) (x y : Nat) :
    permute (p ++ [x, y]) (swapPerm (p.length + 2) p.length (p.length + 1)) = p ++ [y, x] := by
  apply List.ext_getElem
  · simp [permute, length_swapPerm]
  · intro i h1 h2
    simp only [permute, List.getElem_map, getElem_swapPerm]
    simp only [List.length_append, List.length_cons, List.length_nil] at h2
    by_cases e1 : i = p.length
    · subst e1
      simp
    · by_cases e2 : i = p.length + 1
      · subst e2
        simp
      · have : i < p.length := by omega
        simp [e1, e2, List.getElem_append_left this, List.getD_eq_getElem?_getD,
          List.getElem?_append_left this, List.getElem?_eq_getElem this]

theorem normAxis_neg_two (c : Nat) : normAxis (c + 2) (-2) = some c := by
  unfold normAxis
  rw [if_neg (by omega), if_pos (by omega)]
  congr 1
  omega

theorem normAxis_neg_one (c : Nat) : normAxis (c + 2) (-1) = some (c + 1) := by
  unfold normAxis
  rw [if_neg (by omega), if_pos (by omega)]
  congr 1
  omega

theorem shape_split_two (s : Shape) (h : 2 ≤ s.length) :
    s = s.take (s.length - 2) ++ [s.getD (s.length - 2) 0, s.getD (s.length - 1) 0] := by
  conv_lhs => rw [← List.take_append_drop (s.length - 2) s]
  congr 1
  rw [List.drop_eq_getElem_cons (by omega : s.length - 2 < s.length)]
  have e1 : s.length - 2 + 1 = s.length - 1 := by omega
  rw [e1, List.drop_eq_getElem_cons (by omega : s.length - 1 < s.length)]
  have e2 : s.length - 1 + 1 = s.length := by omega
  rw [e2, List.drop_length]
  simp [List.getD_eq_getElem?_getD, List.getElem?_eq_getElem (by omega : s.length - 2 < s.length),
    List.getElem?_eq_getElem (by omega : s.length - 1 < s.length)]

section Mm
variable {α : Type} [Zero α]

/-- `swapLast` on an array with two trailing axes -/
theorem swapLast_eq [One α] [Add α] [Mul α] [Neg α] (b : NDArray α) (bb : Shape) (k m : Nat)
    (hb : b.shape = bb ++ [k, m]) :
    ∃ bT : NDArray α, swapLast b = some bT ∧ bT.WF ∧ bT.shape = bb ++ [m, k] ∧
      ∀ (p : Idx) (l t : Nat), p.length = bb.length → validIdx (bb ++ [m, k]) (p ++ [l, t]) →
        bT.get (p ++ [l, t]) = b.get (p ++ [t, l]) := by
  have hlen : b.shape.length = bb.length + 2 := by rw [hb]; simp
  have hsh : permute b.shape (swapPerm (bb.length + 2) bb.length (bb.length + 1)) = bb ++ [m, k] := by
    rw [hb, permute_swapPerm]
  refine ⟨transposeP b (swapPerm (bb.length + 2) bb.length (bb.length + 1)), ?_, ofFn_wf _ _, hsh, ?_⟩
  · simp only [swapLast, swapaxes, hlen, normAxis_neg_two, normAxis_neg_one, Option.bind_eq_bind,
      Option.bind_some, Option.pure_def]
  · intro p l t hp hv
    rw [transposeP]
    rw [get_gather _ _ _ _ (by rw [hsh]; exact hv), invPerm_swapPerm, ← hp, permute_swapPerm]

variable [Add α] [Mul α]

/-- the entry function of `matmul` -/
def mmFn (a b : NDArray α) (ba bb batch : Shape) (k : Nat) (j : Idx) : α :=
  ((List.range k).map (fun t =>
      a.get (bcastIdx ba (j.take batch.length) ++ [getI j batch.length, t]) *
      b.get (bcastIdx bb (j.take batch.length) ++ [t, getI j (batch.length + 1)]))).sum

theorem mmFn_append (a b : NDArray α) (ba bb batch : Shape) (k : Nat) (jb : Idx) (i l : Nat)
    (hl : jb.length = batch.length) :
    mmFn a b ba bb batch k (jb ++ [i, l]) =
      ((List.range k).map (fun t =>
        a.get (bcastIdx ba jb ++ [i, t]) * b.get (bcastIdx bb jb ++ [t, l]))).sum := by
  simp [mmFn, getI, ← hl, List.getD_eq_getElem?_getD]

theorem matmul_some (a b y : NDArray α) (h : matmul a b = some y) :
    ∃ ba bb batch n k m, a.shape = ba ++ [n, k] ∧ b.shape = bb ++ [k, m] ∧
      broadcastShapes ba bb = some batch ∧ y.shape = batch ++ [n, m] := by
  unfold matmul at h
  simp only [Option.bind_eq_bind, Option.pure_def] at h
  by_cases h1 : (decide (a.shape.length < 2) || decide (b.shape.length < 2)) = true
  · rw [if_pos h1] at h; simp at h
  · rw [if_neg h1] at h
    by_cases h2 : a.shape.getD (a.shape.length - 1) 0 ≠ b.shape.getD (b.shape.length - 2) 0
    · rw [if_pos h2] at h; simp at h
    · rw [if_neg h2] at h
      simp only [Bool.or_eq_true, decide_eq_true_eq, not_or, Nat.not_lt] at h1
      simp only [ne_eq, not_not] at h2
      cases hbc : broadcastShapes (a.shape.take (a.shape.length - 2)) (b.shape.take (b.shape.length - 2)) with
      | none => simp [hbc] at h
      | some batch =>
        simp only [hbc, Option.bind_some, Option.some.injEq] at h
        refine ⟨_, _, batch, _, _, _, shape_split_two a.shape h1.1, ?_, hbc, by rw [← h]; rfl⟩
        rw [h2]
        exact shape_split_two b.shape h1.2

theorem matmul_eq (a b : NDArray α) (ba bb batch : Shape) (n k m : Nat) (ha : a.shape = ba ++ [n, k])
    (hb : b.shape = bb ++ [k, m]) (hbc : broadcastShapes ba bb = some batch) :
    matmul a b = some (ofFn (batch ++ [n, m]) (mmFn a b ba bb batch k)) := by
  have la : a.shape.length = ba.length + 2 := by rw [ha]; simp
  have lb : b.shape.length = bb.length + 2 := by rw [hb]; simp
  have e1 : a.shape.take (a.shape.length - 2) = ba := by
    rw [la, ha]; simp
  have e2 : b.shape.take (b.shape.length - 2) = bb := by
    rw [lb, hb]; simp
  have e3 : a.shape.getD (a.shape.length - 2) 0 = n := by
    rw [la, ha]; simp [List.getD_eq_getElem?_getD]
  have e4 : a.shape.getD (a.shape.length - 1) 0 = k := by
    rw [la, ha]; simp [List.getD_eq_getElem?_getD]
  have e5 : b.shape.getD (b.shape.length - 2) 0 = k := by
    rw [lb, hb]; simp [List.getD_eq_getElem?_getD]
  have e6 : b.shape.getD (b.shape.length - 1) 0 = m := by
    rw [lb, hb]; simp [List.getD_eq_getElem?_getD]
  unfold matmul
  simp only [Option.bind_eq_bind, Option.pure_def, e1, e2, e3, e4, e5, e6, hbc, Option.bind_some]
  rw [if_neg (by simp [la, lb]), if_neg (by simp)]
  rfl

end Mm

section Adj
variable {R : Type} [CommRing R]

/-- `matmulBackward` evaluated, for operands with explicit trailing axes -/
theorem matmulBackward_eq (g a b : NDArray R) (ba bb batch : Shape) (n k m : Nat)
    (ha : a.shape = ba ++ [n, k]) (hb : b.shape = bb ++ [k, m])
    (hbc : broadcastShapes ba bb = some batch) (hg : g.shape = batch ++ [n, m]) :
    ∃ aT bT : NDArray R,
      (∀ (p : Idx) (l t : Nat), p.length = bb.length → validIdx (bb ++ [m, k]) (p ++ [l, t]) →
        bT.get (p ++ [l, t]) = b.get (p ++ [t, l])) ∧
      (∀ (p : Idx) (t i : Nat), p.length = ba.length → validIdx (ba ++ [k, n]) (p ++ [t, i]) →
        aT.get (p ++ [t, i]) = a.get (p ++ [i, t])) ∧
      matmulBackward g a b = some
        (unbroadcast (ofFn (batch ++ [n, k]) (mmFn g bT batch bb batch m)) a.shape,
         unbroadcast (ofFn (batch ++ [k, m]) (mmFn aT g ba batch batch n)) b.shape) := by
  obtain ⟨bT, hsb, _, hbTs, hbT⟩ := swapLast_eq b bb k m hb
  obtain ⟨aT, hsa, _, haTs, haT⟩ := swapLast_eq a ba n k ha
  obtain ⟨_, h1, h2, _⟩ := broadcastShapes_absorb ba bb batch hbc
  refine ⟨aT, bT, hbT, haT, ?_⟩
  simp only [matmulBackward, hsb, hsa, Option.bind_eq_bind, Option.bind_some, Option.pure_def,
    matmul_eq g bT batch bb batch n m k hg hbTs h1, matmul_eq aT g ba batch batch k n m haTs hg h2]

theorem matmul_adj_left_core (a b : NDArray R) (ba bb batch : Shape) (n k m : Nat)
    (ha : a.shape = ba ++ [n, k]) (hb : b.shape = bb ++ [k, m])
    (hbc : broadcastShapes ba bb = some batch) :
    IsAdjoint (R := R) a.shape (batch ++ [n, m]) (fun v => matmul v b)
      (fun g => (matmulBackward g a b).map (·.1)) := by
  intro v g _ hvs _ hgs
  obtain ⟨aT, bT, hbT, -, hB⟩ := matmulBackward_eq g a b ba bb batch n k m ha hb hbc hgs
  have hF := matmul_eq v b ba bb batch n k m (hvs.trans ha) hb hbc
  refine ⟨_, _, hF, by show Option.map _ (matmulBackward g a b) = _; rw [hB]; rfl, ofFn_wf _ _, rfl, unbroadcast_wf _ _, unbroadcast_shape _ _, ?_⟩
  obtain ⟨hlen, hfa, -⟩ := broadcast_forall₂ ba bb batch hbc
  have hvalid : ∀ j, validIdx (batch ++ [n, k]) j → validIdx a.shape (bcastIdx a.shape j) := by
    rw [ha]
    intro j hj
    exact bcastIdx_valid_pad _ _ _ j (bcOK_append_two _ ba batch n k hfa) hj
  rw [dot_unbroadcast a.shape (batch ++ [n, k])
    (by rw [ha]; simp only [List.length_append, List.length_cons, List.length_nil]; omega)
    hvalid v _ hvs rfl, dot_ofFn, sum_allIdx_append_two, sum_allIdx_append_two]
  congr 1
  apply List.map_congr_left
  intro jb hjb
  rw [mem_allIdx] at hjb
  have hjl : jb.length = batch.length := validIdx_length _ _ hjb
  have hvb := bcastIdx_valid ba bb batch hbc jb hjb
  apply Finset.sum_congr rfl
  intro i hi
  rw [Finset.mem_range] at hi
  trans (∑ l ∈ Finset.range m, (∑ t ∈ Finset.range k,
      v.get (bcastIdx ba jb ++ [i, t]) * b.get (bcastIdx bb jb ++ [t, l])) * g.get (jb ++ [i, l]))
  · apply Finset.sum_congr rfl
    intro l _
    rw [mmFn_append _ _ _ _ _ _ _ _ _ hjl, sum_range_eq]
  trans (∑ t ∈ Finset.range k, v.get (bcastIdx ba jb ++ [i, t]) *
      ∑ l ∈ Finset.range m, g.get (jb ++ [i, l]) * b.get (bcastIdx bb jb ++ [t, l]))
  · simp_rw [Finset.sum_mul, Finset.mul_sum]
    rw [Finset.sum_comm]
    apply Finset.sum_congr rfl
    intro t _
    apply Finset.sum_congr rfl
    intro l _
    ring
  · symm
    apply Finset.sum_congr rfl
    intro t ht
    rw [Finset.mem_range] at ht
    rw [ha, bcastIdx_append_two ba n k jb i t (by omega) hi ht,
      get_ofFn _ _ _ (validIdx_append _ _ _ _ hjb (validIdx_two _ _ _ _ hi ht)),
      mmFn_append _ _ _ _ _ _ _ _ _ hjl, sum_range_eq, bcastIdx_self batch jb hjb]
    congr 1
    apply Finset.sum_congr rfl
    intro l hl
    rw [Finset.mem_range] at hl
    rw [hbT (bcastIdx bb jb) l t (validIdx_length _ _ hvb.2)
      (validIdx_append _ _ _ _ hvb.2 (validIdx_two _ _ _ _ hl ht))]

theorem matmul_adj_right_core (a b : NDArray R) (ba bb batch : Shape) (n k m : Nat)
    (ha : a.shape = ba ++ [n, k]) (hb : b.shape = bb ++ [k, m])
    (hbc : broadcastShapes ba bb = some batch) :
    IsAdjoint (R := R) b.shape (batch ++ [n, m]) (fun v => matmul a v)
      (fun g => (matmulBackward g a b).map (·.2)) := by
  intro v g _ hvs _ hgs
  obtain ⟨aT, bT, -, haT, hB⟩ := matmulBackward_eq g a b ba bb batch n k m ha hb hbc hgs
  have hF := matmul_eq a v ba bb batch n k m ha (hvs.trans hb) hbc
  refine ⟨_, _, hF, by show Option.map _ (matmulBackward g a b) = _; rw [hB]; rfl, ofFn_wf _ _, rfl, unbroadcast_wf _ _, unbroadcast_shape _ _, ?_⟩
  obtain ⟨hlen, -, hfb⟩ := broadcast_forall₂ ba bb batch hbc
  have hvalid : ∀ j, validIdx (batch ++ [k, m]) j → validIdx b.shape (bcastIdx b.shape j) := by
    rw [hb]
    intro j hj
    exact bcastIdx_valid_pad _ _ _ j (bcOK_append_two _ bb batch k m hfb) hj
  rw [dot_unbroadcast b.shape (batch ++ [k, m])
    (by rw [hb]; simp only [List.length_append, List.length_cons, List.length_nil]; omega)
    hvalid v _ hvs rfl, dot_ofFn, sum_allIdx_append_two, sum_allIdx_append_two]
  congr 1
  apply List.map_congr_left
  intro jb hjb
  rw [mem_allIdx] at hjb
  have hjl : jb.length = batch.length := validIdx_length _ _ hjb
  have hvb := bcastIdx_valid ba bb batch hbc jb hjb
  trans (∑ i ∈ Finset.range n, ∑ l ∈ Finset.range m, (∑ t ∈ Finset.range k,
      a.get (bcastIdx ba jb ++ [i, t]) * v.get (bcastIdx bb jb ++ [t, l])) * g.get (jb ++ [i, l]))
  · apply Finset.sum_congr rfl
    intro i _
    apply Finset.sum_congr rfl
    intro l _
    rw [mmFn_append _ _ _ _ _ _ _ _ _ hjl, sum_range_eq]
  trans (∑ t ∈ Finset.range k, ∑ l ∈ Finset.range m, v.get (bcastIdx bb jb ++ [t, l]) *
      ∑ i ∈ Finset.range n, a.get (bcastIdx ba jb ++ [i, t]) * g.get (jb ++ [i, l]))
  · simp_rw [Finset.sum_mul, Finset.mul_sum]
    rw [Finset.sum_comm]
    conv_lhs =>
      arg 2
      ext l
      rw [Finset.sum_comm]
    rw [Finset.sum_comm]
    apply Finset.sum_congr rfl
    intro t _
    apply Finset.sum_congr rfl
    intro l _
    apply Finset.sum_congr rfl
    intro i _
    ring
  · symm
    apply Finset.sum_congr rfl
    intro t ht
    rw [Finset.mem_range] at ht
    apply Finset.sum_congr rfl
    intro l hl
    rw [Finset.mem_range] at hl
    rw [hb, bcastIdx_append_two bb k m jb t l (by omega) ht hl,
      get_ofFn _ _ _ (validIdx_append _ _ _ _ hjb (validIdx_two _ _ _ _ ht hl)),
      mmFn_append _ _ _ _ _ _ _ _ _ hjl, sum_range_eq, bcastIdx_self batch jb hjb]
    congr 1
    apply Finset.sum_congr rfl
    intro i hi
    rw [Finset.mem_range] at hi
    rw [haT (bcastIdx ba jb) t i (validIdx_length _ _ hvb.1)
      (validIdx_append _ _ _ _ hvb.1 (validIdx_two _ _ _ _ ht hi))]

theorem ofFn_congr {α : Type} (s : Shape) (f f' : Idx → α) (h : ∀ j, validIdx s j → f j = f' j) :
    ofFn s f = ofFn s f' := by
  unfold ofFn
  congr 1
  apply List.map_congr_left
  intro j hj
  exact h j ((mem_allIdx _ _).1 hj)

theorem matmul_zeros_left (sb : Shape) (c : NDArray R) (bb bc batch : Shape) (n k m : Nat)
    (hb : sb = bb ++ [n, k]) (hc : c.shape = bc ++ [k, m]) (hbc : broadcastShapes bb bc = some batch) :
    matmul (zeros sb : NDArray R) c = some (zeros (batch ++ [n, m])) := by
  rw [matmul_eq (zeros sb) c bb bc batch n k m hb hc hbc]
  congr 1
  apply ofFn_congr
  intro j _
  simp [mmFn, get_zeros]

theorem matmul_zeros_right (b : NDArray R) (sc : Shape) (bb bc batch : Shape) (n k m : Nat)
    (hb : b.shape = bb ++ [n, k]) (hc : sc = bc ++ [k, m]) (hbc : broadcastShapes bb bc = some batch) :
    matmul b (zeros sc : NDArray R) = some (zeros (batch ++ [n, m])) := by
  rw [matmul_eq b (zeros sc) bb bc batch n k m hb hc hbc]
  congr 1
  apply ofFn_congr
  intro j _
  simp [mmFn, get_zeros]

/-- the shape bookkeeping of `addmm` with rank-2 factors -/
theorem addmm_some (a b c y : NDArray R) (h : addmmForward a b c = some y)
    (hb2 : b.shape.length = 2) (hc2 : c.shape.length = 2) :
    ∃ n k m mm, b.shape = [] ++ [n, k] ∧ c.shape = [] ++ [k, m] ∧ matmul b c = some mm ∧ mm.WF ∧
      mm.shape = [n, m] ∧ addForward a mm = some y := by
  cases hm : matmul b c with
  | none => simp [addmmForward, hm] at h
  | some mm =>
    obtain ⟨ba, bb, batch, n, k, m, has, hbs, hbc, hy⟩ := matmul_some b c mm hm
    have e1 : ba = [] := by
      rw [has] at hb2
      simp only [List.length_append, List.length_cons, List.length_nil] at hb2
      exact List.length_eq_zero_iff.1 (by omega)
    have e2 : bb = [] := by
      rw [hbs] at hc2
      simp only [List.length_append, List.length_cons, List.length_nil] at hc2
      exact List.length_eq_zero_iff.1 (by omega)
    subst e1; subst e2
    have e3 : batch = [] := by
      have := broadcastShapes_self ([] : Shape)
      rw [hbc] at this
      exact Option.some.inj this
    subst e3
    have hmm := matmul_eq b c [] [] [] n k m has hbs hbc
    rw [hm] at hmm
    have hmm' := Option.some.inj hmm
    refine ⟨n, k, m, mm, has, hbs, rfl, by rw [hmm']; exact ofFn_wf _ _, hy, ?_⟩
    simpa [addmmForward, hm] using h

end Adj

end Proofs.Adjoint
