import Proofs.OptimStoreEvents
/-!
# The store model refines the value-level model `Synap.Optim`, element by element

`AbsP s i k q`: the value-level parameter `q` (one scalar) is element `k` of parameter `i` of the
store `s` (θ = heap[data][k], grad = heap[grad][k] when there is a gradient buffer, same flag).
`AbsB s i k b`: `b` is element `k` of the momentum buffer of parameter `i` (or `none`).
Every transition of the store model acts on these as the value-level transition.
-/
namespace Proofs.OptimStore
open Synap.OptimStore
open Synap.Optim (SGDCfg AdamCfg HasSqrt P Moments)

variable {α : Type}

/-- element `k` of an optional buffer -/
def optVal (h : Heap α) (b : Option BufId) (k : Nat) : Option (Option α) :=
  match b with
  | none => some none
  | some x => (val h x k).map some

def AbsP (s : Store α) (i k : Nat) (q : P α) : Prop :=
  ∃ p, s.ps[i]? = some p ∧ val s.heap p.data k = some q.θ ∧ optVal s.heap p.grad k = some q.grad ∧ p.rg = q.rg

def AbsB (s : Store α) (i k : Nat) (b : Option α) : Prop :=
  ∃ ob, s.b1[i]? = some ob ∧ optVal s.heap ob k = some b

theorem optVal_congr {h h' : Heap α} {ob : Option BufId} (k : Nat)
    (hh : ∀ x, ob = some x → rdBuf h' x = rdBuf h x) : optVal h' ob k = optVal h ob k := by
  cases ob with
  | none => rfl
  | some x => simp only [optVal, val]; rw [hh x rfl]

/-- a transition that keeps the record of parameter `i` and does not overwrite its buffers keeps
    its elements -/
theorem AbsP.frame {W : BufId → Prop} {C : Role → Nat → Prop} {s s' : Store α} {i k : Nat} {q : P α}
    (hI : Inv s) (m : Moves W C s s') (hps : s'.ps[i]? = s.ps[i]?)
    (hW : ∀ x, W x → slot s .data i ≠ some x ∧ slot s .grad i ≠ some x) (a : AbsP s i k q) :
    AbsP s' i k q := by
  obtain ⟨p, hp, hθ, hg, hr⟩ := a
  refine ⟨p, hps.trans hp, ?_, ?_, hr⟩
  · unfold val at *
    rw [m.ext.2 p.data (hI.bounded .data i _ (slot_data_of hp)) (fun w => (hW _ w).1 (slot_data_of hp))]
    exact hθ
  · rw [optVal_congr k (fun x hx => ?_)]
    · exact hg
    · have hs : slot s .grad i = some x := by rw [slot_grad_of hp, hx]
      exact m.ext.2 x (hI.bounded .grad i _ hs) (fun w => (hW _ w).2 hs)

theorem AbsB.frame {W : BufId → Prop} {C : Role → Nat → Prop} {s s' : Store α} {i k : Nat} {b : Option α}
    (hI : Inv s) (m : Moves W C s s') (hb : s'.b1[i]? = s.b1[i]?)
    (hW : ∀ x, W x → slot s .b1 i ≠ some x) (a : AbsB s i k b) : AbsB s' i k b := by
  obtain ⟨ob, hob, hv⟩ := a
  refine ⟨ob, hb.trans hob, ?_⟩
  rw [optVal_congr k (fun x hx => ?_)]
  · exact hv
  · have hs : slot s .b1 i = some x := by simp [slot, hob, hx]
    exact m.ext.2 x (hI.bounded .b1 i _ hs) (fun w => hW _ w hs)

/-! ### engine events -/

theorem accumulate_b1 [Add α] [Zero α] (s : Store α) (i : Nat) (g : List α) : (accumulate s i g).b1 = s.b1 := by
  unfold accumulate; split
  · rfl
  · split
    · split <;> rfl
    · rfl

theorem accumulate_ps_ne [Add α] [Zero α] (s : Store α) {i j : Nat} (g : List α) (h : j ≠ i) :
    (accumulate s j g).ps[i]? = s.ps[i]? := by
  unfold accumulate; split
  · rfl
  · split
    · split
      · rfl
      · exact List.getElem?_set_ne h
    · rfl

theorem accumulate_other [Add α] [Zero α] {s : Store α} (hI : Inv s) {i j k : Nat} (g : List α) (h : j ≠ i)
    {q : P α} {b : Option α} (a : AbsP s i k q) (ab : AbsB s i k b) :
    AbsP (accumulate s j g) i k q ∧ AbsB (accumulate s j g) i k b := by
  have m := accumulate_moves s hI j g
  refine ⟨a.frame hI m (accumulate_ps_ne s g h) (fun x w => ⟨fun e => ?_, fun e => ?_⟩),
    ab.frame hI m (by rw [accumulate_b1]) (fun x w e => ?_)⟩
  · cases (hI.sep .grad j .data i x w e).1
  · exact h (hI.sep .grad j .grad i x w e).2
  · cases (hI.sep .grad j .b1 i x w e).1

theorem accumulate_self [Add α] [Zero α] {s : Store α} (hI : Inv s) {i k : Nat} (g : List α) {gk : α}
    (hgk : g[k]? = some gk) {q : P α} {b : Option α} (a : AbsP s i k q) (ab : AbsB s i k b) :
    AbsP (accumulate s i g) i k (Synap.Optim.accumulate q gk) ∧ AbsB (accumulate s i g) i k b := by
  have m := accumulate_moves s hI i g
  refine ⟨?_, ab.frame hI m (by rw [accumulate_b1]) (fun x w e => by cases (hI.sep .grad i .b1 i x w e).1)⟩
  obtain ⟨p, hp, hθ, hg, hr⟩ := a
  have hd := hI.bounded .data i _ (slot_data_of hp)
  unfold accumulate Synap.Optim.accumulate
  rw [hp]
  dsimp only
  cases hrg : p.rg with
  | false =>
    rw [← hr, hrg]; simp only [Bool.false_eq_true, if_false]
    exact ⟨p, hp, hθ, hg, by rw [hrg]; exact hrg ▸ hr⟩
  | true =>
    rw [← hr, hrg]; simp only [if_true]
    cases hgr : p.grad with
    | some gb =>
      have hs : slot s .grad i = some gb := by rw [slot_grad_of hp, hgr]
      have hgb := hI.bounded .grad i _ hs
      have hne : gb ≠ p.data := fun e => by
        have := (hI.sep .grad i .data i gb hs (by rw [slot_data_of hp, e])).1; cases this
      rw [hgr] at hg
      simp only [optVal] at hg
      cases hv : val s.heap gb k with
      | none => rw [hv] at hg; cases hg
      | some gv =>
        rw [hv] at hg
        have hq : q.grad = some gv := by simpa using hg.symm
        refine ⟨p, hp, ?_, ?_, hrg⟩
        · show val (writeZipLit s.heap gb (· + ·) g) p.data k = some q.θ
          rw [(ext_writeZipLit s.heap gb (· + ·) g).val_eq hd (by simpa using hne.symm)]
          exact hθ
        · rw [hgr]
          show optVal (writeZipLit s.heap gb (· + ·) g) (some gb) k = _
          simp only [optVal]
          rw [val_writeZipLit s.heap gb (· + ·) g k hgb hv hgk, hq]
          rfl
    | none =>
      rw [hgr] at hg
      simp only [optVal] at hg
      have hq : q.grad = none := by simpa using hg.symm
      have e1 := ext_allocMap s.heap (fun _ => (0 : α)) p.data
      have hz : val (allocMap s.heap (fun _ => (0 : α)) p.data).1 s.heap.length k = some 0 := by
        rw [val_allocMap, hθ]; rfl
      refine ⟨_, List.getElem?_set_self ((List.getElem?_eq_some_iff.mp hp).1), ?_, ?_, rfl⟩
      · show val (writeZipLit (allocMap s.heap (fun _ => (0 : α)) p.data).1 s.heap.length (· + ·) g) p.data k = some q.θ
        rw [(ext_writeZipLit _ s.heap.length (· + ·) g).val_eq (by simp only [allocMap_length]; exact Nat.lt_succ_of_lt hd) (by
          intro e; have e' := Option.some.inj e; rw [e'] at hd; exact Nat.lt_irrefl _ hd), e1.val_eq hd (by simp)]
        exact hθ
      · show optVal (writeZipLit (allocMap s.heap (fun _ => (0 : α)) p.data).1 s.heap.length (· + ·) g) (some s.heap.length) k = _
        simp only [optVal]
        rw [val_writeZipLit _ s.heap.length (· + ·) g k (by simp) hz hgk, hq]
        rfl

/-- generic frame: a transition whose overwritten buffers all belong to another parameter -/
theorem frame_other {W : BufId → Prop} {C : Role → Nat → Prop} {s s' : Store α} {i k : Nat}
    (hI : Inv s) (m : Moves W C s s') (hps : s'.ps[i]? = s.ps[i]?) (hb : s'.b1[i]? = s.b1[i]?)
    (hW : ∀ x, W x → ∀ r, slot s r i ≠ some x) {q : P α} {b : Option α}
    (a : AbsP s i k q) (ab : AbsB s i k b) : AbsP s' i k q ∧ AbsB s' i k b :=
  ⟨a.frame hI m hps (fun x w => ⟨hW x w _, hW x w _⟩), ab.frame hI m hb (fun x w => hW x w _)⟩

theorem absP_lt {s : Store α} {i k : Nat} {q : P α} (a : AbsP s i k q) : i < s.ps.length := by
  obtain ⟨p, hp, _⟩ := a; exact (List.getElem?_eq_some_iff.mp hp).1

theorem val_alloc_new (h : Heap α) (a : List α) (k : Nat) : val (alloc h a).1 h.length k = a[k]? := by
  unfold val; rw [rdBuf_alloc_new]

/-- `p.backward(g)` on another parameter -/
theorem accumulateRoot_other [Add α] {s : Store α} (hI : Inv s) {i j k : Nat} (g : List α) (h : j ≠ i)
    {q : P α} {b : Option α} (a : AbsP s i k q) (ab : AbsB s i k b) :
    AbsP (accumulateRoot s j g) i k q ∧ AbsB (accumulateRoot s j g) i k b := by
  refine frame_other hI (accumulateRoot_moves s hI j g) ?_ ?_ (fun x w => w.elim) a ab
  · unfold accumulateRoot; split
    · rfl
    · split
      · exact List.getElem?_set_ne h
      · rfl
  · unfold accumulateRoot; split
    · rfl
    · split <;> rfl

/-- `p.backward(g)` on this parameter (`0 + x = x` is needed when there was no gradient: the code
    stores `g` itself, the value-level model `0 + g`) -/
theorem accumulateRoot_self [Add α] [Zero α] (h0 : ∀ x : α, 0 + x = x) {s : Store α} (hI : Inv s)
    {i k : Nat} (g : List α) {gk : α} (hgk : g[k]? = some gk) {q : P α} {b : Option α}
    (a : AbsP s i k q) (ab : AbsB s i k b) :
    AbsP (accumulateRoot s i g) i k (Synap.Optim.accumulate q gk) ∧ AbsB (accumulateRoot s i g) i k b := by
  have m := accumulateRoot_moves s hI i g
  have hb1 : (accumulateRoot s i g).b1 = s.b1 := by
    unfold accumulateRoot; split
    · rfl
    · split <;> rfl
  refine ⟨?_, ab.frame hI m (by rw [hb1]) (fun x w => w.elim)⟩
  obtain ⟨p, hp, hθ, hg, hr⟩ := a
  have hd := hI.bounded .data i _ (slot_data_of hp)
  unfold accumulateRoot Synap.Optim.accumulate
  rw [hp]
  dsimp only
  cases hrg : p.rg with
  | false =>
    rw [← hr, hrg]; simp only [Bool.false_eq_true, if_false]
    exact ⟨p, hp, hθ, hg, hr⟩
  | true =>
    rw [← hr, hrg]; simp only [if_true]
    have hset : ∀ p' : PS, (s.ps.set i p')[i]? = some p' := fun p' =>
      List.getElem?_set_self ((List.getElem?_eq_some_iff.mp hp).1)
    cases hgr : p.grad with
    | some gb =>
      rw [hgr] at hg
      simp only [optVal] at hg
      cases hv : val s.heap gb k with
      | none => rw [hv] at hg; cases hg
      | some gv =>
        rw [hv] at hg
        have hq : q.grad = some gv := by simpa using hg.symm
        refine ⟨_, hset _, ?_, ?_, rfl⟩
        · show val (alloc s.heap _).1 p.data k = some q.θ
          rw [(ext_alloc s.heap _).val_eq hd (by simp)]; exact hθ
        · show optVal (alloc s.heap _).1 (some s.heap.length) k = _
          simp only [optVal]
          rw [val_alloc_new, List.getElem?_zipWith]
          unfold val at hv
          rw [hv, hgk, hq]
          rfl
    | none =>
      rw [hgr] at hg
      simp only [optVal] at hg
      have hq : q.grad = none := by simpa using hg.symm
      refine ⟨_, hset _, ?_, ?_, rfl⟩
      · show val (alloc s.heap _).1 p.data k = some q.θ
        rw [(ext_alloc s.heap _).val_eq hd (by simp)]; exact hθ
      · show optVal (alloc s.heap _).1 (some s.heap.length) k = _
        simp only [optVal]
        rw [val_alloc_new, hgk, hq]
        simp [h0]

/-! ### zero_grad -/

theorem zeroGradAt_b1 [Zero α] (s : Store α) (j : Nat) : (zeroGradAt s j).b1 = s.b1 := by
  unfold zeroGradAt; split
  · rfl
  · split <;> rfl

theorem zeroGradAt_other [Zero α] {s : Store α} (hI : Inv s) {i j k : Nat} (h : j ≠ i)
    {q : P α} {b : Option α} (a : AbsP s i k q) (ab : AbsB s i k b) :
    AbsP (zeroGradAt s j) i k q ∧ AbsB (zeroGradAt s j) i k b := by
  refine frame_other hI (zeroGradAt_moves s hI j) ?_ (by rw [zeroGradAt_b1]) (fun x w => w.elim) a ab
  unfold zeroGradAt; split
  · rfl
  · split
    · exact List.getElem?_set_ne h
    · rfl

theorem zeroGradAt_self [Zero α] {s : Store α} (hI : Inv s) {i k : Nat}
    {q : P α} {b : Option α} (a : AbsP s i k q) (ab : AbsB s i k b) :
    AbsP (zeroGradAt s i) i k (Synap.Optim.zeroP q) ∧ AbsB (zeroGradAt s i) i k b := by
  refine ⟨?_, ab.frame hI (zeroGradAt_moves s hI i) (by rw [zeroGradAt_b1]) (fun x w => w.elim)⟩
  obtain ⟨p, hp, hθ, hg, hr⟩ := a
  have hd := hI.bounded .data i _ (slot_data_of hp)
  unfold zeroGradAt Synap.Optim.zeroP
  rw [hp]
  dsimp only
  cases hrg : p.rg with
  | false =>
    rw [← hr, hrg]; simp only [Bool.false_eq_true, if_false]
    exact ⟨p, hp, hθ, hg, hr⟩
  | true =>
    rw [← hr, hrg]; simp only [if_true]
    refine ⟨_, List.getElem?_set_self ((List.getElem?_eq_some_iff.mp hp).1), ?_, ?_, rfl⟩
    · show val (allocMap s.heap _ p.data).1 p.data k = some q.θ
      rw [(ext_allocMap s.heap _ p.data).val_eq hd (by simp)]; exact hθ
    · show optVal (allocMap s.heap (fun _ => (0 : α)) p.data).1 (some s.heap.length) k = _
      simp only [optVal]
      rw [val_allocMap, hθ]
      rfl

/-- a loop `for j in range(n)` whose body acts on the abstraction of parameter `i` only at `j = i` -/
theorem foldl_range_at {σ V : Type} (f : σ → Nat → σ) (I : σ → Prop) (R : σ → V → Prop) (T : V → V)
    (i : Nat) (hI : ∀ s j, I s → I (f s j))
    (hne : ∀ s j v, j ≠ i → I s → R s v → R (f s j) v)
    (heq : ∀ s v, I s → R s v → R (f s i) (T v)) :
    ∀ n s v, I s → R s v →
      I ((List.range n).foldl f s) ∧ R ((List.range n).foldl f s) (if i < n then T v else v) := by
  intro n
  induction n with
  | zero => intro s v h r; exact ⟨h, by simpa using r⟩
  | succ n ih =>
    intro s v h r
    obtain ⟨h1, r1⟩ := ih s v h r
    rw [List.range_succ, List.foldl_append]
    refine ⟨hI _ _ h1, ?_⟩
    show R (f _ n) _
    by_cases hin : i < n
    · rw [if_pos hin] at r1
      rw [if_pos (Nat.lt_succ_of_lt hin)]
      exact hne _ n _ (by omega) h1 r1
    · rw [if_neg hin] at r1
      by_cases he : i = n
      · subst he
        rw [if_pos (Nat.lt_succ_self _)]
        exact heq _ _ h1 r1
      · rw [if_neg (by omega)]
        exact hne _ n _ (fun e => he e.symm) h1 r1

theorem zeroGrad_abs [Zero α] {s : Store α} (hI : Inv s) {i k : Nat}
    {q : P α} {b : Option α} (a : AbsP s i k q) (ab : AbsB s i k b) :
    AbsP (zeroGrad s) i k (Synap.Optim.zeroP q) ∧ AbsB (zeroGrad s) i k b := by
  have := foldl_range_at zeroGradAt Inv (fun s (v : P α × Option α) => AbsP s i k v.1 ∧ AbsB s i k v.2)
    (fun v => (Synap.Optim.zeroP v.1, v.2)) i
    (fun s j h => (zeroGradAt_moves s h j).inv h)
    (fun s j v hj h r => zeroGradAt_other h hj r.1 r.2)
    (fun s v h r => zeroGradAt_self h r.1 r.2) s.ps.length s (q, b) hI ⟨a, ab⟩
  rw [if_pos (absP_lt a)] at this
  exact this.2

/-! ### freeze / unfreeze -/

theorem setRg_abs {s : Store α} {i j k : Nat} (r : Bool)
    {q : P α} {b : Option α} (a : AbsP s i k q) (ab : AbsB s i k b) :
    AbsP (setRg s j r) i k (if j = i then { q with rg := r } else q) ∧ AbsB (setRg s j r) i k b := by
  obtain ⟨p, hp, hθ, hg, hr⟩ := a
  unfold setRg
  split
  · rename_i hj
    have : ¬ j = i := by intro e; subst e; rw [hp] at hj; cases hj
    rw [if_neg this]; exact ⟨⟨p, hp, hθ, hg, hr⟩, ab⟩
  · rename_i pj hpj
    refine ⟨?_, ab⟩
    by_cases hji : j = i
    · subst hji
      rw [hp] at hpj; cases hpj
      rw [if_pos rfl]
      exact ⟨_, List.getElem?_set_self ((List.getElem?_eq_some_iff.mp hp).1), hθ, hg, rfl⟩
    · rw [if_neg hji]
      exact ⟨p, (List.getElem?_set_ne hji).trans hp, hθ, hg, hr⟩

/-! ### SGD.step -/

section SGD
variable [Add α] [Sub α] [Mul α] [Div α] [Neg α] [Zero α] [One α]
set_option linter.unusedSectionVars false

theorem sgdStepAt_b1_ne (c : SGDCfg α) (s : Store α) {i j : Nat} (h : j ≠ i) :
    (sgdStepAt c s j).b1[i]? = s.b1[i]? := by
  unfold sgdStepAt sgdStepAtG
  split
  · rfl
  · split
    · dsimp only; split
      · exact List.getElem?_set_ne h
      · rfl
    · rfl

theorem active_other {s : Store α} (hI : Inv s) {i j : Nat} (h : j ≠ i) (x : BufId) (w : Active s j x)
    (r : Role) : slot s r i ≠ some x := by
  obtain ⟨p, gb, hp, -, -, rfl⟩ := w
  intro e
  exact h (hI.sep .data j r i p.data (slot_data_of hp) e).2

theorem sgdStepAt_other (c : SGDCfg α) {s : Store α} (hI : Inv s) {i j k : Nat} (h : j ≠ i)
    {q : P α} {b : Option α} (a : AbsP s i k q) (ab : AbsB s i k b) :
    AbsP (sgdStepAt c s j) i k q ∧ AbsB (sgdStepAt c s j) i k b :=
  frame_other hI (sgdStepAt_moves c s hI j) (by rw [sgdStepAt_ps]) (sgdStepAt_b1_ne c s h)
    (active_other hI h) a ab

theorem sgdGrad_val (c : SGDCfg α) (h : Heap α) (d gb : BufId) (k : Nat) {θ gv : α}
    (hgb : gb < h.length) (vθ : val h d k = some θ) (vg : val h gb k = some gv) :
    val (sgdGrad c h d gb).1 (sgdGrad c h d gb).2 k = some (if c.useWd then gv + c.weightDecay * θ else gv)
    ∧ (sgdGrad c h d gb).2 < (sgdGrad c h d gb).1.length := by
  unfold sgdGrad
  cases c.useWd
  · simpa using ⟨vg, hgb⟩
  · simp only [if_true, allocZip_snd, allocZip_length]
    exact ⟨val_allocZip h _ gb d k vg vθ, Nat.lt_succ_self _⟩

/-- the momentum-buffer statement on one element -/
def nextBuf (c : SGDCfg α) (g1 : α) : Option α → α
  | some b => c.momentum * b + (1 - c.dampening) * g1
  | none => g1

theorem sgdBuf_true_val (c : SGDCfg α) (h : Heap α) (g : BufId) (ob : Option BufId) (k : Nat)
    {gv : α} {bo : Option α} (vg : val h g k = some gv) (vb : optVal h ob k = some bo) :
    val (sgdBuf true c h g ob).1 h.length k
      = some (nextBuf c gv bo) := by
  unfold sgdBuf
  cases ob with
  | none =>
    simp only [optVal] at vb
    have : bo = none := by simpa using vb.symm
    subst this
    simp only [if_true]
    rw [val_allocMap, vg]; rfl
  | some b =>
    simp only [optVal] at vb
    cases hv : val h b k with
    | none => rw [hv] at vb; cases vb
    | some bv =>
      rw [hv] at vb
      have : bo = some bv := by simpa using vb.symm
      subst this
      exact val_allocZip h _ b g k hv vg

theorem sgdDir_val (c : SGDCfg α) (h : Heap α) (g b : BufId) (k : Nat) {gv bv : α}
    (hb : b < h.length) (vg : val h g k = some gv) (vb : val h b k = some bv) :
    val (sgdDir c h g b).1 (sgdDir c h g b).2 k = some (if c.nesterov then gv + c.momentum * bv else bv)
    ∧ (sgdDir c h g b).2 < (sgdDir c h g b).1.length := by
  unfold sgdDir
  cases c.nesterov
  · simpa using ⟨vb, hb⟩
  · simp only [if_true, allocZip_snd, allocZip_length]
    exact ⟨val_allocZip h _ g b k vg vb, Nat.lt_succ_self _⟩

theorem sgdApply_val (c : SGDCfg α) (h : Heap α) (d g : BufId) (k : Nat) {θ gv : α} (hd : d < h.length)
    (vθ : val h d k = some θ) (vg : val h g k = some gv) :
    val (sgdApply c h d g) d k = some (if c.maximize then θ + c.lr * gv else θ - c.lr * gv) :=
  val_writeZip h d _ g k hd vθ vg

theorem sgdStepAt_self (c : SGDCfg α) {s : Store α} (hI : Inv s) {i k : Nat}
    {q : P α} {b : Option α} (a : AbsP s i k q) (ab : AbsB s i k b) :
    AbsP (sgdStepAt c s i) i k (Synap.Optim.sgdStepP c q b).1 ∧
    AbsB (sgdStepAt c s i) i k (Synap.Optim.sgdStepP c q b).2 := by
  obtain ⟨p, hp, hθ, hg, hr⟩ := a
  obtain ⟨ob, hob, hvb⟩ := ab
  have hd := hI.bounded .data i _ (slot_data_of hp)
  have hps := sgdStepAt_ps c s i
  -- inactive parameter: nothing happens on either side
  have inactive : (p.rg = false ∨ p.grad = none) →
      sgdStepAt c s i = s ∧ Synap.Optim.sgdStepP c q b = (q, b) := by
    intro h
    constructor
    · unfold sgdStepAt sgdStepAtG; rw [hp]; dsimp only
      rcases h with h | h
      · rw [h]
      · rw [h]; cases p.rg <;> rfl
    · unfold Synap.Optim.sgdStepP
      rcases h with h | h
      · rw [← hr, h]
      · rw [h] at hg; simp only [optVal] at hg
        have : q.grad = none := by simpa using hg.symm
        rw [this]; cases q.rg <;> rfl
  cases hrg : p.rg with
  | false =>
    obtain ⟨e1, e2⟩ := inactive (Or.inl hrg)
    rw [e1, e2]; exact ⟨⟨p, hp, hθ, hg, hr⟩, ⟨ob, hob, hvb⟩⟩
  | true =>
  cases hgr : p.grad with
  | none =>
    obtain ⟨e1, e2⟩ := inactive (Or.inr hgr)
    rw [e1, e2]; exact ⟨⟨p, hp, hθ, hg, hr⟩, ⟨ob, hob, hvb⟩⟩
  | some gb =>
    have hsg : slot s .grad i = some gb := by rw [slot_grad_of hp, hgr]
    have hgb := hI.bounded .grad i _ hsg
    have hne : gb ≠ p.data := fun e => by
      have := (hI.sep .grad i .data i gb hsg (by rw [slot_data_of hp, e])).1; cases this
    rw [hgr] at hg
    simp only [optVal] at hg
    cases hv : val s.heap gb k with
    | none => rw [hv] at hg; cases hg
    | some gv =>
    rw [hv] at hg
    have hq : q.grad = some gv := by simpa using hg.symm
    have hqr : q.rg = true := by rw [← hr, hrg]
    have hsb : slot s .b1 i = ob := by simp [slot, hob]
    have hobl : ∀ x, ob = some x → x < s.heap.length ∧ x ≠ p.data := by
      intro x hx
      have hs : slot s .b1 i = some x := by rw [hsb, hx]
      refine ⟨hI.bounded .b1 i _ hs, fun e => ?_⟩
      have := (hI.sep .b1 i .data i x hs (by rw [slot_data_of hp, e])).1; cases this
    -- the value-level step
    have hval : Synap.Optim.sgdStepP c q b
        = ({ q with θ := (Synap.Optim.sgdUpdate c q.θ gv b).1 }, (Synap.Optim.sgdUpdate c q.θ gv b).2) := by
      unfold Synap.Optim.sgdStepP; rw [hqr, hq]
    rw [hval]
    -- the store-level step
    unfold sgdStepAt sgdStepAtG
    rw [hp]; dsimp only; rw [hrg, hgr]; dsimp only
    rw [hsb]
    obtain ⟨v1, l1⟩ := sgdGrad_val c s.heap p.data gb k hgb hθ hv
    have e1 := sgdGrad_ext c s.heap p.data gb
    generalize sgdGrad c s.heap p.data gb = r1 at *
    have hd1 : p.data < r1.1.length := Nat.lt_of_lt_of_le hd e1.1
    have vθ1 : val r1.1 p.data k = some q.θ := by rw [e1.val_eq hd (by simp)]; exact hθ
    have vb1 : optVal r1.1 ob k = some b := by
      rw [optVal_congr k (fun x hx => e1.rd_eq (hobl x hx).1 (by simp))]; exact hvb
    cases hm : c.useMom with
    | false =>
      simp only [Bool.false_eq_true, if_false]
      have hu : Synap.Optim.sgdUpdate c q.θ gv b
          = (if c.maximize then q.θ + c.lr * (if c.useWd then gv + c.weightDecay * q.θ else gv)
             else q.θ - c.lr * (if c.useWd then gv + c.weightDecay * q.θ else gv), b) := by
        simp [Synap.Optim.sgdUpdate, hm]
      rw [hu]
      have e2 := sgdApply_ext c r1.1 p.data r1.2
      refine ⟨⟨p, hp, sgdApply_val c r1.1 p.data r1.2 k hd1 vθ1 v1, ?_, hr⟩, ⟨ob, hob, ?_⟩⟩
      · rw [hgr]
        show optVal (sgdApply c r1.1 p.data r1.2) (some gb) k = some q.grad
        simp only [optVal]
        rw [e2.val_eq (Nat.lt_of_lt_of_le hgb e1.1) (by simpa using hne), e1.val_eq hgb (by simp), hv, hq]; rfl
      · show optVal (sgdApply c r1.1 p.data r1.2) ob k = some b
        rw [optVal_congr k (fun x hx => e2.rd_eq (Nat.lt_of_lt_of_le (hobl x hx).1 e1.1) (by
          simpa using (hobl x hx).2))]
        exact vb1
    | true =>
      simp only [if_true]
      have hu : Synap.Optim.sgdUpdate c q.θ gv b
          = (let g1 := if c.useWd then gv + c.weightDecay * q.θ else gv
             let bb := nextBuf c g1 b
             (if c.maximize then q.θ + c.lr * (if c.nesterov then g1 + c.momentum * bb else bb)
              else q.θ - c.lr * (if c.nesterov then g1 + c.momentum * bb else bb), some bb)) := by
        simp only [Synap.Optim.sgdUpdate, hm, if_true]
        cases b <;> rfl
      rw [hu]
      have v2 := sgdBuf_true_val c r1.1 r1.2 ob k v1 vb1
      have e2 := sgdBuf_ext true c r1.1 r1.2 ob
      have l2 := sgdBuf_true_length c r1.1 r1.2 ob
      have i2 := sgdBuf_true_snd c r1.1 r1.2 ob
      generalize sgdBuf true c r1.1 r1.2 ob = r2 at *
      rw [← i2] at v2
      have v1' : val r2.1 r1.2 k = some (if c.useWd then gv + c.weightDecay * q.θ else gv) := by
        rw [e2.val_eq l1 (by simp)]; exact v1
      have hr22 : r2.2 < r2.1.length := by rw [i2, l2]; exact Nat.lt_succ_self _
      obtain ⟨v3, l3⟩ := sgdDir_val c r2.1 r1.2 r2.2 k hr22 v1' v2
      have e3 := sgdDir_ext c r2.1 r1.2 r2.2
      generalize sgdDir c r2.1 r1.2 r2.2 = r3 at *
      have hd3 : p.data < r3.1.length := Nat.lt_of_lt_of_le hd1 (Nat.le_trans e2.1 e3.1)
      have vθ3 : val r3.1 p.data k = some q.θ := by
        rw [e3.val_eq (Nat.lt_of_lt_of_le hd1 e2.1) (by simp), e2.val_eq hd1 (by simp)]; exact vθ1
      have e4 := sgdApply_ext c r3.1 p.data r3.2
      have hne2 : r2.2 ≠ p.data := by
        intro e; rw [i2] at e; rw [← e] at hd1; exact Nat.lt_irrefl _ hd1
      refine ⟨⟨p, hp, sgdApply_val c r3.1 p.data r3.2 k hd3 vθ3 v3, ?_, hr⟩,
        ⟨some r2.2, List.getElem?_set_self ((List.getElem?_eq_some_iff.mp hob).1), ?_⟩⟩
      · rw [hgr]
        show optVal (sgdApply c r3.1 p.data r3.2) (some gb) k = some q.grad
        simp only [optVal]
        have hgb1 := Nat.lt_of_lt_of_le hgb e1.1
        rw [e4.val_eq (Nat.lt_of_lt_of_le hgb1 (Nat.le_trans e2.1 e3.1)) (by simpa using hne),
          e3.val_eq (Nat.lt_of_lt_of_le hgb1 e2.1) (by simp), e2.val_eq hgb1 (by simp),
          e1.val_eq hgb (by simp), hv, hq]; rfl
      · show optVal (sgdApply c r3.1 p.data r3.2) (some r2.2) k = _
        simp only [optVal]
        rw [e4.val_eq (Nat.lt_of_lt_of_le hr22 e3.1) (by simpa using hne2), e3.val_eq hr22 (by simp), v2]
        rfl

theorem sgdStep_abs (c : SGDCfg α) {s : Store α} (hI : Inv s) {i k : Nat}
    {q : P α} {b : Option α} (a : AbsP s i k q) (ab : AbsB s i k b) :
    AbsP (sgdStep c s) i k (Synap.Optim.sgdStepP c q b).1 ∧
    AbsB (sgdStep c s) i k (Synap.Optim.sgdStepP c q b).2 := by
  have := foldl_range_at (sgdStepAt c) Inv (fun s (v : P α × Option α) => AbsP s i k v.1 ∧ AbsB s i k v.2)
    (fun v => Synap.Optim.sgdStepP c v.1 v.2) i
    (fun s j h => (sgdStepAt_moves c s h j).inv h)
    (fun s j v hj h r => sgdStepAt_other c h hj r.1 r.2)
    (fun s v h r => sgdStepAt_self c h r.1 r.2) s.ps.length s (q, b) hI ⟨a, ab⟩
  rw [if_pos (absP_lt a)] at this
  exact this.2

end SGD

end Proofs.OptimStore
