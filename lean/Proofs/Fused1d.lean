import Proofs.SpecNN
/-!
# 1-d convolution and pooling are the 2-d kernels on the one-row image `x[:, :, None, :]` (C14)

The library's `unfold` takes 4-d input only, so "conv1d = unfold + matmul" and "pool1d = windows + max / mean" are
reached through the lift `(N, C, L) ↦ (N, C, 1, L)`: the independent 1-d kernels of the model equal the 2-d kernels
with kernel `(1, k)`, stride `(1, s)`, padding `(0, p)`, dilation `(1, d)` on the lifted operands, and the 2-d
theorems (`conv2d_is_unfold_matmul`, `avgpool2d_is_unfold_mean`, `maxpool2d_is_unfold_max`) apply to those.
-/
namespace Proofs.Fused1d
open Synap Synap.NDArray Synap.Np Synap.Kernels Proofs.Core Proofs.Adjoint Proofs.ConvTools

section
variable {α : Type} [Zero α]

/-- `x.unsqueeze(2)` of a 3-d array: accepted, shape `(N, C, 1, L)`, same entries -/
theorem lift_row (x : NDArray α) (n c l : Nat) (hx : x.shape = [n, c, l]) :
    unsqueezeForward x [2] = some (reshapeTo x [n, c, 1, l]) ∧
    ∀ bn cc q, bn < n → cc < c → q < l → (reshapeTo x [n, c, 1, l]).get [bn, cc, 0, q] = x.get [bn, cc, q] := by
  constructor
  · have := Proofs.NNSpec.expandDims_single x 2 2 (by rw [hx]; rfl)
    rw [hx] at this
    exact this
  · intro bn cc q h1 h2 h3
    apply get_reshapeTo
    · exact ⟨h1, h2, Nat.one_pos, h3, trivial⟩
    · rw [hx]; exact ⟨h1, h2, h3, trivial⟩
    · rw [hx]; simp only [ravel, Shape.size, List.foldr]; ring

theorem convOut_row : convOut 1 1 1 0 1 = some 1 := by decide
theorem winPos_row : winPos 1 1 0 1 0 0 = some 0 := by decide

theorem readPad_row (x : NDArray α) (pad : α) (n c l bn cc : Nat) (hx : x.shape = [n, c, l]) (hbn : bn < n) (hcc : cc < c)
    (s p d t a : Nat) :
    readPad2 (reshapeTo x [n, c, 1, l]) pad bn cc (some 0) (winPos l s p d t a) = readPad1 x pad bn cc (winPos l s p d t a) := by
  cases hw : winPos l s p d t a with
  | none => rfl
  | some q => exact (lift_row x n c l hx).2 bn cc q hbn hcc (winPos_ltE hw)

theorem win2_row (l k s p d t : Nat) :
    win2 1 l (1, k) (1, s) (0, p) (1, d) 0 t = (List.range k).map (fun b => (winPos l s p d t b).map (fun q => (0, q))) := by
  simp only [win2, List.range_one, List.flatMap_cons, List.flatMap_nil, List.append_nil, winPos_row]
  apply List.map_congr_left
  intro b _
  cases winPos l s p d t b <;> rfl
end

section Conv
variable {R : Type} [CommRing R]

/-- **conv1d = conv2d on the one-row lift**: for accepted arguments, `conv2d(x[:, :, None, :], w[:, :, None, :],
    stride (1, s), padding (0, p), dilation (1, d))` is accepted and IS `conv1d(x, w)[:, :, None, :]` -/
theorem conv1d_is_conv2d_row (x w y : NDArray R) (s p d : Nat) (h : conv1dForward x w none s p d = some y) :
    ∃ n c l co k lo x4 w4 y4, x.shape = [n, c, l] ∧ w.shape = [co, c, k] ∧ convOut l k s p d = some lo ∧
      y.shape = [n, co, lo] ∧ y.WF ∧
      unsqueezeForward x [2] = some x4 ∧ unsqueezeForward w [2] = some w4 ∧ unsqueezeForward y [2] = some y4 ∧
      x4.shape = [n, c, 1, l] ∧ w4.shape = [co, c, 1, k] ∧ y4.shape = [n, co, 1, lo] ∧
      conv2dForward x4 w4 none (1, s) (0, p) (1, d) = some y4 ∧
      ∀ bn o t, bn < n → o < co → t < lo → y4.get [bn, o, 0, t] = y.get [bn, o, t] := by
  obtain ⟨n, c, l, co, k, lo, hxs, hws, hlo, hys, -⟩ := conv1d_someE x w y none s p d h
  have hy : y = ofFn [n, co, lo] (fun j =>
      ((List.range c).flatMap (fun cc => (List.range k).map (fun a =>
        w.get [getI j 1, cc, a] * readPad1 x 0 (getI j 0) cc (winPos l s p d (getI j 2) a)))).sum) := by
    simp only [conv1dForward, hxs, hws, hlo, ne_eq, not_true_eq_false, if_false, Bool.false_eq_true,
      Option.some.injEq] at h
    exact h.symm
  have hyw : y.WF := by rw [hy]; exact ofFn_wf _ _
  obtain ⟨hx4, hx4g⟩ := lift_row x n c l hxs
  obtain ⟨hw4, hw4g⟩ := lift_row w co c k hws
  obtain ⟨hy4, hy4g⟩ := lift_row y n co lo hys
  refine ⟨n, c, l, co, k, lo, _, _, _, hxs, hws, hlo, hys, hyw, hx4, hw4, hy4, rfl, rfl, rfl, ?_, hy4g⟩
  have hs4 : (reshapeTo x [n, c, 1, l]).shape = [n, c, 1, l] := rfl
  have hws4 : (reshapeTo w [co, c, 1, k]).shape = [co, c, 1, k] := rfl
  simp only [conv2dForward, hs4, hws4, convOut_row, hlo, ne_eq, not_true_eq_false, if_false, Bool.false_eq_true,
    Option.some.injEq]
  refine ext_get (α := R) _ _ (ofFn_wf _ _) (gather_wf _ _ _) rfl ?_
  intro q hq
  change validIdx [n, co, 1, lo] q at hq
  obtain ⟨bn, o, i, t, rfl, hbn, ho, hi, ht⟩ := validIdx4 hq
  have hi0 : i = 0 := by omega
  subst hi0
  rw [hy4g bn o t hbn ho ht, get_ofFn _ _ _ hq]
  conv_rhs => rw [hy]
  rw [get_ofFn _ _ _ (show validIdx [n, co, lo] [bn, o, t] from ⟨hbn, ho, ht, trivial⟩)]
  simp only [getI_cons_zero, getI_cons_succ, sum_flatMap_range, sum_map_range, List.range_one, List.flatMap_cons,
    List.flatMap_nil, List.append_nil, winPos_row, Finset.sum_range_one]
  refine Finset.sum_congr rfl (fun cc hcc => Finset.sum_congr rfl (fun a ha => ?_))
  rw [hw4g o cc a ho (Finset.mem_range.1 hcc) (Finset.mem_range.1 ha),
    readPad_row x 0 n c l bn cc hxs hbn (Finset.mem_range.1 hcc)]
end Conv

section Pool
variable {K : Type} [Field K] [LinearOrder K] [IsStrictOrderedRing K]

omit [LinearOrder K] [IsStrictOrderedRing K] in
/-- **avg_pool1d = avg_pool2d on the one-row lift** -/
theorem avgpool1d_is_avgpool2d_row (x y : NDArray K) (k s p d : Nat) (h : avgPool1dForward x k s p d = some y) :
    ∃ n c l lo x4 y4, x.shape = [n, c, l] ∧ convOut l k s p d = some lo ∧ y.shape = [n, c, lo] ∧ y.WF ∧
      unsqueezeForward x [2] = some x4 ∧ unsqueezeForward y [2] = some y4 ∧
      x4.shape = [n, c, 1, l] ∧ y4.shape = [n, c, 1, lo] ∧
      avgPool2dForward x4 (1, k) (1, s) (0, p) (1, d) = some y4 ∧
      ∀ bn cc t, bn < n → cc < c → t < lo → y4.get [bn, cc, 0, t] = y.get [bn, cc, t] := by
  unfold avgPool1dForward at h
  cases hg : poolGeom1 x k s p d with
  | none => simp [hg] at h
  | some r =>
    obtain ⟨n, c, l, lo⟩ := r
    obtain ⟨hxs, hlo⟩ := poolGeom1_someE x k s p d _ hg
    simp only [hg, Option.bind_eq_bind, Option.bind_some, Option.pure_def, Option.some.injEq] at h
    have hy := h.symm
    have hys : y.shape = [n, c, lo] := by rw [hy]; rfl
    have hyw : y.WF := by rw [hy]; exact ofFn_wf _ _
    obtain ⟨hx4, hx4g⟩ := lift_row x n c l hxs
    obtain ⟨hy4, hy4g⟩ := lift_row y n c lo hys
    refine ⟨n, c, l, lo, _, _, hxs, hlo, hys, hyw, hx4, hy4, rfl, rfl, ?_, hy4g⟩
    have hs4 : (reshapeTo x [n, c, 1, l]).shape = [n, c, 1, l] := rfl
    have hgeo : poolGeom2 (reshapeTo x [n, c, 1, l]) (1, k) (1, s) (0, p) (1, d) = some (n, c, 1, l, 1, lo) := by
      simp [poolGeom2, hs4, convOut_row, hlo]
    simp only [avgPool2dForward, hgeo, Option.bind_eq_bind, Option.bind_some, Option.pure_def, Option.some.injEq]
    refine ext_get (α := K) _ _ (ofFn_wf _ _) (gather_wf _ _ _) rfl ?_
    intro q hq
    change validIdx [n, c, 1, lo] q at hq
    obtain ⟨bn, cc, i, t, rfl, hbn, hcc, hi, ht⟩ := validIdx4 hq
    have hi0 : i = 0 := by omega
    subst hi0
    rw [hy4g bn cc t hbn hcc ht, get_ofFn _ _ _ hq]
    conv_rhs => rw [hy]
    rw [get_ofFn _ _ _ (show validIdx [n, c, lo] [bn, cc, t] from ⟨hbn, hcc, ht, trivial⟩)]
    simp only [getI_cons_zero, getI_cons_succ, win2_row, List.map_map, one_mul]
    congr 2
    apply List.map_congr_left
    intro a _
    simp only [Function.comp]
    cases hw : winPos l s p d t a with
    | none => rfl
    | some q => exact (lift_row x n c l hxs).2 bn cc q hbn hcc (winPos_ltE hw)

omit [Field K] [IsStrictOrderedRing K] in
/-- **max_pool1d = max_pool2d on the one-row lift** (same `−∞` padding value) -/
theorem maxpool1d_is_maxpool2d_row [Zero K] (x y : NDArray K) (negInf : K) (k s p d : Nat)
    (h : maxPool1dForward x negInf k s p d = some y) :
    ∃ n c l lo x4 y4, x.shape = [n, c, l] ∧ convOut l k s p d = some lo ∧ y.shape = [n, c, lo] ∧ y.WF ∧
      unsqueezeForward x [2] = some x4 ∧ unsqueezeForward y [2] = some y4 ∧
      x4.shape = [n, c, 1, l] ∧ y4.shape = [n, c, 1, lo] ∧
      maxPool2dForward x4 negInf (1, k) (1, s) (0, p) (1, d) = some y4 ∧
      ∀ bn cc t, bn < n → cc < c → t < lo → y4.get [bn, cc, 0, t] = y.get [bn, cc, t] := by
  unfold maxPool1dForward at h
  cases hg : poolGeom1 x k s p d with
  | none => simp [hg] at h
  | some r =>
    obtain ⟨n, c, l, lo⟩ := r
    obtain ⟨hxs, hlo⟩ := poolGeom1_someE x k s p d _ hg
    simp only [hg, Option.bind_eq_bind, Option.bind_some, Option.pure_def, Option.some.injEq] at h
    have hy := h.symm
    have hys : y.shape = [n, c, lo] := by rw [hy]; rfl
    have hyw : y.WF := by rw [hy]; exact ofFn_wf _ _
    obtain ⟨hx4, hx4g⟩ := lift_row x n c l hxs
    obtain ⟨hy4, hy4g⟩ := lift_row y n c lo hys
    refine ⟨n, c, l, lo, _, _, hxs, hlo, hys, hyw, hx4, hy4, rfl, rfl, ?_, hy4g⟩
    have hs4 : (reshapeTo x [n, c, 1, l]).shape = [n, c, 1, l] := rfl
    have hgeo : poolGeom2 (reshapeTo x [n, c, 1, l]) (1, k) (1, s) (0, p) (1, d) = some (n, c, 1, l, 1, lo) := by
      simp [poolGeom2, hs4, convOut_row, hlo]
    simp only [maxPool2dForward, hgeo, Option.bind_eq_bind, Option.bind_some, Option.pure_def, Option.some.injEq]
    refine ext_get (α := K) _ _ (ofFn_wf _ _) (show (reshapeTo y [n, c, 1, lo]).WF from ofFn_wf _ _) rfl ?_
    intro q hq
    change validIdx [n, c, 1, lo] q at hq
    obtain ⟨bn, cc, i, t, rfl, hbn, hcc, hi, ht⟩ := validIdx4 hq
    have hi0 : i = 0 := by omega
    subst hi0
    rw [hy4g bn cc t hbn hcc ht, get_ofFn _ _ _ hq]
    conv_rhs => rw [hy]
    rw [get_ofFn _ _ _ (show validIdx [n, c, lo] [bn, cc, t] from ⟨hbn, hcc, ht, trivial⟩)]
    simp only [getI_cons_zero, getI_cons_succ, win2_row, List.map_map]
    have hl : (List.range k).map (fun a => (winPos l s p d t a).map (fun q => x.get [bn, cc, q]))
        = (List.range k).map ((fun o => o.map (fun (qq : Nat × Nat) => (reshapeTo x [n, c, 1, l]).get [bn, cc, qq.1, qq.2])) ∘
            (fun b => (winPos l s p d t b).map (fun q => (0, q)))) := by
      apply List.map_congr_left
      intro a _
      simp only [Function.comp]
      cases hw : winPos l s p d t a with
      | none => rfl
      | some q => exact congrArg some ((lift_row x n c l hxs).2 bn cc q hbn hcc (winPos_ltE hw)).symm
    rw [hl]
end Pool

/-! ### corollaries: the 1-d ops as `unfold` + matrix product / mean / max (through the one-row lift) -/
section Corollaries
open Proofs.SpecNN Finset Synap.ConvTools

/-- **conv1d = unfold + matmul**: with `x4 = x[:, :, None, :]`, `w4 = w[:, :, None, :]`:
    `cols = unfold(x4, (1,k), dilation (1,d), stride (1,s), padding (0,p))`, `wmat = w4.reshape(C_out, C·k)`,
    `mm = wmat @ cols`, and `mm.reshape(N, C_out, 1, L_out)` IS `conv1d(x, w)[:, :, None, :]`; entry by entry
    `conv1d(x,w)[n,o,t] = Σ_r wmat[o,r]·cols[n,r,t]`. -/
theorem conv1d_is_unfold_matmul {R : Type} [CommRing R] (x w y : NDArray R) (s p d : Nat)
    (h : conv1dForward x w none s p d = some y) :
    ∃ n c l co k lo x4 w4 y4 wmat cols mm,
      x.shape = [n, c, l] ∧ w.shape = [co, c, k] ∧ y.shape = [n, co, lo] ∧ convOut l k s p d = some lo ∧
      unsqueezeForward x [2] = some x4 ∧ unsqueezeForward w [2] = some w4 ∧ unsqueezeForward y [2] = some y4 ∧
      reshapeForward w4 [(co : Int), ((c * 1 * k : Nat) : Int)] = some wmat ∧
      im2colView ⟨n, c, 1, l, (1, k), (1, s), (0, p), (1, d)⟩ x4 0 = some cols ∧
      matmulForward wmat cols = some mm ∧
      reshapeForward mm [(n : Int), (co : Int), ((1 : Nat) : Int), (lo : Int)] = some y4 ∧
      (∀ bn o t, bn < n → o < co → t < lo → y4.get [bn, o, 0, t] = y.get [bn, o, t]) ∧
      ∀ bn o t, bn < n → o < co → t < lo →
        y.get [bn, o, t] = ∑ r ∈ range (c * 1 * k), wmat.get [o, r] * cols.get [bn, r, t] := by
  obtain ⟨n, c, l, co, k, lo, x4, w4, y4, hxs, hws, hlo, hys, -, hx4, hw4, hy4, hx4s, hw4s, -, hconv, hget⟩ :=
    conv1d_is_conv2d_row x w y s p d h
  obtain ⟨n', c', H, W, co', kh, kw, lh, lw, wmat, cols, mm, e1, e2, e3, e4, e5, e6, e7, e8, -, -, -, -, -, e9⟩ :=
    conv2d_is_unfold_matmul x4 w4 y4 (1, s) (0, p) (1, d) hconv
  rw [hx4s] at e1; rw [hw4s] at e2
  injection e1 with a1 e1; injection e1 with a2 e1; injection e1 with a3 e1; injection e1 with a4 _
  injection e2 with b1 e2; injection e2 with _ e2; injection e2 with b3 e2; injection e2 with b4 _
  subst a1 a2 a3 a4 b1 b3 b4
  simp only at e3 e4
  rw [convOut_row] at e3; rw [hlo] at e4
  cases e3; cases e4
  refine ⟨n, c, l, co, k, lo, x4, w4, y4, wmat, cols, mm, hxs, hws, hys, hlo, hx4, hw4, hy4, e5, e6, e7, e8, hget, ?_⟩
  intro bn o t hbn ho ht
  rw [← hget bn o t hbn ho ht, e9 bn o 0 t hbn ho Nat.one_pos ht]
  simp

variable {K : Type} [Field K] [LinearOrder K] [IsStrictOrderedRing K]

omit [LinearOrder K] [IsStrictOrderedRing K] in
/-- **avg_pool1d = windows + mean**: `cols = unfold(x[:, :, None, :], (1,k), …)` (pad value 0),
    `r4 = cols.reshape(N, C, k, L_out)`, `m = r4.mean(axis=2)`, and `m.reshape(N, C, 1, L_out)` IS
    `avg_pool1d(x)[:, :, None, :]`; entry by entry `avg_pool1d(x)[n,c,t] = (Σ_q r4[n,c,q,t]) / k`. -/
theorem avgpool1d_is_unfold_mean (x y : NDArray K) (k s p d : Nat) (h : avgPool1dForward x k s p d = some y) :
    ∃ n c l lo x4 y4 cols r4 m,
      x.shape = [n, c, l] ∧ y.shape = [n, c, lo] ∧ convOut l k s p d = some lo ∧
      unsqueezeForward x [2] = some x4 ∧ unsqueezeForward y [2] = some y4 ∧
      im2colView ⟨n, c, 1, l, (1, k), (1, s), (0, p), (1, d)⟩ x4 0 = some cols ∧
      reshapeForward cols [(n : Int), (c : Int), ((1 * k : Nat) : Int), ((1 * lo : Nat) : Int)] = some r4 ∧
      meanForward r4 (.one 2) false = some m ∧
      reshapeForward m [(n : Int), (c : Int), ((1 : Nat) : Int), (lo : Int)] = some y4 ∧
      (∀ bn cc t, bn < n → cc < c → t < lo → y4.get [bn, cc, 0, t] = y.get [bn, cc, t]) ∧
      ∀ bn cc t, bn < n → cc < c → t < lo →
        y.get [bn, cc, t] = (∑ q ∈ range (1 * k), r4.get [bn, cc, q, t]) / ((1 * k : Nat) : K) := by
  obtain ⟨n, c, l, lo, x4, y4, hxs, hlo, hys, -, hx4, hy4, hx4s, -, hpool, hget⟩ :=
    avgpool1d_is_avgpool2d_row x y k s p d h
  obtain ⟨n', c', H, W, lh, lw, cols, r4, m, e1, e3, e4, e5, e6, e7, e8, -, -, -, e9⟩ :=
    avgpool2d_is_unfold_mean x4 y4 (1, k) (1, s) (0, p) (1, d) hpool
  rw [hx4s] at e1
  injection e1 with a1 e1; injection e1 with a2 e1; injection e1 with a3 e1; injection e1 with a4 _
  subst a1 a2 a3 a4
  simp only at e3 e4
  rw [convOut_row] at e3; rw [hlo] at e4
  cases e3; cases e4
  refine ⟨n, c, l, lo, x4, y4, cols, r4, m, hxs, hys, hlo, hx4, hy4, e5, e6, e7, e8, hget, ?_⟩
  intro bn cc t hbn hcc ht
  rw [← hget bn cc t hbn hcc ht, e9 bn cc 0 t hbn hcc Nat.one_pos ht]
  simp

omit [IsStrictOrderedRing K] in
/-- **max_pool1d = windows + max** (same guards as in 2-d: non-empty batch and channel axes, `negInf` below every
    entry): `cols = unfold(x[:, :, None, :], (1,k), …, pad_value=negInf)`, `r4 = cols.reshape(N, C, k, L_out)`,
    `m = r4.max(dim=2)`, and `m.reshape(N, C, 1, L_out)` IS `max_pool1d(x)[:, :, None, :]`; each entry is attained on,
    and dominates, the column `r4[n, c, :, t]`. -/
theorem maxpool1d_is_unfold_max (x y : NDArray K) (negInf : K) (k s p d : Nat)
    (h : maxPool1dForward x negInf k s p d = some y)
    (hn : x.shape.getD 0 0 ≠ 0) (hc : x.shape.getD 1 0 ≠ 0)
    (hneg : ∀ q, validIdx x.shape q → negInf ≤ x.get q) :
    ∃ n c l lo x4 y4 cols r4 m,
      x.shape = [n, c, l] ∧ y.shape = [n, c, lo] ∧ convOut l k s p d = some lo ∧
      unsqueezeForward x [2] = some x4 ∧ unsqueezeForward y [2] = some y4 ∧
      im2colView ⟨n, c, 1, l, (1, k), (1, s), (0, p), (1, d)⟩ x4 negInf = some cols ∧
      reshapeForward cols [(n : Int), (c : Int), ((1 * k : Nat) : Int), ((1 * lo : Nat) : Int)] = some r4 ∧
      maxForward r4 (some 2) false = some m ∧
      reshapeForward m [(n : Int), (c : Int), ((1 : Nat) : Int), (lo : Int)] = some y4 ∧
      (∀ bn cc t, bn < n → cc < c → t < lo → y4.get [bn, cc, 0, t] = y.get [bn, cc, t]) ∧
      ∀ bn cc t, bn < n → cc < c → t < lo →
        (∃ q, q < 1 * k ∧ y.get [bn, cc, t] = r4.get [bn, cc, q, t]) ∧
        (∀ q, q < 1 * k → r4.get [bn, cc, q, t] ≤ y.get [bn, cc, t]) := by
  obtain ⟨n, c, l, lo, x4, y4, hxs, hlo, hys, -, hx4, hy4, hx4s, -, hpool, hget⟩ :=
    maxpool1d_is_maxpool2d_row x y negInf k s p d h
  have hx4e : x4 = reshapeTo x [n, c, 1, l] := by
    have := (lift_row x n c l hxs).1
    rw [hx4] at this
    exact Option.some.inj this
  obtain ⟨n', c', H, W, lh, lw, cols, r4, m, e1, e3, e4, e5, e6, e7, e8, -, -, -, e9⟩ :=
    maxpool2d_is_unfold_max x4 y4 negInf (1, k) (1, s) (0, p) (1, d) hpool
      (by rw [hx4s]; rw [hxs] at hn; exact hn) (by rw [hx4s]; rw [hxs] at hc; exact hc)
      (by
        intro q hq
        rw [hx4s] at hq
        obtain ⟨bn, cc, i, t, rfl, hbn, hcc, hi, ht⟩ := validIdx4 hq
        have hi0 : i = 0 := by omega
        subst hi0
        rw [hx4e, (lift_row x n c l hxs).2 bn cc t hbn hcc ht]
        exact hneg _ (by rw [hxs]; exact ⟨hbn, hcc, ht, trivial⟩))
  rw [hx4s] at e1
  injection e1 with a1 e1; injection e1 with a2 e1; injection e1 with a3 e1; injection e1 with a4 _
  subst a1 a2 a3 a4
  simp only at e3 e4
  rw [convOut_row] at e3; rw [hlo] at e4
  cases e3; cases e4
  refine ⟨n, c, l, lo, x4, y4, cols, r4, m, hxs, hys, hlo, hx4, hy4, e5, e6, e7, e8, hget, ?_⟩
  intro bn cc t hbn hcc ht
  have := e9 bn cc 0 t hbn hcc Nat.one_pos ht
  rw [hget bn cc t hbn hcc ht] at this
  simpa using this

end Corollaries

end Proofs.Fused1d
