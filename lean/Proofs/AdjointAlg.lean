import Proofs.AdjointDefs
import Proofs.AdjointGenB
import Proofs.AdjointBcastB
import Proofs.AdjointSumB
import Proofs.AdjointJoinB
import Proofs.AdjointConcatB
import Proofs.AdjointMatmulB
import Mathlib.Algebra.Field.Basic
/-!
# Vector-Jacobian products of broadcasting arithmetic, reductions, matrix products, join/split (C01)

add, mul (each operand, every broadcasting pattern), sum / mean (None, int, tuple dims with
negative entries, keepdims), matmul (batch broadcasting), addmm, concat / stack / unbind
(positive and negative dims).
-/
namespace Proofs.Adjoint
open Synap Synap.NDArray Synap.Np Synap.Kernels
open Proofs.Core

-- the well-formedness hypotheses of the operands are part of the stated interface but not needed
set_option linter.unusedVariables false

variable {R : Type} [CommRing R]

/-- add is linear in each operand separately (the other operand contributes a constant): the
    Jacobian in the first operand is "broadcast `v` to the result shape", whose transpose is
    `unbroadcast` -/
theorem add_adj_left (a b y : NDArray R) (ha : a.WF) (hb : b.WF) (h : addForward a b = some y) :
    IsAdjoint (R := R) a.shape y.shape (fun v => addForward v (zeros b.shape)) (fun g => some (addBackward g a.shape b.shape).1) := by
  have hs := bcast2_some _ a b y h
  obtain ⟨hl, -, -⟩ := broadcast_forall₂ _ _ _ hs
  apply bcast_adj a.shape y.shape (fun _ => 1) (by omega) (fun j hj => (bcastIdx_valid _ _ _ hs j hj).1)
  · intro v _ hvs
    have hs' : broadcastShapes v.shape (zeros b.shape : NDArray R).shape = some y.shape := by
      rw [hvs]; exact hs
    refine ⟨_, bcast2_eq _ _ _ _ hs', ofFn_wf _ _, rfl, ?_⟩
    intro j hj
    rw [get_ofFn _ _ _ hj, get_zeros, add_zero, mul_one, hvs]
  · intro g _ hgs
    exact ⟨g, hgs, fun j _ => (one_mul _).symm, rfl⟩

theorem add_adj_right (a b y : NDArray R) (ha : a.WF) (hb : b.WF) (h : addForward a b = some y) :
    IsAdjoint (R := R) b.shape y.shape (fun v => addForward (zeros a.shape) v) (fun g => some (addBackward g a.shape b.shape).2) := by
  have hs := bcast2_some _ a b y h
  obtain ⟨hl, -, -⟩ := broadcast_forall₂ _ _ _ hs
  apply bcast_adj b.shape y.shape (fun _ => 1) (by omega) (fun j hj => (bcastIdx_valid _ _ _ hs j hj).2)
  · intro v _ hvs
    have hs' : broadcastShapes (zeros a.shape : NDArray R).shape v.shape = some y.shape := by
      rw [hvs]; exact hs
    refine ⟨_, bcast2_eq _ _ _ _ hs', ofFn_wf _ _, rfl, ?_⟩
    intro j hj
    rw [get_ofFn _ _ _ hj, get_zeros, zero_add, mul_one, hvs]
  · intro g _ hgs
    exact ⟨g, hgs, fun j _ => (one_mul _).symm, rfl⟩

/-- mul is bilinear: the Jacobian in the first operand is `v ↦ v * b` -/
theorem mul_adj_left (a b y : NDArray R) (ha : a.WF) (hb : b.WF) (h : mulForward a b = some y) :
    IsAdjoint (R := R) a.shape y.shape (fun v => mulForward v b) (fun g => (mulBackward g a b).map (·.1)) := by
  have hs := bcast2_some _ a b y h
  obtain ⟨hl, -, -⟩ := broadcast_forall₂ _ _ _ hs
  obtain ⟨hsa, hsb, -, -⟩ := broadcastShapes_absorb _ _ _ hs
  apply bcast_adj a.shape y.shape (fun j => b.get (bcastIdx b.shape j)) (by omega)
    (fun j hj => (bcastIdx_valid _ _ _ hs j hj).1)
  · intro v _ hvs
    have hs' : broadcastShapes v.shape b.shape = some y.shape := by rw [hvs]; exact hs
    refine ⟨_, bcast2_eq _ _ _ _ hs', ofFn_wf _ _, rfl, ?_⟩
    intro j hj
    rw [get_ofFn _ _ _ hj, hvs]
  · intro g _ hgs
    have h1 : broadcastShapes g.shape b.shape = some y.shape := by rw [hgs]; exact hsb
    have h2 : broadcastShapes g.shape a.shape = some y.shape := by rw [hgs]; exact hsa
    refine ⟨_, ?_, ?_, by simp only [mulBackward, bcast2_eq _ _ _ _ h1, bcast2_eq _ _ _ _ h2]; rfl⟩
    · rfl
    · intro j hj
      rw [get_ofFn _ _ _ hj, hgs, bcastIdx_self _ _ hj, mul_comm]

theorem mul_adj_right (a b y : NDArray R) (ha : a.WF) (hb : b.WF) (h : mulForward a b = some y) :
    IsAdjoint (R := R) b.shape y.shape (fun v => mulForward a v) (fun g => (mulBackward g a b).map (·.2)) := by
  have hs := bcast2_some _ a b y h
  obtain ⟨hl, -, -⟩ := broadcast_forall₂ _ _ _ hs
  obtain ⟨hsa, hsb, -, -⟩ := broadcastShapes_absorb _ _ _ hs
  apply bcast_adj b.shape y.shape (fun j => a.get (bcastIdx a.shape j)) (by omega)
    (fun j hj => (bcastIdx_valid _ _ _ hs j hj).2)
  · intro v _ hvs
    have hs' : broadcastShapes a.shape v.shape = some y.shape := by rw [hvs]; exact hs
    refine ⟨_, bcast2_eq _ _ _ _ hs', ofFn_wf _ _, rfl, ?_⟩
    intro j hj
    rw [get_ofFn _ _ _ hj, hvs, mul_comm]
  · intro g _ hgs
    have h1 : broadcastShapes g.shape b.shape = some y.shape := by rw [hgs]; exact hsb
    have h2 : broadcastShapes g.shape a.shape = some y.shape := by rw [hgs]; exact hsa
    refine ⟨_, ?_, ?_, by simp only [mulBackward, bcast2_eq _ _ _ _ h1, bcast2_eq _ _ _ _ h2]; rfl⟩
    · rfl
    · intro j hj
      rw [get_ofFn _ _ _ hj, hgs, bcastIdx_self _ _ hj, mul_comm]

/-- sum over None / an int / a tuple of dims (negative entries allowed), keepdims or not -/
theorem sum_adj (a y : NDArray R) (ax : Axes) (keep : Bool) (ha : a.WF) (h : sumForward a ax keep = some y) :
    IsAdjoint (R := R) a.shape y.shape (fun v => sumForward v ax keep) (fun g => sumBackward g a.shape ax keep) := by
  cases hn : ax.normRed a.shape.length with
  | none => simp [sumForward, Np.sum, hn] at h
  | some axes =>
    have hy : y.shape = reduceShape a.shape axes keep := by
      simp only [sumForward, Np.sum, hn, Option.bind_eq_bind, Option.bind_some, Option.pure_def,
        Option.some.injEq] at h
      rw [← h]; rfl
    have hk : (keep || ax == .all) = keep ∨ reduceShape a.shape axes keep = [] := by
      cases keep
      · by_cases e : ax = .all
        · right
          subst e
          simp only [normRed_all, Option.some.injEq] at hn
          rw [← hn]
          exact reduceShape_all_nokeep _
        · left; simp [e]
      · left; simp
    refine ((sum_unreduce_adj a.shape axes keep _ hk).of_shape_eq rfl hy.symm).congrB ?_ ?_
    · intro v _ hvs
      simp [sumForward, Np.sum, hvs, hn]
    · intro g _ _
      simp [sumBackward, hn]

/-! ### sum / max / min of a 0-d operand along `dim = 0` or `dim = -1`

NumPy's ufunc reductions accept exactly these two integer axes on a 0-d array and reduce nothing
(`Axes.normRed`); the backward kernels return the upstream gradient unchanged. -/

/-- a well-formed 0-d array is one value -/
theorem wf_zero_dim {α : Type} (x : NDArray α) (hx : x.WF) (hs : x.shape = []) : ∃ v, x = ⟨[], [v]⟩ := by
  obtain ⟨sh, data⟩ := x
  simp only at hs
  subst hs
  unfold WF at hx
  simp only [size_nil] at hx
  match data, hx with
  | [v], _ => exact ⟨v, rfl⟩

set_option linter.unusedSimpArgs false in
/-- **sum of a 0-d operand along dim 0 / −1 is the identity** (`keepdims` or not: the result is 0-d) -/
theorem sum_zero_dim (x : NDArray R) (hx : x.WF) (hs : x.shape = []) (d : Int) (hd : d = 0 ∨ d = -1)
    (keep : Bool) : sumForward x (.one d) keep = some x := by
  obtain ⟨v, rfl⟩ := wf_zero_dim x hx hs
  unfold sumForward Np.sum
  simp only [List.length_nil, normRed_zero_dim hd, Option.bind_eq_bind, Option.bind_some, Option.pure_def]
  cases keep <;> simp [scatterAdd, reduceShape, reduceIdx, dropAxes, setAxes, ofFn, allIdx, NDArray.get, ravel]

set_option linter.unusedSimpArgs false in
/-- … and its backward is the identity on the (0-d) upstream gradient -/
theorem sum_zero_dim_backward (g : NDArray R) (hg : g.WF) (hs : g.shape = []) (d : Int) (hd : d = 0 ∨ d = -1)
    (keep : Bool) : sumBackward g [] (.one d) keep = some g := by
  obtain ⟨v, rfl⟩ := wf_zero_dim g hg hs
  unfold sumBackward
  simp only [List.length_nil, normRed_zero_dim hd, Option.bind_eq_bind, Option.bind_some, Option.pure_def]
  cases keep <;> simp [unreduce, gather, reduceIdx, dropAxes, setAxes, ofFn, allIdx, NDArray.get, ravel]

set_option linter.unusedSimpArgs false in
/-- **max / min of a 0-d operand along dim 0 / −1 is the identity**, for either comparison -/
theorem ext_zero_dim (better : R → R → Bool) (x : NDArray R) (hx : x.WF) (hs : x.shape = []) (d : Int)
    (hd : d = 0 ∨ d = -1) (keep : Bool) : extForward better x (some d) keep = some x := by
  obtain ⟨v, rfl⟩ := wf_zero_dim x hx hs
  unfold extForward
  simp only [List.length_nil, normRed_zero_dim hd, Option.bind_eq_bind, Option.bind_some, Option.pure_def]
  cases keep <;>
    simp [reduceShape, reduceIdx, dropAxes, setAxes, ofFn, allIdx, NDArray.get, ravel, argExt, Shape.size]

set_option linter.unusedSimpArgs false in
/-- … and the backward mask is 1: the upstream gradient is returned unchanged -/
theorem ext_zero_dim_backward (better : R → R → Bool) (g x : NDArray R) (hg : g.WF) (hgs : g.shape = [])
    (hs : x.shape = []) (d : Int) (hd : d = 0 ∨ d = -1) (keep : Bool) :
    extBackward better g x (some d) keep = some g := by
  obtain ⟨v, rfl⟩ := wf_zero_dim g hg hgs
  obtain ⟨sh, data⟩ := x
  simp only at hs
  subst hs
  unfold extBackward
  simp only [List.length_nil, normRed_zero_dim hd, Option.bind_eq_bind, Option.bind_some, Option.pure_def]
  cases keep <;>
    simp [reduceShape, reduceIdx, dropAxes, setAxes, ofFn, allIdx, NDArray.get, ravel, argExt, Shape.size,
      reshapeTo, gather, unravel]


/-- matmul with batch broadcasting, first operand -/
theorem matmul_adj_left (a b y : NDArray R) (ha : a.WF) (hb : b.WF) (h : matmulForward a b = some y) :
    IsAdjoint (R := R) a.shape y.shape (fun v => matmulForward v b) (fun g => (matmulBackward g a b).map (·.1)) := by
  obtain ⟨ba, bb, batch, n, k, m, has, hbs, hbc, hy⟩ := matmul_some a b y h
  exact (matmul_adj_left_core a b ba bb batch n k m has hbs hbc).of_shape_eq rfl hy.symm

theorem matmul_adj_right (a b y : NDArray R) (ha : a.WF) (hb : b.WF) (h : matmulForward a b = some y) :
    IsAdjoint (R := R) b.shape y.shape (fun v => matmulForward a v) (fun g => (matmulBackward g a b).map (·.2)) := by
  obtain ⟨ba, bb, batch, n, k, m, has, hbs, hbc, hy⟩ := matmul_some a b y h
  exact (matmul_adj_right_core a b ba bb batch n k m has hbs hbc).of_shape_eq rfl hy.symm

/-- unbind: output `k` is linear in the operand; its transpose places the gradient at position `k` -/
theorem unbind_adj (a : NDArray R) (axis : Int) (ys : List (NDArray R)) (ha : a.WF)
    (h : unbindForward a axis = some ys) (k : Nat) (yk : NDArray R) (hk : ys[k]? = some yk) :
    IsAdjoint (R := R) a.shape yk.shape (fun v => (unbindForward v axis).bind (·[k]?))
      (fun g => unbindBackward g a.shape axis k) := by
  cases hn : normAxis a.shape.length axis with
  | none => simp [unbindForward, unbind, hn] at h
  | some a0 =>
    have hys : ys = (List.range (a.shape.getD a0 0)).map (take a a0) := by
      simp only [unbindForward, unbind, hn, Option.bind_eq_bind, Option.bind_some, Option.pure_def,
        Option.some.injEq] at h
      exact h.symm
    subst hys
    have hk' : k < a.shape.getD a0 0 := by
      by_contra hlt
      rw [List.getElem?_eq_none (by simp only [List.length_map, List.length_range]; omega)] at hk
      cases hk
    have hyk : yk = take a a0 k := by
      rw [List.getElem?_map, List.getElem?_range hk'] at hk
      exact (Option.some.inj hk).symm
    subst hyk
    have ha0 := normAxis_ltB _ _ _ hn
    apply take_place_adj a.shape a0 k ha0 hk'
    · intro v _ hvs
      refine ⟨take v a0 k, ?_, gather_wfB _ _ _, by rw [take, gather_shapeB, hvs], ?_⟩
      · simp only [unbindForward, unbind, hvs, hn, Option.bind_eq_bind, Option.bind_some,
          Option.pure_def, List.getElem?_map, List.getElem?_range hk', Option.map_some]
      · intro j hj
        rw [take, hvs, get_gather _ _ _ _ hj]
    · intro g _ _
      refine ⟨_, by simp only [unbindBackward, hn]; rfl, ofFn_wf _ _, rfl, ?_⟩
      intro i hi
      rw [get_ofFn _ _ _ hi]

/-- stack of `n` arrays of one shape, operand `k` (the others held at zero) -/
theorem stack_adj (xs : List (NDArray R)) (axis : Int) (y : NDArray R) (hxs : ∀ x ∈ xs, x.WF)
    (h : stackForward xs axis = some y) (k : Nat) (xk : NDArray R) (hk : xs[k]? = some xk) :
    IsAdjoint (R := R) xk.shape y.shape
      (fun v => stackForward ((xs.map (fun x => zeros x.shape)).set k v) axis)
      (fun g => (stackBackward g axis).bind (·[k]?)) := by
  obtain ⟨s0, a0, hne, hall, hn, hy⟩ := stack_some xs axis y h
  have hkl : k < xs.length := (List.getElem?_eq_some_iff.1 hk).1
  have hxk : xk.shape = s0 := hall xk (List.mem_of_getElem? hk)
  have ha0 : a0 ≤ s0.length := by have := normAxis_ltB _ _ _ hn; omega
  have hsa : dropAxes (insertAt s0 a0 xs.length) [a0] = s0 := by
    rw [dropAxes_single, eraseIdx_insertAt _ _ _ ha0]
  have key : IsAdjoint (R := R) (insertAt s0 a0 xs.length) (dropAxes (insertAt s0 a0 xs.length) [a0])
      (fun g => (stackBackward g axis).bind (·[k]?))
      (fun v => stackForward ((xs.map (fun x => zeros x.shape)).set k v) axis) := by
    apply take_place_adj _ a0 k (by rw [length_insertAt]; omega)
      (by rw [getD_insertAt _ _ _ _ ha0]; exact hkl)
    · intro g _ hgs
      refine ⟨take g a0 k, ?_, gather_wfB _ _ _, by rw [take, gather_shapeB, hgs], ?_⟩
      · simp only [stackBackward, unbind, hgs, length_insertAt, hn, Option.bind_eq_bind,
          Option.bind_some, Option.pure_def, getD_insertAt _ _ _ _ ha0, List.getElem?_map,
          List.getElem?_range hkl, Option.map_some]
      · intro j hj
        rw [take, hgs, get_gather _ _ _ _ hj]
    · intro v _ hvs
      rw [hsa] at hvs
      refine ⟨_, stack_eq _ axis s0 a0 xs.length ?_ ?_ hn (by simp), ofFn_wf _ _, rfl, ?_⟩
      · intro e
        have : ((xs.map (fun x => (zeros x.shape : NDArray R))).set k v).length = xs.length := by simp
        rw [e] at this
        simp at this
        omega
      · intro x hx
        rcases List.mem_or_eq_of_mem_set hx with hx | hx
        · obtain ⟨x', hx', rfl⟩ := List.mem_map.1 hx
          exact hall x' hx'
        · rw [hx, hvs]
      · intro i hi
        rw [get_ofFn _ _ _ hi]
        exact get_set_zeros xs k v hkl _ _
  exact key.symm.of_shape_eq (hsa.trans hxk.symm) hy.symm

/-- concat along any dim, operand `k` -/
theorem concat_adj (xs : List (NDArray R)) (axis : Int) (y : NDArray R) (hxs : ∀ x ∈ xs, x.WF)
    (h : concatForward xs axis = some y) (k : Nat) (xk : NDArray R) (hk : xs[k]? = some xk) :
    IsAdjoint (R := R) xk.shape y.shape
      (fun v => concatForward ((xs.map (fun x => zeros x.shape)).set k v) axis)
      (fun g => (concatBackward g (xs.map (·.shape)) axis).bind (·[k]?)) := by
  obtain ⟨r0, a0, hne, ha0, hn, hall, hy⟩ := concat_some xs axis y h
  have hkl : k < xs.length := (List.getElem?_eq_some_iff.1 hk).1
  have hxkk : xs[k] = xk := (List.getElem?_eq_some_iff.1 hk).2
  have hxk : xk.shape = insertAt r0 a0 (xk.shape.getD a0 0) := hall xk (List.mem_of_getElem? hk)
  have hoff : ((xs.take k).map (fun x => x.shape.getD a0 0)).sum + xk.shape.getD a0 0
      ≤ (xs.map (fun x => x.shape.getD a0 0)).sum := by
    have := sum_take_add_le (xs.map (fun x => x.shape.getD a0 0)) k (by simpa using hkl)
    rw [← List.map_take, List.getElem_map, hxkk] at this
    exact this
  have key : IsAdjoint (R := R) (insertAt r0 a0 ((xs.map (fun x => x.shape.getD a0 0)).sum))
      (insertAt r0 a0 (xk.shape.getD a0 0))
      (fun g => (concatBackward g (xs.map (·.shape)) axis).bind (·[k]?))
      (fun v => concatForward ((xs.map (fun x => zeros x.shape)).set k v) axis) := by
    apply shift_place_adj r0 a0 _ _ _ ha0 hoff
    · intro g _ hgs
      refine ⟨_, concatBackward_get g xs axis r0 a0 _ hgs hn k xk hk, gather_wfB _ _ _, hxk, ?_⟩
      intro i hi
      rw [get_gather _ _ _ _ (hxk ▸ hi)]
    · intro v _ hvs
      have hvn : v.shape.getD a0 0 = xk.shape.getD a0 0 := by
        rw [hvs, getD_insertAt _ _ _ _ ha0]
      have hshapes : ((xs.map (fun x => (zeros x.shape : NDArray R))).set k v).map (·.shape)
          = xs.map (·.shape) := by
        rw [List.map_set, List.map_map]
        have e : ((fun x : NDArray R => x.shape) ∘ fun x : NDArray R => (zeros x.shape : NDArray R))
            = fun x : NDArray R => x.shape := rfl
        rw [e, hvs, ← hxk]
        have : xk.shape = (xs.map (·.shape))[k]'(by simpa using hkl) := by
          rw [List.getElem_map, hxkk]
        rw [this, List.set_getElem_self]
      refine ⟨_, concat_eq _ axis r0 a0 _ ?_ ha0 hn ?_ ?_, ofFn_wf _ _, rfl, ?_⟩
      · intro e
        have : ((xs.map (fun x => (zeros x.shape : NDArray R))).set k v).length = xs.length := by simp
        rw [e] at this
        simp at this
        omega
      · intro x hx
        rcases List.mem_or_eq_of_mem_set hx with hx | hx
        · obtain ⟨x', hx', rfl⟩ := List.mem_map.1 hx
          exact hall x' hx'
        · rw [hx, hvn]; exact hvs
      · have e1 : ∀ l : List (NDArray R), l.map (fun x : NDArray R => x.shape.getD a0 0)
            = (l.map (fun x : NDArray R => x.shape)).map (fun s => s.getD a0 0) :=
          fun l => by rw [List.map_map]; rfl
        rw [e1, hshapes, ← e1]
      · intro j hj
        rw [get_ofFn _ _ _ hj, find_set a0 j (getI j a0) v xs k 0 hkl (Nat.zero_le _), hvn]
        simp only [Nat.zero_add]
        rw [show getI j a0 = j.getD a0 0 from rfl,
          modify_const_getD (· - ((xs.take k).map (fun x => x.shape.getD a0 0)).sum) 0 j a0]
  exact key.symm.of_shape_eq hxk.symm hy.symm

/-- addmm(a, b, c) = a + b @ c : each of the three operands -/
theorem addmm_adj_a (a b c y : NDArray R) (ha : a.WF) (hb : b.WF) (hc : c.WF) (h : addmmForward a b c = some y)
    (hb2 : b.shape.length = 2) (hc2 : c.shape.length = 2) :
    IsAdjoint (R := R) a.shape y.shape (fun v => addmmForward v (zeros b.shape) c)
      (fun g => (addmmBackward g a b c).map (·.1)) := by
  obtain ⟨n, k, m, mm, hbs, hcs, hmm, hmmwf, hmms, hadd⟩ := addmm_some a b c y h hb2 hc2
  have hbn : b.shape.getD 0 0 = n := by rw [hbs]; rfl
  have hcm : c.shape.getD 1 0 = m := by rw [hcs]; rfl
  refine (add_adj_left a mm y ha hmmwf hadd).congrB ?_ ?_
  · intro v _ _
    have hz := matmul_zeros_left b.shape c [] [] [] n k m hbs hcs (broadcastShapes_self [])
    show addmmForward v (zeros b.shape) c = addForward v (zeros mm.shape)
    simp only [addmmForward, Option.bind_eq_bind, hz, Option.bind_some, hmms, List.nil_append]
  · intro g _ _
    obtain ⟨aT, bT, -, -, hB⟩ := matmulBackward_eq (unbroadcast g [n, m]) b c [] [] [] n k m hbs hcs
      (broadcastShapes_self []) (unbroadcast_shape _ _)
    show (addmmBackward g a b c).map (·.1) = some (addBackward g a.shape mm.shape).1
    simp only [addmmBackward, addBackward, hbn, hcm, hB, Option.bind_eq_bind, Option.bind_some,
      Option.pure_def, Option.map_some]

theorem addmm_adj_b (a b c y : NDArray R) (ha : a.WF) (hb : b.WF) (hc : c.WF) (h : addmmForward a b c = some y)
    (hb2 : b.shape.length = 2) (hc2 : c.shape.length = 2) :
    IsAdjoint (R := R) b.shape y.shape (fun v => addmmForward (zeros a.shape) v c)
      (fun g => (addmmBackward g a b c).map (·.2.1)) := by
  obtain ⟨n, k, m, mm, hbs, hcs, hmm, hmmwf, hmms, hadd⟩ := addmm_some a b c y h hb2 hc2
  have hbn : b.shape.getD 0 0 = n := by rw [hbs]; rfl
  have hcm : c.shape.getD 1 0 = m := by rw [hcs]; rfl
  refine ((matmul_adj_left b c mm hb hc hmm).comp (add_adj_right a mm y ha hmmwf hadd)).congrB ?_ ?_
  · intro v _ _
    rfl
  · intro g _ _
    show (addmmBackward g a b c).map (·.2.1)
      = (some (addBackward g a.shape mm.shape).2).bind (fun g => (matmulBackward g b c).map (·.1))
    simp only [addmmBackward, addBackward, hbn, hcm, hmms, Option.bind_eq_bind, Option.bind_some,
      Option.pure_def]
    cases matmulBackward (unbroadcast g [n, m]) b c <;> rfl

theorem addmm_adj_c (a b c y : NDArray R) (ha : a.WF) (hb : b.WF) (hc : c.WF) (h : addmmForward a b c = some y)
    (hb2 : b.shape.length = 2) (hc2 : c.shape.length = 2) :
    IsAdjoint (R := R) c.shape y.shape (fun v => addmmForward (zeros a.shape) b v)
      (fun g => (addmmBackward g a b c).map (·.2.2)) := by
  obtain ⟨n, k, m, mm, hbs, hcs, hmm, hmmwf, hmms, hadd⟩ := addmm_some a b c y h hb2 hc2
  have hbn : b.shape.getD 0 0 = n := by rw [hbs]; rfl
  have hcm : c.shape.getD 1 0 = m := by rw [hcs]; rfl
  refine ((matmul_adj_right b c mm hb hc hmm).comp (add_adj_right a mm y ha hmmwf hadd)).congrB ?_ ?_
  · intro v _ _
    rfl
  · intro g _ _
    show (addmmBackward g a b c).map (·.2.2)
      = (some (addBackward g a.shape mm.shape).2).bind (fun g => (matmulBackward g b c).map (·.2))
    simp only [addmmBackward, addBackward, hbn, hcm, hmms, Option.bind_eq_bind, Option.bind_some,
      Option.pure_def]
    cases matmulBackward (unbroadcast g [n, m]) b c <;> rfl

section Field
variable {K : Type} [Field K]

/-- mean over None / int / tuple dims: the sum divided by the number of reduced elements, and its
    backward the broadcast gradient divided by the same count (negative dims inside tuples included) -/
theorem mean_adj (a y : NDArray K) (ax : Axes) (keep : Bool) (ha : a.WF) (h : meanForward a ax keep = some y) :
    IsAdjoint (R := K) a.shape y.shape (fun v => meanForward v ax keep) (fun g => meanBackward g a.shape ax keep) := by
  cases hn : ax.norm a.shape.length with
  | none => simp [meanForward, hn] at h
  | some axes =>
    cases hs : Np.sum a ax keep with
    | none => simp [meanForward, hn, hs] at h
    | some y0 =>
      have hy : y.shape = y0.shape := by
        simp only [meanForward, hn, hs, Option.bind_eq_bind, Option.bind_some, Option.pure_def,
          Option.some.injEq] at h
        rw [← h]; rfl
      have key := (sum_adj a y0 ax keep ha hs).map_mul
        ((((axes.map (fun k => a.shape.getD k 0)).foldr (· * ·) 1 : Nat) : K))⁻¹
      refine (key.of_shape_eq rfl hy.symm).congrB ?_ ?_
      · intro v _ hvs
        simp only [meanForward, sumForward, hvs, hn, Option.bind_eq_bind, Option.bind_some,
          Option.pure_def, div_eq_mul_inv]
        cases Np.sum v ax keep <;> rfl
      · intro g _ _
        simp only [meanBackward, sumBackward, hn, normRed_of_norm hn, Option.bind_eq_bind, Option.bind_some,
          Option.pure_def, div_eq_mul_inv, Option.map_some]

end Field

end Proofs.Adjoint
