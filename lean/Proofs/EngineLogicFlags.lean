import SynapModel.Api
import SynapModel.EngineStack
import SynapModel.Generated.EngineLogic
/-!
# The decision logic of `tensor.py`, as read on this run, is the decision logic of the engine model — creation rule, flag setters, grad-mode contexts, dispatch surface (C07)

`SynapModel/Generated/EngineLogic.lean` is rewritten from `/repo/synapgrad/tensor.py` by `harness/engine_logic.py` on every run.
Each generated condition is a Boolean function of *named* atoms; the theorems apply them with named arguments to the
corresponding fields of the model, so both a changed formula and a changed atom break them.  The `*_uses_src` theorems restate
transition functions of the model with the generated conditions in place.  (Split by property so that a changed condition breaks
the obligations of the properties that rest on it and no others.)
-/
set_option linter.unusedSectionVars false
namespace Proofs.EngineLogicTie
open Synap Synap.Engine Synap.Gen.Engine

theorem is_leaf_is_model (n : Node G) :
    n.isLeaf = is_leaf (self_requires_grad := n.reqGrad) (self_grad_fn_is_None := n.back.isNone) := by
  unfold Node.isLeaf is_leaf; cases n.reqGrad <;> cases n.back.isNone <;> rfl

section Api
variable {α : Type} [Zero α]
open Synap.Api

theorem mkTensor_uses_src (st : TState α) (v : NDArray α) (dt : DType) (requiresGrad : Bool) (children : List Nat)
    (back : Option (NDArray α → Option (List (Option (NDArray α))))) :
    mkTensor st v dt requiresGrad children back =
      (let rg := creation_req_grad (requires_grad := requiresGrad) (gradient__ := st.modes.grad)
       if creation_rejects (req_grad := rg) (self_is_floating_point := dt.isFloat) then none else
       let node : Node (NDArray α) :=
         { children := if creation_keeps_children (req_grad := rg) then children else [], reqGrad := rg,
           back := if rg then back else none, retain := false, grad := none, zero := NDArray.zeros v.shape }
       some ({ st with g := st.g ++ [node], vals := st.vals ++ [v], dtypes := st.dtypes ++ [dt] }, st.g.length)) := by
  unfold mkTensor creation_req_grad creation_rejects creation_keeps_children
  rfl

theorem setRequiresGrad_uses_src (st : TState α) (i : Nat) (v : Bool) (n : Node (NDArray α)) (dt : DType)
    (hn : st.g[i]? = some n) (hd : st.dtypes[i]? = some dt) :
    setRequiresGrad st i v =
      if set_requires_grad_rejects_nonleaf (self_is_leaf := n.isLeaf) then none
      else if set_requires_grad_rejects_dtype (value := v) (self_is_floating_point := dt.isFloat) then none
      else some { st with g := st.g.zipIdx.map (fun (m, k) => if k = i then { m with reqGrad := v } else m) } := by
  unfold setRequiresGrad set_requires_grad_rejects_nonleaf set_requires_grad_rejects_dtype
  rw [hn, hd]

theorem retainGrad_uses_src (st : TState α) (i : Nat) (n : Node (NDArray α)) (hn : st.g[i]? = some n) :
    retainGrad st i =
      if retain_grad_rejects (self_requires_grad := n.reqGrad) then none
      else some { st with g := st.g.zipIdx.map (fun (m, k) => if k = i then { m with retain := true } else m) } := by
  unfold retainGrad retain_grad_rejects
  rw [hn]

end Api

theorem ctxNew_uses_src (m : Modes) :
    (ctxNew m .noGrad).prev = (no_grad_init m.grad false).2 ∧ (ctxNew m .retainGrads).prev = (retain_grads_init m.retain false).2 :=
  ⟨rfl, rfl⟩

theorem ctxEnter_uses_src (m : Modes) (c : Ctx) :
    ctxEnter m c = match c.kind with
      | .noGrad => ({ m with grad := (no_grad_enter m.grad c.prev).1 }, { c with prev := (no_grad_enter m.grad c.prev).2 })
      | .retainGrads => ({ m with retain := (retain_grads_enter m.retain c.prev).1 }, { c with prev := (retain_grads_enter m.retain c.prev).2 }) := by
  unfold ctxEnter; cases c.kind <;> rfl

theorem ctxExit_uses_src (m : Modes) (c : Ctx) :
    ctxExit m c = match c.kind with
      | .noGrad => { m with grad := (no_grad_exit m.grad c.prev).1 }
      | .retainGrads => { m with retain := (retain_grads_exit m.retain c.prev).1 } := by
  unfold ctxExit; cases c.kind <;> rfl

def inplaceOperators : List String :=
  ["__iadd__", "__isub__", "__imul__", "__itruediv__", "__ifloordiv__", "__imod__", "__ipow__", "__imatmul__",
   "__iand__", "__ior__", "__ixor__", "__ilshift__", "__irshift__"]

theorem tensor_defines_no_inplace_operator : ∀ m ∈ inplaceOperators, m ∉ tensorMethods := by decide

/-- attribute hooks that would bypass the property setters of the flags -/

theorem tensor_defines_no_attribute_hook :
    "__setattr__" ∉ tensorMethods ∧ "__getattr__" ∉ tensorMethods ∧ "__getattribute__" ∉ tensorMethods ∧ "__new__" ∉ tensorMethods ∧
    tensorBases = [] := by decide

theorem parameter_is_created_by_tensor_init :
    parameterBases = ["Tensor"] ∧ "__init__" ∉ parameterMethods ∧ "__new__" ∉ parameterMethods ∧ "requires_grad" ∉ parameterMethods ∧
    "__setattr__" ∉ parameterMethods ∧ "is_leaf" ∉ parameterMethods ∧ "backward" ∉ parameterMethods := by decide

end Proofs.EngineLogicTie
