import Proofs.PointwiseCalc
import Proofs.VJPBce
import SynapModel.Generated.KernelFormulas
/-!
# The formulas in the source, as translated on this run, are the formulas of the model — and are derivatives of each other

`SynapModel/Generated/KernelFormulas.lean` is rewritten from `/repo/synapgrad/cpu_ops.py` by `harness/formulas.py` on every
run (`Synap.Gen.<kernel>` = the arithmetic of the Python function applied to one element).  This file states, over ℝ:

* **calculus on the source formulas themselves** (`src_*`): each generated `*_backward` is linear in the upstream gradient and
  its factor is the derivative (`HasDerivAt`) of the generated `*_forward` on the op's domain — no model definition occurs in
  these statements, only what the translator read from the source;
* **the tie** (`lift_*`): each hand-written model kernel (`Synap.Kernels.*`, the thing the engine theorems and the
  correspondence run are about) applies exactly the generated formula element by element.

A change of a formula in `cpu_ops.py` changes the generated definition; the theorems below then stop compiling.
-/
namespace Proofs.FormulaTie
open Synap Synap.NDArray Synap.Np Synap.Kernels Proofs.Calc Proofs.NL

/-- a pair of source formulas is a scalar vector-Jacobian product on `dom`: at every point of the domain `fwd` has a derivative
    `d`, and `bwd` multiplies the upstream gradient by `d` -/
def SrcVJP (fwd : ℝ → ℝ) (bwd : ℝ → ℝ → ℝ) (dom : ℝ → Prop) : Prop :=
  ∀ x, dom x → ∃ d, HasDerivAt fwd d x ∧ ∀ g, bwd g x = g * d

theorem epsilon_c_eq : (Gen.epsilon_c : ℝ) = (epsilon : ℝ) := rfl

/-! ### proof automation that does not depend on how the source spells a formula

`formula_eq` unfolds every generated definition, reads `Transc.*` at ℝ, and closes the scalar identity by `ring` — so a source
formula rewritten by commutativity / associativity / distribution, with renamed locals or another spelling of a literal, still
checks; `lift_eq` does the same under `map` / `zipSame` / `bcast2`. -/
theorem tr_exp (x : ℝ) : (Transc.exp x : ℝ) = Real.exp x := rfl
theorem tr_log (x : ℝ) : (Transc.log x : ℝ) = Real.log x := rfl
theorem tr_sqrt (x : ℝ) : (Transc.sqrt x : ℝ) = Real.sqrt x := rfl
theorem tr_tanh (x : ℝ) : (Transc.tanh x : ℝ) = Real.tanh x := rfl
theorem tr_pow (x y : ℝ) : (Transc.pow x y : ℝ) = x ^ y := rfl

macro "unfold_gen" : tactic => `(tactic| simp only [Gen.add_forward, Gen.add_backward, Gen.mul_forward, Gen.mul_backward, Gen.pow_forward,
  Gen.pow_backward, Gen.rpow_forward, Gen.rpow_backward, Gen.neg_forward, Gen.neg_backward, Gen.clone_forward, Gen.clone_backward,
  Gen.exp_forward, Gen.exp_backward, Gen.log_forward, Gen.log_backward, Gen.sqrt_forward, Gen.sqrt_backward, Gen.relu_forward,
  Gen.relu_backward, Gen.leaky_relu_forward, Gen.leaky_relu_backward, Gen.selu_forward, Gen.selu_backward, Gen.tanh_forward,
  Gen.tanh_backward, Gen.sigmoid_forward, Gen.sigmoid_backward, Gen.mse_loss_forward, Gen.mse_loss_backward, Gen.bce_loss_forward,
  Gen.bce_loss_backward, Gen.bce_with_logits_loss_forward, Gen.bce_with_logits_loss_backward,
  tr_exp, tr_log, tr_sqrt, tr_tanh, tr_pow, epsilon_c_eq])
macro "formula_eq" : tactic => `(tactic| first | rfl | (unfold_gen; done) | (unfold_gen; first | rfl | ring | (push_cast; ring)))
macro "unfold_model" : tactic => `(tactic| simp only [negForward, negBackward, expForward, expBackward, logForward, logBackward, sqrtForward,
  sqrtBackward, powForward, powBackward, rpowForward, rpowBackward, addForward, mulForward, reluForward, reluBackward, leakyReluForward,
  leakyReluBackward, seluForward, seluBackward, tanhForward, tanhBackward, sigmoidForward, sigmoidBackward, mseForward, indPos, indNonPos])
macro "lift_eq" : tactic => `(tactic| first | rfl | (unfold_model; (first | rfl |
  (congr 1 <;> (first | rfl | (funext _ _; formula_eq) | (funext _; formula_eq))))))

/-! ## calculus on the source formulas -/

theorem src_add_left (b : ℝ) : SrcVJP (fun a => Gen.add_forward a b) (fun g _ => (Gen.add_backward g).1) (fun _ => True) :=
  fun x _ => ⟨1, by simpa [Gen.add_forward] using (hasDerivAt_id x).add_const b, fun g => by simp [Gen.add_backward]⟩

theorem src_add_right (a : ℝ) : SrcVJP (fun b => Gen.add_forward a b) (fun g _ => (Gen.add_backward g).2) (fun _ => True) :=
  fun x _ => ⟨1, by simpa [Gen.add_forward] using (hasDerivAt_id x).const_add a, fun g => by simp [Gen.add_backward]⟩

theorem src_mul_left (b : ℝ) : SrcVJP (fun a => Gen.mul_forward a b) (fun g a => (Gen.mul_backward g a b).1) (fun _ => True) :=
  fun x _ => ⟨b, by simpa [Gen.mul_forward] using (hasDerivAt_id x).mul_const b, fun g => by formula_eq⟩

theorem src_mul_right (a : ℝ) : SrcVJP (fun b => Gen.mul_forward a b) (fun g b => (Gen.mul_backward g a b).2) (fun _ => True) :=
  fun x _ => ⟨a, by simpa [Gen.mul_forward] using (hasDerivAt_id x).const_mul a, fun g => by formula_eq⟩

theorem src_neg : SrcVJP Gen.neg_forward (fun g _ => Gen.neg_backward g) (fun _ => True) :=
  fun x _ => ⟨-1, by
    show HasDerivAt (fun a : ℝ => -a) (-1) x
    exact (hasDerivAt_id' x).neg, fun g => by simp [Gen.neg_backward]⟩

theorem src_clone : SrcVJP Gen.clone_forward (fun g _ => Gen.clone_backward g) (fun _ => True) :=
  fun x _ => ⟨1, by
    show HasDerivAt (fun a : ℝ => a) 1 x
    exact hasDerivAt_id' x, fun g => by simp [Gen.clone_backward]⟩

/-- `x ** n`, any real exponent, on `x ≠ 0 ∨ 1 ≤ n` -/
theorem src_pow (n : ℝ) : SrcVJP (fun x => Gen.pow_forward x n) (fun g x => Gen.pow_backward g x n) (fun x => x ≠ 0 ∨ 1 ≤ n) :=
  fun x hx => ⟨n * x ^ (n - 1), Real.hasDerivAt_rpow_const hx, fun g => by
    show Gen.pow_backward g x n = g * (n * x ^ (n - 1)); formula_eq⟩

/-- `n ** x`, base `n > 0`; the backward formula reads the forward result -/
theorem src_rpow (n : ℝ) (hn : 0 < n) :
    SrcVJP (fun x => Gen.rpow_forward x n) (fun g x => Gen.rpow_backward g (Gen.rpow_forward x n) n) (fun _ => True) :=
  fun x _ => ⟨n ^ x * Real.log n, ((rpow_vjp n hn).1 x trivial), fun g => by
    show Gen.rpow_backward g (Gen.rpow_forward x n) n = g * (n ^ x * Real.log n); formula_eq⟩

theorem src_exp : SrcVJP Gen.exp_forward (fun g x => Gen.exp_backward g (Gen.exp_forward x)) (fun _ => True) :=
  fun x _ => ⟨Real.exp x, Real.hasDerivAt_exp x, fun g => by show Gen.exp_backward g (Gen.exp_forward x) = g * Real.exp x; formula_eq⟩

/-- `log(x + ε)` as written in the source, wherever `x + ε ≠ 0` -/
theorem src_log : SrcVJP Gen.log_forward Gen.log_backward (fun x => x + (Gen.epsilon_c : ℝ) ≠ 0) :=
  fun x hx => ⟨1 / (x + (epsilon : ℝ)), log_vjp.1 x hx, fun g => by
    show Gen.log_backward g x = g * (1 / (x + (epsilon : ℝ))); formula_eq⟩

theorem src_sqrt : SrcVJP Gen.sqrt_forward (fun g x => Gen.sqrt_backward g (Gen.sqrt_forward x)) (fun x => 0 < x) :=
  fun x hx => ⟨1 / (2 * Real.sqrt x), sqrt_vjp.1 x hx, fun g => by
    show Gen.sqrt_backward g (Gen.sqrt_forward x) = g * (1 / (2 * Real.sqrt x)); formula_eq⟩

theorem src_tanh : SrcVJP Gen.tanh_forward (fun g x => Gen.tanh_backward g (Gen.tanh_forward x)) (fun _ => True) :=
  fun x _ => ⟨1 - Real.tanh x ^ 2, hasDerivAt_tanh x, fun g => by
    show Gen.tanh_backward g (Gen.tanh_forward x) = g * (1 - Real.tanh x ^ 2); formula_eq⟩

theorem src_sigmoid : SrcVJP Gen.sigmoid_forward (fun g x => Gen.sigmoid_backward g (Gen.sigmoid_forward x)) (fun _ => True) :=
  fun x _ => ⟨(1 / (1 + Real.exp (-x))) * (1 - 1 / (1 + Real.exp (-x))), sigmoid_vjp.1 x trivial, fun g => by
    show Gen.sigmoid_backward g (Gen.sigmoid_forward x) = g * ((1 / (1 + Real.exp (-x))) * (1 - 1 / (1 + Real.exp (-x)))); formula_eq⟩

theorem gen_relu_forward (x : ℝ) : Gen.relu_forward x = max 0 x := maxS_zero x

/-- relu away from the kink -/
theorem src_relu : SrcVJP Gen.relu_forward Gen.relu_backward (fun x => x ≠ 0) := fun x hx =>
  ⟨if 0 < x then 1 else 0, by
    have h := relu_vjp.1 x hx
    have e : Gen.relu_forward = fun x : ℝ => max 0 x := funext gen_relu_forward
    rw [e]; exact h, fun _ => rfl⟩

/-- at the kink the source's choice (factor 0) is a subgradient of `max 0 ·` -/
theorem src_relu_kink (g y : ℝ) : Gen.relu_backward g 0 = g * 0 ∧ Gen.relu_forward y ≥ Gen.relu_forward 0 + 0 * (y - 0) := by
  refine ⟨by simp [Gen.relu_backward], ?_⟩
  rw [gen_relu_forward, gen_relu_forward]; simp

/-- leaky relu, any slope, away from the kink -/
theorem src_leaky_relu (s : ℝ) :
    SrcVJP (fun x => Gen.leaky_relu_forward x s) (fun g x => Gen.leaky_relu_backward g x s) (fun x => x ≠ 0) := fun x hx =>
  ⟨if 0 < x then 1 else s, (leaky_relu_vjp s).1 x hx, fun g => by
    by_cases h : 0 < x
    · simp [Gen.leaky_relu_backward, h, not_le.mpr h]
    · simp [Gen.leaky_relu_backward, h, not_lt.mp h]⟩

/-- the source's selu formula for `alpha > 0` is `scale · (x if x > 0 else alpha (eˣ − 1))` -/
theorem gen_selu_forward (x α s : ℝ) (hα : 0 < α) :
    Gen.selu_forward x α s = s * (if 0 < x then x else α * (Real.exp x - 1)) := by
  show s * (maxS 0 x + minS 0 (α * (Real.exp x - 1))) = _
  by_cases h : 0 < x
  · have h1 : 0 < α * (Real.exp x - 1) := mul_pos hα (sub_pos.mpr (Real.one_lt_exp_iff.mpr h))
    simp [maxS, minS, h, not_lt.mpr h1.le]
  · have h1 : α * (Real.exp x - 1) ≤ 0 :=
      mul_nonpos_of_nonneg_of_nonpos hα.le (sub_nonpos.mpr (Real.exp_le_one_iff.mpr (not_lt.mp h)))
    simp only [maxS, minS, if_neg h]
    congr 1
    split_ifs with h2
    · simp
    · have : α * (Real.exp x - 1) = 0 := le_antisymm h1 (not_lt.mp h2)
      simp [this]

theorem gen_selu_backward (g x α s : ℝ) :
    Gen.selu_backward g x α s = g * (s * (if 0 < x then 1 else α * Real.exp x)) := by
  show s * g * ((if 0 < x then (1 : ℝ) else 0) + α * Real.exp (minS x 0) * (if x ≤ 0 then (1 : ℝ) else 0)) = _
  by_cases h : 0 < x
  · simp [h, not_le.mpr h]; ring
  · simp [minS, h, not_lt.mp h]; ring

/-- selu with any `alpha > 0` and any `scale`, away from the kink -/
theorem src_selu (α s : ℝ) (hα : 0 < α) :
    SrcVJP (fun x => Gen.selu_forward x α s) (fun g x => Gen.selu_backward g x α s) (fun x => x ≠ 0) := fun x hx => by
  refine ⟨s * (if 0 < x then 1 else α * Real.exp x), ?_, fun g => gen_selu_backward g x α s⟩
  have e : (fun x => Gen.selu_forward x α s) = fun x => s * (if 0 < x then x else α * (Real.exp x - 1)) :=
    funext fun y => gen_selu_forward y α s hα
  rw [e]
  rcases lt_or_gt_of_ne hx with h | h
  · have : (fun y : ℝ => s * (α * (Real.exp y - 1))) =ᶠ[nhds x]
        fun y => s * (if 0 < y then y else α * (Real.exp y - 1)) := by
      filter_upwards [gt_mem_nhds h] with y hy
      rw [if_neg (not_lt.mpr hy.le)]
    rw [if_neg (not_lt.mpr h.le)]
    have hd := ((((Real.hasDerivAt_exp x).sub_const 1).const_mul α)).const_mul s
    exact hd.congr_of_eventuallyEq this.symm
  · have : (fun y : ℝ => s * y) =ᶠ[nhds x] fun y => s * (if 0 < y then y else α * (Real.exp y - 1)) := by
      filter_upwards [lt_mem_nhds h] with y hy
      rw [if_pos hy]
    rw [if_pos h]
    have hd := (hasDerivAt_id' x).const_mul s
    simpa using hd.congr_of_eventuallyEq this.symm

/-- the constants `nn.functional.selu` passes satisfy the hypothesis of `src_selu` -/
example : 0 < (seluAlpha : ℝ) := seluAlpha_pos

/-- squared error, in the prediction -/
theorem src_mse (t : ℝ) : SrcVJP (fun p => Gen.mse_loss_forward p t) (fun g p => Gen.mse_loss_backward g p t) (fun _ => True) :=
  fun x _ => ⟨2 * (x - t), by
    have h := ((hasDerivAt_id x).sub_const t).mul ((hasDerivAt_id x).sub_const t)
    refine h.congr_deriv ?_
    simp only [id]; ring, fun g => by
    show Gen.mse_loss_backward g x t = g * (2 * (x - t)); formula_eq⟩

/-- binary cross-entropy: the source formulas are the scalars `bceScalar` / `bceFactor` the model theorems are about -/
theorem gen_bce_forward (p t : ℝ) : Gen.bce_loss_forward p t = bceScalar p t := by
  show (if (¬ (-(t * Real.log (p + (epsilon : ℝ)) + (1 - t) * Real.log (1 - p + (epsilon : ℝ))) < -(Real.log (epsilon : ℝ))) ∧
        ¬ (-(Real.log (epsilon : ℝ)) < -(t * Real.log (p + (epsilon : ℝ)) + (1 - t) * Real.log (1 - p + (epsilon : ℝ)))))
      then (((100 : Nat) : ℝ)) else _) = bceScalar p t
  unfold bceScalar
  by_cases h : -(t * Real.log (p + (epsilon : ℝ)) + (1 - t) * Real.log (1 - p + (epsilon : ℝ))) = -(Real.log (epsilon : ℝ))
  · rw [if_pos h, if_pos ⟨by rw [h]; exact lt_irrefl _, by rw [h]; exact lt_irrefl _⟩]; norm_num
  · rw [if_neg h, if_neg (fun hh => h (le_antisymm (not_lt.mp hh.2) (not_lt.mp hh.1)))]
    rfl

theorem gen_bce_backward (g p t : ℝ) : Gen.bce_loss_backward g p t = bceFactor p t * g := rfl

/-- binary cross-entropy off the clamp level and where both logarithms are taken of non-zero numbers -/
theorem src_bce (t : ℝ) : SrcVJP (fun p => Gen.bce_loss_forward p t) (fun g p => Gen.bce_loss_backward g p t)
    (fun p => p + (epsilon : ℝ) ≠ 0 ∧ 1 - p + (epsilon : ℝ) ≠ 0 ∧
      -(t * Real.log (p + (epsilon : ℝ)) + (1 - t) * Real.log (1 - p + (epsilon : ℝ))) ≠ -(Real.log (epsilon : ℝ))) :=
  fun x hx => ⟨bceFactor x t, by
    have e : (fun p => Gen.bce_loss_forward p t) = fun p => bceScalar p t := funext fun p => gen_bce_forward p t
    rw [e]; exact bce_scalar_deriv x t hx.1 hx.2.1 hx.2.2, fun g => by
    show Gen.bce_loss_backward g x t = g * bceFactor x t
    rw [gen_bce_backward]; ring⟩

theorem gen_bce_logits_forward (x y : ℝ) : Gen.bce_with_logits_loss_forward x y = bceLogitsScalar x y := rfl

theorem gen_bce_logits_backward (g x y : ℝ) : Gen.bce_with_logits_loss_backward g x y = g * bceLogitsFactor x y := by
  unfold Gen.bce_with_logits_loss_backward bceLogitsFactor Gen.relu_forward
  simp only [epsilon_c_eq]
  have hnn : ¬ (maxS (0 : ℝ) (-x) < 0) := by
    rw [maxS_zero]; exact not_lt.mpr (le_max_left _ _)
  by_cases h : 0 < maxS (0 : ℝ) (-x)
  · simp [h, hnn]; left; rfl
  · simp [h, hnn]; left; rfl

/-- binary cross-entropy with logits: the source keeps an `ε` in one denominator, so its factor is the derivative up to `ε` -/
theorem src_bce_logits (x y : ℝ) :
    HasDerivAt (fun v => Gen.bce_with_logits_loss_forward v y) ((1 - y) - 1 / (1 + Real.exp x)) x ∧
    ∀ g, |Gen.bce_with_logits_loss_backward g x y - g * ((1 - y) - 1 / (1 + Real.exp x))| ≤ |g| * (epsilon : ℝ) := by
  refine ⟨bce_logits_scalar_deriv x y, fun g => ?_⟩
  rw [gen_bce_logits_backward, ← mul_sub, abs_mul]
  exact mul_le_mul_of_nonneg_left (bce_logits_factor_close x y) (abs_nonneg g)

/-! ## the tie: the model kernels apply the generated formulas element by element -/

theorem lift_neg (a g : NDArray ℝ) : negForward a = a.map Gen.neg_forward ∧ negBackward g = g.map Gen.neg_backward := ⟨by lift_eq, by lift_eq⟩
theorem lift_exp (a g o : NDArray ℝ) : expForward a = a.map Gen.exp_forward ∧ expBackward g o = zipSame Gen.exp_backward g o := ⟨by lift_eq, by lift_eq⟩
theorem lift_log (a g : NDArray ℝ) : logForward a = a.map Gen.log_forward ∧ logBackward g a = zipSame Gen.log_backward g a := ⟨by lift_eq, by lift_eq⟩
theorem lift_sqrt (a g o : NDArray ℝ) : sqrtForward a = a.map Gen.sqrt_forward ∧ sqrtBackward g o = zipSame Gen.sqrt_backward g o := ⟨by lift_eq, by lift_eq⟩
theorem lift_pow (a g : NDArray ℝ) (n : ℝ) :
    powForward a n = a.map (fun x => Gen.pow_forward x n) ∧ powBackward g a n = zipSame (fun gv x => Gen.pow_backward gv x n) g a := ⟨by lift_eq, by lift_eq⟩
theorem lift_rpow (a g o : NDArray ℝ) (n : ℝ) :
    rpowForward a n = a.map (fun x => Gen.rpow_forward x n) ∧ rpowBackward g o n = zipSame (fun gv ov => Gen.rpow_backward gv ov n) g o := ⟨by lift_eq, by lift_eq⟩
theorem lift_add (a b : NDArray ℝ) : addForward a b = bcast2 Gen.add_forward a b := by lift_eq
theorem lift_mul (a b g : NDArray ℝ) : mulForward a b = bcast2 Gen.mul_forward a b ∧
    mulBackward g a b = (do
      let ga ← bcast2 (fun gv bv => (Gen.mul_backward gv 0 bv).1) g b
      let gb ← bcast2 (fun gv av => (Gen.mul_backward gv av 0).2) g a
      pure (unbroadcast ga a.shape, unbroadcast gb b.shape)) := by
  have h1 : (fun gv bv : ℝ => (Gen.mul_backward gv 0 bv).1) = (· * ·) := by funext x y; formula_eq
  have h2 : (fun gv av : ℝ => (Gen.mul_backward gv av 0).2) = (· * ·) := by funext x y; formula_eq
  refine ⟨by lift_eq, ?_⟩
  rw [h1, h2]; rfl
/-- `add_backward` multiplies the upstream gradient by `ones`: the model passes it on unchanged -/
theorem lift_add_backward (g : ℝ) : Gen.add_backward g = (g, g) := by simp [Gen.add_backward]

theorem lift_relu (a g : NDArray ℝ) : reluForward a = a.map Gen.relu_forward ∧ reluBackward g a = zipSame Gen.relu_backward g a := ⟨by lift_eq, by lift_eq⟩
theorem lift_leaky_relu (a g : NDArray ℝ) (s : ℝ) : leakyReluForward a s = a.map (fun x => Gen.leaky_relu_forward x s) ∧
    leakyReluBackward g a s = zipSame (fun gv x => Gen.leaky_relu_backward gv x s) g a := ⟨by lift_eq, by lift_eq⟩
theorem lift_selu (a g : NDArray ℝ) (α s : ℝ) : seluForward a α s = a.map (fun x => Gen.selu_forward x α s) ∧
    seluBackward g a α s = zipSame (fun gv x => Gen.selu_backward gv x α s) g a := ⟨by lift_eq, by lift_eq⟩
theorem lift_tanh (a g o : NDArray ℝ) : tanhForward a = a.map Gen.tanh_forward ∧ tanhBackward g o = zipSame Gen.tanh_backward g o := ⟨by lift_eq, by lift_eq⟩
theorem lift_sigmoid (a g o : NDArray ℝ) : sigmoidForward a = a.map Gen.sigmoid_forward ∧
    sigmoidBackward g o = zipSame Gen.sigmoid_backward g o := ⟨by lift_eq, by lift_eq⟩
theorem lift_mse (p t : NDArray ℝ) :
    mseForward p t = if p.shape = t.shape then some (zipSame Gen.mse_loss_forward p t) else none := rfl

end Proofs.FormulaTie
