import SynapModel.Generated.KernelCalls
/-!
# The array kernels of the source that are compositions of NumPy calls, as translated on this run, are the model kernels

`SynapModel/Generated/KernelCalls.lean` is rewritten from `/repo/synapgrad/cpu_ops.py` by `harness/array_formulas.py` on every
run.  Each theorem: the hand-written model kernel (`Synap.Kernels.*`, which the adjoint theorems of C01 and the forward
theorems of C05 are about) equals the generated composition, for every array, every argument, over any scalar type.
-/
set_option linter.unusedSectionVars false
namespace Proofs.KernelCallsTie
open Synap Synap.NDArray Synap.Np Synap.Kernels

variable {α : Type} [Zero α] [One α] [Add α] [Mul α] [Neg α]

theorem transpose_is_src (a g : NDArray α) (d0 d1 : Int) :
    transposeForward a d0 d1 = Gen.Calls.transpose_forward a d0 d1 ∧ transposeBackward g d0 d1 = Gen.Calls.transpose_backward g d0 d1 := ⟨rfl, rfl⟩
theorem movedim_is_src (a g : NDArray α) (src dst : Int) :
    movedimForward a src dst = Gen.Calls.movedim_forward a src dst ∧ movedimBackward g src dst = Gen.Calls.movedim_backward g src dst := ⟨rfl, rfl⟩
theorem reshape_is_src (a g : NDArray α) (t : List Int) (sa : Shape) :
    reshapeForward a t = Gen.Calls.reshape_forward a t ∧ reshapeBackward g sa = Gen.Calls.reshape_backward g sa := ⟨rfl, rfl⟩
theorem squeeze_backward_is_src (g : NDArray α) (sa : Shape) : squeezeBackward g sa = Gen.Calls.squeeze_backward g sa := rfl
theorem unsqueeze_is_src (a g : NDArray α) (axes : List Int) :
    unsqueezeForward a axes = Gen.Calls.unsqueeze_forward a axes ∧ unsqueezeBackward g axes = Gen.Calls.unsqueeze_backward g axes := ⟨rfl, rfl⟩
theorem matmul_is_src (a b g : NDArray α) :
    matmulForward a b = Gen.Calls.matmul_forward a b ∧ matmulBackward g a b = Gen.Calls.matmul_backward g a b := ⟨rfl, rfl⟩
theorem addmm_forward_is_src (a b c : NDArray α) : addmmForward a b c = Gen.Calls.addmm_forward a b c := by
  unfold addmmForward Gen.Calls.addmm_forward addForward NpCall.add NpCall.matmul
  cases Np.matmul b c <;> simp
theorem sum_forward_is_src (a : NDArray α) (ax : Axes) (keep : Bool) : sumForward a ax keep = Gen.Calls.sum_forward a ax keep := rfl
theorem concat_forward_is_src (xs : List (NDArray α)) (axis : Int) : concatForward xs axis = Gen.Calls.concat_forward xs axis := rfl
theorem stack_is_src (xs : List (NDArray α)) (g : NDArray α) (axis : Int) :
    stackForward xs axis = Gen.Calls.stack_forward xs axis ∧ stackBackward g axis = Gen.Calls.stack_backward g axis := ⟨rfl, rfl⟩
theorem unbind_forward_is_src (a : NDArray α) (axis : Int) : unbindForward a axis = Gen.Calls.unbind_forward a axis := rfl
theorem slice_is_src (a g : NDArray α) (sa : Shape) (sels : List Sel) :
    sliceForward a sels = Gen.Calls.slice_forward a sels ∧ sliceBackward g sa sels = Gen.Calls.slice_backward g sa sels := by
  refine ⟨rfl, ?_⟩
  unfold sliceBackward Gen.Calls.slice_backward NpCall.add_at_zeros
  cases resolveIndex sa sels <;> rfl

end Proofs.KernelCallsTie
