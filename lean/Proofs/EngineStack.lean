import SynapModel.EngineStack
import Proofs.EngineStruct
import Proofs.EngineStackLemmas
/-!
# The explicit-stack traversal of the code equals the recursive traversal of the model
-/
namespace Proofs.EngineStack
open Synap.Engine Proofs.Engine

variable {G : Type}

/-- **The loop of `Tensor.backward` computes the recursive depth-first traversal**: on every graph
    whose operands precede their results, from every root, the explicit-stack machine ends in exactly
    the state of `traverse` — same visited set, same post-order, same gradient buffers, same
    zero-initialisation events in the same order. -/
theorem traverseStack_eq_traverse (ns : Graph G) (hw : WFG ns) (root : Nat) (hr : root < ns.length) :
    traverseStack ns root = traverse ns root := by
  have hch := WFG.ch hw
  have hI : stk_Inv ns ⟨[root], [], ns, []⟩ [⟨root, childrenOf ns root⟩] := by
    refine ⟨Skel.refl _, ?_⟩
    intro fr hfr c hc
    simp only [List.mem_singleton] at hfr
    subst hfr
    have := hch root c hc
    omega
  obtain ⟨node, hnode⟩ : ∃ node, ns[root]? = some node := ⟨ns[root], List.getElem?_eq_getElem hr⟩
  have hchn : childrenOf ns root = node.children := by simp [childrenOf, hnode]
  have hpot : stk_pot ns ⟨[root], [], ns, []⟩ [⟨root, childrenOf ns root⟩] ≤ stackFuel ns := by
    have hp := stk_unv_push ns 0 root [] node (Nat.zero_le _) (by simpa using hnode) (by simp)
    rw [stk_unv_nil_vis] at hp
    simp only [stk_pot, stk_fcost, List.map_cons, List.map_nil, List.sum_cons, List.sum_nil, stackFuel, hchn]
    omega
  unfold traverseStack
  rw [stk_run ns hch (stackFuel ns) _ _ hI hpot, stk_unwind_cons, stk_unwind_nil]
  unfold traverse
  rw [stk_visit_unfold ns hch (ns.length + 1) root ⟨[], [], ns, []⟩ (by omega) (Skel.refl _) (by simp)]
  have hfuel := stk_body_fuel ns hch ns.length (ns.length + 1) (chOf ns root) ⟨[root], [], ns, []⟩
    (fun c hc => by have := hch root c hc; omega) (Skel.refl _)
  rw [stk_childrenOf_eq, hfuel]

/-- `Tensor.backward` with the traversal phase performed by the explicit-stack loop of the code -/
def backwardStack [Add G] (ns : Graph G) (root : Nat) (g : G) (retainAll : Bool) : Option (Graph G × List TrEv) :=
  match ns[root]? with
  | none => none
  | some r => if !r.reqGrad then none else finish (traverseStack ns root) root g retainAll

/-- hence the whole of `backward` is the same whichever traversal is used -/
theorem backwardStack_eq_backward [Add G] (ns : Graph G) (hw : WFG ns) (root : Nat) (g : G) (retainAll : Bool) :
    backwardStack ns root g retainAll = backward ns root g retainAll := by
  unfold backwardStack backward
  cases h : ns[root]? with
  | none => rfl
  | some r =>
    have hr : root < ns.length := by
      rcases Nat.lt_or_ge root ns.length with h' | h'
      · exact h'
      · rw [List.getElem?_eq_none h'] at h; cases h
    simp only [traverseStack_eq_traverse ns hw root hr]

end Proofs.EngineStack
