import SynapModel.Engine
/-!
# Helper material for `Proofs/EngineStruct.lean`, part 1

`setGrad`, the skeleton relation `Skel` (equality of graphs after erasing gradient buffers), the
`encounter` step of the traversal, an unfolding equation for `visit`, preservation of the skeleton
by `visit`, and a generic Hoare-style induction rule for `visit` (`visit_rule`).
-/
namespace Proofs.Engine
open Synap.Engine

variable {G : Type}

/-! ### `setGrad` -/

theorem getElem?_setGrad (ns : Graph G) (i : Nat) (g : Option G) (k : Nat) :
    (setGrad ns i g)[k]? = (ns[k]?).map (fun n => if k = i then { n with grad := g } else n) := by
  unfold setGrad
  rw [List.getElem?_map, List.getElem?_zipIdx]
  cases ns[k]? <;> simp

@[simp] theorem length_setGrad (ns : Graph G) (i : Nat) (g : Option G) :
    (setGrad ns i g).length = ns.length := by
  simp [setGrad]

theorem getElem?_setGrad_ne (ns : Graph G) (i : Nat) (g : Option G) (k : Nat) (h : k ≠ i) :
    (setGrad ns i g)[k]? = ns[k]? := by
  rw [getElem?_setGrad]; cases ns[k]? <;> simp [h]

theorem getElem?_setGrad_self (ns : Graph G) (i : Nat) (g : Option G) :
    (setGrad ns i g)[i]? = (ns[i]?).map (fun n => { n with grad := g }) := by
  rw [getElem?_setGrad]; cases ns[i]? <;> simp

/-! ### skeleton -/

/-- erase the gradient buffer -/
def strip (n : Node G) : Node G := { n with grad := none }

theorem strip_eq_iff (n m : Node G) : strip n = strip m ↔
    n.children = m.children ∧ n.reqGrad = m.reqGrad ∧ n.back = m.back ∧ n.retain = m.retain ∧ n.zero = m.zero := by
  cases n; cases m; simp [strip]

theorem eq_of_strip_of_grad {n m : Node G} (h : strip n = strip m) (hg : n.grad = m.grad) : n = m := by
  cases n; cases m; simp [strip] at h hg ⊢; simp [h, hg]

theorem isLeaf_of_strip {n m : Node G} (h : strip n = strip m) : n.isLeaf = m.isLeaf := by
  rw [strip_eq_iff] at h; simp [Node.isLeaf, h.2.1, h.2.2.1]

theorem strip_setGradField (n : Node G) (g : Option G) : strip { n with grad := g } = strip n := rfl

theorem withGrad_of_strip {n m : Node G} (h : strip n = strip m) (g : Option G) :
    { n with grad := g } = { m with grad := g } := by
  cases n; cases m; simp [strip] at h ⊢; simp [h]

/-- two graphs differ at most in gradient buffers -/
def Skel (a b : Graph G) : Prop := a.map strip = b.map strip

theorem Skel.refl (a : Graph G) : Skel a a := rfl
theorem Skel.symm {a b : Graph G} (h : Skel a b) : Skel b a := Eq.symm h
theorem Skel.trans {a b c : Graph G} (h : Skel a b) (h' : Skel b c) : Skel a c := Eq.trans h h'

theorem Skel.length {a b : Graph G} (h : Skel a b) : a.length = b.length := by
  have := congrArg List.length h; simpa using this

theorem Skel.get {a b : Graph G} (h : Skel a b) {k : Nat} {n : Node G} (hn : a[k]? = some n) :
    ∃ m, b[k]? = some m ∧ strip m = strip n := by
  have := congrArg (fun l => l[k]?) h
  simp only [List.getElem?_map, hn, Option.map_some] at this
  cases hb : b[k]? with
  | none => simp [hb] at this
  | some m => exact ⟨m, rfl, by simpa [hb] using this.symm⟩

theorem Skel.get_none {a b : Graph G} (h : Skel a b) {k : Nat} (hn : a[k]? = none) : b[k]? = none := by
  rw [List.getElem?_eq_none_iff] at hn ⊢; rw [← h.length]; exact hn

theorem skel_setGrad (ns : Graph G) (i : Nat) (g : Option G) : Skel ns (setGrad ns i g) := by
  unfold Skel
  apply List.ext_getElem?
  intro k
  rw [List.getElem?_map, List.getElem?_map, getElem?_setGrad]
  cases ns[k]? with
  | none => rfl
  | some n => by_cases hk : k = i <;> simp [hk, strip]

/-- children of `v` in the graph `ns` -/
def chOf (ns : Graph G) (v : Nat) : List Nat :=
  match ns[v]? with | some n => n.children | none => []

theorem chOf_skel {a b : Graph G} (h : Skel a b) (v : Nat) : chOf a v = chOf b v := by
  unfold chOf
  cases ha : a[v]? with
  | none => rw [h.get_none ha]
  | some n =>
    obtain ⟨m, hm, hs⟩ := h.get ha
    rw [hm]; exact ((strip_eq_iff _ _).mp hs).1.symm

theorem mem_chOf {ns : Graph G} {v c : Nat} : c ∈ chOf ns v ↔ ∃ n, ns[v]? = some n ∧ c ∈ n.children := by
  unfold chOf
  cases ns[v]? <;> simp

/-! ### the traversal: encounter step, unfolding, skeleton -/

/-- the zero-initialisation test of the traversal for child `c` -/
def encCond (s : DfsSt G) (c : Nat) (n : Node G) : Bool :=
  n.reqGrad && (n.grad.isNone || (!n.isLeaf && !s.visited.contains c))

/-- what the traversal does to a child before visiting it -/
def enc (s : DfsSt G) (c : Nat) : DfsSt G :=
  match s.ns[c]? with
  | some n =>
    if encCond s c n
    then { s with ns := setGrad s.ns c (some n.zero), trace := s.trace ++ [TrEv.zero c] }
    else s
  | none => s

theorem visit_zero (v : Nat) (s : DfsSt G) : visit 0 v s = s := rfl

theorem visit_succ (f v : Nat) (s : DfsSt G) :
    visit (f+1) v s =
      if s.visited.contains v then s else
      let t := (chOf s.ns v).foldl (fun s c => visit f c (enc s c)) { s with visited := v :: s.visited }
      { t with ordered := t.ordered ++ [v] } := rfl

theorem enc_cases (s : DfsSt G) (c : Nat) :
    enc s c = s ∨ ∃ n, s.ns[c]? = some n ∧ encCond s c n = true ∧
      enc s c = { s with ns := setGrad s.ns c (some n.zero), trace := s.trace ++ [TrEv.zero c] } := by
  unfold enc
  cases h : s.ns[c]? with
  | none => exact Or.inl rfl
  | some n =>
    by_cases hc : encCond s c n = true
    · exact Or.inr ⟨n, rfl, hc, by simp [hc]⟩
    · exact Or.inl (by simp [hc])

theorem enc_cases' (s : DfsSt G) (c : Nat) :
    (enc s c = s ∧ ∀ n, s.ns[c]? = some n → encCond s c n = false) ∨
    ∃ n, s.ns[c]? = some n ∧ encCond s c n = true ∧
      enc s c = { s with ns := setGrad s.ns c (some n.zero), trace := s.trace ++ [TrEv.zero c] } := by
  unfold enc
  cases h : s.ns[c]? with
  | none => exact Or.inl ⟨rfl, by simp⟩
  | some n =>
    by_cases hc : encCond s c n = true
    · exact Or.inr ⟨n, rfl, hc, by simp [hc]⟩
    · refine Or.inl ⟨by simp [hc], ?_⟩
      intro n' hn'; cases hn'; simpa using hc

@[simp] theorem enc_visited (s : DfsSt G) (c : Nat) : (enc s c).visited = s.visited := by
  rcases enc_cases s c with h | ⟨n, _, _, h⟩ <;> rw [h]

@[simp] theorem enc_ordered (s : DfsSt G) (c : Nat) : (enc s c).ordered = s.ordered := by
  rcases enc_cases s c with h | ⟨n, _, _, h⟩ <;> rw [h]

theorem enc_skel (s : DfsSt G) (c : Nat) : Skel s.ns (enc s c).ns := by
  rcases enc_cases s c with h | ⟨n, _, _, h⟩ <;> rw [h]
  · exact Skel.refl _
  · exact skel_setGrad _ _ _

theorem fold_skel (f : Nat) (IH : ∀ v (s : DfsSt G), Skel s.ns (visit f v s).ns) :
    ∀ (cs : List Nat) (s : DfsSt G), Skel s.ns (cs.foldl (fun s c => visit f c (enc s c)) s).ns := by
  intro cs
  induction cs with
  | nil => intro s; exact Skel.refl _
  | cons c cs ih =>
    intro s
    simp only [List.foldl_cons]
    exact ((enc_skel s c).trans (IH c _)).trans (ih _)

theorem visit_skel : ∀ (f v : Nat) (s : DfsSt G), Skel s.ns (visit f v s).ns := by
  intro f
  induction f with
  | zero => intro v s; exact Skel.refl _
  | succ f ih =>
    intro v s
    rw [visit_succ]
    by_cases hv : s.visited.contains v = true
    · simp only [hv, if_true]; exact Skel.refl _
    · simp only [hv]
      exact fold_skel f ih (chOf s.ns v) { s with visited := v :: s.visited }

/-! ### a generic induction rule for `visit` -/

section Rule
variable (ns0 : Graph G) (hw : ∀ u c, c ∈ chOf ns0 u → c < u)
variable (P : Nat → DfsSt G → Prop) (Q : Nat → DfsSt G → DfsSt G → Prop)
  (J : Nat → DfsSt G → List Nat → DfsSt G → Prop)
variable (hvis : ∀ v s, P v s → v ∈ s.visited → Q v s s)
  (hinit : ∀ v s, Skel ns0 s.ns → P v s → v ∉ s.visited →
    J v s (chOf ns0 v) { s with visited := v :: s.visited })
  (hstep : ∀ v s c cs t, Skel ns0 t.ns → c ∈ chOf ns0 v → J v s (c :: cs) t →
    P c (enc t c) ∧ ∀ t', Skel ns0 t'.ns → Q c (enc t c) t' → J v s cs t')
  (hfin : ∀ v s t, Skel ns0 t.ns → J v s [] t → Q v s { t with ordered := t.ordered ++ [v] })
include hw hvis hinit hstep hfin

omit hw hvis hinit hfin in
theorem fold_rule (f v : Nat) (s : DfsSt G)
    (IH : ∀ c t, c < f → Skel ns0 t.ns → P c t → Q c t (visit f c t)) :
    ∀ (cs : List Nat) (t : DfsSt G), (∀ c ∈ cs, c < f ∧ c ∈ chOf ns0 v) → Skel ns0 t.ns → J v s cs t →
      J v s [] (cs.foldl (fun s c => visit f c (enc s c)) t) ∧
      Skel ns0 (cs.foldl (fun s c => visit f c (enc s c)) t).ns := by
  intro cs
  induction cs with
  | nil => intro t _ hs hj; exact ⟨hj, hs⟩
  | cons c cs ih =>
    intro t hcs hs hj
    simp only [List.foldl_cons]
    have hc := hcs c (by simp)
    obtain ⟨hp, hq⟩ := hstep v s c cs t hs hc.2 hj
    have hs1 : Skel ns0 (enc t c).ns := hs.trans (enc_skel t c)
    have hs2 : Skel ns0 (visit f c (enc t c)).ns := hs1.trans (visit_skel f c _)
    exact ih _ (fun c' h' => hcs c' (by simp [h'])) hs2 (hq _ hs2 (IH c _ hc.1 hs1 hp))

theorem visit_rule : ∀ (f v : Nat) (s : DfsSt G), v < f → Skel ns0 s.ns → P v s → Q v s (visit f v s) := by
  intro f
  induction f with
  | zero => intro v s h; omega
  | succ f ih =>
    intro v s hv hs hp
    rw [visit_succ]
    by_cases hvs : v ∈ s.visited
    · have : s.visited.contains v = true := by simpa using hvs
      simp only [this, if_true]
      exact hvis v s hp hvs
    · have : ¬ (s.visited.contains v = true) := by simpa using hvs
      simp only [this]
      have hch : chOf s.ns v = chOf ns0 v := (chOf_skel hs v).symm
      rw [hch]
      have hj := hinit v s hs hp hvs
      have hcs : ∀ c ∈ chOf ns0 v, c < f ∧ c ∈ chOf ns0 v := fun c hc => ⟨by have := hw v c hc; omega, hc⟩
      obtain ⟨hj', hs'⟩ := fold_rule ns0 P Q J hstep f v s ih (chOf ns0 v)
        { s with visited := v :: s.visited } hcs hs hj
      exact hfin v s _ hs' hj'

end Rule

end Proofs.Engine
