import SynapModel.Data
import SynapModel.Generated.LoaderLogic
/-!
# The index arithmetic of `DataLoader`, as read from `data.py` on this run, is the arithmetic of the model

`SynapModel/Generated/LoaderLogic.lean` is rewritten from `/repo/synapgrad/nn/utils/data.py` by `harness/data_formulas.py` on every run.
The parameters of the generated definitions are named after what the code reads (`len_y`, `batach_size`, `step`), and the theorems
apply them with named arguments, so reading another attribute (`np.size(self.y)`, `len(self.X)`) breaks them just as another formula does.
-/
namespace Proofs.LoaderLogicTie
open Synap.Data Synap.Gen.Loader

/-- Python's saturating slice `seq[lo:hi]` on positions `0 … n-1` -/
def pySlice (n lo hi : Nat) : List Nat := ((List.range n).drop lo).take (hi - lo)

theorem len_is_src (n b : Nat) :
    loaderLen n b = if b = 0 then none else some (loader_len (len_y := n) (batach_size := b)) := rfl

theorem item_is_src (nx ny b idx : Nat) :
    loaderItem nx ny b idx =
      (pySlice nx (loader_x_start (idx := idx) (batach_size := b)) (loader_x_end (idx := idx) (batach_size := b)),
       pySlice ny (loader_y_start (idx := idx) (batach_size := b)) (loader_y_end (idx := idx) (batach_size := b))) := by
  unfold loaderItem pySlice loader_x_start loader_x_end loader_y_start loader_y_end
  simp [Nat.add_sub_cancel_left]

theorem iter_is_src (l : Loader) : l.iter = { l with step := loader_iter_step } := rfl

theorem next_is_src (l : Loader) :
    l.next = (loaderLen l.ny l.b).map (fun len =>
      if loader_has_next (step := l.step) (len_ := len)
      then (some (loaderItem l.nx l.ny l.b (loader_next_index (step := l.step))), { l with step := loader_next_step (step := l.step) })
      else (none, l)) := by
  unfold Loader.next loader_has_next loader_next_index loader_next_step
  cases loaderLen l.ny l.b <;> simp

end Proofs.LoaderLogicTie
