import Proofs.AdjointAll
import Proofs.ConvToolsLemmas
import SynapModel.Kernels.NN
/-!
# Helper lemmas for the adjoint proofs of the nn kernels (C02)

Option/shape bookkeeping of `swapaxes`, and the exchange-of-summation cores behind the
convolution / pooling adjoint identities (stated over arbitrary finite index types so that the
2-d versions are instances of the 1-d ones with pairs as indices).
-/
namespace Proofs.Adjoint
open Synap Synap.NDArray Synap.Np Synap.Kernels Proofs.Core

export Proofs.ConvTools (sum_map_range sum_flatMap_range sum_allIdx_nil sum_allIdx_cons dot_ofFn_right
  getI_cons_zero getI_cons_succ getI_nil)

section Swap
variable {α : Type} [Zero α]

theorem swapaxes_wfE (w wt : NDArray α) (a b : Int) (h : swapaxes w a b = some wt) :
    wt.WF ∧ wt.shape.length = w.shape.length := by
  unfold swapaxes at h
  cases h0 : normAxis w.shape.length a with
  | none => simp [h0] at h
  | some a' =>
    cases h1 : normAxis w.shape.length b with
    | none => simp [h0, h1] at h
    | some b' =>
      simp only [h0, h1, Option.bind_eq_bind, Option.bind_some, Option.pure_def, Option.some.injEq] at h
      subst h
      refine ⟨ofFn_wf _ _, ?_⟩
      show (permute w.shape (swapPerm w.shape.length a' b')).length = _
      rw [length_permute, length_swapPerm]

theorem swapaxes_someE (w wt g : NDArray α) (a b : Int) (h : swapaxes w a b = some wt)
    (hl : g.shape.length = w.shape.length) : ∃ gt, swapaxes g a b = some gt := by
  unfold swapaxes at h ⊢
  rw [hl]
  cases h0 : normAxis w.shape.length a with
  | none => simp [h0] at h
  | some a' =>
    cases h1 : normAxis w.shape.length b with
    | none => simp [h0, h1] at h
    | some b' => exact ⟨transposeP g (swapPerm w.shape.length a' b'), by simp only [h0, h1, Option.bind_eq_bind, Option.bind_some, Option.pure_def]⟩

end Swap

/-! ### exchange of summation -/
section Sums
open Finset
variable {M : Type} [AddCommMonoid M]

theorem sum_rot3E {ι κ μ : Type} (s : Finset ι) (t : Finset κ) (u : Finset μ) (f : ι → κ → μ → M) :
    ∑ a ∈ s, ∑ b ∈ t, ∑ c ∈ u, f a b c = ∑ c ∈ u, ∑ a ∈ s, ∑ b ∈ t, f a b c := by
  rw [Finset.sum_comm (s := u)]
  apply Finset.sum_congr rfl
  intro a _
  rw [Finset.sum_comm]

theorem sum_swap22E {ι κ μ ν : Type} (s : Finset ι) (t : Finset κ) (u : Finset μ) (v : Finset ν)
    (f : ι → κ → μ → ν → M) :
    ∑ a ∈ s, ∑ b ∈ t, ∑ c ∈ u, ∑ d ∈ v, f a b c d = ∑ c ∈ u, ∑ d ∈ v, ∑ a ∈ s, ∑ b ∈ t, f a b c d := by
  rw [sum_rot3E]
  apply Finset.sum_congr rfl
  intro i _
  rw [sum_rot3E]

end Sums

section Cores
open Finset
variable {R : Type} [CommRing R]

/-- convolution, input side: the window read `Σ_q [P t a q] V c q` against the gradient equals the
    input against the scattered gradient -/
theorem conv_core_x {O T C A Q : Type} (sO : Finset O) (sT : Finset T) (sC : Finset C) (sA : Finset A)
    (sQ : Finset Q) (P : T → A → Q → Prop) [∀ t a q, Decidable (P t a q)]
    (W : O → C → A → R) (V : C → Q → R) (G : O → T → R) :
    ∑ o ∈ sO, ∑ t ∈ sT, (∑ c ∈ sC, ∑ a ∈ sA, W o c a * ∑ q ∈ sQ, if P t a q then V c q else 0) * G o t
      = ∑ c ∈ sC, ∑ q ∈ sQ, V c q *
          ∑ o ∈ sO, ∑ t ∈ sT, ∑ a ∈ sA, if P t a q then G o t * W o c a else 0 := by
  simp only [Finset.sum_mul, Finset.mul_sum]
  have e1 : ∀ o t c, ∑ a ∈ sA, ∑ q ∈ sQ, W o c a * (if P t a q then V c q else 0) * G o t
      = ∑ q ∈ sQ, ∑ a ∈ sA, W o c a * (if P t a q then V c q else 0) * G o t :=
    fun o t c => Finset.sum_comm
  simp only [e1]
  rw [sum_swap22E]
  refine Finset.sum_congr rfl (fun c _ => Finset.sum_congr rfl (fun q _ => Finset.sum_congr rfl
    (fun o _ => Finset.sum_congr rfl (fun t _ => Finset.sum_congr rfl (fun a _ => ?_)))))
  split_ifs
  · ring
  · simp

/-- convolution, weight side -/
theorem conv_core_w {N O T C A : Type} (sN : Finset N) (sO : Finset O) (sT : Finset T) (sC : Finset C)
    (sA : Finset A) (V : O → C → A → R) (r : N → C → T → A → R) (G : N → O → T → R) :
    ∑ n ∈ sN, ∑ o ∈ sO, ∑ t ∈ sT, (∑ c ∈ sC, ∑ a ∈ sA, V o c a * r n c t a) * G n o t
      = ∑ o ∈ sO, ∑ c ∈ sC, ∑ a ∈ sA, V o c a * ∑ n ∈ sN, ∑ t ∈ sT, G n o t * r n c t a := by
  simp only [Finset.sum_mul, Finset.mul_sum]
  rw [Finset.sum_comm]
  refine Finset.sum_congr rfl (fun o _ => ?_)
  rw [sum_swap22E]
  refine Finset.sum_congr rfl (fun c _ => Finset.sum_congr rfl (fun a _ => Finset.sum_congr rfl
    (fun n _ => Finset.sum_congr rfl (fun t _ => ?_))))
  ring

/-- average pooling: window mean (factor `κ`) against the gradient -/
theorem pool_core {T A Q : Type} (sT : Finset T) (sA : Finset A) (sQ : Finset Q)
    (P : T → A → Q → Prop) [∀ t a q, Decidable (P t a q)] (V : Q → R) (G : T → R) (κ : R) :
    ∑ t ∈ sT, (∑ a ∈ sA, ∑ q ∈ sQ, if P t a q then V q else 0) * κ * G t
      = ∑ q ∈ sQ, V q * ∑ t ∈ sT, ∑ a ∈ sA, if P t a q then G t * κ else 0 := by
  simp only [Finset.sum_mul, Finset.mul_sum]
  rw [sum_rot3E]
  refine Finset.sum_congr rfl (fun q _ => Finset.sum_congr rfl (fun t _ => Finset.sum_congr rfl
    (fun a _ => ?_)))
  split_ifs
  · ring
  · simp

/-! the same three identities with pairs of indices, written as nested sums -/
theorem conv_core_x2 {O C : Type} (sO : Finset O) (sC : Finset C) (sT1 sT2 sA1 sA2 sQ1 sQ2 : Finset Nat)
    (P1 P2 : Nat → Nat → Nat → Prop) [∀ t a q, Decidable (P1 t a q)] [∀ t a q, Decidable (P2 t a q)]
    (W : O → C → Nat → Nat → R) (V : C → Nat → Nat → R) (G : O → Nat → Nat → R) :
    ∑ o ∈ sO, ∑ t1 ∈ sT1, ∑ t2 ∈ sT2,
        (∑ c ∈ sC, ∑ a1 ∈ sA1, ∑ a2 ∈ sA2, W o c a1 a2 *
          ∑ q1 ∈ sQ1, ∑ q2 ∈ sQ2, if P1 t1 a1 q1 ∧ P2 t2 a2 q2 then V c q1 q2 else 0) * G o t1 t2
      = ∑ c ∈ sC, ∑ q1 ∈ sQ1, ∑ q2 ∈ sQ2, V c q1 q2 *
          ∑ o ∈ sO, ∑ t1 ∈ sT1, ∑ t2 ∈ sT2, ∑ a1 ∈ sA1, ∑ a2 ∈ sA2,
            if P1 t1 a1 q1 ∧ P2 t2 a2 q2 then G o t1 t2 * W o c a1 a2 else 0 := by
  have key := conv_core_x sO (sT1 ×ˢ sT2) sC (sA1 ×ˢ sA2) (sQ1 ×ˢ sQ2)
    (fun t a q => P1 t.1 a.1 q.1 ∧ P2 t.2 a.2 q.2) (fun o c a => W o c a.1 a.2)
    (fun c q => V c q.1 q.2) (fun o t => G o t.1 t.2)
  simp only [Finset.sum_product] at key
  exact key

theorem conv_core_w2 {N O C : Type} (sN : Finset N) (sO : Finset O) (sC : Finset C)
    (sT1 sT2 sA1 sA2 : Finset Nat)
    (V : O → C → Nat → Nat → R) (r : N → C → Nat → Nat → Nat → Nat → R) (G : N → O → Nat → Nat → R) :
    ∑ n ∈ sN, ∑ o ∈ sO, ∑ t1 ∈ sT1, ∑ t2 ∈ sT2,
        (∑ c ∈ sC, ∑ a1 ∈ sA1, ∑ a2 ∈ sA2, V o c a1 a2 * r n c t1 t2 a1 a2) * G n o t1 t2
      = ∑ o ∈ sO, ∑ c ∈ sC, ∑ a1 ∈ sA1, ∑ a2 ∈ sA2, V o c a1 a2 *
          ∑ n ∈ sN, ∑ t1 ∈ sT1, ∑ t2 ∈ sT2, G n o t1 t2 * r n c t1 t2 a1 a2 := by
  have key := conv_core_w sN sO (sT1 ×ˢ sT2) sC (sA1 ×ˢ sA2) (fun o c a => V o c a.1 a.2)
    (fun n c t a => r n c t.1 t.2 a.1 a.2) (fun n o t => G n o t.1 t.2)
  simp only [Finset.sum_product] at key
  exact key

theorem pool_core2 (sT1 sT2 sA1 sA2 sQ1 sQ2 : Finset Nat)
    (P1 P2 : Nat → Nat → Nat → Prop) [∀ t a q, Decidable (P1 t a q)] [∀ t a q, Decidable (P2 t a q)]
    (V : Nat → Nat → R) (G : Nat → Nat → R) (κ : R) :
    ∑ t1 ∈ sT1, ∑ t2 ∈ sT2,
        (∑ a1 ∈ sA1, ∑ a2 ∈ sA2, ∑ q1 ∈ sQ1, ∑ q2 ∈ sQ2,
          if P1 t1 a1 q1 ∧ P2 t2 a2 q2 then V q1 q2 else 0) * κ * G t1 t2
      = ∑ q1 ∈ sQ1, ∑ q2 ∈ sQ2, V q1 q2 *
          ∑ t1 ∈ sT1, ∑ t2 ∈ sT2, ∑ a1 ∈ sA1, ∑ a2 ∈ sA2,
            if P1 t1 a1 q1 ∧ P2 t2 a2 q2 then G t1 t2 * κ else 0 := by
  have key := pool_core (sT1 ×ˢ sT2) (sA1 ×ˢ sA2) (sQ1 ×ˢ sQ2)
    (fun t a q => P1 t.1 a.1 q.1 ∧ P2 t.2 a.2 q.2) (fun q => V q.1 q.2) (fun t => G t.1 t.2) κ
  simp only [Finset.sum_product] at key
  exact key

end Cores

/-! ### window reads as guarded sums -/
section Windows
open Finset
variable {R : Type} [CommRing R]

theorem winPos_ltE {L s p d l a q : Nat} (h : winPos L s p d l a = some q) : q < L := by
  unfold winPos at h
  simp only at h
  split_ifs at h with h1 h2
  simp only [Option.some.injEq] at h
  omega

/-- the zero-padded read of a window position, as a guarded sum over the axis -/
theorem readPad1_winPosE (x : NDArray R) (n c L s p d t a : Nat) :
    readPad1 x 0 n c (winPos L s p d t a)
      = ∑ q ∈ range L, if winPos L s p d t a = some q then x.get [n, c, q] else 0 := by
  cases hp : winPos L s p d t a with
  | none => simp [readPad1]
  | some q0 =>
    have hq := winPos_ltE hp
    simp only [readPad1, Option.some.injEq]
    rw [Finset.sum_ite_eq, if_pos (Finset.mem_range.2 hq)]

theorem readPad2_winPosE (x : NDArray R) (n c H W s1 p1 d1 s2 p2 d2 th a tw b : Nat) :
    readPad2 x 0 n c (winPos H s1 p1 d1 th a) (winPos W s2 p2 d2 tw b)
      = ∑ qh ∈ range H, ∑ qw ∈ range W,
          if winPos H s1 p1 d1 th a = some qh ∧ winPos W s2 p2 d2 tw b = some qw
          then x.get [n, c, qh, qw] else 0 := by
  cases hp : winPos H s1 p1 d1 th a with
  | none => simp [readPad2]
  | some q0 =>
    cases hp2 : winPos W s2 p2 d2 tw b with
    | none => simp [readPad2]
    | some q1 =>
      have hq := winPos_ltE hp
      have hq1 := winPos_ltE hp2
      simp only [readPad2, Option.some.injEq]
      rw [Finset.sum_eq_single q0]
      · rw [Finset.sum_eq_single q1]
        · simp
        · intro b' _ hb
          rw [if_neg (fun e => hb e.2.symm)]
        · intro hb
          exact absurd (Finset.mem_range.2 hq1) hb
      · intro b' _ hb
        exact Finset.sum_eq_zero (fun w _ => if_neg (fun e => hb e.1.symm))
      · intro hb
        exact absurd (Finset.mem_range.2 hq) hb

/-- a guarded double sum with both guards satisfiable at most once -/
theorem sum_pair_iteE (H W : Nat) (oh ow : Option Nat) (hh : ∀ q, oh = some q → q < H)
    (hw : ∀ q, ow = some q → q < W) (F : Nat → Nat → R) :
    (∑ qh ∈ range H, ∑ qw ∈ range W, if oh = some qh ∧ ow = some qw then F qh qw else 0)
      = match (generalizing := false) oh, ow with | some a, some b => F a b | _, _ => 0 := by
  cases oh with
  | none => simp
  | some q0 =>
    cases ow with
    | none => simp
    | some q1 =>
      have hq := hh q0 rfl
      have hq1 := hw q1 rfl
      simp only [Option.some.injEq]
      rw [Finset.sum_eq_single q0]
      · rw [Finset.sum_eq_single q1]
        · simp
        · intro b' _ hb
          rw [if_neg (fun e => hb e.2.symm)]
        · intro hb
          exact absurd (Finset.mem_range.2 hq1) hb
      · intro b' _ hb
        exact Finset.sum_eq_zero (fun w _ => if_neg (fun e => hb e.1.symm))
      · intro hb
        exact absurd (Finset.mem_range.2 hq) hb

/-- the sum of `f` over a 2-d window, `f` vanishing on padding -/
theorem sum_win2_readE (H W : Nat) (k s p d : Nat × Nat) (th tw : Nat) (f : Option (Nat × Nat) → R)
    (hf : f none = 0) :
    ((win2 H W k s p d th tw).map f).sum
      = ∑ a ∈ range k.1, ∑ b ∈ range k.2, ∑ qh ∈ range H, ∑ qw ∈ range W,
          if winPos H s.1 p.1 d.1 th a = some qh ∧ winPos W s.2 p.2 d.2 tw b = some qw
          then f (some (qh, qw)) else 0 := by
  unfold win2
  rw [List.map_flatMap, sum_flatMap_range]
  simp only [List.map_map, sum_map_range, Function.comp_def]
  refine Finset.sum_congr rfl (fun a _ => Finset.sum_congr rfl (fun b _ => ?_))
  rw [sum_pair_iteE H W _ _ (fun q hq => winPos_ltE hq) (fun q hq => winPos_ltE hq)
    (fun qh qw => f (some (qh, qw)))]
  cases winPos H s.1 p.1 d.1 th a <;> cases winPos W s.2 p.2 d.2 tw b <;> simp [hf]

/-- the number of hits of a pixel in a 2-d window, weighted by `c` -/
theorem sum_win2_iteE (H W : Nat) (k s p d : Nat × Nat) (th tw qh qw : Nat) (c : R) :
    ((win2 H W k s p d th tw).map (fun o => if o = some (qh, qw) then c else 0)).sum
      = ∑ a ∈ range k.1, ∑ b ∈ range k.2,
          if winPos H s.1 p.1 d.1 th a = some qh ∧ winPos W s.2 p.2 d.2 tw b = some qw then c else 0 := by
  unfold win2
  rw [List.map_flatMap, sum_flatMap_range]
  simp only [List.map_map, sum_map_range, Function.comp_def]
  refine Finset.sum_congr rfl (fun a _ => Finset.sum_congr rfl (fun b _ => ?_))
  cases winPos H s.1 p.1 d.1 th a <;> cases winPos W s.2 p.2 d.2 tw b <;> simp

theorem readPad1_zerosE (sh : Shape) (n c : Nat) (pos : Option Nat) :
    readPad1 (zeros sh : NDArray R) 0 n c pos = 0 := by
  cases pos <;> simp [readPad1, get_zeros]

theorem get_singletonE (v : NDArray R) (m : Nat) (hs : v.shape = [m]) (o : Nat) :
    v.get [o] = v.data.getD o 0 := by
  simp [NDArray.get, hs, ravel, Shape.size]

end Windows

/-! ### accepted geometries -/
section Geometry
variable {α : Type} [Zero α] [Add α] [Mul α]

theorem conv1d_someE (x w y : NDArray α) (b : Option (NDArray α)) (s p d : Nat)
    (h : conv1dForward x w b s p d = some y) :
    ∃ n c l co k lo, x.shape = [n, c, l] ∧ w.shape = [co, c, k] ∧ convOut l k s p d = some lo ∧
      y.shape = [n, co, lo] ∧ ∀ bv, b = some bv → bv.shape.size = co := by
  unfold conv1dForward at h
  split at h
  · rename_i n c l co ci k hxs hws
    split at h
    · cases h
    · rename_i hci
      split at h
      · cases h
      · rename_i lo hlo
        have hci' : ci = c := by simpa using hci
        subst hci'
        cases b with
        | none =>
          simp only [Bool.false_eq_true, if_false] at h
          injection h with h
          subst h
          exact ⟨n, ci, l, co, k, lo, hxs, hws, hlo, rfl, fun bv hbv => by cases hbv⟩
        | some bv0 =>
          simp only at h
          split at h
          · cases h
          · rename_i hb
            injection h with h
            subst h
            refine ⟨n, ci, l, co, k, lo, hxs, hws, hlo, rfl, ?_⟩
            intro bv hbv
            injection hbv with hbv
            subst hbv
            simpa using hb
  · cases h

theorem conv2d_someE (x w y : NDArray α) (b : Option (NDArray α)) (s p d : Nat × Nat)
    (h : conv2dForward x w b s p d = some y) :
    ∃ n c hh ww co kh kw lh lw, x.shape = [n, c, hh, ww] ∧ w.shape = [co, c, kh, kw] ∧
      convOut hh kh s.1 p.1 d.1 = some lh ∧ convOut ww kw s.2 p.2 d.2 = some lw ∧
      y.shape = [n, co, lh, lw] ∧ ∀ bv, b = some bv → bv.shape.size = co := by
  unfold conv2dForward at h
  split at h
  · rename_i n c hh ww co ci kh kw hxs hws
    split at h
    · cases h
    · rename_i hci
      split at h
      · rename_i lh lw hlh hlw
        have hci' : ci = c := by simpa using hci
        subst hci'
        cases b with
        | none =>
          simp only [Bool.false_eq_true, if_false] at h
          injection h with h
          subst h
          exact ⟨n, ci, hh, ww, co, kh, kw, lh, lw, hxs, hws, hlh, hlw, rfl, fun bv hbv => by cases hbv⟩
        | some bv0 =>
          simp only at h
          split at h
          · cases h
          · rename_i hb
            injection h with h
            subst h
            refine ⟨n, ci, hh, ww, co, kh, kw, lh, lw, hxs, hws, hlh, hlw, rfl, ?_⟩
            intro bv hbv
            injection hbv with hbv
            subst hbv
            simpa using hb
      · cases h
  · cases h

end Geometry

section PoolGeometry
variable {α : Type}

theorem poolGeom1_eqE (x : NDArray α) (k s p d n c l lo : Nat) (hxs : x.shape = [n, c, l])
    (hlo : convOut l k s p d = some lo) : poolGeom1 x k s p d = some (n, c, l, lo) := by
  simp [poolGeom1, hxs, hlo]

theorem poolGeom1_someE (x : NDArray α) (k s p d : Nat) (r : Nat × Nat × Nat × Nat)
    (h : poolGeom1 x k s p d = some r) :
    x.shape = [r.1, r.2.1, r.2.2.1] ∧ convOut r.2.2.1 k s p d = some r.2.2.2 := by
  unfold poolGeom1 at h
  split at h
  · rename_i n c l hxs
    cases hlo : convOut l k s p d with
    | none => simp [hlo] at h
    | some lo =>
      simp only [hlo, Option.map_some, Option.some.injEq] at h
      subst h
      exact ⟨hxs, hlo⟩
  · cases h

theorem poolGeom2_eqE (x : NDArray α) (k s p d : Nat × Nat) (n c hh ww lh lw : Nat)
    (hxs : x.shape = [n, c, hh, ww]) (hlh : convOut hh k.1 s.1 p.1 d.1 = some lh)
    (hlw : convOut ww k.2 s.2 p.2 d.2 = some lw) : poolGeom2 x k s p d = some (n, c, hh, ww, lh, lw) := by
  simp [poolGeom2, hxs, hlh, hlw]

theorem poolGeom2_someE (x : NDArray α) (k s p d : Nat × Nat) (r : Nat × Nat × Nat × Nat × Nat × Nat)
    (h : poolGeom2 x k s p d = some r) :
    x.shape = [r.1, r.2.1, r.2.2.1, r.2.2.2.1] ∧ convOut r.2.2.1 k.1 s.1 p.1 d.1 = some r.2.2.2.2.1 ∧
      convOut r.2.2.2.1 k.2 s.2 p.2 d.2 = some r.2.2.2.2.2 := by
  unfold poolGeom2 at h
  split at h
  · rename_i n c hh ww hxs
    split at h
    · rename_i lh lw hlh hlw
      simp only [Option.some.injEq] at h
      subst h
      exact ⟨hxs, hlh, hlw⟩
    · cases h
  · cases h

end PoolGeometry

end Proofs.Adjoint
