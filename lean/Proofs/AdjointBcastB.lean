import Proofs.AdjointGenB
/-!
# Broadcasting: shape facts, `unbroadcast` as the transpose of the broadcast projection
-/
namespace Proofs.Adjoint
open Synap Synap.NDArray Synap.Np Proofs.Core

/-! ### shapes -/
theorem broadcast_forall₂ (a b s : Shape) (h : broadcastShapes a b = some s) :
    s.length = max a.length b.length ∧
    List.Forall₂ BcOK (List.replicate (s.length - a.length) 1 ++ a) s ∧
    List.Forall₂ BcOK (List.replicate (s.length - b.length) 1 ++ b) s := by
  rw [broadcastShapes_eq] at h
  have ⟨h1, h2⟩ := mapM_bcRule_forall₂ _ _ s (by simp) h
  have hl : s.length = max a.length b.length := by
    have := h1.length_eq
    simp at this
    omega
  rw [hl]
  exact ⟨rfl, h1, h2⟩

theorem mapM_bcRule_absorb_left : ∀ (p s : List Nat), List.Forall₂ BcOK p s →
    (List.zip s p).mapM bcRule = some s
  | [], [], _ => by simp
  | x :: p, z :: s, h => by
    rw [List.forall₂_cons] at h
    rw [List.zip_cons_cons, List.mapM_cons, mapM_bcRule_absorb_left p s h.2]
    have : bcRule (z, x) = some z := by
      simp only [bcRule]
      rcases h.1 with e | e
      · simp [e]
      · subst e
        split_ifs <;> simp_all
    simp [this]
  | [], _ :: _, h => by cases h
  | _ :: _, [], h => by cases h

theorem mapM_bcRule_absorb_right : ∀ (p s : List Nat), List.Forall₂ BcOK p s →
    (List.zip p s).mapM bcRule = some s
  | [], [], _ => by simp
  | x :: p, z :: s, h => by
    rw [List.forall₂_cons] at h
    rw [List.zip_cons_cons, List.mapM_cons, mapM_bcRule_absorb_right p s h.2]
    have : bcRule (x, z) = some z := by
      simp only [bcRule]
      rcases h.1 with e | e
      · simp [e]
      · subst e
        split_ifs <;> simp_all
    simp [this]
  | [], _ :: _, h => by cases h
  | _ :: _, [], h => by cases h

theorem broadcastShapes_absorb_left (p s : Shape) (hl : p.length ≤ s.length)
    (h : List.Forall₂ BcOK (List.replicate (s.length - p.length) 1 ++ p) s) :
    broadcastShapes s p = some s := by
  rw [broadcastShapes_eq]
  have : max s.length p.length = s.length := by omega
  rw [this, Nat.sub_self, List.replicate_zero, List.nil_append]
  exact mapM_bcRule_absorb_left _ _ h

theorem broadcastShapes_absorb_right (p s : Shape) (hl : p.length ≤ s.length)
    (h : List.Forall₂ BcOK (List.replicate (s.length - p.length) 1 ++ p) s) :
    broadcastShapes p s = some s := by
  rw [broadcastShapes_eq]
  have : max p.length s.length = s.length := by omega
  rw [this, Nat.sub_self, List.replicate_zero, List.nil_append]
  exact mapM_bcRule_absorb_right _ _ h

/-- the broadcast shape absorbs either operand shape -/
theorem broadcastShapes_absorb (a b s : Shape) (h : broadcastShapes a b = some s) :
    broadcastShapes s a = some s ∧ broadcastShapes s b = some s ∧
    broadcastShapes a s = some s ∧ broadcastShapes b s = some s := by
  obtain ⟨hl, h1, h2⟩ := broadcast_forall₂ a b s h
  have la : a.length ≤ s.length := by omega
  have lb : b.length ≤ s.length := by omega
  exact ⟨broadcastShapes_absorb_left a s la h1, broadcastShapes_absorb_left b s lb h2,
    broadcastShapes_absorb_right a s la h1, broadcastShapes_absorb_right b s lb h2⟩

theorem zipWith_bc_self : ∀ (s : Shape) (j : Idx), validIdx s j →
    List.zipWith (fun n x => if n = 1 then 0 else x) s j = j
  | [], [], _ => rfl
  | n :: s, x :: j, h => by
    obtain ⟨hx, hj⟩ := h
    rw [List.zipWith_cons_cons, zipWith_bc_self s j hj]
    congr 1
    split_ifs <;> omega
  | [], _ :: _, h => by simp [validIdx] at h
  | _ :: _, [], h => by simp [validIdx] at h

/-- on its own shape the broadcast projection is the identity -/
theorem bcastIdx_self (s : Shape) (j : Idx) (h : validIdx s j) : bcastIdx s j = j := by
  unfold bcastIdx
  rw [validIdx_length s j h, Nat.sub_self, List.drop_zero]
  exact zipWith_bc_self s j h

/-! ### `bcast2` -/
section
variable {α : Type} [Zero α]

theorem bcast2_eq (f : α → α → α) (x y : NDArray α) (s : Shape)
    (hs : broadcastShapes x.shape y.shape = some s) :
    bcast2 f x y = some (ofFn s (fun j => f (x.get (bcastIdx x.shape j)) (y.get (bcastIdx y.shape j)))) := by
  simp [bcast2, hs]

theorem bcast2_some (f : α → α → α) (x y z : NDArray α) (h : bcast2 f x y = some z) :
    broadcastShapes x.shape y.shape = some z.shape := by
  cases hs : broadcastShapes x.shape y.shape with
  | none => simp [bcast2, hs] at h
  | some s =>
    rw [bcast2_eq f x y s hs] at h
    rw [← Option.some.inj h]
    rfl
end

/-! ### `unbroadcast` -/
variable {R : Type} [CommSemiring R]

theorem unbroadcast_wf (g : NDArray R) (s : Shape) : (unbroadcast g s).WF := by
  unfold unbroadcast
  split_ifs
  · exact ofFn_wf _ _
  · exact ofFn_wf _ _

theorem unbroadcast_shape (g : NDArray R) (s : Shape) : (unbroadcast g s).shape = s := by
  unfold unbroadcast
  split_ifs <;> rfl

/-- pairing against an un-broadcast gradient = pairing the broadcast operand against the gradient -/
theorem dot_unbroadcast (sa s' : Shape) (hl : sa.length ≤ s'.length)
    (hvalid : ∀ j, validIdx s' j → validIdx sa (bcastIdx sa j))
    (v ga : NDArray R) (hv : v.shape = sa) (hga : ga.shape = s') :
    dot v (unbroadcast ga sa) = ((allIdx s').map (fun j => v.get (bcastIdx sa j) * ga.get j)).sum := by
  have : unbroadcast ga sa = scatterAdd sa s' (bcastIdx sa) ga := by
    unfold unbroadcast
    rw [if_neg (by rw [hga]; omega), hga]
  rw [this, ← gather_scatter_adjoint sa s' (bcastIdx sa) hvalid v ga hv, gather, dot_ofFn]

/-- forward = broadcast `v` and weight by `c`; backward = weight `g` by `c`, then `unbroadcast` -/
theorem bcast_adj (sa sy : Shape) (c : Idx → R) (hl : sa.length ≤ sy.length)
    (hvalid : ∀ j, validIdx sy j → validIdx sa (bcastIdx sa j))
    (F B : NDArray R → Option (NDArray R))
    (hF : ∀ v : NDArray R, v.WF → v.shape = sa → ∃ y, F v = some y ∧ y.WF ∧ y.shape = sy ∧
      ∀ j, validIdx sy j → y.get j = v.get (bcastIdx sa j) * c j)
    (hB : ∀ g : NDArray R, g.WF → g.shape = sy → ∃ g' : NDArray R, g'.shape = sy ∧
      (∀ j, validIdx sy j → g'.get j = c j * g.get j) ∧ B g = some (unbroadcast g' sa)) :
    IsAdjoint sa sy F B := by
  intro v g hv hvs hg hgs
  obtain ⟨y, hFy, hy, hys, hyg⟩ := hF v hv hvs
  obtain ⟨g', hg's, hg'g, hBg⟩ := hB g hg hgs
  refine ⟨y, _, hFy, hBg, hy, hys, unbroadcast_wf _ _, unbroadcast_shape _ _, ?_⟩
  rw [dot_unbroadcast sa sy hl hvalid v g' hvs hg's, dot_eq_of_get y g _ (fun i hi => hyg i (hys ▸ hi)), hys]
  congr 1
  apply List.map_congr_left
  intro j hj
  rw [hg'g j ((mem_allIdx _ j).1 hj), mul_assoc]

end Proofs.Adjoint
