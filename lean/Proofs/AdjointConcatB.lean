import Proofs.AdjointJoinB
/-!
# `concatenate` / `split`: the "shift along an axis" embedding and its transpose
-/
namespace Proofs.Adjoint
open Synap Synap.NDArray Synap.Np Synap.Kernels Proofs.Core

section ListLemmas
variable {α : Type}

theorem modify_const_getD (f : α → α) (d : α) : ∀ (l : List α) (a : Nat),
    l.modify a (fun _ => f (l.getD a d)) = l.modify a f
  | [], _ => by simp
  | x :: l, 0 => by simp
  | x :: l, a + 1 => by
    have := modify_const_getD f d l a
    simpa using this

theorem prefix_foldl : ∀ (sizes : List Nat) (acc : List Nat × Nat),
    (sizes.foldl (fun (acc : List Nat × Nat) n => (acc.1 ++ [acc.2], acc.2 + n)) acc).1
      = acc.1 ++ (List.range sizes.length).map (fun i => acc.2 + (sizes.take i).sum)
  | [], acc => by simp
  | n :: r, acc => by
    rw [List.foldl_cons, prefix_foldl r, List.length_cons, List.range_succ_eq_map, List.map_cons,
      List.map_map, List.append_assoc]
    congr 1
    simp only [List.take_zero, List.sum_nil, Nat.add_zero, List.singleton_append, List.cons.injEq,
      true_and]
    apply List.map_congr_left
    intro i _
    simp [Nat.add_assoc]

theorem sum_take_add_le (l : List Nat) (k : Nat) (hk : k < l.length) : (l.take k).sum + l[k] ≤ l.sum := by
  have := List.sum_take_add_sum_drop l k
  rw [List.drop_eq_getElem_cons hk, List.sum_cons] at this
  omega

end ListLemmas

/-- the shape bookkeeping of `concatenate`, with the operand shapes in "insert" normal form -/
theorem concat_some {α : Type} [Zero α] (xs : List (NDArray α)) (axis : Int) (y : NDArray α)
    (h : concatenate xs axis = some y) :
    ∃ r0 a0, xs ≠ [] ∧ a0 ≤ r0.length ∧ normAxis (r0.length + 1) axis = some a0 ∧
      (∀ x ∈ xs, x.shape = insertAt r0 a0 (x.shape.getD a0 0)) ∧
      y.shape = insertAt r0 a0 ((xs.map (fun x => x.shape.getD a0 0)).sum) := by
  cases xs with
  | nil => simp [concatenate] at h
  | cons x0 r =>
    cases hn : normAxis x0.shape.length axis with
    | none => simp [concatenate, hn] at h
    | some a0 =>
      have ha0 := normAxis_ltB _ _ _ hn
      have hl0 : (x0.shape.eraseIdx a0).length + 1 = x0.shape.length := by
        rw [List.length_eraseIdx_of_lt ha0]; omega
      simp only [concatenate, List.head?_cons, hn, Option.bind_eq_bind, Option.bind_some,
        Option.pure_def] at h
      split_ifs at h with hall
      · simp at h
      · simp only [Option.some.injEq] at h
        simp only [Bool.not_eq_true', Bool.not_eq_false] at hall
        refine ⟨x0.shape.eraseIdx a0, a0, by simp, by omega, by rw [hl0]; exact hn, ?_, ?_⟩
        · intro x hx
          have := List.all_eq_true.1 hall x hx
          simp only [Bool.and_eq_true, beq_iff_eq, dropAxes_single] at this
          rw [← this.2, insertAt_eraseIdx x.shape a0 0 (by omega)]
        · rw [← h]
          show x0.shape.zipIdx.map _ = _
          have e := zipIdx_map_modify (fun _ => ((x0 :: r).map (fun x => x.shape.getD a0 0)).sum) x0.shape a0
          have e2 := modify_insertAt (fun _ => ((x0 :: r).map (fun x => x.shape.getD a0 0)).sum)
            (x0.shape.eraseIdx a0) a0 (x0.shape.getD a0 0) (by omega)
          rw [insertAt_eraseIdx _ _ _ ha0] at e2
          exact e.trans e2

theorem concat_eq {α : Type} [Zero α] (xs : List (NDArray α)) (axis : Int) (r0 : Shape) (a0 total : Nat)
    (hne : xs ≠ []) (ha0 : a0 ≤ r0.length) (hn : normAxis (r0.length + 1) axis = some a0)
    (hall : ∀ x ∈ xs, x.shape = insertAt r0 a0 (x.shape.getD a0 0))
    (ht : (xs.map (fun x => x.shape.getD a0 0)).sum = total) :
    concatenate xs axis = some (ofFn (insertAt r0 a0 total)
      (fun j => concatenate.find a0 j (getI j a0) xs 0)) := by
  cases xs with
  | nil => exact absurd rfl hne
  | cons x0 r =>
    have h0 := hall x0 (by simp)
    have hl0 : x0.shape.length = r0.length + 1 := by rw [h0, length_insertAt]
    have hcheck : ((x0 :: r).all (fun x => x.shape.length == x0.shape.length &&
        (dropAxes x.shape [a0]) == (dropAxes x0.shape [a0]))) = true := by
      rw [List.all_eq_true]
      intro x hx
      have hx' := hall x hx
      have e1 : x.shape.length = x0.shape.length := by rw [hx', length_insertAt, hl0]
      have e2 : dropAxes x.shape [a0] = dropAxes x0.shape [a0] := by
        rw [hx', h0, dropAxes_single, dropAxes_single, eraseIdx_insertAt _ _ _ ha0,
          eraseIdx_insertAt _ _ _ ha0]
      simp [e1, e2]
    simp only [concatenate, List.head?_cons, hl0, hn, Option.bind_eq_bind, Option.bind_some,
      Option.pure_def]
    rw [hl0] at hcheck
    simp only [hcheck, Bool.not_true, Bool.false_eq_true, if_false, ht]
    congr 2
    have e := zipIdx_map_modify (fun _ => total) x0.shape a0
    rw [h0, modify_insertAt _ _ _ _ ha0] at e
    rw [← e, ← h0]

section Find
variable {α : Type} [Zero α]

theorem find_zeros (a0 : Nat) (j : Idx) (t : Nat) : ∀ (xs : List (NDArray α)) (off : Nat),
    concatenate.find a0 j t (xs.map (fun x => (zeros x.shape : NDArray α))) off = 0
  | [], _ => by simp [concatenate.find]
  | x :: r, off => by
    rw [List.map_cons, concatenate.find, find_zeros a0 j t r, get_zeros]
    simp

/-- reading the concatenation of "zeros except operand `k`" -/
theorem find_set (a0 : Nat) (j : Idx) (t : Nat) (v : NDArray α) : ∀ (xs : List (NDArray α)) (k off : Nat),
    k < xs.length → off ≤ t →
    concatenate.find a0 j t ((xs.map (fun x => (zeros x.shape : NDArray α))).set k v) off =
      if off + ((xs.take k).map (fun x => x.shape.getD a0 0)).sum ≤ t ∧
          t < off + ((xs.take k).map (fun x => x.shape.getD a0 0)).sum + v.shape.getD a0 0 then
        v.get (j.modify a0 (fun _ => t - (off + ((xs.take k).map (fun x => x.shape.getD a0 0)).sum)))
      else 0
  | [], _, _, hk, _ => by simp at hk
  | x :: r, 0, off, _, hoff => by
    rw [List.map_cons, List.set_cons_zero, concatenate.find, find_zeros a0 j t r]
    simp only [List.take_zero, List.map_nil, List.sum_nil, Nat.add_zero]
    have e := zipIdx_map_modify (fun _ => t - off) j a0
    by_cases hlt : t < off + v.shape.getD a0 0
    · rw [if_pos hlt, if_pos ⟨hoff, hlt⟩, ← e]
    · rw [if_neg hlt, if_neg (fun h => hlt h.2)]
  | x :: r, k + 1, off, hk, hoff => by
    rw [List.map_cons, List.set_cons_succ, concatenate.find]
    simp only [List.take_succ_cons, List.map_cons, List.sum_cons]
    have hx : (zeros x.shape : NDArray α).shape = x.shape := rfl
    rw [hx]
    by_cases hlt : t < off + x.shape.getD a0 0
    · rw [if_pos hlt, get_zeros, if_neg]
      omega
    · rw [if_neg hlt, find_set a0 j t v r k (off + x.shape.getD a0 0) (by simpa using hk) (by omega)]
      simp only [Nat.add_assoc]

end Find

theorem concatBackward_get {α : Type} [Zero α] [One α] [Add α] [Mul α] [Neg α]
    (g : NDArray α) (xs : List (NDArray α)) (axis : Int) (r0 : Shape)
    (a0 total : Nat) (hgs : g.shape = insertAt r0 a0 total) (hn : normAxis (r0.length + 1) axis = some a0)
    (k : Nat) (xk : NDArray α) (hk : xs[k]? = some xk) :
    (concatBackward g (xs.map (·.shape)) axis).bind (·[k]?) =
      some (gather xk.shape
        (fun j => j.modify a0 (· + ((xs.take k).map (fun x => x.shape.getD a0 0)).sum)) g) := by
  have hkl : k < xs.length := (List.getElem?_eq_some_iff.1 hk).1
  simp only [concatBackward, hgs, length_insertAt, hn, Option.bind_eq_bind, Option.bind_some,
    Option.pure_def]
  rw [prefix_foldl]
  simp only [List.nil_append, List.getElem?_map]
  have hz : (List.zip (xs.map (·.shape))
      ((List.range ((xs.map (·.shape)).map (fun s => s.getD a0 0)).length).map
        (fun i => 0 + (((xs.map (·.shape)).map (fun s => s.getD a0 0)).take i).sum)))[k]?
      = some (xk.shape, ((xs.take k).map (fun x => x.shape.getD a0 0)).sum) := by
    rw [List.getElem?_zip_eq_some]
    constructor
    · simp [hk]
    · simp only [List.length_map, List.getElem?_map, List.getElem?_range hkl, Option.map_some,
        Nat.zero_add, List.map_map, ← List.map_take]
      rfl
  rw [hz]
  simp only [Option.map_some]
  congr 2
  funext j
  exact zipIdx_map_modify (· + ((xs.take k).map (fun x => x.shape.getD a0 0)).sum) j a0

variable {R : Type} [CommSemiring R]

/-- restricting to the window `[off, off+nk)` along axis `a0` (read `g` at the shifted index) and
    placing a block at offset `off` inside zeros are transposes -/
theorem shift_place_adj (r0 : Shape) (a0 nk total off : Nat) (ha0 : a0 ≤ r0.length) (hoff : off + nk ≤ total)
    (F B : NDArray R → Option (NDArray R))
    (hF : ∀ g : NDArray R, g.WF → g.shape = insertAt r0 a0 total → ∃ b, F g = some b ∧ b.WF ∧
      b.shape = insertAt r0 a0 nk ∧
      ∀ i, validIdx (insertAt r0 a0 nk) i → b.get i = g.get (i.modify a0 (· + off)))
    (hB : ∀ v : NDArray R, v.WF → v.shape = insertAt r0 a0 nk → ∃ y, B v = some y ∧ y.WF ∧
      y.shape = insertAt r0 a0 total ∧
      ∀ j, validIdx (insertAt r0 a0 total) j →
        y.get j = if off ≤ getI j a0 ∧ getI j a0 < off + nk then v.get (j.modify a0 (· - off)) else 0) :
    IsAdjoint (insertAt r0 a0 total) (insertAt r0 a0 nk) F B := by
  apply isAdjoint_of_embed_spec (insertAt r0 a0 total) (insertAt r0 a0 nk)
    (fun i => i.modify a0 (· + off)) (fun j => j.modify a0 (· - off))
    (fun j => off ≤ getI j a0 ∧ getI j a0 < off + nk) ?_ ?_ F B hF hB
  · intro i hi
    obtain ⟨q, t, rfl, hq, ht⟩ := (validIdx_insertAt_iff r0 a0 nk ha0 i).1 hi
    have hql : a0 ≤ q.length := by rw [validIdx_length _ _ hq]; exact ha0
    simp only [modify_insertAt _ _ _ _ hql, getI, getD_insertAt _ _ _ _ hql]
    refine ⟨validIdx_insertAt r0 q a0 total (t + off) hq ha0 (by omega), ⟨by omega, by omega⟩, ?_⟩
    rw [Nat.add_sub_cancel]
  · intro j hj hP
    obtain ⟨q, t, rfl, hq, ht⟩ := (validIdx_insertAt_iff r0 a0 total ha0 j).1 hj
    have hql : a0 ≤ q.length := by rw [validIdx_length _ _ hq]; exact ha0
    simp only [getI, getD_insertAt _ _ _ _ hql] at hP
    simp only [modify_insertAt _ _ _ _ hql]
    refine ⟨validIdx_insertAt r0 q a0 nk (t - off) hq ha0 (by omega), ?_⟩
    rw [Nat.sub_add_cancel hP.1]

end Proofs.Adjoint
