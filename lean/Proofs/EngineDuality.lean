import Proofs.EngineStruct
import Proofs.EngineDualAux
import Mathlib.Algebra.BigOperators.Group.Finset.Basic
import Mathlib.Algebra.BigOperators.Ring.Finset
import Mathlib.Algebra.Group.Hom.Defs
import Mathlib.Algebra.BigOperators.Group.Finset.Lemmas
import Mathlib.Algebra.BigOperators.Group.List.Basic
/-!
# Reverse mode is the transpose of forward mode: the chain rule on an arbitrary DAG

`backward_duality` is the statement that `Synap.Engine.backward` delivers, to every leaf that
requires grad, the derivative of the whole composed function (the sum over all paths): for every
assignment of tangents to the nodes that obeys the forward-mode recursion, the pairing of the
root tangent with the upstream gradient equals the sum over leaves of the pairing of the leaf
tangent with the gradient the leaf received in this call.
-/
namespace Proofs.Engine
open Synap.Engine Finset

variable {G R : Type} [AddCommMonoid G] [AddCommMonoid R]

/-- contribution of node `v`'s `grad_fn` to operand position `k` for incoming gradient `γ`
    (0 when the closure has no `+=` for that operand) -/
def contrib (ns : Graph G) (v k : Nat) (γ : G) : G :=
  match ns[v]? with
  | some n =>
    match n.back with
    | some f => (((f γ).getD []).getD k none).getD 0
    | none => 0
  | none => 0

/-- current gradient buffer of node `v`, read as 0 when absent -/
def gradOf (ns : Graph G) (v : Nat) : G := ((ns[v]?).bind (·.grad)).getD 0

/-- the leaves that require grad among the nodes reachable from `root`, in post-order -/
def leavesOf (ns : Graph G) (root : Nat) : List Nat :=
  (traverse ns root).ordered.filter (fun v =>
    match ns[v]? with | some n => n.isLeaf && n.reqGrad | none => false)

/-! ### Helper layer: buffers read as elements of `G` -/

theorem gradOf_setGrad_ne (ns : Graph G) (i : Nat) (g : Option G) {v : Nat} (h : v ≠ i) :
    gradOf (setGrad ns i g) v = gradOf ns v := by
  simp only [gradOf, getElem?_setGrad, if_neg h]
  cases ns[v]? <;> rfl

theorem gradOf_setGrad_self (ns : Graph G) (i : Nat) (g : Option G) {n : Node G}
    (h : ns[i]? = some n) : gradOf (setGrad ns i g) i = g.getD 0 := by
  simp [gradOf, getElem?_setGrad, h]

theorem gradOf_of_grad {ns : Graph G} {v : Nat} {n : Node G} (h : ns[v]? = some n) :
    gradOf ns v = n.grad.getD 0 := by
  simp [gradOf, h]

/-- requires-grad flag of node `c` in the original graph -/
def reqOf (ns0 : Graph G) (c : Nat) : Bool :=
  match ns0[c]? with | some n => n.reqGrad | none => false

/-- a leaf that requires grad (the filter of `leavesOf`) -/
def isLeafReq (ns0 : Graph G) (v : Nat) : Bool :=
  match ns0[v]? with | some n => n.isLeaf && n.reqGrad | none => false

/-- what `accumulate` adds to the buffer of `w` -/
def accSum (ns0 : Graph G) (w : Nat) : List Nat → List (Option G) → G
  | c :: cs, g :: gs => (if c = w ∧ reqOf ns0 c = true then g.getD 0 else 0) + accSum ns0 w cs gs
  | [], _ => 0
  | _ :: _, [] => 0

theorem accSum_eq_zero (ns0 : Graph G) (w : Nat) : ∀ (cs : List Nat) (gs : List (Option G)),
    w ∉ cs → accSum ns0 w cs gs = 0
  | [], _, _ => by simp [accSum]
  | _ :: _, [], _ => by simp [accSum]
  | c :: cs, g :: gs, h => by
    have h1 : c ≠ w := fun e => h (e ▸ List.mem_cons_self)
    have h2 : w ∉ cs := fun e => h (List.mem_cons_of_mem _ e)
    simp [accSum, h1, accSum_eq_zero ns0 w cs gs h2]

theorem accumulate_spec (ns0 : Graph G) : ∀ (cs : List Nat) (gs : List (Option G)) (ns ns2 : Graph G),
    DSkel ns0 ns → accumulate ns cs gs = some ns2 →
    DSkel ns0 ns2 ∧ ∀ w, gradOf ns2 w = gradOf ns w + accSum ns0 w cs gs
  | [], gs, ns, ns2, hs, h => by
    simp only [accumulate, Option.some.injEq] at h
    subst h; exact ⟨hs, fun w => by simp [accSum]⟩
  | c :: cs, [], ns, ns2, hs, h => by
    simp only [accumulate, Option.some.injEq] at h
    subst h; exact ⟨hs, fun w => by simp [accSum]⟩
  | c :: cs, none :: gs, ns, ns2, hs, h => by
    simp only [accumulate] at h
    obtain ⟨h1, h2⟩ := accumulate_spec ns0 cs gs ns ns2 hs h
    exact ⟨h1, fun w => by rw [h2 w]; simp [accSum]⟩
  | c :: cs, some g :: gs, ns, ns2, hs, h => by
    simp only [accumulate] at h
    cases hc : ns[c]? with
    | none => simp [hc] at h
    | some n =>
      simp only [hc] at h
      obtain ⟨n0, h0, _, e2, _⟩ := hs c n hc
      have hreq : reqOf ns0 c = n.reqGrad := by simp [reqOf, h0, e2]
      by_cases hr : n.reqGrad = true
      · simp only [hr, if_true] at h
        cases hg : n.grad with
        | none => simp [hg] at h
        | some old =>
          simp only [hg] at h
          obtain ⟨h1, h2⟩ := accumulate_spec ns0 cs gs _ ns2 (hs.setGrad c _) h
          refine ⟨h1, fun w => ?_⟩
          rw [h2 w]
          by_cases hw : c = w
          · subst hw
            rw [gradOf_setGrad_self ns c _ hc, gradOf_of_grad hc, hg]
            simp [accSum, hreq, hr, add_assoc]
          · rw [gradOf_setGrad_ne ns c _ (Ne.symm hw)]
            simp [accSum, hw]
      · have hr' : n.reqGrad = false := by simpa using hr
        simp only [hr', Bool.false_eq_true, if_false] at h
        obtain ⟨h1, h2⟩ := accumulate_spec ns0 cs gs ns ns2 hs h
        exact ⟨h1, fun w => by rw [h2 w]; simp [accSum, hreq, hr']⟩

/-- what one step of `sweep` on node `v`, whose gradient is `γ`, adds to the buffer of `w` -/
def delta (ns0 : Graph G) (v : Nat) (γ : G) (w : Nat) : G :=
  match ns0[v]? with
  | some n =>
    match n.back with
    | some f => accSum ns0 w n.children ((f γ).getD [])
    | none => 0
  | none => 0

theorem delta_eq_zero (ns0 : Graph G) (v : Nat) (γ : G) (w : Nat)
    (h : ∀ n0, ns0[v]? = some n0 → w ∉ n0.children) : delta ns0 v γ w = 0 := by
  unfold delta
  split
  · rename_i n hn
    split
    · exact accSum_eq_zero ns0 w _ _ (h n hn)
    · rfl
  · rfl

theorem delta_of_back_none (ns0 : Graph G) (v : Nat) (γ : G) (w : Nat) {n0 : Node G}
    (h : ns0[v]? = some n0) (hb : n0.back = none) : delta ns0 v γ w = 0 := by
  simp [delta, h, hb]

/-- **One step of the sweep**, seen through `gradOf`: the node exists, a node with a `grad_fn`
    holds a gradient, every other buffer (and the node's own when it is not released) grows by
    `delta`, and the rest of the sweep continues from a graph with the same skeleton. -/
theorem sweep_step (ns0 : Graph G) (root : Nat) (ra : Bool) (v : Nat) (rest : List Nat)
    (ns : Graph G) (tr : List TrEv) (res : Graph G × List TrEv) (hs : DSkel ns0 ns)
    (h : sweep root ra (v :: rest) ns tr = some res) :
    ∃ ns3 tr3 n0, sweep root ra rest ns3 tr3 = some res ∧ DSkel ns0 ns3 ∧ ns0[v]? = some n0 ∧
      (∀ w, (w ≠ v ∨ n0.isLeaf = true) →
        gradOf ns3 w = gradOf ns w + delta ns0 v (gradOf ns v) w) := by
  cases hv : ns[v]? with
  | none => simp [sweep, hv] at h
  | some n =>
    obtain ⟨n0, h0, e1, e2, e3, e4, e5⟩ := hs v n hv
    have hleaf : n.isLeaf = n0.isLeaf := Node.isLeaf_congr e2 e3
    -- the release phase, common to all cases
    have tail : ∀ (ns2 : Graph G) (tr2 : List TrEv), DSkel ns0 ns2 →
        (∀ w, gradOf ns2 w = gradOf ns w + delta ns0 v (gradOf ns v) w) →
        (if (v ≠ root && !n.isLeaf && !n.retain && !ra) = true
          then sweep root ra rest (setGrad ns2 v none) (tr2 ++ [TrEv.release v])
          else sweep root ra rest ns2 tr2) = some res →
        ∃ ns3 tr3 n0, sweep root ra rest ns3 tr3 = some res ∧ DSkel ns0 ns3 ∧ ns0[v]? = some n0 ∧
          (∀ w, (w ≠ v ∨ n0.isLeaf = true) →
            gradOf ns3 w = gradOf ns w + delta ns0 v (gradOf ns v) w) := by
      intro ns2 tr2 hs2 hg2 h
      split at h
      · rename_i hrel
        refine ⟨_, _, n0, h, hs2.setGrad v none, h0, ?_⟩
        intro w hw
        rcases hw with hw | hw
        · rw [gradOf_setGrad_ne _ _ _ hw, hg2 w]
        · simp [hleaf, hw] at hrel
      · exact ⟨_, _, n0, h, hs2, h0, fun w _ => hg2 w⟩
    cases hback : n.back with
    | none =>
      simp only [sweep, hv, hback] at h
      exact tail ns tr hs
        (fun w => by rw [delta_of_back_none ns0 v _ w h0 (e3 ▸ hback), add_zero]) h
    | some f =>
      cases hgr : n.grad with
      | none => simp [sweep, hv, hback, hgr] at h
      | some γ =>
        cases hcl : f γ with
        | none => simp [sweep, hv, hback, hgr, hcl] at h
        | some cl =>
          cases hacc : accumulate ns n.children cl with
          | none => simp [sweep, hv, hback, hgr, hcl, hacc] at h
          | some ns2 =>
            simp only [sweep, hv, hback, hgr, hcl, hacc, Option.bind_some, Option.map_some] at h
            obtain ⟨h1, h2⟩ := accumulate_spec ns0 _ _ _ _ hs hacc
            refine tail ns2 _ h1 (fun w => ?_) h
            rw [h2 w, gradOf_of_grad hv, hgr]
            simp [delta, h0, ← e3, hback, hcl, e1]

/-- the rest of a sweep does not touch a node that is neither in the list nor an operand of a node
    in the list -/
theorem sweep_frame (ns0 : Graph G) (root : Nat) (ra : Bool) (x : Nat) :
    ∀ (l : List Nat) (ns : Graph G) (tr : List TrEv) (res : Graph G × List TrEv),
    DSkel ns0 ns → sweep root ra l ns tr = some res → x ∉ l →
    (∀ u ∈ l, ∀ n0, ns0[u]? = some n0 → x ∉ n0.children) → gradOf res.1 x = gradOf ns x
  | [], ns, tr, res, _, h, _, _ => by
    simp only [sweep, Option.some.injEq] at h
    subst h; rfl
  | v :: rest, ns, tr, res, hs, h, hx, hc => by
    obtain ⟨ns3, tr3, n0, h3, hs3, h0, hg⟩ := sweep_step ns0 root ra v rest ns tr res hs h
    have hxv : x ≠ v := fun e => hx (e ▸ List.mem_cons_self)
    rw [sweep_frame ns0 root ra x rest ns3 tr3 res hs3 h3 (fun e => hx (List.mem_cons_of_mem _ e))
      (fun u hu => hc u (List.mem_cons_of_mem _ hu)), hg x (Or.inl hxv),
      delta_eq_zero ns0 v _ x (fun n0 h0 => hc v List.mem_cons_self n0 h0), add_zero]

theorem sum_map_zero {M : Type} [AddCommMonoid M] : ∀ (l : List Nat) (F : Nat → M),
    (∀ w ∈ l, F w = 0) → (l.map F).sum = 0
  | [], _, _ => by simp
  | a :: t, F, h => by
    simp only [List.map_cons, List.sum_cons]
    rw [h a List.mem_cons_self, sum_map_zero t F (fun w hw => h w (List.mem_cons_of_mem _ hw)),
      add_zero]

theorem sum_map_single {M : Type} [AddCommMonoid M] : ∀ (l : List Nat), l.Nodup → ∀ (c : Nat),
    c ∈ l → ∀ (F : Nat → M), (∀ w ∈ l, w ≠ c → F w = 0) → (l.map F).sum = F c
  | [], _, c, hc, _, _ => by simp at hc
  | a :: t, hnd, c, hc, F, h => by
    obtain ⟨hat, hndt⟩ := List.nodup_cons.mp hnd
    simp only [List.map_cons, List.sum_cons]
    by_cases hac : a = c
    · subst hac
      rw [sum_map_zero t F (fun w hw => h w (List.mem_cons_of_mem _ hw)
        (fun e => hat (e ▸ hw))), add_zero]
    · have hct : c ∈ t := by
        rcases List.mem_cons.mp hc with e | e
        · exact absurd e.symm hac
        · exact e
      rw [h a List.mem_cons_self hac, zero_add,
        sum_map_single t hndt c hct F (fun w hw => h w (List.mem_cons_of_mem _ hw))]

theorem pair_accSum (P : G →+ G →+ R) (ns0 : Graph G) (tan : Nat → G) (rest : List Nat)
    (hnd : rest.Nodup) : ∀ (cs : List Nat) (gs : List (Option G)), (∀ c ∈ cs, c ∈ rest) →
    (∀ c ∈ cs, reqOf ns0 c = false → tan c = 0) →
    (rest.map (fun w => P (tan w) (accSum ns0 w cs gs))).sum
      = ((cs.zip gs).map (fun p => P (tan p.1) (p.2.getD 0))).sum
  | [], gs, _, _ => by
    simp only [accSum, map_zero, List.zip_nil_left, List.map_nil, List.sum_nil]
    exact sum_map_zero rest _ (fun _ _ => rfl)
  | c :: cs, [], _, _ => by
    simp only [accSum, map_zero, List.zip_nil_right, List.map_nil, List.sum_nil]
    exact sum_map_zero rest _ (fun _ _ => rfl)
  | c :: cs, g :: gs, h1, h2 => by
    simp only [accSum, map_add, List.zip_cons_cons, List.map_cons, List.sum_cons]
    rw [List.sum_map_add, pair_accSum P ns0 tan rest hnd cs gs
      (fun c' hc' => h1 c' (List.mem_cons_of_mem _ hc'))
      (fun c' hc' => h2 c' (List.mem_cons_of_mem _ hc'))]
    congr 1
    rw [sum_map_single rest hnd c (h1 c List.mem_cons_self) _
      (fun w _ hw => by simp [Ne.symm hw])]
    by_cases hr : reqOf ns0 c = true
    · simp [hr]
    · have := h2 c List.mem_cons_self (by simpa using hr)
      simp [this]

omit [AddCommMonoid G] in
theorem zip_sum_range {M : Type} [AddCommMonoid M] (F : Nat → Option G → M) :
    ∀ (cs : List Nat) (gs : List (Option G)), cs.length = gs.length →
    ((cs.zip gs).map (fun p => F p.1 p.2)).sum
      = ∑ k ∈ range cs.length, F (cs.getD k 0) (gs.getD k none)
  | [], _, _ => by simp
  | c :: cs, [], h => by simp at h
  | c :: cs, g :: gs, h => by
    simp only [List.zip_cons_cons, List.map_cons, List.sum_cons, List.length_cons]
    rw [Finset.sum_range_succ', zip_sum_range F cs gs (by simpa using h), add_comm]
    simp

/-- the contributions of one non-leaf pair with the tangents like its own gradient does -/
theorem pair_delta (P : G →+ G →+ R) (ns0 : Graph G) (hw : WFG ns0) (hb : BacksTotal ns0)
    (J : Nat → Nat → G →+ G)
    (hadj : ∀ v k t γ, P (J v k t) γ = P t (contrib ns0 v k γ))
    (tan : Nat → G)
    (htan0 : ∀ (v : Nat) (n : Node G), ns0[v]? = some n → n.reqGrad = false → tan v = 0)
    (htan : ∀ (v : Nat) (n : Node G), ns0[v]? = some n → n.isLeaf = false →
      tan v = ∑ k ∈ range n.children.length, J v k (tan (n.children.getD k 0)))
    (v : Nat) (n0 : Node G) (h0 : ns0[v]? = some n0) (hl : n0.isLeaf = false) (γ : G)
    (rest : List Nat) (hnd : rest.Nodup) (hc : ∀ c ∈ n0.children, c ∈ rest) :
    (rest.map (fun w => P (tan w) (delta ns0 v γ w))).sum = P (tan v) γ := by
  have hback : ∃ f, n0.back = some f := by
    cases hh : n0.back with
    | none => simp [Node.isLeaf, hh] at hl
    | some f => exact ⟨f, rfl⟩
  obtain ⟨f, hf⟩ := hback
  obtain ⟨cl, hcl, hlen⟩ := hb v n0 f γ h0 hf
  have hd : ∀ w, delta ns0 v γ w = accSum ns0 w n0.children cl := by
    intro w; simp [delta, h0, hf, hcl]
  simp only [hd]
  rw [pair_accSum P ns0 tan rest hnd n0.children cl hc ?_,
    zip_sum_range (fun c g => P (tan c) (g.getD 0)) _ _ hlen.symm, htan v n0 h0 hl]
  · simp only [map_sum, AddMonoidHom.finsetSum_apply]
    apply Finset.sum_congr rfl
    intro k _
    rw [hadj]
    simp [contrib, h0, hf, hcl]
  · intro c hc' hr
    have hlt := hw v n0 h0 c hc'
    have hvlt : v < ns0.length := (List.getElem?_eq_some_iff.mp h0).1
    have hcs : ns0[c]? = some ns0[c] := List.getElem?_eq_getElem (by omega)
    apply htan0 c _ hcs
    simpa [reqOf, hcs] using hr

/-- **The potential argument** on the model's own sweep: over any parents-first list, the pairing
    of tangents with the current buffers equals the pairing over the leaves (that require grad)
    with the final buffers. -/
theorem sweep_pot (P : G →+ G →+ R) (ns0 : Graph G) (hw : WFG ns0) (hb : BacksTotal ns0)
    (hq : BackImpliesReq ns0) (J : Nat → Nat → G →+ G)
    (hadj : ∀ v k t γ, P (J v k t) γ = P t (contrib ns0 v k γ))
    (tan : Nat → G)
    (htan0 : ∀ (v : Nat) (n : Node G), ns0[v]? = some n → n.reqGrad = false → tan v = 0)
    (htan : ∀ (v : Nat) (n : Node G), ns0[v]? = some n → n.isLeaf = false →
      tan v = ∑ k ∈ range n.children.length, J v k (tan (n.children.getD k 0)))
    (root : Nat) (ra : Bool) :
    ∀ (l : List Nat) (ns : Graph G) (tr : List TrEv) (res : Graph G × List TrEv),
    DSkel ns0 ns → TopoL ns0 l → sweep root ra l ns tr = some res →
    (l.map (fun v => P (tan v) (gradOf ns v))).sum
      = ((l.filter (isLeafReq ns0)).map (fun v => P (tan v) (gradOf res.1 v))).sum
  | [], _, _, _, _, _, _ => by simp
  | v :: rest, ns, tr, res, hs, ht, h => by
    obtain ⟨hv, hc, htl⟩ := ht
    obtain ⟨ns3, tr3, n0, h3, hs3, h0, hg⟩ := sweep_step ns0 root ra v rest ns tr res hs h
    have ih := sweep_pot P ns0 hw hb hq J hadj tan htan0 htan root ra rest ns3 tr3 res hs3 htl h3
    have hnd := htl.nodup
    simp only [List.map_cons, List.sum_cons]
    by_cases hl : n0.isLeaf = true
    · have hbn : n0.back = none := by
        cases hh : n0.back with
        | none => rfl
        | some f =>
          have := hq v n0 h0 (by simp [hh])
          simp [Node.isLeaf, this, hh] at hl
      have hsame : ∀ w, gradOf ns3 w = gradOf ns w := fun w => by
        rw [hg w (Or.inr hl), delta_of_back_none ns0 v _ w h0 hbn, add_zero]
      have hfr : gradOf res.1 v = gradOf ns3 v :=
        sweep_frame ns0 root ra v rest ns3 tr3 res hs3 h3 hv (htl.not_child v hv)
      have hrest : rest.map (fun w => P (tan w) (gradOf ns w))
          = rest.map (fun w => P (tan w) (gradOf ns3 w)) := by simp only [hsame]
      rw [hrest, ih]
      by_cases hr : n0.reqGrad = true
      · have hf : isLeafReq ns0 v = true := by simp [isLeafReq, h0, hl, hr]
        rw [List.filter_cons_of_pos hf]
        simp [hfr, hsame]
      · have hr' : n0.reqGrad = false := by simpa using hr
        have hf : isLeafReq ns0 v = false := by simp [isLeafReq, h0, hr']
        rw [List.filter_cons_of_neg (by simp [hf]), htan0 v n0 h0 hr']
        simp
    · have hl' : n0.isLeaf = false := by simpa using hl
      have hf : isLeafReq ns0 v = false := by simp [isLeafReq, h0, hl']
      rw [List.filter_cons_of_neg (by simp [hf]), ← ih]
      have hrest : rest.map (fun w => P (tan w) (gradOf ns3 w))
          = rest.map (fun w => P (tan w) (gradOf ns w)
              + P (tan w) (delta ns0 v (gradOf ns v) w)) := by
        apply List.map_congr_left
        intro w hw'
        have hne : w ≠ v := fun e => hv (e ▸ hw')
        rw [hg w (Or.inl hne), map_add]
      rw [hrest, List.sum_map_add,
        pair_delta P ns0 hw hb J hadj tan htan0 htan v n0 h0 hl' _ rest hnd (hc n0 h0), add_comm]

theorem sum_map_ite_filter {M : Type} [AddCommMonoid M] (p : Nat → Bool) (F : Nat → M) :
    ∀ (l : List Nat), (l.map (fun v => if p v = true then F v else 0)).sum = ((l.filter p).map F).sum
  | [] => by simp
  | a :: t => by
    simp only [List.map_cons, List.sum_cons, sum_map_ite_filter p F t]
    by_cases h : p a = true
    · rw [List.filter_cons_of_pos h]; simp [h]
    · rw [List.filter_cons_of_neg h]; simp [h]

/-- `backward` = checks on the root, then `finish` of the traversal -/
theorem backward_unpack {ns : Graph G} {root : Nat} {g : G} {ra : Bool}
    {res : Graph G × List TrEv} (h : backward ns root g ra = some res) :
    ∃ r, ns[root]? = some r ∧ r.reqGrad = true ∧
      finish (traverse ns root) root g ra = some res := by
  unfold backward at h
  cases hr : ns[root]? with
  | none => simp [hr] at h
  | some r =>
    simp only [hr] at h
    by_cases hg : r.reqGrad = true
    · simp only [hg, Bool.not_true, Bool.false_eq_true, if_false] at h
      exact ⟨r, rfl, hg, h⟩
    · simp [hg] at h

/-- the root assignment of `finish`, seen through `gradOf` -/
theorem finish_init (s : DfsSt G) (root : Nat) (g : G) (ra : Bool) (r' : Node G)
    (hr : s.ns[root]? = some r') :
    finish s root g ra = sweep root ra s.ordered.reverse
      (setGrad s.ns root (some (if r'.isLeaf = true then gradOf s.ns root + g else g))) s.trace := by
  unfold finish
  simp only [hr]
  cases hl : r'.isLeaf with
  | false => simp
  | true =>
    cases hg : r'.grad with
    | none => simp [gradOf, hr, hg]
    | some old => simp [gradOf, hr, hg]

/-- what the traversal leaves in the buffers, read through `gradOf`: leaves keep their value, the
    non-leaves below the root are zero -/
theorem traverse_gradOf (ns : Graph G) (hw : WFG ns)
    (hz : ∀ (v : Nat) (n : Node G), ns[v]? = some n → n.zero = 0)
    (root : Nat) (hr : root < ns.length) (v : Nat) (n : Node G) (hn : ns[v]? = some n) :
    (n.isLeaf = true → gradOf (traverse ns root).ns v = gradOf ns v) ∧
    (n.isLeaf = false → v ≠ root → Reach ns root v → gradOf (traverse ns root).ns v = 0) := by
  obtain ⟨hsk, hgr⟩ := traverse_grads ns hw root hr
  obtain ⟨n', hn', -⟩ := hsk.2 v n hn
  obtain ⟨h1, h2⟩ := hgr v n n' hn hn'
  have hz' := hz v n hn
  constructor
  · intro hl
    rw [gradOf_of_grad hn', gradOf_of_grad hn]
    by_cases hc : ChildOfReach ns root v ∧ n.reqGrad = true
    · rw [h1 hc, if_pos hl, hz']; rfl
    · rw [h2 hc]
  · intro hl hne hre
    have hreq : n.reqGrad = true := by
      cases hh : n.reqGrad with
      | true => rfl
      | false => simp [Node.isLeaf, hh] at hl
    have hc : ChildOfReach ns root v := by
      rcases hre.eq_or_child with e | e
      · exact absurd e.symm hne
      · exact e
    rw [gradOf_of_grad hn', h1 ⟨hc, hreq⟩, hl, hz']; rfl

omit [AddCommMonoid G] in
theorem leavesOf_eq (ns : Graph G) (root : Nat) :
    leavesOf ns root = (traverse ns root).ordered.filter (isLeafReq ns) := rfl

omit [AddCommMonoid G] in
/-- the reversed post-order lists parents first -/
theorem topoL_reverse_ordered (ns : Graph G) (hw : WFG ns) (root : Nat) (hr : root < ns.length) :
    TopoL ns (traverse ns root).ordered.reverse := by
  have hord := traverse_order ns hw root hr
  simp only at hord
  obtain ⟨hnd, -, hbef, -⟩ := hord
  exact TopoL.of_afterIn _ (List.nodup_reverse.mpr hnd)
    (fun u hu n0 h0 c hc =>
      AfterIn.of_beforeIn_reverse (hbef u (List.mem_reverse.mp hu) n0 h0 c hc))

/-- **Chain rule on any DAG.**  `P` is a bi-additive pairing, `J v k` the forward tangent map of
    node `v` in operand position `k`, adjoint to the backward contribution.  Any fan-out, fan-in,
    repeated operands, mixed requires-grad operands, multi-output ops (several nodes sharing an
    operand). -/
theorem backward_duality (P : G →+ G →+ R) (ns : Graph G) (hw : WFG ns)
    (hb : BacksTotal ns) (hq : BackImpliesReq ns)
    (hz : ∀ (v : Nat) (n : Node G), ns[v]? = some n → n.zero = 0)
    (J : Nat → Nat → G →+ G)
    (hadj : ∀ v k t γ, P (J v k t) γ = P t (contrib ns v k γ))
    (tan : Nat → G)
    (htan0 : ∀ (v : Nat) (n : Node G), ns[v]? = some n → n.reqGrad = false → tan v = 0)
    (htan : ∀ (v : Nat) (n : Node G), ns[v]? = some n → n.isLeaf = false →
      tan v = ∑ k ∈ range n.children.length, J v k (tan (n.children.getD k 0)))
    (root : Nat) (g : G) (retainAll : Bool) (ns' : Graph G) (tr : List TrEv)
    (h : backward ns root g retainAll = some (ns', tr)) :
    ((leavesOf ns root).map (fun l => P (tan l) (gradOf ns' l))).sum
      = ((leavesOf ns root).map (fun l => P (tan l) (gradOf ns l))).sum + P (tan root) g := by
  obtain ⟨r, hroot, hrg, hfin⟩ := backward_unpack h
  have hrl : root < ns.length := (List.getElem?_eq_some_iff.mp hroot).1
  have hord := traverse_order ns hw root hrl
  simp only at hord
  obtain ⟨hnd, hrin, -, hreach⟩ := hord
  obtain ⟨hsk, hgr⟩ := traverse_grads ns hw root hrl
  obtain ⟨r', hr', -, er2, er3, -, -⟩ := hsk.2 root r hroot
  have hrleaf : r'.isLeaf = r.isLeaf := Node.isLeaf_congr er2 er3
  rw [finish_init _ root g retainAll r' hr', hrleaf] at hfin
  have hskel : DSkel ns (traverse ns root).ns := DSkel.of_sameSkeleton hsk
  have hpot := sweep_pot P ns hw hb hq J hadj tan htan0 htan root retainAll _ _ _ _
    (hskel.setGrad root _) (topoL_reverse_ordered ns hw root hrl) hfin
  rw [leavesOf_eq]
  rw [List.filter_reverse, List.map_reverse, List.map_reverse, List.sum_reverse,
    List.sum_reverse] at hpot
  rw [← hpot]
  -- the potential at the start of the sweep
  have hpt : ∀ v ∈ (traverse ns root).ordered,
      P (tan v) (gradOf (setGrad (traverse ns root).ns root
        (some (if r.isLeaf = true then gradOf (traverse ns root).ns root + g else g))) v)
      = (if isLeafReq ns v = true then P (tan v) (gradOf ns v) else 0)
        + (if v = root then P (tan root) g else 0) := by
    intro v hv
    have hre : Reach ns root v := (hreach v).mp hv
    have hvl : v < ns.length := Nat.lt_of_le_of_lt (hre.le hw) hrl
    have hn : ns[v]? = some ns[v] := List.getElem?_eq_getElem hvl
    obtain ⟨hleafg, hnonleafg⟩ := traverse_gradOf ns hw hz root hrl v ns[v] hn
    by_cases hvr : v = root
    · subst hvr
      rw [hroot] at hn
      have hrn : r = ns[v] := Option.some.inj hn
      rw [gradOf_setGrad_self _ _ _ hr']
      cases hl : r.isLeaf with
      | true =>
        have hf : isLeafReq ns v = true := by simp [isLeafReq, hroot, hl, hrg]
        rw [hleafg (hrn ▸ hl)]
        simp [hf]
      | false =>
        have hf : isLeafReq ns v = false := by simp [isLeafReq, hroot, hl]
        simp [hf]
    · rw [gradOf_setGrad_ne _ _ _ hvr, if_neg hvr, add_zero]
      cases hl : (ns[v]).isLeaf with
      | true =>
        rw [hleafg hl]
        cases hq' : (ns[v]).reqGrad with
        | true =>
          have hf : isLeafReq ns v = true := by simp [isLeafReq, hn, hl, hq']
          simp [hf]
        | false =>
          have hf : isLeafReq ns v = false := by simp [isLeafReq, hn, hq']
          rw [htan0 v _ hn hq']
          simp [hf]
      | false =>
        have hf : isLeafReq ns v = false := by simp [isLeafReq, hn, hl]
        rw [hnonleafg hl hvr hre]
        simp [hf]
  rw [List.map_congr_left hpt, List.sum_map_add, sum_map_ite_filter,
    sum_map_single _ hnd root hrin _ (fun w _ hw' => if_neg hw'), if_pos rfl]

set_option linter.unusedVariables false in
/-- **Accumulation across calls** (corollary, with subtraction-free phrasing): what a call adds to
    the leaves pairs with the tangents exactly like the root gradient does, independently of what
    the leaves held before — so gradients of successive calls add up. -/
theorem backward_leaf_increment_independent (P : G →+ G →+ R) (a b : Graph G) (hw : WFG a)
    (hab : AgreeUpToNonLeafGrads a b) (root : Nat) (g : G) (retainAll : Bool)
    (a' b' : Graph G) (ta tb : List TrEv)
    (ha : backward a root g retainAll = some (a', ta)) (hb' : backward b root g retainAll = some (b', tb))
    (l : Nat) (hl : l ∈ leavesOf a root) : gradOf a' l = gradOf b' l := by
  obtain ⟨r, hroot, -, -⟩ := backward_unpack ha
  have hrl : root < a.length := (List.getElem?_eq_some_iff.mp hroot).1
  have hord := traverse_order a hw root hrl
  simp only at hord
  obtain ⟨-, -, -, hreach⟩ := hord
  rw [leavesOf_eq] at hl
  have hre : Reach a root l := (hreach l).mp (List.mem_filter.mp hl).1
  have hll : l < a.length := Nat.lt_of_le_of_lt (hre.le hw) hrl
  have hwb : WFG b := WFG.congr_skel (DSkel.of_sameSkeleton hab.1) hw
  obtain ⟨n, hn, -⟩ := (backward_frame a hw root g retainAll a' ta ha).1.2 l a[l]
    (List.getElem?_eq_getElem hll)
  have hlb : l < b.length := by rw [hab.1.1]; exact hll
  obtain ⟨m, hm, -⟩ := (backward_frame b hwb root g retainAll b' tb hb').1.2 l b[l]
    (List.getElem?_eq_getElem hlb)
  have hmn := ((no_leftover_leak a b hw hab root g retainAll).2 a' ta b' tb ha hb').2 l n m hn hm
    (Or.inl hre)
  rw [gradOf_of_grad hn, gradOf_of_grad hm, hmn]

/-- two graphs with the same skeleton (their gradient buffers may differ anywhere) -/
def SameSkel (a b : Graph G) : Prop := SameSkeleton a b

/-- **Two sweeps in lockstep** over the same parents-first list, on two graphs with the skeleton
    of `a0` whose not-yet-processed non-leaves hold the same gradients: every leaf is shifted by
    the same amount in both (phrased without subtraction, relative to reference values `ga`, `gb`). -/
theorem sweep_rel (a0 : Graph G) (hq : BackImpliesReq a0) (root : Nat) (ra : Bool) (ga gb : Nat → G) :
    ∀ (l : List Nat) (A B : Graph G) (trA trB : List TrEv) (resA resB : Graph G × List TrEv),
    DSkel a0 A → DSkel a0 B → TopoL a0 l →
    sweep root ra l A trA = some resA → sweep root ra l B trB = some resB →
    (∀ w ∈ l, ∀ n0, a0[w]? = some n0 → n0.isLeaf = false → gradOf A w = gradOf B w) →
    (∀ w n0, a0[w]? = some n0 → n0.isLeaf = true → gradOf A w + gb w = gradOf B w + ga w) →
    (∀ w n0, a0[w]? = some n0 → n0.isLeaf = true →
      gradOf resA.1 w + gb w = gradOf resB.1 w + ga w)
  | [], A, B, trA, trB, resA, resB, _, _, _, hA, hB, _, h2 => by
    simp only [sweep, Option.some.injEq] at hA hB
    subst hA; subst hB; exact h2
  | v :: rest, A, B, trA, trB, resA, resB, hsA, hsB, ht, hA, hB, h1, h2 => by
    obtain ⟨hv, -, htl⟩ := ht
    obtain ⟨A3, trA3, n0, hA3, hsA3, h0, hgA⟩ := sweep_step a0 root ra v rest A trA resA hsA hA
    obtain ⟨B3, trB3, n0', hB3, hsB3, h0', hgB⟩ := sweep_step a0 root ra v rest B trB resB hsB hB
    have hnn : n0' = n0 := Option.some.inj (h0'.symm.trans h0)
    subst hnn
    refine sweep_rel a0 hq root ra ga gb rest A3 B3 trA3 trB3 resA resB hsA3 hsB3 htl hA3 hB3 ?_ ?_
    · intro w hw m0 hm0 hml
      have hne : w ≠ v := fun e => hv (e ▸ hw)
      rw [hgA w (Or.inl hne), hgB w (Or.inl hne), h1 w (List.mem_cons_of_mem _ hw) m0 hm0 hml]
      cases hl : n0'.isLeaf with
      | false => rw [h1 v List.mem_cons_self n0' h0 hl]
      | true =>
        have hbn : n0'.back = none := by
          cases hh : n0'.back with
          | none => rfl
          | some f =>
            have := hq v n0' h0 (by simp [hh])
            simp [Node.isLeaf, this, hh] at hl
        rw [delta_of_back_none a0 v _ w h0 hbn, delta_of_back_none a0 v _ w h0 hbn]
    · intro w m0 hm0 hml
      cases hl : n0'.isLeaf with
      | false =>
        have hne : w ≠ v := by
          rintro rfl
          rw [hm0] at h0
          rw [Option.some.inj h0] at hml
          simp [hl] at hml
        rw [hgA w (Or.inl hne), hgB w (Or.inl hne), h1 v List.mem_cons_self n0' h0 hl,
          add_right_comm, h2 w m0 hm0 hml, add_right_comm]
      | true =>
        have hbn : n0'.back = none := by
          cases hh : n0'.back with
          | none => rfl
          | some f =>
            have := hq v n0' h0 (by simp [hh])
            simp [Node.isLeaf, this, hh] at hl
        rw [hgA w (Or.inr hl), hgB w (Or.inr hl), delta_of_back_none a0 v _ w h0 hbn,
          delta_of_back_none a0 v _ w h0 hbn, add_zero, add_zero]
        exact h2 w m0 hm0 hml

/- `backward_leaf_shift` needs `BackImpliesReq a` (a node with a `grad_fn` requires grad — an
   invariant of tensor creation).  Without it the statement is false: take `G = ℕ` and the nodes
     0 : L = {children := [],     reqGrad := true,  back := none,                           grad := some 0}
     1 : X = {children := [0],    reqGrad := false, back := some (fun γ => some [some γ]),  grad := some x}
     2 : R = {children := [1, 0], reqGrad := true,  back := some (fun γ => some [none, some γ]), grad := none}
   (all `zero := 0`, `retain := false`), `a` with `x = 5`, `b` with `x = 7`, `root = 2`, `g = 1`.
   `X` does not require grad, so it counts as a leaf and keeps its stale buffer, but it still has a
   `grad_fn`, which the sweep calls on that buffer: `backward` leaves `6` on node 0 in `a'` and `8`
   in `b'` (checked by evaluating the model), while `gradOf a 0 = gradOf b 0 = 0`, so `6 + 0 ≠ 8 + 0`
   although `WFG a`, `SameSkeleton a b`, `hz` and `L.isLeaf` all hold. -/

/-- **Leaf gradients accumulate**: the amount a backward call adds to a leaf does not depend on
    what any buffer held before the call.  Subtraction-free form: running the same call on two
    graphs that differ only in their buffers shifts every leaf by the same amount. -/
theorem backward_leaf_shift (a b : Graph G) (hw : WFG a) (hab : SameSkeleton a b)
    (hq : BackImpliesReq a)
    (hz : ∀ (v : Nat) (n : Node G), a[v]? = some n → n.zero = 0)
    (root : Nat) (g : G) (retainAll : Bool)
    (a' b' : Graph G) (ta tb : List TrEv)
    (ha : backward a root g retainAll = some (a', ta)) (hb' : backward b root g retainAll = some (b', tb))
    (l : Nat) (n : Node G) (hn : a[l]? = some n) (hleaf : n.isLeaf = true) :
    gradOf a' l + gradOf b l = gradOf b' l + gradOf a l := by
  obtain ⟨ra, hroota, -, hfina⟩ := backward_unpack ha
  obtain ⟨rb, hrootb, -, hfinb⟩ := backward_unpack hb'
  have hrla : root < a.length := (List.getElem?_eq_some_iff.mp hroota).1
  have hrlb : root < b.length := (List.getElem?_eq_some_iff.mp hrootb).1
  have hskab : DSkel a b := DSkel.of_sameSkeleton hab
  have hskba : DSkel b a := DSkel.of_sameSkeleton (SameSkeleton.symm' hab)
  have hwb : WFG b := WFG.congr_skel hskab hw
  have hzb : ∀ (v : Nat) (m : Node G), b[v]? = some m → m.zero = 0 := by
    intro v m hm
    obtain ⟨m0, hm0, -, -, -, -, e5⟩ := hskab v m hm
    rw [e5]; exact hz v m0 hm0
  have hord := traverse_order a hw root hrla
  simp only at hord
  obtain ⟨-, -, -, hreach⟩ := hord
  obtain ⟨hska, -⟩ := traverse_grads a hw root hrla
  obtain ⟨hskb, -⟩ := traverse_grads b hwb root hrlb
  obtain ⟨ra', hra', -, ea2, ea3, -, -⟩ := hska.2 root ra hroota
  obtain ⟨rb', hrb', -, eb2, eb3, -, -⟩ := hskb.2 root rb hrootb
  obtain ⟨rb0, hrb0, -, f2, f3, -, -⟩ := hskab root rb hrootb
  have hrr : rb0 = ra := Option.some.inj (hrb0.symm.trans hroota)
  subst hrr
  have hleafa : ra'.isLeaf = rb0.isLeaf := Node.isLeaf_congr ea2 ea3
  have hleafb : rb'.isLeaf = rb0.isLeaf :=
    (Node.isLeaf_congr eb2 eb3).trans (Node.isLeaf_congr f2 f3)
  rw [finish_init _ root g retainAll ra' hra', hleafa] at hfina
  rw [finish_init _ root g retainAll rb' hrb', hleafb, ← traverse_ordered_congr hab root] at hfinb
  have hSA : DSkel a (traverse a root).ns := DSkel.of_sameSkeleton hska
  have hSB : DSkel a (traverse b root).ns := hskab.trans (DSkel.of_sameSkeleton hskb)
  -- buffers after the traversal
  have hta := traverse_gradOf a hw hz root hrla
  have htb := traverse_gradOf b hwb hzb root hrlb
  have key := sweep_rel a hq root retainAll (gradOf a) (gradOf b) _ _ _ _ _ _ _
    (hSA.setGrad root _) (hSB.setGrad root _) (topoL_reverse_ordered a hw root hrla) hfina hfinb
    ?_ ?_ l n hn hleaf
  · exact key
  · -- non-leaves of the list hold the same gradient in both graphs
    intro w hw' n0 h0 hl0
    have hre : Reach a root w := (hreach w).mp (List.mem_reverse.mp hw')
    by_cases hwr : w = root
    · subst hwr
      rw [hroota] at h0
      have : rb0 = n0 := Option.some.inj h0
      subst this
      rw [gradOf_setGrad_self _ _ _ hra', gradOf_setGrad_self _ _ _ hrb']
      simp [hl0]
    · rw [gradOf_setGrad_ne _ _ _ hwr, gradOf_setGrad_ne _ _ _ hwr]
      obtain ⟨m, hm, -, e2, e3, -, -⟩ := hab.2 w n0 h0
      have hlm : m.isLeaf = false := (Node.isLeaf_congr e2 e3).trans hl0
      rw [(hta w n0 h0).2 hl0 hwr hre, (htb w m hm).2 hlm hwr (Reach.congr_skel hskba hre)]
  · -- leaves are shifted by the same amount (only the root, by `g`)
    intro w n0 h0 hl0
    obtain ⟨m, hm, -, e2, e3, -, -⟩ := hab.2 w n0 h0
    have hlm : m.isLeaf = true := (Node.isLeaf_congr e2 e3).trans hl0
    have hA := (hta w n0 h0).1 hl0
    have hB := (htb w m hm).1 hlm
    by_cases hwr : w = root
    · subst hwr
      rw [hroota] at h0
      have : rb0 = n0 := Option.some.inj h0
      subst this
      rw [gradOf_setGrad_self _ _ _ hra', gradOf_setGrad_self _ _ _ hrb']
      simp only [hl0, if_true, hA, hB, Option.getD_some]
      rw [add_right_comm, add_comm (gradOf a w) (gradOf b w), add_right_comm]
    · rw [gradOf_setGrad_ne _ _ _ hwr, gradOf_setGrad_ne _ _ _ hwr, hA, hB, add_comm]

end Proofs.Engine
