import Proofs.Core
/-!
# `map` / `zipSame` on well-formed arrays, read through `get`

Reusable facts: a pointwise kernel written with `NDArray.map` / `NDArray.zipSame` keeps the shape,
keeps well-formedness, and reading it at a valid index gives the scalar function applied to the
operands' entries.
-/
namespace Proofs.Calc
open Synap Synap.NDArray Proofs.Core

variable {α β γ : Type}

theorem map_shape (f : α → β) (x : NDArray α) : (x.map f).shape = x.shape := rfl

theorem map_wf (f : α → β) (x : NDArray α) (hx : x.WF) : (x.map f).WF := by
  simpa [WF, NDArray.map] using hx

theorem zipSame_shape (f : α → β → γ) (x : NDArray α) (y : NDArray β) :
    (zipSame f x y).shape = x.shape := rfl

theorem zipSame_wf (f : α → β → γ) (x : NDArray α) (y : NDArray β) (hx : x.WF) (hy : y.WF)
    (hs : x.shape = y.shape) : (zipSame f x y).WF := by
  simp only [WF] at hx hy
  simp [WF, zipSame, hx, hy, hs]

/-- reading a mapped well-formed array at a valid index -/
theorem get_map [Zero α] [Zero β] (f : α → β) (x : NDArray α) (hx : x.WF) (i : Idx)
    (hi : validIdx x.shape i) : (x.map f).get i = f (x.get i) := by
  have hlt : ravel x.shape i < x.data.length := by
    rw [hx]; exact ravel_lt _ _ hi
  simp [NDArray.get, NDArray.map, List.getD_eq_getElem?_getD, hlt]

/-- reading a pointwise combination of two well-formed arrays of the same shape at a valid index -/
theorem get_zipSame [Zero α] [Zero β] [Zero γ] (f : α → β → γ) (x : NDArray α) (y : NDArray β)
    (hx : x.WF) (hy : y.WF) (hs : x.shape = y.shape) (i : Idx) (hi : validIdx x.shape i) :
    (zipSame f x y).get i = f (x.get i) (y.get i) := by
  have hlx : ravel x.shape i < x.data.length := by
    rw [hx]; exact ravel_lt _ _ hi
  have hly : ravel x.shape i < y.data.length := by
    rw [hy, ← hs]; exact ravel_lt _ _ hi
  simp [NDArray.get, zipSame, List.getD_eq_getElem?_getD, ← hs, hlx, hly]

end Proofs.Calc
