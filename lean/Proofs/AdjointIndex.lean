import Proofs.AdjointGeneral
import Mathlib.Data.List.GetD
import Mathlib.Tactic.Ring
/-!
# Index maps of `unfold_dim` and of basic/advanced indexing send valid indices to valid indices
-/
namespace Proofs.Adjoint
open Synap Synap.NDArray Synap.Np Synap.Kernels Proofs.Core

/-! ### unfold_dim -/

theorem getD_map_zipIdx (l : List Nat) (f : Nat × Nat → Nat) (i : Nat) (hi : i < l.length) :
    (l.zipIdx.map f).getD i 0 = f (l.getD i 0, i) := by
  simp [List.getD_eq_getElem?_getD, hi]

theorem unfoldDimCheck_spec {s : Shape} {dimension size step : Int} {d sz st cnt : Nat}
    (h : unfoldDimCheck s dimension size step = some (d, sz, st, cnt)) :
    d < s.length ∧ 0 < st ∧ sz ≤ s.getD d 0 ∧ cnt = (s.getD d 0 - sz) / st + 1 := by
  unfold unfoldDimCheck at h
  cases h0 : normAxis s.length dimension with
  | none => simp [h0] at h
  | some d' =>
    simp only [h0, Option.bind_eq_bind, Option.bind_some, Option.pure_def] at h
    split_ifs at h with h1 h2 h2
    · simp at h
    · simp at h
    · simp at h
    · simp only [Option.some.injEq, Prod.mk.injEq] at h
      obtain ⟨rfl, rfl, rfl, rfl⟩ := h
      simp only [Bool.or_eq_true, decide_eq_true_eq, not_or, not_le] at h1
      refine ⟨normAxis_lt h0, by omega, by omega, rfl⟩

theorem unfoldDimMap_valid (s : Shape) (d sz st cnt : Nat)
    (hsz : sz ≤ s.getD d 0) (hcnt : cnt = (s.getD d 0 - sz) / st + 1) (j : Idx)
    (hj : validIdx ((s.zipIdx.map (fun (n, k) => if k = d then cnt else n)) ++ [sz]) j) :
    validIdx s (unfoldDimMap d st j) := by
  rw [validIdx_append_singleton] at hj
  obtain ⟨body, k, rfl, hv, hk⟩ := hj
  rw [validIdx_iff_getD] at hv ⊢
  obtain ⟨hl, hv⟩ := hv
  simp only [List.length_map, List.length_zipIdx] at hl hv
  unfold unfoldDimMap
  simp only [List.dropLast_concat, List.getLastD_concat]
  refine ⟨by simp [hl], fun i hi => ?_⟩
  have hb := hv i hi
  rw [getD_map_zipIdx _ _ i hi] at hb
  rw [getD_map_zipIdx _ _ i (hl ▸ hi)]
  simp only at hb ⊢
  by_cases hid : i = d
  · subst hid
    simp only [if_true] at hb ⊢
    have h1 : body.getD i 0 ≤ (s.getD i 0 - sz) / st := by omega
    have h2 := Nat.mul_le_mul_right st h1
    have h3 := Nat.div_mul_le_self (s.getD i 0 - sz) st
    omega
  · simp only [hid, if_false] at hb ⊢
    exact hb

/-! ### Python's `slice.indices` stays inside the axis -/

def clampI (v lo hi : Int) : Int := if v < lo then lo else if v > hi then hi else v

theorem clampI_bounds {v lo hi : Int} (h : lo ≤ hi) : lo ≤ clampI v lo hi ∧ clampI v lo hi ≤ hi := by
  unfold clampI; split_ifs <;> omega

def sStartP (n : Int) : Option Int → Int
  | none => 0
  | some v => clampI (if v < 0 then v + n else v) 0 n
def sStopP (n : Int) : Option Int → Int
  | none => n
  | some v => clampI (if v < 0 then v + n else v) 0 n
def sStartN (n : Int) : Option Int → Int
  | none => n - 1
  | some v => clampI (if v < 0 then v + n else v) (-1) (n - 1)
def sStopN (n : Int) : Option Int → Int
  | none => -1
  | some v => clampI (if v < 0 then v + n else v) (-1) (n - 1)

theorem sliceIndices_eq (n : Nat) (start stop : Option Int) (step : Int) :
    sliceIndices n start stop step =
      if step = 0 then none else
      if step > 0 then
        some (sStartP n start, if sStopP n stop > sStartP n start then
          ((sStopP n stop - sStartP n start + step - 1) / step).toNat else 0)
      else
        some (sStartN n start, if sStartN n start > sStopN n stop then
          ((sStartN n start - sStopN n stop + (-step) - 1) / (-step)).toNat else 0) := by
  cases start <;> cases stop <;> rfl

theorem slice_pos_core (n ST SP step : Int) (cnt j : Nat) (hstep : 0 < step) (h0 : 0 ≤ ST) (hSP : SP ≤ n)
    (hc : cnt = if SP > ST then ((SP - ST + step - 1) / step).toNat else 0) (hj : j < cnt) :
    0 ≤ ST + step * j ∧ ST + step * j < n := by
  split_ifs at hc with h1
  · have hq : (j : Int) + 1 ≤ (SP - ST + step - 1) / step := by omega
    have h2 := Int.ediv_mul_le (SP - ST + step - 1) (show step ≠ 0 by omega)
    have h3 := Int.mul_le_mul_of_nonneg_right hq (show 0 ≤ step by omega)
    have h4 : ((j : Int) + 1) * step = step * j + step := by ring
    have h5 : 0 ≤ step * (j : Int) := Int.mul_nonneg (by omega) (by omega)
    rw [h4] at h3
    constructor <;> omega
  · omega

theorem slice_neg_core (n ST SP step : Int) (cnt j : Nat) (hstep : step < 0) (hST : ST ≤ n - 1) (hSP : -1 ≤ SP)
    (hc : cnt = if ST > SP then ((ST - SP + (-step) - 1) / (-step)).toNat else 0) (hj : j < cnt) :
    0 ≤ ST + step * j ∧ ST + step * j < n := by
  split_ifs at hc with h1
  · have hq : (j : Int) + 1 ≤ (ST - SP + (-step) - 1) / (-step) := by omega
    have h2 := Int.ediv_mul_le (ST - SP + (-step) - 1) (show -step ≠ 0 by omega)
    have h3 := Int.mul_le_mul_of_nonneg_right hq (show 0 ≤ -step by omega)
    have h4 : ((j : Int) + 1) * (-step) = -(step * j) - step := by ring
    have h5 : 0 ≤ (-step) * (j : Int) := Int.mul_nonneg (by omega) (by omega)
    have h6 : (-step) * (j : Int) = -(step * j) := by ring
    rw [h4] at h3
    rw [h6] at h5
    constructor <;> omega
  · omega

theorem sliceIndices_spec {n : Nat} {start stop : Option Int} {step s0 : Int} {cnt : Nat}
    (h : sliceIndices n start stop step = some (s0, cnt)) (j : Nat) (hj : j < cnt) :
    0 ≤ s0 + step * j ∧ s0 + step * j < n := by
  rw [sliceIndices_eq] at h
  by_cases h0 : step = 0
  · rw [if_pos h0] at h; simp at h
  by_cases hpos : step > 0
  · rw [if_neg h0, if_pos hpos] at h
    simp only [Option.some.injEq, Prod.mk.injEq] at h
    obtain ⟨rfl, hc⟩ := h
    refine slice_pos_core n _ (sStopP n stop) step cnt j hpos ?_ ?_ hc.symm hj
    · cases start with
      | none => simp [sStartP]
      | some v => exact (clampI_bounds (by omega)).1
    · cases stop with
      | none => simp [sStopP]
      | some v => exact (clampI_bounds (by omega)).2
  · rw [if_neg h0, if_neg hpos] at h
    simp only [Option.some.injEq, Prod.mk.injEq] at h
    obtain ⟨rfl, hc⟩ := h
    refine slice_neg_core n _ (sStopN n stop) step cnt j (by omega) ?_ ?_ hc.symm hj
    · cases start with
      | none => simp [sStartN]
      | some v => exact (clampI_bounds (by omega)).2
    · cases stop with
      | none => simp [sStopN]
      | some v => exact (clampI_bounds (by omega)).1

/-! ### resolved selectors against a shape -/

/-- the resolved selectors consume exactly the axes of the shape, each within its axis -/
inductive RMatch : List RSel → Shape → Prop
  | nil : RMatch [] []
  | fixed {k n : Nat} {rs : List RSel} {sh : Shape} : k < n → RMatch rs sh →
      RMatch (RSel.fixed k :: rs) (n :: sh)
  | range {s0 st : Int} {c n : Nat} {rs : List RSel} {sh : Shape} :
      (∀ j : Nat, j < c → 0 ≤ s0 + st * j ∧ s0 + st * j < n) → RMatch rs sh →
      RMatch (RSel.range s0 c st :: rs) (n :: sh)
  | new {rs : List RSel} {sh : Shape} : RMatch rs sh → RMatch (RSel.new :: rs) sh
  | pick {ks : List Nat} {n : Nat} {rs : List RSel} {sh : Shape} : (∀ k ∈ ks, k < n) → RMatch rs sh →
      RMatch (RSel.pick ks :: rs) (n :: sh)

/-- `indexMap` as a structural recursion -/
def imap : List RSel → Idx → Idx
  | [], _ => []
  | RSel.fixed k :: rs, j => k :: imap rs j
  | RSel.range s0 _ st :: rs, j => (s0 + st * (j.headD 0 : Nat)).toNat :: imap rs (j.drop 1)
  | RSel.new :: rs, j => imap rs (j.drop 1)
  | RSel.pick ks :: rs, j => ks.getD (j.headD 0) 0 :: imap rs (j.drop 1)

def istep (acc : Idx × Idx) (r : RSel) : Idx × Idx :=
  match r with
  | .fixed k => (acc.1 ++ [k], acc.2)
  | .range s0 _ st => (acc.1 ++ [(s0 + st * (acc.2.headD 0 : Nat)).toNat], acc.2.drop 1)
  | .new => (acc.1, acc.2.drop 1)
  | .pick ks => (acc.1 ++ [ks.getD (acc.2.headD 0) 0], acc.2.drop 1)

theorem indexMap_def (rs : List RSel) (j : Idx) : indexMap rs j = (rs.foldl istep ([], j)).1 := rfl

theorem foldl_istep (rs : List RSel) : ∀ (acc j : Idx), (rs.foldl istep (acc, j)).1 = acc ++ imap rs j := by
  induction rs with
  | nil => intro acc j; simp [imap]
  | cons r rs ih =>
    intro acc j
    rw [List.foldl_cons]
    cases r <;> simp [istep, imap, ih]

theorem indexMap_eq (rs : List RSel) (j : Idx) : indexMap rs j = imap rs j := by
  rw [indexMap_def, foldl_istep]; rfl

theorem indexShape_cons (r : RSel) (rs : List RSel) :
    indexShape (r :: rs) = match r with
      | .fixed _ => indexShape rs
      | .range _ c _ => c :: indexShape rs
      | .new => 1 :: indexShape rs
      | .pick ks => ks.length :: indexShape rs := by
  cases r <;> simp [indexShape]

theorem imap_valid {rs : List RSel} {s : Shape} (h : RMatch rs s) :
    ∀ j, validIdx (indexShape rs) j → validIdx s (imap rs j) := by
  induction h with
  | nil =>
    intro j hj
    simp [imap, validIdx]
  | fixed hk _ ih =>
    intro j hj
    rw [indexShape_cons] at hj
    exact ⟨hk, ih j hj⟩
  | @range s0 st c n rs sh hr _ ih =>
    intro j hj
    rw [indexShape_cons] at hj
    cases j with
    | nil => simp [validIdx] at hj
    | cons x j =>
      obtain ⟨hx, hj⟩ := hj
      have := hr x hx
      refine ⟨?_, ih j hj⟩
      simp only [List.headD_cons]
      omega
  | new _ ih =>
    intro j hj
    rw [indexShape_cons] at hj
    cases j with
    | nil => simp [validIdx] at hj
    | cons x j => exact ih j hj.2
  | @pick ks n rs sh hks _ ih =>
    intro j hj
    rw [indexShape_cons] at hj
    cases j with
    | nil => simp [validIdx] at hj
    | cons x j =>
      obtain ⟨hx, hj⟩ := hj
      refine ⟨?_, ih j hj⟩
      simp only [List.headD_cons]
      rw [List.getD_eq_getElem _ _ hx]
      exact hks _ (List.getElem_mem hx)

/-- number of selectors that consume an input axis -/
def ncons (l : List Sel) : Nat := (l.filter (fun x => x != Sel.ellipsis && x != Sel.newaxis)).length

theorem ncons_cons (x : Sel) (l : List Sel) :
    ncons (x :: l) = (if (x != Sel.ellipsis && x != Sel.newaxis) = true then 1 else 0) + ncons l := by
  unfold ncons
  rw [List.filter_cons]
  split_ifs <;> simp
  omega

theorem go_match : ∀ (sels : List Sel) (sh : Shape) (rs : List RSel),
    resolveIndex.go sels sh = some rs → ncons sels = sh.length → RMatch rs sh
  | [], sh, rs, h, hn => by
    rw [resolveIndex.go.eq_1] at h
    simp only [Option.some.injEq] at h
    subst h
    have : sh = [] := by
      cases sh with
      | nil => rfl
      | cons _ _ => simp [ncons] at hn
    subst this
    exact .nil
  | Sel.newaxis :: r, sh, rs, h, hn => by
    rw [resolveIndex.go.eq_2] at h
    cases h0 : resolveIndex.go r sh with
    | none => simp [h0] at h
    | some rs' =>
      simp only [h0, Option.map_some, Option.some.injEq] at h
      subst h
      rw [ncons_cons] at hn
      exact .new (go_match r sh rs' h0 (by simpa using hn))
  | Sel.ellipsis :: r, sh, rs, h, hn => by
    simp [resolveIndex.go] at h
  | Sel.int k :: r, [], rs, h, hn => by
    simp [resolveIndex.go] at h
  | Sel.slice a b st :: r, [], rs, h, hn => by
    simp [resolveIndex.go] at h
  | Sel.list ks :: r, [], rs, h, hn => by
    simp [resolveIndex.go] at h
  | Sel.int k :: r, n :: sh, rs, h, hn => by
    rw [resolveIndex.go.eq_3] at h
    cases hk : normAxis n k with
    | none => simp [hk] at h
    | some k' =>
      cases h0 : resolveIndex.go r sh with
      | none => simp [hk, h0] at h
      | some rs' =>
        simp only [hk, h0, Option.bind_eq_bind, Option.bind_some, Option.map_some, Option.some.injEq] at h
        subst h
        rw [ncons_cons] at hn
        exact .fixed (normAxis_lt hk) (go_match r sh rs' h0 (by simp at hn; omega))
  | Sel.slice a b st :: r, n :: sh, rs, h, hn => by
    rw [resolveIndex.go.eq_4] at h
    cases hk : sliceIndices n a b st with
    | none => simp [hk] at h
    | some p =>
      obtain ⟨s0, cnt⟩ := p
      cases h0 : resolveIndex.go r sh with
      | none => simp [hk, h0] at h
      | some rs' =>
        simp only [hk, h0, Option.bind_eq_bind, Option.bind_some, Option.map_some, Option.some.injEq] at h
        subst h
        rw [ncons_cons] at hn
        exact .range (fun j hj => sliceIndices_spec hk j hj) (go_match r sh rs' h0 (by simp at hn; omega))
  | Sel.list ks :: r, n :: sh, rs, h, hn => by
    rw [resolveIndex.go.eq_5] at h
    cases hk : ks.mapM (normAxis n) with
    | none => simp [hk] at h
    | some ks' =>
      cases h0 : resolveIndex.go r sh with
      | none => simp [hk, h0] at h
      | some rs' =>
        simp only [hk, h0, Option.bind_eq_bind, Option.bind_some, Option.map_some, Option.some.injEq] at h
        subst h
        rw [ncons_cons] at hn
        refine .pick ?_ (go_match r sh rs' h0 (by simp at hn; omega))
        intro k' hk'
        obtain ⟨_, _, hx⟩ := forall₂_mem_right (mapM_some_forall₂ _ _ _ hk) k' hk'
        exact normAxis_lt hx

theorem ncons_append (l1 l2 : List Sel) : ncons (l1 ++ l2) = ncons l1 + ncons l2 := by
  simp [ncons, List.filter_append]

theorem ncons_replicate_slice (k : Nat) : ncons (List.replicate k (Sel.slice none none 1)) = k := by
  induction k with
  | zero => rfl
  | succ k ih =>
    rw [List.replicate_succ, ncons_cons, ih]
    have : (Sel.slice none none 1 != Sel.ellipsis && Sel.slice none none 1 != Sel.newaxis) = true := by decide
    rw [if_pos this]; omega

theorem ncons_flatMap (fill : Nat) (sels : List Sel) :
    ncons (sels.flatMap (fun x =>
      if (x == Sel.ellipsis) = true then List.replicate fill (Sel.slice none none 1) else [x])) =
      (sels.filter (fun x => x == Sel.ellipsis)).length * fill + ncons sels := by
  induction sels with
  | nil => simp [ncons]
  | cons x l ih =>
    rw [List.flatMap_cons, ncons_append, ih, ncons_cons, List.filter_cons]
    by_cases hx : (x == Sel.ellipsis) = true
    · have hx' : x = Sel.ellipsis := by simpa using hx
      subst hx'
      simp only [beq_self_eq_true, if_true, ncons_replicate_slice, List.length_cons, Nat.add_mul, Nat.one_mul]
      have : (Sel.ellipsis != Sel.ellipsis && Sel.ellipsis != Sel.newaxis) = false := by decide
      simp only [this, Bool.false_eq_true, if_false]
      omega
    · simp only [hx, Bool.false_eq_true, if_false]
      have hx' : (x != Sel.ellipsis) = true := by simpa using hx
      rw [show ncons [x] = (if (x != Sel.ellipsis && x != Sel.newaxis) = true then 1 else 0) by
        rw [ncons_cons]; rfl]
      omega

/-- a successfully resolved index expression consumes exactly the axes of the shape -/
theorem resolveIndex_match (s : Shape) (sels : List Sel) (rs : List RSel)
    (h : resolveIndex s sels = some rs) : RMatch rs s := by
  unfold resolveIndex at h
  simp only [Option.bind_eq_bind] at h
  split_ifs at h with h1
  all_goals first | (exfalso; simp at h; done) | skip
  · rename_i h2 h3
    have h2' : ncons sels ≤ s.length := by unfold ncons; omega
    refine go_match _ _ _ h ?_
    have := ncons_flatMap (s.length - ncons sels) sels
    unfold ncons at this h2' ⊢
    rw [this, h3]
    omega
  · rename_i h2 h3
    have h2' : ncons sels ≤ s.length := by unfold ncons; omega
    refine go_match _ _ _ h ?_
    have := ncons_append sels (List.replicate (s.length - ncons sels) (Sel.slice none none 1))
    rw [ncons_replicate_slice] at this
    unfold ncons at this h2' ⊢
    rw [this]
    omega

/-- **the index map of `a[sels]` sends valid output indices to valid input indices** -/
theorem indexMap_valid (s : Shape) (sels : List Sel) (rs : List RSel)
    (h : resolveIndex s sels = some rs) (j : Idx) (hj : validIdx (indexShape rs) j) :
    validIdx s (indexMap rs j) := by
  rw [indexMap_eq]
  exact imap_valid (resolveIndex_match s sels rs h) j hj

end Proofs.Adjoint
