import Proofs.AdjointGenB
/-!
# Reductions: `reduceIdx` is a map of index sets, and `sum` / `unreduce` are transposes
-/
namespace Proofs.Adjoint
open Synap Synap.NDArray Synap.Np Proofs.Core

/-! ### `reduceIdx` sends valid indices to valid indices of `reduceShape` -/
theorem setAxes_valid_aux (axes : List Nat) : ∀ (s : Shape) (i : Idx) (k : Nat), validIdx s i →
    validIdx ((s.zipIdx k).map (fun (x, n) => if axes.contains n then 1 else x))
      ((i.zipIdx k).map (fun (x, n) => if axes.contains n then 0 else x))
  | [], [], _, _ => by simp [validIdx]
  | n :: s, x :: i, k, h => by
    obtain ⟨hx, hi⟩ := h
    simp only [List.zipIdx_cons, List.map_cons]
    refine ⟨?_, setAxes_valid_aux axes s i (k + 1) hi⟩
    split_ifs <;> omega
  | [], _ :: _, _, h => by simp [validIdx] at h
  | _ :: _, [], _, h => by simp [validIdx] at h

theorem dropAxes_valid_aux (axes : List Nat) : ∀ (s : Shape) (i : Idx) (k : Nat), validIdx s i →
    validIdx (((s.zipIdx k).filter (fun (_, n) => !axes.contains n)).map (·.1))
      (((i.zipIdx k).filter (fun (_, n) => !axes.contains n)).map (·.1))
  | [], [], _, _ => by simp [validIdx]
  | n :: s, x :: i, k, h => by
    obtain ⟨hx, hi⟩ := h
    have ih := dropAxes_valid_aux axes s i (k + 1) hi
    simp only [List.zipIdx_cons, List.filter_cons]
    by_cases hk : k ∈ axes
    · simpa [hk] using ih
    · simp only [List.contains_eq_mem, hk, decide_false, Bool.not_false, if_true, List.map_cons]
      exact ⟨hx, by simpa using ih⟩
  | [], _ :: _, _, h => by simp [validIdx] at h
  | _ :: _, [], _, h => by simp [validIdx] at h

theorem reduceIdx_valid (s : Shape) (axes : List Nat) (keep : Bool) (i : Idx) (h : validIdx s i) :
    validIdx (reduceShape s axes keep) (reduceIdx axes keep i) := by
  unfold reduceShape reduceIdx
  cases keep
  · exact dropAxes_valid_aux axes s i 0 h
  · exact setAxes_valid_aux axes s i 0 h

theorem dropAxes_range {α : Type} (l : List α) : dropAxes l (List.range l.length) = [] := by
  unfold dropAxes
  rw [List.map_eq_nil_iff, List.filter_eq_nil_iff]
  rintro ⟨x, n⟩ hm
  have := List.mem_zipIdx hm
  simp only [List.contains_eq_mem, List.mem_range, Bool.not_eq_true', decide_eq_false_iff_not, not_not]
  omega

theorem reduceShape_all_nokeep (s : Shape) : reduceShape s (List.range s.length) false = [] := by
  simp [reduceShape, dropAxes_range]

/-! ### `Axes.normRed`: the axes of sum / max / min (0-d arrays accept the integer axes 0 and −1) -/

theorem norm_zero_one (a : Int) : Axes.norm 0 (.one a) = none := by
  simp only [Axes.norm, normAxis]
  rw [if_neg (by omega), if_neg (by omega)]
  rfl

theorem normRed_all (n : Nat) : Axes.normRed n .all = some (List.range n) := by
  cases n <;> rfl

theorem normRed_many (n : Nat) (ds : List Int) : Axes.normRed n (.many ds) = Axes.norm n (.many ds) := by
  cases n <;> rfl

theorem normRed_succ (n : Nat) (ax : Axes) : Axes.normRed (n + 1) ax = Axes.norm (n + 1) ax := rfl

theorem normRed_pos {n : Nat} (hn : n ≠ 0) (ax : Axes) : Axes.normRed n ax = Axes.norm n ax := by
  cases n with
  | zero => exact absurd rfl hn
  | succ n => rfl

theorem normRed_zero_one (a : Int) :
    Axes.normRed 0 (.one a) = if a = 0 ∨ a = -1 then some [] else none := rfl

/-- whatever `Axes.norm` accepts, `Axes.normRed` accepts with the same axes -/
theorem normRed_of_norm {n : Nat} {ax : Axes} {axes : List Nat} (h : Axes.norm n ax = some axes) :
    Axes.normRed n ax = some axes := by
  cases n with
  | succ n => exact h
  | zero =>
    cases ax with
    | all => exact h
    | many ds => exact h
    | one a => rw [norm_zero_one] at h; cases h

/-- `Axes.normRed` is `Axes.norm` extended by exactly two inputs: the integer axes 0 and −1 of a
    0-d array, which reduce over no axis -/
theorem normRed_iff (n : Nat) (ax : Axes) (axes : List Nat) :
    Axes.normRed n ax = some axes ↔
      Axes.norm n ax = some axes ∨ (n = 0 ∧ (ax = .one 0 ∨ ax = .one (-1)) ∧ axes = []) := by
  cases n with
  | succ n => simp [normRed_succ]
  | zero =>
    cases ax with
    | all => simp [normRed_all, Axes.norm]
    | many ds => simp [normRed_many]
    | one a =>
      rw [normRed_zero_one, norm_zero_one]
      by_cases ha : a = 0 ∨ a = -1
      · rw [if_pos ha]; simp [ha, eq_comm]
      · rw [if_neg ha]
        simp only [not_or] at ha
        simp [ha.1, ha.2]

/-- the two new inputs: nothing is reduced -/
theorem normRed_zero_dim {d : Int} (hd : d = 0 ∨ d = -1) : Axes.normRed 0 (.one d) = some [] := by
  rw [normRed_zero_one, if_pos hd]

/-- the axes are distinct from `Axes.norm`'s only on a 0-d array, where they are `[]` -/
theorem normRed_cases {n : Nat} {ax : Axes} {axes : List Nat} (h : Axes.normRed n ax = some axes) :
    Axes.norm n ax = some axes ∨ (n = 0 ∧ axes = []) := by
  rcases (normRed_iff n ax axes).1 h with h | ⟨h0, _, h2⟩
  · exact Or.inl h
  · exact Or.inr ⟨h0, h2⟩

variable {R : Type} [CommSemiring R]

/-- `sum` over normalised axes (a scatter-add along `reduceIdx`) and `unreduce` (the gather along
    the same map) are transposes.  `keep'` is the flag the backward uses: it may differ from `keep`
    only when the reduced array is 0-d, whose `get` ignores the index. -/
theorem sum_unreduce_adj (sa : Shape) (axes : List Nat) (keep keep' : Bool)
    (hk : keep' = keep ∨ reduceShape sa axes keep = []) :
    IsAdjoint (R := R) sa (reduceShape sa axes keep)
      (fun v => some (scatterAdd (reduceShape sa axes keep) sa (reduceIdx axes keep) v))
      (fun g => some (unreduce g sa axes keep')) := by
  apply IsAdjoint.symm
  apply isAdjoint_of_gather_spec (reduceShape sa axes keep) sa (reduceIdx axes keep) (fun _ => 1)
    (fun i hi => reduceIdx_valid sa axes keep i hi)
  · intro g _ hgs
    refine ⟨_, rfl, gather_wfB _ _ _, rfl, ?_⟩
    intro i hi
    rw [unreduce, get_gather _ _ _ _ hi, mul_one]
    rcases hk with hk | hk
    · rw [hk]
    · exact get_shape_nil g (hgs.trans hk) _ _
  · intro v _ _
    refine ⟨_, rfl, scatterAdd_wfB _ _ _ _, rfl, ?_⟩
    intro o ho
    rw [get_scatterAdd _ _ _ _ _ ho]
    congr 1
    apply List.map_congr_left
    intro j _
    rw [one_mul]

end Proofs.Adjoint
