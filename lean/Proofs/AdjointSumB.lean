import Proofs.AdjointGenB
/-!
# Reductions: `reduceIdx` is a map of index sets, and `sum` / `unreduce` are transposes
-/
namespace Proofs.Adjoint
open Synap Synap.NDArray Synap.Np Proofs.Core

/-! ### `reduceIdx` sends valid indices to valid indices of `reduceShape` -/
theorem setAxes_valid_aux (axes : List Nat) : ∀ (s : Shape) (i : Idx) (k : Nat), validIdx s i →
    validIdx ((s.zipIdx k).map (fun (x, n) => if axes.contains n then 1 else x))
      ((i.zipIdx k).map (fun (x, n) => if axes.contains n then 0 else x))
  | [], [], _, _ => by simp [validIdx]
  | n :: s, x :: i, k, h => by
    obtain ⟨hx, hi⟩ := h
    simp only [List.zipIdx_cons, List.map_cons]
    refine ⟨?_, setAxes_valid_aux axes s i (k + 1) hi⟩
    split_ifs <;> omega
  | [], _ :: _, _, h => by simp [validIdx] at h
  | _ :: _, [], _, h => by simp [validIdx] at h

theorem dropAxes_valid_aux (axes : List Nat) : ∀ (s : Shape) (i : Idx) (k : Nat), validIdx s i →
    validIdx (((s.zipIdx k).filter (fun (_, n) => !axes.contains n)).map (·.1))
      (((i.zipIdx k).filter (fun (_, n) => !axes.contains n)).map (·.1))
  | [], [], _, _ => by simp [validIdx]
  | n :: s, x :: i, k, h => by
    obtain ⟨hx, hi⟩ := h
    have ih := dropAxes_valid_aux axes s i (k + 1) hi
    simp only [List.zipIdx_cons, List.filter_cons]
    by_cases hk : k ∈ axes
    · simpa [hk] using ih
    · simp only [List.contains_eq_mem, hk, decide_false, Bool.not_false, if_true, List.map_cons]
      exact ⟨hx, by simpa using ih⟩
  | [], _ :: _, _, h => by simp [validIdx] at h
  | _ :: _, [], _, h => by simp [validIdx] at h

theorem reduceIdx_valid (s : Shape) (axes : List Nat) (keep : Bool) (i : Idx) (h : validIdx s i) :
    validIdx (reduceShape s axes keep) (reduceIdx axes keep i) := by
  unfold reduceShape reduceIdx
  cases keep
  · exact dropAxes_valid_aux axes s i 0 h
  · exact setAxes_valid_aux axes s i 0 h

theorem dropAxes_range {α : Type} (l : List α) : dropAxes l (List.range l.length) = [] := by
  unfold dropAxes
  rw [List.map_eq_nil_iff, List.filter_eq_nil_iff]
  rintro ⟨x, n⟩ hm
  have := List.mem_zipIdx hm
  simp only [List.contains_eq_mem, List.mem_range, Bool.not_eq_true', decide_eq_false_iff_not, not_not]
  omega

theorem reduceShape_all_nokeep (s : Shape) : reduceShape s (List.range s.length) false = [] := by
  simp [reduceShape, dropAxes_range]

variable {R : Type} [CommSemiring R]

/-- `sum` over normalised axes (a scatter-add along `reduceIdx`) and `unreduce` (the gather along
    the same map) are transposes.  `keep'` is the flag the backward uses: it may differ from `keep`
    only when the reduced array is 0-d, whose `get` ignores the index. -/
theorem sum_unreduce_adj (sa : Shape) (axes : List Nat) (keep keep' : Bool)
    (hk : keep' = keep ∨ reduceShape sa axes keep = []) :
    IsAdjoint (R := R) sa (reduceShape sa axes keep)
      (fun v => some (scatterAdd (reduceShape sa axes keep) sa (reduceIdx axes keep) v))
      (fun g => some (unreduce g sa axes keep')) := by
  apply IsAdjoint.symm
  apply isAdjoint_of_gather_spec (reduceShape sa axes keep) sa (reduceIdx axes keep) (fun _ => 1)
    (fun i hi => reduceIdx_valid sa axes keep i hi)
  · intro g _ hgs
    refine ⟨_, rfl, gather_wfB _ _ _, rfl, ?_⟩
    intro i hi
    rw [unreduce, get_gather _ _ _ _ hi, mul_one]
    rcases hk with hk | hk
    · rw [hk]
    · exact get_shape_nil g (hgs.trans hk) _ _
  · intro v _ _
    refine ⟨_, rfl, scatterAdd_wfB _ _ _ _, rfl, ?_⟩
    intro o ho
    rw [get_scatterAdd _ _ _ _ _ ho]
    congr 1
    apply List.map_congr_left
    intro j _
    rw [one_mul]

end Proofs.Adjoint
