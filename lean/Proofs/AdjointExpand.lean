import Proofs.AdjointReshape
/-!
# `np.expand_dims`: the result shape has 1 at the named axes and the operand's shape elsewhere
-/
namespace Proofs.Adjoint
open Synap Synap.NDArray Synap.Np Synap.Kernels Proofs.Core

/-! ### `mapM` in `Option`, `eraseDups`, `normAxes` -/

theorem length_eraseDups_le : ∀ (n : Nat) (l : List Nat), l.length ≤ n → l.eraseDups.length ≤ l.length
  | _, [], _ => by simp
  | 0, _ :: _, h => by simp at h
  | n + 1, a :: as, h => by
    rw [List.eraseDups_cons]
    have h1 := List.length_filter_le (fun b => !b == a) as
    have h2 := length_eraseDups_le n (as.filter fun b => !b == a) (by simp at h; omega)
    simp only [List.length_cons]
    omega

theorem nodup_of_eraseDups_length : ∀ (n : Nat) (l : List Nat), l.length ≤ n →
    l.eraseDups.length = l.length → l.Nodup
  | _, [], _, _ => List.nodup_nil
  | 0, _ :: _, h, _ => by simp at h
  | n + 1, a :: as, h, he => by
    rw [List.eraseDups_cons] at he
    have h1 := List.length_filter_le (fun b => !b == a) as
    have h2 := length_eraseDups_le _ (as.filter fun b => !b == a) (Nat.le_refl _)
    simp only [List.length_cons] at he h
    have h3 : (as.filter fun b => !b == a).length = as.length := by omega
    have h4 := List.length_filter_eq_length_iff.1 h3
    have h5 : (as.filter fun b => !b == a) = as := List.filter_eq_self.2 h4
    rw [h5] at he
    refine List.nodup_cons.2 ⟨?_, nodup_of_eraseDups_length n as (by omega) (by omega)⟩
    intro hmem
    simpa using h4 a hmem

theorem normAxes_spec {n : Nat} {axes : List Int} {ax : List Nat} (h : normAxes n axes = some ax) :
    ax.Nodup ∧ (∀ k ∈ ax, k < n) ∧ ax.length = axes.length := by
  unfold normAxes at h
  cases hm : axes.mapM (normAxis n) with
  | none => simp [hm] at h
  | some r =>
    simp only [hm, Option.bind_eq_bind, Option.bind_some] at h
    split_ifs at h with h1
    simp only [Option.some.injEq] at h
    subst h
    have hf := mapM_some_forall₂ _ _ _ hm
    refine ⟨nodup_of_eraseDups_length _ r (Nat.le_refl _) h1, ?_, hf.length_eq.symm⟩
    intro k hk
    obtain ⟨a, _, ha⟩ := forall₂_mem_right hf k hk
    exact normAxis_lt ha

/-! ### counting the axes that are not named -/

theorem filter_length_split {α : Type} (p : α → Bool) (l : List α) :
    (l.filter p).length + (l.filter (fun x => !p x)).length = l.length := by
  induction l with
  | nil => rfl
  | cons x l ih =>
    cases hx : p x <;> simp [hx] <;> omega

theorem count_not_named (n : Nat) (ax : List Nat) (hnd : ax.Nodup) (hlt : ∀ k ∈ ax, k < n) :
    ((List.range n).filter (fun k => !ax.contains k)).length = n - ax.length := by
  have h1 := filter_length_split (fun k => ax.contains k) (List.range n)
  have h2 : ((List.range n).filter (fun k => ax.contains k)).length = ax.length := by
    apply List.Perm.length_eq
    rw [List.perm_ext_iff_of_nodup (List.nodup_range.filter _) hnd]
    intro k
    simp only [List.mem_filter, List.mem_range, List.contains_iff_mem]
    exact ⟨fun h => h.2, fun h => ⟨hlt k h, h⟩⟩
  rw [List.length_range] at h1
  omega

/-! ### the shape `expand_dims` builds -/

/-- positions `m, m+1, …, m+c-1`: a named position gets 1, any other the next operand size -/
def expandShape (ax : List Nat) : Nat → Nat → Shape → Shape
  | _, 0, _ => []
  | m, c + 1, rem =>
    if ax.contains m then 1 :: expandShape ax (m + 1) c rem
    else rem.headD 1 :: expandShape ax (m + 1) c (rem.drop 1)

theorem expand_foldl (ax : List Nat) : ∀ (c m : Nat) (acc rem : Shape),
    ((List.range' m c).foldl (fun (acc : Shape × Shape) k =>
        if ax.contains k then (acc.1 ++ [1], acc.2)
        else (acc.1 ++ [acc.2.headD 1], acc.2.drop 1)) (acc, rem)).1 = acc ++ expandShape ax m c rem
  | 0, m, acc, rem => by simp [expandShape]
  | c + 1, m, acc, rem => by
    rw [List.range'_succ, List.foldl_cons]
    dsimp only
    by_cases h : ax.contains m = true
    · rw [if_pos h, expand_foldl ax c (m + 1), expandShape, if_pos h]; simp
    · rw [if_neg h, expand_foldl ax c (m + 1), expandShape, if_neg h]; simp

theorem expandShape_length (ax : List Nat) : ∀ (c m : Nat) (rem : Shape),
    (expandShape ax m c rem).length = c
  | 0, _, _ => rfl
  | c + 1, m, rem => by
    unfold expandShape
    split_ifs <;> simp [expandShape_length ax c]

theorem expandShape_one (ax : List Nat) : ∀ (c m : Nat) (rem : Shape) (i : Nat), i < c →
    (m + i) ∈ ax → (expandShape ax m c rem).getD i 0 = 1
  | 0, _, _, _, h, _ => by omega
  | c + 1, m, rem, i, hi, hm => by
    unfold expandShape
    cases i with
    | zero =>
      have : m ∈ ax := by simpa using hm
      simp [this]
    | succ i =>
      have hm' : (m + 1 + i) ∈ ax := by rwa [show m + 1 + i = m + (i + 1) by omega]
      split_ifs
      · simpa using expandShape_one ax c (m + 1) rem i (by omega) hm'
      · simpa using expandShape_one ax c (m + 1) (rem.drop 1) i (by omega) hm'

theorem expandShape_drop (ax : List Nat) : ∀ (c m : Nat) (rem : Shape),
    rem.length = ((List.range' m c).filter (fun k => !ax.contains k)).length →
    dropAxesFrom m (expandShape ax m c rem) ax = rem
  | 0, m, rem, h => by
    simp at h
    simp [expandShape, dropAxesFrom, h]
  | c + 1, m, rem, h => by
    unfold expandShape
    rw [List.range'_succ, List.filter_cons] at h
    by_cases hm : ax.contains m = true
    · have hm' : m ∈ ax := by simpa using hm
      simp only [hm, Bool.not_true, Bool.false_eq_true, if_false] at h
      rw [if_pos hm, dropAxesFrom_cons, if_pos hm']
      exact expandShape_drop ax c (m + 1) rem h
    · have hm' : m ∉ ax := by simpa using hm
      have hm'' : ax.contains m = false := by simpa using hm
      simp only [hm'', Bool.not_false, if_true, List.length_cons] at h
      rw [if_neg hm, dropAxesFrom_cons, if_neg hm']
      cases rem with
      | nil => simp at h
      | cons x rem =>
        simp only [List.length_cons, Nat.add_right_cancel_iff] at h
        simp only [List.headD_cons, List.drop_succ_cons, List.drop_zero]
        rw [expandShape_drop ax c (m + 1) rem h]

section
variable {R : Type} [CommRing R]

/-- what `np.expand_dims` accepts and builds, as a function of the operand's shape only -/
theorem expandDims_eq (a y : NDArray R) (axes : List Int) (h : expandDims a axes = some y) :
    ∃ ax s', normAxes s'.length axes = some ax ∧ (∀ k ∈ ax, s'.getD k 0 = 1) ∧
      dropAxes s' ax = a.shape ∧
      ∀ v : NDArray R, v.shape = a.shape → expandDims v axes = some (reshapeTo v s') := by
  unfold expandDims at h
  cases h0 : normAxes (a.shape.length + axes.length) axes with
  | none => simp [h0] at h
  | some ax =>
    obtain ⟨hnd, hlt, hlen⟩ := normAxes_spec h0
    refine ⟨ax, expandShape ax 0 (a.shape.length + axes.length) a.shape, ?_, ?_, ?_, ?_⟩
    · rw [expandShape_length]; exact h0
    · intro k hk
      exact expandShape_one ax _ 0 _ k (hlt k hk) (by simpa using hk)
    · rw [dropAxes_eq]
      apply expandShape_drop
      rw [← List.range_eq_range', count_not_named _ ax hnd hlt, hlen]
      omega
    · intro v hvs
      unfold expandDims
      simp only [hvs, h0, Option.bind_eq_bind, Option.bind_some, Option.pure_def, Option.some.injEq]
      rw [List.range_eq_range', expand_foldl]
      rfl

end

end Proofs.Adjoint
