import Proofs.OptimStoreInv
/-!
# Every transition of `Synap.OptimStore` is a `Moves`: what it may overwrite, what it may rebind
-/
namespace Proofs.OptimStore
open Synap.OptimStore
open Synap.Optim (SGDCfg AdamCfg HasSqrt)

variable {α : Type}

/-! ### places after a record update -/

theorem join_getElem?_set (l : List (Option BufId)) (i j : Nat) (x : BufId) :
    ((l.set i (some x))[j]?).join = if j = i ∧ i < l.length then some x else (l[j]?).join := by
  rw [List.getElem?_set]
  by_cases h : i = j
  · subst h
    by_cases hl : i < l.length
    · simp [hl]
    · simp [hl]
  · have h' : ¬ j = i := fun e => h e.symm
    simp [h, h']

theorem ps_set_data (ps : List PS) (i j : Nat) (p p' : PS) (hp : ps[i]? = some p)
    (hd : p'.data = p.data) : ((ps.set i p')[j]?).map (·.data) = (ps[j]?).map (·.data) := by
  rw [List.getElem?_set]
  by_cases h : i = j
  · subst h
    obtain ⟨hl, rfl⟩ := List.getElem?_eq_some_iff.mp hp
    simp [hl, hd]
  · simp [h]

theorem ps_set_grad (ps : List PS) (i j : Nat) (p p' : PS) (hp : ps[i]? = some p) :
    ((ps.set i p')[j]?).bind (·.grad) = if j = i then p'.grad else (ps[j]?).bind (·.grad) := by
  rw [List.getElem?_set]
  by_cases h : i = j
  · subst h
    have hl : i < ps.length := by
      rcases List.getElem?_eq_some_iff.mp hp with ⟨hl, _⟩; exact hl
    simp [hl]
  · have h' : ¬ j = i := fun e => h e.symm
    simp [h, h']

theorem slot_congr {s s' : Store α} (h1 : s'.ps = s.ps) (h2 : s'.b1 = s.b1) (h3 : s'.b2 = s.b2)
    (r : Role) (i : Nat) : slot s' r i = slot s r i := by
  cases r <;> simp [slot, h1, h2, h3]

theorem slot_grad_of {s : Store α} {i : Nat} {p : PS} (hp : s.ps[i]? = some p) :
    slot s .grad i = p.grad := by simp [slot, hp]

theorem slot_data_of {s : Store α} {i : Nat} {p : PS} (hp : s.ps[i]? = some p) :
    slot s .data i = some p.data := by simp [slot, hp]

/-- rebinding the gradient of parameter `i` -/
theorem slot_setGrad (s : Store α) (h : Heap α) (i : Nat) (p : PS) (hp : s.ps[i]? = some p) (z : BufId)
    (r : Role) (j : Nat) :
    slot { s with heap := h, ps := s.ps.set i { p with grad := some z } } r j
      = if r = .grad ∧ j = i then some z else slot s r j := by
  cases r
  · exact ps_set_data s.ps i j p _ hp rfl
  · simp only [slot, ps_set_grad s.ps i j p _ hp]
    by_cases hj : j = i <;> simp [hj]
  · simp [slot]
  · simp [slot]

/-- changing the flag of parameter `i` -/
theorem slot_setRg (s : Store α) (i : Nat) (p : PS) (hp : s.ps[i]? = some p) (b : Bool)
    (r : Role) (j : Nat) :
    slot { s with ps := s.ps.set i { p with rg := b } } r j = slot s r j := by
  cases r
  · exact ps_set_data s.ps i j p _ hp rfl
  · simp only [slot, ps_set_grad s.ps i j p _ hp]
    by_cases hj : j = i
    · subst hj; simp [hp]
    · simp [hj]
  · simp [slot]
  · simp [slot]

/-! ### heaps -/

theorem Ext.alloc_write {h h₁ h₂ : Heap α} {w : BufId} (a : Ext none h h₁) (b : Ext (some w) h₁ h₂)
    (hw : h.length ≤ w) : Ext none h h₂ :=
  ⟨Nat.le_trans a.1 b.1, fun x hx _ => by
    rw [b.2 x (Nat.lt_of_lt_of_le hx a.1) (by
      intro e; cases e; exact absurd hx (Nat.not_lt.mpr hw)), a.2 x hx (by simp)]⟩

theorem Ext.then {d : BufId} {h h₁ h₂ : Heap α} (a : Ext none h h₁) (b : Ext (some d) h₁ h₂) :
    Ext (some d) h h₂ := (a.weaken).trans b

theorem Ext.then_none {d : BufId} {h h₁ h₂ : Heap α} (a : Ext (some d) h h₁) (b : Ext none h₁ h₂) :
    Ext (some d) h h₂ := a.trans b.weaken

/-! ### engine transitions -/

theorem accumulate_moves [Add α] [Zero α] (s : Store α) (hI : Inv s) (i : Nat) (g : List α) :
    Moves (fun x => slot s .grad i = some x) (fun r j => r = .grad ∧ j = i) s (accumulate s i g) := by
  unfold accumulate
  split
  · exact Moves.refl _ _ hI
  · rename_i p hp
    split
    · split
      · rename_i gb hg
        refine Moves.of_single hI ?_ .grad i (by simp) (fun r j _ => slot_congr rfl rfl rfl r j) ?_
        · refine (ext_writeZipLit s.heap gb _ g).toP.mono ?_
          intro x hx; cases hx; rw [slot_grad_of hp, hg]
        · intro x hx; exact Or.inl hx
      · rename_i hg
        have e1 := ext_allocMap s.heap (fun _ => (0 : α)) p.data
        have e2 := ext_writeZipLit (allocMap s.heap (fun _ => (0 : α)) p.data).1 s.heap.length (· + ·) g
        have e := (e1.alloc_write e2 (Nat.le_refl _)).toP_none (fun x => slot s .grad i = some x)
        refine Moves.of_single hI e .grad i (by simp) ?_ ?_
        · intro r j hn
          simp only [allocMap_snd]
          rw [slot_setGrad s _ i p hp]
          simp [hn]
        · intro x hx
          simp only [allocMap_snd] at hx
          rw [slot_setGrad s _ i p hp] at hx
          simp at hx
          subst hx
          exact Or.inr ⟨Nat.le_refl _, by simp⟩
    · exact Moves.refl _ _ hI

theorem accumulateRoot_moves [Add α] (s : Store α) (hI : Inv s) (i : Nat) (g : List α) :
    Moves (fun _ => False) (fun r j => r = .grad ∧ j = i) s (accumulateRoot s i g) := by
  unfold accumulateRoot
  split
  · exact Moves.refl _ _ hI
  · rename_i p hp
    split
    · have hs : ∀ a : List α, Moves (fun _ => False) (fun r j => r = .grad ∧ j = i) s
          { s with heap := (alloc s.heap a).1, ps := s.ps.set i { p with grad := some (alloc s.heap a).2 } } := by
        intro a
        refine Moves.of_single hI ((ext_alloc s.heap a).toP_none _) .grad i (by simp) ?_ ?_
        · intro r j hn
          rw [slot_setGrad s _ i p hp]; simp [hn]
        · intro x hx
          rw [slot_setGrad s _ i p hp] at hx
          simp at hx
          subst hx
          exact Or.inr ⟨Nat.le_refl _, by simp⟩
      split
      · exact hs _
      · exact hs _
    · exact Moves.refl _ _ hI

theorem zeroGradAt_moves [Zero α] (s : Store α) (hI : Inv s) (i : Nat) :
    Moves (fun _ => False) (fun r _ => r = .grad) s (zeroGradAt s i) := by
  unfold zeroGradAt
  split
  · exact Moves.refl _ _ hI
  · rename_i p hp
    split
    · refine Moves.mono (fun _ h => h) (fun r j h => h.1)
        (Moves.of_single (W := fun _ => False) hI ((ext_allocMap s.heap _ p.data).toP_none _) .grad i (by simp) ?_ ?_)
      · intro r j hn
        simp only [allocMap_snd]
        rw [slot_setGrad s _ i p hp]; simp [hn]
      · intro x hx
        simp only [allocMap_snd] at hx
        rw [slot_setGrad s _ i p hp] at hx
        simp at hx
        subst hx
        exact Or.inr ⟨Nat.le_refl _, by simp⟩
    · exact Moves.refl _ _ hI

theorem zeroGrad_moves [Zero α] (s : Store α) (hI : Inv s) :
    Moves (fun _ => False) (fun r _ => r = .grad) s (zeroGrad s) :=
  (moves_foldl (fun _ => True) zeroGradAt
    (fun s j hI _ => ⟨zeroGradAt_moves s hI j, trivial⟩) _ s hI trivial).1

theorem setRg_moves (s : Store α) (hI : Inv s) (i : Nat) (b : Bool) :
    Moves (fun _ => False) (fun _ _ => False) s (setRg s i b) := by
  unfold setRg
  split
  · exact Moves.refl _ _ hI
  · rename_i p hp
    have hs : ∀ r j, slot { s with ps := s.ps.set i { p with rg := b } } r j = slot s r j :=
      slot_setRg s i p hp b
    refine ⟨ExtP.refl _ _, fun j => hs _ j, fun r j _ => hs r j, fun r j x hx => Or.inl (by rw [← hs r j]; exact hx), ?_⟩
    intro r j r' j' x hlen hx hx'
    rw [hs] at hx
    exact absurd (hI.bounded r j x hx) (Nat.not_lt.mpr hlen)

/-- `x` is the data buffer of parameter `i`, and a step updates parameter `i`: it requires grad and
    has a gradient -/
def Active (s : Store α) (i : Nat) (x : BufId) : Prop :=
  ∃ p gb, s.ps[i]? = some p ∧ p.rg = true ∧ p.grad = some gb ∧ p.data = x

/-! ### SGD.step -/

section SGD
variable [Add α] [Sub α] [Mul α] [Div α] [Neg α] [Zero α] [One α]
set_option linter.unusedSectionVars false

theorem sgdGrad_ext (c : SGDCfg α) (h : Heap α) (d gb : BufId) : Ext none h (sgdGrad c h d gb).1 := by
  unfold sgdGrad; split
  · exact ext_allocZip _ _ _ _
  · exact Ext.refl _ _

theorem sgdBuf_ext (copy : Bool) (c : SGDCfg α) (h : Heap α) (g : BufId) (b : Option BufId) :
    Ext none h (sgdBuf copy c h g b).1 := by
  unfold sgdBuf; split
  · exact ext_allocZip _ _ _ _
  · split
    · exact ext_allocMap _ _ _
    · exact Ext.refl _ _

theorem sgdBuf_true_snd (c : SGDCfg α) (h : Heap α) (g : BufId) (b : Option BufId) :
    (sgdBuf true c h g b).2 = h.length := by
  unfold sgdBuf; split <;> simp

theorem sgdBuf_true_length (c : SGDCfg α) (h : Heap α) (g : BufId) (b : Option BufId) :
    (sgdBuf true c h g b).1.length = h.length + 1 := by
  unfold sgdBuf; split <;> simp

theorem sgdDir_ext (c : SGDCfg α) (h : Heap α) (g b : BufId) : Ext none h (sgdDir c h g b).1 := by
  unfold sgdDir; split
  · exact ext_allocZip _ _ _ _
  · exact Ext.refl _ _

theorem sgdApply_ext (c : SGDCfg α) (h : Heap α) (d g : BufId) : Ext (some d) h (sgdApply c h d g) :=
  ext_writeZip _ _ _ _

@[simp] theorem sgdApply_length (c : SGDCfg α) (h : Heap α) (d g : BufId) :
    (sgdApply c h d g).length = h.length := by simp [sgdApply]

/-- rebinding the first buffer of parameter `i` -/
theorem slot_setB1 (s : Store α) (h : Heap α) (i : Nat) (x : BufId) (r : Role) (j : Nat) :
    slot { s with heap := h, b1 := s.b1.set i (some x) } r j
      = if r = .b1 ∧ j = i ∧ i < s.b1.length then some x else slot s r j := by
  cases r
  · simp [slot]
  · simp [slot]
  · simp only [slot, join_getElem?_set]; simp
  · simp [slot]

theorem sgdStepAt_ps (c : SGDCfg α) (s : Store α) (i : Nat) : (sgdStepAt c s i).ps = s.ps := by
  unfold sgdStepAt sgdStepAtG
  split
  · rfl
  · split
    · dsimp only; split <;> rfl
    · rfl

theorem sgdStepAt_moves (c : SGDCfg α) (s : Store α) (hI : Inv s) (i : Nat) :
    Moves (Active s i) (fun r j => r = .b1 ∧ j = i) s (sgdStepAt c s i) := by
  unfold sgdStepAt sgdStepAtG
  split
  · exact Moves.refl _ _ hI
  · rename_i p hp
    split
    · rename_i gb hrg hg
      have hW : ∀ x, some x = some p.data → Active s i x := by
        intro x hx; cases hx; exact ⟨p, gb, hp, hrg, hg, rfl⟩
      have e1 := sgdGrad_ext c s.heap p.data gb
      dsimp only
      generalize sgdGrad c s.heap p.data gb = r1 at *
      split
      · have e2 := sgdBuf_ext true c r1.1 r1.2 (slot s .b1 i)
        have l2 := sgdBuf_true_length c r1.1 r1.2 (slot s .b1 i)
        have i2 := sgdBuf_true_snd c r1.1 r1.2 (slot s .b1 i)
        generalize sgdBuf true c r1.1 r1.2 (slot s .b1 i) = r2 at *
        have e3 := sgdDir_ext c r2.1 r1.2 r2.2
        generalize sgdDir c r2.1 r1.2 r2.2 = r3 at *
        have e4 := sgdApply_ext c r3.1 p.data r3.2
        have l4 := sgdApply_length c r3.1 p.data r3.2
        refine Moves.of_single hI (((e1.trans (e2.trans e3)).then e4).toP.mono hW) .b1 i (by simp) ?_ ?_
        · intro r j hn
          rw [slot_setB1]; simp only [ite_eq_right_iff]; intro hh; exact absurd ⟨hh.1, hh.2.1⟩ hn
        · intro x hx
          rw [slot_setB1] at hx
          split at hx
          · cases hx
            have h1 := e1.1
            have h3 := e3.1
            have i2' : @Eq Nat r2.2 r1.1.length := i2
            refine Or.inr ⟨by omega, ?_⟩
            show @LT.lt Nat _ r2.2 (sgdApply c r3.1 p.data r3.2).length
            omega
          · exact Or.inl hx
      · refine Moves.of_single hI ((e1.then (sgdApply_ext c _ p.data _)).toP.mono hW) .b1 i (by simp)
          (fun r j _ => slot_congr rfl rfl rfl r j) (fun x hx => Or.inl hx)
    · exact Moves.refl _ _ hI

theorem sgdStep_moves (c : SGDCfg α) (s : Store α) (hI : Inv s) :
    Moves (fun x => ∃ j, Active s j x) (fun r _ => r = .b1) s (sgdStep c s) ∧ (sgdStep c s).ps = s.ps := by
  refine moves_foldl (fun s' => s'.ps = s.ps) (sgdStepAt c) ?_ _ s hI rfl
  intro s₁ j hI₁ h
  refine ⟨(sgdStepAt_moves c s₁ hI₁ j).mono (fun x hx => ⟨j, ?_⟩) (fun r _ h => h.1), (sgdStepAt_ps c s₁ j).trans h⟩
  unfold Active at *; rw [← h]; exact hx

end SGD

/-! ### Adam.step / AdamW.step -/

section Adam
variable [Add α] [Sub α] [Mul α] [Div α] [Neg α] [Zero α] [One α] [HPow α Nat α] [HasSqrt α]
set_option linter.unusedSectionVars false

theorem adamNeg_ext (c : AdamCfg α) (h : Heap α) (gb : BufId) : Ext none h (adamNeg c h gb).1 := by
  unfold adamNeg; split
  · exact ext_allocMap _ _ _
  · exact Ext.refl _ _

theorem adamDecay_ext (c : AdamCfg α) (h : Heap α) (d g : BufId) : Ext (some d) h (adamDecay c h d g).1 := by
  unfold adamDecay; split
  · exact ext_writeMap _ _ _
  · split
    · exact (ext_allocZip _ _ _ _).weaken
    · exact Ext.refl _ _

theorem adamM1_ext (c : AdamCfg α) (h : Heap α) (g : BufId) (b : Option BufId) :
    Ext none h (adamM1 c h g b).1 := by
  unfold adamM1; split
  · exact ext_allocZip _ _ _ _
  · exact ext_allocMap _ _ _

theorem adamM2_ext (c : AdamCfg α) (h : Heap α) (g : BufId) (b : Option BufId) :
    Ext none h (adamM2 c h g b).1 := by
  unfold adamM2; split
  · exact ext_allocZip _ _ _ _
  · exact ext_allocMap _ _ _

@[simp] theorem adamM1_snd (c : AdamCfg α) (h : Heap α) (g : BufId) (b : Option BufId) :
    (adamM1 c h g b).2 = h.length := by unfold adamM1; split <;> simp
@[simp] theorem adamM1_length (c : AdamCfg α) (h : Heap α) (g : BufId) (b : Option BufId) :
    (adamM1 c h g b).1.length = h.length + 1 := by unfold adamM1; split <;> simp
@[simp] theorem adamM2_snd (c : AdamCfg α) (h : Heap α) (g : BufId) (b : Option BufId) :
    (adamM2 c h g b).2 = h.length := by unfold adamM2; split <;> simp
@[simp] theorem adamM2_length (c : AdamCfg α) (h : Heap α) (g : BufId) (b : Option BufId) :
    (adamM2 c h g b).1.length = h.length + 1 := by unfold adamM2; split <;> simp

theorem adamApply_ext (c : AdamCfg α) (t : Nat) (h : Heap α) (d m1 m2 : BufId) :
    Ext (some d) h (adamApply c t h d m1 m2) := by
  unfold adamApply
  exact (ext_allocZip _ _ _ _).then (ext_writeZip _ _ _ _)

@[simp] theorem adamApply_length (c : AdamCfg α) (t : Nat) (h : Heap α) (d m1 m2 : BufId) :
    (adamApply c t h d m1 m2).length = h.length + 1 := by simp [adamApply]

/-- rebinding both moments (and the step counter) of parameter `i` -/
theorem slot_setB12 (s : Store α) (h : Heap α) (i : Nat) (x1 x2 : BufId) (st : List Nat) (r : Role) (j : Nat) :
    slot { s with heap := h, b1 := s.b1.set i (some x1), b2 := s.b2.set i (some x2), steps := st } r j
      = if r = .b1 ∧ j = i ∧ i < s.b1.length then some x1
        else if r = .b2 ∧ j = i ∧ i < s.b2.length then some x2 else slot s r j := by
  cases r
  · simp [slot]
  · simp [slot]
  · simp only [slot, join_getElem?_set]; simp
  · simp only [slot, join_getElem?_set]; simp

theorem adamStepAt_ps (c : AdamCfg α) (s : Store α) (i : Nat) : (adamStepAt c s i).ps = s.ps := by
  unfold adamStepAt
  split
  · rfl
  · split <;> rfl

theorem adamStepAt_moves (c : AdamCfg α) (s : Store α) (hI : Inv s) (i : Nat) :
    Moves (Active s i) (fun r j => (r = .b1 ∨ r = .b2) ∧ j = i) s (adamStepAt c s i) := by
  unfold adamStepAt
  split
  · exact Moves.refl _ _ hI
  · rename_i p hp
    split
    · rename_i gb hrg hg
      have hW : ∀ x, some x = some p.data → Active s i x := by
        intro x hx; cases hx; exact ⟨p, gb, hp, hrg, hg, rfl⟩
      have e1 := adamNeg_ext c s.heap gb
      dsimp only
      generalize adamNeg c s.heap gb = r1 at *
      have e2 := adamDecay_ext c r1.1 p.data r1.2
      generalize adamDecay c r1.1 p.data r1.2 = r2 at *
      have e3 := adamM1_ext c r2.1 r2.2 (slot s .b1 i)
      have l3 := adamM1_length c r2.1 r2.2 (slot s .b1 i)
      have i3 := adamM1_snd c r2.1 r2.2 (slot s .b1 i)
      generalize adamM1 c r2.1 r2.2 (slot s .b1 i) = m1 at *
      have e4 := adamM2_ext c m1.1 r2.2 (slot s .b2 i)
      have l4 := adamM2_length c m1.1 r2.2 (slot s .b2 i)
      have i4 := adamM2_snd c m1.1 r2.2 (slot s .b2 i)
      generalize adamM2 c m1.1 r2.2 (slot s .b2 i) = m2 at *
      have e5 := adamApply_ext c ((s.steps[i]?).getD 0 + 1) m2.1 p.data m1.2 m2.2
      have l5 := adamApply_length c ((s.steps[i]?).getD 0 + 1) m2.1 p.data m1.2 m2.2
      have hlen1 := e1.1
      have hlen2 := e2.1
      have i3' : @Eq Nat m1.2 r2.1.length := i3
      have i4' : @Eq Nat m2.2 m1.1.length := i4
      have hne : m1.2 ≠ m2.2 := by
        intro h; have h' : @Eq Nat m1.2 m2.2 := h; omega
      have lt1 : @LT.lt Nat _ m1.2 (adamApply c ((s.steps[i]?).getD 0 + 1) m2.1 p.data m1.2 m2.2).length := by omega
      have lt2 : @LT.lt Nat _ m2.2 (adamApply c ((s.steps[i]?).getD 0 + 1) m2.1 p.data m1.2 m2.2).length := by omega
      refine Moves.of_two hI (((e1.then e2).then_none (e3.trans e4)).trans e5 |>.toP.mono hW) i m1.2 m2.2
        hne ⟨by omega, lt1⟩ ⟨by omega, lt2⟩ ?_ ?_ ?_
      · intro r j hn
        rw [slot_setB12]
        rw [if_neg (fun hh => hn ⟨Or.inl hh.1, hh.2.1⟩), if_neg (fun hh => hn ⟨Or.inr hh.1, hh.2.1⟩)]
      · rw [slot_setB12]
        by_cases hl : i < s.b1.length
        · right; simp [hl]
        · left; simp [hl]
      · rw [slot_setB12]
        by_cases hl : i < s.b2.length
        · right; simp [hl]
        · left; simp [hl]
    · exact Moves.refl _ _ hI

theorem adamStep_moves (c : AdamCfg α) (s : Store α) (hI : Inv s) :
    Moves (fun x => ∃ j, Active s j x) (fun r _ => r = .b1 ∨ r = .b2) s (adamStep c s) ∧ (adamStep c s).ps = s.ps := by
  refine moves_foldl (fun s' => s'.ps = s.ps) (adamStepAt c) ?_ _ s hI rfl
  intro s₁ j hI₁ h
  refine ⟨(adamStepAt_moves c s₁ hI₁ j).mono (fun x hx => ⟨j, ?_⟩) (fun r _ h => h.1), (adamStepAt_ps c s₁ j).trans h⟩
  unfold Active at *; rw [← h]; exact hx

end Adam

end Proofs.OptimStore
