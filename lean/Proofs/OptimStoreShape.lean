import Proofs.OptimStoreEvents
/-!
# No statement of the engine or of the optimizers ever makes an existing array longer

In-place statements are elementwise (`List.zipWith`, `List.map` over the old content), allocating
statements do not touch existing buffers.
-/
namespace Proofs.OptimStore
open Synap.OptimStore
open Synap.Optim (SGDCfg AdamCfg HasSqrt)

variable {α : Type}

def NoGrow (h h' : Heap α) : Prop :=
  h.length ≤ h'.length ∧ ∀ x, x < h.length → (rdBuf h' x).length ≤ (rdBuf h x).length

theorem NoGrow.refl (h : Heap α) : NoGrow h h := ⟨Nat.le_refl _, fun _ _ => Nat.le_refl _⟩

theorem NoGrow.trans {h₁ h₂ h₃ : Heap α} (a : NoGrow h₁ h₂) (b : NoGrow h₂ h₃) : NoGrow h₁ h₃ :=
  ⟨Nat.le_trans a.1 b.1, fun x hx => Nat.le_trans (b.2 x (Nat.lt_of_lt_of_le hx a.1)) (a.2 x hx)⟩

theorem Ext.noGrow {h h' : Heap α} (a : Ext none h h') : NoGrow h h' :=
  ⟨a.1, fun x hx => by rw [a.2 x hx (by simp)]; exact Nat.le_refl _⟩

theorem noGrow_wrBuf (h : Heap α) (d : BufId) (a : List α) (ha : a.length ≤ (rdBuf h d).length) :
    NoGrow h (wrBuf h d a) := by
  refine ⟨by simp, fun x hx => ?_⟩
  by_cases e : d = x
  · subst e; rw [rdBuf_wrBuf_eq _ _ hx]; exact ha
  · rw [rdBuf_wrBuf_ne _ _ e]; exact Nat.le_refl _

theorem noGrow_writeMap (h : Heap α) (d : BufId) (f : α → α) : NoGrow h (writeMap h d f) :=
  noGrow_wrBuf _ _ _ (by simp)

theorem noGrow_writeZip (h : Heap α) (d : BufId) (f : α → α → α) (b : BufId) :
    NoGrow h (writeZip h d f b) :=
  noGrow_wrBuf _ _ _ (by simp [List.length_zipWith]; exact Nat.min_le_left _ _)

theorem noGrow_writeZipLit (h : Heap α) (d : BufId) (f : α → α → α) (g : List α) :
    NoGrow h (writeZipLit h d f g) :=
  noGrow_wrBuf _ _ _ (by simp [List.length_zipWith]; exact Nat.min_le_left _ _)

theorem noGrow_foldl (f : Store α → Nat → Store α) (hf : ∀ s j, NoGrow s.heap (f s j).heap)
    (l : List Nat) (s : Store α) : NoGrow s.heap (l.foldl f s).heap := by
  induction l generalizing s with
  | nil => exact NoGrow.refl _
  | cons j l ih => exact (hf s j).trans (ih (f s j))

theorem accumulate_noGrow [Add α] [Zero α] (s : Store α) (i : Nat) (g : List α) :
    NoGrow s.heap (accumulate s i g).heap := by
  unfold accumulate; split
  · exact NoGrow.refl _
  · split
    · split
      · exact noGrow_writeZipLit _ _ _ _
      · exact (ext_allocMap _ _ _).noGrow.trans (noGrow_writeZipLit _ _ _ _)
    · exact NoGrow.refl _

theorem accumulateRoot_noGrow [Add α] (s : Store α) (i : Nat) (g : List α) :
    NoGrow s.heap (accumulateRoot s i g).heap := by
  unfold accumulateRoot; split
  · exact NoGrow.refl _
  · split
    · dsimp only; split <;> exact (ext_alloc _ _).noGrow
    · exact NoGrow.refl _

theorem zeroGradAt_noGrow [Zero α] (s : Store α) (i : Nat) : NoGrow s.heap (zeroGradAt s i).heap := by
  unfold zeroGradAt; split
  · exact NoGrow.refl _
  · split
    · exact (ext_allocMap _ _ _).noGrow
    · exact NoGrow.refl _

theorem setRg_noGrow (s : Store α) (i : Nat) (b : Bool) : NoGrow s.heap (setRg s i b).heap := by
  unfold setRg; split <;> exact NoGrow.refl _

section SGD
variable [Add α] [Sub α] [Mul α] [Div α] [Neg α] [Zero α] [One α]
set_option linter.unusedSectionVars false

theorem sgdStepAt_noGrow (c : SGDCfg α) (s : Store α) (i : Nat) : NoGrow s.heap (sgdStepAt c s i).heap := by
  unfold sgdStepAt sgdStepAtG
  split
  · exact NoGrow.refl _
  · split
    · dsimp only
      have e1 := (sgdGrad_ext c s.heap ‹PS›.data ‹BufId›).noGrow
      split
      · exact e1.trans ((sgdBuf_ext true c _ _ _).noGrow.trans ((sgdDir_ext c _ _ _).noGrow.trans
          (noGrow_writeZip _ _ _ _)))
      · exact e1.trans (noGrow_writeZip _ _ _ _)
    · exact NoGrow.refl _

theorem sgdEv_noGrow (c : SGDCfg α) (s : Store α) (e : Ev α) : NoGrow s.heap (sgdEv c s e).heap := by
  cases e with
  | backward i g => exact accumulate_noGrow s i g
  | backwardRoot i g => exact accumulateRoot_noGrow s i g
  | zeroGrad => exact noGrow_foldl zeroGradAt zeroGradAt_noGrow _ s
  | setRg i b => exact setRg_noGrow s i b
  | step => exact noGrow_foldl (sgdStepAt c) (sgdStepAt_noGrow c) _ s

theorem sgdRun_noGrow (c : SGDCfg α) (s : Store α) (evs : List (Ev α)) :
    NoGrow s.heap (sgdRun c s evs).heap := by
  induction evs generalizing s with
  | nil => exact NoGrow.refl _
  | cons e es ih => exact (sgdEv_noGrow c s e).trans (ih (sgdEv c s e))

end SGD

section Adam
variable [Add α] [Sub α] [Mul α] [Div α] [Neg α] [Zero α] [One α] [HPow α Nat α] [HasSqrt α]
set_option linter.unusedSectionVars false

theorem adamDecay_noGrow (c : AdamCfg α) (h : Heap α) (d g : BufId) : NoGrow h (adamDecay c h d g).1 := by
  unfold adamDecay; split
  · exact noGrow_writeMap _ _ _
  · split
    · exact (ext_allocZip _ _ _ _).noGrow
    · exact NoGrow.refl _

theorem adamStepAt_noGrow (c : AdamCfg α) (s : Store α) (i : Nat) : NoGrow s.heap (adamStepAt c s i).heap := by
  unfold adamStepAt
  split
  · exact NoGrow.refl _
  · split
    · rename_i p _ _ _ gb _ _
      dsimp only
      have e1 := (adamNeg_ext c s.heap gb).noGrow
      generalize adamNeg c s.heap gb = r1 at *
      have e2 := adamDecay_noGrow c r1.1 p.data r1.2
      generalize adamDecay c r1.1 p.data r1.2 = r2 at *
      have e3 := (adamM1_ext c r2.1 r2.2 (slot s .b1 i)).noGrow
      generalize adamM1 c r2.1 r2.2 (slot s .b1 i) = m1 at *
      have e4 := (adamM2_ext c m1.1 r2.2 (slot s .b2 i)).noGrow
      generalize adamM2 c m1.1 r2.2 (slot s .b2 i) = m2 at *
      refine e1.trans (e2.trans (e3.trans (e4.trans ?_)))
      unfold adamApply
      exact (ext_allocZip _ _ _ _).noGrow.trans (noGrow_writeZip _ _ _ _)
    · exact NoGrow.refl _

theorem adamEv_noGrow (c : AdamCfg α) (s : Store α) (e : Ev α) : NoGrow s.heap (adamEv c s e).heap := by
  cases e with
  | backward i g => exact accumulate_noGrow s i g
  | backwardRoot i g => exact accumulateRoot_noGrow s i g
  | zeroGrad => exact noGrow_foldl zeroGradAt zeroGradAt_noGrow _ s
  | setRg i b => exact setRg_noGrow s i b
  | step => exact noGrow_foldl (adamStepAt c) (adamStepAt_noGrow c) _ s

theorem adamRun_noGrow (c : AdamCfg α) (s : Store α) (evs : List (Ev α)) :
    NoGrow s.heap (adamRun c s evs).heap := by
  induction evs generalizing s with
  | nil => exact NoGrow.refl _
  | cons e es ih => exact (adamEv_noGrow c s e).trans (ih (adamEv c s e))

end Adam

end Proofs.OptimStore
