import Proofs.Core
import SynapModel.ConvTools
import Mathlib.Algebra.BigOperators.Group.Finset.Basic
import Mathlib.Algebra.BigOperators.Ring.Finset
import Mathlib.Algebra.BigOperators.Group.Finset.Sigma
import Mathlib.Algebra.BigOperators.Group.Finset.Piecewise
import Mathlib.Tactic.Ring
/-!
# Helper lemmas for C16 (im2col / col2im)

Index arithmetic for the three implementations of im2col / col2im, conversion of the list sums of
the model to `Finset` sums over `Finset.range`, and the generic summation lemmas used by the
adjoint theorems.
-/
namespace Proofs.ConvTools
open Synap Synap.NDArray Synap.Np Synap.ConvTools Proofs.Core

/-! ### index-function arrays -/
section Basic
variable {α : Type}

theorem ofFn_congr (s : Shape) (f g : Idx → α) (h : ∀ i, validIdx s i → f i = g i) :
    ofFn s f = ofFn s g := by
  unfold ofFn
  congr 1
  apply List.map_congr_left
  intro i hi
  exact h i ((mem_allIdx s i).1 hi)

@[simp] theorem getI_cons_zero (a : Nat) (l : Idx) : getI (a :: l) 0 = a := rfl
@[simp] theorem getI_cons_succ (a : Nat) (l : Idx) (k : Nat) : getI (a :: l) (k + 1) = getI l k := rfl
@[simp] theorem getI_nil (k : Nat) : getI [] k = 0 := rfl

theorem validIdx3 {a b c : Nat} {q : Idx} (h : validIdx [a, b, c] q) :
    ∃ i j k, q = [i, j, k] ∧ i < a ∧ j < b ∧ k < c := by
  match q, h with
  | [i, j, k], h => exact ⟨i, j, k, rfl, h.1, h.2.1, h.2.2.1⟩

theorem validIdx4 {a b c d : Nat} {q : Idx} (h : validIdx [a, b, c, d] q) :
    ∃ i j k l, q = [i, j, k, l] ∧ i < a ∧ j < b ∧ k < c ∧ l < d := by
  match q, h with
  | [i, j, k, l], h => exact ⟨i, j, k, l, rfl, h.1, h.2.1, h.2.2.1, h.2.2.2.1⟩

end Basic

/-! ### `repeat`, `tile`, `arange` -/

theorem length_repeatL (l : List Nat) (n : Nat) : (repeatL l n).length = l.length * n := by
  unfold repeatL
  induction l with
  | nil => simp
  | cons x l ih => simp [List.flatMap_cons, ih, Nat.add_mul, Nat.add_comm]

theorem getElem?_repeatL (l : List Nat) (n : Nat) (hn : 0 < n) (i : Nat) :
    (repeatL l n)[i]? = l[i / n]? := by
  unfold repeatL
  induction l generalizing i with
  | nil => simp
  | cons x l ih =>
    rw [List.flatMap_cons]
    by_cases h : i < n
    · rw [List.getElem?_append_left (by simpa using h), Nat.div_eq_of_lt h]
      simp [h]
    · have h' : n ≤ i := Nat.le_of_not_lt h
      rw [List.getElem?_append_right (by simpa using h'), List.length_replicate, ih]
      have : i / n = (i - n) / n + 1 := by
        rw [← Nat.sub_add_cancel h', Nat.add_div_right _ hn]; simp
      rw [this, List.getElem?_cons_succ]

theorem getElem?_tileL (l : List Nat) (n i : Nat) (h : i < n * l.length) :
    (tileL l n)[i]? = l[i % l.length]? := by
  have hpos : 0 < l.length := by
    rcases Nat.eq_zero_or_pos l.length with h0 | h0
    · rw [h0] at h; omega
    · exact h0
  unfold tileL
  have := getElem?_flatMap_range n l.length (fun _ => l) (fun _ => rfl) (i / l.length) (i % l.length)
    ((Nat.div_lt_iff_lt_mul hpos).2 h) (Nat.mod_lt _ hpos)
  rwa [Nat.div_add_mod' i l.length] at this

theorem length_arangeStep (n s : Nat) : (arangeStep n s).length = n := by simp [arangeStep]

theorem getElem?_arangeStep (n s i : Nat) (h : i < n) : (arangeStep n s)[i]? = some (i * s) := by
  simp [arangeStep, h]

/-! ### closed forms of the index arrays of `get_im2col_indices` -/
section ColIdx
variable (g : Geom) (lh lw : Nat)

theorem colIdx_k {r : Nat} (hk : 0 < g.k.1 ∧ 0 < g.k.2) (hr : r < g.c * g.k.1 * g.k.2) :
    (colIndices g lh lw).k.getD r 0 = r / (g.k.1 * g.k.2) := by
  have hK : 0 < g.k.1 * g.k.2 := Nat.mul_pos hk.1 hk.2
  have h1 : r / (g.k.1 * g.k.2) < g.c := by
    rw [Nat.div_lt_iff_lt_mul hK, ← Nat.mul_assoc]; exact hr
  simp only [colIndices, List.getD_eq_getElem?_getD, getElem?_repeatL _ _ hK,
    List.getElem?_range h1, Option.getD_some]

theorem colIdx_i0 {r : Nat} (hk : 0 < g.k.1 ∧ 0 < g.k.2) (hr : r < g.c * g.k.1 * g.k.2) :
    (colIndices g lh lw).i0.getD r 0 = (r / g.k.2 % g.k.1) * g.d.1 := by
  have hK : 0 < g.k.1 * g.k.2 := Nat.mul_pos hk.1 hk.2
  have hlen : (repeatL (arangeStep g.k.1 g.d.1) g.k.2).length = g.k.1 * g.k.2 := by
    rw [length_repeatL, length_arangeStep]
  have h1 : r < g.c * (repeatL (arangeStep g.k.1 g.d.1) g.k.2).length := by
    rw [hlen, ← Nat.mul_assoc]; exact hr
  have h2 : r % (g.k.1 * g.k.2) / g.k.2 = r / g.k.2 % g.k.1 := Nat.mod_mul_left_div_self _ _ _
  have h3 : r / g.k.2 % g.k.1 < g.k.1 := Nat.mod_lt _ hk.1
  simp only [colIndices, List.getD_eq_getElem?_getD]
  rw [getElem?_tileL _ _ _ h1, hlen, getElem?_repeatL _ _ hk.2, h2, getElem?_arangeStep _ _ _ h3,
    Option.getD_some]

theorem colIdx_j0 {r : Nat} (hk : 0 < g.k.1 ∧ 0 < g.k.2) (hr : r < g.c * g.k.1 * g.k.2) :
    (colIndices g lh lw).j0.getD r 0 = (r % g.k.2) * g.d.2 := by
  have h1 : r < g.k.1 * g.c * (arangeStep g.k.2 g.d.2).length := by
    rw [length_arangeStep, Nat.mul_comm g.k.1 g.c]; exact hr
  simp only [colIndices, List.getD_eq_getElem?_getD]
  rw [getElem?_tileL _ _ _ h1, length_arangeStep, getElem?_arangeStep _ _ _ (Nat.mod_lt _ hk.2),
    Option.getD_some]

theorem colIdx_i1 {l : Nat} (hl : l < lh * lw) :
    (colIndices g lh lw).i1.getD l 0 = g.s.1 * (l / lw) := by
  have hw : 0 < lw := by
    rcases Nat.eq_zero_or_pos lw with h0 | h0
    · rw [h0] at hl; omega
    · exact h0
  have h1 : l / lw < lh := (Nat.div_lt_iff_lt_mul hw).2 hl
  simp only [colIndices, List.getD_eq_getElem?_getD, List.getElem?_map, getElem?_repeatL _ _ hw,
    List.getElem?_range h1, Option.map_some, Option.getD_some]

theorem colIdx_j1 {l : Nat} (hl : l < lh * lw) :
    (colIndices g lh lw).j1.getD l 0 = g.s.2 * (l % lw) := by
  have hw : 0 < lw := by
    rcases Nat.eq_zero_or_pos lw with h0 | h0
    · rw [h0] at hl; omega
    · exact h0
  have h1 : l < lh * (List.range lw).length := by rw [List.length_range]; exact hl
  simp only [colIndices, List.getD_eq_getElem?_getD, List.getElem?_map]
  rw [getElem?_tileL _ _ _ h1, List.length_range, List.getElem?_range (Nat.mod_lt _ hw)]
  rfl

end ColIdx

/-! ### im2col: the three implementations against the specification -/
section Im2col
variable {α : Type} [Zero α]

theorem im2colIdx_eq_spec (g : Geom) (x : NDArray α) (pad : α) (hk : 0 < g.k.1 ∧ 0 < g.k.2) :
    im2colIdx g x pad = im2colSpec g x pad := by
  unfold im2colIdx im2colSpec
  congr 1
  funext ⟨lh, lw⟩
  apply ofFn_congr
  intro q hq
  obtain ⟨n, r, l, rfl, hn, hr, hl⟩ := validIdx3 hq
  simp only [getI_cons_zero, getI_cons_succ]
  unfold Geom.rows at hr
  rw [colIdx_k g lh lw hk hr, colIdx_i0 g lh lw hk hr, colIdx_j0 g lh lw hk hr, colIdx_i1 g lh lw hl,
    colIdx_j1 g lh lw hl]
  rw [Nat.add_comm (r / g.k.2 % g.k.1 * g.d.1), Nat.mul_comm g.s.1,
    Nat.add_comm (r % g.k.2 * g.d.2), Nat.mul_comm g.s.2]

theorem unravel3 (c k1 k2 r : Nat) :
    unravel [c, k1, k2] r = [r / (k1 * k2), r / k2 % k1, r % k2] := by
  simp only [unravel, Shape.size, List.foldr, Nat.mul_one, Nat.div_one]
  rw [Nat.mod_mul_left_div_self, Nat.mod_mod_of_dvd _ (Nat.dvd_mul_left _ _)]

theorem im2colLoop_eq_spec (g : Geom) (x : NDArray α) (pad : α) :
    im2colLoop g x pad = im2colSpec g x pad := by
  unfold im2colLoop im2colSpec
  congr 1
  funext ⟨lh, lw⟩
  apply ofFn_congr
  intro q _
  simp only [unravel3, getI_cons_zero, getI_cons_succ]

end Im2col

/-! ### `moveaxis` on rank-3 arrays, `reshapeTo` -/
section View
variable {α : Type} [Zero α]

theorem moveaxis3_0_2 (x : NDArray α) {a b c : Nat} (h : x.shape = [a, b, c]) :
    moveaxis x 0 2 = some (transposeP x [1, 2, 0]) := by
  simp [moveaxis, h, normAxis, moveaxisPerm, insertAt]
  rfl

theorem moveaxis3_2_0 (x : NDArray α) {a b c : Nat} (h : x.shape = [a, b, c]) :
    moveaxis x 2 0 = some (transposeP x [2, 0, 1]) := by
  simp [moveaxis, h, normAxis, moveaxisPerm, insertAt]
  rfl

theorem shape_transposeP_120 (x : NDArray α) {a b c : Nat} (h : x.shape = [a, b, c]) :
    (transposeP x [1, 2, 0]).shape = [b, c, a] := by
  simp [transposeP, gather, ofFn, permute, h]

theorem get_transposeP_120 (x : NDArray α) {a b c : Nat} (h : x.shape = [a, b, c]) {i j k : Nat}
    (hi : i < b) (hj : j < c) (hk : k < a) : (transposeP x [1, 2, 0]).get [i, j, k] = x.get [k, i, j] := by
  unfold transposeP
  rw [get_gather _ _ _ _ (by simp [permute, h, validIdx, hi, hj, hk])]
  rfl

theorem shape_transposeP_201 (x : NDArray α) {a b c : Nat} (h : x.shape = [a, b, c]) :
    (transposeP x [2, 0, 1]).shape = [c, a, b] := by
  simp [transposeP, gather, ofFn, permute, h]

theorem get_transposeP_201 (x : NDArray α) {a b c : Nat} (h : x.shape = [a, b, c]) {i j k : Nat}
    (hi : i < c) (hj : j < a) (hk : k < b) : (transposeP x [2, 0, 1]).get [i, j, k] = x.get [j, k, i] := by
  unfold transposeP
  rw [get_gather _ _ _ _ (by simp [permute, h, validIdx, hi, hj, hk])]
  rfl

theorem get_reshapeTo (x : NDArray α) (s : Shape) (j i : Idx) (hj : validIdx s j)
    (hi : validIdx x.shape i) (h : ravel s j = ravel x.shape i) : (reshapeTo x s).get j = x.get i := by
  unfold reshapeTo
  rw [get_gather _ _ _ _ hj, h, unravel_ravel _ _ hi]


theorem ravel_view (lh lw n c k1 k2 i j m cc a b : Nat) :
    ravel [lh * lw, n, c * k1 * k2] [i * lw + j, m, cc * (k1 * k2) + a * k2 + b]
      = ravel [lh, lw, n, c, k1, k2] [i, j, m, cc, a, b] := by
  simp only [ravel, Shape.size, List.foldr]
  ring

theorem row_decomp (r k1 k2 : Nat) :
    r / (k1 * k2) * (k1 * k2) + r / k2 % k1 * k2 + r % k2 = r := by
  have h1 := Nat.div_add_mod' r k2
  have h2 := Nat.div_add_mod' (r / k2) k1
  rw [Nat.div_div_eq_div_mul, Nat.mul_comm k2 k1] at h2
  calc r / (k1 * k2) * (k1 * k2) + r / k2 % k1 * k2 + r % k2
      = (r / (k1 * k2) * k1 + r / k2 % k1) * k2 + r % k2 := by ring
    _ = r := by rw [h2, h1]

theorem div_lt_of_lt_mul' {l lh lw : Nat} (h : l < lh * lw) : l / lw < lh ∧ l % lw < lw := by
  have hw : 0 < lw := by
    rcases Nat.eq_zero_or_pos lw with h0 | h0
    · rw [h0] at h; omega
    · exact h0
  exact ⟨(Nat.div_lt_iff_lt_mul hw).2 h, Nat.mod_lt _ hw⟩

/-- reading `np.moveaxis(wv.reshape(L, N, C·kH·kW), 0, 2)` -/
theorem get_view (wv : NDArray α) {lh lw n c k1 k2 : Nat} (hw : wv.shape = [lh, lw, n, c, k1, k2])
    (hk1 : 0 < k1) (hk2 : 0 < k2) {m r l : Nat} (hm : m < n) (hr : r < c * k1 * k2) (hl : l < lh * lw) :
    (transposeP (reshapeTo wv [lh * lw, n, c * k1 * k2]) [1, 2, 0]).get [m, r, l]
      = wv.get [l / lw, l % lw, m, r / (k1 * k2), r / k2 % k1, r % k2] := by
  rw [get_transposeP_120 _ (rfl : _ = [lh * lw, n, c * k1 * k2]) hm hr hl]
  have hK : 0 < k1 * k2 := Nat.mul_pos hk1 hk2
  obtain ⟨hi, hj⟩ := div_lt_of_lt_mul' hl
  have hc : r / (k1 * k2) < c := by
    rw [Nat.div_lt_iff_lt_mul hK, ← Nat.mul_assoc]; exact hr
  have hv : validIdx wv.shape [l / lw, l % lw, m, r / (k1 * k2), r / k2 % k1, r % k2] := by
    rw [hw]; exact ⟨hi, hj, hm, hc, Nat.mod_lt _ hk1, Nat.mod_lt _ hk2, trivial⟩
  have hrv := ravel_view lh lw n c k1 k2 (l / lw) (l % lw) m (r / (k1 * k2)) (r / k2 % k1) (r % k2)
  rw [Nat.div_add_mod', row_decomp, ← hw] at hrv
  exact get_reshapeTo wv [lh * lw, n, c * k1 * k2] [l, m, r] _ ⟨hl, hm, hr, trivial⟩ hv hrv

theorem im2colView_eq_spec (g : Geom) (x : NDArray α) (pad : α) (hk : 0 < g.k.1 ∧ 0 < g.k.2) :
    im2colView g x pad = im2colSpec g x pad := by
  unfold im2colView extractWindows im2colSpec
  cases ho : g.out with
  | none => rfl
  | some p =>
    obtain ⟨lh, lw⟩ := p
    simp only [Option.map_some, Option.bind_eq_bind, Option.bind_some]
    rw [moveaxis3_0_2 _ (rfl : _ = [lh * lw, g.n, g.rows])]
    congr 1
    have hsh := shape_transposeP_120 (reshapeTo
        (ofFn [lh, lw, g.n, g.c, g.k.1, g.k.2] fun q =>
          padGet g x pad (getI q 2) (getI q 3) (getI q 0 * g.s.1 + getI q 4 * g.d.1)
            (getI q 1 * g.s.2 + getI q 5 * g.d.2))
        [lh * lw, g.n, g.rows]) (rfl : _ = [lh * lw, g.n, g.rows])
    refine ext_get (transposeP _ _) _ (by unfold transposeP gather; exact ofFn_wf _ _) (ofFn_wf _ _)
      hsh ?_
    intro q hq
    rw [hsh] at hq
    obtain ⟨n, r, l, rfl, hn, hr, hl⟩ := validIdx3 hq
    rw [get_ofFn _ _ _ hq]
    unfold Geom.rows at hr ⊢
    rw [get_view _ rfl hk.1 hk.2 hn hr hl]
    obtain ⟨hi, hj⟩ := div_lt_of_lt_mul' hl
    have hc : r / (g.k.1 * g.k.2) < g.c := by
      rw [Nat.div_lt_iff_lt_mul (Nat.mul_pos hk.1 hk.2), ← Nat.mul_assoc]; exact hr
    have hv : validIdx [lh, lw, g.n, g.c, g.k.1, g.k.2]
        [l / lw, l % lw, n, r / (g.k.1 * g.k.2), r / g.k.2 % g.k.1, r % g.k.2] :=
      ⟨hi, hj, hn, hc, Nat.mod_lt _ hk.1, Nat.mod_lt _ hk.2, trivial⟩
    rw [get_ofFn _ _ _ hv]
    simp only [getI_cons_zero, getI_cons_succ]

end View

open Finset

section Sums
variable {M : Type} [AddCommMonoid M]

theorem sum_map_range (n : Nat) (f : Nat → M) :
    ((List.range n).map f).sum = ∑ i ∈ range n, f i := by
  induction n with
  | zero => simp
  | succ n ih => rw [List.range_succ, List.map_append, List.sum_append, ih, Finset.sum_range_succ]; simp

theorem sum_flatMap_range (n : Nat) (F : Nat → List M) :
    ((List.range n).flatMap F).sum = ∑ i ∈ range n, (F i).sum := by
  induction n with
  | zero => simp
  | succ n ih =>
    rw [List.range_succ, List.flatMap_append, List.sum_append, ih, Finset.sum_range_succ]; simp

theorem sum_allIdx_nil (F : Idx → M) : ((allIdx []).map F).sum = F [] := by simp [allIdx]

theorem sum_allIdx_cons (n : Nat) (s : Shape) (F : Idx → M) :
    ((allIdx (n :: s)).map F).sum = ∑ a ∈ range n, ((allIdx s).map (fun i => F (a :: i))).sum := by
  rw [allIdx, List.map_flatMap, sum_flatMap_range]
  simp only [List.map_map, Function.comp_def]

theorem sum_range_mul (m n : Nat) (f : Nat → M) :
    ∑ k ∈ range (m * n), f k = ∑ i ∈ range m, ∑ j ∈ range n, f (i * n + j) := by
  induction m with
  | zero => simp
  | succ m ih => rw [Nat.succ_mul, Finset.sum_range_add, ih, Finset.sum_range_succ]

/-- a sum of terms guarded by `t = k + p` picks out the entry `k = t - p` when it is in range -/
theorem sum_range_ite_add (n p t : Nat) (F : Nat → M) :
    ∑ k ∈ range n, (if t = k + p then F k else 0) = if p ≤ t ∧ t < p + n then F (t - p) else 0 := by
  by_cases h : p ≤ t ∧ t < p + n
  · rw [if_pos h, Finset.sum_eq_single (t - p)]
    · rw [if_pos (by omega)]
    · intro b _ hb
      rw [if_neg (by omega)]
    · intro hb
      exact absurd (Finset.mem_range.2 (by omega)) hb
  · rw [if_neg h]
    apply Finset.sum_eq_zero
    intro k hk
    have := Finset.mem_range.1 hk
    rw [if_neg (by omega)]

theorem sum_rot3 {s t u : Finset Nat} (f : Nat → Nat → Nat → M) :
    ∑ a ∈ s, ∑ b ∈ t, ∑ c ∈ u, f a b c = ∑ c ∈ u, ∑ a ∈ s, ∑ b ∈ t, f a b c := by
  rw [Finset.sum_comm (s := u)]
  apply Finset.sum_congr rfl
  intro a _
  rw [Finset.sum_comm]

end Sums

theorem lt_mul_of_lt {a b n m : Nat} (ha : a < n) (hb : b < m) : a * m + b < n * m :=
  calc a * m + b < a * m + m := by omega
    _ = (a + 1) * m := by rw [Nat.add_mul]; simp
    _ ≤ n * m := Nat.mul_le_mul_right _ ha

theorem div_mod_facts {a b k : Nat} (hb : b < k) : (a * k + b) / k = a ∧ (a * k + b) % k = b := by
  have hk : 0 < k := by omega
  constructor
  · rw [Nat.add_comm, Nat.add_mul_div_right _ _ hk, Nat.div_eq_of_lt hb, Nat.zero_add]
  · rw [Nat.add_comm, Nat.add_mul_mod_self_right, Nat.mod_eq_of_lt hb]

theorem row_facts {c ab k1 k2 : Nat} (hab : ab < k1 * k2) :
    (c * (k1 * k2) + ab) / (k1 * k2) = c ∧ (c * (k1 * k2) + ab) / k2 % k1 = ab / k2 ∧
    (c * (k1 * k2) + ab) % k2 = ab % k2 := by
  have hk2 : 0 < k2 := by
    rcases Nat.eq_zero_or_pos k2 with h0 | h0
    · rw [h0] at hab; omega
    · exact h0
  refine ⟨(div_mod_facts hab).1, ?_, ?_⟩
  · rw [← Nat.mul_assoc, Nat.add_comm, Nat.add_mul_div_right _ _ hk2, Nat.add_mul_mod_self_right,
      Nat.mod_eq_of_lt]
    rw [Nat.div_lt_iff_lt_mul hk2]; exact hab
  · rw [← Nat.mul_assoc, Nat.add_comm, Nat.add_mul_mod_self_right]

section Col2im
variable {R : Type} [CommRing R]

/-- the common 4-fold form -/
def foldVal (g : Geom) (cols : NDArray R) (lh lw n cc hh ww : Nat) : R :=
  ∑ i ∈ range lh, ∑ j ∈ range lw, ∑ a ∈ range g.k.1, ∑ b ∈ range g.k.2,
    if i * g.s.1 + a * g.d.1 = hh + g.p.1 ∧ j * g.s.2 + b * g.d.2 = ww + g.p.2
    then cols.get [n, cc * (g.k.1 * g.k.2) + (a * g.k.2 + b), i * lw + j] else 0

theorem col2imLoop_eq (g : Geom) (cols : NDArray R) (lh lw : Nat) (ho : g.out = some (lh, lw)) :
    col2imLoop g cols = some (ofFn [g.n, g.c, g.h, g.w] (fun q =>
      foldVal g cols lh lw (getI q 0) (getI q 1) (getI q 2) (getI q 3))) := by
  unfold col2imLoop foldVal
  rw [ho, Option.map_some]
  simp only [sum_flatMap_range, sum_map_range, ravel, Shape.size, List.foldr, Nat.mul_one, Nat.add_zero]

theorem sum_reindex4 {M : Type} [AddCommMonoid M] (k1 k2 lh lw : Nat) (F : Nat → Nat → M) :
    ∑ ab ∈ range (k1 * k2), ∑ l ∈ range (lh * lw), F ab l
      = ∑ i ∈ range lh, ∑ j ∈ range lw, ∑ a ∈ range k1, ∑ b ∈ range k2, F (a * k2 + b) (i * lw + j) := by
  rw [sum_range_mul]
  simp only [sum_range_mul lh lw]
  -- Σ a, Σ b, Σ i, Σ j  →  Σ i, Σ j, Σ a, Σ b
  rw [sum_rot3]
  apply Finset.sum_congr rfl
  intro i _
  rw [sum_rot3]

theorem col2imSpec_eq (g : Geom) (cols : NDArray R) (lh lw : Nat) (ho : g.out = some (lh, lw)) :
    col2imSpec g cols = some (ofFn [g.n, g.c, g.h, g.w] (fun q =>
      foldVal g cols lh lw (getI q 0) (getI q 1) (getI q 2) (getI q 3))) := by
  unfold col2imSpec foldVal
  rw [ho, Option.map_some]
  simp only [sum_flatMap_range, sum_map_range]
  congr 1
  apply ofFn_congr
  intro q _
  rw [sum_reindex4]
  refine Finset.sum_congr rfl (fun i _ => Finset.sum_congr rfl (fun j hj => Finset.sum_congr rfl
    (fun a _ => Finset.sum_congr rfl (fun b hb => ?_))))
  obtain ⟨h1, h2⟩ := div_mod_facts (a := a) (Finset.mem_range.1 hb)
  obtain ⟨h3, h4⟩ := div_mod_facts (a := i) (Finset.mem_range.1 hj)
  rw [h1, h2, h3, h4]

theorem col2imIdx_eq_spec (g : Geom) (cols : NDArray R) (hk : 0 < g.k.1 ∧ 0 < g.k.2) :
    col2imIdx g cols = col2imSpec g cols := by
  unfold col2imIdx col2imSpec
  congr 1
  funext ⟨lh, lw⟩
  apply ofFn_congr
  intro q hq
  obtain ⟨n, cc, hh, ww, rfl, hn, hc, -, -⟩ := validIdx4 hq
  simp only [sum_flatMap_range, sum_map_range, getI_cons_zero, getI_cons_succ]
  unfold Geom.rows
  rw [Nat.mul_assoc, sum_range_mul, Finset.sum_eq_single cc]
  · refine Finset.sum_congr rfl (fun ab hab => Finset.sum_congr rfl (fun l hl => ?_))
    have hab' := Finset.mem_range.1 hab
    have hr : cc * (g.k.1 * g.k.2) + ab < g.c * g.k.1 * g.k.2 := by
      rw [Nat.mul_assoc]; exact lt_mul_of_lt hc hab'
    obtain ⟨f1, f2, f3⟩ := row_facts (c := cc) hab'
    rw [colIdx_k g lh lw hk hr, colIdx_i0 g lh lw hk hr, colIdx_j0 g lh lw hk hr,
      colIdx_i1 g lh lw (Finset.mem_range.1 hl), colIdx_j1 g lh lw (Finset.mem_range.1 hl), f1, f2, f3]
    rw [Nat.add_comm (ab / g.k.2 * g.d.1), Nat.mul_comm g.s.1,
      Nat.add_comm (ab % g.k.2 * g.d.2), Nat.mul_comm g.s.2]
    exact if_congr (by simp) rfl rfl
  · intro c' hc' hne
    refine Finset.sum_eq_zero (fun ab hab => Finset.sum_eq_zero (fun l hl => ?_))
    have hab' := Finset.mem_range.1 hab
    have hr : c' * (g.k.1 * g.k.2) + ab < g.c * g.k.1 * g.k.2 := by
      rw [Nat.mul_assoc]; exact lt_mul_of_lt (Finset.mem_range.1 hc') hab'
    rw [colIdx_k g lh lw hk hr, (row_facts (c := c') hab').1]
    exact if_neg (fun h => hne h.1)
  · intro h
    exact absurd (Finset.mem_range.2 hc) h

/-- reading `np.moveaxis(cols, 2, 0).reshape(lH, lW, N, C, kH, kW)` -/
theorem get_view2 (cols : NDArray R) {lh lw n c k1 k2 : Nat} (hs : cols.shape = [n, c * k1 * k2, lh * lw])
    {i j m cc a b : Nat} (hi : i < lh) (hj : j < lw) (hm : m < n) (hc : cc < c) (ha : a < k1) (hb : b < k2) :
    (reshapeTo (transposeP cols [2, 0, 1]) [lh, lw, n, c, k1, k2]).get [i, j, m, cc, a, b]
      = cols.get [m, cc * (k1 * k2) + (a * k2 + b), i * lw + j] := by
  have hl : i * lw + j < lh * lw := lt_mul_of_lt hi hj
  have hr : cc * (k1 * k2) + (a * k2 + b) < c * k1 * k2 := by
    rw [Nat.mul_assoc]; exact lt_mul_of_lt hc (lt_mul_of_lt ha hb)
  have hsh := shape_transposeP_201 cols hs
  have hv : validIdx (transposeP cols [2, 0, 1]).shape [i * lw + j, m, cc * (k1 * k2) + (a * k2 + b)] := by
    rw [hsh]; exact ⟨hl, hm, hr, trivial⟩
  have hrv := (ravel_view lh lw n c k1 k2 i j m cc a b).symm
  rw [Nat.add_assoc, ← hsh] at hrv
  have hv0 : validIdx [lh, lw, n, c, k1, k2] [i, j, m, cc, a, b] := ⟨hi, hj, hm, hc, ha, hb, trivial⟩
  rw [get_reshapeTo _ _ _ _ hv0 hv hrv, get_transposeP_201 cols hs hl hm hr]

theorem col2imView_eq (g : Geom) (cols : NDArray R) (lh lw : Nat) (ho : g.out = some (lh, lw))
    (hs : cols.shape = [g.n, g.rows, lh * lw]) :
    col2imView g cols = some (ofFn [g.n, g.c, g.h, g.w] (fun q =>
      foldVal g cols lh lw (getI q 0) (getI q 1) (getI q 2) (getI q 3))) := by
  unfold col2imView placeWindows foldVal
  rw [ho, moveaxis3_2_0 cols hs]
  simp only [Option.map_some, Option.bind_eq_bind, Option.bind_some]
  congr 1
  apply ofFn_congr
  intro q hq
  obtain ⟨n, cc, hh, ww, rfl, hn, hc, -, -⟩ := validIdx4 hq
  simp only [sum_flatMap_range, sum_map_range]
  refine Finset.sum_congr rfl (fun i hi => Finset.sum_congr rfl (fun j hj => Finset.sum_congr rfl
    (fun a ha => Finset.sum_congr rfl (fun b hb => ?_))))
  exact if_congr Iff.rfl (get_view2 cols hs (Finset.mem_range.1 hi) (Finset.mem_range.1 hj) hn hc
    (Finset.mem_range.1 ha) (Finset.mem_range.1 hb)) rfl

end Col2im

/-! ### adjoint identities -/
section Adjoint
variable {R : Type} [CommRing R]

theorem sum_swap22 {M : Type} [AddCommMonoid M] (s t u v : Finset Nat) (f : Nat → Nat → Nat → Nat → M) :
    ∑ a ∈ s, ∑ b ∈ t, ∑ c ∈ u, ∑ d ∈ v, f a b c d = ∑ c ∈ u, ∑ d ∈ v, ∑ a ∈ s, ∑ b ∈ t, f a b c d := by
  rw [sum_rot3]
  apply Finset.sum_congr rfl
  intro i _
  rw [sum_rot3]

theorem dot_ofFn_right (x : NDArray R) (s : Shape) (f : Idx → R) (hs : x.shape = s) :
    dot x (ofFn s f) = ((allIdx s).map (fun i => x.get i * f i)).sum := by
  rw [dot_eq_sum, hs]
  congr 1
  apply List.map_congr_left
  intro i hi
  rw [get_ofFn s f i ((mem_allIdx s i).1 hi)]

/-- the zero-padded read as a guarded sum over the pixels of the image -/
theorem padGet_eq_sum (g : Geom) (x : NDArray R) (n c ih iw : Nat) :
    padGet g x 0 n c ih iw = ∑ hh ∈ range g.h, ∑ ww ∈ range g.w,
      if ih = hh + g.p.1 ∧ iw = ww + g.p.2 then x.get [n, c, hh, ww] else 0 := by
  unfold padGet
  by_cases hin : g.p.1 ≤ ih ∧ ih < g.p.1 + g.h ∧ g.p.2 ≤ iw ∧ iw < g.p.2 + g.w
  · rw [if_pos hin, Finset.sum_eq_single (ih - g.p.1), Finset.sum_eq_single (iw - g.p.2)]
    · rw [if_pos (by omega)]
    · intro b _ hb
      rw [if_neg (by omega)]
    · intro hb
      exact absurd (Finset.mem_range.2 (by omega)) hb
    · intro b _ hb
      exact Finset.sum_eq_zero (fun ww _ => if_neg (by omega))
    · intro hb
      exact absurd (Finset.mem_range.2 (by omega)) hb
  · rw [if_neg hin]
    symm
    refine Finset.sum_eq_zero (fun hh hhh => Finset.sum_eq_zero (fun ww hww => if_neg ?_))
    have := Finset.mem_range.1 hhh
    have := Finset.mem_range.1 hww
    omega

/-- exchange of summation behind every adjoint identity of this file -/
theorem adjoint_core (A B H W : Finset Nat) (P : Nat → Nat → Nat → Nat → Prop)
    [∀ a b h w, Decidable (P a b h w)] (X : Nat → Nat → R) (Y : Nat → Nat → R) :
    ∑ a ∈ A, ∑ b ∈ B, (∑ h ∈ H, ∑ w ∈ W, if P a b h w then X h w else 0) * Y a b
      = ∑ h ∈ H, ∑ w ∈ W, X h w * ∑ a ∈ A, ∑ b ∈ B, if P a b h w then Y a b else 0 := by
  simp only [Finset.sum_mul, Finset.mul_sum]
  rw [sum_swap22]
  refine Finset.sum_congr rfl (fun h _ => Finset.sum_congr rfl (fun w _ => Finset.sum_congr rfl
    (fun a _ => Finset.sum_congr rfl (fun b _ => ?_))))
  split_ifs <;> simp

theorem col2im_adjoint (g : Geom) (x y : NDArray R) (hs : x.shape = [g.n, g.c, g.h, g.w])
    (lh lw : Nat) (ho : g.out = some (lh, lw)) :
    ∃ u v, im2colSpec g x 0 = some u ∧ col2imSpec g y = some v ∧ dot u y = dot x v := by
  refine ⟨_, _, by rw [im2colSpec, ho]; rfl, by rw [col2imSpec, ho]; rfl, ?_⟩
  rw [dot_ofFn, dot_ofFn_right _ _ _ hs]
  simp only [sum_allIdx_cons, sum_allIdx_nil, sum_flatMap_range, sum_map_range, getI_cons_zero,
    getI_cons_succ]
  unfold Geom.rows
  refine Finset.sum_congr rfl (fun n _ => ?_)
  rw [Nat.mul_assoc, sum_range_mul]
  refine Finset.sum_congr rfl (fun c _ => ?_)
  have key := adjoint_core (range (g.k.1 * g.k.2)) (range (lh * lw)) (range g.h) (range g.w)
    (fun ab l hh ww => l / lw * g.s.1 + ab / g.k.2 * g.d.1 = hh + g.p.1 ∧
      l % lw * g.s.2 + ab % g.k.2 * g.d.2 = ww + g.p.2)
    (fun hh ww => x.get [n, c, hh, ww]) (fun ab l => y.get [n, c * (g.k.1 * g.k.2) + ab, l])
  refine Eq.trans ?_ key
  refine Finset.sum_congr rfl (fun ab hab => Finset.sum_congr rfl (fun l _ => ?_))
  obtain ⟨f1, f2, f3⟩ := row_facts (c := c) (Finset.mem_range.1 hab)
  rw [f1, f2, f3, padGet_eq_sum]

theorem adjoint_core4 (I J A B H W : Finset Nat) (P : Nat → Nat → Nat → Nat → Nat → Nat → Prop)
    [∀ i j a b h w, Decidable (P i j a b h w)] (X : Nat → Nat → R) (Y : Nat → Nat → Nat → Nat → R) :
    ∑ i ∈ I, ∑ j ∈ J, ∑ a ∈ A, ∑ b ∈ B,
        (∑ h ∈ H, ∑ w ∈ W, if P i j a b h w then X h w else 0) * Y i j a b
      = ∑ h ∈ H, ∑ w ∈ W, X h w *
          ∑ i ∈ I, ∑ j ∈ J, ∑ a ∈ A, ∑ b ∈ B, if P i j a b h w then Y i j a b else 0 := by
  simp only [Finset.sum_mul, Finset.mul_sum]
  refine Eq.trans (Finset.sum_congr rfl (fun i _ => Finset.sum_congr rfl (fun j _ =>
    sum_swap22 A B H W _))) ?_
  refine Eq.trans (sum_swap22 I J H W _) ?_
  refine Finset.sum_congr rfl (fun h _ => Finset.sum_congr rfl (fun w _ => Finset.sum_congr rfl
    (fun i _ => Finset.sum_congr rfl (fun j _ => Finset.sum_congr rfl (fun a _ =>
      Finset.sum_congr rfl (fun b _ => ?_))))))
  split_ifs <;> simp

theorem extract_place_adjoint_aux (g : Geom) (x w : NDArray R) (hs : x.shape = [g.n, g.c, g.h, g.w])
    (lh lw : Nat) (ho : g.out = some (lh, lw)) :
    ∃ u v, extractWindows g x 0 = some u ∧ placeWindows g w = some v ∧ dot u w = dot x v := by
  refine ⟨_, _, by rw [extractWindows, ho]; rfl, by rw [placeWindows, ho]; rfl, ?_⟩
  rw [dot_ofFn, dot_ofFn_right _ _ _ hs]
  simp only [sum_allIdx_cons, sum_allIdx_nil, sum_flatMap_range, sum_map_range, getI_cons_zero,
    getI_cons_succ]
  refine Eq.trans (sum_swap22 (range lh) (range lw) (range g.n) (range g.c) _) ?_
  refine Finset.sum_congr rfl (fun n _ => Finset.sum_congr rfl (fun c _ => ?_))
  have key := adjoint_core4 (range lh) (range lw) (range g.k.1) (range g.k.2) (range g.h) (range g.w)
    (fun i j a b hh ww => i * g.s.1 + a * g.d.1 = hh + g.p.1 ∧ j * g.s.2 + b * g.d.2 = ww + g.p.2)
    (fun hh ww => x.get [n, c, hh, ww]) (fun i j a b => w.get [i, j, n, c, a, b])
  refine Eq.trans ?_ key
  simp only [padGet_eq_sum]

theorem padGet_inside (g : Geom) (x : NDArray R) (pad : R) (n c hh ww : Nat) (hh' : hh < g.h) (hw' : ww < g.w) :
    padGet g x pad n c (hh + g.p.1) (ww + g.p.2) = x.get [n, c, hh, ww] := by
  unfold padGet
  rw [if_pos (by omega), Nat.add_sub_cancel, Nat.add_sub_cancel]

theorem col2imSpec_get (g : Geom) (cols v : NDArray R) (lh lw : Nat) (ho : g.out = some (lh, lw))
    (hv : col2imSpec g cols = some v) {n c hh ww : Nat} (hn : n < g.n) (hc : c < g.c) (hh' : hh < g.h)
    (hw' : ww < g.w) :
    v.get [n, c, hh, ww] = ∑ ab ∈ range (g.k.1 * g.k.2), ∑ l ∈ range (lh * lw),
      if l / lw * g.s.1 + ab / g.k.2 * g.d.1 = hh + g.p.1 ∧ l % lw * g.s.2 + ab % g.k.2 * g.d.2 = ww + g.p.2
      then cols.get [n, c * (g.k.1 * g.k.2) + ab, l] else 0 := by
  rw [col2imSpec, ho, Option.map_some] at hv
  have hv' := (Option.some.inj hv).symm
  subst hv'
  have hq : validIdx [g.n, g.c, g.h, g.w] [n, c, hh, ww] := ⟨hn, hc, hh', hw', trivial⟩
  rw [get_ofFn _ _ _ hq]
  simp only [sum_flatMap_range, sum_map_range]
  rfl

theorem im2colSpec_get (g : Geom) (x u : NDArray R) (pad : R) (lh lw : Nat) (ho : g.out = some (lh, lw))
    (hu : im2colSpec g x pad = some u) {n r l : Nat} (hn : n < g.n) (hr : r < g.c * g.k.1 * g.k.2)
    (hl : l < lh * lw) :
    u.get [n, r, l] = padGet g x pad n (r / (g.k.1 * g.k.2))
      (l / lw * g.s.1 + r / g.k.2 % g.k.1 * g.d.1) (l % lw * g.s.2 + r % g.k.2 * g.d.2) := by
  rw [im2colSpec, ho, Option.map_some] at hu
  have hu' := (Option.some.inj hu).symm
  subst hu'
  have hq : validIdx [g.n, g.rows, lh * lw] [n, r, l] := ⟨hn, hr, hl, trivial⟩
  rw [get_ofFn _ _ _ hq]
  rfl

theorem cover_cast (g : Geom) (lh lw hh ww : Nat) :
    ((((List.range lh).flatMap (fun i => (List.range lw).flatMap (fun j =>
        (List.range g.k.1).flatMap (fun a => (List.range g.k.2).map (fun b =>
          if i * g.s.1 + a * g.d.1 = hh + g.p.1 ∧ j * g.s.2 + b * g.d.2 = ww + g.p.2 then 1 else 0))))).sum
        : Nat) : R)
      = ∑ ab ∈ range (g.k.1 * g.k.2), ∑ l ∈ range (lh * lw),
          if l / lw * g.s.1 + ab / g.k.2 * g.d.1 = hh + g.p.1 ∧ l % lw * g.s.2 + ab % g.k.2 * g.d.2 = ww + g.p.2
          then (1 : R) else 0 := by
  simp only [sum_flatMap_range, sum_map_range, Nat.cast_sum, Nat.cast_ite, Nat.cast_one, Nat.cast_zero]
  rw [sum_reindex4]
  refine Finset.sum_congr rfl (fun i _ => Finset.sum_congr rfl (fun j hj => Finset.sum_congr rfl
    (fun a _ => Finset.sum_congr rfl (fun b hb => ?_))))
  obtain ⟨h1, h2⟩ := div_mod_facts (a := a) (Finset.mem_range.1 hb)
  obtain ⟨h3, h4⟩ := div_mod_facts (a := i) (Finset.mem_range.1 hj)
  rw [h1, h2, h3, h4]

theorem fold_unfold_aux (g : Geom) (x : NDArray R) (lh lw : Nat) (ho : g.out = some (lh, lw)) :
    ∃ u v, im2colSpec g x 0 = some u ∧ col2imSpec g u = some v ∧
      ∀ n c hh ww, n < g.n → c < g.c → hh < g.h → ww < g.w →
        v.get [n, c, hh, ww] =
          ((((List.range lh).flatMap (fun i => (List.range lw).flatMap (fun j =>
            (List.range g.k.1).flatMap (fun a => (List.range g.k.2).map (fun b =>
              if i * g.s.1 + a * g.d.1 = hh + g.p.1 ∧ j * g.s.2 + b * g.d.2 = ww + g.p.2 then 1 else 0))))).sum
            : Nat) : R) * x.get [n, c, hh, ww] := by
  obtain ⟨u, hu⟩ : ∃ u, im2colSpec g x 0 = some u := ⟨_, by rw [im2colSpec, ho]; rfl⟩
  obtain ⟨v, hv⟩ : ∃ v, col2imSpec g u = some v := ⟨_, by rw [col2imSpec, ho]; rfl⟩
  refine ⟨u, v, hu, hv, ?_⟩
  intro n c hh ww hn hc hh' hw'
  rw [col2imSpec_get g u v lh lw ho hv hn hc hh' hw', cover_cast, Finset.sum_mul]
  refine Finset.sum_congr rfl (fun ab hab => ?_)
  rw [Finset.sum_mul]
  refine Finset.sum_congr rfl (fun l hl => ?_)
  have hab' := Finset.mem_range.1 hab
  have hr : c * (g.k.1 * g.k.2) + ab < g.c * g.k.1 * g.k.2 := by
    rw [Nat.mul_assoc]; exact lt_mul_of_lt hc hab'
  obtain ⟨f1, f2, f3⟩ := row_facts (c := c) hab'
  rw [im2colSpec_get g x u 0 lh lw ho hu hn hr (Finset.mem_range.1 hl), f1, f2, f3]
  split_ifs with hcond
  · rw [hcond.1, hcond.2, padGet_inside g x 0 n c hh ww hh' hw', one_mul]
  · rw [zero_mul]

end Adjoint

end Proofs.ConvTools
