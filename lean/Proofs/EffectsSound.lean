import SynapModel.Effects
/-!
# Soundness of the may-alias analysis of effect programs (C11, stage 2)

`safe k = true` implies: whatever buffers the parameters are bound to on entry (aliased or not)
and whatever finite sequence of statements of the body runs, with whatever oracle choices, the
contents of the buffer of every protected parameter are the same afterwards as before.

The proof does not look at `solve`: it only uses that the points-to map is `closed` and that
`writesOk` holds, so the solver is not part of what has to be trusted.
-/
namespace Proofs.Effects
open Synap.Effects

/-- bit `q` of row `v` is the root bit `(v, q)` -/
theorem testBit_row (np pts v q : Nat) : (row np pts v).testBit q = (decide (q < np) && hasRoot np pts v q) := by
  unfold row hasRoot
  rw [Nat.testBit_mod_two_pow, Nat.testBit_shiftRight]

/-- the row comparison of `closedStmt` means inclusion of root sets -/
theorem row_sub {np pts u v : Nat} (h : (row np pts u ||| row np pts v) = row np pts v) {q : Nat}
    (hq : q < np) (hu : hasRoot np pts u q = true) : hasRoot np pts v q = true := by
  have h1 := congrArg (fun n => n.testBit q) h
  simp only [Nat.testBit_or, testBit_row, hq, decide_true, Bool.true_and, hu, Bool.true_or] at h1
  exact h1.symm

/-- the invariant kept by every step: buffers bound to variables exist; a variable bound to a
    buffer that existed on entry refers to the initial buffer of one of the roots recorded for it;
    the buffers of protected parameters still hold their initial contents -/
structure Inv (k : Kernel) (pts : Pts) (s0 s : State) : Prop where
  next_le : s0.next ≤ s.next
  allocated : ∀ v b, s.env v = some b → b < s.next
  root : ∀ v b, s.env v = some b → b < s0.next →
    ∃ q, q < k.nparams ∧ hasRoot k.nparams pts v q = true ∧ s0.env q = some b
  kept : ∀ p ∈ k.protectedParams, ∀ b, s0.env p = some b → s.mem b = s0.mem b

theorem inv_entry (k : Kernel) (pts : Pts) (s0 : State)
    (hc : closed k.nparams pts k.body = true) (he : Entry k s0) : Inv k pts s0 s0 := by
  refine ⟨Nat.le_refl _, he.allocated, ?_, fun _ _ _ _ => rfl⟩
  intro v b hv _
  have hlt := he.onlyParams v b hv
  refine ⟨v, hlt, ?_, hv⟩
  unfold closed at hc
  rw [Bool.and_eq_true, List.all_eq_true] at hc
  exact hc.1 v (List.mem_range.mpr hlt)

theorem inv_alloc (k : Kernel) (pts : Pts) (s0 s : State) (he : Entry k s0) (v : Nat) (c : List Int)
    (h : Inv k pts s0 s) : Inv k pts s0 (s.alloc v c) := by
  refine ⟨?_, ?_, ?_, ?_⟩
  · show s0.next ≤ s.next + 1
    exact Nat.le_succ_of_le h.next_le
  · intro w b hw
    show b < s.next + 1
    simp only [State.alloc, upd] at hw
    split at hw
    · cases hw; exact Nat.lt_succ_self _
    · exact Nat.lt_succ_of_lt (h.allocated w b hw)
  · intro w b hw hb
    simp only [State.alloc, upd] at hw
    split at hw
    · cases hw
      exact absurd hb (Nat.not_lt.mpr h.next_le)
    · exact h.root w b hw hb
  · intro p hp b hb
    have hlt : b < s.next := Nat.lt_of_lt_of_le (he.allocated p b hb) h.next_le
    show upd s.mem s.next c b = s0.mem b
    unfold upd
    rw [if_neg (Nat.ne_of_lt hlt)]
    exact h.kept p hp b hb

theorem inv_step (k : Kernel) (pts : Pts) (s0 s t : State) (he : Entry k s0) (hsep : Separated k s0)
    (hc : closed k.nparams pts k.body = true) (hw : writesOk k.nparams pts k.protectedParams k.body = true)
    (h : Inv k pts s0 s) (st : Step k.body s t) : Inv k pts s0 t := by
  cases st with
  | fresh v c _ => exact inv_alloc k pts s0 s he v c h
  | aliasNew v srcs c _ => exact inv_alloc k pts s0 s he v c h
  | aliasSrc v srcs u b hmem hu hb =>
    have hcl : ∀ x, x < k.nparams → hasRoot k.nparams pts u x = true → hasRoot k.nparams pts v x = true := by
      unfold closed at hc
      rw [Bool.and_eq_true, List.all_eq_true, List.all_eq_true] at hc
      have h1 := hc.2 _ hmem
      simp only [closedStmt, List.all_eq_true] at h1
      intro x hx hxu
      exact row_sub (by simpa using h1 u hu) hx hxu
    refine ⟨h.next_le, ?_, ?_, h.kept⟩
    · intro w b' hw'
      simp only [upd] at hw'
      split at hw'
      · cases hw'; exact h.allocated u b hb
      · exact h.allocated w b' hw'
    · intro w b' hw' hb'
      simp only [upd] at hw'
      split at hw'
      · rename_i hwv
        cases hw'
        obtain ⟨q, hq, hqu, hq0⟩ := h.root u b hb hb'
        exact ⟨q, hq, hwv ▸ hcl q hq hqu, hq0⟩
      · exact h.root w b' hw' hb'
  | write v b c hmem hb =>
    refine ⟨h.next_le, h.allocated, h.root, ?_⟩
    intro p hp b' hb'
    show upd s.mem b c b' = s0.mem b'
    unfold upd
    by_cases hbb : b' = b
    · -- the written buffer is the initial buffer of a protected parameter: impossible
      exfalso
      subst hbb
      obtain ⟨q, hqlt, hqv, hq0⟩ := h.root v b' hb (he.allocated p b' hb')
      have hqp : q ∈ k.protectedParams := hsep p hp q b' hb' hq0
      unfold writesOk at hw
      rw [List.all_eq_true] at hw
      have h1 := hw _ hmem
      simp only [List.all_eq_true] at h1
      have h2 := h1 q (List.mem_range.mpr hqlt)
      simp [hqv, hqp] at h2
    · rw [if_neg hbb]
      exact h.kept p hp b' hb'

theorem inv_trace (k : Kernel) (pts : Pts) (s0 s t : State) (he : Entry k s0) (hsep : Separated k s0)
    (hc : closed k.nparams pts k.body = true) (hw : writesOk k.nparams pts k.protectedParams k.body = true)
    (h : Inv k pts s0 s) (tr : Trace k.body s t) : Inv k pts s0 t := by
  induction tr with
  | done _ => exact h
  | step st _ ih => exact ih (inv_step k pts s0 _ _ he hsep hc hw h st)

/-- **Soundness for any certified points-to map**: a `closed` map under which `writesOk` holds
    guarantees that no execution changes the buffer of a protected parameter. -/
theorem certified_sound (k : Kernel) (pts : Pts)
    (hc : closed k.nparams pts k.body = true) (hw : writesOk k.nparams pts k.protectedParams k.body = true)
    (s0 s : State) (he : Entry k s0) (hsep : Separated k s0) (tr : Trace k.body s0 s) :
    ∀ p ∈ k.protectedParams, ∀ b, s0.env p = some b → s.mem b = s0.mem b :=
  (inv_trace k pts s0 s0 s he hsep hc hw (inv_entry k pts s0 hc he) tr).kept

/-- **Soundness of `safe`.**  If `safe k = true` then for every entry state (any binding of the
    parameters to existing buffers, aliased or not, provided no protected parameter shares its
    buffer with an output parameter) and every trace over `k.body`, the contents of the buffer of
    every protected parameter after the trace equal its contents before. -/
theorem safe_sound (k : Kernel) (hs : safe k = true)
    (s0 s : State) (he : Entry k s0) (hsep : Separated k s0) (tr : Trace k.body s0 s) :
    ∀ p ∈ k.protectedParams, ∀ b, s0.env p = some b → s.mem b = s0.mem b := by
  unfold safe at hs
  rw [Bool.and_eq_true] at hs
  exact certified_sound k (solve k) hs.1 hs.2 s0 s he hsep tr

/-- **What a variable can be bound to.**  Under a certified points-to map, whenever a variable is
    bound to a buffer that existed on entry, that buffer is the entry buffer of one of the roots
    recorded for the variable. -/
theorem roots_sound (k : Kernel) (pts : Pts) (hc : closed k.nparams pts k.body = true)
    (hw : writesOk k.nparams pts k.protectedParams k.body = true)
    (s0 s : State) (he : Entry k s0) (hsep : Separated k s0) (tr : Trace k.body s0 s)
    (v b : Nat) (hv : s.env v = some b) (hb : b < s0.next) :
    ∃ q, q < k.nparams ∧ hasRoot k.nparams pts v q = true ∧ s0.env q = some b :=
  (inv_trace k pts s0 s0 s he hsep hc hw (inv_entry k pts s0 hc he) tr).root v b hv hb

/-- **Soundness of `returnsFresh`.**  If `safe k` and `returnsFresh k` then, after every trace from
    every entry state, the result variable is bound (if at all) to a buffer that did not exist on
    entry — in particular to none of the buffers the parameters were bound to, however they alias. -/
theorem returnsFresh_sound (k : Kernel) (hs : safe k = true) (hf : returnsFresh k = true)
    (s0 s : State) (he : Entry k s0) (hsep : Separated k s0) (tr : Trace k.body s0 s)
    (b : Nat) (hr : s.env k.ret = some b) : s0.next ≤ b ∧ ∀ p b', s0.env p = some b' → b' ≠ b := by
  unfold safe at hs
  rw [Bool.and_eq_true] at hs
  unfold returnsFresh at hf
  rw [Bool.and_eq_true] at hf
  have h0 : row k.nparams (solve k) k.ret = 0 := by simpa using hf.2
  have hge : s0.next ≤ b := by
    apply Nat.le_of_not_lt
    intro hlt
    obtain ⟨q, hq, hqr, _⟩ := roots_sound k (solve k) hs.1 hs.2 s0 s he hsep tr k.ret b hr hlt
    have h1 := testBit_row k.nparams (solve k) k.ret q
    rw [h0] at h1
    simp [hq, hqr] at h1
  refine ⟨hge, ?_⟩
  intro p b' hp heq
  have := he.allocated p b' hp
  omega

/-- when every parameter is protected, no separation hypothesis is needed: the parameters may
    alias one another in any way -/
theorem separated_of_allProtected (k : Kernel) (ha : allProtected k = true) (s0 : State) (he : Entry k s0) :
    Separated k s0 := by
  intro p _ q b _ hq
  unfold allProtected at ha
  rw [List.all_eq_true] at ha
  simpa using ha q (List.mem_range.mpr (he.onlyParams q b hq))

/-- **Soundness, all parameters protected**: for every binding of the parameters (any aliasing
    pattern) and every trace, the buffer of every parameter keeps its contents. -/
theorem safe_sound_all (k : Kernel) (hs : safe k = true) (ha : allProtected k = true)
    (s0 s : State) (he : Entry k s0) (tr : Trace k.body s0 s) :
    ∀ p b, s0.env p = some b → s.mem b = s0.mem b := by
  intro p b hp
  have hlt := he.onlyParams p b hp
  have hpp : p ∈ k.protectedParams := by
    unfold allProtected at ha
    rw [List.all_eq_true] at ha
    simpa using ha p (List.mem_range.mpr hlt)
  exact safe_sound k hs s0 s he (separated_of_allProtected k ha s0 he) tr p hpp b hp

/-! ### Non-vacuity -/

/-- `def f(x, y): v = x.reshape(-1); out = np.zeros(…); out[…] = v; w = out[1:]; w += y; return w` -/
def goodKernel : Kernel :=
  { name := "good", file := "", line := 0, nparams := 2, protectedParams := [0, 1], ret := 5,
    body := [.assign 2 (.alias [0]), .assign 3 .fresh, .write 3, .assign 4 (.alias [3]), .write 4,
             .assign 5 (.alias [4])] }

/-- `def f(x, y): v = x.reshape(-1); w = v[1:]; w[0] = 0` — a write through a view of a view of `x` -/
def badKernel : Kernel :=
  { name := "bad", file := "", line := 0, nparams := 2, protectedParams := [0, 1], ret := 3,
    body := [.assign 2 (.alias [0]), .assign 3 (.alias [2]), .write 3] }

/-- the order of the statements does not matter: `t[0] = 0; t = x` (in a loop, the write of the
    second iteration hits `x`) -/
def badLoopKernel : Kernel :=
  { name := "badloop", file := "", line := 0, nparams := 1, protectedParams := [0], ret := 1,
    body := [.assign 1 .fresh, .write 1, .assign 1 (.alias [0])] }

example : safe goodKernel = true := by decide
example : (List.range 6).map (fun v => (List.range 2).filter (hasRoot 2 (solve goodKernel) v))
    = [[0], [1], [0], [], [], []] := by decide
example : returnsFresh goodKernel = true := by decide      -- `w` is a view of the fresh `out`
example : returnsFresh badKernel = false := by decide      -- `w` is a view of `x`
example : resultRoots badKernel = [0] := by decide
example : safe badKernel = false := by decide
example : safe badLoopKernel = false := by decide
example : allProtected goodKernel = true := by decide

/-- the semantics is not vacuous: `badKernel` has an execution, from an entry state, that does
    change the buffer of its first parameter -/
example : ∃ s0 s, Entry badKernel s0 ∧ Trace badKernel.body s0 s ∧ s0.env 0 = some 0 ∧ s.mem 0 ≠ s0.mem 0 := by
  let s0 : State := ⟨2, fun v => if v = 0 then some 0 else if v = 1 then some 1 else none, fun _ => [7]⟩
  have e0 : s0.env 0 = some 0 := rfl
  refine ⟨s0, _, ⟨?_, ?_⟩,
    .step (.aliasSrc s0 2 [0] 0 0 (by decide) (by decide) e0)
      (.step (.aliasSrc _ 3 [2] 2 0 (by decide) (by decide) rfl)
        (.step (.write _ 3 0 [8] (by decide) rfl) (.done _))), e0, ?_⟩
  · intro v b h
    simp only [s0] at h
    split at h
    · subst_vars; decide
    · split at h
      · subst_vars; decide
      · cases h
  · intro v b h
    simp only [s0] at h
    split at h
    · cases h; decide
    · split at h
      · cases h; decide
      · cases h
  · simp [upd, s0]

/-- … and `goodKernel` really has executions in which the view is taken and the fresh buffer is written -/
example : ∃ s0 s, Entry goodKernel s0 ∧ Trace goodKernel.body s0 s ∧ s.env 2 = s0.env 0 ∧ s.mem 2 = [9] ∧
    s.mem 0 = s0.mem 0 := by
  let s0 : State := ⟨2, fun v => if v = 0 then some 0 else if v = 1 then some 0 else none, fun _ => [7]⟩
  refine ⟨s0, _, ⟨?_, ?_⟩,
    .step (.aliasSrc s0 2 [0] 0 0 (by decide) (by decide) rfl)
      (.step (.fresh _ 3 [1] (by decide))
        (.step (.write _ 3 2 [9] (by decide) rfl) (.done _))), rfl, ?_, ?_⟩
  · intro v b h
    simp only [s0] at h
    split at h
    · subst_vars; decide
    · split at h
      · subst_vars; decide
      · cases h
  · intro v b h
    simp only [s0] at h
    split at h
    · cases h; decide
    · split at h
      · cases h; decide
      · cases h
  · simp [upd]
  · simp [upd, s0, State.alloc]

end Proofs.Effects
