import Proofs.Core
import Proofs.AdjointConcatB
import Proofs.AdjointExpand
import Proofs.AdjointPerm
import SynapModel.Ops
import SynapModel.LayerArgs
import Mathlib.Order.Basic
import Mathlib.Order.Defs.LinearOrder
/-!
# Helper lemmas for C06 (nn forward specifications) and C14 (fused ops = compositions)
-/
namespace Proofs.NNSpec
open Synap Synap.NDArray Synap.Np Synap.Kernels Synap.LayerArgs Proofs.Core Proofs.Adjoint

/-! ### window geometry -/

/-- with stride 1 and the symmetric padding `d(k−1)/2` (an integer) the output length is the input length -/
theorem convOut_same (L k d : Nat) (hk : 0 < k) (hd : 0 < d) (hL : 0 < L) (he : (d * (k - 1)) % 2 = 0) :
    convOut L k 1 (d * (k - 1) / 2) d = some L := by
  have hne : ¬ (k = 0 ∨ 1 = 0 ∨ d = 0) := by omega
  unfold convOut
  rw [if_neg hne]
  generalize d * (k - 1) = D at *
  have h2 : 2 * (D / 2) = D := by omega
  rw [h2, if_neg (by omega)]
  simp only [Nat.div_one]
  congr 1
  omega

/-! ### `firstMax` -/
section FirstMax
variable {K : Type} [LinearOrder K]

/-- one step of the fold of `firstMax` -/
def fmStep (best : Option (K × Nat)) (v : Option K) (k : Nat) : Option (K × Nat) :=
  match v, best with
  | some x, none => some (x, k)
  | some x, some (bv, bk) => if bv < x then some (x, k) else some (bv, bk)
  | none, b => b

theorem firstMax_append (vals : List (Option K)) (v : Option K) :
    firstMax (vals ++ [v]) = fmStep (firstMax vals) v vals.length := by
  unfold firstMax
  rw [List.zipIdx_append, List.foldl_append]
  simp only [List.zipIdx_cons, List.zipIdx_nil, List.foldl_cons, List.foldl_nil, Nat.zero_add]
  rfl

/-- what the fold has established after a prefix -/
def FmInv (vals : List (Option K)) : Option (K × Nat) → Prop
  | none => ∀ x ∈ vals, x = none
  | some (v, k) => vals[k]? = some (some v) ∧ ∀ (j : Nat) (w : K), vals[j]? = some (some w) → w ≤ v

theorem getElem?_append_singleton_cases {β : Type} (l : List β) (x : β) (j : Nat) (y : β)
    (h : (l ++ [x])[j]? = some y) : l[j]? = some y ∨ (j = l.length ∧ y = x) := by
  by_cases hj : j < l.length
  · rw [List.getElem?_append_left hj] at h; exact Or.inl h
  · rw [List.getElem?_append_right (by omega)] at h
    by_cases hj2 : j - l.length = 0
    · rw [hj2] at h
      simp at h
      exact Or.inr ⟨by omega, h.symm⟩
    · obtain ⟨m, hm⟩ := Nat.exists_eq_succ_of_ne_zero hj2
      rw [hm] at h
      simp at h

theorem firstMax_inv (vals : List (Option K)) : FmInv vals (firstMax vals) := by
  induction vals using List.reverseRecOn with
  | nil => simp [firstMax, FmInv]
  | append_singleton vals v ih =>
    rw [firstMax_append]
    cases v with
    | none =>
      -- the best is unchanged
      cases hb : firstMax vals with
      | none =>
        rw [hb] at ih
        simp only [fmStep, FmInv] at ih ⊢
        intro x hx
        rcases List.mem_append.1 hx with hx | hx
        · exact ih x hx
        · simpa using hx
      | some bk =>
        obtain ⟨bv, bk⟩ := bk
        rw [hb] at ih
        simp only [fmStep, FmInv] at ih ⊢
        obtain ⟨h1, h2⟩ := ih
        have hlt : bk < vals.length := (List.getElem?_eq_some_iff.1 h1).1
        refine ⟨by rw [List.getElem?_append_left hlt]; exact h1, ?_⟩
        intro j w hj
        rcases getElem?_append_singleton_cases vals none j (some w) hj with h | ⟨_, h⟩
        · exact h2 j w h
        · cases h
    | some x =>
      cases hb : firstMax vals with
      | none =>
        rw [hb] at ih
        simp only [fmStep, FmInv] at ih ⊢
        refine ⟨by simp, ?_⟩
        intro j w hj
        rcases getElem?_append_singleton_cases vals (some x) j (some w) hj with h | ⟨_, h⟩
        · have := ih (some w) (List.mem_of_getElem? h)
          cases this
        · cases h; exact le_refl _
      | some bk =>
        obtain ⟨bv, bk⟩ := bk
        rw [hb] at ih
        simp only [FmInv] at ih
        obtain ⟨h1, h2⟩ := ih
        have hlt : bk < vals.length := (List.getElem?_eq_some_iff.1 h1).1
        simp only [fmStep]
        by_cases hc : bv < x
        · rw [if_pos hc]
          simp only [FmInv]
          refine ⟨by simp, ?_⟩
          intro j w hj
          rcases getElem?_append_singleton_cases vals (some x) j (some w) hj with h | ⟨_, h⟩
          · exact le_trans (h2 j w h) (le_of_lt hc)
          · cases h; exact le_refl _
        · rw [if_neg hc]
          simp only [FmInv]
          refine ⟨by rw [List.getElem?_append_left hlt]; exact h1, ?_⟩
          intro j w hj
          rcases getElem?_append_singleton_cases vals (some x) j (some w) hj with h | ⟨_, h⟩
          · exact h2 j w h
          · cases h; exact not_lt.1 hc

/-- **`firstMax` never selects padding**: if some entry is a real value, the result is a real entry
    that dominates every real entry -/
theorem firstMax_spec (vals : List (Option K)) (h : ∃ (j : Nat) (w : K), vals[j]? = some (some w)) :
    ∃ v k, firstMax vals = some (v, k) ∧ vals[k]? = some (some v) ∧
      ∀ (j : Nat) (w : K), vals[j]? = some (some w) → w ≤ v := by
  have inv := firstMax_inv vals
  cases hb : firstMax vals with
  | none =>
    rw [hb] at inv
    obtain ⟨j, w, hj⟩ := h
    have := inv (some w) (List.mem_of_getElem? hj)
    cases this
  | some bk =>
    obtain ⟨bv, bk⟩ := bk
    rw [hb] at inv
    exact ⟨bv, bk, rfl, inv.1, inv.2⟩

end FirstMax

/-! ### axis permutations: moving between adjacent positions is a swap -/

theorem normAxis_natCast (n k : Nat) (h : k < n) : normAxis n (k : Int) = some k := by
  unfold normAxis
  rw [if_pos ⟨by omega, by omega⟩]
  simp

theorem list_ext_getD (p q : List Nat) (n : Nat) (hp : p.length = n) (hq : q.length = n)
    (h : ∀ k, k < n → p.getD k 0 = q.getD k 0) : p = q := by
  apply List.ext_getElem (by rw [hp, hq])
  intro k h1 h2
  have := h k (hp ▸ h1)
  rwa [List.getD_eq_getElem _ _ h1, List.getD_eq_getElem _ _ h2] at this

theorem moveaxisPerm_adjacent (n a : Nat) (ha : a + 1 < n) :
    moveaxisPerm n a (a + 1) = swapPerm n a (a + 1) ∧ moveaxisPerm n (a + 1) a = swapPerm n a (a + 1) := by
  have hlen : (swapPerm n a (a + 1)).length = n := by simp [swapPerm]
  constructor
  · apply list_ext_getD _ _ n (moveaxisPerm_length n a (a + 1) (by omega) ha) hlen
    intro k hk
    rw [moveaxisPerm_getD n a (a + 1) k (by omega) ha hk, swapPerm_getD n a (a + 1) k hk]
    split_ifs <;> omega
  · apply list_ext_getD _ _ n (moveaxisPerm_length n (a + 1) a ha (by omega)) hlen
    intro k hk
    rw [moveaxisPerm_getD n (a + 1) a k ha (by omega) hk, swapPerm_getD n a (a + 1) k hk]
    split_ifs <;> omega

/-! ### inserting an axis of size 1 -/

theorem size_insertAt_one : ∀ (s : Shape) (a : Nat), Shape.size (insertAt s a 1) = Shape.size s
  | s, 0 => by simp [size_cons]
  | [], a + 1 => by simp [insertAt, size_cons]
  | n :: s, a + 1 => by
    rw [insertAt_succ_cons, size_cons, size_cons, size_insertAt_one s a]

theorem ravel_insertAt_one : ∀ (s : Shape) (q : Idx) (a : Nat), a ≤ s.length → q.length = s.length →
    ravel (insertAt s a 1) (insertAt q a 0) = ravel s q
  | s, q, 0, _, _ => by simp [ravel]
  | [], _, a + 1, h, _ => by simp at h
  | _ :: _, [], a + 1, _, h => by simp at h
  | n :: s, x :: q, a + 1, h, hl => by
    rw [insertAt_succ_cons, insertAt_succ_cons]
    simp only [ravel]
    rw [size_insertAt_one, ravel_insertAt_one s q a (by simpa using h) (by simpa using hl)]

theorem expandShape_single (s : Shape) (a0 : Nat) (h : a0 ≤ s.length) :
    expandShape [a0] 0 (s.length + 1) s = insertAt s a0 1 := by
  have hlen := expandShape_length [a0] (s.length + 1) 0 s
  have hone := expandShape_one [a0] (s.length + 1) 0 s a0 (by omega) (by simp)
  have hdrop : dropAxes (expandShape [a0] 0 (s.length + 1) s) [a0] = s := by
    rw [dropAxes_eq]
    apply expandShape_drop
    rw [← List.range_eq_range', count_not_named _ [a0] (by simp) (by simp; omega)]
    simp
  rw [dropAxes_single] at hdrop
  have := insertAt_eraseIdx (expandShape [a0] 0 (s.length + 1) s) a0 0 (by omega)
  rw [hdrop, hone] at this
  exact this.symm

section
variable {α : Type} [Zero α]

/-- `np.expand_dims(x, axis)` with one axis: a reshape to the shape with a 1 inserted -/
theorem expandDims_single (x : NDArray α) (axis : Int) (a0 : Nat)
    (hn : normAxis (x.shape.length + 1) axis = some a0) :
    expandDims x [axis] = some (reshapeTo x (insertAt x.shape a0 1)) := by
  have ha0 : a0 ≤ x.shape.length := by have := normAxis_lt hn; omega
  have hax : normAxes (x.shape.length + 1) [axis] = some [a0] := by
    simp [normAxes, hn, List.eraseDups_cons]
  unfold expandDims
  simp only [List.length_cons, List.length_nil, Nat.zero_add, hax, Option.bind_eq_bind,
    Option.bind_some, Option.pure_def, Option.some.injEq]
  rw [List.range_eq_range', expand_foldl, expandShape_single _ _ ha0]
  rfl

theorem get_reshapeTo' (x : NDArray α) (s : Shape) (j i : Idx) (hj : validIdx s j)
    (hi : validIdx x.shape i) (h : ravel s j = ravel x.shape i) : (reshapeTo x s).get j = x.get i := by
  unfold reshapeTo
  rw [get_gather _ _ _ _ hj, h, unravel_ravel _ _ hi]

theorem mapM_eq_map {β γ : Type} (f : β → Option γ) (g : β → γ) : ∀ (l : List β),
    (∀ x ∈ l, f x = some (g x)) → l.mapM f = some (l.map g)
  | [], _ => by simp
  | x :: l, h => by
    rw [List.mapM_cons, h x (by simp), mapM_eq_map f g l (fun y hy => h y (by simp [hy]))]
    simp

/-- reading the concatenation of operands that all have size 1 along the axis -/
theorem find_ones (a0 : Nat) (j : Idx) (t : Nat) : ∀ (us : List (NDArray α)) (off : Nat),
    (∀ u ∈ us, u.shape.getD a0 0 = 1) → off ≤ t →
    concatenate.find a0 j t us off =
      match us[t - off]? with
      | some u => u.get (j.modify a0 (fun _ => 0))
      | none => 0
  | [], off, _, _ => by simp [concatenate.find]
  | u :: r, off, h, hoff => by
    rw [concatenate.find]
    have hu := h u (by simp)
    rw [hu]
    by_cases hlt : t < off + 1
    · rw [if_pos hlt]
      have h0 : t - off = 0 := by omega
      rw [h0]
      simp only [List.getElem?_cons_zero]
      have e := zipIdx_map_modify (fun _ => 0) j a0
      rw [← e]
    · rw [if_neg hlt, find_ones a0 j t r (off + 1) (fun v hv => h v (by simp [hv])) (by omega)]
      have h1 : t - off = (t - (off + 1)) + 1 := by omega
      rw [h1, List.getElem?_cons_succ]

/-- **stack = concatenate of the operands with a size-1 axis inserted** -/
theorem stack_is_concat_expand (xs : List (NDArray α)) (axis : Int) (y : NDArray α)
    (h : stack xs axis = some y) :
    ∃ us, xs.mapM (fun x => expandDims x [axis]) = some us ∧ concatenate us axis = some y := by
  obtain ⟨s0, a0, hne, hall, hn, _⟩ := stack_some xs axis y h
  have ha0 : a0 ≤ s0.length := by have := normAxis_lt hn; omega
  rw [stack_eq xs axis s0 a0 xs.length hne hall hn rfl] at h
  have hy := (Option.some.inj h).symm
  refine ⟨xs.map (fun x => reshapeTo x (insertAt s0 a0 1)), ?_, ?_⟩
  · apply mapM_eq_map
    intro x hx
    have := expandDims_single x axis a0 (by rw [hall x hx]; exact hn)
    rw [this, hall x hx]
  · have hshape : ∀ u ∈ xs.map (fun x => reshapeTo x (insertAt s0 a0 1)),
        u.shape = insertAt s0 a0 1 := by
      intro u hu
      obtain ⟨x, _, rfl⟩ := List.mem_map.1 hu
      rfl
    have hone : ∀ u ∈ xs.map (fun x => reshapeTo x (insertAt s0 a0 1)), u.shape.getD a0 0 = 1 := by
      intro u hu
      rw [hshape u hu, getD_insertAt _ _ _ _ ha0]
    rw [concat_eq _ axis s0 a0 xs.length (by simpa using hne) ha0 hn
      (by intro u hu; rw [hone u hu]; exact hshape u hu)
      (by
        have : (xs.map (fun x => reshapeTo x (insertAt s0 a0 1))).map (fun x => x.shape.getD a0 0)
            = List.replicate xs.length 1 := by
          apply List.ext_getElem (by simp)
          intro i h1 h2
          have hi : i < xs.length := by simpa using h1
          simp only [List.getElem_map, List.getElem_replicate]
          exact hone _ (List.mem_map.2 ⟨xs[i], List.getElem_mem hi, rfl⟩)
        rw [this]; simp), hy]
    congr 1
    unfold ofFn
    congr 1
    apply List.map_congr_left
    intro j hj
    have hj' := (mem_allIdx _ j).1 hj
    obtain ⟨q, t, rfl, hq, ht⟩ := (validIdx_insertAt_iff s0 a0 xs.length ha0 j).1 hj'
    have hql : a0 ≤ q.length := by rw [validIdx_length _ _ hq]; exact ha0
    simp only [getI, getD_insertAt _ _ _ _ hql]
    rw [find_ones a0 _ t _ 0 hone (Nat.zero_le _)]
    simp only [Nat.sub_zero, List.getElem?_map]
    have hxt : xs[t]? = some xs[t] := List.getElem?_eq_getElem ht
    rw [hxt]
    simp only [Option.map_some]
    rw [modify_insertAt _ _ _ _ hql, dropAxes_single, eraseIdx_insertAt _ _ _ hql]
    have hs : xs[t].shape = s0 := hall _ (List.getElem_mem ht)
    apply get_reshapeTo'
    · exact validIdx_insertAt s0 q a0 1 0 hq ha0 (by omega)
    · rw [hs]; exact hq
    · rw [hs]
      exact ravel_insertAt_one s0 q a0 ha0 (validIdx_length _ _ hq)

/-- **unbind inverts stack** -/
theorem unbind_stack (xs : List (NDArray α)) (hxs : ∀ x ∈ xs, x.WF) (axis : Int) (y : NDArray α)
    (h : stack xs axis = some y) : unbind y axis = some xs := by
  obtain ⟨s0, a0, hne, hall, hn, hys⟩ := stack_some xs axis y h
  have ha0 : a0 ≤ s0.length := by have := normAxis_lt hn; omega
  rw [stack_eq xs axis s0 a0 xs.length hne hall hn rfl] at h
  have hy := (Option.some.inj h).symm
  unfold unbind
  rw [hys, length_insertAt, hn]
  simp only [Option.bind_eq_bind, Option.bind_some, Option.pure_def, Option.some.injEq,
    getD_insertAt _ _ _ _ ha0]
  apply List.ext_getElem (by simp)
  intro k h1 h2
  simp only [List.getElem_map, List.getElem_range]
  have hk : k < xs.length := h2
  have hs : xs[k].shape = s0 := hall _ (List.getElem_mem hk)
  have hds : dropAxes (insertAt s0 a0 xs.length) [a0] = s0 := by
    rw [dropAxes_single, eraseIdx_insertAt _ _ _ ha0]
  apply ext_get _ _ (gather_wfB _ _ _) (hxs _ (List.getElem_mem hk))
  · show dropAxes y.shape [a0] = xs[k].shape
    rw [hys, hds, hs]
  · intro j hj
    have hj0 : validIdx s0 j := by
      rw [gather_shapeB, hys, hds] at hj
      exact hj
    have hjl : a0 ≤ j.length := by rw [validIdx_length _ _ hj0]; exact ha0
    rw [get_gather _ _ _ _ (by rw [hys, hds]; exact hj0), hy,
      get_ofFn _ _ _ (validIdx_insertAt s0 j a0 xs.length k hj0 ha0 hk)]
    simp only [getI, getD_insertAt _ _ _ _ hjl]
    have hxk : xs[k]? = some xs[k] := List.getElem?_eq_getElem hk
    rw [hxk]
    simp only []
    rw [dropAxes_single, eraseIdx_insertAt _ _ _ hjl]

end

end Proofs.NNSpec
