import Proofs.PointwiseCalc
import Proofs.AdjointDefs
import Proofs.Subgradient
/-!
# Vector-Jacobian products of the nonlinear, non-pointwise nn ops (C02), over ℝ

For a nonlinear `F` the statement "`B g` is the vector-Jacobian product of `F` at `a`" is: for every
direction `v` and every upstream gradient `g`, the real function `t ↦ ⟪F (a + t·v), g⟫` has derivative
`⟪v, B g⟫` at `t = 0` (the pairing is non-degenerate, so this determines `B g`; for a differentiable `F`
it is `(DF a)ᵀ g`).  `IsVJPAt` bundles this with totality and the shape claim, like `IsAdjoint` does
for linear ops.
-/
namespace Proofs.NL
open Synap Synap.NDArray Synap.Np Synap.Kernels Proofs.Core Proofs.Calc

/-- the point `a + t·v` on the line through `a` in direction `v` -/
noncomputable def line (a v : NDArray ℝ) (t : ℝ) : NDArray ℝ := zipSame (fun x y => x + t * y) a v

/-- `B g` is the vector-Jacobian product of `F` at `a` (outputs of shape `sy`) -/
def IsVJPAt (F : NDArray ℝ → Option (NDArray ℝ)) (a : NDArray ℝ) (sy : Shape)
    (B : NDArray ℝ → Option (NDArray ℝ)) : Prop :=
  ∀ v g : NDArray ℝ, v.WF → v.shape = a.shape → g.WF → g.shape = sy →
    (∀ t : ℝ, ∃ y, F (line a v t) = some y ∧ y.WF ∧ y.shape = sy) ∧
    ∃ b, B g = some b ∧ b.WF ∧ b.shape = a.shape ∧
      HasDerivAt (fun t : ℝ => ((F (line a v t)).map (fun y => dot y g)).getD 0) (dot v b) 0

end Proofs.NL
