import Proofs.VJPDefs
import Proofs.VJPSoftmaxLemmas
import Proofs.AdjointNN
/-! # VJP of softmax, log_softmax, cross-entropy (C02), over ℝ — see `Proofs.VJPDefs` for the meaning of `IsVJPAt` -/
namespace Proofs.NL
open Synap Synap.NDArray Synap.Np Synap.Kernels Proofs.Core Proofs.Calc

/-! ### softmax family -/

/-- the 0-d case (`dim` 0 / −1 on a 0-d operand): the forward is the constant `1`, the backward returns
    `s·(g − g·s) = 0` -/
theorem softmax_vjp_zero (a s : NDArray ℝ) (axis : Int) (h0 : zeroDimAxis a.shape axis)
    (h : softmaxForward a axis = some s) :
    IsVJPAt (fun x => softmaxForward x axis) a a.shape (fun g => softmaxBackward g s axis) := by
  have hs : s = ofFn [] (fun _ => (1 : ℝ)) := by
    rw [sm_softmaxForward_zero a axis h0] at h
    exact (Option.some.inj h).symm
  have hsh : a.shape = [] := h0.1
  intro v g hv hvs hg hgs
  have hF : ∀ t : ℝ, softmaxForward (line a v t) axis = some (ofFn [] (fun _ => (1 : ℝ))) :=
    fun t => sm_softmaxForward_zero (line a v t) axis h0
  refine ⟨fun t => ⟨_, hF t, ofFn_wf _ _, hsh.symm⟩, ?_⟩
  have h0s : zeroDimAxis s.shape axis := by rw [hs]; exact ⟨rfl, h0.2⟩
  refine ⟨_, sm_softmaxBackward_zero g s axis h0s, ofFn_wf _ _, hsh.symm, ?_⟩
  have hfun : (fun t : ℝ => ((softmaxForward (line a v t) axis).map (fun y => dot y g)).getD 0)
      = fun _ => dot (ofFn [] (fun _ => (1 : ℝ))) g := by
    funext t
    rw [hF t]
    rfl
  rw [hfun]
  have hz : dot v (ofFn [] (fun _ => s.get [] * (g.get [] - g.get [] * s.get []))) = 0 := by
    rw [Proofs.ConvTools.dot_ofFn_right v [] _ (hvs.trans hsh)]
    have h1 : s.get [] = 1 := by rw [hs]; exact get_ofFn [] _ [] trivial
    simp [allIdx, h1]
  rw [hz]
  exact hasDerivAt_const 0 _

/-- the 0-d case: the forward is the constant `0`, the backward returns `g − exp(0)·g = 0` -/
theorem log_softmax_vjp_zero (a ls : NDArray ℝ) (axis : Int) (h0 : zeroDimAxis a.shape axis)
    (h : logSoftmaxForward a axis = some ls) :
    IsVJPAt (fun x => logSoftmaxForward x axis) a a.shape (fun g => logSoftmaxBackward g ls axis) := by
  have hs : ls = ofFn [] (fun _ => (0 : ℝ)) := by
    rw [sm_logSoftmaxForward_zero a axis h0] at h
    exact (Option.some.inj h).symm
  have hsh : a.shape = [] := h0.1
  intro v g hv hvs hg hgs
  have hF : ∀ t : ℝ, logSoftmaxForward (line a v t) axis = some (ofFn [] (fun _ => (0 : ℝ))) :=
    fun t => sm_logSoftmaxForward_zero (line a v t) axis h0
  refine ⟨fun t => ⟨_, hF t, ofFn_wf _ _, hsh.symm⟩, ?_⟩
  have h0s : zeroDimAxis ls.shape axis := by rw [hs]; exact ⟨rfl, h0.2⟩
  refine ⟨_, sm_logSoftmaxBackward_zero g ls axis h0s, ofFn_wf _ _, hsh.symm, ?_⟩
  have hfun : (fun t : ℝ => ((logSoftmaxForward (line a v t) axis).map (fun y => dot y g)).getD 0)
      = fun _ => dot (ofFn [] (fun _ => (0 : ℝ))) g := by
    funext t
    rw [hF t]
    rfl
  rw [hfun]
  have hz : dot v (ofFn [] (fun _ => g.get [] - Real.exp (ls.get []) * g.get [])) = 0 := by
    rw [Proofs.ConvTools.dot_ofFn_right v [] _ (hvs.trans hsh)]
    have h1 : ls.get [] = 0 := by rw [hs]; exact get_ofFn [] _ [] trivial
    simp [allIdx, h1]
  rw [hz]
  exact hasDerivAt_const 0 _

/-- softmax along any axis: backward (which reads the saved output `s`) is the VJP at `a` -/
theorem softmax_vjp (a s : NDArray ℝ) (axis : Int) (ha : a.WF) (h : softmaxForward a axis = some s) :
    IsVJPAt (fun x => softmaxForward x axis) a a.shape (fun g => softmaxBackward g s axis) := by
  by_cases h0 : zeroDimAxis a.shape axis
  · exact softmax_vjp_zero a s axis h0 h
  obtain ⟨ax, hax, hn⟩ := sm_softmaxForward_some a s axis h0 h
  have haxlt : ax < a.shape.length := Proofs.Adjoint.normAxis_lt hax
  have hs : s = ofFn a.shape (sm_sig a.get (a.shape.getD ax 0) ax) := by
    rw [sm_softmaxForward_eq a axis ax hax hn] at h
    exact (Option.some.inj h).symm
  intro v g hv hvs hg hgs
  have hF : ∀ t : ℝ, softmaxForward (line a v t) axis
      = some (ofFn a.shape (sm_sig (line a v t).get (a.shape.getD ax 0) ax)) :=
    fun t => sm_softmaxForward_eq (line a v t) axis ax hax hn
  refine ⟨fun t => ⟨_, hF t, ofFn_wf _ _, rfl⟩, ?_⟩
  have hB : softmaxBackward g s axis = some (ofFn a.shape (fun i => s.get i *
      (g.get i - fibreSum (fun j => g.get j * s.get j) a.shape ax i))) := by
    have hss : s.shape = a.shape := by rw [hs]; rfl
    simp only [softmaxBackward, hss, if_neg h0, hax]
    rfl
  refine ⟨_, hB, ofFn_wf _ _, rfl, ?_⟩
  have hfun : (fun t : ℝ => ((softmaxForward (line a v t) axis).map (fun y => dot y g)).getD 0)
      = fun t : ℝ => ((allIdx a.shape).map (fun i =>
          sm_sig (fun j => a.get j + t * v.get j) (a.shape.getD ax 0) ax i * g.get i)).sum := by
    funext t
    rw [hF t]
    simp only [Option.map_some, Option.getD_some]
    rw [dot_ofFn]
    congr 1
    apply List.map_congr_left
    intro i hi
    rw [sm_sig_congr a.shape _ (fun j => a.get j + t * v.get j) ax i ((mem_allIdx _ i).1 hi)
      (fun j hj => sm_line_get a v t ha hv hvs j hj)]
  rw [hfun]
  have hd := sm_hasDerivAt_list_sum (allIdx a.shape)
    (fun i (t : ℝ) => sm_sig (fun j => a.get j + t * v.get j) (a.shape.getD ax 0) ax i * g.get i)
    (fun i => sm_sig a.get (a.shape.getD ax 0) ax i * (v.get i - ∑ k ∈ Finset.range (a.shape.getD ax 0),
        v.get (i.set ax k) * sm_sig a.get (a.shape.getD ax 0) ax (i.set ax k)) * g.get i) 0
    (fun i _ => (sm_hasDerivAt_sig a.get v.get (a.shape.getD ax 0) ax i hn).mul_const (g.get i))
  refine hd.congr_deriv ?_
  rw [Proofs.ConvTools.dot_ofFn_right v a.shape _ hvs,
    ← sm_softmax_final a.shape ax haxlt (sm_sig a.get (a.shape.getD ax 0) ax) v.get g.get]
  congr 1
  apply List.map_congr_left
  intro i hi
  have hi' := (mem_allIdx _ i).1 hi
  have hget : ∀ j, validIdx a.shape j → s.get j = sm_sig a.get (a.shape.getD ax 0) ax j := by
    intro j hj
    rw [hs, get_ofFn _ _ _ hj]
  rw [hget i hi', sm_fibreSum_congr a.shape (fun j => g.get j * s.get j)
    (fun j => g.get j * sm_sig a.get (a.shape.getD ax 0) ax j) ax i hi'
    (fun j hj => by rw [hget j hj])]

/-- log_softmax along any axis: backward (which reads the saved output `ls`) is the VJP at `a` -/
theorem log_softmax_vjp (a ls : NDArray ℝ) (axis : Int) (ha : a.WF) (h : logSoftmaxForward a axis = some ls) :
    IsVJPAt (fun x => logSoftmaxForward x axis) a a.shape (fun g => logSoftmaxBackward g ls axis) := by
  by_cases h0 : zeroDimAxis a.shape axis
  · exact log_softmax_vjp_zero a ls axis h0 h
  obtain ⟨ax, hax, hn⟩ := sm_logSoftmaxForward_some a ls axis h0 h
  have haxlt : ax < a.shape.length := Proofs.Adjoint.normAxis_lt hax
  have hs : ls = ofFn a.shape (sm_ls a.get (a.shape.getD ax 0) ax) := by
    rw [sm_logSoftmaxForward_eq a axis ax hax hn] at h
    exact (Option.some.inj h).symm
  intro v g hv hvs hg hgs
  have hF : ∀ t : ℝ, logSoftmaxForward (line a v t) axis
      = some (ofFn a.shape (sm_ls (line a v t).get (a.shape.getD ax 0) ax)) :=
    fun t => sm_logSoftmaxForward_eq (line a v t) axis ax hax hn
  refine ⟨fun t => ⟨_, hF t, ofFn_wf _ _, rfl⟩, ?_⟩
  have hB : logSoftmaxBackward g ls axis = some (ofFn a.shape (fun i => g.get i -
      Transc.exp (ls.get i) * fibreSum g.get a.shape ax i)) := by
    have hss : ls.shape = a.shape := by rw [hs]; rfl
    simp only [logSoftmaxBackward, hss, if_neg h0, hax]
    rfl
  refine ⟨_, hB, ofFn_wf _ _, rfl, ?_⟩
  have hfun : (fun t : ℝ => ((logSoftmaxForward (line a v t) axis).map (fun y => dot y g)).getD 0)
      = fun t : ℝ => ((allIdx a.shape).map (fun i =>
          sm_ls (fun j => a.get j + t * v.get j) (a.shape.getD ax 0) ax i * g.get i)).sum := by
    funext t
    rw [hF t]
    simp only [Option.map_some, Option.getD_some]
    rw [dot_ofFn]
    congr 1
    apply List.map_congr_left
    intro i hi
    rw [sm_ls_congr a.shape _ (fun j => a.get j + t * v.get j) ax i ((mem_allIdx _ i).1 hi)
      (fun j hj => sm_line_get a v t ha hv hvs j hj)]
  rw [hfun]
  have hd := sm_hasDerivAt_list_sum (allIdx a.shape)
    (fun i (t : ℝ) => sm_ls (fun j => a.get j + t * v.get j) (a.shape.getD ax 0) ax i * g.get i)
    (fun i => (v.get i - ∑ k ∈ Finset.range (a.shape.getD ax 0),
        v.get (i.set ax k) * sm_sig a.get (a.shape.getD ax 0) ax (i.set ax k)) * g.get i) 0
    (fun i _ => (sm_hasDerivAt_ls a.get v.get (a.shape.getD ax 0) ax i hn).mul_const (g.get i))
  refine hd.congr_deriv ?_
  rw [Proofs.ConvTools.dot_ofFn_right v a.shape _ hvs,
    ← sm_logsoftmax_final a.shape ax haxlt (sm_sig a.get (a.shape.getD ax 0) ax) v.get g.get]
  congr 1
  apply List.map_congr_left
  intro i hi
  have hi' := (mem_allIdx _ i).1 hi
  have hget : Transc.exp (ls.get i) = sm_sig a.get (a.shape.getD ax 0) ax i := by
    rw [hs, get_ofFn _ _ _ hi']
    exact sm_exp_ls a.get (a.shape.getD ax 0) ax i hn
  rw [hget]

/-- cross-entropy of logits `(N, C)` against integer labels, one value per sample -/
theorem cross_entropy_vjp (x y : NDArray ℝ) (labels : List Nat) (hx : x.WF) (h : crossEntropyForward x labels = some y) :
    IsVJPAt (fun z => crossEntropyForward z labels) x y.shape (fun g => crossEntropyBackward g x labels) := by
  have hlen : x.shape.length = 2 := by
    by_contra hne
    simp [crossEntropyForward, hne] at h
  have h' : (logSoftmaxForward x 1).bind (fun ls => nllForward ls labels) = some y := by
    simpa [crossEntropyForward, hlen] using h
  obtain ⟨ls, hls, hnll⟩ := Option.bind_eq_some_iff.1 h'
  have hnz : ¬ zeroDimAxis x.shape 1 := sm_not_zeroDim_of_length (by omega)
  obtain ⟨ax, hax, hn⟩ := sm_logSoftmaxForward_some x ls 1 hnz hls
  have hax1 : ax = 1 := by
    rw [hlen] at hax
    simpa [normAxis] using hax.symm
  subst hax1
  have hlsdef : ls = ofFn x.shape (sm_ls x.get (x.shape.getD 1 0) 1) := by
    rw [sm_logSoftmaxForward_eq x 1 1 hax hn] at hls
    exact (Option.some.inj hls).symm
  have hlswf : ls.WF := by rw [hlsdef]; exact ofFn_wf _ _
  have hlss : ls.shape = x.shape := by rw [hlsdef]; rfl
  have hadj := Proofs.Adjoint.nll_adj ls y labels hlswf hnll
  have hvjp := log_softmax_vjp x ls 1 hx hls
  obtain ⟨N, C, hxs, hlab⟩ : ∃ N C, x.shape = [N, C] ∧ ∀ p, p < N → labels.getD p 0 < C := by
    unfold nllForward at hnll
    split at hnll
    · rename_i n c hps
      split at hnll
      · rename_i hc
        refine ⟨n, c, hlss ▸ hps, fun p hp => ?_⟩
        have h2 := hc.2
        rw [List.all_eq_true] at h2
        have hal : p < labels.length := by rw [hc.1]; exact hp
        have := h2 (labels.getD p 0) (by
          rw [List.getD_eq_getElem _ _ hal]; exact List.getElem_mem hal)
        simpa using this
      · exact absurd hnll (by simp)
    · exact absurd hnll (by simp)
  intro v g hv hvs hg hgs
  have hGwf : (nllBackward g ls labels).WF := ofFn_wf _ _
  have hGs : (nllBackward g ls labels).shape = x.shape := hlss
  obtain ⟨hacc, b, hb, hbwf, hbs, hderiv⟩ := hvjp v _ hv hvs hGwf hGs
  beta_reduce at hacc hb hderiv
  have hstep : ∀ t : ℝ, ∃ z, crossEntropyForward (line x v t) labels = some z ∧ z.WF ∧ z.shape = y.shape ∧
      ((logSoftmaxForward (line x v t) 1).map (fun y => dot y (nllBackward g ls labels))).getD 0 = dot z g := by
    intro t
    obtain ⟨yt, hyt, hytwf, hyts⟩ := hacc t
    obtain ⟨z, b', hz, hb', hzwf, hzs, _, _, hdot⟩ := hadj yt g hytwf (hyts.trans hlss.symm) hg hgs
    beta_reduce at hz hb'
    have hb'' : b' = nllBackward g ls labels := (Option.some.inj hb').symm
    refine ⟨z, ?_, hzwf, hzs, ?_⟩
    · have hl : (line x v t).shape.length = 2 := hlen
      simp only [crossEntropyForward, hl]
      simpa [hyt] using hz
    · rw [hyt, hdot, hb'']
      rfl
  refine ⟨fun t => (hstep t).imp (fun z hz => ⟨hz.1, hz.2.1, hz.2.2.1⟩), ?_⟩
  have hB : crossEntropyBackward g x labels = some (ofFn x.shape (fun i =>
      ((ofFn x.shape (sm_sig x.get (x.shape.getD 1 0) 1)).get i -
        (if labels.getD (getI i 0) 0 = getI i 1 then 1 else 0)) * g.get [getI i 0])) := by
    simp only [crossEntropyBackward, sm_softmaxForward_eq x 1 1 hax hn]
    rfl
  refine ⟨_, hB, ofFn_wf _ _, rfl, ?_⟩
  have hfun : (fun t : ℝ => ((crossEntropyForward (line x v t) labels).map (fun y => dot y g)).getD 0)
      = fun t : ℝ => ((logSoftmaxForward (line x v t) 1).map
          (fun y => dot y (nllBackward g ls labels))).getD 0 := by
    funext t
    obtain ⟨z, hz, _, _, hd⟩ := hstep t
    rw [hz, hd]
    rfl
  rw [hfun]
  refine hderiv.congr_deriv ?_
  have hbdef : b = ofFn x.shape (fun i => (nllBackward g ls labels).get i -
      Transc.exp (ls.get i) * fibreSum (nllBackward g ls labels).get x.shape 1 i) := by
    simp only [logSoftmaxBackward, hlss, if_neg hnz, hax] at hb
    exact (Option.some.inj hb).symm
  rw [hbdef, Proofs.ConvTools.dot_ofFn_right v x.shape _ hvs, Proofs.ConvTools.dot_ofFn_right v x.shape _ hvs]
  congr 1
  apply List.map_congr_left
  intro i hi
  have hi' := (mem_allIdx _ i).1 hi
  have hi2 := hi'
  rw [hxs] at hi2
  obtain ⟨p, q, rfl, hp, hq⟩ := sm_valid2 hi2
  have hlsN : ls.shape = [N, C] := hlss.trans hxs
  have hexp : Transc.exp (ls.get [p, q]) = sm_sig x.get (x.shape.getD 1 0) 1 [p, q] := by
    rw [hlsdef, get_ofFn _ _ _ hi']
    exact sm_exp_ls x.get (x.shape.getD 1 0) 1 [p, q] hn
  have hfib : fibreSum (nllBackward g ls labels).get x.shape 1 [p, q] = - g.get [p] := by
    rw [hxs]
    exact sm_nll_fibre g ls labels N C hlsN p q hp (hlab p hp)
  rw [hexp, hfib, sm_nll_get g ls labels N C hlsN p q hp hq, get_ofFn _ _ _ hi']
  have e0 : getI [p, q] 0 = p := rfl
  have e1 : getI [p, q] 1 = q := rfl
  by_cases hq' : labels.getD p 0 = q
  · rw [if_pos hq', if_pos (by rw [e0, e1]; exact hq'), e0]
    ring
  · rw [if_neg hq', if_neg (by rw [e0, e1]; exact hq'), e0]
    ring

end Proofs.NL
