import Proofs.AdjointGeneral
import SynapModel.Kernels.Basic
import Mathlib.Data.List.GetD
/-!
# Reshapes: `reshapeTo` between shapes of equal size is adjoint to the reshape back

plus the shape arithmetic of `resolveShape`, `squeezeAll`, `squeezeAxes`, `expandDims`.
-/
namespace Proofs.Adjoint
open Synap Synap.NDArray Synap.Np Synap.Kernels Proofs.Core

section
variable {R : Type} [CommSemiring R]

/-- **reshape to a shape of equal size and reshape back are adjoint** -/
theorem reshapeTo_adj (s1 s2 : Shape) (hsz : Shape.size s1 = Shape.size s2) :
    IsAdjoint (R := R) s1 s2 (fun v => some (reshapeTo v s2)) (fun g => some (reshapeTo g s1)) := by
  have h21 : ∀ j, validIdx s2 j → ravel s2 j < Shape.size s1 := fun j hj => hsz ▸ ravel_lt s2 j hj
  have h12 : ∀ i, validIdx s1 i → ravel s1 i < Shape.size s2 := fun i hi => hsz ▸ ravel_lt s1 i hi
  apply isAdjoint_of_gather_bij s1 s2 (fun j => unravel s1 (ravel s2 j)) (fun i => unravel s2 (ravel s1 i))
  · intro j hj; exact (ravel_unravel s1 _ (h21 j hj)).1
  · intro i hi; exact (ravel_unravel s2 _ (h12 i hi)).1
  · intro j hj
    show unravel s2 (ravel s1 (unravel s1 (ravel s2 j))) = j
    rw [(ravel_unravel s1 _ (h21 j hj)).2, unravel_ravel s2 j hj]
  · intro i hi
    show unravel s1 (ravel s2 (unravel s2 (ravel s1 i))) = i
    rw [(ravel_unravel s2 _ (h12 i hi)).2, unravel_ravel s1 i hi]
  · intro v _ hvs; simp only [reshapeTo, hvs]
  · intro g _ hgs; simp only [reshapeTo, hgs]

@[simp] theorem reshapeTo_shape (x : NDArray R) (s : Shape) : (reshapeTo x s).shape = s := rfl

/-- reshaping to the own shape is the identity -/
theorem reshapeTo_self (x : NDArray R) (hx : x.WF) : reshapeTo x x.shape = x := by
  apply ext_get _ _ (gather_wf _ _ _) hx rfl
  intro i hi
  change validIdx x.shape i at hi
  show (gather x.shape _ x).get i = _
  rw [get_gather _ _ _ _ hi, unravel_ravel _ _ hi]

end

/-! ### sizes -/

theorem size_map_fill (t : List Int) (c : Nat) :
    Shape.size (t.map (fun x => if x < 0 then c else x.toNat)) =
      c ^ (t.filter (fun x => decide (x < 0))).length *
        Shape.size ((t.filter (fun x => decide (x ≥ 0))).map Int.toNat) := by
  induction t with
  | nil => simp [size_nil]
  | cons x t ih =>
    by_cases hx : x < 0
    · have hx' : ¬ x ≥ 0 := by omega
      simp only [List.map_cons, size_cons, ih, List.filter_cons, hx, hx', decide_true, decide_false,
        if_true, List.length_cons, pow_succ, Bool.false_eq_true, if_false]
      ac_rfl
    · have hx' : x ≥ 0 := by omega
      simp only [List.map_cons, size_cons, ih, List.filter_cons, hx, hx', decide_true, decide_false,
        if_true, Bool.false_eq_true, if_false]
      ac_rfl

theorem resolveShape_size (sz : Nat) (t : List Int) (s : Shape) (h : resolveShape sz t = some s) :
    Shape.size s = sz := by
  unfold resolveShape at h
  simp only at h
  split_ifs at h with h1 h2 h3 h4 h5 h6
  · simp only [Option.some.injEq] at h
    subst h; exact h3
  · simp only [Option.some.injEq] at h
    subst h
    rw [size_map_fill, h4, pow_one]
    exact Nat.div_mul_cancel (Nat.dvd_of_mod_eq_zero h6)

theorem size_filter_ne_one (s : Shape) : Shape.size (s.filter (fun x => decide (x ≠ 1))) = Shape.size s := by
  induction s with
  | nil => rfl
  | cons n s ih =>
    by_cases hn : n = 1
    · subst hn
      rw [List.filter_cons, if_neg (by simp), ih, size_cons, Nat.one_mul]
    · rw [List.filter_cons, if_pos (by simpa using hn), size_cons, size_cons, ih]

/-- `dropAxes` with an index offset -/
def dropAxesFrom {α : Type} (m : Nat) (l : List α) (ax : List Nat) : List α :=
  ((l.zipIdx m).filter (fun p => !ax.contains p.2)).map (·.1)

theorem dropAxes_eq {α : Type} (l : List α) (ax : List Nat) : dropAxes l ax = dropAxesFrom 0 l ax := rfl

theorem dropAxesFrom_cons {α : Type} (m : Nat) (x : α) (l : List α) (ax : List Nat) :
    dropAxesFrom m (x :: l) ax = if m ∈ ax then dropAxesFrom (m + 1) l ax else x :: dropAxesFrom (m + 1) l ax := by
  by_cases h : m ∈ ax <;> simp [dropAxesFrom, List.zipIdx_cons, h]

theorem size_dropAxesFrom (ax : List Nat) (l : Shape) (m : Nat)
    (H : ∀ i, i < l.length → (m + i) ∈ ax → l.getD i 0 = 1) :
    Shape.size (dropAxesFrom m l ax) = Shape.size l := by
  induction l generalizing m with
  | nil => rfl
  | cons x l ih =>
    have ih' := ih (m + 1) (fun i hi hm => by
      have := H (i + 1) (by simpa using hi) (by rwa [show m + (i + 1) = m + 1 + i by omega])
      simpa using this)
    rw [dropAxesFrom_cons]
    by_cases h : m ∈ ax
    · have hx : x = 1 := by simpa using H 0 (by simp) (by simpa using h)
      rw [if_pos h, ih', size_cons, hx, Nat.one_mul]
    · rw [if_neg h, size_cons, size_cons, ih']

theorem size_dropAxes (s : Shape) (ax : List Nat) (H : ∀ k ∈ ax, s.getD k 0 = 1) :
    Shape.size (dropAxes s ax) = Shape.size s := by
  rw [dropAxes_eq]
  apply size_dropAxesFrom
  intro i _ hm
  rw [Nat.zero_add] at hm
  exact H i hm

/-! ### squeeze -/
section
variable {R : Type} [CommRing R]

theorem squeezeAxes_inv (a y : NDArray R) (axes : List Int) (h : squeezeAxes a axes = some y) :
    ∃ ax, normAxes a.shape.length axes = some ax ∧ (∀ k ∈ ax, a.shape.getD k 0 = 1) := by
  unfold squeezeAxes at h
  cases h0 : normAxes a.shape.length axes with
  | none => simp [h0] at h
  | some ax =>
    refine ⟨ax, rfl, ?_⟩
    simp only [h0, Option.bind_eq_bind, Option.bind_some] at h
    split_ifs at h with h1
    simpa using h1

theorem squeezeAxes_of (v : NDArray R) (axes : List Int) (ax : List Nat)
    (h1 : normAxes v.shape.length axes = some ax) (h2 : ∀ k ∈ ax, v.shape.getD k 0 = 1) :
    squeezeAxes v axes = some (reshapeTo v (dropAxes v.shape ax)) := by
  unfold squeezeAxes
  have : (ax.all fun k => v.shape.getD k 0 == 1) = true := by
    rw [List.all_eq_true]; intro k hk; simp only [h2 k hk, beq_self_eq_true]
  simp only [h1, Option.bind_eq_bind, Option.bind_some, this, if_true, Option.pure_def]

/-- whatever `squeezeForward` accepts is a reshape to a shape of the same size, and acceptance
    and target shape depend on the operand's shape only -/
theorem squeezeForward_eq (a y : NDArray R) (ax : Axes) (h : squeezeForward a ax = some y) :
    ∃ s', Shape.size s' = Shape.size a.shape ∧
      ∀ v : NDArray R, v.WF → v.shape = a.shape → squeezeForward v ax = some (reshapeTo v s') := by
  have hid : ∀ v : NDArray R, v.WF → v.shape = a.shape → some v = some (reshapeTo v a.shape) := by
    intro v hv hvs; rw [← hvs, reshapeTo_self v hv]
  have hax : ∀ axes, squeezeAxes a axes = some y →
      ∃ s', Shape.size s' = Shape.size a.shape ∧
        ∀ v : NDArray R, v.WF → v.shape = a.shape → squeezeAxes v axes = some (reshapeTo v s') := by
    intro axes hq
    obtain ⟨ax', e1, e2⟩ := squeezeAxes_inv a y axes hq
    refine ⟨dropAxes a.shape ax', size_dropAxes _ _ e2, fun v _ hvs => ?_⟩
    rw [← hvs] at e1 e2 ⊢
    exact squeezeAxes_of v axes ax' e1 e2
  cases ax with
  | all =>
    by_cases hl : a.shape.length > 0
    · refine ⟨a.shape.filter (fun x => decide (x ≠ 1)), size_filter_ne_one _, fun v _ hvs => ?_⟩
      simp [squeezeForward, hvs, hl, squeezeAll]
    · refine ⟨a.shape, rfl, fun v hv hvs => ?_⟩
      simp only [squeezeForward, hvs, hl, if_false]
      exact hid v hv hvs
  | one k =>
    by_cases hl : a.shape.length = 0
    · refine ⟨a.shape, rfl, fun v hv hvs => ?_⟩
      simp only [squeezeForward, hvs, hl, if_true]
      exact hid v hv hvs
    · simp only [squeezeForward, hl, if_false] at h
      cases h0 : normAxis a.shape.length k with
      | none => simp [h0] at h
      | some k' =>
        simp only [h0, Option.bind_eq_bind, Option.bind_some] at h
        by_cases h1 : a.shape.getD k' 0 = 1
        · rw [if_pos h1] at h
          obtain ⟨s', hs', hv'⟩ := hax _ h
          refine ⟨s', hs', fun v hv hvs => ?_⟩
          simp only [squeezeForward, hvs, hl, if_false, h0, Option.bind_eq_bind, Option.bind_some, h1, if_true]
          exact hv' v hv hvs
        · refine ⟨a.shape, rfl, fun v hv hvs => ?_⟩
          simp only [squeezeForward, hvs, hl, if_false, h0, Option.bind_eq_bind, Option.bind_some, h1,
            Option.pure_def]
          exact hid v hv hvs
  | many ks =>
    by_cases hl : a.shape.length = 0
    · refine ⟨a.shape, rfl, fun v hv hvs => ?_⟩
      simp only [squeezeForward, hvs, hl, if_true]
      exact hid v hv hvs
    · simp only [squeezeForward, hl, if_false] at h
      cases h0 : ks.mapM (normAxis a.shape.length) with
      | none => simp [h0] at h
      | some ks' =>
        simp only [h0, Option.bind_eq_bind, Option.bind_some] at h
        split_ifs at h with h1
        · refine ⟨a.shape, rfl, fun v hv hvs => ?_⟩
          simp only [squeezeForward, hvs, hl, if_false, h0, Option.bind_eq_bind, Option.bind_some, h1,
            if_true, Option.pure_def]
          exact hid v hv hvs
        · obtain ⟨s', hs', hv'⟩ := hax _ h
          refine ⟨s', hs', fun v hv hvs => ?_⟩
          simp only [squeezeForward, hvs, hl, if_false, h0, Option.bind_eq_bind, Option.bind_some, h1]
          exact hv' v hv hvs

end

end Proofs.Adjoint
