import Proofs.VJPDefs
import Proofs.VJPBceLemmas
/-! # VJP of the binary cross-entropies; max-pool 2d subgradient (C02), over ℝ — see `Proofs.VJPDefs` for the meaning of `IsVJPAt` -/
namespace Proofs.NL
open Synap Synap.NDArray Synap.Np Synap.Kernels Proofs.Core Proofs.Calc

/-! ### binary cross-entropy (pointwise in the prediction, for a fixed target) -/

/-- the scalar the forward kernel evaluates, including its clamp at the level `−log ε` -/
noncomputable def bceScalar (pv tv : ℝ) : ℝ :=
  let l := -(tv * Real.log (pv + (epsilon : ℝ)) + (1 - tv) * Real.log (1 - pv + (epsilon : ℝ)))
  if l = -(Real.log (epsilon : ℝ)) then 100 else l
/-- the factor the backward kernel multiplies the upstream gradient by -/
noncomputable def bceFactor (pv tv : ℝ) : ℝ := -((-(1 - tv) / ((1 - pv) + (epsilon : ℝ))) + tv / (pv + (epsilon : ℝ)))

/-- off the clamp level and where both logarithms are taken of non-zero numbers, the factor is the derivative -/
theorem bce_scalar_deriv (pv tv : ℝ) (h1 : pv + (epsilon : ℝ) ≠ 0) (h2 : 1 - pv + (epsilon : ℝ) ≠ 0)
    (hc : -(tv * Real.log (pv + (epsilon : ℝ)) + (1 - tv) * Real.log (1 - pv + (epsilon : ℝ))) ≠ -(Real.log (epsilon : ℝ))) :
    HasDerivAt (fun x => bceScalar x tv) (bceFactor pv tv) pv := by
  have d1 : HasDerivAt (fun x : ℝ => x + (epsilon : ℝ)) 1 pv := (hasDerivAt_id pv).add_const _
  have d2 : HasDerivAt (fun x : ℝ => 1 - x + (epsilon : ℝ)) (-1) pv :=
    ((hasDerivAt_id pv).const_sub 1).add_const _
  have d3 : HasDerivAt
      (fun x : ℝ => -(tv * Real.log (x + (epsilon : ℝ)) + (1 - tv) * Real.log (1 - x + (epsilon : ℝ))))
      (-(tv * (1 / (pv + (epsilon : ℝ))) + (1 - tv) * (-1 / (1 - pv + (epsilon : ℝ))))) pv :=
    (((d1.log h1).const_mul tv).add ((d2.log h2).const_mul (1 - tv))).neg
  have d4 : HasDerivAt
      (fun x : ℝ => -(tv * Real.log (x + (epsilon : ℝ)) + (1 - tv) * Real.log (1 - x + (epsilon : ℝ))))
      (bceFactor pv tv) pv := by
    refine d3.congr_deriv ?_
    unfold bceFactor
    ring
  have hev := d4.continuousAt.eventually_ne hc
  refine d4.congr_of_eventuallyEq (hev.mono fun x hx => ?_)
  exact if_neg hx

theorem bce_vjp (p t g : NDArray ℝ) (hp : p.WF) (ht : t.WF) (hg : g.WF) (hs : t.shape = p.shape) (hgs : g.shape = p.shape) :
    ∃ y b, bceForward p t = some y ∧ bceBackward g p t = some b ∧ y.shape = p.shape ∧ b.shape = p.shape ∧
      ∀ i, validIdx p.shape i →
        y.get i = bceScalar (p.get i) (t.get i) ∧ b.get i = bceFactor (p.get i) (t.get i) * g.get i := by
  obtain ⟨l, hl, hlwf, hls, hlget⟩ := bce_bcast2_same
    (fun pv tv : ℝ => -(tv * Transc.log (pv + epsilon) + (1 - tv) * Transc.log (1 - pv + epsilon))) p t hs
  obtain ⟨lg, hlg, hlgwf, hlgs, hlgget⟩ := bce_bcast2_same
    (fun pv tv : ℝ => -((-(1 - tv) / ((1 - pv) + epsilon)) + tv / (pv + epsilon))) p t hs
  obtain ⟨b, hb, hbwf, hbs, hbget⟩ := bce_bcast2_same (fun a b : ℝ => a * b) lg g (hgs.trans hlgs.symm)
  refine ⟨_, b, by simp only [bceForward, hl, Option.bind_eq_bind, Option.bind_some, Option.pure_def]; rfl,
    by simp only [bceBackward, hlg, Option.bind_eq_bind, Option.bind_some]; exact hb, ?_, hbs.trans hlgs, ?_⟩
  · rw [map_shape, hls]
  · intro i hi
    constructor
    · rw [get_map _ _ hlwf _ (hls ▸ hi), hlget i hi]
      unfold bceScalar
      simp only [not_lt, Nat.cast_ofNat]
      by_cases h : -(t.get i * Real.log (p.get i + epsilon) + (1 - t.get i) * Real.log (1 - p.get i + epsilon))
          = -Real.log (epsilon : ℝ)
      · rw [if_pos h, if_pos]
        exact ⟨le_of_eq h.symm, le_of_eq h⟩
      · rw [if_neg h, if_neg]
        · rfl
        · intro hh; exact h (le_antisymm hh.2 hh.1)
    · rw [hbget i (hlgs ▸ hi), hlgget i hi]
      rfl

/-! ### binary cross-entropy with logits: the kernel keeps an `ε` in one denominator, so it is the
    derivative up to `ε` (a bounded deviation, stated, not hidden) -/

noncomputable def bceLogitsScalar (xv yv : ℝ) : ℝ :=
  let tn := maxS 0 (-xv)
  (1 - yv) * xv + tn + Real.log (Real.exp (-tn) + Real.exp (-xv - tn))
noncomputable def bceLogitsFactor (xv yv : ℝ) : ℝ :=
  let tn := maxS 0 (-xv)
  let dtn : ℝ := if 0 < tn then -1 else 0
  let e1 := Real.exp (-tn)
  let e2 := Real.exp (-xv - tn)
  (1 - yv) + dtn + ((-dtn) * e1 + (-1 - dtn) * e2) / ((e1 + e2) + (epsilon : ℝ))

theorem bce_logits_scalar_deriv (xv yv : ℝ) :
    HasDerivAt (fun x => bceLogitsScalar x yv) ((1 - yv) - 1 / (1 + Real.exp xv)) xv := by
  have h : (fun x => bceLogitsScalar x yv) = fun x => (1 - yv) * x + Real.log (1 + Real.exp (-x)) :=
    funext fun x => bce_logits_scalar_eq _ x yv
  rw [h]
  exact bce_softplus_deriv xv yv

theorem bce_logits_factor_close (xv yv : ℝ) :
    |bceLogitsFactor xv yv - ((1 - yv) - 1 / (1 + Real.exp xv))| ≤ (epsilon : ℝ) := by
  unfold bceLogitsFactor
  rw [maxS_zero]
  have hE : (0 : ℝ) < Real.exp xv := Real.exp_pos xv
  by_cases hx : 0 ≤ xv
  · rw [max_eq_left (by linarith : -xv ≤ 0)]
    have key : 1 / (1 + Real.exp xv) = Real.exp (-xv) / (1 + Real.exp (-xv)) := by
      rw [Real.exp_neg]; field_simp; ring
    simp only [lt_irrefl, if_false, neg_zero, Real.exp_zero, sub_zero]
    rw [key]
    rw [← abs_neg]
    refine le_of_eq_of_le (congrArg abs ?_) (bce_frac_close (Real.exp (-xv)) _ (Real.exp_pos _) bce_epsilon_pos)
    ring
  · have hx' : xv < 0 := not_le.mp hx
    rw [max_eq_right (by linarith : (0 : ℝ) ≤ -xv)]
    have key : 1 / (1 + Real.exp xv) = 1 - Real.exp xv / (1 + Real.exp xv) := by
      field_simp; ring
    simp only [if_pos (by linarith : (0 : ℝ) < -xv), neg_neg, sub_self, Real.exp_zero]
    rw [key]
    refine le_of_eq_of_le (congrArg abs ?_) (bce_frac_close (Real.exp xv) _ hE bce_epsilon_pos)
    ring

theorem bce_logits_vjp (x y g : NDArray ℝ) (hx : x.WF) (hy : y.WF) (hg : g.WF) (hs : y.shape = x.shape) (hgs : g.shape = x.shape) :
    ∃ l b, bceLogitsForward x y = some l ∧ bceLogitsBackward g x y = some b ∧ l.shape = x.shape ∧ b.shape = x.shape ∧
      ∀ i, validIdx x.shape i →
        l.get i = bceLogitsScalar (x.get i) (y.get i) ∧ b.get i = g.get i * bceLogitsFactor (x.get i) (y.get i) := by
  obtain ⟨l, hl, _, hls, hlget⟩ := bce_bcast2_same
    (fun xv yv : ℝ =>
      let tn := maxS 0 (-xv)
      (1 - yv) * xv + tn + Transc.log (Transc.exp (-tn) + Transc.exp (-xv - tn))) x y hs
  obtain ⟨lg, hlg, _, hlgs, hlgget⟩ := bce_bcast2_same
    (fun xv yv : ℝ =>
      let tn := maxS 0 (-xv)
      let dtn : ℝ := if 0 < tn then -1 else 0
      let e1 := Transc.exp (-tn)
      let e2 := Transc.exp (-xv - tn)
      (1 - yv) + dtn + ((-dtn) * e1 + (-1 - dtn) * e2) / ((e1 + e2) + epsilon)) x y hs
  obtain ⟨b, hb, _, hbs, hbget⟩ := bce_bcast2_same (fun a b : ℝ => a * b) g lg (hlgs.trans hgs.symm)
  refine ⟨l, b, hl, by simp only [bceLogitsBackward, hlg, Option.bind_eq_bind, Option.bind_some]; exact hb,
    hls, hbs.trans hgs, ?_⟩
  intro i hi
  constructor
  · rw [hlget i hi]; rfl
  · rw [hbget i (hgs ▸ hi), hlgget i hi]; rfl

/-! ### max-pool 2d: subgradient selection, as in 1d -/
section
variable {K : Type} [Field K] [LinearOrder K] [IsStrictOrderedRing K]

/-- the gradient of output `(th, tw)` goes to the input position selected by `firstMax` of its window
    (by `Proofs.Subgrad.firstMax_spec` a real, never a padding, position whose value dominates the
    window) and nowhere else -/
theorem maxpool2d_backward_masked (x g b : NDArray K) (k s p d : Nat × Nat) (n c h w lh lw : Nat) (hx : x.shape = [n, c, h, w])
    (hlh : convOut h k.1 s.1 p.1 d.1 = some lh) (hlw : convOut w k.2 s.2 p.2 d.2 = some lw)
    (hb : maxPool2dBackward g x k s p d = some b) :
    b.shape = [n, c, h, w] ∧ ∀ bn cc qh qw, bn < n → cc < c → qh < h → qw < w →
      b.get [bn, cc, qh, qw] = ((List.range lh).flatMap (fun th => (List.range lw).map (fun tw =>
        let pos := win2 h w k s p d th tw
        match firstMax (pos.map (fun o => o.map (fun (q : Nat × Nat) => x.get [bn, cc, q.1, q.2]))) with
        | some (_, a) => if pos.getD a none = some (qh, qw) then g.get [bn, cc, th, tw] else 0
        | none => 0))).sum := by
  unfold maxPool2dBackward poolGeom2 at hb
  rw [hx] at hb
  simp only [hlh, hlw, Option.bind_eq_bind, Option.bind_some, Option.pure_def,
    Option.some.injEq] at hb
  subst hb
  refine ⟨rfl, fun bn cc qh qw h1 h2 h3 h4 => ?_⟩
  rw [get_ofFn _ _ _ (by simp [validIdx, h1, h2, h3, h4])]
  rfl

/-- forward value of max-pool 2d: the `firstMax` of the window, `negInf` only for a window without a real entry -/
theorem maxpool2d_forward_spec (x y : NDArray K) (negInf : K) (k s p d : Nat × Nat) (n c h w lh lw : Nat) (hx : x.shape = [n, c, h, w])
    (hlh : convOut h k.1 s.1 p.1 d.1 = some lh) (hlw : convOut w k.2 s.2 p.2 d.2 = some lw)
    (hy : maxPool2dForward x negInf k s p d = some y) :
    y.shape = [n, c, lh, lw] ∧ ∀ bn cc th tw, bn < n → cc < c → th < lh → tw < lw →
      y.get [bn, cc, th, tw] =
        (match firstMax ((win2 h w k s p d th tw).map (fun o => o.map (fun (q : Nat × Nat) => x.get [bn, cc, q.1, q.2]))) with
         | some (v, _) => v | none => negInf) := by
  unfold maxPool2dForward poolGeom2 at hy
  rw [hx] at hy
  simp only [hlh, hlw, Option.bind_eq_bind, Option.bind_some, Option.pure_def,
    Option.some.injEq] at hy
  subst hy
  refine ⟨rfl, fun bn cc th tw h1 h2 h3 h4 => ?_⟩
  rw [get_ofFn _ _ _ (by simp [validIdx, h1, h2, h3, h4])]
  rfl
end

end Proofs.NL
