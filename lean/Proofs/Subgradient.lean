import Proofs.Core
import Proofs.SubgradientLemmas
import SynapModel.Kernels.NN
import Mathlib.Algebra.Order.Field.Basic
/-!
# max / min / max-pooling: the backward kernel is a valid subgradient (C01 / C02)

Where a maximum is attained at several positions the function is not differentiable; the property
accepts any valid subgradient.  The theorems say: the kernel routes the upstream gradient of every
output element to exactly one position of its fibre / window, that position attains the extremum,
and nothing else receives anything.  `max_subgradient_inequality` is the convex-analysis
inequality that makes "one-hot at an arg-max" a subgradient of `max`.
-/
namespace Proofs.Subgrad
open Synap Synap.NDArray Synap.Np Synap.Kernels Proofs.Core

variable {K : Type} [Field K] [LinearOrder K] [IsStrictOrderedRing K]

/-- the first arg-max of the fibre of `o` lies in that fibre, attains the forward value, and
    dominates the whole fibre -/
theorem argmax_spec (a y : NDArray K) (ha : a.WF) (dim : Option Int) (keep : Bool) (h : maxForward a dim keep = some y)
    (axes : List Nat) (hax : (match dim with | none => Axes.all | some d => Axes.one d).normRed a.shape.length = some axes)
    (o : Idx) (ho : validIdx y.shape o) :
    let j := argExt (fun x y => decide (y < x)) a axes keep o
    validIdx a.shape j ∧ reduceIdx axes keep j = o ∧ y.get o = a.get j ∧
    ∀ i, validIdx a.shape i → reduceIdx axes keep i = o → a.get i ≤ a.get j := by
  intro j
  exact argExt_spec (fun x y => x ≤ y) le_total (fun _ _ _ => le_trans) _ (fun x y => by simp)
    a y dim keep h axes hax o ho

/-- **max backward = upstream gradient masked to the arg-max**: the gradient has the operand's
    shape; position `i` receives `g[o(i)]` when `i` is the selected arg-max of its fibre and 0
    otherwise (so each output element's gradient goes to exactly one input element). -/
theorem max_backward_masked (a y g b : NDArray K) (ha : a.WF) (dim : Option Int) (keep : Bool)
    (h : maxForward a dim keep = some y) (hg : g.WF) (hgs : g.shape = y.shape)
    (hb : maxBackward g a dim keep = some b)
    (axes : List Nat) (hax : (match dim with | none => Axes.all | some d => Axes.one d).normRed a.shape.length = some axes) :
    b.shape = a.shape ∧ ∀ i, validIdx a.shape i →
      b.get i = if argExt (fun x y => decide (y < x)) a axes keep (reduceIdx axes keep i) = i
                then g.get (reduceIdx axes keep i) else 0 := by
  obtain ⟨_, rfl⟩ := extForward_inv _ a y dim keep h axes hax
  have := extBackward_masked _ a g b dim keep hb axes hax hgs
  simpa only [mul_one, mul_zero] using this

/-- backward of max is total whenever forward was accepted -/
theorem max_backward_total (a y g : NDArray K) (ha : a.WF) (dim : Option Int) (keep : Bool)
    (h : maxForward a dim keep = some y) (hg : g.WF) (hgs : g.shape = y.shape) :
    ∃ b, maxBackward g a dim keep = some b ∧ b.shape = a.shape := by
  obtain ⟨axes, hax⟩ := extForward_axes _ a y dim keep h
  exact extBackward_total _ a g dim keep axes hax

/-- **Subgradient inequality** for `max` over a finite family: if `j` attains the maximum of `x`,
    then for every `x'`, `max x' ≥ max x + (x' j − x j)`; i.e. the one-hot vector at an arg-max is a
    subgradient — at *any* arg-max, so every choice among ties is valid. -/
theorem max_subgradient_inequality (ι : Type) (s : List ι) (x x' : ι → K) (j : ι) (hj : j ∈ s)
    (hmax : ∀ i ∈ s, x i ≤ x j) (m' : K) (hm' : ∀ i ∈ s, x' i ≤ m') :
    x j + (x' j - x j) ≤ m' := by
  rw [add_sub_cancel]
  exact hm' j hj

/-- the same for `min` (super-gradient): the first arg-min attains the value and is dominated by the fibre -/
theorem argmin_spec (a y : NDArray K) (ha : a.WF) (dim : Option Int) (keep : Bool) (h : minForward a dim keep = some y)
    (axes : List Nat) (hax : (match dim with | none => Axes.all | some d => Axes.one d).normRed a.shape.length = some axes)
    (o : Idx) (ho : validIdx y.shape o) :
    let j := argExt (fun x y => decide (x < y)) a axes keep o
    validIdx a.shape j ∧ reduceIdx axes keep j = o ∧ y.get o = a.get j ∧
    ∀ i, validIdx a.shape i → reduceIdx axes keep i = o → a.get j ≤ a.get i := by
  intro j
  exact argExt_spec (fun x y => y ≤ x) (fun x y => le_total y x) (fun _ _ _ h1 h2 => le_trans h2 h1) _
    (fun x y => by simp) a y dim keep h axes hax o ho

theorem min_backward_masked (a y g b : NDArray K) (ha : a.WF) (dim : Option Int) (keep : Bool)
    (h : minForward a dim keep = some y) (hg : g.WF) (hgs : g.shape = y.shape)
    (hb : minBackward g a dim keep = some b)
    (axes : List Nat) (hax : (match dim with | none => Axes.all | some d => Axes.one d).normRed a.shape.length = some axes) :
    b.shape = a.shape ∧ ∀ i, validIdx a.shape i →
      b.get i = if argExt (fun x y => decide (x < y)) a axes keep (reduceIdx axes keep i) = i
                then g.get (reduceIdx axes keep i) else 0 := by
  obtain ⟨_, rfl⟩ := extForward_inv _ a y dim keep h axes hax
  have := extBackward_masked _ a g b dim keep hb axes hax hgs
  simpa only [mul_one, mul_zero] using this

/-- `firstMax` on a window with at least one real entry returns a real entry that dominates all real entries -/
theorem firstMax_spec (vals : List (Option K)) (hreal : ∃ (k : Nat) (v : K), vals[k]? = some (some v)) :
    ∃ v k, firstMax vals = some (v, k) ∧ vals[k]? = some (some v) ∧ ∀ (j : Nat) (w : K), vals[j]? = some (some w) → w ≤ v := by
  obtain ⟨k0, v0, hk0⟩ := hreal
  rcases firstMax_inv vals with ⟨_, h2⟩ | h
  · exact absurd hk0 (h2 k0 v0)
  · exact h

/-- **max-pool 1d backward**: the gradient of output `t` goes to the input position selected by
    `firstMax` of its window (an arg-max among the real positions) and nowhere else -/
theorem maxpool1d_backward_masked (x g b : NDArray K) (k s p d : Nat) (n c l lo : Nat) (hx : x.shape = [n, c, l])
    (hlo : convOut l k s p d = some lo) (hb : maxPool1dBackward g x k s p d = some b) :
    b.shape = [n, c, l] ∧ ∀ bn cc q, bn < n → cc < c → q < l →
      b.get [bn, cc, q] = ((List.range lo).map (fun t =>
        let pos := (List.range k).map (fun a => winPos l s p d t a)
        match firstMax (pos.map (fun o => o.map (fun q' => x.get [bn, cc, q']))) with
        | some (_, a) => if pos.getD a none = some q then g.get [bn, cc, t] else 0
        | none => 0)).sum := by
  unfold maxPool1dBackward poolGeom1 at hb
  rw [hx] at hb
  simp only [hlo, Option.map_some, Option.bind_eq_bind, Option.bind_some, Option.pure_def,
    Option.some.injEq] at hb
  subst hb
  refine ⟨rfl, fun bn cc q h1 h2 h3 => ?_⟩
  rw [get_ofFn _ _ _ (by simp [validIdx, h1, h2, h3])]
  rfl

end Proofs.Subgrad
