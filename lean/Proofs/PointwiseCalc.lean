import Proofs.Core
import Proofs.ArrayMapLemmas
import SynapModel.Kernels.NN
import Mathlib.Analysis.SpecialFunctions.ExpDeriv
import Mathlib.Analysis.SpecialFunctions.Log.Deriv
import Mathlib.Analysis.SpecialFunctions.Pow.Deriv
import Mathlib.Analysis.SpecialFunctions.Sqrt
import Mathlib.Analysis.SpecialFunctions.Trigonometric.DerivHyp
import Mathlib.Analysis.SpecialFunctions.Sigmoid
/-!
# Vector-Jacobian products of the pointwise nonlinear ops (C01 / C02), over ℝ

The model kernels are instantiated at `α = ℝ` with `exp, log, sqrt, tanh, x^y` taken from Mathlib.
For a pointwise op `y[i] = φ(a[i])` the Jacobian is diagonal, so "backward = VJP" means
`backward(g)[i] = g[i] · φ'(a[i])` together with `HasDerivAt φ (φ' x) x` on the op's domain.
At the kinks of the relu family the statement is the subgradient inequality.
-/
namespace Proofs.Calc
open Synap Synap.NDArray Synap.Kernels Proofs.Core

noncomputable instance : Transc ℝ := ⟨Real.exp, Real.log, Real.sqrt, Real.tanh, fun x y => x ^ y⟩

/-- `fwd`/`bwd` is a pointwise op with scalar function `φ` whose derivative on `dom` is `φ'`, and
    the backward kernel multiplies the upstream gradient by that derivative, element by element,
    returning an array of the operand's shape -/
def PointwiseVJP (fwd : NDArray ℝ → NDArray ℝ) (bwd : NDArray ℝ → NDArray ℝ → NDArray ℝ)
    (φ φ' : ℝ → ℝ) (dom : ℝ → Prop) : Prop :=
  (∀ x, dom x → HasDerivAt φ (φ' x) x) ∧
  ∀ (a g : NDArray ℝ), a.WF → g.WF → g.shape = a.shape →
    (fwd a).WF ∧ (fwd a).shape = a.shape ∧ (bwd g a).WF ∧ (bwd g a).shape = a.shape ∧
    ∀ i, validIdx a.shape i → (fwd a).get i = φ (a.get i) ∧ (bwd g a).get i = g.get i * φ' (a.get i)


/-! ### the meta-lemmas: a `map` forward with a `zipSame` backward is a pointwise VJP -/

/-- backward reads the *operand*: `fwd a = a.map φk`, `bwd g a = zipSame ψ g a` -/
theorem pointwiseVJP_of_in {fwd : NDArray ℝ → NDArray ℝ} {bwd : NDArray ℝ → NDArray ℝ → NDArray ℝ}
    {φ φ' : ℝ → ℝ} {dom : ℝ → Prop} (φk : ℝ → ℝ) (ψ : ℝ → ℝ → ℝ)
    (hf : ∀ a, fwd a = a.map φk) (hb : ∀ g a, bwd g a = zipSame ψ g a)
    (hφ : ∀ x, φk x = φ x) (hψ : ∀ gv x, ψ gv x = gv * φ' x)
    (hd : ∀ x, dom x → HasDerivAt φ (φ' x) x) : PointwiseVJP fwd bwd φ φ' dom := by
  refine ⟨hd, fun a g ha hg hs => ?_⟩
  rw [hf, hb]
  refine ⟨map_wf _ _ ha, rfl, zipSame_wf _ _ _ hg ha hs, hs, fun i hi => ⟨?_, ?_⟩⟩
  · rw [get_map _ _ ha _ hi, hφ]
  · rw [get_zipSame _ _ _ hg ha hs _ (hs ▸ hi), hψ]

/-- backward reads the *output*: `fwd a = a.map φk`, `bwd g a = zipSame ψ g (fwd a)` -/
theorem pointwiseVJP_of_out {fwd : NDArray ℝ → NDArray ℝ} {bwd : NDArray ℝ → NDArray ℝ → NDArray ℝ}
    {φ φ' : ℝ → ℝ} {dom : ℝ → Prop} (φk : ℝ → ℝ) (ψ : ℝ → ℝ → ℝ)
    (hf : ∀ a, fwd a = a.map φk) (hb : ∀ g a, bwd g a = zipSame ψ g (a.map φk))
    (hφ : ∀ x, φk x = φ x) (hψ : ∀ gv x, ψ gv (φk x) = gv * φ' x)
    (hd : ∀ x, dom x → HasDerivAt φ (φ' x) x) : PointwiseVJP fwd bwd φ φ' dom := by
  refine ⟨hd, fun a g ha hg hs => ?_⟩
  rw [hf, hb]
  have hs' : g.shape = (a.map φk).shape := hs
  refine ⟨map_wf _ _ ha, rfl, zipSame_wf _ _ _ hg (map_wf _ _ ha) hs', hs, fun i hi => ⟨?_, ?_⟩⟩
  · rw [get_map _ _ ha _ hi, hφ]
  · rw [get_zipSame _ _ _ hg (map_wf _ _ ha) hs' _ (hs ▸ hi), get_map _ _ ha _ hi, hψ]

/-! ### scalar facts -/

theorem hasDerivAt_tanh (x : ℝ) : HasDerivAt Real.tanh (1 - Real.tanh x ^ 2) x := by
  have hc : Real.cosh x ≠ 0 := (Real.cosh_pos x).ne'
  have h := (Real.hasDerivAt_sinh x).div (Real.hasDerivAt_cosh x) hc
  have e : Real.sinh / Real.cosh = Real.tanh := by
    funext y; rw [Pi.div_apply, Real.tanh_eq_sinh_div_cosh]
  rw [e] at h
  have hv : 1 - Real.tanh x ^ 2
      = (Real.cosh x * Real.cosh x - Real.sinh x * Real.sinh x) / Real.cosh x ^ 2 := by
    rw [Real.tanh_eq_sinh_div_cosh]
    field_simp
  rw [hv]
  exact h

theorem maxS_zero (x : ℝ) : maxS (0 : ℝ) x = max 0 x := by
  unfold maxS
  split_ifs with h
  · exact (max_eq_right h.le).symm
  · exact (max_eq_left (not_lt.mp h)).symm

theorem seluAlpha_pos : 0 < (seluAlpha : ℝ) := by
  unfold seluAlpha
  norm_num

theorem exp_vjp : PointwiseVJP expForward (fun g a => expBackward g (expForward a)) Real.exp Real.exp (fun _ => True) := by
  exact pointwiseVJP_of_out Real.exp (· * ·) (fun _ => rfl) (fun _ _ => rfl) (fun _ => rfl)
    (fun _ _ => rfl) (fun x _ => Real.hasDerivAt_exp x)

/-- `log` as computed: `log(x + 1e-12)`, differentiable wherever `x + 1e-12 ≠ 0` -/
theorem log_vjp : PointwiseVJP logForward logBackward (fun x => Real.log (x + (epsilon : ℝ))) (fun x => 1 / (x + (epsilon : ℝ)))
    (fun x => x + (epsilon : ℝ) ≠ 0) := by
  refine pointwiseVJP_of_in (fun x => Real.log (x + (epsilon : ℝ))) (fun gv x => gv / (x + (epsilon : ℝ)))
    (fun _ => rfl) (fun _ _ => rfl) (fun _ => rfl) (fun gv x => by ring) (fun x hx => ?_)
  have h := ((hasDerivAt_id x).add_const (epsilon : ℝ)).log hx
  simpa using h

theorem sqrt_vjp : PointwiseVJP sqrtForward (fun g a => sqrtBackward g (sqrtForward a)) Real.sqrt (fun x => 1 / (2 * Real.sqrt x))
    (fun x => 0 < x) := by
  refine pointwiseVJP_of_out Real.sqrt (fun gv o => gv / (((2 : Nat) : ℝ) * o))
    (fun _ => rfl) (fun _ _ => rfl) (fun _ => rfl) (fun gv x => by push_cast; ring) (fun x hx => ?_)
  exact Real.hasDerivAt_sqrt hx.ne' 

/-- `x ** n` for a real exponent `n` (integer or fractional), on `x ≠ 0 ∨ 1 ≤ n` -/
theorem pow_vjp (n : ℝ) : PointwiseVJP (fun a => powForward a n) (fun g a => powBackward g a n) (fun x => x ^ n)
    (fun x => n * x ^ (n - 1)) (fun x => x ≠ 0 ∨ 1 ≤ n) := by
  refine pointwiseVJP_of_in (fun x => x ^ n) (fun gv x => n * x ^ (n - (1 : ℝ)) * gv)
    (fun _ => rfl) (fun _ _ => rfl) (fun _ => rfl) (fun gv x => by ring) (fun x hx => ?_)
  exact Real.hasDerivAt_rpow_const hx

/-- `n ** x` for a base `n > 0` -/
theorem rpow_vjp (n : ℝ) (hn : 0 < n) : PointwiseVJP (fun a => rpowForward a n) (fun g a => rpowBackward g (rpowForward a n) n)
    (fun x => n ^ x) (fun x => n ^ x * Real.log n) (fun _ => True) := by
  refine pointwiseVJP_of_out (fun x => n ^ x) (fun gv o => (o * Real.log n) * gv)
    (fun _ => rfl) (fun _ _ => rfl) (fun _ => rfl) (fun gv x => by ring) (fun x _ => ?_)
  have h := (hasDerivAt_id' x).const_rpow hn
  rw [mul_one, mul_comm] at h
  exact h

theorem tanh_vjp : PointwiseVJP tanhForward (fun g a => tanhBackward g (tanhForward a)) Real.tanh (fun x => 1 - Real.tanh x ^ 2)
    (fun _ => True) := by
  exact pointwiseVJP_of_out Real.tanh (fun gv o => gv * (1 - o * o))
    (fun _ => rfl) (fun _ _ => rfl) (fun _ => rfl) (fun gv x => by ring) (fun x _ => hasDerivAt_tanh x)

theorem sigmoid_vjp : PointwiseVJP sigmoidForward (fun g a => sigmoidBackward g (sigmoidForward a))
    (fun x => 1 / (1 + Real.exp (-x))) (fun x => (1 / (1 + Real.exp (-x))) * (1 - 1 / (1 + Real.exp (-x)))) (fun _ => True) := by
  refine pointwiseVJP_of_out (fun x => 1 / (1 + Real.exp (-x))) (fun gv o => gv * o * (1 - o))
    (fun _ => rfl) (fun _ _ => rfl) (fun _ => rfl) (fun gv x => by ring) (fun x _ => ?_)
  have e : (fun x => 1 / (1 + Real.exp (-x))) = Real.sigmoid := by
    funext y; rw [Real.sigmoid_def, one_div]
  have h := Real.hasDerivAt_sigmoid x
  rw [← e] at h
  exact h

/-- relu away from the kink -/
theorem relu_vjp : PointwiseVJP reluForward reluBackward (fun x => max 0 x) (fun x => if 0 < x then 1 else 0) (fun x => x ≠ 0) := by
  refine pointwiseVJP_of_in (fun x => maxS 0 x) (fun gv x => gv * indPos x)
    (fun _ => rfl) (fun _ _ => rfl) (fun x => maxS_zero x) (fun gv x => rfl) (fun x hx => ?_)
  rcases lt_or_gt_of_ne hx with h | h
  · have : (fun y : ℝ => (0 : ℝ)) =ᶠ[nhds x] fun y => max 0 y := by
      filter_upwards [gt_mem_nhds h] with y hy
      exact (max_eq_left hy.le).symm
    rw [if_neg (not_lt.mpr h.le)]
    exact (hasDerivAt_const x (0 : ℝ)).congr_of_eventuallyEq this.symm
  · have : (fun y : ℝ => y) =ᶠ[nhds x] fun y => max 0 y := by
      filter_upwards [lt_mem_nhds h] with y hy
      exact (max_eq_right hy.le).symm
    rw [if_pos h]
    exact (hasDerivAt_id' x).congr_of_eventuallyEq this.symm

/-- relu at the kink: the kernel's choice `0` is a subgradient of the convex function `max 0 ·` -/
theorem relu_subgradient_at_kink (y : ℝ) : max 0 y ≥ max 0 (0 : ℝ) + (0 : ℝ) * (y - 0) ∧ (indPos (0 : ℝ) = 0) := by
  refine ⟨?_, by simp [indPos]⟩
  simp

/-- leaky relu with any slope, away from the kink -/
theorem leaky_relu_vjp (s : ℝ) : PointwiseVJP (fun a => leakyReluForward a s) (fun g a => leakyReluBackward g a s)
    (fun x => if 0 < x then x else s * x) (fun x => if 0 < x then 1 else s) (fun x => x ≠ 0) := by
  refine pointwiseVJP_of_in (fun x => if 0 < x then x else s * x)
    (fun gv x => gv * (indPos x + s * indNonPos x))
    (fun _ => rfl) (fun _ _ => rfl) (fun _ => rfl) (fun gv x => ?_) (fun x hx => ?_)
  · by_cases h : 0 < x
    · simp [indPos, indNonPos, h, not_le.mpr h]
    · simp [indPos, indNonPos, h, not_lt.mp h]
  · rcases lt_or_gt_of_ne hx with h | h
    · have : (fun y : ℝ => s * y) =ᶠ[nhds x] fun y => if 0 < y then y else s * y := by
        filter_upwards [gt_mem_nhds h] with y hy
        rw [if_neg (not_lt.mpr hy.le)]
      rw [if_neg (not_lt.mpr h.le)]
      have hd := (hasDerivAt_id' x).const_mul s
      rw [mul_one] at hd
      exact hd.congr_of_eventuallyEq this.symm
    · have : (fun y : ℝ => y) =ᶠ[nhds x] fun y => if 0 < y then y else s * y := by
        filter_upwards [lt_mem_nhds h] with y hy
        rw [if_pos hy]
      rw [if_pos h]
      exact (hasDerivAt_id' x).congr_of_eventuallyEq this.symm

/-- selu away from the kink -/
theorem selu_vjp : PointwiseVJP (fun a => seluForward a seluAlpha seluScale) (fun g a => seluBackward g a seluAlpha seluScale)
    (fun x => (seluScale : ℝ) * (if 0 < x then x else (seluAlpha : ℝ) * (Real.exp x - 1)))
    (fun x => (seluScale : ℝ) * (if 0 < x then 1 else (seluAlpha : ℝ) * Real.exp x)) (fun x => x ≠ 0) := by
  refine pointwiseVJP_of_in
    (fun x => (seluScale : ℝ) * (maxS 0 x + minS 0 ((seluAlpha : ℝ) * (Real.exp x - 1))))
    (fun gv x => (seluScale : ℝ) * gv * (indPos x + (seluAlpha : ℝ) * Real.exp (minS x 0) * indNonPos x))
    (fun _ => rfl) (fun _ _ => rfl) (fun x => ?_) (fun gv x => ?_) (fun x hx => ?_)
  · have hα := seluAlpha_pos
    by_cases h : 0 < x
    · have h1 : 0 < (seluAlpha : ℝ) * (Real.exp x - 1) :=
        mul_pos hα (sub_pos.mpr (Real.one_lt_exp_iff.mpr h))
      simp [maxS, minS, h, not_lt.mpr h1.le]
    · have h1 : (seluAlpha : ℝ) * (Real.exp x - 1) ≤ 0 :=
        mul_nonpos_of_nonneg_of_nonpos hα.le (sub_nonpos.mpr (Real.exp_le_one_iff.mpr (not_lt.mp h)))
      simp only [maxS, minS, if_neg h]
      congr 1
      split_ifs with h2
      · simp
      · have : (seluAlpha : ℝ) * (Real.exp x - 1) = 0 := le_antisymm h1 (not_lt.mp h2)
        simp [this]
  · by_cases h : 0 < x
    · simp [indPos, indNonPos, h, not_le.mpr h]; ring
    · simp [indPos, indNonPos, minS, h, not_lt.mp h]; ring
  · rcases lt_or_gt_of_ne hx with h | h
    · have : (fun y : ℝ => (seluScale : ℝ) * ((seluAlpha : ℝ) * (Real.exp y - 1))) =ᶠ[nhds x]
          fun y => (seluScale : ℝ) * (if 0 < y then y else (seluAlpha : ℝ) * (Real.exp y - 1)) := by
        filter_upwards [gt_mem_nhds h] with y hy
        rw [if_neg (not_lt.mpr hy.le)]
      rw [if_neg (not_lt.mpr h.le)]
      have hd := ((((Real.hasDerivAt_exp x).sub_const 1).const_mul (seluAlpha : ℝ))).const_mul (seluScale : ℝ)
      exact hd.congr_of_eventuallyEq this.symm
    · have : (fun y : ℝ => (seluScale : ℝ) * y) =ᶠ[nhds x]
          fun y => (seluScale : ℝ) * (if 0 < y then y else (seluAlpha : ℝ) * (Real.exp y - 1)) := by
        filter_upwards [lt_mem_nhds h] with y hy
        rw [if_pos hy]
      rw [if_pos h]
      have hd := (hasDerivAt_id' x).const_mul (seluScale : ℝ)
      exact hd.congr_of_eventuallyEq this.symm

end Proofs.Calc
