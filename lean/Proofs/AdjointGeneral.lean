import Proofs.AdjointDefs
/-!
# General tools for the adjoint (VJP) proofs of the data-movement ops

* `IsAdjoint.congr`            : replace forward/backward by functions agreeing on the stated shapes
* `isAdjoint_of_gather_scatter`: forward `gather φ`, backward `scatterAdd φ`
* `isAdjoint_of_gather_bij`    : forward `gather φ`, backward `gather ψ`, `φ`/`ψ` mutually inverse
* `validIdx_iff_getD`          : pointwise characterisation of valid indices
-/
namespace Proofs.Adjoint
open Synap Synap.NDArray Proofs.Core

section General
variable {R : Type} [CommSemiring R]

theorem IsAdjoint.congr {sa sy : Shape} {F B F' B' : NDArray R → Option (NDArray R)}
    (h : IsAdjoint sa sy F' B')
    (hF : ∀ v : NDArray R, v.WF → v.shape = sa → F v = F' v)
    (hB : ∀ g : NDArray R, g.WF → g.shape = sy → B g = B' g) : IsAdjoint sa sy F B := by
  intro v g hv hvs hg hgs
  rw [hF v hv hvs, hB g hg hgs]
  exact h v g hv hvs hg hgs

theorem gather_shape (s : Shape) (φ : Idx → Idx) (x : NDArray R) : (gather s φ x).shape = s := rfl
theorem gather_wf (s : Shape) (φ : Idx → Idx) (x : NDArray R) : (gather s φ x).WF := ofFn_wf _ _
theorem scatterAdd_shape (s t : Shape) (φ : Idx → Idx) (x : NDArray R) :
    (scatterAdd s t φ x).shape = s := rfl
theorem scatterAdd_wf (s t : Shape) (φ : Idx → Idx) (x : NDArray R) : (scatterAdd s t φ x).WF :=
  ofFn_wf _ _

/-- forward = gather by `φ`, backward = scatter-add by `φ` -/
theorem isAdjoint_of_gather_scatter (sa sy : Shape) (φ : Idx → Idx)
    (hφ : ∀ j, validIdx sy j → validIdx sa (φ j))
    (F B : NDArray R → Option (NDArray R))
    (hF : ∀ v : NDArray R, v.WF → v.shape = sa → F v = some (gather sy φ v))
    (hB : ∀ g : NDArray R, g.WF → g.shape = sy → B g = some (scatterAdd sa sy φ g)) :
    IsAdjoint sa sy F B := by
  intro v g hv hvs hg hgs
  exact ⟨_, _, hF v hv hvs, hB g hg hgs, gather_wf _ _ _, rfl, scatterAdd_wf _ _ _ _, rfl,
    gather_scatter_adjoint sa sy φ hφ v g hvs⟩

/-- reindexing the pairing along a bijection of index sets -/
theorem dot_gather_bij (sa sy : Shape) (φ ψ : Idx → Idx)
    (hφ : ∀ j, validIdx sy j → validIdx sa (φ j))
    (hψ : ∀ i, validIdx sa i → validIdx sy (ψ i))
    (hψφ : ∀ j, validIdx sy j → ψ (φ j) = j)
    (hφψ : ∀ i, validIdx sa i → φ (ψ i) = i)
    (v g : NDArray R) (hvs : v.shape = sa) :
    dot (gather sy φ v) g = dot v (gather sa ψ g) := by
  subst hvs
  rw [gather, dot_ofFn, dot_eq_sum]
  have hR : ((allIdx v.shape).map (fun i => v.get i * (gather v.shape ψ g).get i)).sum
      = ((allIdx v.shape).map (fun i => v.get i * g.get (ψ i))).sum := by
    congr 1
    apply List.map_congr_left
    intro i hi
    rw [get_gather _ _ _ _ ((mem_allIdx _ i).1 hi)]
  rw [hR, ← List.sum_toFinset _ (allIdx_nodup sy), ← List.sum_toFinset _ (allIdx_nodup v.shape)]
  refine Finset.sum_nbij' φ ψ ?_ ?_ ?_ ?_ ?_
  · intro j hj
    rw [List.mem_toFinset, mem_allIdx] at hj ⊢
    exact hφ j hj
  · intro i hi
    rw [List.mem_toFinset, mem_allIdx] at hi ⊢
    exact hψ i hi
  · intro j hj
    rw [List.mem_toFinset, mem_allIdx] at hj
    exact hψφ j hj
  · intro i hi
    rw [List.mem_toFinset, mem_allIdx] at hi
    exact hφψ i hi
  · intro j hj
    rw [List.mem_toFinset, mem_allIdx] at hj
    rw [hψφ j hj]

/-- forward = gather by `φ`, backward = gather by the inverse `ψ` -/
theorem isAdjoint_of_gather_bij (sa sy : Shape) (φ ψ : Idx → Idx)
    (hφ : ∀ j, validIdx sy j → validIdx sa (φ j))
    (hψ : ∀ i, validIdx sa i → validIdx sy (ψ i))
    (hψφ : ∀ j, validIdx sy j → ψ (φ j) = j)
    (hφψ : ∀ i, validIdx sa i → φ (ψ i) = i)
    (F B : NDArray R → Option (NDArray R))
    (hF : ∀ v : NDArray R, v.WF → v.shape = sa → F v = some (gather sy φ v))
    (hB : ∀ g : NDArray R, g.WF → g.shape = sy → B g = some (gather sa ψ g)) :
    IsAdjoint sa sy F B := by
  intro v g hv hvs hg hgs
  exact ⟨_, _, hF v hv hvs, hB g hg hgs, gather_wf _ _ _, rfl, gather_wf _ _ _, rfl,
    dot_gather_bij sa sy φ ψ hφ hψ hψφ hφψ v g hvs⟩

/-- the filtered sum of `scatterAdd` along a bijection has exactly one term -/
theorem scatterAdd_eq_gather_of_bij (sa sy : Shape) (φ ψ : Idx → Idx)
    (hψ : ∀ i, validIdx sa i → validIdx sy (ψ i))
    (hψφ : ∀ j, validIdx sy j → ψ (φ j) = j)
    (hφψ : ∀ i, validIdx sa i → φ (ψ i) = i)
    (g : NDArray R) : scatterAdd sa sy φ g = gather sa ψ g := by
  apply ext_get _ _ (scatterAdd_wf _ _ _ _) (gather_wf _ _ _) rfl
  intro i hi
  change validIdx sa i at hi
  rw [get_scatterAdd _ _ _ _ _ hi, get_gather _ _ _ _ hi]
  have hf : (allIdx sy).filter (fun j => φ j == i) = [ψ i] := by
    have hnd := (allIdx_nodup sy).filter (fun j => φ j == i)
    have hmem : ∀ j, j ∈ (allIdx sy).filter (fun j => φ j == i) ↔ j ∈ [ψ i] := by
      intro j
      simp only [List.mem_filter, mem_allIdx, beq_iff_eq, List.mem_singleton]
      constructor
      · rintro ⟨hj, rfl⟩; exact (hψφ j hj).symm
      · rintro rfl; exact ⟨hψ i hi, hφψ i hi⟩
    exact List.perm_singleton.1
      ((List.perm_ext_iff_of_nodup hnd (List.nodup_singleton _)).2 hmem)
  rw [hf]; simp

end General

theorem normAxis_lt {n : Nat} {ax : Int} {k : Nat} (h : normAxis n ax = some k) : k < n := by
  unfold normAxis at h
  split_ifs at h with h1 h2
  · simp only [Option.some.injEq] at h; omega
  · simp only [Option.some.injEq] at h; omega

/-! ### `mapM` in `Option` -/

theorem mapM_some_forall₂ {α β : Type} (f : α → Option β) :
    ∀ (l : List α) (r : List β), l.mapM f = some r → List.Forall₂ (fun a b => f a = some b) l r
  | [], r, h => by
    simp at h; subst h; exact .nil
  | x :: l, r, h => by
    rw [List.mapM_cons] at h
    cases hx : f x with
    | none => simp [hx] at h
    | some b =>
      cases hm : l.mapM f with
      | none => simp [hx, hm] at h
      | some r' =>
        simp [hx, hm] at h
        subst h
        exact .cons hx (mapM_some_forall₂ f l r' hm)

theorem forall₂_mem_right {α β : Type} {P : α → β → Prop} {l : List α} {r : List β}
    (h : List.Forall₂ P l r) : ∀ b ∈ r, ∃ a ∈ l, P a b := by
  induction h with
  | nil => simp
  | cons hab _ ih =>
    intro b hb
    rcases List.mem_cons.1 hb with rfl | hb
    · exact ⟨_, List.mem_cons_self, hab⟩
    · obtain ⟨a, ha, hr⟩ := ih b hb
      exact ⟨a, List.mem_cons_of_mem _ ha, hr⟩

/-! ### pointwise characterisation of valid indices -/

theorem validIdx_iff_getD (s : Shape) (i : Idx) :
    validIdx s i ↔ i.length = s.length ∧ ∀ k, k < s.length → i.getD k 0 < s.getD k 0 := by
  induction s generalizing i with
  | nil => cases i <;> simp [validIdx]
  | cons n s ih =>
    cases i with
    | nil => simp [validIdx]
    | cons a i =>
      simp only [validIdx, ih, List.length_cons, Nat.add_right_cancel_iff]
      constructor
      · rintro ⟨ha, hl, h⟩
        refine ⟨hl, fun k hk => ?_⟩
        cases k with
        | zero => simpa using ha
        | succ k => simpa using h k (by omega)
      · rintro ⟨hl, h⟩
        refine ⟨by simpa using h 0 (by omega), hl, fun k hk => ?_⟩
        simpa using h (k + 1) (by omega)

theorem validIdx_append_singleton (s : Shape) (m : Nat) (j : Idx) :
    validIdx (s ++ [m]) j ↔ ∃ body k, j = body ++ [k] ∧ validIdx s body ∧ k < m := by
  induction s generalizing j with
  | nil =>
    cases j with
    | nil => simp [validIdx]
    | cons a j =>
      cases j with
      | nil =>
        simp only [List.nil_append, validIdx, and_true]
        constructor
        · intro h; exact ⟨[], a, rfl, trivial, h⟩
        · rintro ⟨body, k, hb, hv, hk⟩
          cases body with
          | nil => simp at hb; omega
          | cons b body => simp [validIdx] at hv
      | cons b j =>
        simp only [List.nil_append, validIdx, and_false, false_iff]
        rintro ⟨body, k, hb, hv, hk⟩
        cases body with
        | nil => simp at hb
        | cons b body => simp [validIdx] at hv
  | cons n s ih =>
    cases j with
    | nil => simp [validIdx]
    | cons a j =>
      simp only [List.cons_append, validIdx, ih]
      constructor
      · rintro ⟨ha, body, k, rfl, hv, hk⟩
        exact ⟨a :: body, k, rfl, ⟨ha, hv⟩, hk⟩
      · rintro ⟨body, k, hb, hv, hk⟩
        cases body with
        | nil => simp [validIdx] at hv
        | cons b body =>
          simp only [List.cons_append, List.cons.injEq] at hb
          obtain ⟨rfl, rfl⟩ := hb
          exact ⟨hv.1, body, k, rfl, hv.2, hk⟩

end Proofs.Adjoint
