import Proofs.Core
import Proofs.SpecLemmas
import Proofs.AdjointMove
import Proofs.AdjointAlg
import Proofs.NNSpecLemmas
import Proofs.ArrayMapLemmas
/-!
# Specification theorems for the data-movement and reduction kernels

"The executable definition equals its mathematical reading": for every operation below we state
(1) the exact acceptance condition, (2) the output shape as an explicit formula, and (3) for every
valid output index the output entry as an explicit formula in the operands' entries.

Conventions: `pyAxis n d` is Python's reading of a possibly negative axis `d` against rank `n`
(`d + n` when `d < 0`), `InRange n d` is `-n ≤ d < n`.
-/
namespace Proofs.SpecOps
open Synap Synap.NDArray Synap.Np Synap.Kernels Proofs.Core Proofs.Adjoint Proofs.Spec

/-! ## Axis arguments -/

/-- Python's normalisation of a (possibly negative) axis against a rank -/
def pyAxis (n : Nat) (d : Int) : Nat := (if d < 0 then d + n else d).toNat

/-- `-n ≤ d < n` -/
def InRange (n : Nat) (d : Int) : Prop := -(n : Int) ≤ d ∧ d < n

instance (n : Nat) (d : Int) : Decidable (InRange n d) := by unfold InRange; infer_instance

theorem so_normAxis_iff (n : Nat) (d : Int) (k : Nat) :
    normAxis n d = some k ↔ InRange n d ∧ k = pyAxis n d := by
  unfold normAxis InRange pyAxis
  constructor
  · intro h
    split_ifs at h with h1 h2
    · simp only [Option.some.injEq] at h
      have : ¬ d < 0 := by omega
      rw [if_neg this]
      omega
    · simp only [Option.some.injEq] at h
      rw [if_pos h2.1]
      omega
  · rintro ⟨⟨h1, h2⟩, rfl⟩
    by_cases hd : d < 0
    · rw [if_neg (by omega), if_pos ⟨hd, h1⟩, if_pos hd]
    · rw [if_pos ⟨by omega, h2⟩, if_neg hd]

theorem so_normAxis_of (n : Nat) (d : Int) (h : InRange n d) : normAxis n d = some (pyAxis n d) :=
  (so_normAxis_iff n d _).2 ⟨h, rfl⟩

theorem so_normAxis_none (n : Nat) (d : Int) (h : ¬ InRange n d) : normAxis n d = none := by
  cases h0 : normAxis n d with
  | none => rfl
  | some k => exact absurd ((so_normAxis_iff n d k).1 h0).1 h

theorem so_pyAxis_lt (n : Nat) (d : Int) (h : InRange n d) : pyAxis n d < n := by
  unfold InRange at h; unfold pyAxis; split_ifs <;> omega

theorem so_mapM_normAxis_iff (n : Nat) : ∀ (ds : List Int) (ks : List Nat),
    ds.mapM (normAxis n) = some ks ↔ (∀ d ∈ ds, InRange n d) ∧ ks = ds.map (pyAxis n)
  | [], ks => by simp [eq_comm]
  | d :: ds, ks => by
    rw [List.mapM_cons]
    by_cases hd : InRange n d
    · rw [so_normAxis_of n d hd]
      cases hm : ds.mapM (normAxis n) with
      | none =>
        have := (so_mapM_normAxis_iff n ds (ds.map (pyAxis n))).not.1 (by rw [hm]; simp)
        simp only [Option.bind_eq_bind, Option.bind_some, Option.bind_none, List.mem_cons,
          forall_eq_or_imp, List.map_cons, false_iff, reduceCtorEq]
        rintro ⟨⟨_, h2⟩, _⟩
        exact this ⟨h2, rfl⟩
      | some ks' =>
        obtain ⟨h1, h2⟩ := (so_mapM_normAxis_iff n ds ks').1 hm
        subst h2
        simp only [Option.bind_eq_bind, Option.bind_some, Option.pure_def, Option.some.injEq,
          List.mem_cons, forall_eq_or_imp, List.map_cons, hd, true_and]
        constructor
        · rintro rfl; exact ⟨h1, rfl⟩
        · rintro ⟨_, rfl⟩; rfl
    · rw [so_normAxis_none n d hd]
      simp [hd]

section Transpose
/-! ## 1. transpose -/

/-- exchange the entries at positions `a` and `b` -/
def swapAt (l : List Nat) (a b : Nat) : List Nat := (l.set a (l.getD b 0)).set b (l.getD a 0)

theorem so_getD_swapAt (l : List Nat) (a b k : Nat) (ha : a < l.length) (hb : b < l.length) :
    (swapAt l a b).getD k 0 = if k = a then l.getD b 0 else if k = b then l.getD a 0 else l.getD k 0 := by
  unfold swapAt
  simp only [List.getD_eq_getElem?_getD, List.getElem?_set, List.length_set]
  by_cases h1 : b = k
  · subst h1
    by_cases h2 : b = a
    · subst h2; simp [hb]
    · simp [hb, h2]
  · have h1' : ¬ k = b := fun h => h1 h.symm
    by_cases h2 : a = k
    · subst h2; simp [h1, ha]
    · have h2' : ¬ k = a := fun h => h2 h.symm
      simp [h1, h2, h1', h2']

theorem so_length_swapAt (l : List Nat) (a b : Nat) : (swapAt l a b).length = l.length := by
  simp [swapAt]

theorem so_permute_swapPerm (l : List Nat) (a b : Nat) (ha : a < l.length) (hb : b < l.length) :
    permute l (swapPerm l.length a b) = swapAt l a b := by
  apply Proofs.NNSpec.list_ext_getD _ _ l.length (by rw [length_permute, length_swapPerm]) (so_length_swapAt l a b)
  intro k hk
  rw [getD_permute _ _ _ (by rw [length_swapPerm]; exact hk), swapPerm_getD _ _ _ _ hk,
    so_getD_swapAt l a b k ha hb]
  split_ifs <;> rfl

theorem so_swapAt_self (l : List Nat) (a : Nat) : swapAt l a a = l := by
  unfold swapAt
  apply List.ext_getElem?
  intro i
  simp only [List.getElem?_set, List.length_set, List.getD_eq_getElem?_getD]
  by_cases h : a = i
  · subst h
    by_cases h2 : a < l.length
    · simp [h2]
    · simp [h2]
  · simp [h]

variable {R : Type} [CommRing R]

/-- **transpose(dim0, dim1)** (`np.swapaxes`): accepted exactly when both dims lie in
    `[-ndim, ndim)`; the result shape is the operand shape with the two sizes exchanged and
    `out[…, i_a, …, i_b, …] = x[…, i_b, …, i_a, …]`, i.e. the entry at `j` is the operand's entry at
    `j` with positions `a`, `b` exchanged (`a`, `b` the normalised dims).  Any rank, negative dims. -/
theorem transpose_spec (x : NDArray R) (d0 d1 : Int) :
    let n := x.shape.length
    let a := pyAxis n d0
    let b := pyAxis n d1
    ((transposeForward x d0 d1).isSome ↔ InRange n d0 ∧ InRange n d1) ∧
    ∀ y, transposeForward x d0 d1 = some y →
      y.shape = swapAt x.shape a b ∧
      ∀ j, validIdx y.shape j → y.get j = x.get (swapAt j a b) := by
  intro n a b
  unfold transposeForward swapaxes
  by_cases h0 : InRange n d0
  · by_cases h1 : InRange n d1
    · have ha : a < n := so_pyAxis_lt n d0 h0
      have hb : b < n := so_pyAxis_lt n d1 h1
      have hp := swapPerm_pair n a b ha hb
      have e0 : normAxis x.shape.length d0 = some a := so_normAxis_of n d0 h0
      have e1 : normAxis x.shape.length d1 = some b := so_normAxis_of n d1 h1
      simp only [e0, e1, Option.bind_eq_bind, Option.bind_some,
        Option.pure_def, Option.isSome_some, h0, h1, and_self, Option.some.injEq, true_and]
      rintro y rfl
      refine ⟨so_permute_swapPerm x.shape a b ha hb, ?_⟩
      intro j hj
      change validIdx (permute x.shape (swapPerm n a b)) j at hj
      show (gather _ (fun j => permute j (invPerm (swapPerm n a b))) x).get j = _
      rw [get_gather _ _ _ _ hj, hp.invPerm_eq]
      have hjl : j.length = n := by
        rw [validIdx_length _ _ hj, length_permute]; exact hp.1
      congr 1
      have := so_permute_swapPerm j a b (by omega) (by omega)
      rw [hjl] at this
      exact this
    · have e1 : normAxis x.shape.length d1 = none := so_normAxis_none n d1 h1
      simp [e1, h1]
  · have e0 : normAxis x.shape.length d0 = none := so_normAxis_none n d0 h0
    simp [e0, h0]

example : ∃ y, transposeForward (⟨[2, 3], [1, 2, 3, 4, 5, 6]⟩ : NDArray Int) (-1) 0 = some y ∧
    y.shape = [3, 2] ∧ y.get [2, 1] = 6 := by
  refine ⟨_, rfl, by decide, by decide⟩

/-- **transpose(d, d) is the identity** (also through a negative spelling of the same dim) -/
theorem transpose_same (x : NDArray R) (hx : x.WF) (d0 d1 : Int) (h0 : InRange x.shape.length d0)
    (h1 : InRange x.shape.length d1) (he : pyAxis x.shape.length d0 = pyAxis x.shape.length d1) :
    transposeForward x d0 d1 = some x := by
  obtain ⟨hacc, hval⟩ := transpose_spec x d0 d1
  obtain ⟨y, hy⟩ := Option.isSome_iff_exists.1 (hacc.2 ⟨h0, h1⟩)
  obtain ⟨hs, hg⟩ := hval y hy
  rw [he, so_swapAt_self] at hs
  rw [hy]
  congr 1
  have hyw : y.WF := by
    unfold transposeForward swapaxes at hy
    simp only [so_normAxis_of _ d0 h0, so_normAxis_of _ d1 h1, Option.bind_eq_bind, Option.bind_some,
      Option.pure_def, Option.some.injEq] at hy
    rw [← hy]; exact gather_wf _ _ _
  apply ext_get _ _ hyw hx hs
  intro j hj
  rw [hg j hj, he, so_swapAt_self]

example : transposeForward (⟨[2, 3], [1, 2, 3, 4, 5, 6]⟩ : NDArray Int) (-1) 1
    = some ⟨[2, 3], [1, 2, 3, 4, 5, 6]⟩ :=
  transpose_same _ (by unfold WF; rfl) _ _ (by decide) (by decide) (by decide)

end Transpose

section Movedim
/-! ## 2. movedim -/

theorem so_map_rest_eq_eraseIdx (l : List Nat) (s : Nat) (hs : s < l.length) :
    ((List.range l.length).filter (fun x => decide (x ≠ s))).map (fun p => l.getD p 0) = l.eraseIdx s := by
  rw [filter_ne_range _ _ hs]
  apply List.ext_getElem?
  intro m
  rw [List.getElem?_map, List.getElem?_eraseIdx]
  by_cases h : m < s
  · rw [List.getElem?_append_left (by simpa using h), List.getElem?_range h, if_pos h]
    simp [List.getD_eq_getElem?_getD, show m < l.length by omega]
  · rw [List.getElem?_append_right (by simpa using h), if_neg h]
    simp only [List.length_range]
    by_cases h2 : m + 1 < l.length
    · rw [List.getElem?_range' (by omega)]
      have : s + 1 + (m - s) = m + 1 := by omega
      simp [this, List.getD_eq_getElem?_getD, h2]
    · rw [List.getElem?_eq_none (by simp; omega), List.getElem?_eq_none (by omega)]
      rfl

/-- moving axis `s` to position `d` on a list: remove entry `s`, re-insert it at `d` -/
theorem so_permute_moveaxisPerm (l : List Nat) (s d : Nat) (hs : s < l.length) :
    permute l (moveaxisPerm l.length s d) = insertAt (l.eraseIdx s) d (l.getD s 0) := by
  unfold permute moveaxisPerm insertAt
  rw [List.map_append, List.map_cons, List.map_take, List.map_drop, so_map_rest_eq_eraseIdx l s hs]

variable {R : Type} [CommRing R]

/-- **movedim(source, destination)** (`np.moveaxis` with one pair): accepted exactly when both dims
    lie in `[-ndim, ndim)`; the result shape is the operand shape with the source size removed and
    re-inserted at the destination; `out[j] = x[i]` where `i` is `j` with its entry at the
    destination removed and re-inserted at the source — i.e.
    `out[…(axes other than src in order, with i_src at position dst)…] = x[…i…]`. -/
theorem movedim_spec (x : NDArray R) (src dst : Int) :
    let n := x.shape.length
    let s := pyAxis n src
    let d := pyAxis n dst
    ((movedimForward x src dst).isSome ↔ InRange n src ∧ InRange n dst) ∧
    ∀ y, movedimForward x src dst = some y →
      y.shape = insertAt (x.shape.eraseIdx s) d (x.shape.getD s 0) ∧
      ∀ j, validIdx y.shape j → y.get j = x.get (insertAt (j.eraseIdx d) s (j.getD d 0)) := by
  intro n s d
  unfold movedimForward moveaxis
  by_cases h0 : InRange n src
  · by_cases h1 : InRange n dst
    · have hs : s < n := so_pyAxis_lt n src h0
      have hd : d < n := so_pyAxis_lt n dst h1
      have hp := moveaxisPerm_pair n s d hs hd
      have e0 : normAxis x.shape.length src = some s := so_normAxis_of n src h0
      have e1 : normAxis x.shape.length dst = some d := so_normAxis_of n dst h1
      simp only [e0, e1, Option.bind_eq_bind, Option.bind_some,
        Option.pure_def, Option.isSome_some, h0, h1, and_self, Option.some.injEq, true_and]
      rintro y rfl
      refine ⟨so_permute_moveaxisPerm x.shape s d hs, ?_⟩
      intro j hj
      change validIdx (permute x.shape (moveaxisPerm n s d)) j at hj
      show (gather _ (fun j => permute j (invPerm (moveaxisPerm n s d))) x).get j = _
      rw [get_gather _ _ _ _ hj, hp.invPerm_eq]
      have hjl : j.length = n := by
        rw [validIdx_length _ _ hj, length_permute]; exact hp.1
      congr 1
      have := so_permute_moveaxisPerm j d s (by omega)
      rw [hjl] at this
      exact this
    · have e1 : normAxis x.shape.length dst = none := so_normAxis_none n dst h1
      simp [e1, h1]
  · have e0 : normAxis x.shape.length src = none := so_normAxis_none n src h0
    simp [e0, h0]

example : ∃ y, movedimForward (NDArray.ofFn [2, 3, 4] (fun i => (ravel [2, 3, 4] i : Int))) 0 (-1) = some y ∧
    y.shape = [3, 4, 2] ∧ y.get [2, 3, 1] = 23 := by
  refine ⟨_, rfl, by decide, by decide⟩

/-- the same statement in "destination form": the entry of the result at an index whose
    destination position holds `t` is the operand's entry with `t` at the source position -/
theorem movedim_entry (x y : NDArray R) (src dst : Int) (h : movedimForward x src dst = some y)
    (q : Idx) (t : Nat) (hq : validIdx (x.shape.eraseIdx (pyAxis x.shape.length src)) q)
    (ht : t < x.shape.getD (pyAxis x.shape.length src) 0) :
    y.get (insertAt q (pyAxis x.shape.length dst) t) = x.get (insertAt q (pyAxis x.shape.length src) t) := by
  obtain ⟨hacc, hval⟩ := movedim_spec x src dst
  obtain ⟨hs, hg⟩ := hval y h
  have hr := hacc.1 (by rw [h]; rfl)
  have hd := so_pyAxis_lt _ _ hr.2
  have hsl := so_pyAxis_lt _ _ hr.1
  have hql : q.length = x.shape.length - 1 := by
    rw [validIdx_length _ _ hq, List.length_eraseIdx_of_lt hsl]
  have hdq : pyAxis x.shape.length dst ≤ q.length := by omega
  rw [hg _ (by
    rw [hs]
    exact validIdx_insertAt _ q _ _ t hq (by rw [List.length_eraseIdx_of_lt hsl]; omega) ht),
    eraseIdx_insertAt q _ t hdq, getD_insertAt q _ t 0 hdq]

end Movedim

section Reshape
/-! ## 3. reshape -/

theorem so_filter_neg_nil (target : List Int) (h : (target.filter (fun t => decide (t < 0))).length = 0) :
    ∀ t ∈ target, ¬ t < 0 := by
  intro t ht hlt
  have : t ∈ target.filter (fun t => decide (t < 0)) := List.mem_filter.2 ⟨ht, by simpa using hlt⟩
  rw [List.length_eq_zero_iff] at h
  rw [h] at this
  cases this

/-- what `resolveShape` accepts and returns, in closed form -/
theorem so_resolveShape_iff (sz : Nat) (target : List Int) (s : Shape) :
    resolveShape sz target = some s ↔
      (∀ t ∈ target, -1 ≤ t) ∧
      (((target.filter (fun t => decide (t < 0))).length = 0 ∧
          Shape.size ((target.filter (fun t => decide (t ≥ 0))).map Int.toNat) = sz) ∨
        ((target.filter (fun t => decide (t < 0))).length = 1 ∧
          Shape.size ((target.filter (fun t => decide (t ≥ 0))).map Int.toNat) ≠ 0 ∧
          Shape.size ((target.filter (fun t => decide (t ≥ 0))).map Int.toNat) ∣ sz)) ∧
      s = target.map (fun t => if t < 0 then
        sz / Shape.size ((target.filter (fun t => decide (t ≥ 0))).map Int.toNat) else t.toNat) := by
  unfold resolveShape
  simp only
  change (if (target.any fun x => decide (x < -1)) = true then none
    else if (target.filter (fun t => decide (t < 0))).length = 0 then
      (if Shape.size ((target.filter (fun t => decide (t ≥ 0))).map Int.toNat) = sz then
        some ((target.filter (fun t => decide (t ≥ 0))).map Int.toNat) else none)
    else if (target.filter (fun t => decide (t < 0))).length = 1 then
      (if Shape.size ((target.filter (fun t => decide (t ≥ 0))).map Int.toNat) = 0 then none
       else if sz % Shape.size ((target.filter (fun t => decide (t ≥ 0))).map Int.toNat) = 0 then
         some (target.map (fun t => if t < 0 then
           sz / Shape.size ((target.filter (fun t => decide (t ≥ 0))).map Int.toNat) else t.toNat))
       else none)
    else none) = some s ↔ _
  generalize Shape.size ((target.filter (fun t => decide (t ≥ 0))).map Int.toNat) = p
  by_cases hany : (target.any fun x => decide (x < -1)) = true
  · rw [if_pos hany]
    simp only [reduceCtorEq, false_iff, not_and]
    intro hall
    rw [List.any_eq_true] at hany
    obtain ⟨t, ht, hlt⟩ := hany
    have := hall t ht
    simp at hlt; omega
  · rw [if_neg hany]
    have hall : ∀ t ∈ target, -1 ≤ t := by
      intro t ht
      by_contra hc
      exact hany (List.any_eq_true.2 ⟨t, ht, by simp; omega⟩)
    by_cases h0 : (target.filter (fun t => decide (t < 0))).length = 0
    · rw [if_pos h0]
      have hnn := so_filter_neg_nil target h0
      have hk : (target.filter (fun t => decide (t ≥ 0))).map Int.toNat
          = target.map (fun t => if t < 0 then sz / p else t.toNat) := by
        rw [List.filter_eq_self.2 (by intro t ht; have := hnn t ht; simp; omega)]
        apply List.map_congr_left
        intro t ht
        rw [if_neg (hnn t ht)]
      rw [hk]
      by_cases hp : p = sz
      · rw [if_pos hp]
        constructor
        · intro h; exact ⟨hall, Or.inl ⟨h0, hp⟩, (Option.some.inj h).symm⟩
        · rintro ⟨_, _, h⟩; rw [h]
      · rw [if_neg hp]
        constructor
        · intro h; cases h
        · rintro ⟨_, (⟨_, h⟩ | ⟨h, _⟩), _⟩
          · exact absurd h hp
          · omega
    · rw [if_neg h0]
      by_cases h1 : (target.filter (fun t => decide (t < 0))).length = 1
      · rw [if_pos h1]
        by_cases hp : p = 0
        · rw [if_pos hp]
          constructor
          · intro h; cases h
          · rintro ⟨_, (⟨h, _⟩ | ⟨_, h, _⟩), _⟩
            · exact absurd h h0
            · exact absurd hp h
        · rw [if_neg hp]
          by_cases hm : sz % p = 0
          · rw [if_pos hm]
            constructor
            · intro h
              exact ⟨hall, Or.inr ⟨h1, hp, Nat.dvd_of_mod_eq_zero hm⟩, (Option.some.inj h).symm⟩
            · rintro ⟨_, _, h⟩; rw [h]
          · rw [if_neg hm]
            constructor
            · intro h; cases h
            · rintro ⟨_, (⟨h, _⟩ | ⟨_, _, h⟩), _⟩
              · exact absurd h h0
              · exact absurd (Nat.mod_eq_zero_of_dvd h) hm
      · rw [if_neg h1]
        constructor
        · intro h; cases h
        · rintro ⟨_, (⟨h, _⟩ | ⟨h, _⟩), _⟩
          · exact absurd h h0
          · exact absurd h h1

variable {R : Type} [CommRing R]

/-- **reshape(shape)** with at most one `-1`: accepted exactly when every entry is `≥ -1` and either
    there is no `-1` and the product of the entries equals the number of elements, or there is exactly
    one `-1` and the product `p` of the other entries is non-zero and divides the number of elements
    (the hole then resolves to `size / p`).  The result has the requested shape and *the same
    row-major data*: `y.data = x.data`; equivalently the entry at `j` is the operand's entry at the
    index with the same flat offset, and the `k`-th elements in row-major order agree. -/
theorem reshape_spec (x : NDArray R) (hx : x.WF) (target : List Int) :
    let sz := Shape.size x.shape
    let p := Shape.size ((target.filter (fun t => decide (t ≥ 0))).map Int.toNat)
    let holes := (target.filter (fun t => decide (t < 0))).length
    ((reshapeForward x target).isSome ↔
      (∀ t ∈ target, -1 ≤ t) ∧ ((holes = 0 ∧ p = sz) ∨ (holes = 1 ∧ p ≠ 0 ∧ p ∣ sz))) ∧
    ∀ y, reshapeForward x target = some y →
      y.shape = target.map (fun t => if t < 0 then sz / p else t.toNat) ∧
      Shape.size y.shape = sz ∧ y.data = x.data ∧
      (∀ j, validIdx y.shape j → y.get j = x.get (unravel x.shape (ravel y.shape j))) ∧
      (∀ k, k < sz → y.get (unravel y.shape k) = x.get (unravel x.shape k)) := by
  intro sz p holes
  unfold reshapeForward reshape
  constructor
  · constructor
    · intro h
      obtain ⟨y, hy⟩ := Option.isSome_iff_exists.1 h
      cases h0 : resolveShape (Shape.size x.shape) target with
      | none => rw [h0] at hy; cases hy
      | some s =>
        have := (so_resolveShape_iff _ _ _).1 h0
        exact ⟨this.1, this.2.1⟩
    · rintro ⟨h1, h2⟩
      rw [(so_resolveShape_iff (Shape.size x.shape) target _).2 ⟨h1, h2, rfl⟩]
      rfl
  · intro y hy
    cases h0 : resolveShape (Shape.size x.shape) target with
    | none => rw [h0] at hy; cases hy
    | some s =>
      rw [h0] at hy
      simp only [Option.map_some, Option.some.injEq] at hy
      subst hy
      have hs := ((so_resolveShape_iff _ _ _).1 h0).2.2
      have hsz := resolveShape_size _ _ _ h0
      refine ⟨hs, hsz, reshapeTo_data x hx s hsz, ?_, ?_⟩
      · intro j hj
        exact get_gather _ _ _ _ hj
      · intro k hk
        obtain ⟨hv, hr⟩ := ravel_unravel s k (by rw [hsz]; exact hk)
        show (gather s _ x).get (unravel s k) = _
        rw [get_gather _ _ _ _ hv, hr]

example : ∃ y, reshapeForward (⟨[2, 3], [1, 2, 3, 4, 5, 6]⟩ : NDArray Int) [3, -1] = some y ∧
    y.shape = [3, 2] ∧ y.data = [1, 2, 3, 4, 5, 6] ∧ y.get [1, 0] = 3 := by
  refine ⟨_, rfl, by decide, by decide, by decide⟩

example : reshapeForward (⟨[2, 3], [1, 2, 3, 4, 5, 6]⟩ : NDArray Int) [4, -1] = none := by decide

end Reshape

section Squeeze
/-! ## 4. squeeze / unsqueeze -/

theorem so_eraseDups_of_nodup : ∀ (l : List Nat), l.Nodup → l.eraseDups = l
  | [], _ => rfl
  | a :: as, h => by
    rw [List.nodup_cons] at h
    rw [List.eraseDups_cons]
    have : as.filter (fun b => !b == a) = as := by
      rw [List.filter_eq_self]
      intro b hb
      have : b ≠ a := fun e => h.1 (e ▸ hb)
      simpa using this
    rw [this, so_eraseDups_of_nodup as h.2]

/-- `normAxes`: every axis in range, and the normalised axes pairwise distinct -/
theorem so_normAxes_iff (n : Nat) (axes : List Int) (ax : List Nat) :
    normAxes n axes = some ax ↔
      (∀ d ∈ axes, InRange n d) ∧ (axes.map (pyAxis n)).Nodup ∧ ax = axes.map (pyAxis n) := by
  unfold normAxes
  constructor
  · intro h
    cases hm : axes.mapM (normAxis n) with
    | none => simp [hm] at h
    | some r =>
      simp only [hm, Option.bind_eq_bind, Option.bind_some] at h
      obtain ⟨h1, h2⟩ := (so_mapM_normAxis_iff n axes r).1 hm
      split_ifs at h with h3
      simp only [Option.some.injEq] at h
      subst h
      subst h2
      exact ⟨h1, nodup_of_eraseDups_length _ _ (Nat.le_refl _) h3, rfl⟩
  · rintro ⟨h1, h2, rfl⟩
    rw [(so_mapM_normAxis_iff n axes _).2 ⟨h1, rfl⟩]
    simp [so_eraseDups_of_nodup _ h2]

theorem so_dropAxes_nil {α : Type} (l : List α) : dropAxes l [] = l := by
  unfold dropAxes
  simp

theorem so_shape_nil_of_length {s : Shape} (h : s.length = 0) : s = [] := List.length_eq_zero_iff.1 h

variable {R : Type} [CommRing R]

/-- **squeeze()** (`dim=None`): always accepted; every axis of size 1 disappears, the others stay in
    order, the row-major data is unchanged.  (A 0-d operand is returned as is — the same formula.) -/
theorem squeeze_all_spec (x : NDArray R) (hx : x.WF) :
    ∃ y, squeezeForward x .all = some y ∧ y.shape = x.shape.filter (fun n => decide (n ≠ 1)) ∧
      y.data = x.data := by
  unfold squeezeForward
  by_cases hl : x.shape.length > 0
  · refine ⟨_, by rw [if_pos hl], rfl, ?_⟩
    exact reshapeTo_data x hx _ (size_filter_ne_one _)
  · refine ⟨x, by rw [if_neg hl], ?_, rfl⟩
    rw [so_shape_nil_of_length (by omega : x.shape.length = 0)]
    rfl

example : ∃ y, squeezeForward (⟨[1, 2, 1, 3], [1, 2, 3, 4, 5, 6]⟩ : NDArray Int) .all = some y ∧
    y.shape = [2, 3] ∧ y.data = [1, 2, 3, 4, 5, 6] := ⟨_, rfl, by decide, by decide⟩

/-- what `squeezeAxes` does when every named axis is in range, distinct, and of size 1 -/
theorem so_squeezeAxes_eq (x : NDArray R) (axes : List Int)
    (h1 : ∀ d ∈ axes, InRange x.shape.length d) (h2 : (axes.map (pyAxis x.shape.length)).Nodup)
    (h3 : ∀ k ∈ axes.map (pyAxis x.shape.length), x.shape.getD k 0 = 1) :
    squeezeAxes x axes = some (reshapeTo x (dropAxes x.shape (axes.map (pyAxis x.shape.length)))) :=
  squeezeAxes_of x axes _ ((so_normAxes_iff _ _ _).2 ⟨h1, h2, rfl⟩) h3

/-- **squeeze(dim)** with an int: on a 0-d operand anything is accepted and nothing changes;
    otherwise `dim` must lie in `[-ndim, ndim)`, and that axis is removed *iff* it has size 1
    (no error when it has another size — PyTorch's rule, not NumPy's).  Data unchanged. -/
theorem squeeze_one_spec (x : NDArray R) (hx : x.WF) (k : Int) :
    let n := x.shape.length
    let a := pyAxis n k
    ((squeezeForward x (.one k)).isSome ↔ n = 0 ∨ InRange n k) ∧
    ∀ y, squeezeForward x (.one k) = some y →
      y.shape = (if x.shape.getD a 0 = 1 then x.shape.eraseIdx a else x.shape) ∧ y.data = x.data := by
  intro n a
  unfold squeezeForward
  by_cases hl : x.shape.length = 0
  · simp only [hl, if_true, Option.isSome_some, true_iff]
    refine ⟨Or.inl hl, ?_⟩
    rintro y hy
    rw [← Option.some.inj hy]
    have : x.shape = [] := so_shape_nil_of_length hl
    refine ⟨?_, rfl⟩
    rw [this]; simp
  · simp only [hl, if_false]
    by_cases hr : InRange n k
    · have e0 : normAxis x.shape.length k = some a := so_normAxis_of n k hr
      simp only [e0, Option.bind_eq_bind, Option.bind_some, Option.pure_def]
      by_cases h1 : x.shape.getD a 0 = 1
      · have hsq := so_squeezeAxes_eq x [k] (by simpa using hr) (by simp)
          (by simpa using h1)
        simp only [if_pos h1, hsq, Option.isSome_some, true_iff, Option.some.injEq]
        refine ⟨Or.inr hr, ?_⟩
        rintro y rfl
        refine ⟨?_, ?_⟩
        · show dropAxes x.shape [a] = _
          rw [dropAxes_single]
        · apply reshapeTo_data x hx
          apply size_dropAxes
          simpa using h1
      · simp only [if_neg h1, Option.isSome_some, true_iff, Option.some.injEq]
        refine ⟨Or.inr hr, ?_⟩
        rintro y rfl
        exact ⟨rfl, rfl⟩
    · have e0 : normAxis x.shape.length k = none := so_normAxis_none n k hr
      simp only [e0, Option.bind_eq_bind, Option.bind_none, Option.isSome_none, Bool.false_eq_true,
        false_iff, not_or]
      refine ⟨⟨hl, hr⟩, ?_⟩
      intro y hy
      cases hy

example : ∃ y, squeezeForward (⟨[2, 1, 3], [1, 2, 3, 4, 5, 6]⟩ : NDArray Int) (.one (-2)) = some y ∧
    y.shape = [2, 3] := ⟨_, rfl, by decide⟩
example : ∃ y, squeezeForward (⟨[2, 1, 3], [1, 2, 3, 4, 5, 6]⟩ : NDArray Int) (.one 0) = some y ∧
    y.shape = [2, 1, 3] := ⟨_, rfl, by decide⟩
example : squeezeForward (⟨[2, 1, 3], [1, 2, 3, 4, 5, 6]⟩ : NDArray Int) (.one 3) = none := by decide

/-- the axes `squeeze(tuple)` hands to `np.squeeze`: the named ones that have size 1 -/
theorem so_sel_map (n : Nat) (sh : Shape) : ∀ (ks : List Int), (∀ d ∈ ks, InRange n d) →
    (((List.zip ks (ks.map (pyAxis n))).filter (fun (p : Int × Nat) => sh.getD p.2 0 == 1)).map (·.1)).map (pyAxis n)
      = (ks.map (pyAxis n)).filter (fun a => sh.getD a 0 == 1) ∧
    ∀ d ∈ ((List.zip ks (ks.map (pyAxis n))).filter (fun (p : Int × Nat) => sh.getD p.2 0 == 1)).map (·.1),
      InRange n d
  | [], _ => by simp
  | k :: ks, h => by
    obtain ⟨ih1, ih2⟩ := so_sel_map n sh ks (fun d hd => h d (by simp [hd]))
    simp only [List.map_cons, List.zip_cons_cons, List.filter_cons]
    by_cases h1 : (sh.getD (pyAxis n k) 0 == 1) = true
    · simp only [h1, if_true, List.map_cons, ih1, true_and]
      intro d hd
      rcases List.mem_cons.1 hd with rfl | hd
      · exact h d (by simp)
      · exact ih2 d hd
    · simp only [h1]
      exact ⟨ih1, ih2⟩

/-- **squeeze(dims)** with a tuple: on a 0-d operand anything is accepted and nothing changes;
    otherwise every named dim must lie in `[-ndim, ndim)` and *the named dims that have size 1*
    must be pairwise distinct after normalisation (a repeated dim of another size is tolerated:
    the kernel filters before it calls `np.squeeze`); exactly those axes are removed.
    Data unchanged. -/
theorem squeeze_many_spec (x : NDArray R) (hx : x.WF) (ks : List Int) (hl : x.shape.length ≠ 0) :
    let n := x.shape.length
    let sel := (ks.map (pyAxis n)).filter (fun a => x.shape.getD a 0 == 1)
    ((squeezeForward x (.many ks)).isSome ↔ (∀ d ∈ ks, InRange n d) ∧ sel.Nodup) ∧
    ∀ y, squeezeForward x (.many ks) = some y →
      y.shape = dropAxes x.shape sel ∧ y.data = x.data := by
  intro n sel
  unfold squeezeForward
  simp only [hl, if_false]
  by_cases hr : ∀ d ∈ ks, InRange n d
  · have e0 : ks.mapM (normAxis x.shape.length) = some (ks.map (pyAxis n)) :=
      (so_mapM_normAxis_iff n ks _).2 ⟨hr, rfl⟩
    obtain ⟨hs1, hs2⟩ := so_sel_map n x.shape ks hr
    simp only [e0, Option.bind_eq_bind, Option.bind_some, Option.pure_def]
    by_cases hemp : ((List.zip ks (ks.map (pyAxis n))).filter
        (fun (p : Int × Nat) => x.shape.getD p.2 0 == 1)).isEmpty = true
    · have hsel : sel = [] := by
        rw [List.isEmpty_iff] at hemp
        show (ks.map (pyAxis n)).filter _ = []
        rw [← hs1, hemp]; rfl
      simp only [hemp, if_true, Option.isSome_some, true_iff, Option.some.injEq]
      refine ⟨⟨hr, by rw [hsel]; exact List.nodup_nil⟩, ?_⟩
      rintro y rfl
      rw [hsel, so_dropAxes_nil]
      exact ⟨rfl, rfl⟩
    · simp only [hemp]
      have hone : ∀ k ∈ sel, x.shape.getD k 0 = 1 := by
        intro k hk
        have := (List.mem_filter.1 hk).2
        simpa using this
      by_cases hnd : sel.Nodup
      · have hsq := so_squeezeAxes_eq x _ hs2 (by rw [hs1]; exact hnd) (by rw [hs1]; exact hone)
        rw [hs1] at hsq
        simp only [Bool.false_eq_true, if_false, hsq, Option.isSome_some, true_iff, Option.some.injEq]
        refine ⟨⟨hr, hnd⟩, ?_⟩
        rintro y rfl
        exact ⟨rfl, reshapeTo_data x hx _ (size_dropAxes _ _ hone)⟩
      · have hno : squeezeAxes x (((List.zip ks (ks.map (pyAxis n))).filter
            (fun (p : Int × Nat) => x.shape.getD p.2 0 == 1)).map (·.1)) = none := by
          cases hq : squeezeAxes x (((List.zip ks (ks.map (pyAxis n))).filter
            (fun (p : Int × Nat) => x.shape.getD p.2 0 == 1)).map (·.1)) with
          | none => rfl
          | some y =>
            obtain ⟨ax, e1, _⟩ := squeezeAxes_inv x y _ hq
            have := ((so_normAxes_iff _ _ _).1 e1).2.1
            rw [hs1] at this
            exact absurd this hnd
        simp only [Bool.false_eq_true, if_false, hno, Option.isSome_none, false_iff, not_and]
        refine ⟨fun _ => hnd, ?_⟩
        intro y hy; cases hy
  · have e0 : ks.mapM (normAxis x.shape.length) = none := by
      cases hm : ks.mapM (normAxis x.shape.length) with
      | none => rfl
      | some r => exact absurd ((so_mapM_normAxis_iff n ks r).1 hm).1 hr
    simp only [e0, Option.bind_eq_bind, Option.bind_none, Option.isSome_none, Bool.false_eq_true,
      false_iff, not_and]
    refine ⟨fun h => absurd h hr, ?_⟩
    intro y hy; cases hy

/-- on a 0-d operand `squeeze(tuple)` returns the operand, whatever the tuple -/
theorem squeeze_many_zero_d (x : NDArray R) (ks : List Int) (hl : x.shape.length = 0) :
    squeezeForward x (.many ks) = some x := by
  simp [squeezeForward, hl]

example : ∃ y, squeezeForward (⟨[1, 2, 1, 3], [1, 2, 3, 4, 5, 6]⟩ : NDArray Int) (.many [0, -2, 1, 1]) = some y ∧
    y.shape = [2, 3] ∧ y.data = [1, 2, 3, 4, 5, 6] := ⟨_, rfl, by decide, by decide⟩
example : squeezeForward (⟨[1, 2, 1, 3], [1, 2, 3, 4, 5, 6]⟩ : NDArray Int) (.many [0, -4]) = none := by decide

end Squeeze

section Unsqueeze

/-- entry `i` of the shape `expand_dims` builds: 1 at a named position, otherwise the next unused
    operand size, i.e. the operand size number "count of un-named positions before `i`" -/
theorem so_expandShape_getD (ax : List Nat) : ∀ (c m : Nat) (rem : Shape) (i : Nat), i < c →
    (expandShape ax m c rem).getD i 0 =
      if (m + i) ∈ ax then 1
      else rem.getD (((List.range' m i).filter (fun k => !ax.contains k)).length) 1
  | 0, _, _, _, h => by omega
  | c + 1, m, rem, i, hi => by
    unfold expandShape
    cases i with
    | zero =>
      by_cases hm : m ∈ ax
      · simp [hm]
      · simp [hm, List.headD_eq_head?_getD, List.getD_eq_getElem?_getD, List.head?_eq_getElem?]
    | succ i =>
      have e : m + (i + 1) = m + 1 + i := by omega
      rw [List.range'_succ, List.filter_cons, e]
      by_cases hm : m ∈ ax
      · have hc : ax.contains m = true := by simpa using hm
        simp only [hc, if_true, List.getD_cons_succ, Bool.not_true, Bool.false_eq_true, if_false]
        exact so_expandShape_getD ax c (m + 1) rem i (by omega)
      · have hc : ax.contains m = false := by simpa using hm
        simp only [hc, Bool.false_eq_true, if_false, List.getD_cons_succ, Bool.not_false, if_true,
          List.length_cons]
        rw [so_expandShape_getD ax c (m + 1) (rem.drop 1) i (by omega)]
        congr 1
        simp [List.getD_eq_getElem?_getD, Nat.add_comm]

variable {R : Type} [CommRing R]

/-- **unsqueeze(dims)** (`np.expand_dims`): with `m = ndim + len(dims)` the *result* rank, accepted
    exactly when every dim lies in `[-m, m)` and the normalised dims are pairwise distinct.  The
    result has rank `m`; its size at position `i` is 1 when `i` is a named position, and otherwise
    the operand's size number "count of un-named positions before `i`" (so removing the named
    positions gives back the operand's shape).  Data unchanged in row-major order. -/
theorem unsqueeze_spec (x : NDArray R) (hx : x.WF) (axes : List Int) :
    let m := x.shape.length + axes.length
    let ax := axes.map (pyAxis m)
    ((unsqueezeForward x axes).isSome ↔ (∀ d ∈ axes, InRange m d) ∧ ax.Nodup) ∧
    ∀ y, unsqueezeForward x axes = some y →
      y.shape.length = m ∧
      (∀ i, i < m → y.shape.getD i 0 =
        if i ∈ ax then 1 else x.shape.getD (((List.range i).filter (fun k => !ax.contains k)).length) 1) ∧
      dropAxes y.shape ax = x.shape ∧
      y.data = x.data := by
  intro m ax
  unfold unsqueezeForward expandDims
  by_cases hok : (∀ d ∈ axes, InRange m d) ∧ ax.Nodup
  · have e0 : normAxes (x.shape.length + axes.length) axes = some ax :=
      (so_normAxes_iff m axes ax).2 ⟨hok.1, hok.2, rfl⟩
    obtain ⟨hnd, hlt, hlen⟩ := normAxes_spec e0
    simp only [e0, Option.bind_eq_bind, Option.bind_some, Option.pure_def, Option.some.injEq]
    refine ⟨iff_of_true rfl hok, ?_⟩
    rintro y rfl
    have hshape : ((List.range (x.shape.length + axes.length)).foldl (fun (acc : Shape × Shape) k =>
        if ax.contains k then (acc.1 ++ [1], acc.2)
        else (acc.1 ++ [acc.2.headD 1], acc.2.drop 1)) (([] : Shape), x.shape)).1
        = expandShape ax 0 m x.shape := by
      rw [List.range_eq_range', expand_foldl]; rfl
    show (reshapeTo x _).shape.length = m ∧ _
    simp only [reshapeTo_shape]
    rw [hshape]
    have hdrop : dropAxes (expandShape ax 0 m x.shape) ax = x.shape := by
      rw [dropAxes_eq]
      apply expandShape_drop
      rw [← List.range_eq_range', count_not_named _ ax hnd hlt, hlen]
      omega
    have hone : ∀ k ∈ ax, (expandShape ax 0 m x.shape).getD k 0 = 1 := by
      intro k hk
      exact expandShape_one ax _ 0 _ k (hlt k hk) (by simpa using hk)
    refine ⟨expandShape_length ax m 0 x.shape, ?_, hdrop, ?_⟩
    · intro i hi
      rw [so_expandShape_getD ax m 0 x.shape i hi, Nat.zero_add, List.range_eq_range']
    · apply reshapeTo_data x hx
      rw [← size_dropAxes _ ax hone, hdrop]
  · have e0 : normAxes (x.shape.length + axes.length) axes = none := by
      cases hq : normAxes (x.shape.length + axes.length) axes with
      | none => rfl
      | some r =>
        have := (so_normAxes_iff m axes r).1 hq
        exact absurd ⟨this.1, this.2.1⟩ hok
    simp only [e0, Option.bind_eq_bind, Option.bind_none, Option.isSome_none, Bool.false_eq_true, hok,
      reduceCtorEq, false_implies, implies_true, and_self]

/-- **unsqueeze(dim)** with one int: a size-1 axis is inserted at position `dim`
    (normalised against `ndim + 1`) -/
theorem unsqueeze_one_spec (x : NDArray R) (hx : x.WF) (d : Int) (hd : InRange (x.shape.length + 1) d) :
    ∃ y, unsqueezeForward x [d] = some y ∧
      y.shape = insertAt x.shape (pyAxis (x.shape.length + 1) d) 1 ∧ y.data = x.data := by
  have hn := so_normAxis_of _ d hd
  refine ⟨_, Proofs.NNSpec.expandDims_single x d _ hn, rfl, ?_⟩
  apply reshapeTo_data x hx
  exact Proofs.NNSpec.size_insertAt_one _ _

example : ∃ y, unsqueezeForward (⟨[2, 3], [1, 2, 3, 4, 5, 6]⟩ : NDArray Int) [0, -1] = some y ∧
    y.shape = [1, 2, 3, 1] ∧ y.data = [1, 2, 3, 4, 5, 6] := ⟨_, rfl, by decide, by decide⟩
example : unsqueezeForward (⟨[2, 3], [1, 2, 3, 4, 5, 6]⟩ : NDArray Int) [0, -4] = none := by decide
example : unsqueezeForward (⟨[2, 3], [1, 2, 3, 4, 5, 6]⟩ : NDArray Int) [4] = none := by decide

end Unsqueeze

section Concat
/-! ## 5. concat / stack -/

/-- running offsets: in a list of sizes with total `> t` there is a block containing `t` -/
theorem so_exists_block : ∀ (l : List Nat) (t : Nat), t < l.sum →
    ∃ k, ∃ hk : k < l.length, (l.take k).sum ≤ t ∧ t < (l.take k).sum + l[k]
  | [], t, h => by simp at h
  | n :: l, t, h => by
    by_cases ht : t < n
    · exact ⟨0, by simp, by simp, by simpa using ht⟩
    · obtain ⟨k, hk, h1, h2⟩ := so_exists_block l (t - n) (by simp at h; omega)
      refine ⟨k + 1, by simpa using hk, ?_, ?_⟩
      · simp only [List.take_succ_cons, List.sum_cons]; omega
      · simp only [List.take_succ_cons, List.sum_cons, List.getElem_cons_succ]; omega

variable {α : Type} [Zero α]

/-- the search `concatenate` performs: index `t` along the axis falls into operand `k`, at
    position `t - (sizes before k)` -/
theorem so_find_spec (a : Nat) (j : Idx) (t : Nat) : ∀ (xs : List (NDArray α)) (off k : Nat)
    (hk : k < xs.length),
    off + ((xs.take k).map (fun x => x.shape.getD a 0)).sum ≤ t →
    t < off + ((xs.take k).map (fun x => x.shape.getD a 0)).sum + xs[k].shape.getD a 0 →
    concatenate.find a j t xs off =
      xs[k].get (j.set a (t - (off + ((xs.take k).map (fun x => x.shape.getD a 0)).sum)))
  | [], _, _, hk, _, _ => by simp at hk
  | x :: r, off, 0, _, h1, h2 => by
    simp only [List.take_zero, List.map_nil, List.sum_nil, Nat.add_zero, List.getElem_cons_zero] at h1 h2 ⊢
    rw [concatenate.find, if_pos h2]
    congr 1
    exact zipIdx_map_ite_eq_set j a (fun _ => t - off)
  | x :: r, off, k + 1, hk, h1, h2 => by
    simp only [List.take_succ_cons, List.map_cons, List.sum_cons, List.getElem_cons_succ] at h1 h2 ⊢
    rw [concatenate.find, if_neg (by omega),
      so_find_spec a j t r (off + x.shape.getD a 0) k (by simpa using hk) (by omega) (by omega)]
    simp only [Nat.add_assoc]

variable {R : Type} [CommRing R]

/-- **concat(tensors, dim)** (`np.concatenate`): accepted exactly when the list is non-empty, `dim`
    lies in `[-ndim, ndim)` of the first operand, and all operands have the first operand's rank
    and its shape off the axis.  The result has the first operand's shape with the size along the
    axis replaced by the sum of the operands' sizes along it; the entry at `j`, whose coordinate
    along the axis is `t`, comes from the operand `k` whose block `[off_k, off_k + n_k)` of running
    offsets contains `t` (there is one), read at `j` with `t` replaced by `t - off_k`. -/
theorem concat_spec (x0 : NDArray R) (r : List (NDArray R)) (axis : Int) :
    let xs := x0 :: r
    let a := pyAxis x0.shape.length axis
    let off := fun k => ((xs.take k).map (fun x => x.shape.getD a 0)).sum
    ((concatForward xs axis).isSome ↔ InRange x0.shape.length axis ∧
      ∀ x ∈ xs, x.shape.length = x0.shape.length ∧ x.shape.eraseIdx a = x0.shape.eraseIdx a) ∧
    ∀ y, concatForward xs axis = some y →
      y.shape = x0.shape.set a ((xs.map (fun x => x.shape.getD a 0)).sum) ∧
      ∀ j, validIdx y.shape j →
        (∃ k, ∃ hk : k < xs.length, off k ≤ j.getD a 0 ∧ j.getD a 0 < off k + xs[k].shape.getD a 0) ∧
        ∀ k (hk : k < xs.length), off k ≤ j.getD a 0 → j.getD a 0 < off k + xs[k].shape.getD a 0 →
          y.get j = xs[k].get (j.set a (j.getD a 0 - off k)) := by
  intro xs a off
  unfold concatForward concatenate
  simp only [xs, List.head?_cons, Option.bind_eq_bind, Option.bind_some, Option.pure_def]
  by_cases hr : InRange x0.shape.length axis
  · have e0 : normAxis x0.shape.length axis = some a := so_normAxis_of _ axis hr
    have ha : a < x0.shape.length := so_pyAxis_lt _ _ hr
    simp only [e0, Option.bind_some]
    by_cases hall : ((x0 :: r).all (fun x => x.shape.length == x0.shape.length &&
        (dropAxes x.shape [a]) == (dropAxes x0.shape [a]))) = true
    · have hall' : ∀ x ∈ x0 :: r, x.shape.length = x0.shape.length ∧
          x.shape.eraseIdx a = x0.shape.eraseIdx a := by
        intro x hx
        have := List.all_eq_true.1 hall x hx
        simpa [dropAxes_single] using this
      simp only [hall, Bool.not_true, Bool.false_eq_true, if_false]
      refine ⟨iff_of_true rfl ⟨hr, hall'⟩, ?_⟩
      intro y hy
      rw [← Option.some.inj hy]
      have hshape : (x0.shape.zipIdx.map (fun (p : Nat × Nat) =>
          if p.2 = a then ((x0 :: r).map (fun x => x.shape.getD a 0)).sum else p.1))
          = x0.shape.set a (((x0 :: r).map (fun x => x.shape.getD a 0)).sum) :=
        zipIdx_map_ite_eq_set x0.shape a (fun _ => ((x0 :: r).map (fun x => x.shape.getD a 0)).sum)
      refine ⟨hshape, ?_⟩
      intro j hj
      change validIdx (x0.shape.zipIdx.map _) j at hj
      have hj' := hj
      rw [hshape] at hj'
      have hjt : j.getD a 0 < ((x0 :: r).map (fun x => x.shape.getD a 0)).sum := by
        have := validIdx_getD _ _ a hj' (by simpa using ha)
        simpa [List.getD_eq_getElem?_getD, ha] using this
      constructor
      · obtain ⟨k, hk, h1, h2⟩ := so_exists_block _ _ hjt
        have hk' : k < (x0 :: r).length := by simpa using hk
        refine ⟨k, hk', ?_, ?_⟩
        · show ((List.take k (x0 :: r)).map _).sum ≤ _
          rw [List.map_take]; exact h1
        · show _ < ((List.take k (x0 :: r)).map _).sum + _
          rw [List.map_take]
          rw [List.getElem_map] at h2
          exact h2
      · intro k hk h1 h2
        rw [get_ofFn _ _ _ hj]
        have := so_find_spec (α := R) a j (getI j a) (x0 :: r) 0 k hk
          (by simpa [off, xs, getI] using h1) (by simpa [off, xs, getI] using h2)
        simp only [Nat.zero_add] at this
        exact this
    · simp only [hall, Bool.not_false, if_true, Option.bind_none, Option.isSome_none,
        Bool.false_eq_true, false_iff, not_and]
      refine ⟨fun _ hc => hall ?_, fun y hy => by cases hy⟩
      rw [List.all_eq_true]
      intro x hx
      have := hc x hx
      simp [dropAxes_single, this.1, this.2]
  · have e0 : normAxis x0.shape.length axis = none := so_normAxis_none _ axis hr
    simp only [e0, Option.bind_none, Option.isSome_none, Bool.false_eq_true, false_iff, not_and]
    exact ⟨fun h => absurd h hr, fun y hy => by cases hy⟩

/-- an empty list of operands is rejected -/
theorem concat_nil (axis : Int) : concatForward ([] : List (NDArray R)) axis = none := rfl

example : ∃ y, concatForward [(⟨[2, 1], [1, 2]⟩ : NDArray Int), ⟨[2, 2], [3, 4, 5, 6]⟩] (-1) = some y ∧
    y.shape = [2, 3] ∧ y.data = [1, 3, 4, 2, 5, 6] ∧ y.get [1, 2] = 6 :=
  ⟨_, rfl, by decide, by decide, by decide⟩
example : concatForward [(⟨[2, 1], [1, 2]⟩ : NDArray Int), ⟨[3, 2], [3, 4, 5, 6, 7, 8]⟩] 1 = none := by
  decide

/-- **stack(tensors, dim)** (`np.stack`): accepted exactly when the list is non-empty, `dim` lies in
    `[-(ndim+1), ndim+1)` and all operands have the same shape.  The result has a new axis of size
    `len(tensors)` inserted at `dim`, and `out[…, k at dim, …] = tensors[k][…]`. -/
theorem stack_spec (x0 : NDArray R) (r : List (NDArray R)) (axis : Int) :
    let xs := x0 :: r
    let a := pyAxis (x0.shape.length + 1) axis
    ((stackForward xs axis).isSome ↔ InRange (x0.shape.length + 1) axis ∧ ∀ x ∈ xs, x.shape = x0.shape) ∧
    ∀ y, stackForward xs axis = some y →
      y.shape = insertAt x0.shape a xs.length ∧
      (∀ j, validIdx y.shape j → ∃ hk : j.getD a 0 < xs.length,
        y.get j = xs[j.getD a 0].get (j.eraseIdx a)) ∧
      (∀ k (hk : k < xs.length) (q : Idx), validIdx x0.shape q →
        y.get (insertAt q a k) = xs[k].get q) := by
  intro xs a
  unfold stackForward stack
  simp only [xs, List.head?_cons, Option.bind_eq_bind, Option.bind_some, Option.pure_def]
  by_cases hr : InRange (x0.shape.length + 1) axis
  · have e0 : normAxis (x0.shape.length + 1) axis = some a := so_normAxis_of _ axis hr
    have ha : a ≤ x0.shape.length := by have := so_pyAxis_lt _ _ hr; omega
    simp only [e0, Option.bind_some]
    by_cases hall : ((x0 :: r).all (fun x => x.shape == x0.shape)) = true
    · have hall' : ∀ x ∈ x0 :: r, x.shape = x0.shape := by
        intro x hx
        simpa using List.all_eq_true.1 hall x hx
      simp only [hall, Bool.not_true, Bool.false_eq_true, if_false]
      refine ⟨iff_of_true rfl ⟨hr, hall'⟩, ?_⟩
      intro y hy
      rw [← Option.some.inj hy]
      have hj1 : ∀ j, validIdx (insertAt x0.shape a (x0 :: r).length) j →
          ∃ hk : j.getD a 0 < (x0 :: r).length,
            (ofFn (insertAt x0.shape a (x0 :: r).length) (fun j =>
              match (x0 :: r)[getI j a]? with
              | some x => x.get (dropAxes j [a])
              | none => 0)).get j = (x0 :: r)[j.getD a 0].get (j.eraseIdx a) := by
        intro j hj
        have hk : j.getD a 0 < (x0 :: r).length := by
          have := validIdx_getD _ _ a hj (by rw [length_insertAt]; omega)
          rwa [getD_insertAt _ _ _ _ ha] at this
        refine ⟨hk, ?_⟩
        rw [get_ofFn _ _ _ hj]
        show (match (x0 :: r)[j.getD a 0]? with
          | some x => x.get (dropAxes j [a])
          | none => 0) = _
        rw [List.getElem?_eq_getElem hk, dropAxes_single]
      refine ⟨rfl, hj1, ?_⟩
      intro k hk q hq
      have hql : a ≤ q.length := by rw [validIdx_length _ _ hq]; exact ha
      obtain ⟨_, e⟩ := hj1 (insertAt q a k) (validIdx_insertAt _ q a _ k hq ha hk)
      refine e.trans ?_
      have h1 := getD_insertAt q a k 0 hql
      have h2 := eraseIdx_insertAt q a k hql
      simp only [h1, h2]
    · simp only [hall, Bool.not_false, if_true, Option.bind_none, Option.isSome_none,
        Bool.false_eq_true, false_iff, not_and]
      refine ⟨fun _ hc => hall ?_, fun y hy => by cases hy⟩
      rw [List.all_eq_true]
      intro x hx
      simp [hc x hx]
  · have e0 : normAxis (x0.shape.length + 1) axis = none := so_normAxis_none _ axis hr
    simp only [e0, Option.bind_none, Option.isSome_none, Bool.false_eq_true, false_iff, not_and]
    exact ⟨fun h => absurd h hr, fun y hy => by cases hy⟩

theorem stack_nil (axis : Int) : stackForward ([] : List (NDArray R)) axis = none := rfl

example : ∃ y, stackForward [(⟨[2], [1, 2]⟩ : NDArray Int), ⟨[2], [3, 4]⟩, ⟨[2], [5, 6]⟩] (-1) = some y ∧
    y.shape = [2, 3] ∧ y.data = [1, 3, 5, 2, 4, 6] ∧ y.get [1, 2] = 6 :=
  ⟨_, rfl, by decide, by decide, by decide⟩
example : stackForward [(⟨[2], [1, 2]⟩ : NDArray Int), ⟨[1, 2], [3, 4]⟩] 0 = none := by decide

/-! ## 6. unbind -/

/-- **unbind(dim)**: accepted exactly when `dim` lies in `[-ndim, ndim)`; there is one output per
    index along the axis, output `k` has the operand's shape with the axis removed, and
    `out_k[…] = x[…, k at dim, …]`. -/
theorem unbind_spec (x : NDArray R) (axis : Int) :
    let a := pyAxis x.shape.length axis
    ((unbindForward x axis).isSome ↔ InRange x.shape.length axis) ∧
    ∀ ys, unbindForward x axis = some ys →
      ys.length = x.shape.getD a 0 ∧
      ∀ k (hk : k < ys.length), ys[k].shape = x.shape.eraseIdx a ∧
        ∀ q, validIdx (x.shape.eraseIdx a) q → ys[k].get q = x.get (insertAt q a k) := by
  intro a
  unfold unbindForward unbind
  by_cases hr : InRange x.shape.length axis
  · have e0 : normAxis x.shape.length axis = some a := so_normAxis_of _ axis hr
    simp only [e0, Option.bind_eq_bind, Option.bind_some, Option.pure_def, Option.some.injEq]
    refine ⟨iff_of_true rfl hr, ?_⟩
    rintro ys rfl
    refine ⟨by simp, ?_⟩
    intro k hk
    simp only [List.getElem_map, List.getElem_range]
    refine ⟨dropAxes_single _ _, ?_⟩
    intro q hq
    unfold take
    rw [get_gather _ _ _ _ (by rw [dropAxes_single]; exact hq)]
  · have e0 : normAxis x.shape.length axis = none := so_normAxis_none _ axis hr
    simp only [e0, Option.bind_eq_bind, Option.bind_none, Option.isSome_none, Bool.false_eq_true,
      false_iff]
    exact ⟨hr, fun y hy => by cases hy⟩

example : ∃ ys, unbindForward (⟨[2, 3], [1, 2, 3, 4, 5, 6]⟩ : NDArray Int) (-1) = some ys ∧
    ys.length = 3 ∧ ys[1]?.map (·.data) = some [2, 5] := ⟨_, rfl, by decide, by decide⟩

end Concat

section Indexing0
/-! ## 7. indexing -/

/-! ### Python slices -/

/-- a slice bound as Python reads it: add `n` when negative, then clamp into `[lo, hi]` -/
def pyClamp (n : Nat) (v lo hi : Int) : Int :=
  let w := if v < 0 then v + n else v
  if w < lo then lo else if w > hi then hi else w

/-- first position `slice(start, stop, step).indices(n)` selects -/
def pyStart (n : Nat) (start : Option Int) (step : Int) : Int :=
  if step > 0 then (match start with | none => 0 | some v => pyClamp n v 0 n)
  else (match start with | none => (n : Int) - 1 | some v => pyClamp n v (-1) ((n : Int) - 1))

/-- the (exclusive) bound of `slice(start, stop, step).indices(n)` -/
def pyStop (n : Nat) (stop : Option Int) (step : Int) : Int :=
  if step > 0 then (match stop with | none => (n : Int) | some v => pyClamp n v 0 n)
  else (match stop with | none => -1 | some v => pyClamp n v (-1) ((n : Int) - 1))

/-- `len(range(start, stop, step))` for the resolved bounds -/
def pyCount (n : Nat) (start stop : Option Int) (step : Int) : Nat :=
  if step > 0 then
    (if pyStop n stop step > pyStart n start step then
      ((pyStop n stop step - pyStart n start step + step - 1) / step).toNat else 0)
  else
    (if pyStart n start step > pyStop n stop step then
      ((pyStart n start step - pyStop n stop step + (-step) - 1) / (-step)).toNat else 0)

theorem so_sliceIndices_eq (n : Nat) (start stop : Option Int) (step : Int) :
    sliceIndices n start stop step =
      if step = 0 then none else some (pyStart n start step, pyCount n start stop step) := by
  by_cases h0 : step = 0
  · simp [sliceIndices, h0]
  · by_cases hp : step > 0
    · cases start <;> cases stop <;> simp [sliceIndices, h0, hp, pyStart, pyStop, pyCount, pyClamp]
    · cases start <;> cases stop <;> simp [sliceIndices, h0, hp, pyStart, pyStop, pyCount, pyClamp]

theorem so_pyClamp_bounds (n : Nat) (v lo hi : Int) (h : lo ≤ hi) :
    lo ≤ pyClamp n v lo hi ∧ pyClamp n v lo hi ≤ hi := by
  unfold pyClamp; simp only; split_ifs <;> omega

/-- **Python slice semantics, positive step**: the positions `start + step·i`, `i < count`, are
    exactly the integers `p` with `start ≤ p < stop` and `p ≡ start (mod step)`; they lie in `[0, n)`. -/
theorem slice_positions_pos (n : Nat) (start stop : Option Int) (step : Int) (hs : 0 < step) (p : Int) :
    (∃ i : Nat, i < pyCount n start stop step ∧ p = pyStart n start step + step * i) ↔
      pyStart n start step ≤ p ∧ p < pyStop n stop step ∧ step ∣ (p - pyStart n start step) := by
  have hc : pyCount n start stop step = if pyStop n stop step > pyStart n start step then
      ((pyStop n stop step - pyStart n start step + step - 1) / step).toNat else 0 := by
    unfold pyCount; rw [if_pos hs]
  generalize pyStart n start step = lo at hc ⊢
  generalize pyStop n stop step = hi at hc ⊢
  generalize pyCount n start stop step = c at hc ⊢
  constructor
  · rintro ⟨i, hi', rfl⟩
    split_ifs at hc with h1
    · have hq : (i : Int) + 1 ≤ (hi - lo + step - 1) / step := by omega
      have h3 := (Int.le_ediv_iff_mul_le hs).1 hq
      have h4 : ((i : Int) + 1) * step = step * i + step := by ring
      have h5 : 0 ≤ step * (i : Int) := Int.mul_nonneg (by omega) (by omega)
      refine ⟨by omega, by omega, ?_⟩
      simp
    · omega
  · rintro ⟨h1, h2, ⟨q, hq⟩⟩
    have hq0 : 0 ≤ q := by
      by_contra hneg
      have : step * q < 0 := Int.mul_neg_of_pos_of_neg hs (by omega)
      omega
    refine ⟨q.toNat, ?_, ?_⟩
    · rw [hc, if_pos (by omega)]
      have : q + 1 ≤ (hi - lo + step - 1) / step := by
        rw [Int.le_ediv_iff_mul_le hs]
        have : (q + 1) * step = step * q + step := by ring
        omega
      omega
    · rw [Int.toNat_of_nonneg hq0]; omega

/-- **Python slice semantics, negative step**: the positions `start + step·i`, `i < count`, are
    exactly the integers `p` with `stop < p ≤ start` and `p ≡ start (mod step)`. -/
theorem slice_positions_neg (n : Nat) (start stop : Option Int) (step : Int) (hs : step < 0) (p : Int) :
    (∃ i : Nat, i < pyCount n start stop step ∧ p = pyStart n start step + step * i) ↔
      pyStop n stop step < p ∧ p ≤ pyStart n start step ∧ step ∣ (p - pyStart n start step) := by
  have hc : pyCount n start stop step = if pyStart n start step > pyStop n stop step then
      ((pyStart n start step - pyStop n stop step + (-step) - 1) / (-step)).toNat else 0 := by
    unfold pyCount; rw [if_neg (by omega)]
  generalize pyStart n start step = lo at hc ⊢
  generalize pyStop n stop step = hi at hc ⊢
  generalize pyCount n start stop step = c at hc ⊢
  have hs' : 0 < -step := by omega
  constructor
  · rintro ⟨i, hi', rfl⟩
    split_ifs at hc with h1
    · have hq : (i : Int) + 1 ≤ (lo - hi + (-step) - 1) / (-step) := by omega
      have h3 := (Int.le_ediv_iff_mul_le hs').1 hq
      have h4 : ((i : Int) + 1) * (-step) = -(step * i) - step := by ring
      have h5 : 0 ≤ (-step) * (i : Int) := Int.mul_nonneg (by omega) (by omega)
      have h6 : (-step) * (i : Int) = -(step * i) := by ring
      refine ⟨by omega, by omega, ?_⟩
      simp
    · omega
  · rintro ⟨h1, h2, ⟨q, hq⟩⟩
    have hq0 : 0 ≤ q := by
      by_contra hneg
      have : 0 < step * q := Int.mul_pos_of_neg_of_neg hs (by omega)
      omega
    refine ⟨q.toNat, ?_, ?_⟩
    · rw [hc, if_pos (by omega)]
      have : q + 1 ≤ (lo - hi + (-step) - 1) / (-step) := by
        rw [Int.le_ediv_iff_mul_le hs']
        have : (q + 1) * (-step) = -(step * q) - step := by ring
        omega
      omega
    · rw [Int.toNat_of_nonneg hq0]; omega

/-- every selected position lies inside the axis -/
theorem slice_positions_in_range (n : Nat) (start stop : Option Int) (step : Int) (hs : step ≠ 0)
    (i : Nat) (hi : i < pyCount n start stop step) :
    0 ≤ pyStart n start step + step * i ∧ pyStart n start step + step * i < n := by
  have := so_sliceIndices_eq n start stop step
  rw [if_neg hs] at this
  exact sliceIndices_spec this i hi

/-- `x[:]` : everything, in order -/
theorem slice_full (n : Nat) : pyStart n none 1 = 0 ∧ pyCount n none none 1 = n := by
  simp [pyStart, pyStop, pyCount]
  omega

/-- `x[::-1]` : everything, reversed -/
theorem slice_reverse (n : Nat) : pyStart n none (-1) = (n : Int) - 1 ∧ pyCount n none none (-1) = n := by
  simp [pyStart, pyStop, pyCount]
  omega

/-- `x[a:b]` for `0 ≤ a ≤ b ≤ n` : positions `a, a+1, …, b-1` -/
theorem slice_window (n a b : Nat) (hab : a ≤ b) (hb : b ≤ n) :
    pyStart n (some (a : Int)) 1 = a ∧ pyCount n (some (a : Int)) (some (b : Int)) 1 = b - a := by
  have e1 : pyClamp n (a : Int) 0 n = a := by
    unfold pyClamp; simp only; split_ifs <;> omega
  have e2 : pyClamp n (b : Int) 0 n = b := by
    unfold pyClamp; simp only; split_ifs <;> omega
  simp only [pyStart, pyStop, pyCount, e1, e2]
  simp
  omega

example : pyStart 10 (some (-3)) (-2) = 7 ∧ pyCount 10 (some (-3)) (some 1) (-2) = 3 := by decide

end Indexing0

section Indexing
/-! ### index expressions, item by item -/

/-- acceptance of an ellipsis-free index expression against a shape, item by item: an int must lie
    in `[-n, n)` of its axis, a slice must have a non-zero step, every entry of an integer list
    must lie in `[-n, n)`; `None` consumes no axis; an item without an axis left is an error -/
def SelOK : List Sel → Shape → Prop
  | [], _ => True
  | .newaxis :: r, sh => SelOK r sh
  | .int k :: r, n :: sh => InRange n k ∧ SelOK r sh
  | .slice _ _ st :: r, _ :: sh => st ≠ 0 ∧ SelOK r sh
  | .list ks :: r, n :: sh => (∀ k ∈ ks, InRange n k) ∧ SelOK r sh
  | _, _ => False

/-- result shape, item by item: an int contributes no axis, a slice its count, `None` a 1, an
    integer list its length -/
def selShape : List Sel → Shape → Shape
  | [], _ => []
  | .newaxis :: r, sh => 1 :: selShape r sh
  | .int _ :: r, _ :: sh => selShape r sh
  | .slice a b st :: r, n :: sh => pyCount n a b st :: selShape r sh
  | .list ks :: r, _ :: sh => ks.length :: selShape r sh
  | _, _ => []

/-- operand position read by output index `j`, axis by axis: an int gives its (normalised) value,
    a slice `start + step·j_m`, an integer list its `j_m`-th entry (normalised), where `j_m` is
    the next unused coordinate of `j`; `None` skips one coordinate of `j` -/
def selPos : List Sel → Shape → Idx → Idx
  | [], _, _ => []
  | .newaxis :: r, sh, j => selPos r sh (j.drop 1)
  | .int d :: r, n :: sh, j => pyAxis n d :: selPos r sh j
  | .slice a _ st :: r, n :: sh, j =>
      (pyStart n a st + st * (j.headD 0 : Nat)).toNat :: selPos r sh (j.drop 1)
  | .list ks :: r, n :: sh, j => pyAxis n (ks.getD (j.headD 0) 0) :: selPos r sh (j.drop 1)
  | _, _, _ => []

theorem so_pyAxis_zero (n : Nat) : pyAxis n 0 = 0 := by simp [pyAxis]

theorem so_go_spec : ∀ (sels : List Sel) (sh : Shape),
    ((resolveIndex.go sels sh).isSome ↔ SelOK sels sh) ∧
    ∀ rs, resolveIndex.go sels sh = some rs →
      indexShape rs = selShape sels sh ∧ ∀ j, imap rs j = selPos sels sh j
  | [], sh => by
    rw [resolveIndex.go.eq_1]
    refine ⟨by simp [SelOK], ?_⟩
    intro rs h
    rw [← Option.some.inj h]
    exact ⟨rfl, fun j => rfl⟩
  | Sel.newaxis :: r, sh => by
    obtain ⟨ih1, ih2⟩ := so_go_spec r sh
    rw [resolveIndex.go.eq_2]
    constructor
    · rw [Option.isSome_map]; exact ih1
    · intro rs h
      cases h0 : resolveIndex.go r sh with
      | none => simp [h0] at h
      | some rs' =>
        simp only [h0, Option.map_some, Option.some.injEq] at h
        subst h
        obtain ⟨e1, e2⟩ := ih2 rs' h0
        refine ⟨by rw [indexShape_cons]; simp only [selShape, e1], ?_⟩
        intro j
        simp only [imap, selPos, e2]
  | Sel.ellipsis :: r, sh => by
    simp [resolveIndex.go, SelOK]
  | Sel.int k :: r, [] => by simp [resolveIndex.go, SelOK]
  | Sel.slice a b st :: r, [] => by simp [resolveIndex.go, SelOK]
  | Sel.list ks :: r, [] => by simp [resolveIndex.go, SelOK]
  | Sel.int k :: r, n :: sh => by
    obtain ⟨ih1, ih2⟩ := so_go_spec r sh
    rw [resolveIndex.go.eq_3]
    by_cases hk : InRange n k
    · rw [so_normAxis_of n k hk]
      simp only [Option.bind_eq_bind, Option.bind_some]
      constructor
      · rw [Option.isSome_map]; simp only [SelOK, hk, true_and]; exact ih1
      · intro rs h
        cases h0 : resolveIndex.go r sh with
        | none => simp [h0] at h
        | some rs' =>
          simp only [h0, Option.map_some, Option.some.injEq] at h
          subst h
          obtain ⟨e1, e2⟩ := ih2 rs' h0
          refine ⟨by rw [indexShape_cons]; simp only [selShape, e1], ?_⟩
          intro j
          simp only [imap, selPos, e2]
    · rw [so_normAxis_none n k hk]
      simp [SelOK, hk]
  | Sel.slice a b st :: r, n :: sh => by
    obtain ⟨ih1, ih2⟩ := so_go_spec r sh
    rw [resolveIndex.go.eq_4, so_sliceIndices_eq]
    by_cases hst : st = 0
    · simp [SelOK, hst]
    · rw [if_neg hst]
      simp only [Option.bind_eq_bind, Option.bind_some]
      constructor
      · rw [Option.isSome_map]; simp only [SelOK, ne_eq, hst, not_false_eq_true, true_and]; exact ih1
      · intro rs h
        cases h0 : resolveIndex.go r sh with
        | none => simp [h0] at h
        | some rs' =>
          simp only [h0, Option.map_some, Option.some.injEq] at h
          subst h
          obtain ⟨e1, e2⟩ := ih2 rs' h0
          refine ⟨by rw [indexShape_cons]; simp only [selShape, e1], ?_⟩
          intro j
          simp only [imap, selPos, e2]
  | Sel.list ks :: r, n :: sh => by
    obtain ⟨ih1, ih2⟩ := so_go_spec r sh
    rw [resolveIndex.go.eq_5]
    by_cases hk : ∀ k ∈ ks, InRange n k
    · rw [(so_mapM_normAxis_iff n ks _).2 ⟨hk, rfl⟩]
      simp only [Option.bind_eq_bind, Option.bind_some]
      constructor
      · rw [Option.isSome_map]; simp only [SelOK]; exact ih1.trans ⟨fun h => ⟨hk, h⟩, fun h => h.2⟩
      · intro rs h
        cases h0 : resolveIndex.go r sh with
        | none => simp [h0] at h
        | some rs' =>
          simp only [h0, Option.map_some, Option.some.injEq] at h
          subst h
          obtain ⟨e1, e2⟩ := ih2 rs' h0
          refine ⟨by rw [indexShape_cons]; simp only [selShape, e1, List.length_map], ?_⟩
          intro j
          simp only [imap, selPos, e2]
          congr 1
          have := List.getD_map (f := pyAxis n) (l := ks) (n := j.headD 0) (d := 0)
          rw [so_pyAxis_zero] at this
          exact this
    · have e0 : ks.mapM (normAxis n) = none := by
        cases hm : ks.mapM (normAxis n) with
        | none => rfl
        | some q => exact absurd ((so_mapM_normAxis_iff n ks q).1 hm).1 hk
      rw [e0]
      simp [SelOK, hk]

/-! ### the whole expression: guards and the expansion of `...` / missing trailing items -/

def nEllipsis (sels : List Sel) : Nat := (sels.filter (· == .ellipsis)).length
def nLists (sels : List Sel) : Nat :=
  (sels.filter (fun x => match x with | .list _ => true | _ => false)).length
def nInts (sels : List Sel) : Nat :=
  (sels.filter (fun x => match x with | .int _ => true | _ => false)).length
/-- items that consume an operand axis (everything except `...` and `None`) -/
def nConsuming (sels : List Sel) : Nat :=
  (sels.filter (fun x => x != .ellipsis && x != .newaxis)).length

/-- what the model supports at all: at most one `...`, at most one integer list and then no plain
    int next to it, and no more axis-consuming items than the operand has axes -/
def SelGuard (ndim : Nat) (sels : List Sel) : Prop :=
  nEllipsis sels ≤ 1 ∧ nLists sels ≤ 1 ∧ ¬ (nLists sels = 1 ∧ 0 < nInts sels) ∧ nConsuming sels ≤ ndim

instance (ndim : Nat) (sels : List Sel) : Decidable (SelGuard ndim sels) := by
  unfold SelGuard; infer_instance

/-- the ellipsis stands for as many `:` as there are axes left over; without an ellipsis the
    missing trailing items are `:` -/
def expandSels (ndim : Nat) (sels : List Sel) : List Sel :=
  let fill := ndim - nConsuming sels
  if nEllipsis sels = 1 then
    sels.flatMap (fun x => if x == .ellipsis then List.replicate fill (.slice none none 1) else [x])
  else sels ++ List.replicate fill (.slice none none 1)

theorem so_resolveIndex_eq (s : Shape) (sels : List Sel) :
    resolveIndex s sels =
      if SelGuard s.length sels then resolveIndex.go (expandSels s.length sels) s else none := by
  have key : resolveIndex s sels =
      if (decide (nEllipsis sels > 1) || decide (nLists sels > 1) ||
          decide (nLists sels = 1) && decide (nInts sels > 0)) = true then none
      else if nConsuming sels > s.length then none
      else resolveIndex.go (expandSels s.length sels) s := by
    unfold resolveIndex
    simp only [Option.bind_eq_bind, Option.bind_none]
    rfl
  rw [key]
  by_cases hG : SelGuard s.length sels
  · rw [if_pos hG]
    obtain ⟨g1, g2, g3, g4⟩ := hG
    rw [if_neg (by
      simp only [Bool.or_eq_true, Bool.and_eq_true, decide_eq_true_eq, gt_iff_lt]
      omega), if_neg (by omega)]
  · rw [if_neg hG]
    by_cases h1 : (decide (nEllipsis sels > 1) || decide (nLists sels > 1) ||
          decide (nLists sels = 1) && decide (nInts sels > 0)) = true
    · rw [if_pos h1]
    · rw [if_neg h1]
      simp only [Bool.or_eq_true, Bool.and_eq_true, decide_eq_true_eq, gt_iff_lt] at h1
      by_cases h2 : nConsuming sels > s.length
      · rw [if_pos h2]
      · exfalso
        apply hG
        unfold SelGuard
        omega

end Indexing

section IndexingMain
variable {R : Type} [CommRing R]

/-- **`x[sels]`** (basic indexing with ints — negative included —, slices with any non-zero step,
    one `...`, `None`, and one integer list).  With `E` the expression after the ellipsis (or the
    missing tail) has been filled with `:` so that every operand axis has its item:
    accepted exactly when the expression is in the supported fragment (`SelGuard`) and every item
    is valid for its axis (`SelOK`); the result shape lists, in order, the slice counts, a 1 per
    `None`, the list length — ints contribute nothing (`selShape`); and the entry at `j` is the
    operand's entry at the position computed axis by axis (`selPos`): an int gives its normalised
    value, a slice gives `start + step·j_m`, a list its `j_m`-th (normalised) entry, `j_m` being the
    coordinate of `j` for the output axis that item produced.  That position is always a valid
    operand index.  Python's slice arithmetic is `pyStart`/`pyCount`, characterised by
    `slice_positions_pos`/`slice_positions_neg`. -/
theorem index_spec (x : NDArray R) (sels : List Sel) :
    let E := expandSels x.shape.length sels
    ((sliceForward x sels).isSome ↔ SelGuard x.shape.length sels ∧ SelOK E x.shape) ∧
    ∀ y, sliceForward x sels = some y →
      y.shape = selShape E x.shape ∧
      ∀ j, validIdx y.shape j →
        validIdx x.shape (selPos E x.shape j) ∧ y.get j = x.get (selPos E x.shape j) := by
  intro E
  obtain ⟨g1, g2⟩ := so_go_spec E x.shape
  have hre := so_resolveIndex_eq x.shape sels
  unfold sliceForward
  by_cases hG : SelGuard x.shape.length sels
  · rw [if_pos hG] at hre
    constructor
    · rw [← g1, hre]
      cases resolveIndex.go (expandSels x.shape.length sels) x.shape <;> simp [hG]
    · intro y hy
      cases h0 : resolveIndex x.shape sels with
      | none => simp [h0] at hy
      | some rs =>
        simp only [h0, Option.bind_eq_bind, Option.bind_some, Option.pure_def, Option.some.injEq] at hy
        subst hy
        obtain ⟨e1, e2⟩ := g2 rs (hre ▸ h0)
        refine ⟨e1, ?_⟩
        intro j hj
        change validIdx (indexShape rs) j at hj
        have hv := indexMap_valid x.shape sels rs h0 j hj
        rw [indexMap_eq, e2] at hv
        refine ⟨hv, ?_⟩
        rw [get_gather _ _ _ _ hj, indexMap_eq, e2]
  · rw [if_neg hG] at hre
    simp [hre, hG]

/-- one item per operand axis and no ellipsis: nothing to fill in -/
theorem expandSels_full (n : Nat) (sels : List Sel) (h0 : nEllipsis sels = 0) (h1 : nConsuming sels = n) :
    expandSels n sels = sels := by
  unfold expandSels
  simp [h0, h1]

/-- the position a full slice `:` reads is the output coordinate itself -/
theorem selPos_full_slice (n i : Nat) : (pyStart n none 1 + 1 * (i : Int)).toNat = i := by
  simp [pyStart]

/-- the position `::-1` reads is the mirrored coordinate -/
theorem selPos_reverse (n i : Nat) (hi : i < n) : (pyStart n none (-1) + (-1) * (i : Int)).toNat = n - 1 - i := by
  simp [pyStart]; omega

/-- `x[-1, 3::-2]` on a 3×4 array -/
example : ∃ y, sliceForward (⟨[3, 4], [0, 1, 2, 3, 4, 5, 6, 7, 8, 9, 10, 11]⟩ : NDArray Int)
      [.int (-1), .slice (some 3) none (-2)] = some y ∧ y.shape = [2] ∧ y.data = [11, 9] :=
  ⟨_, rfl, by decide, by decide⟩
/-- `x[..., None, 0]` -/
example : ∃ y, sliceForward (⟨[3, 4], [0, 1, 2, 3, 4, 5, 6, 7, 8, 9, 10, 11]⟩ : NDArray Int)
      [.ellipsis, .newaxis, .int 0] = some y ∧ y.shape = [3, 1] ∧ y.data = [0, 4, 8] :=
  ⟨_, rfl, by decide, by decide⟩
/-- `x[[2, 0, -1]]` : the missing trailing item is `:` -/
example : ∃ y, sliceForward (⟨[3, 2], [0, 1, 2, 3, 4, 5]⟩ : NDArray Int)
      [.list [2, 0, -1]] = some y ∧ y.shape = [3, 2] ∧ y.data = [4, 5, 0, 1, 4, 5] :=
  ⟨_, rfl, by decide, by decide⟩
example : expandSels 3 [.int 0, .ellipsis] = [.int 0, .slice none none 1, .slice none none 1] := by decide
example : SelGuard 2 [.int (-1), .slice (some 3) none (-2)] ∧
    SelOK (expandSels 2 [.int (-1), .slice (some 3) none (-2)]) [3, 4] := by
  refine ⟨by decide, ?_⟩
  show SelOK [.int (-1), .slice (some 3) none (-2)] [3, 4]
  simp [SelOK, InRange]
/-- out-of-range int, zero step, two ellipses: rejected -/
example : sliceForward (⟨[3], [0, 1, 2]⟩ : NDArray Int) [.int 3] = none := by decide
example : sliceForward (⟨[3], [0, 1, 2]⟩ : NDArray Int) [.slice none none 0] = none := by decide
example : sliceForward (⟨[3], [0, 1, 2]⟩ : NDArray Int) [.ellipsis, .ellipsis] = none := by decide

end IndexingMain

section Arith
/-! ## 8. mul / neg / mean / max / min -/

/-- NumPy's broadcasting rule on aligned size pairs: each pair equal or one of them 1; the result
    takes the size that is not 1 -/
theorem so_mapM_bcRule_iff : ∀ (l : List (Nat × Nat)) (s : Shape),
    l.mapM bcRule = some s ↔
      (∀ p ∈ l, p.1 = p.2 ∨ p.1 = 1 ∨ p.2 = 1) ∧ s = l.map (fun p => if p.1 = 1 then p.2 else p.1)
  | [], s => by simp [eq_comm]
  | (x, y) :: l, s => by
    rw [List.mapM_cons]
    by_cases hc : x = y ∨ x = 1 ∨ y = 1
    · have hb : bcRule (x, y) = some (if x = 1 then y else x) := by
        simp only [bcRule]
        split_ifs <;> simp_all
      rw [hb]
      cases hm : l.mapM bcRule with
      | none =>
        have := (so_mapM_bcRule_iff l (l.map (fun p => if p.1 = 1 then p.2 else p.1))).not.1 (by rw [hm]; simp)
        simp only [Option.bind_eq_bind, Option.bind_some, Option.bind_none, reduceCtorEq, false_iff, not_and]
        intro h
        exact absurd ⟨fun p hp => h p (List.mem_cons_of_mem _ hp), rfl⟩ this
      | some s' =>
        obtain ⟨h1, h2⟩ := (so_mapM_bcRule_iff l s').1 hm
        subst h2
        simp only [Option.bind_eq_bind, Option.bind_some, Option.pure_def, Option.some.injEq,
          List.mem_cons, forall_eq_or_imp, hc, true_and, List.map_cons]
        constructor
        · rintro rfl; exact ⟨h1, rfl⟩
        · rintro ⟨_, rfl⟩; rfl
    · have hb : bcRule (x, y) = none := by
        simp only [bcRule]
        split_ifs <;> simp_all
      rw [hb]
      simp only [Option.bind_eq_bind, Option.bind_none, reduceCtorEq, List.mem_cons, forall_eq_or_imp,
        false_iff, not_and]
      intro h
      exact absurd h.1 hc

variable {R : Type} [CommRing R]

/-- **mul** (mirrors `add_spec`, with acceptance and shape spelled out): with both shapes padded on
    the left with 1s to the longer rank, accepted exactly when every aligned pair of sizes is equal
    or contains a 1; the result size is the one that is not 1; and
    `(a * b)[j] = a[π_a j] · b[π_b j]`, `π` dropping the extra leading coordinates and reading
    size-1 axes at 0. -/
theorem mul_spec (a b : NDArray R) :
    let n := max a.shape.length b.shape.length
    let pa := List.replicate (n - a.shape.length) 1 ++ a.shape
    let pb := List.replicate (n - b.shape.length) 1 ++ b.shape
    ((mulForward a b).isSome ↔ ∀ p ∈ List.zip pa pb, p.1 = p.2 ∨ p.1 = 1 ∨ p.2 = 1) ∧
    ∀ y, mulForward a b = some y →
      y.shape = (List.zip pa pb).map (fun p => if p.1 = 1 then p.2 else p.1) ∧
      broadcastShapes a.shape b.shape = some y.shape ∧
      ∀ j, validIdx y.shape j →
        validIdx a.shape (bcastIdx a.shape j) ∧ validIdx b.shape (bcastIdx b.shape j) ∧
        y.get j = a.get (bcastIdx a.shape j) * b.get (bcastIdx b.shape j) := by
  intro n pa pb
  unfold mulForward
  constructor
  · cases hs : broadcastShapes a.shape b.shape with
    | none =>
      have : bcast2 (· * ·) a b = none := by simp [bcast2, hs]
      rw [this]
      simp only [Option.isSome_none, Bool.false_eq_true, false_iff]
      intro hc
      rw [broadcastShapes_eq] at hs
      have := (so_mapM_bcRule_iff (List.zip pa pb) _).2 ⟨hc, rfl⟩
      rw [hs] at this
      cases this
    | some s =>
      rw [bcast2_eq _ a b s hs]
      rw [broadcastShapes_eq] at hs
      exact iff_of_true rfl ((so_mapM_bcRule_iff (List.zip pa pb) s).1 hs).1
  · intro y h
    have hs := bcast2_some _ a b y h
    have hs' := hs
    rw [broadcastShapes_eq] at hs'
    refine ⟨((so_mapM_bcRule_iff (List.zip pa pb) y.shape).1 hs').2, hs, ?_⟩
    rw [bcast2_eq _ a b _ hs] at h
    intro j hj
    obtain ⟨v1, v2⟩ := bcastIdx_valid a.shape b.shape y.shape hs j hj
    refine ⟨v1, v2, ?_⟩
    rw [← Option.some.inj h, get_ofFn _ _ _ hj]

example : ∃ y, mulForward (⟨[2, 1], [2, 3]⟩ : NDArray Int) ⟨[3], [1, 10, 100]⟩ = some y ∧
    y.shape = [2, 3] ∧ y.data = [2, 20, 200, 3, 30, 300] := ⟨_, rfl, by decide, by decide⟩
example : mulForward (⟨[2], [2, 3]⟩ : NDArray Int) ⟨[3], [1, 10, 100]⟩ = none := by decide

/-- **neg**: total; same shape, every entry negated (well-formedness preserved) -/
theorem neg_spec (x : NDArray R) :
    (negForward x).shape = x.shape ∧ (x.WF → (negForward x).WF) ∧
    ∀ j, (negForward x).get j = - x.get j :=
  ⟨rfl, fun hx => Proofs.Calc.map_wf _ x hx, fun j => get_map_neg x j⟩

example : (negForward (⟨[2], [2, -3]⟩ : NDArray Int)).data = [-2, 3] := by decide

/-- the three spellings of a reduction's `dim` argument, normalised: `None` is every axis, an int
    must lie in `[-ndim, ndim)`, a tuple must have all entries in range and pairwise distinct
    after normalisation -/
theorem axes_norm_iff (n : Nat) (ax : Axes) (axes : List Nat) :
    ax.norm n = some axes ↔
      match ax with
      | .all => axes = List.range n
      | .one d => InRange n d ∧ axes = [pyAxis n d]
      | .many ds => (∀ d ∈ ds, InRange n d) ∧ (ds.map (pyAxis n)).Nodup ∧ axes = ds.map (pyAxis n) := by
  cases ax with
  | all => simp [Axes.norm, eq_comm]
  | one d =>
    simp only [Axes.norm]
    by_cases hd : InRange n d
    · rw [so_normAxis_of n d hd]; simp [hd, eq_comm]
    · rw [so_normAxis_none n d hd]; simp [hd]
  | many ds => exact so_normAxes_iff n ds axes

/-- the `dim` argument of `sum` / `max` / `min` given as an int: in `[-ndim, ndim)`, or — on a 0-d
    operand, where that interval is empty — one of `0`, `-1` (NumPy's ufunc reductions accept exactly
    these two on a 0-d array, and reduce nothing) -/
def RedDimOk (n : Nat) (d : Int) : Prop := InRange n d ∨ (n = 0 ∧ (d = 0 ∨ d = -1))

instance (n : Nat) (d : Int) : Decidable (RedDimOk n d) := by unfold RedDimOk; infer_instance

theorem redDimOk_pos {n : Nat} (hn : n ≠ 0) (d : Int) : RedDimOk n d ↔ InRange n d := by
  unfold RedDimOk
  constructor
  · rintro (h | ⟨h0, _⟩)
    · exact h
    · exact absurd h0 hn
  · exact Or.inl

theorem redDimOk_zero (d : Int) : RedDimOk 0 d ↔ d = 0 ∨ d = -1 := by
  unfold RedDimOk InRange
  constructor
  · rintro (h | ⟨_, h⟩)
    · omega
    · exact h
  · exact fun h => Or.inr ⟨rfl, h⟩

/-- the axes argument of `sum` / `max` / `min`, normalised (`Axes.normRed`): as `axes_norm_iff`, and
    in addition an int `0` / `-1` on a 0-d operand is accepted and names no axis.  A tuple is
    validated as before: `(0,)` on a 0-d operand is rejected. -/
theorem axes_normRed_iff (n : Nat) (ax : Axes) (axes : List Nat) :
    ax.normRed n = some axes ↔
      match ax with
      | .all => axes = List.range n
      | .one d => (InRange n d ∧ axes = [pyAxis n d]) ∨ (n = 0 ∧ (d = 0 ∨ d = -1) ∧ axes = [])
      | .many ds => (∀ d ∈ ds, InRange n d) ∧ (ds.map (pyAxis n)).Nodup ∧ axes = ds.map (pyAxis n) := by
  rw [normRed_iff, axes_norm_iff]
  cases ax with
  | all => simp
  | one d => simp
  | many ds => simp

/-- acceptance of an int `dim` by `sum` / `max` / `min` -/
theorem normRed_one_isSome (n : Nat) (d : Int) : ((Axes.one d).normRed n).isSome ↔ RedDimOk n d := by
  rw [Option.isSome_iff_exists]
  constructor
  · rintro ⟨axes, h⟩
    rcases (axes_normRed_iff n (.one d) axes).1 h with ⟨h1, _⟩ | ⟨h0, hd, _⟩
    · exact Or.inl h1
    · exact Or.inr ⟨h0, hd⟩
  · rintro (h | ⟨h0, hd⟩)
    · exact ⟨_, (axes_normRed_iff n (.one d) _).2 (Or.inl ⟨h, rfl⟩)⟩
    · exact ⟨_, (axes_normRed_iff n (.one d) _).2 (Or.inr ⟨h0, hd, rfl⟩)⟩

end Arith

section Mean
variable {K : Type} [Field K]

/-- **mean(dims, keepdims)** (mirrors `sum_spec`): accepted exactly when the dims normalise
    (`axes_norm_iff`); the shape drops (or keeps as 1) exactly the reduced axes; the value at an
    output index is the sum of the operand's entries that agree with it off the reduced axes,
    divided by the product of the reduced sizes. -/
theorem mean_spec (x : NDArray K) (ax : Axes) (keep : Bool) :
    ((meanForward x ax keep).isSome ↔ (ax.norm x.shape.length).isSome) ∧
    ∀ y, meanForward x ax keep = some y →
      ∃ axes, ax.norm x.shape.length = some axes ∧ y.shape = reduceShape x.shape axes keep ∧
        ∀ o, validIdx y.shape o →
          y.get o = (((allIdx x.shape).filter (fun i => reduceIdx axes keep i == o)).map x.get).sum /
            (((axes.map (fun k => x.shape.getD k 0)).prod : Nat) : K) := by
  unfold meanForward Np.sum
  cases h0 : ax.norm x.shape.length with
  | none => simp
  | some axes =>
    simp only [normRed_of_norm h0, Option.bind_eq_bind, Option.bind_some, Option.pure_def, Option.isSome_some,
      true_and, Option.some.injEq]
    rintro y rfl
    refine ⟨axes, rfl, rfl, ?_⟩
    intro o ho
    change validIdx (reduceShape x.shape axes keep) o at ho
    rw [Proofs.Calc.get_map (fun v => v / _)
      (scatterAdd (reduceShape x.shape axes keep) x.shape (reduceIdx axes keep) x)
      (scatterAdd_wfB _ _ _ _) o ho, get_scatterAdd _ _ _ _ _ ho]
    congr 2

example : ∃ y, meanForward (⟨[2, 2], [1, 2, 3, 6]⟩ : NDArray Rat) (.one (-1)) false = some y ∧
    y.shape = [2] ∧ y.get [0] = 3 / 2 ∧ y.get [1] = 9 / 2 := by
  refine ⟨_, rfl, by decide, ?_, ?_⟩ <;>
  · simp [NDArray.map, scatterAdd, ofFn, allIdx, NDArray.get, ravel, reduceShape, reduceIdx, dropAxes,
      Shape.size, List.zipIdx, List.range, List.range.loop]
    norm_num

end Mean

section MaxMin

theorem so_size_ne_zero : ∀ (s : Shape), Shape.size s ≠ 0 → ∀ k, k < s.length → s.getD k 0 ≠ 0
  | [], _, k, hk => by simp at hk
  | n :: s, h, 0, _ => by
    rw [size_cons] at h
    simpa using (Nat.mul_ne_zero_iff.1 h).1
  | n :: s, h, k + 1, hk => by
    rw [size_cons] at h
    simpa using so_size_ne_zero s (Nat.mul_ne_zero_iff.1 h).2 k (by simpa using hk)

/-- with `keepdims`, an output index is itself an operand index of its own fibre -/
theorem so_setAxes_preimage (s : Shape) (axes : List Nat) (hnz : ∀ k, k < s.length → s.getD k 0 ≠ 0)
    (o : Idx) (ho : validIdx (setAxes s axes 1) o) : validIdx s o ∧ setAxes o axes 0 = o := by
  rw [validIdx_iff_getD] at ho ⊢
  obtain ⟨hl, hv⟩ := ho
  have hls : (setAxes s axes 1).length = s.length := by simp [setAxes]
  rw [hls] at hl hv
  have hb : ∀ k, k < s.length → o.getD k 0 < (if axes.contains k then 1 else s.getD k 0) := by
    intro k hk
    have := hv k hk
    unfold setAxes at this
    rwa [getD_map_zipIdx _ _ k hk] at this
  refine ⟨⟨hl, fun k hk => ?_⟩, ?_⟩
  · have := hb k hk
    have := hnz k hk
    split_ifs at * <;> omega
  · apply Proofs.NNSpec.list_ext_getD _ _ s.length (by simp [setAxes, hl]) hl
    intro k hk
    unfold setAxes
    rw [getD_map_zipIdx _ _ k (hl ▸ hk)]
    have := hb k hk
    simp only
    split_ifs at * <;> omega

/-- every output index of a `max`/`min` reduction (one dim, or all of them) has a non-empty fibre -/
theorem so_reduce_preimage (s : Shape) (hsz : Shape.size s ≠ 0) (axes : List Nat)
    (hax : axes = List.range s.length ∨ ∃ a, a < s.length ∧ axes = [a]) (keep : Bool) (o : Idx)
    (ho : validIdx (reduceShape s axes keep) o) : ∃ i, validIdx s i ∧ reduceIdx axes keep i = o := by
  have hnz := so_size_ne_zero s hsz
  cases keep with
  | true =>
    obtain ⟨h1, h2⟩ := so_setAxes_preimage s axes hnz o ho
    exact ⟨o, h1, h2⟩
  | false =>
    simp only [reduceShape, reduceIdx, Bool.false_eq_true, if_false] at ho ⊢
    rcases hax with rfl | ⟨a, ha, rfl⟩
    · rw [dropAxes_range] at ho
      have ho' : o = [] := by cases o <;> simp_all [validIdx]
      subst ho'
      obtain ⟨hv, _⟩ := ravel_unravel s 0 (Nat.pos_of_ne_zero hsz)
      refine ⟨unravel s 0, hv, ?_⟩
      rw [← validIdx_length _ _ hv, dropAxes_range]
    · rw [dropAxes_single] at ho
      have hol : o.length = s.length - 1 := by
        rw [validIdx_length _ _ ho, List.length_eraseIdx_of_lt ha]
      refine ⟨insertAt o a 0, ?_, ?_⟩
      · have := validIdx_insertAt (s.eraseIdx a) o a (s.getD a 0) 0 ho
          (by rw [List.length_eraseIdx_of_lt ha]; omega) (Nat.pos_of_ne_zero (hnz a ha))
        rwa [insertAt_eraseIdx s a 0 ha] at this
      · rw [dropAxes_single, eraseIdx_insertAt o a 0 (by omega)]

variable {K : Type}

/-- the scan `argExt` performs ends on an element of the list that beats every other one -/
theorem so_fold_best {ι : Type} (f : ι → K) (r : K → K → Prop) (htot : ∀ u v, r u v ∨ r v u)
    (htr : ∀ u v w, r u v → r v w → r u w) (better : K → K → Bool)
    (hb : ∀ u v, better u v = true ↔ ¬ r u v) : ∀ (l : List ι) (i0 : ι),
    (l.foldl (fun best i => if better (f i) (f best) then i else best) i0 = i0 ∨
      l.foldl (fun best i => if better (f i) (f best) then i else best) i0 ∈ l) ∧
    r (f i0) (f (l.foldl (fun best i => if better (f i) (f best) then i else best) i0)) ∧
    ∀ i ∈ l, r (f i) (f (l.foldl (fun best i => if better (f i) (f best) then i else best) i0))
  | [], i0 => by
    refine ⟨Or.inl rfl, ?_, by simp⟩
    rcases htot (f i0) (f i0) with h | h <;> exact h
  | i :: l, i0 => by
    rw [List.foldl_cons]
    by_cases hbt : better (f i) (f i0) = true
    · rw [if_pos hbt]
      obtain ⟨h1, h2, h3⟩ := so_fold_best f r htot htr better hb l i
      have hnr := (hb _ _).1 hbt
      have h0i : r (f i0) (f i) := by
        rcases htot (f i0) (f i) with h | h
        · exact h
        · exact absurd h hnr
      refine ⟨Or.inr ?_, htr _ _ _ h0i h2, ?_⟩
      · rcases h1 with h1 | h1
        · rw [h1]; exact List.mem_cons_self
        · exact List.mem_cons_of_mem _ h1
      · intro i' hi'
        rcases List.mem_cons.1 hi' with rfl | hi'
        · exact h2
        · exact h3 i' hi'
    · rw [if_neg hbt]
      obtain ⟨h1, h2, h3⟩ := so_fold_best f r htot htr better hb l i0
      have hri : r (f i) (f i0) := by
        by_contra hc
        exact hbt ((hb _ _).2 hc)
      refine ⟨?_, h2, ?_⟩
      · rcases h1 with h1 | h1
        · exact Or.inl h1
        · exact Or.inr (List.mem_cons_of_mem _ h1)
      · intro i' hi'
        rcases List.mem_cons.1 hi' with rfl | hi'
        · exact htr _ _ _ hri h2
        · exact h3 i' hi'

/-- the kernel's reduction axes: one normalised dim, or all of them; on a 0-d operand an accepted
    int dim (`0` / `-1`) names no axis -/
def extAxes (n : Nat) (dim : Option Int) : List Nat :=
  match dim with
  | none => List.range n
  | some d => if n = 0 then [] else [pyAxis n d]

theorem extAxes_pos {n : Nat} (hn : n ≠ 0) (d : Int) : extAxes n (some d) = [pyAxis n d] := by
  simp [extAxes, hn]

theorem extAxes_zero (dim : Option Int) : extAxes 0 dim = [] := by
  cases dim <;> rfl

variable [Field K]

/-- common part of `max_spec` / `min_spec`, for an order `r` and the comparison `better = ¬ r` -/
theorem so_ext_spec (r : K → K → Prop) (htot : ∀ u v, r u v ∨ r v u)
    (htr : ∀ u v w, r u v → r v w → r u w) (better : K → K → Bool)
    (hb : ∀ u v, better u v = true ↔ ¬ r u v) (x : NDArray K) (dim : Option Int) (keep : Bool) :
    let n := x.shape.length
    let axes := extAxes n dim
    ((extForward better x dim keep).isSome ↔ (∀ d, dim = some d → RedDimOk n d) ∧ Shape.size x.shape ≠ 0) ∧
    ∀ y, extForward better x dim keep = some y →
      y.shape = reduceShape x.shape axes keep ∧
      ∀ o, validIdx y.shape o →
        (∃ i, validIdx x.shape i ∧ reduceIdx axes keep i = o ∧ y.get o = x.get i) ∧
        (∀ i, validIdx x.shape i → reduceIdx axes keep i = o → r (x.get i) (y.get o)) := by
  intro n axes
  unfold extForward
  simp only [Option.bind_eq_bind]
  generalize hNX : Axes.normRed (List.length x.shape) _ = NX
  by_cases hr : ∀ d, dim = some d → RedDimOk n d
  · have e0 : NX = some axes := by
      rw [← hNX]
      cases dim with
      | none => exact normRed_all _
      | some d =>
        by_cases hn : x.shape.length = 0
        · have hd : d = 0 ∨ d = -1 := (redDimOk_zero d).1 (hn ▸ hr d rfl)
          show Axes.normRed x.shape.length (.one d) = some (extAxes x.shape.length (some d))
          rw [hn, extAxes_zero]
          exact normRed_zero_dim hd
        · have hd : InRange x.shape.length d := (redDimOk_pos hn d).1 (hr d rfl)
          show Axes.normRed x.shape.length (.one d) = some (extAxes x.shape.length (some d))
          rw [extAxes_pos hn, normRed_pos hn]
          show (normAxis x.shape.length d).map _ = _
          rw [so_normAxis_of _ d hd]; rfl
    have hax : axes = List.range x.shape.length ∨ ∃ a, a < x.shape.length ∧ axes = [a] := by
      cases dim with
      | none => exact Or.inl rfl
      | some d =>
        by_cases hn : x.shape.length = 0
        · left
          show extAxes x.shape.length (some d) = _
          rw [hn, extAxes_zero]; rfl
        · right
          exact ⟨_, so_pyAxis_lt _ d ((redDimOk_pos hn d).1 (hr d rfl)), extAxes_pos hn d⟩
    have haxlt : ∀ k ∈ axes, k < x.shape.length := by
      rcases hax with h | ⟨a, ha, h⟩
      · rw [h]; intro k hk; simpa using hk
      · rw [h]; intro k hk; simp at hk; omega
    rw [e0]
    simp only [Option.bind_some]
    by_cases hsz : Shape.size x.shape = 0
    · have hc : ((axes.any fun k => x.shape.getD k 0 == 0) || decide (Shape.size x.shape = 0)) = true := by
        simp [hsz]
      rw [if_pos hc]
      simp [hsz]
    · have hc : ¬ ((axes.any fun k => x.shape.getD k 0 == 0) || decide (Shape.size x.shape = 0)) = true := by
        simp only [Bool.or_eq_true, List.any_eq_true, beq_iff_eq, decide_eq_true_eq, not_or, not_exists,
          not_and]
        exact ⟨fun k hk => so_size_ne_zero _ hsz k (haxlt k hk), hsz⟩
      rw [if_neg hc]
      refine ⟨iff_of_true rfl ⟨hr, hsz⟩, ?_⟩
      intro y hy
      simp only [Option.pure_def, Option.some.injEq] at hy
      subst hy
      refine ⟨rfl, ?_⟩
      intro o ho
      change validIdx (reduceShape x.shape axes keep) o at ho
      rw [get_ofFn _ _ _ ho]
      obtain ⟨i0, hi0, hio⟩ := so_reduce_preimage x.shape hsz axes hax keep o ho
      have hmem : ∀ i, i ∈ (allIdx x.shape).filter (fun i => reduceIdx axes keep i == o) ↔
          validIdx x.shape i ∧ reduceIdx axes keep i = o := by
        intro i
        simp [List.mem_filter, mem_allIdx]
      unfold argExt
      simp only
      cases hf : (allIdx x.shape).filter (fun i => reduceIdx axes keep i == o) with
      | nil =>
        have := (hmem i0).2 ⟨hi0, hio⟩
        rw [hf] at this
        cases this
      | cons j0 rest =>
        simp only
        obtain ⟨h1, h2, h3⟩ := so_fold_best x.get r htot htr better hb rest j0
        have hm : rest.foldl (fun best i => if better (x.get i) (x.get best) then i else best) j0
            ∈ j0 :: rest := by
          rcases h1 with h1 | h1
          · rw [h1]; exact List.mem_cons_self
          · exact List.mem_cons_of_mem _ h1
        rw [← hf] at hm
        obtain ⟨hv, hred⟩ := (hmem _).1 hm
        refine ⟨⟨_, hv, hred, rfl⟩, ?_⟩
        intro i hi hio'
        have : i ∈ j0 :: rest := by rw [← hf]; exact (hmem i).2 ⟨hi, hio'⟩
        rcases List.mem_cons.1 this with rfl | hi'
        · exact h2
        · exact h3 i hi'
  · have e0 : NX = none := by
      rw [← hNX]
      cases dim with
      | none => exact absurd (fun d hd => by cases hd) hr
      | some d =>
        have hnr : ¬ RedDimOk n d := fun h => hr (fun d' hd' => by cases hd'; exact h)
        have := (normRed_one_isSome x.shape.length d).not.2 hnr
        simpa using this
    rw [e0]
    simp [hr]

variable [LinearOrder K]

/-- **max(dim | None, keepdims)**, forward values: accepted exactly when `dim` (if given) lies in
    `[-ndim, ndim)` — or is `0` / `-1` on a 0-d operand (`RedDimOk`; nothing is reduced then:
    `extAxes 0 dim = []`, the result is the operand, see `max_zero_dim`) — and the operand has at least one element (*corner*: an empty operand is rejected
    even when the reduced axis itself is non-empty); the shape drops (or keeps as 1) the reduced
    axis / all axes; the value at an output index is the maximum of its fibre — it is attained at
    an operand index of the fibre and dominates every entry of the fibre. -/
theorem max_spec (x : NDArray K) (dim : Option Int) (keep : Bool) :
    let n := x.shape.length
    let axes := extAxes n dim
    ((maxForward x dim keep).isSome ↔ (∀ d, dim = some d → RedDimOk n d) ∧ Shape.size x.shape ≠ 0) ∧
    ∀ y, maxForward x dim keep = some y →
      y.shape = reduceShape x.shape axes keep ∧
      ∀ o, validIdx y.shape o →
        (∃ i, validIdx x.shape i ∧ reduceIdx axes keep i = o ∧ y.get o = x.get i) ∧
        (∀ i, validIdx x.shape i → reduceIdx axes keep i = o → x.get i ≤ y.get o) :=
  so_ext_spec (fun u v => u ≤ v) le_total (fun _ _ _ => le_trans) _ (by intro u v; simp) x dim keep

/-- **min(dim | None, keepdims)**, forward values: as `max_spec`, with the minimum of the fibre. -/
theorem min_spec (x : NDArray K) (dim : Option Int) (keep : Bool) :
    let n := x.shape.length
    let axes := extAxes n dim
    ((minForward x dim keep).isSome ↔ (∀ d, dim = some d → RedDimOk n d) ∧ Shape.size x.shape ≠ 0) ∧
    ∀ y, minForward x dim keep = some y →
      y.shape = reduceShape x.shape axes keep ∧
      ∀ o, validIdx y.shape o →
        (∃ i, validIdx x.shape i ∧ reduceIdx axes keep i = o ∧ y.get o = x.get i) ∧
        (∀ i, validIdx x.shape i → reduceIdx axes keep i = o → y.get o ≤ x.get i) :=
  so_ext_spec (fun u v => v ≤ u) (fun u v => le_total v u) (fun _ _ _ h1 h2 => le_trans h2 h1) _
    (by intro u v; simp) x dim keep

example : ∃ y, maxForward (⟨[2, 3], [1, 5, 2, 7, 0, 7]⟩ : NDArray Rat) (some (-1)) true = some y ∧
    y.shape = [2, 1] := ⟨_, rfl, by decide⟩
example : ∃ y, minForward (⟨[2, 3], [1, 5, 2, 7, 0, 7]⟩ : NDArray Rat) none false = some y ∧
    y.shape = [] := ⟨_, rfl, by decide⟩
/-- the hypotheses of `max_spec` on a concrete operand: the row maximum dominates the entry `5` -/
example : ∀ y, maxForward (⟨[2, 3], [1, 5, 2, 7, 0, 7]⟩ : NDArray Rat) (some (-1)) true = some y →
    (5 : Rat) ≤ y.get [0, 0] := by
  intro y hy
  obtain ⟨hs, hv⟩ := (max_spec _ _ _).2 y hy
  have hs' : y.shape = [2, 1] := by rw [hs]; decide
  have := (hv [0, 0] (by rw [hs']; simp [validIdx])).2 [0, 1] (by simp [validIdx]) (by decide)
  simpa [NDArray.get, ravel, Shape.size] using this
example : maxForward (⟨[0, 3], []⟩ : NDArray Rat) (some 1) false = none := by decide
example : maxForward (⟨[2, 3], [1, 5, 2, 7, 0, 7]⟩ : NDArray Rat) (some 2) false = none := by decide

end MaxMin

section ZeroDim
/-! ### sum / max / min of a 0-d operand along `dim = 0` or `dim = -1`

NumPy's ufunc reductions accept exactly these two integer axes on a 0-d array (every other int and
every non-empty tuple is an AxisError; `np.mean` rejects them all) and reduce nothing; the backward
kernels return the upstream gradient unchanged. -/

variable {R : Type} [CommRing R]

/-- **sum of a 0-d operand**: which `dim` arguments are accepted — `None`, the ints `0` and `-1`,
    the empty tuple; nothing else (in particular not the tuples `(0,)`, `(-1,)`) -/
theorem sum_zero_dim_accepts (x : NDArray R) (hs : x.shape = []) (ax : Axes) (keep : Bool) :
    (sumForward x ax keep).isSome ↔ ax = .all ∨ ax = .one 0 ∨ ax = .one (-1) ∨ ax = .many [] := by
  unfold sumForward Np.sum
  rw [hs]
  cases ax with
  | all => simp [normRed_all]
  | one d =>
    simp only [List.length_nil, normRed_zero_one]
    by_cases hd : d = 0 ∨ d = -1
    · rw [if_pos hd]; simpa using hd
    · rw [if_neg hd]; simpa using hd
  | many ds =>
    simp only [List.length_nil, normRed_many]
    cases ds with
    | nil => simp [Axes.norm, normAxes]
    | cons d ds =>
      have : normAxis 0 d = none := by
        unfold normAxis; rw [if_neg (by omega), if_neg (by omega)]
      simp [Axes.norm, normAxes, List.mapM_cons, this]

/-- `mean` of a 0-d operand rejects every int dim (as `np.mean` does) -/
theorem mean_zero_dim_rejects {K : Type} [Field K] (x : NDArray K) (hs : x.shape = []) (d : Int) (keep : Bool) :
    meanForward x (.one d) keep = none := by
  unfold meanForward
  rw [hs]
  simp [norm_zero_one]

section
variable {K : Type} [Field K] [LinearOrder K]

/-- **max of a 0-d operand along dim 0 / −1 is the operand** (shape `()` with and without `keepdims`) -/
theorem max_zero_dim (x : NDArray K) (hx : x.WF) (hs : x.shape = []) (d : Int) (hd : d = 0 ∨ d = -1)
    (keep : Bool) : maxForward x (some d) keep = some x := ext_zero_dim _ x hx hs d hd keep

/-- … its backward returns the upstream gradient (mask 1) -/
theorem max_zero_dim_backward (g x : NDArray K) (hg : g.WF) (hgs : g.shape = []) (hs : x.shape = []) (d : Int)
    (hd : d = 0 ∨ d = -1) (keep : Bool) : maxBackward g x (some d) keep = some g :=
  ext_zero_dim_backward _ g x hg hgs hs d hd keep

theorem min_zero_dim (x : NDArray K) (hx : x.WF) (hs : x.shape = []) (d : Int) (hd : d = 0 ∨ d = -1)
    (keep : Bool) : minForward x (some d) keep = some x := ext_zero_dim _ x hx hs d hd keep

theorem min_zero_dim_backward (g x : NDArray K) (hg : g.WF) (hgs : g.shape = []) (hs : x.shape = []) (d : Int)
    (hd : d = 0 ∨ d = -1) (keep : Bool) : minBackward g x (some d) keep = some g :=
  ext_zero_dim_backward _ g x hg hgs hs d hd keep

/-- on a 0-d operand `max` accepts exactly `None`, `0`, `-1` (instance of `max_spec`) -/
theorem max_zero_dim_accepts (x : NDArray K) (hs : x.shape = []) (dim : Option Int) (keep : Bool) :
    (maxForward x dim keep).isSome ↔ dim = none ∨ dim = some 0 ∨ dim = some (-1) := by
  rw [(max_spec x dim keep).1, hs]
  simp only [List.length_nil, redDimOk_zero, size_nil]
  cases dim with
  | none => simp
  | some d => simp
end

/-! non-vacuity of the 0-d branch: the accepted calls, the rejected neighbours -/
example : sumForward (⟨[], [3]⟩ : NDArray Int) (.one 0) false = some ⟨[], [3]⟩ := rfl
example : sumForward (⟨[], [3]⟩ : NDArray Int) (.one (-1)) true = some ⟨[], [3]⟩ := rfl
example : sumForward (⟨[], [3]⟩ : NDArray Int) (.one 1) false = none := by decide
example : sumForward (⟨[], [3]⟩ : NDArray Int) (.one (-2)) true = none := by decide
example : sumForward (⟨[], [3]⟩ : NDArray Int) (.many [0]) false = none := by decide
example : sumForward (⟨[], [3]⟩ : NDArray Int) (.many [-1]) true = none := by decide
example : sumForward (⟨[], [3]⟩ : NDArray Int) (.many []) true = some ⟨[], [3]⟩ := rfl
example : sumBackward (⟨[], [5]⟩ : NDArray Int) [] (.one 0) false = some ⟨[], [5]⟩ := rfl
example : sumBackward (⟨[], [5]⟩ : NDArray Int) [] (.one (-1)) true = some ⟨[], [5]⟩ := rfl
example : meanForward (⟨[], [3]⟩ : NDArray Rat) (.one 0) false = none := by decide
example : meanForward (⟨[], [3]⟩ : NDArray Rat) (.one (-1)) true = none := by decide
example : maxForward (⟨[], [3]⟩ : NDArray Int) (some 0) false = some ⟨[], [3]⟩ := rfl
example : maxForward (⟨[], [3]⟩ : NDArray Int) (some (-1)) true = some ⟨[], [3]⟩ := rfl
example : minForward (⟨[], [3]⟩ : NDArray Int) (some 0) true = some ⟨[], [3]⟩ := rfl
example : minForward (⟨[], [3]⟩ : NDArray Int) (some (-1)) false = some ⟨[], [3]⟩ := rfl
example : maxForward (⟨[], [3]⟩ : NDArray Int) (some 1) false = none := by decide
example : minForward (⟨[], [3]⟩ : NDArray Int) (some (-2)) true = none := by decide
example : maxBackward (⟨[], [5]⟩ : NDArray Int) ⟨[], [3]⟩ (some 0) false = some ⟨[], [5]⟩ := rfl
example : minBackward (⟨[], [5]⟩ : NDArray Int) ⟨[], [3]⟩ (some (-1)) true = some ⟨[], [5]⟩ := rfl
/-- the old branch is unchanged: a 1-d operand still reduces its axis -/
example : maxForward (⟨[2], [3, 4]⟩ : NDArray Int) (some (-1)) true = some ⟨[1], [4]⟩ := rfl
/-- `axes_normRed_iff` / `RedDimOk` on the boundary -/
example : (Axes.one (-1)).normRed 0 = some [] ∧ (Axes.one 1).normRed 0 = none ∧ (Axes.many [0]).normRed 0 = none ∧
    (Axes.one (-1)).normRed 2 = some [1] ∧ (Axes.one 0).norm 0 = none := by decide
example : RedDimOk 0 (-1) ∧ ¬ RedDimOk 0 1 ∧ ¬ RedDimOk 0 (-2) ∧ RedDimOk 2 (-2) ∧ ¬ RedDimOk 2 2 := by decide

end ZeroDim

section MeanCount
/-! ### the divisor of `mean` is the number of summands -/

/-- `reduceIdx` on a tail of the index whose first position is `m` -/
def so_redFrom (m : Nat) (axes : List Nat) (keep : Bool) (i : Idx) : Idx :=
  if keep then (i.zipIdx m).map (fun (p : Nat × Nat) => if axes.contains p.2 then 0 else p.1)
  else ((i.zipIdx m).filter (fun (p : Nat × Nat) => !axes.contains p.2)).map (·.1)

/-- `reduceShape` on a tail of the shape whose first position is `m` -/
def so_redShapeFrom (m : Nat) (axes : List Nat) (keep : Bool) (s : Shape) : Shape :=
  if keep then (s.zipIdx m).map (fun (p : Nat × Nat) => if axes.contains p.2 then 1 else p.1)
  else ((s.zipIdx m).filter (fun (p : Nat × Nat) => !axes.contains p.2)).map (·.1)

theorem so_redFrom_zero (axes : List Nat) (keep : Bool) (i : Idx) :
    reduceIdx axes keep i = so_redFrom 0 axes keep i := by
  cases keep <;> rfl

theorem so_redShapeFrom_zero (axes : List Nat) (keep : Bool) (s : Shape) :
    reduceShape s axes keep = so_redShapeFrom 0 axes keep s := by
  cases keep <;> rfl

theorem so_redFrom_cons (m : Nat) (axes : List Nat) (keep : Bool) (a : Nat) (i : Idx) :
    so_redFrom m axes keep (a :: i) =
      if m ∈ axes then (if keep then 0 :: so_redFrom (m + 1) axes keep i else so_redFrom (m + 1) axes keep i)
      else a :: so_redFrom (m + 1) axes keep i := by
  by_cases h : m ∈ axes <;> cases keep <;> simp [so_redFrom, List.zipIdx_cons, h]

theorem so_redShapeFrom_cons (m : Nat) (axes : List Nat) (keep : Bool) (n : Nat) (s : Shape) :
    so_redShapeFrom m axes keep (n :: s) =
      if m ∈ axes then (if keep then 1 :: so_redShapeFrom (m + 1) axes keep s else so_redShapeFrom (m + 1) axes keep s)
      else n :: so_redShapeFrom (m + 1) axes keep s := by
  by_cases h : m ∈ axes <;> cases keep <;> simp [so_redShapeFrom, List.zipIdx_cons, h]

theorem so_sum_range_ite (P o0 : Nat) : ∀ n, ((List.range n).map (fun a => if a = o0 then P else 0)).sum
    = if o0 < n then P else 0
  | 0 => by simp
  | n + 1 => by
    rw [List.range_succ, List.map_append, List.sum_append, so_sum_range_ite P o0 n]
    simp only [List.map_cons, List.map_nil, List.sum_cons, List.sum_nil, Nat.add_zero]
    by_cases h1 : o0 < n
    · have : ¬ n = o0 := by omega
      simp [h1, this]; omega
    · by_cases h2 : n = o0
      · subst h2; simp
      · have : ¬ o0 < n + 1 := by omega
        simp [h1, h2, this]

/-- sizes of the reduced positions of a shape tail -/
def so_redSizes (m : Nat) (axes : List Nat) (s : Shape) : List Nat :=
  ((s.zipIdx m).filter (fun (p : Nat × Nat) => axes.contains p.2)).map (·.1)

theorem so_fibre_count (axes : List Nat) (keep : Bool) : ∀ (s : Shape) (m : Nat) (o : Idx),
    validIdx (so_redShapeFrom m axes keep s) o →
    (allIdx s).countP (fun i => so_redFrom m axes keep i == o) = (so_redSizes m axes s).prod
  | [], m, o, ho => by
    have ho' : o = [] := by
      cases keep <;> cases o <;> simp_all [so_redShapeFrom, validIdx]
    subst ho'
    cases keep <;> simp [allIdx, so_redFrom, so_redSizes]
  | n :: s, m, o, ho => by
    rw [so_redShapeFrom_cons] at ho
    simp only [allIdx, List.countP_flatMap, List.countP_map, Function.comp_def, so_redFrom_cons]
    by_cases hm : m ∈ axes
    · have hsz : so_redSizes m axes (n :: s) = n :: so_redSizes (m + 1) axes s := by
        simp [so_redSizes, List.zipIdx_cons, hm]
      rw [hsz, List.prod_cons]
      simp only [hm, if_true] at ho ⊢
      cases keep with
      | true =>
        simp only [if_true] at ho ⊢
        cases o with
        | nil => simp [validIdx] at ho
        | cons o0 o' =>
          obtain ⟨h0, ho'⟩ := ho
          have h0' : o0 = 0 := by omega
          subst h0'
          have ih := so_fibre_count axes true s (m + 1) o' ho'
          have : ∀ i : Idx, ((0 :: so_redFrom (m + 1) axes true i) == (0 :: o')) =
              (so_redFrom (m + 1) axes true i == o') := by
            intro i; simp
          simp only [this, ih]
          simp
      | false =>
        simp only [Bool.false_eq_true, if_false] at ho ⊢
        have ih := so_fibre_count axes false s (m + 1) o ho
        simp only [ih]
        simp
    · have hsz : so_redSizes m axes (n :: s) = so_redSizes (m + 1) axes s := by
        simp [so_redSizes, List.zipIdx_cons, hm]
      rw [hsz]
      simp only [hm, if_false] at ho ⊢
      cases o with
      | nil => simp [validIdx] at ho
      | cons o0 o' =>
        obtain ⟨h0, ho'⟩ := ho
        have ih := so_fibre_count axes keep s (m + 1) o' ho'
        have : ∀ (a : Nat), (List.countP (fun i : Idx => (a :: so_redFrom (m + 1) axes keep i) == (o0 :: o')) (allIdx s))
            = if a = o0 then (so_redSizes (m + 1) axes s).prod else 0 := by
          intro a
          by_cases ha : a = o0
          · subst ha
            rw [if_pos rfl, ← ih]
            congr 1
            funext i
            simp
          · rw [if_neg ha, List.countP_eq_zero]
            intro i _
            simp [ha]
        simp only [this]
        rw [so_sum_range_ite, if_pos h0]

theorem so_redSizes_eq (axes : List Nat) : ∀ (s : Shape) (m : Nat),
    so_redSizes m axes s =
      ((List.range' m s.length).filter (fun k => axes.contains k)).map (fun k => s.getD (k - m) 0)
  | [], m => by simp [so_redSizes]
  | x :: s, m => by
    have ih := so_redSizes_eq axes s (m + 1)
    have hcong : ((List.range' (m + 1) s.length).filter (fun k => axes.contains k)).map
        (fun k => s.getD (k - (m + 1)) 0) =
        ((List.range' (m + 1) s.length).filter (fun k => axes.contains k)).map
        (fun k => (x :: s).getD (k - m) 0) := by
      apply List.map_congr_left
      intro k hk
      have := (List.mem_range'_1.1 (List.mem_filter.1 hk).1).1
      have e : k - m = (k - (m + 1)) + 1 := by omega
      rw [e, List.getD_cons_succ]
    unfold so_redSizes at ih ⊢
    simp only [List.zipIdx_cons, List.length_cons, List.range'_succ, List.filter_cons]
    by_cases hc : axes.contains m = true
    · simp only [hc, if_true, List.map_cons, Nat.sub_self, List.getD_cons_zero]
      rw [ih, hcong]
    · simp only [hc, Bool.false_eq_true, if_false]
      rw [ih, hcong]

/-- **the divisor of `mean` is the number of summands**: for normalised (distinct, in-range) axes
    the fibre of every output index has exactly `∏_{k ∈ axes} shape[k]` elements -/
theorem mean_count (s : Shape) (axes : List Nat) (keep : Bool) (hnd : axes.Nodup)
    (hlt : ∀ k ∈ axes, k < s.length) (o : Idx) (ho : validIdx (reduceShape s axes keep) o) :
    ((allIdx s).filter (fun i => reduceIdx axes keep i == o)).length =
      (axes.map (fun k => s.getD k 0)).prod := by
  rw [← List.countP_eq_length_filter]
  simp only [so_redFrom_zero]
  rw [so_fibre_count axes keep s 0 o (by rw [← so_redShapeFrom_zero]; exact ho), so_redSizes_eq]
  simp only [Nat.sub_zero, ← List.range_eq_range']
  apply List.Perm.prod_eq
  apply List.Perm.map
  rw [List.perm_ext_iff_of_nodup (List.nodup_range.filter _) hnd]
  intro k
  simp only [List.mem_filter, List.mem_range, List.contains_iff_mem]
  exact ⟨fun h => h.2, fun h => ⟨hlt k h, h⟩⟩

theorem so_axes_norm_nodup {n : Nat} {ax : Axes} {axes : List Nat} (h : ax.norm n = some axes) :
    axes.Nodup ∧ ∀ k ∈ axes, k < n := by
  have := (axes_norm_iff n ax axes).1 h
  cases ax with
  | all =>
    simp only at this
    subst this
    exact ⟨List.nodup_range, fun k hk => by simpa using hk⟩
  | one d =>
    simp only at this
    obtain ⟨h1, rfl⟩ := this
    exact ⟨List.nodup_singleton _, fun k hk => by
      have := so_pyAxis_lt n d h1
      simp at hk; omega⟩
  | many ds =>
    simp only at this
    obtain ⟨h1, h2, rfl⟩ := this
    refine ⟨h2, fun k hk => ?_⟩
    obtain ⟨d, hd, rfl⟩ := List.mem_map.1 hk
    exact so_pyAxis_lt n d (h1 d hd)

variable {K : Type} [Field K]

/-- **mean = sum of the fibre / number of elements of the fibre** -/
theorem mean_spec_count (x y : NDArray K) (ax : Axes) (keep : Bool) (h : meanForward x ax keep = some y)
    (o : Idx) (ho : validIdx y.shape o) :
    ∃ axes, ax.norm x.shape.length = some axes ∧
      y.get o = (((allIdx x.shape).filter (fun i => reduceIdx axes keep i == o)).map x.get).sum /
        ((((allIdx x.shape).filter (fun i => reduceIdx axes keep i == o)).length : Nat) : K) := by
  obtain ⟨axes, h1, h2, h3⟩ := (mean_spec x ax keep).2 y h
  refine ⟨axes, h1, ?_⟩
  obtain ⟨hnd, hlt⟩ := so_axes_norm_nodup h1
  rw [h3 o ho, mean_count x.shape axes keep hnd hlt o (h2 ▸ ho)]

end MeanCount

section MoreExamples
/-! ## further concrete instances (hypotheses of the remaining theorems are satisfiable) -/

/-- `movedim_entry` : `movedim(x, 0, -1)[2, 3, 1] = x[1, 2, 3]` on a 2×3×4 operand -/
example (x : NDArray Int) (hx : x.shape = [2, 3, 4]) :
    ∀ y, movedimForward x 0 (-1) = some y → y.get [2, 3, 1] = x.get [1, 2, 3] := by
  intro y h
  have := movedim_entry x y 0 (-1) h [2, 3] 1 (by rw [hx]; simp [pyAxis, validIdx])
    (by rw [hx]; simp [pyAxis])
  rw [hx] at this
  simpa [pyAxis, insertAt] using this

/-- `unsqueeze_one_spec` : `unsqueeze(-1)` of a 2×3 operand is 2×3×1 -/
example : ∃ y, unsqueezeForward (⟨[2, 3], [1, 2, 3, 4, 5, 6]⟩ : NDArray Int) [-1] = some y ∧
    y.shape = [2, 3, 1] ∧ y.data = [1, 2, 3, 4, 5, 6] := by
  obtain ⟨y, h1, h2, h3⟩ := unsqueeze_one_spec (⟨[2, 3], [1, 2, 3, 4, 5, 6]⟩ : NDArray Int)
    (by unfold WF; rfl) (-1) (by decide)
  exact ⟨y, h1, by rw [h2]; decide, h3⟩

/-- `squeeze_many_zero_d` -/
example : squeezeForward (⟨[], [7]⟩ : NDArray Int) (.many [5, -9]) = some ⟨[], [7]⟩ :=
  squeeze_many_zero_d _ _ rfl

/-- `slice_positions_pos` : `range(1, 8, 3)` on an axis of size 10 contains 7 -/
example : ∃ i : Nat, i < pyCount 10 (some 1) (some 8) 3 ∧ (7 : Int) = pyStart 10 (some 1) 3 + 3 * i :=
  (slice_positions_pos 10 (some 1) (some 8) 3 (by decide) 7).2 ⟨by decide, by decide, ⟨2, by decide⟩⟩

/-- `slice_positions_neg` : `range(8, 1, -3)` does not contain 3 -/
example : ¬ ∃ i : Nat, i < pyCount 10 (some 8) (some 1) (-3) ∧ (3 : Int) = pyStart 10 (some 8) (-3) + (-3) * i := by
  rw [slice_positions_neg 10 (some 8) (some 1) (-3) (by decide) 3]
  rintro ⟨_, _, h⟩
  revert h
  decide

/-- `slice_positions_in_range` -/
example : 0 ≤ pyStart 5 (some (-100)) 2 + 2 * ((2 : Nat) : Int) ∧ pyStart 5 (some (-100)) 2 + 2 * ((2 : Nat) : Int) < 5 :=
  slice_positions_in_range 5 (some (-100)) none 2 (by decide) 2 (by decide)

/-- `expandSels_full` : one item per axis, nothing to fill -/
example : expandSels 2 [.int 0, .newaxis, .slice none none 2] = [.int 0, .newaxis, .slice none none 2] :=
  expandSels_full 2 _ (by decide) (by decide)

/-- `axes_norm_iff` -/
example : (Axes.many [0, -1]).norm 3 = some [0, 2] :=
  (axes_norm_iff 3 (.many [0, -1]) [0, 2]).2 ⟨by decide, by decide, by decide⟩

/-- `mean_count` : reducing axis 1 of a 2×3 shape, every fibre has 3 elements -/
example : ((allIdx [2, 3]).filter (fun i => reduceIdx [1] false i == [1])).length = 3 :=
  mean_count [2, 3] [1] false (by decide) (by decide) [1] (by simp [reduceShape, dropAxes, validIdx])

/-- `mean_spec_count` on a concrete operand -/
example : ∀ y, meanForward (⟨[2, 2], [1, 2, 3, 6]⟩ : NDArray Rat) .all false = some y →
    y.get [] = (((allIdx [2, 2]).filter (fun i => reduceIdx [0, 1] false i == [])).map
      (⟨[2, 2], [1, 2, 3, 6]⟩ : NDArray Rat).get).sum /
      ((((allIdx [2, 2]).filter (fun i => reduceIdx [0, 1] false i == [])).length : Nat) : Rat) := by
  intro y h
  obtain ⟨axes, h1, h2⟩ := mean_spec_count _ y .all false h [] (by
    obtain ⟨axes, e1, e2, _⟩ := (mean_spec _ _ _).2 y h
    have : axes = [0, 1] := by
      have := Option.some.inj e1
      rw [← this]; rfl
    rw [e2, this]
    simp [reduceShape, dropAxes, validIdx])
  have : axes = [0, 1] := by
    have := Option.some.inj h1
    rw [← this]; rfl
  rw [this] at h2
  exact h2

/-- `min_spec` : the minimum of the whole array is attained -/
example : ∀ y, minForward (⟨[2, 2], [4, 2, 3, 6]⟩ : NDArray Rat) none false = some y →
    ∃ i, validIdx [2, 2] i ∧ y.get [] = (⟨[2, 2], [4, 2, 3, 6]⟩ : NDArray Rat).get i := by
  intro y hy
  obtain ⟨hs, hv⟩ := (min_spec _ _ _).2 y hy
  have hs' : y.shape = [] := by rw [hs]; decide
  obtain ⟨⟨i, h1, _, h3⟩, _⟩ := hv [] (by rw [hs']; simp [validIdx])
  exact ⟨i, h1, h3⟩

end MoreExamples

end Proofs.SpecOps
