import Proofs.AdjointDefs
import Mathlib.Data.List.Forall2
import Mathlib.Algebra.BigOperators.Group.Finset.Basic
import Mathlib.Tactic.Ring
/-!
# Reusable lemmas about `IsAdjoint`

* `IsAdjoint.symm`, `IsAdjoint.congrB`, `IsAdjoint.comp`: the adjoint relation is symmetric,
  extensional, and compatible with composition;
* `isAdjoint_of_gather_spec`: a forward that reads `v` through an index map `φ` (times a weight)
  and a backward that is the `φ`-fibre sum of the (weighted) gradient are adjoint;
* `isAdjoint_of_embed_spec`: the special case of an injective `φ` with partial inverse `ψ` on its
  image `P`: the backward is "place `g (ψ i)` where `P i`, zero elsewhere".
-/
namespace Proofs.Adjoint
open Synap Synap.NDArray Proofs.Core

section Basic
variable {α : Type}

theorem get_zeros [Zero α] (s : Shape) (i : Idx) : (zeros s : NDArray α).get i = 0 := by
  simp only [zeros, full, ofFn, NDArray.get, List.getD_eq_getElem?_getD, List.getElem?_map]
  cases (allIdx s)[ravel s i]? <;> rfl

theorem zeros_wf [Zero α] (s : Shape) : (zeros s : NDArray α).WF := ofFn_wf _ _
theorem zeros_shape [Zero α] (s : Shape) : (zeros s : NDArray α).shape = s := rfl

theorem get_map0 [Zero α] (f : α → α) (hf : f 0 = 0) (x : NDArray α) (i : Idx) :
    (x.map f).get i = f (x.get i) := by
  simp only [NDArray.map, NDArray.get, List.getD_eq_getElem?_getD, List.getElem?_map]
  cases x.data[ravel x.shape i]? <;> simp [hf]

theorem map_wf (f : α → α) (x : NDArray α) (hx : x.WF) : (x.map f).WF := by
  simpa [WF, NDArray.map] using hx

theorem map_shape (f : α → α) (x : NDArray α) : (x.map f).shape = x.shape := rfl

/-- a 0-d array ignores the index it is read at -/
theorem get_shape_nil [Zero α] (x : NDArray α) (hx : x.shape = []) (i i' : Idx) : x.get i = x.get i' := by
  simp [NDArray.get, hx, ravel]

theorem gather_wfB [Zero α] (s : Shape) (φ : Idx → Idx) (x : NDArray α) : (gather s φ x).WF := ofFn_wf _ _
theorem gather_shapeB [Zero α] (s : Shape) (φ : Idx → Idx) (x : NDArray α) : (gather s φ x).shape = s := rfl
theorem scatterAdd_wfB [Zero α] [Add α] (s t : Shape) (φ : Idx → Idx) (x : NDArray α) :
    (scatterAdd s t φ x).WF := ofFn_wf _ _
theorem scatterAdd_shapeB [Zero α] [Add α] (s t : Shape) (φ : Idx → Idx) (x : NDArray α) :
    (scatterAdd s t φ x).shape = s := rfl

end Basic

variable {R : Type} [CommSemiring R]

/-! ### the pairing only sees the entries at valid indices -/
theorem dot_congr (x x' y y' : NDArray R) (hs : x.shape = x'.shape)
    (h : ∀ i, validIdx x.shape i → x.get i * y.get i = x'.get i * y'.get i) : dot x y = dot x' y' := by
  rw [dot_eq_sum, dot_eq_sum, ← hs]
  congr 1
  apply List.map_congr_left
  intro i hi
  exact h i ((mem_allIdx _ i).1 hi)

theorem dot_congr_left (x x' y : NDArray R) (hs : x.shape = x'.shape)
    (h : ∀ i, validIdx x.shape i → x.get i = x'.get i) : dot x y = dot x' y :=
  dot_congr x x' y y hs (fun i hi => by rw [h i hi])

theorem dot_congr_right (x y y' : NDArray R)
    (h : ∀ i, validIdx x.shape i → y.get i = y'.get i) : dot x y = dot x y' :=
  dot_congr x x y y' rfl (fun i hi => by rw [h i hi])

/-- `dot` of an array known pointwise -/
theorem dot_eq_of_get (x y : NDArray R) (f : Idx → R) (h : ∀ i, validIdx x.shape i → x.get i = f i) :
    dot x y = ((allIdx x.shape).map (fun i => f i * y.get i)).sum := by
  rw [dot_eq_sum]
  congr 1
  apply List.map_congr_left
  intro i hi
  rw [h i ((mem_allIdx _ i).1 hi)]

/-! ### structural rules -/
theorem IsAdjoint.symm {sa sy : Shape} {F B : NDArray R → Option (NDArray R)}
    (h : IsAdjoint sa sy F B) : IsAdjoint sy sa B F := by
  intro g v hg hgs hv hvs
  obtain ⟨y, b, hF, hB, hy, hys, hb, hbs, hd⟩ := h v g hv hvs hg hgs
  refine ⟨b, y, hB, hF, hb, hbs, hy, hys, ?_⟩
  rw [dot_comm b v (hbs.trans hvs.symm), ← hd, dot_comm y g (hys.trans hgs.symm)]

theorem IsAdjoint.congrB {sa sy : Shape} {F F' B B' : NDArray R → Option (NDArray R)}
    (h : IsAdjoint sa sy F B)
    (hF : ∀ v, v.WF → v.shape = sa → F' v = F v) (hB : ∀ g, g.WF → g.shape = sy → B' g = B g) :
    IsAdjoint sa sy F' B' := by
  intro v g hv hvs hg hgs
  rw [hF v hv hvs, hB g hg hgs]
  exact h v g hv hvs hg hgs

theorem IsAdjoint.of_shape_eq {sa sa' sy sy' : Shape} {F B : NDArray R → Option (NDArray R)}
    (h : IsAdjoint sa sy F B) (h1 : sa = sa') (h2 : sy = sy') : IsAdjoint sa' sy' F B := by
  subst h1; subst h2; exact h

/-- adjoints compose contravariantly -/
theorem IsAdjoint.comp {sa sm sy : Shape} {F1 B1 F2 B2 : NDArray R → Option (NDArray R)}
    (h1 : IsAdjoint sa sm F1 B1) (h2 : IsAdjoint sm sy F2 B2) :
    IsAdjoint sa sy (fun v => (F1 v).bind F2) (fun g => (B2 g).bind B1) := by
  intro v g hv hvs hg hgs
  obtain ⟨y1, _, hF1, _, hy1, hy1s, _, _, _⟩ := h1 v (zeros sm) hv hvs (zeros_wf sm) rfl
  obtain ⟨y2, b2, hF2, hB2, hy2, hy2s, hb2, hb2s, hd2⟩ := h2 y1 g hy1 hy1s hg hgs
  obtain ⟨y1', b1, hF1', hB1, _, _, hb1, hb1s, hd1⟩ := h1 v b2 hv hvs hb2 hb2s
  have : y1' = y1 := by rw [hF1] at hF1'; exact (Option.some.inj hF1').symm
  subst this
  refine ⟨y2, b1, ?_, ?_, hy2, hy2s, hb1, hb1s, hd2.trans hd1⟩
  · simp [hF1, hF2]
  · simp [hB2, hB1]

/-- scaling both sides by the same constant (on the right) -/
theorem IsAdjoint.map_mul {sa sy : Shape} {F B : NDArray R → Option (NDArray R)} (c : R)
    (h : IsAdjoint sa sy F B) :
    IsAdjoint sa sy (fun v => (F v).map (fun y => y.map (· * c))) (fun g => (B g).map (fun b => b.map (· * c))) := by
  intro v g hv hvs hg hgs
  obtain ⟨y, b, hF, hB, hy, hys, hb, hbs, hd⟩ := h v g hv hvs hg hgs
  refine ⟨y.map (· * c), b.map (· * c), by simp [hF], by simp [hB], map_wf _ _ hy, hys, map_wf _ _ hb, hbs, ?_⟩
  have e1 : dot (y.map (· * c)) g = c * dot y g := by
    rw [dot_eq_sum, dot_eq_sum, map_shape, ← List.sum_map_mul_left]
    congr 1; apply List.map_congr_left; intro i _
    rw [get_map0 _ (zero_mul c)]; ring
  have e2 : dot v (b.map (· * c)) = c * dot v b := by
    rw [dot_eq_sum, dot_eq_sum, ← List.sum_map_mul_left]
    congr 1; apply List.map_congr_left; intro i _
    rw [get_map0 _ (zero_mul c)]; ring
  rw [e1, e2, hd]

/-! ### sums over a filtered duplicate-free list -/
theorem sum_filter_map_eq_ite (l : List Idx) (p : Idx → Bool) (f : Idx → R) :
    ((l.filter p).map f).sum = (l.map (fun j => if p j then f j else 0)).sum := by
  induction l with
  | nil => simp
  | cons a l ih =>
    by_cases h : p a <;> simp [h, ih]

/-- the fibre sum over the fibre of an index with exactly one preimage `j0` -/
theorem sum_filter_single (l : List Idx) (hl : l.Nodup) (p : Idx → Bool) (f : Idx → R) (j0 : Idx)
    (hj0 : j0 ∈ l) (hp : ∀ j ∈ l, p j = true ↔ j = j0) : ((l.filter p).map f).sum = f j0 := by
  have : l.filter p = l.filter (fun j => j == j0) := by
    apply List.filter_congr
    intro j hj
    have := hp j hj
    by_cases e : j = j0
    · subst e; simp [this.2 rfl]
    · have : p j = false := by
        cases hpj : p j with
        | false => rfl
        | true => exact absurd (this.1 hpj) e
      simp [e, this]
  rw [this, sum_filter_map_eq_ite]
  have h2 := sum_map_ite_mul l hl j0 f
  rw [if_pos hj0] at h2
  rw [← h2]
  congr 1
  apply List.map_congr_left
  intro j _
  by_cases e : j = j0 <;> simp [e]

theorem sum_filter_empty (l : List Idx) (p : Idx → Bool) (f : Idx → R)
    (hp : ∀ j ∈ l, p j = false) : ((l.filter p).map f).sum = 0 := by
  have : l.filter p = [] := by
    rw [List.filter_eq_nil_iff]
    intro j hj
    simp [hp j hj]
  simp [this]

/-! ### the two generic adjoint pairs -/

/-- forward = read `v` through `φ`, weighted by `c`;  backward = `φ`-fibre sums of `c·g` -/
theorem isAdjoint_of_gather_spec (sa sy : Shape) (φ : Idx → Idx) (c : Idx → R)
    (hφ : ∀ j, validIdx sy j → validIdx sa (φ j)) (F B : NDArray R → Option (NDArray R))
    (hF : ∀ v : NDArray R, v.WF → v.shape = sa → ∃ y, F v = some y ∧ y.WF ∧ y.shape = sy ∧
      ∀ j, validIdx sy j → y.get j = v.get (φ j) * c j)
    (hB : ∀ g : NDArray R, g.WF → g.shape = sy → ∃ b, B g = some b ∧ b.WF ∧ b.shape = sa ∧
      ∀ i, validIdx sa i →
        b.get i = (((allIdx sy).filter (fun j => φ j == i)).map (fun j => c j * g.get j)).sum) :
    IsAdjoint sa sy F B := by
  intro v g hv hvs hg hgs
  obtain ⟨y, hFy, hy, hys, hyg⟩ := hF v hv hvs
  obtain ⟨b, hBb, hb, hbs, hbg⟩ := hB g hg hgs
  refine ⟨y, b, hFy, hBb, hy, hys, hb, hbs, ?_⟩
  have e1 : dot y g = dot (gather sy φ v) (ofFn sy (fun j => c j * g.get j)) := by
    apply dot_congr _ _ _ _ hys
    intro j hj
    rw [hys] at hj
    rw [hyg j hj, get_gather _ _ _ _ hj, get_ofFn _ _ _ hj, mul_assoc]
  rw [e1, gather_scatter_adjoint sa sy φ hφ v _ hvs]
  apply dot_congr_right
  intro i hi
  rw [hvs] at hi
  rw [hbg i hi, get_scatterAdd _ _ _ _ _ hi]
  congr 1
  apply List.map_congr_left
  intro j hj
  exact get_ofFn _ _ _ ((mem_allIdx _ j).1 (List.mem_filter.1 hj).1)

/-- forward = gather along an injective `φ`; backward = place `g (ψ i)` on the image `P` of `φ` -/
theorem isAdjoint_of_embed_spec (sa sy : Shape) (φ ψ : Idx → Idx) (P : Idx → Prop) [DecidablePred P]
    (hφ : ∀ j, validIdx sy j → validIdx sa (φ j) ∧ P (φ j) ∧ ψ (φ j) = j)
    (hψ : ∀ i, validIdx sa i → P i → validIdx sy (ψ i) ∧ φ (ψ i) = i)
    (F B : NDArray R → Option (NDArray R))
    (hF : ∀ v : NDArray R, v.WF → v.shape = sa → ∃ y, F v = some y ∧ y.WF ∧ y.shape = sy ∧
      ∀ j, validIdx sy j → y.get j = v.get (φ j))
    (hB : ∀ g : NDArray R, g.WF → g.shape = sy → ∃ b, B g = some b ∧ b.WF ∧ b.shape = sa ∧
      ∀ i, validIdx sa i → b.get i = if P i then g.get (ψ i) else 0) :
    IsAdjoint sa sy F B := by
  apply isAdjoint_of_gather_spec sa sy φ (fun _ => 1) (fun j hj => (hφ j hj).1)
  · intro v hv hvs
    obtain ⟨y, h1, h2, h3, h4⟩ := hF v hv hvs
    exact ⟨y, h1, h2, h3, fun j hj => by rw [h4 j hj, mul_one]⟩
  · intro g hg hgs
    obtain ⟨b, h1, h2, h3, h4⟩ := hB g hg hgs
    refine ⟨b, h1, h2, h3, fun i hi => ?_⟩
    rw [h4 i hi]
    by_cases hP : P i
    · rw [if_pos hP]
      obtain ⟨hv, he⟩ := hψ i hi hP
      rw [sum_filter_single (allIdx sy) (allIdx_nodup sy) _ _ (ψ i) ((mem_allIdx _ _).2 hv)]
      · rw [one_mul]
      · intro j hj
        rw [mem_allIdx] at hj
        constructor
        · intro e
          have e' : φ j = i := by simpa using e
          rw [← e', (hφ j hj).2.2]
        · intro e
          subst e
          simpa using he
    · rw [if_neg hP, sum_filter_empty]
      intro j hj
      rw [mem_allIdx] at hj
      by_contra e
      have e' : φ j = i := by simpa using e
      exact hP (e' ▸ (hφ j hj).2.1)

end Proofs.Adjoint
