import Proofs.Core
import Proofs.AdjointReshape
import Proofs.AdjointIndex
import Proofs.AdjointMatmulB
import Proofs.AdjointBcastB
import SynapModel.Ops
import Mathlib.Tactic.Linarith
/-!
# Helper lemmas for the forward specifications (Props/C05)

* `reshapeTo_data`: a reshape between shapes of equal size keeps the row-major data;
* `resolveShape_full`, `resolveShape_hole`: `resolveShape` on the two targets `flatten` builds;
* `flattenTarget_eq`: the target of `flatten` in closed form (non-0-d operand);
* `zipIdx_map_ite_eq_set`: "replace entry `d`" written with `zipIdx` is `List.set`;
* `unfoldDimCheck_inv`: what `unfoldDimCheck` returns in terms of its arguments.
-/
namespace Proofs.Spec
open Synap Synap.NDArray Synap.Np Synap.Kernels Proofs.Core Proofs.Adjoint

theorem size_append (a b : Shape) : Shape.size (a ++ b) = Shape.size a * Shape.size b := by
  induction a with
  | nil => simp [size_nil]
  | cons n a ih => simp only [List.cons_append, size_cons, ih, Nat.mul_assoc]

theorem reshapeTo_data {α : Type} [Zero α] (x : NDArray α) (hx : x.WF) (s : Shape) (hs : Shape.size s = Shape.size x.shape) :
    (reshapeTo x s).data = x.data := by
  show (allIdx s).map (fun j => x.get (unravel x.shape (ravel s j))) = x.data
  have hx' : x.data.length = Shape.size x.shape := hx
  apply List.ext_getElem
  · rw [List.length_map, length_allIdx, hs, hx']
  · intro k h1 h2
    rw [List.length_map, length_allIdx] at h1
    obtain ⟨hv, hr⟩ := ravel_unravel s k h1
    have hk := allIdx_ravel s _ hv
    rw [hr] at hk
    rw [List.getElem_map]
    have hlen : k < (allIdx s).length := by rw [length_allIdx]; exact h1
    have hkk : (allIdx s)[k] = unravel s k := by
      rw [List.getElem?_eq_getElem hlen] at hk
      exact Option.some.inj hk
    rw [hkk, hr]
    obtain ⟨_, hr'⟩ := ravel_unravel x.shape k (hs ▸ h1)
    unfold NDArray.get
    rw [hr', List.getD_eq_getElem?_getD, List.getElem?_eq_getElem h2]
    rfl

theorem filter_nonneg_map (l : Shape) : (l.map Int.ofNat).filter (fun t => decide (t ≥ 0)) = l.map Int.ofNat :=
  List.filter_eq_self.2 (by simp)
theorem filter_neg_map (l : Shape) : (l.map Int.ofNat).filter (fun t => decide (t < 0)) = [] :=
  List.filter_eq_nil_iff.2 (by simp)
theorem any_map_ofNat (l : Shape) : (l.map Int.ofNat).any (fun t => decide (t < -1)) = false := by
  rw [List.any_eq_false]; simp
theorem map_toNat_map (l : Shape) : (l.map Int.ofNat).map Int.toNat = l := by
  simp [List.map_map, Function.comp_def]
theorem map_fill_map (l : Shape) (c : Nat) : (l.map Int.ofNat).map (fun t => if t < 0 then c else t.toNat) = l := by
  rw [List.map_map]
  conv_rhs => rw [← List.map_id l]
  apply List.map_congr_left
  intro a _
  have : ¬ ((a : Int) < 0) := by omega
  simp [this]

theorem resolveShape_full (s : Shape) : resolveShape (Shape.size s) (s.map Int.ofNat) = some s := by
  unfold resolveShape
  simp only [filter_nonneg_map, filter_neg_map, any_map_ofNat, map_toNat_map, List.length_nil]
  simp [Shape.size]

theorem resolveShape_hole (sz : Nat) (pre post : Shape) :
    resolveShape sz (pre.map Int.ofNat ++ [-1] ++ post.map Int.ofNat) =
      if Shape.size (pre ++ post) = 0 then none
      else if sz % Shape.size (pre ++ post) = 0 then some (pre ++ [sz / Shape.size (pre ++ post)] ++ post) else none := by
  unfold resolveShape
  simp only [List.filter_append, filter_nonneg_map, filter_neg_map, List.any_append, any_map_ofNat,
    List.map_append, map_toNat_map, map_fill_map]
  simp [Shape.size]


theorem flattenTarget_eq (s : Shape) (hs : 0 < s.length) (st en : Int) :
    flattenTarget s st en =
      (let nd : Int := s.length
       let a := if st < 0 then st + nd else st
       let b := if en < 0 then en + nd else en
       if (-nd ≤ st ∧ st < nd ∧ -nd ≤ en ∧ en < nd) then
         (if a ≤ b then
           some (if a < b then (s.take a.toNat).map Int.ofNat ++ [-1] ++ (s.drop (b.toNat + 1)).map Int.ofNat
                 else s.map Int.ofNat)
          else none)
       else none) := by
  unfold flattenTarget
  have hs' : s.length ≠ 0 := by omega
  simp only [gt_iff_lt, hs, if_true, hs', if_false]
  by_cases hok : (-(s.length : Int) ≤ st ∧ st < s.length ∧ -(s.length : Int) ≤ en ∧ en < s.length)
  · obtain ⟨h1, h2, h3, h4⟩ := hok
    simp only [h1, h2, h3, h4, decide_true, Bool.and_self, Bool.not_true, Bool.false_eq_true, if_false,
      and_self, if_true]
    split_ifs <;> first | rfl | omega
  · rw [if_neg hok, if_pos]
    have aux : ∀ (p q r t : Prop) [Decidable p] [Decidable q] [Decidable r] [Decidable t],
        ¬ (p ∧ q ∧ r ∧ t) → (!(decide p && decide q && decide r && decide t)) = true := by
      intro p q r t _ _ _ _ h
      by_cases p <;> by_cases q <;> by_cases r <;> by_cases t <;> simp_all
    exact aux _ _ _ _ hok

theorem foldr_single (n : Nat) : List.foldr (· * ·) 1 [n] = n := by simp

theorem zipIdx_map_ite_eq_set (l : List Nat) (d : Nat) (f : Nat → Nat) :
    l.zipIdx.map (fun (p : Nat × Nat) => if p.2 = d then f p.1 else p.1) = l.set d (f (l.getD d 0)) := by
  apply List.ext_getElem?
  intro i
  rw [List.getElem?_set]
  by_cases hi : i < l.length
  · by_cases hd : d = i
    · subst hd
      simp [hi, List.getD_eq_getElem?_getD]
    · have : ¬ i = d := fun h => hd h.symm
      simp [hi, hd, this]
  · have h1 : l.length ≤ i := by omega
    simp [h1]
    intro _; omega

theorem unfoldDimCheck_inv {s : Shape} {dimension size step : Int} {d sz st cnt : Nat}
    (h : unfoldDimCheck s dimension size step = some (d, sz, st, cnt)) :
    normAxis s.length dimension = some d ∧ 0 < size ∧ 0 < step ∧ sz = size.toNat ∧ st = step.toNat := by
  unfold unfoldDimCheck at h
  cases h0 : normAxis s.length dimension with
  | none => simp [h0] at h
  | some d' =>
    simp only [h0, Option.bind_eq_bind, Option.bind_some, Option.pure_def] at h
    split_ifs at h with h1 h2 h2
    · simp at h
    · simp at h
    · simp at h
    · simp only [Option.some.injEq, Prod.mk.injEq] at h
      obtain ⟨rfl, rfl, rfl, rfl⟩ := h
      simp only [Bool.or_eq_true, decide_eq_true_eq, not_or, not_le] at h1
      exact ⟨rfl, h1.1, h1.2, rfl, rfl⟩

end Proofs.Spec
