import Proofs.Core
import SynapModel.Kernels.Basic
/-!
# What "the backward kernel is the vector-Jacobian product" means for a linear op

For a linear map `F` between arrays, the Jacobian-vector product in direction `v` is `F v`
itself, and `B` is the VJP exactly when `⟪F v, g⟫ = ⟪v, B g⟫` for all `v`, `g` (the pairing is
non-degenerate, `Proofs.Core.dot_nondegenerate`, so this determines `B g`).  `IsAdjoint` bundles
that identity with totality (backward returns whenever forward is accepted) and the shape
claim (the gradient has exactly the operand's shape).
-/
namespace Proofs.Adjoint
open Synap Synap.NDArray

variable {R : Type} [CommSemiring R]

/-- `B : sy → sa` is the transpose of the linear `F : sa → sy`, both total on well-formed arrays
    of the stated shapes -/
def IsAdjoint (sa sy : Shape) (F B : NDArray R → Option (NDArray R)) : Prop :=
  ∀ v g : NDArray R, v.WF → v.shape = sa → g.WF → g.shape = sy →
    ∃ y b, F v = some y ∧ B g = some b ∧ y.WF ∧ y.shape = sy ∧ b.WF ∧ b.shape = sa ∧ dot y g = dot v b

end Proofs.Adjoint
