import Proofs.AdjointDefs
import Proofs.AdjointGeneral
import Proofs.AdjointPerm
import Proofs.AdjointReshape
import Proofs.AdjointExpand
import Proofs.AdjointIndex
/-!
# Vector-Jacobian products of the data-movement ops (C01)

transpose, movedim, reshape, flatten, squeeze, unsqueeze, unfold_dim, slice (basic slices with any
step, ellipsis, newaxis, one integer list with repeats), neg, clone — for every shape (any rank,
0-d and size-1 axes included) and every argument value the forward accepts.
-/
set_option linter.unusedVariables false  -- `ha : a.WF` is part of the stated interface, not always needed

namespace Proofs.Adjoint
open Synap Synap.NDArray Synap.Np Synap.Kernels

variable {R : Type} [CommRing R]

theorem get_map_neg (x : NDArray R) (i : Idx) : (x.map (- ·)).get i = - x.get i := by
  simp only [NDArray.get, NDArray.map, List.getD_eq_getElem?_getD, List.getElem?_map]
  cases x.data[ravel x.shape i]? <;> simp

theorem neg_adj (s : Shape) :
    IsAdjoint (R := R) s s (fun v => some (negForward v)) (fun g => some (negBackward g)) := by
  intro v g hv hvs hg hgs
  refine ⟨_, _, rfl, rfl, ?_, hvs, ?_, hgs, ?_⟩
  · simpa [WF, negForward, NDArray.map] using hv
  · simpa [WF, negBackward, NDArray.map] using hg
  · simp only [Proofs.Core.dot_eq_sum, negForward, negBackward, get_map_neg, neg_mul, mul_neg]
    rfl

theorem clone_adj (s : Shape) :
    IsAdjoint (R := R) s s (fun v => some (cloneForward v)) (fun g => some (cloneBackward g)) := by
  intro v g hv hvs hg hgs
  exact ⟨v, g, rfl, rfl, hv, hvs, hg, hgs, rfl⟩

/-- transpose(d0, d1), any pair of dims in [-ndim, ndim) -/
theorem transpose_adj (a y : NDArray R) (d0 d1 : Int) (ha : a.WF) (h : transposeForward a d0 d1 = some y) :
    IsAdjoint (R := R) a.shape y.shape (fun v => transposeForward v d0 d1) (fun g => transposeBackward g d0 d1) := by
  unfold transposeForward swapaxes at h
  cases h0 : normAxis a.shape.length d0 with
  | none => simp [h0] at h
  | some a' =>
    cases h1 : normAxis a.shape.length d1 with
    | none => simp [h0, h1] at h
    | some b' =>
      simp only [h0, h1, Option.bind_eq_bind, Option.bind_some, Option.pure_def, Option.some.injEq] at h
      subst h
      have hp := swapPerm_pair a.shape.length a' b' (normAxis_lt h0) (normAxis_lt h1)
      refine (transposeP_adj hp a.shape rfl).congr ?_ ?_
      · intro v _ hvs
        simp [transposeForward, swapaxes, hvs, h0, h1]
      · intro g _ hgs
        have hl : g.shape.length = a.shape.length := by
          rw [hgs]; exact (length_permute _ _).trans hp.1
        simp [transposeBackward, swapaxes, hl, h0, h1]

/-- movedim(source, destination), any pair -/
theorem movedim_adj (a y : NDArray R) (src dst : Int) (ha : a.WF) (h : movedimForward a src dst = some y) :
    IsAdjoint (R := R) a.shape y.shape (fun v => movedimForward v src dst) (fun g => movedimBackward g src dst) := by
  unfold movedimForward moveaxis at h
  cases h0 : normAxis a.shape.length src with
  | none => simp [h0] at h
  | some s' =>
    cases h1 : normAxis a.shape.length dst with
    | none => simp [h0, h1] at h
    | some d' =>
      simp only [h0, h1, Option.bind_eq_bind, Option.bind_some, Option.pure_def, Option.some.injEq] at h
      subst h
      have hp := moveaxisPerm_pair a.shape.length s' d' (normAxis_lt h0) (normAxis_lt h1)
      refine (transposeP_adj hp a.shape rfl).congr ?_ ?_
      · intro v _ hvs
        simp [movedimForward, moveaxis, hvs, h0, h1]
      · intro g _ hgs
        have hl : g.shape.length = a.shape.length := by
          rw [hgs]; exact (length_permute _ _).trans hp.1
        simp [movedimBackward, moveaxis, hl, h0, h1]

/-- reshape (with an optional -1) -/
theorem reshape_adj (a y : NDArray R) (t : List Int) (ha : a.WF) (h : reshapeForward a t = some y) :
    IsAdjoint (R := R) a.shape y.shape (fun v => reshapeForward v t) (fun g => reshapeBackward g a.shape) := by
  unfold reshapeForward reshape at h
  cases h0 : resolveShape (Shape.size a.shape) t with
  | none => simp [h0] at h
  | some s' =>
    simp only [h0, Option.map_some, Option.some.injEq] at h
    subst h
    have hsz := resolveShape_size _ _ _ h0
    refine (reshapeTo_adj a.shape s' hsz.symm).congr ?_ ?_
    · intro v _ hvs
      simp [reshapeForward, reshape, hvs, h0]
    · intro g _ hgs
      simp [reshapeBackward, hgs, hsz]

/-- flatten(start_dim, end_dim), every pair the wrapper accepts -/
theorem flatten_adj (a y : NDArray R) (s e : Int) (ha : a.WF) (h : flattenForward a s e = some y) :
    IsAdjoint (R := R) a.shape y.shape (fun v => flattenForward v s e) (fun g => reshapeBackward g a.shape) := by
  unfold flattenForward at h
  cases h0 : flattenTarget a.shape s e with
  | none => simp [h0] at h
  | some t =>
    simp only [h0, Option.bind_eq_bind, Option.bind_some] at h
    refine (reshape_adj a y t ha h).congr ?_ (fun _ _ _ => rfl)
    intro v _ hvs
    simp [flattenForward, hvs, h0, reshapeForward]

/-- squeeze(None | int | tuple) -/
theorem squeeze_adj (a y : NDArray R) (ax : Axes) (ha : a.WF) (h : squeezeForward a ax = some y) :
    IsAdjoint (R := R) a.shape y.shape (fun v => squeezeForward v ax) (fun g => squeezeBackward g a.shape) := by
  obtain ⟨s', hs', hv'⟩ := squeezeForward_eq a y ax h
  have hy := hv' a ha rfl
  rw [h, Option.some.injEq] at hy
  subst hy
  refine (reshapeTo_adj a.shape s' hs'.symm).congr (fun v hv hvs => hv' v hv hvs) ?_
  intro g _ hgs
  simp [squeezeBackward, hgs, hs']

/-- unsqueeze(int | tuple) -/
theorem unsqueeze_adj (a y : NDArray R) (axes : List Int) (ha : a.WF) (h : unsqueezeForward a axes = some y) :
    IsAdjoint (R := R) a.shape y.shape (fun v => unsqueezeForward v axes) (fun g => unsqueezeBackward g axes) := by
  obtain ⟨ax, s', hn, hone, hdrop, hv'⟩ := expandDims_eq a y axes h
  have hy := hv' a rfl
  rw [show expandDims a axes = some y from h, Option.some.injEq] at hy
  subst hy
  have hsz : Shape.size s' = Shape.size a.shape := by rw [← hdrop, size_dropAxes s' ax hone]
  refine (reshapeTo_adj a.shape s' hsz.symm).congr (fun v _ hvs => hv' v hvs) ?_
  intro g _ hgs
  have hgs' : g.shape = s' := hgs
  show squeezeAxes g axes = _
  rw [squeezeAxes_of g axes ax (by rw [hgs']; exact hn) (by rw [hgs']; exact hone), hgs', hdrop]

/-- Tensor.unfold(dimension, size, step): overlapping windows, so backward really scatter-adds -/
theorem unfoldDim_adj (a y : NDArray R) (d sz st : Int) (ha : a.WF) (h : unfoldDimForward a d sz st = some y) :
    IsAdjoint (R := R) a.shape y.shape (fun v => unfoldDimForward v d sz st) (fun g => unfoldDimBackward g a.shape d sz st) := by
  unfold unfoldDimForward at h
  cases h0 : unfoldDimCheck a.shape d sz st with
  | none => simp [h0] at h
  | some r =>
    obtain ⟨d', sz', st', cnt⟩ := r
    simp only [h0, Option.bind_eq_bind, Option.bind_some, Option.pure_def, Option.some.injEq] at h
    subst h
    obtain ⟨_, _, hsz, hcnt⟩ := unfoldDimCheck_spec h0
    apply isAdjoint_of_gather_scatter a.shape _ (unfoldDimMap d' st')
    · exact unfoldDimMap_valid a.shape d' sz' st' cnt hsz hcnt
    · intro v _ hvs
      simp only [unfoldDimForward, hvs, h0, Option.bind_eq_bind, Option.bind_some, Option.pure_def]
      rfl
    · intro g _ hgs
      simp only [unfoldDimBackward, h0, hgs, Option.bind_eq_bind, Option.bind_some, Option.pure_def]

/-- indexing: ints, slices with any step, ellipsis, newaxis, one integer list (with repeats) -/
theorem slice_adj (a y : NDArray R) (sels : List Sel) (ha : a.WF) (h : sliceForward a sels = some y) :
    IsAdjoint (R := R) a.shape y.shape (fun v => sliceForward v sels) (fun g => sliceBackward g a.shape sels) := by
  unfold sliceForward at h
  cases h0 : resolveIndex a.shape sels with
  | none => simp [h0] at h
  | some rs =>
    simp only [h0, Option.bind_eq_bind, Option.bind_some, Option.pure_def, Option.some.injEq] at h
    subst h
    apply isAdjoint_of_gather_scatter a.shape _ (indexMap rs)
    · exact indexMap_valid a.shape sels rs h0
    · intro v _ hvs
      simp only [sliceForward, hvs, h0, Option.bind_eq_bind, Option.bind_some, Option.pure_def]
      rfl
    · intro g _ hgs
      simp only [sliceBackward, h0, Option.bind_eq_bind, Option.bind_some, Option.pure_def]
      rfl

end Proofs.Adjoint
