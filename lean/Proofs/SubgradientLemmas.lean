import Proofs.AdjointSumB
import Proofs.AdjointReshape
import SynapModel.Kernels.NN
import Mathlib.Data.List.Induction
import Mathlib.Order.Defs.LinearOrder
/-!
# Helper lemmas for `Proofs/Subgradient.lean`

* `foldl_best_spec`   : the "keep the first strict improvement" fold returns a member that dominates
                        every member (for any total transitive relation);
* `reduceIdx_surj`    : `reduceIdx` maps the valid indices of a shape *onto* the valid indices of the
                        reduced shape when no reduced axis is empty;
* `ravel_reduce_keep_eq` : the keepdims and the no-keepdims reduced index have the same flat offset;
* `extForward_inv`, `argExt_spec`, `extBackward_masked` : the kernel-level facts, generic in `better`;
* `firstMax_inv`      : the invariant of `firstMax`.
-/
namespace Proofs.Subgrad
open Synap Synap.NDArray Synap.Np Synap.Kernels Proofs.Core Proofs.Adjoint

/-! ### the fold -/
theorem foldl_best_spec {ι β : Type} (R : β → β → Prop) (htot : ∀ x y, R x y ∨ R y x)
    (htrans : ∀ x y z, R x y → R y z → R x z) (better : β → β → Bool)
    (hb : ∀ x y, better x y = true ↔ ¬ R x y) (f : ι → β) (r : List ι) (i0 : ι) :
    (r.foldl (fun best i => if better (f i) (f best) then i else best) i0) ∈ i0 :: r ∧
    ∀ i ∈ i0 :: r, R (f i) (f (r.foldl (fun best i => if better (f i) (f best) then i else best) i0)) := by
  have hrefl : ∀ x, R x x := fun x => (htot x x).elim id id
  induction r generalizing i0 with
  | nil => simpa using hrefl _
  | cons i r ih =>
    rw [List.foldl_cons]
    obtain ⟨h1, h2⟩ := ih (if better (f i) (f i0) then i else i0)
    generalize hi1 : (if better (f i) (f i0) = true then i else i0) = i1 at h1 h2
    have h01 : R (f i0) (f i1) ∧ R (f i) (f i1) ∧ (i1 = i ∨ i1 = i0) := by
      by_cases hbt : better (f i) (f i0) = true
      · rw [if_pos hbt] at hi1
        subst hi1
        exact ⟨(htot _ _).resolve_left ((hb _ _).1 hbt), hrefl _, Or.inl rfl⟩
      · rw [if_neg hbt] at hi1
        subst hi1
        have : R (f i) (f i0) := by
          by_contra hc
          exact hbt ((hb _ _).2 hc)
        exact ⟨hrefl _, this, Or.inr rfl⟩
    obtain ⟨ha, hb', hc⟩ := h01
    have hj := h2 i1 (List.mem_cons_self)
    refine ⟨?_, ?_⟩
    · rcases List.mem_cons.1 h1 with e | e
      · rw [e]
        rcases hc with e' | e' <;> rw [e'] <;> simp
      · simp [e]
    · intro i' hi'
      rcases List.mem_cons.1 hi' with e | e
      · rw [e]; exact htrans _ _ _ ha hj
      · rcases List.mem_cons.1 e with e | e
        · rw [e]; exact htrans _ _ _ hb' hj
        · exact h2 i' (List.mem_cons_of_mem _ e)

/-! ### `setAxes` with an index offset -/
def setAxesFrom {α : Type} (m : Nat) (l : List α) (ax : List Nat) (v : α) : List α :=
  (l.zipIdx m).map (fun (x, k) => if ax.contains k then v else x)

theorem setAxes_eq {α : Type} (l : List α) (ax : List Nat) (v : α) : setAxes l ax v = setAxesFrom 0 l ax v := rfl

theorem setAxesFrom_cons {α : Type} (m : Nat) (x : α) (l : List α) (ax : List Nat) (v : α) :
    setAxesFrom m (x :: l) ax v = (if m ∈ ax then v else x) :: setAxesFrom (m + 1) l ax v := by
  simp [setAxesFrom, List.zipIdx_cons]

theorem setAxesFrom_preimage (ax : List Nat) : ∀ (s : Shape) (o : Idx) (m : Nat),
    (∀ p, p < s.length → (m + p) ∈ ax → s.getD p 0 ≠ 0) →
    validIdx (setAxesFrom m s ax 1) o → validIdx s o ∧ setAxesFrom m o ax 0 = o
  | [], [], m, _, _ => by simp [validIdx, setAxesFrom]
  | [], _ :: _, m, _, h => by simp [setAxesFrom, validIdx] at h
  | n :: s, [], m, _, h => by simp [setAxesFrom_cons, validIdx] at h
  | n :: s, x :: o, m, H, h => by
    rw [setAxesFrom_cons] at h
    obtain ⟨hx, ho⟩ := h
    have ih := setAxesFrom_preimage ax s o (m + 1) (fun p hp hm => by
      have := H (p + 1) (by simpa using hp) (by rwa [show m + (p + 1) = m + 1 + p by omega])
      simpa using this) ho
    rw [setAxesFrom_cons, ih.2]
    by_cases hm : m ∈ ax
    · have hn : n ≠ 0 := by simpa using H 0 (by simp) (by simpa using hm)
      rw [if_pos hm] at hx ⊢
      have hx0 : x = 0 := by omega
      subst hx0
      exact ⟨⟨by omega, ih.1⟩, rfl⟩
    · rw [if_neg hm] at hx ⊢
      exact ⟨⟨hx, ih.1⟩, rfl⟩

theorem dropAxesFrom_preimage (ax : List Nat) : ∀ (s : Shape) (o : Idx) (m : Nat),
    (∀ p, p < s.length → (m + p) ∈ ax → s.getD p 0 ≠ 0) →
    validIdx (dropAxesFrom m s ax) o → ∃ i, validIdx s i ∧ dropAxesFrom m i ax = o
  | [], [], m, _, _ => ⟨[], by simp [validIdx], rfl⟩
  | [], _ :: _, m, _, h => by simp [dropAxesFrom, validIdx] at h
  | n :: s, o, m, H, h => by
    have H' : ∀ p, p < s.length → (m + 1 + p) ∈ ax → s.getD p 0 ≠ 0 := fun p hp hm => by
      have := H (p + 1) (by simpa using hp) (by rwa [show m + (p + 1) = m + 1 + p by omega])
      simpa using this
    rw [dropAxesFrom_cons] at h
    by_cases hm : m ∈ ax
    · have hn : n ≠ 0 := by simpa using H 0 (by simp) (by simpa using hm)
      rw [if_pos hm] at h
      obtain ⟨i, hi, he⟩ := dropAxesFrom_preimage ax s o (m + 1) H' h
      refine ⟨0 :: i, ⟨by omega, hi⟩, ?_⟩
      rw [dropAxesFrom_cons, if_pos hm, he]
    · rw [if_neg hm] at h
      cases o with
      | nil => simp [validIdx] at h
      | cons x o =>
        obtain ⟨hx, ho⟩ := h
        obtain ⟨i, hi, he⟩ := dropAxesFrom_preimage ax s o (m + 1) H' ho
        refine ⟨x :: i, ⟨hx, hi⟩, ?_⟩
        rw [dropAxesFrom_cons, if_neg hm, he]

/-- `reduceIdx` is onto the valid indices of the reduced shape when no reduced axis is empty -/
theorem reduceIdx_surj (s : Shape) (axes : List Nat) (keep : Bool)
    (hpos : ∀ k ∈ axes, s.getD k 0 ≠ 0) (o : Idx) (ho : validIdx (reduceShape s axes keep) o) :
    ∃ i, validIdx s i ∧ reduceIdx axes keep i = o := by
  cases keep
  · simp only [reduceShape, reduceIdx, Bool.false_eq_true, if_false, dropAxes_eq] at ho ⊢
    exact dropAxesFrom_preimage axes s o 0 (fun p _ hm => hpos p (by simpa using hm)) ho
  · simp only [reduceShape, reduceIdx, if_true, setAxes_eq] at ho ⊢
    have := setAxesFrom_preimage axes s o 0 (fun p _ hm => hpos p (by simpa using hm)) ho
    exact ⟨o, this.1, this.2⟩

/-! ### flat offsets of the two reduced indices agree -/
theorem size_setAxesFrom_one (ax : List Nat) (s : Shape) (m : Nat) :
    Shape.size (setAxesFrom m s ax 1) = Shape.size (dropAxesFrom m s ax) := by
  induction s generalizing m with
  | nil => rfl
  | cons n s ih =>
    rw [setAxesFrom_cons, dropAxesFrom_cons]
    by_cases hm : m ∈ ax
    · rw [if_pos hm, if_pos hm, size_cons, ih, Nat.one_mul]
    · rw [if_neg hm, if_neg hm, size_cons, size_cons, ih]

theorem ravel_setAxesFrom (ax : List Nat) : ∀ (s : Shape) (i : Idx) (m : Nat), i.length = s.length →
    ravel (setAxesFrom m s ax 1) (setAxesFrom m i ax 0) = ravel (dropAxesFrom m s ax) (dropAxesFrom m i ax)
  | [], [], m, _ => rfl
  | [], _ :: _, m, h => by simp at h
  | _ :: _, [], m, h => by simp at h
  | n :: s, x :: i, m, h => by
    have ih := ravel_setAxesFrom ax s i (m + 1) (by simpa using h)
    rw [setAxesFrom_cons, setAxesFrom_cons, dropAxesFrom_cons, dropAxesFrom_cons]
    by_cases hm : m ∈ ax
    · rw [if_pos hm, if_pos hm, if_pos hm, if_pos hm]
      simp only [ravel, ih, Nat.zero_mul, Nat.zero_add]
    · rw [if_neg hm, if_neg hm, if_neg hm, if_neg hm]
      simp only [ravel, ih, size_setAxesFrom_one]

theorem ravel_reduce_keep_eq (s : Shape) (axes : List Nat) (i : Idx) (h : i.length = s.length) :
    ravel (reduceShape s axes true) (reduceIdx axes true i) =
      ravel (reduceShape s axes false) (reduceIdx axes false i) := by
  simp only [reduceShape, reduceIdx, if_true, Bool.false_eq_true, if_false, setAxes_eq, dropAxes_eq]
  exact ravel_setAxesFrom axes s i 0 h

theorem setAxes_range_zero (i : Idx) : setAxes i (List.range i.length) 0 = List.replicate i.length 0 := by
  apply List.ext_getElem
  · simp [setAxes]
  · intro k h1 h2
    simp only [setAxes, List.length_map, List.length_zipIdx] at h1
    simp [setAxes, h1]

theorem length_setAxes {α : Type} (l : List α) (ax : List Nat) (v : α) : (setAxes l ax v).length = l.length := by
  simp [setAxes]

/-! ### the kernels, generic in `better` -/
section Ext
variable {α : Type} [Zero α]

theorem extForward_inv (better : α → α → Bool) (a y : NDArray α) (dim : Option Int) (keep : Bool)
    (h : extForward better a dim keep = some y) (axes : List Nat)
    (hax : (match dim with | none => Axes.all | some d => Axes.one d).normRed a.shape.length = some axes) :
    (∀ k ∈ axes, a.shape.getD k 0 ≠ 0) ∧
    y = ofFn (reduceShape a.shape axes keep) (fun o => a.get (argExt better a axes keep o)) := by
  have h' : ((if ((axes.any fun k => List.getD a.shape k 0 == 0) || decide (a.shape.size = 0)) = true then none
      else some (ofFn (reduceShape a.shape axes keep) fun o => a.get (argExt better a axes keep o))) : Option (NDArray α))
      = some y := by
    rw [← h]
    unfold extForward
    cases dim <;> simp only [] at hax ⊢ <;> rw [hax] <;>
      simp only [Option.bind_eq_bind, Option.bind_some, Option.pure_def] <;> split_ifs <;> rfl
  split_ifs at h' with hc
  rw [Bool.or_eq_true, not_or] at hc
  refine ⟨fun k hk h0 => hc.1 ?_, (Option.some.inj h').symm⟩
  rw [List.any_eq_true]
  exact ⟨k, hk, by rw [h0]; rfl⟩

/-- the selected index of the fibre of `o`: in the fibre, attains the forward value, `R`-dominates the fibre -/
theorem argExt_spec (R : α → α → Prop) (htot : ∀ x y, R x y ∨ R y x)
    (htrans : ∀ x y z, R x y → R y z → R x z) (better : α → α → Bool)
    (hb : ∀ x y, better x y = true ↔ ¬ R x y)
    (a y : NDArray α) (dim : Option Int) (keep : Bool)
    (h : extForward better a dim keep = some y) (axes : List Nat)
    (hax : (match dim with | none => Axes.all | some d => Axes.one d).normRed a.shape.length = some axes)
    (o : Idx) (ho : validIdx y.shape o) :
    validIdx a.shape (argExt better a axes keep o) ∧ reduceIdx axes keep (argExt better a axes keep o) = o ∧
    y.get o = a.get (argExt better a axes keep o) ∧
    ∀ i, validIdx a.shape i → reduceIdx axes keep i = o → R (a.get i) (a.get (argExt better a axes keep o)) := by
  obtain ⟨hpos, rfl⟩ := extForward_inv better a y dim keep h axes hax
  rw [ofFn_shape] at ho
  rw [get_ofFn _ _ _ ho]
  obtain ⟨i₀, hi₀, he₀⟩ := reduceIdx_surj a.shape axes keep hpos o ho
  have hmem : ∀ i, i ∈ (allIdx a.shape).filter (fun i => reduceIdx axes keep i == o) ↔
      validIdx a.shape i ∧ reduceIdx axes keep i = o := by
    intro i
    rw [List.mem_filter, mem_allIdx, beq_iff_eq]
  unfold argExt
  cases hf : (allIdx a.shape).filter (fun i => reduceIdx axes keep i == o) with
  | nil =>
    have := (hmem i₀).2 ⟨hi₀, he₀⟩
    rw [hf] at this
    simp at this
  | cons j0 r =>
    simp only []
    obtain ⟨h1, h2⟩ := foldl_best_spec R htot htrans better hb a.get r j0
    rw [← hf] at h1 h2
    have hj := (hmem _).1 h1
    exact ⟨hj.1, hj.2, trivial, fun i hi he => h2 i ((hmem i).2 ⟨hi, he⟩)⟩

end Ext

section Back
variable {α : Type} [Zero α] [One α] [Mul α]

theorem extBackward_eq (better : α → α → Bool) (g a b : NDArray α) (dim : Option Int) (keep : Bool)
    (hb : extBackward better g a dim keep = some b) (axes : List Nat)
    (hax : (match dim with | none => Axes.all | some d => Axes.one d).normRed a.shape.length = some axes) :
    b = ofFn a.shape (fun i =>
      if argExt better a axes keep (reduceIdx axes keep i) = i then
        (if dim.isNone then g.get (List.replicate g.shape.length 0)
          else (if keep then g else reshapeTo g (reduceShape a.shape axes true)).get (reduceIdx axes true i)) * 1
      else
        (if dim.isNone then g.get (List.replicate g.shape.length 0)
          else (if keep then g else reshapeTo g (reduceShape a.shape axes true)).get (reduceIdx axes true i)) * 0) := by
  apply Option.some.inj
  rw [← hb]
  unfold extBackward
  cases dim <;> simp only [] at hax ⊢ <;> rw [hax] <;>
    simp only [Option.bind_eq_bind, Option.bind_some, Option.pure_def, Option.isNone_none, Option.isNone_some,
      Bool.or_true, Bool.or_false, if_true, beq_iff_eq, Bool.false_eq_true, if_false]

omit [One α] [Mul α] in
/-- however the kernel reads the upstream gradient, it reads `g[reduceIdx i]` -/
theorem extBackward_read (g a : NDArray α) (dim : Option Int) (keep : Bool) (axes : List Nat)
    (hax : (match dim with | none => Axes.all | some d => Axes.one d).normRed a.shape.length = some axes)
    (hgs : g.shape = reduceShape a.shape axes keep) (i : Idx) (hi : validIdx a.shape i) :
    (if dim.isNone then g.get (List.replicate g.shape.length 0)
      else (if keep then g else reshapeTo g (reduceShape a.shape axes true)).get (reduceIdx axes true i))
      = g.get (reduceIdx axes keep i) := by
  have hlen := validIdx_length _ _ hi
  cases dim with
  | none =>
    simp only [normRed_all, Option.some.injEq] at hax
    subst hax
    simp only [Option.isNone_none, if_true]
    cases keep with
    | false =>
      rw [reduceShape_all_nokeep] at hgs
      exact get_shape_nil g hgs _ _
    | true =>
      rw [hgs]
      simp only [reduceShape, reduceIdx, if_true, length_setAxes]
      rw [← hlen, setAxes_range_zero]
  | some d =>
    simp only [Option.isNone_some, Bool.false_eq_true, if_false]
    cases keep with
    | true => simp only [if_true]
    | false =>
      simp only [Bool.false_eq_true, if_false]
      have hv := reduceIdx_valid a.shape axes true i hi
      have hv' := reduceIdx_valid a.shape axes false i hi
      show (gather _ _ g).get _ = _
      rw [get_gather _ _ _ _ hv, ravel_reduce_keep_eq _ _ _ hlen, hgs, unravel_ravel _ _ hv']

theorem extBackward_masked (better : α → α → Bool) (a g b : NDArray α) (dim : Option Int) (keep : Bool)
    (hb : extBackward better g a dim keep = some b) (axes : List Nat)
    (hax : (match dim with | none => Axes.all | some d => Axes.one d).normRed a.shape.length = some axes)
    (hgs : g.shape = reduceShape a.shape axes keep) :
    b.shape = a.shape ∧ ∀ i, validIdx a.shape i →
      b.get i = if argExt better a axes keep (reduceIdx axes keep i) = i
                then g.get (reduceIdx axes keep i) * 1 else g.get (reduceIdx axes keep i) * 0 := by
  have := extBackward_eq better g a b dim keep hb axes hax
  subst this
  refine ⟨rfl, fun i hi => ?_⟩
  rw [get_ofFn _ _ _ hi, extBackward_read g a dim keep axes hax hgs i hi]

theorem extBackward_total (better : α → α → Bool) (a g : NDArray α) (dim : Option Int) (keep : Bool)
    (axes : List Nat)
    (hax : (match dim with | none => Axes.all | some d => Axes.one d).normRed a.shape.length = some axes) :
    ∃ b, extBackward better g a dim keep = some b ∧ b.shape = a.shape := by
  unfold extBackward
  cases dim <;> simp only [] at hax ⊢ <;> rw [hax] <;>
    simp only [Option.bind_eq_bind, Option.bind_some, Option.pure_def] <;> exact ⟨_, rfl, rfl⟩

end Back

/-- acceptance of the forward exhibits the normalised axes -/
theorem extForward_axes {α : Type} [Zero α] (better : α → α → Bool) (a y : NDArray α) (dim : Option Int)
    (keep : Bool) (h : extForward better a dim keep = some y) :
    ∃ axes, (match dim with | none => Axes.all | some d => Axes.one d).normRed a.shape.length = some axes := by
  unfold extForward at h
  cases dim <;> simp only [] at h ⊢
  · exact ⟨_, normRed_all _⟩
  · cases hn : Axes.normRed a.shape.length (Axes.one ‹Int›) with
    | none => rw [hn] at h; simp at h
    | some ax => exact ⟨ax, rfl⟩

/-! ### `firstMax` -/
section FM
variable {α : Type} [LinearOrder α]

theorem firstMax_snoc (l : List (Option α)) (x : Option α) :
    firstMax (l ++ [x]) =
      (match x, firstMax l with
       | some xv, none => some (xv, l.length)
       | some xv, some (bv, bk) => if bv < xv then some (xv, l.length) else some (bv, bk)
       | none, b => b) := by
  unfold firstMax
  rw [List.zipIdx_append, List.foldl_append]
  simp only [List.zipIdx_cons, List.zipIdx_nil, List.foldl_cons, List.foldl_nil, Nat.zero_add]
  generalize List.foldl _ _ _ = b
  rcases b with _ | ⟨bv, bk⟩ <;> cases x <;> rfl

theorem getElem?_snoc_real (l : List (Option α)) (x : Option α) (j : Nat) (w : α) :
    (l ++ [x])[j]? = some (some w) ↔ l[j]? = some (some w) ∨ (j = l.length ∧ x = some w) := by
  rcases Nat.lt_trichotomy j l.length with hj | hj | hj
  · rw [List.getElem?_append_left hj]
    constructor
    · exact Or.inl
    · rintro (h | ⟨h, _⟩)
      · exact h
      · omega
  · subst hj
    simp
  · rw [List.getElem?_append_right (by omega)]
    have h1 : l[j]? = none := List.getElem?_eq_none (by omega)
    have h2 : ([x] : List (Option α))[j - l.length]? = none := List.getElem?_eq_none (by simp; omega)
    rw [h1, h2]
    constructor
    · intro h; simp at h
    · rintro (h | ⟨h, _⟩)
      · simp at h
      · omega

/-- invariant of `firstMax`: `none` exactly when the window has no real entry; otherwise a real entry
    dominating all real entries -/
theorem firstMax_inv (vals : List (Option α)) :
    (firstMax vals = none ∧ ∀ (j : Nat) (w : α), vals[j]? ≠ some (some w)) ∨
    (∃ v k, firstMax vals = some (v, k) ∧ vals[k]? = some (some v) ∧
      ∀ (j : Nat) (w : α), vals[j]? = some (some w) → w ≤ v) := by
  induction vals using List.reverseRecOn with
  | nil => left; simp [firstMax]
  | append_singleton l x ih =>
    rw [firstMax_snoc]
    cases x with
    | none =>
      simp only [getElem?_snoc_real, ne_eq]
      rcases ih with ⟨h1, h2⟩ | ⟨v, k, h1, h2, h3⟩
      · left
        refine ⟨h1, fun j w => ?_⟩
        simp [h2 j w]
      · right
        refine ⟨v, k, h1, Or.inl h2, fun j w hw => ?_⟩
        rcases hw with hw | ⟨_, hw⟩
        · exact h3 j w hw
        · simp at hw
    | some xv =>
      right
      simp only [getElem?_snoc_real]
      rcases ih with ⟨h1, h2⟩ | ⟨v, k, h1, h2, h3⟩
      · rw [h1]
        refine ⟨xv, l.length, rfl, Or.inr ⟨rfl, rfl⟩, fun j w hw => ?_⟩
        rcases hw with hw | ⟨_, hw⟩
        · exact absurd hw (h2 j w)
        · exact le_of_eq (Option.some.inj hw).symm
      · rw [h1]
        by_cases hlt : v < xv
        · refine ⟨xv, l.length, by simp [hlt], Or.inr ⟨rfl, rfl⟩, fun j w hw => ?_⟩
          rcases hw with hw | ⟨_, hw⟩
          · exact le_trans (h3 j w hw) (le_of_lt hlt)
          · exact le_of_eq (Option.some.inj hw).symm
        · refine ⟨v, k, by simp [hlt], Or.inl h2, fun j w hw => ?_⟩
          rcases hw with hw | ⟨_, hw⟩
          · exact h3 j w hw
          · rw [← Option.some.inj hw]; exact le_of_not_gt hlt

end FM

end Proofs.Subgrad
