import Proofs.EngineBasic
/-!
# Helper material for `Proofs/EngineStruct.lean`, part 3: `accumulate` and `sweep`
-/
namespace Proofs.Engine
open Synap.Engine

variable {G : Type} [Add G]

/-! ### `accumulate` -/

/-- what a successful `accumulate ns cs gs = some ns'` guarantees -/
structure AccSpec (ns ns' : Graph G) (cs : List Nat) : Prop where
  skel : Skel ns ns'
  frame : ∀ k : Nat, k ∉ cs → ns'[k]? = ns[k]?
  noreq : ∀ (k : Nat) (n : Node G), ns[k]? = some n → n.reqGrad = false → ns'[k]? = some n
  keep : ∀ (k : Nat) (n n' : Node G), ns[k]? = some n → ns'[k]? = some n' → n.grad.isSome = true → n'.grad.isSome = true

omit [Add G] in
theorem AccSpec.refl (ns : Graph G) (cs : List Nat) : AccSpec ns ns cs :=
  ⟨Skel.refl _, fun _ _ => rfl, fun _ _ h _ => h, fun k n n' h h' hg => by rw [h] at h'; cases h'; exact hg⟩

omit [Add G] in
theorem AccSpec.weaken {ns ns' : Graph G} {cs : List Nat} (h : AccSpec ns ns' cs) (c : Nat) :
    AccSpec ns ns' (c :: cs) :=
  ⟨h.skel, fun k hk => h.frame k (fun h' => hk (List.mem_cons_of_mem _ h')), h.noreq, h.keep⟩

omit [Add G] in
theorem AccSpec.step {ns ns' : Graph G} {cs : List Nat} {c : Nat} {n : Node G} {x : G}
    (hc : ns[c]? = some n) (hr : n.reqGrad = true) (h : AccSpec (setGrad ns c (some x)) ns' cs) :
    AccSpec ns ns' (c :: cs) := by
  refine ⟨(skel_setGrad _ _ _).trans h.skel, ?_, ?_, ?_⟩
  · intro k hk
    have h1 : k ≠ c := fun e => hk (e ▸ List.mem_cons_self)
    have h2 : k ∉ cs := fun e => hk (List.mem_cons_of_mem _ e)
    rw [h.frame k h2, getElem?_setGrad_ne _ _ _ _ h1]
  · intro k m hm hrm
    have h1 : k ≠ c := by rintro rfl; rw [hc] at hm; cases hm; rw [hr] at hrm; cases hrm
    exact h.noreq k m (by rw [getElem?_setGrad_ne _ _ _ _ h1]; exact hm) hrm
  · intro k m m' hm hm' hg
    by_cases h1 : k = c
    · subst h1
      refine h.keep k { m with grad := some x } m' ?_ hm' rfl
      rw [getElem?_setGrad_self, hm]; rfl
    · exact h.keep k m m' (by rw [getElem?_setGrad_ne _ _ _ _ h1]; exact hm) hm' hg

theorem acc_spec (ns : Graph G) (cs : List Nat) (gs : List (Option G)) (ns' : Graph G)
    (h : accumulate ns cs gs = some ns') : AccSpec ns ns' cs := by
  fun_induction accumulate ns cs gs generalizing ns' with
  | case1 ns c cs g gs n hc hr old hold ih => exact AccSpec.step hc hr (ih ns' h)
  | case2 => cases h
  | case3 ns c cs g gs n hc hr ih => exact (ih ns' h).weaken c
  | case4 => cases h
  | case5 ns c cs gs ih => exact (ih ns' h).weaken c
  | case6 t ns x h1 h2 => cases h; exact AccSpec.refl _ _

theorem acc_succ (ns : Graph G) (cs : List Nat) (gs : List (Option G))
    (hpre : ∀ c ∈ cs, ∃ n, ns[c]? = some n ∧ (n.reqGrad = true → n.grad.isSome = true)) :
    ∃ ns', accumulate ns cs gs = some ns' := by
  fun_induction accumulate ns cs gs with
  | case1 ns c cs g gs n hc hr old hold ih =>
    apply ih
    intro c' hc'
    obtain ⟨m, hm, hg⟩ := hpre c' (List.mem_cons_of_mem _ hc')
    by_cases e : c' = c
    · subst e
      exact ⟨{ m with grad := some (old + g) }, by rw [getElem?_setGrad_self, hm]; rfl, fun _ => rfl⟩
    · exact ⟨m, by rw [getElem?_setGrad_ne _ _ _ _ e]; exact hm, hg⟩
  | case2 ns c cs g gs n hc hr hnone =>
    obtain ⟨m, hm, hg⟩ := hpre c List.mem_cons_self
    rw [hc] at hm; cases hm
    have := hg hr; rw [hnone] at this; cases this
  | case3 ns c cs g gs n hc hr ih => exact ih (fun c' hc' => hpre c' (List.mem_cons_of_mem _ hc'))
  | case4 ns c cs g gs hc =>
    obtain ⟨m, hm, _⟩ := hpre c List.mem_cons_self
    rw [hc] at hm; cases hm
  | case5 ns c cs gs ih => exact ih (fun c' hc' => hpre c' (List.mem_cons_of_mem _ hc'))
  | case6 t ns x h1 h2 => exact ⟨ns, rfl⟩

/-- two runs of `accumulate` on graphs that coincide at the operands -/
theorem acc_sim (a : Graph G) (cs : List Nat) (gs : List (Option G)) (b : Graph G)
    (hab : ∀ c ∈ cs, a[c]? = b[c]?) :
    (accumulate a cs gs).isSome = (accumulate b cs gs).isSome ∧
    ∀ a' b', accumulate a cs gs = some a' → accumulate b cs gs = some b' →
      ∀ k : Nat, a[k]? = b[k]? → a'[k]? = b'[k]? := by
  fun_induction accumulate a cs gs generalizing b with
  | case1 a c cs g gs n hc hr old hold ih =>
    have hb : b[c]? = some n := by rw [← hab c List.mem_cons_self]; exact hc
    have e : accumulate b (c :: cs) (some g :: gs) = accumulate (setGrad b c (some (old + g))) cs gs := by
      simp [accumulate, hb, hr, hold]
    rw [e]
    have hab' : ∀ c' ∈ cs, (setGrad a c (some (old + g)))[c']? = (setGrad b c (some (old + g)))[c']? := by
      intro c' hc'; rw [getElem?_setGrad, getElem?_setGrad, hab c' (List.mem_cons_of_mem _ hc')]
    obtain ⟨i1, i2⟩ := ih _ hab'
    refine ⟨i1, fun a' b' ha' hb' k hk => i2 a' b' ha' hb' k ?_⟩
    rw [getElem?_setGrad, getElem?_setGrad, hk]
  | case2 a c cs g gs n hc hr hnone =>
    have hb : b[c]? = some n := by rw [← hab c List.mem_cons_self]; exact hc
    have e : accumulate b (c :: cs) (some g :: gs) = none := by simp [accumulate, hb, hr, hnone]
    rw [e]
    exact ⟨rfl, fun a' b' ha' => by cases ha'⟩
  | case3 a c cs g gs n hc hr ih =>
    have hb : b[c]? = some n := by rw [← hab c List.mem_cons_self]; exact hc
    have e : accumulate b (c :: cs) (some g :: gs) = accumulate b cs gs := by
      simp [accumulate, hb, hr]
    rw [e]
    exact ih b (fun c' hc' => hab c' (List.mem_cons_of_mem _ hc'))
  | case4 a c cs g gs hc =>
    have hb : b[c]? = none := by rw [← hab c List.mem_cons_self]; exact hc
    have e : accumulate b (c :: cs) (some g :: gs) = none := by simp [accumulate, hb]
    rw [e]
    exact ⟨rfl, fun a' b' ha' => by cases ha'⟩
  | case5 a c cs gs ih =>
    have e : accumulate b (c :: cs) (none :: gs) = accumulate b cs gs := by simp [accumulate]
    rw [e]
    exact ih b (fun c' hc' => hab c' (List.mem_cons_of_mem _ hc'))
  | case6 t a x h1 h2 =>
    have e : accumulate b t x = some b := by
      unfold accumulate
      split
      · exact (h1 _ _ _ _ rfl rfl).elim
      · exact (h2 _ _ _ rfl rfl).elim
      · rfl
    rw [e]
    refine ⟨rfl, fun a' b' ha' hb' k hk => ?_⟩
    cases ha'; cases hb'; exact hk

/-! ### one step of `sweep` -/

/-- the `grad_fn` call of one sweep step -/
def backStep (ns : Graph G) (v : Nat) (n : Node G) (tr : List TrEv) : Option (Graph G × List TrEv) :=
  match n.back, n.grad with
  | some f, some g => ((f g).bind (accumulate ns n.children)).map (fun ns' => (ns', tr ++ [TrEv.call v]))
  | some _, none => none
  | none, _ => some (ns, tr)

/-- is the buffer of `v` released after its step? -/
def relCond (root : Nat) (retainAll : Bool) (v : Nat) (n : Node G) : Bool :=
  v ≠ root && !n.isLeaf && !n.retain && !retainAll

/-- the release of one sweep step -/
def relStep (root : Nat) (retainAll : Bool) (v : Nat) (n : Node G) (p : Graph G × List TrEv) :
    Graph G × List TrEv :=
  if relCond root retainAll v n then (setGrad p.1 v none, p.2 ++ [TrEv.release v]) else p

theorem sweep_nil (root : Nat) (rA : Bool) (ns : Graph G) (tr : List TrEv) :
    sweep root rA [] ns tr = some (ns, tr) := rfl

theorem sweep_cons (root : Nat) (rA : Bool) (v : Nat) (rest : List Nat) (ns : Graph G) (tr : List TrEv) :
    sweep root rA (v :: rest) ns tr =
      match ns[v]? with
      | none => none
      | some n =>
        match backStep ns v n tr with
        | none => none
        | some p => sweep root rA rest (relStep root rA v n p).1 (relStep root rA v n p).2 := by
  rw [sweep]
  cases ns[v]? with
  | none => rfl
  | some n =>
    simp only
    change (match backStep ns v n tr with
      | none => none
      | some (ns, tr) => if (v ≠ root && !n.isLeaf && !n.retain && !rA) = true
          then sweep root rA rest (setGrad ns v none) (tr ++ [TrEv.release v])
          else sweep root rA rest ns tr) = _
    cases backStep ns v n tr with
    | none => rfl
    | some p =>
      obtain ⟨ns2, tr2⟩ := p
      show (if relCond root rA v n = true
          then sweep root rA rest (setGrad ns2 v none) (tr2 ++ [TrEv.release v])
          else sweep root rA rest ns2 tr2) = _
      unfold relStep
      by_cases h : relCond root rA v n = true
      · rw [if_pos h]; simp only [if_pos h]
      · rw [if_neg h]; simp only [if_neg h]

theorem back_spec {ns : Graph G} {v : Nat} {n : Node G} {tr : List TrEv} {ns2 : Graph G} {tr2 : List TrEv}
    (h : backStep ns v n tr = some (ns2, tr2)) :
    AccSpec ns ns2 n.children ∧ tr2 = tr ++ (if n.back.isSome then [TrEv.call v] else []) ∧
      (n.back.isSome = true → n.grad.isSome = true) := by
  unfold backStep at h
  split at h
  · rename_i f g hf hg
    cases hfg : f g with
    | none => simp [hfg] at h
    | some l =>
      simp only [hfg, Option.bind_some, Option.map_eq_some_iff, Prod.mk.injEq] at h
      obtain ⟨ns', hacc, rfl, rfl⟩ := h
      exact ⟨acc_spec _ _ _ _ hacc, by simp [hf], fun _ => by simp [hg]⟩
  · cases h
  · rename_i hf
    cases h
    exact ⟨AccSpec.refl _ _, by simp [hf], fun h => by simp [hf] at h⟩

theorem back_succ {ns : Graph G} {v : Nat} {n : Node G} {tr : List TrEv}
    (hg : n.back.isSome = true → n.grad.isSome = true)
    (hf : ∀ f (γ : G), n.back = some f → ∃ l, f γ = some l)
    (hpre : ∀ c ∈ n.children, ∃ m, ns[c]? = some m ∧ (m.reqGrad = true → m.grad.isSome = true)) :
    ∃ p, backStep ns v n tr = some p := by
  unfold backStep
  split
  · rename_i f g hfb hgb
    obtain ⟨l, hl⟩ := hf f g hfb
    obtain ⟨ns', hacc⟩ := acc_succ ns n.children l hpre
    exact ⟨(ns', tr ++ [TrEv.call v]), by simp [hl, hacc]⟩
  · rename_i f hfb hgb
    have := hg (by simp [hfb]); simp [hgb] at this
  · exact ⟨_, rfl⟩

theorem back_sim {a b : Graph G} {v : Nat} {n : Node G} {tr : List TrEv}
    (hab : ∀ c ∈ n.children, a[c]? = b[c]?) :
    (backStep a v n tr).isSome = (backStep b v n tr).isSome ∧
    ∀ pa pb, backStep a v n tr = some pa → backStep b v n tr = some pb →
      pa.2 = pb.2 ∧ ∀ k : Nat, a[k]? = b[k]? → pa.1[k]? = pb.1[k]? := by
  unfold backStep
  split
  · rename_i f g hf hg
    cases hfg : f g with
    | none => simp
    | some l =>
      obtain ⟨h1, h2⟩ := acc_sim a n.children l b hab
      simp only [Option.bind_some, Option.isSome_map]
      refine ⟨h1, ?_⟩
      intro pa pb ha hb
      simp only [Option.map_eq_some_iff] at ha hb
      obtain ⟨a', ha', rfl⟩ := ha
      obtain ⟨b', hb', rfl⟩ := hb
      exact ⟨rfl, h2 a' b' ha' hb'⟩
  · simp
  · refine ⟨rfl, ?_⟩
    intro pa pb ha hb
    cases ha; cases hb
    exact ⟨rfl, fun k hk => hk⟩

omit [Add G] in
theorem relStep_ne (root : Nat) (rA : Bool) (v : Nat) (n : Node G) (p : Graph G × List TrEv) (k : Nat)
    (hk : k ≠ v) : (relStep root rA v n p).1[k]? = p.1[k]? := by
  unfold relStep; split
  · exact getElem?_setGrad_ne _ _ _ _ hk
  · rfl

omit [Add G] in
theorem relStep_self (root : Nat) (rA : Bool) (v : Nat) (n : Node G) (p : Graph G × List TrEv) :
    (relStep root rA v n p).1[v]? =
      (p.1[v]?).map (fun m => if relCond root rA v n then { m with grad := none } else m) := by
  unfold relStep; split
  · rename_i h; rw [getElem?_setGrad_self]
  · cases p.1[v]? <;> simp

omit [Add G] in
theorem relStep_skel (root : Nat) (rA : Bool) (v : Nat) (n : Node G) (p : Graph G × List TrEv) :
    Skel p.1 (relStep root rA v n p).1 := by
  unfold relStep; split
  · exact skel_setGrad _ _ _
  · exact Skel.refl _

omit [Add G] in
theorem relStep_trace (root : Nat) (rA : Bool) (v : Nat) (n : Node G) (p : Graph G × List TrEv) :
    (relStep root rA v n p).2 = p.2 ++ (if relCond root rA v n then [TrEv.release v] else []) := by
  unfold relStep; split <;> simp

/-! ### `sweep` -/

/-- every node of the list is followed by all its operands and does not occur again -/
def Topo (ch : Nat → List Nat) : List Nat → Prop
  | [] => True
  | v :: rest => v ∉ rest ∧ (∀ c ∈ ch v, c ∈ rest) ∧ Topo ch rest

/-- what a successful `sweep root rA L ns tr = some (ns', tr')` guarantees -/
structure SweepSpec (root : Nat) (rA : Bool) (L : List Nat) (ns ns' : Graph G) (tr tr' : List TrEv) : Prop where
  skel : Skel ns ns'
  frame : ∀ k : Nat, k ∉ L → ns'[k]? = ns[k]?
  noreq : ∀ (k : Nat) (n : Node G), ns[k]? = some n → n.reqGrad = false → ns'[k]? = some n
  keep : ∀ (k : Nat) (n n' : Node G), ns[k]? = some n → ns'[k]? = some n' → (k = root ∨ n.isLeaf = true) →
    n.grad.isSome = true → n'.grad.isSome = true
  rel : ∀ (k : Nat) (n n' : Node G), k ∈ L → k ≠ root → ns[k]? = some n → ns'[k]? = some n' →
    n.isLeaf = false → n'.grad.isSome = (n.retain || rA)
  trace : ∃ ev, tr' = tr ++ ev ∧ ev.length ≤ 2 * L.length ∧
    (∀ (v : Nat) (n : Node G), v ∈ L → ns[v]? = some n → n.back.isSome = true → ev.count (TrEv.call v) = 1) ∧
    (∀ v : Nat, (v ∉ L ∨ ∀ n : Node G, ns[v]? = some n → n.back.isSome = false) → ev.count (TrEv.call v) = 0)

theorem sweep_spec (root : Nat) (rA : Bool) (ch : Nat → List Nat) :
    ∀ (L : List Nat) (ns : Graph G) (tr : List TrEv) (ns' : Graph G) (tr' : List TrEv),
      Topo ch L → (∀ v, chOf ns v = ch v) → sweep root rA L ns tr = some (ns', tr') →
      SweepSpec root rA L ns ns' tr tr' := by
  intro L
  induction L with
  | nil =>
    intro ns tr ns' tr' _ _ h
    rw [sweep_nil] at h; cases h
    exact ⟨Skel.refl _, fun _ _ => rfl, fun _ _ h _ => h,
      fun k n n' h h' _ hg => by rw [h] at h'; cases h'; exact hg,
      fun k n n' hk => by simp at hk, ⟨[], by simp, by simp, fun v n hv => by simp at hv, fun v _ => by simp⟩⟩
  | cons v rest ih =>
    intro ns tr ns' tr' htopo hch h
    obtain ⟨hvr, hchr, htopo'⟩ := htopo
    rw [sweep_cons] at h
    cases hv : ns[v]? with
    | none => simp [hv] at h
    | some n =>
      simp only [hv] at h
      cases hb : backStep ns v n tr with
      | none => simp [hb] at h
      | some p =>
        obtain ⟨ns2, tr2⟩ := p
        simp only [hb] at h
        obtain ⟨hacc, htr2, hgs⟩ := back_spec hb
        have hnch : n.children = ch v := by rw [← hch v]; simp [chOf, hv]
        have hvch : v ∉ n.children := fun hm => hvr (hchr v (hnch ▸ hm))
        have h2v : ns2[v]? = some n := by rw [hacc.frame v hvch]; exact hv
        have hsk3 : Skel ns (relStep root rA v n (ns2, tr2)).1 := hacc.skel.trans (relStep_skel root rA v n (ns2, tr2))
        have hch3 : ∀ u, chOf (relStep root rA v n (ns2, tr2)).1 u = ch u := fun u => by
          rw [← chOf_skel hsk3 u]; exact hch u
        have IH := ih _ _ ns' tr' htopo' hch3 h
        have h3ne : ∀ k, k ≠ v → (relStep root rA v n (ns2, tr2)).1[k]? = ns2[k]? :=
          fun k hk => relStep_ne _ _ _ _ _ k hk
        have h3v : (relStep root rA v n (ns2, tr2)).1[v]? =
            some (if relCond root rA v n then { n with grad := none } else n) := by
          rw [relStep_self]; simp only [h2v, Option.map_some]
        refine ⟨hsk3.trans IH.skel, ?_, ?_, ?_, ?_, ?_⟩
        · -- frame
          intro k hk
          have h1 : k ≠ v := fun e => hk (e ▸ List.mem_cons_self)
          have h2 : k ∉ rest := fun e => hk (List.mem_cons_of_mem _ e)
          have h3 : k ∉ n.children := fun e => h2 (hchr k (hnch ▸ e))
          rw [IH.frame k h2, h3ne k h1, hacc.frame k h3]
        · -- noreq
          intro k m hm hrm
          have hm2 := hacc.noreq k m hm hrm
          refine IH.noreq k m ?_ hrm
          by_cases hk : k = v
          · subst hk
            rw [hv] at hm; cases hm
            have : relCond root rA k n = false := by simp [relCond, Node.isLeaf, hrm]
            rw [h3v, this]; rfl
          · rw [h3ne k hk]; exact hm2
        · -- keep
          intro k m m' hm hm' hkl hg
          obtain ⟨m2, hm2, hst⟩ := hacc.skel.get hm
          have hg2 := hacc.keep k m m2 hm hm2 hg
          have hlf : m2.isLeaf = m.isLeaf := isLeaf_of_strip hst
          refine IH.keep k m2 m' ?_ hm' (hkl.imp id (fun h => hlf ▸ h)) hg2
          by_cases hk : k = v
          · subst hk
            rw [hv] at hm; cases hm
            rw [h2v] at hm2; cases hm2
            have : relCond root rA k n = false := by
              rcases hkl with h | h
              · simp [relCond, h]
              · simp [relCond, h]
            rw [h3v, this]; rfl
          · rw [h3ne k hk]; exact hm2
        · -- rel
          intro k m m' hk hkr hm hm' hlf
          by_cases hkv : k = v
          · subst hkv
            rw [hv] at hm; cases hm
            rw [IH.frame k hvr, h3v] at hm'
            have hbs : n.back.isSome = true := by
              simp only [Node.isLeaf] at hlf
              cases h : n.back <;> simp_all
            have hgn := hgs hbs
            simp only [Option.some.injEq] at hm'
            subst hm'
            have hrc : relCond root rA k n = (!n.retain && !rA) := by simp [relCond, hkr, hlf]
            rw [hrc]
            cases n.retain <;> cases rA <;> simp [hgn]
          · have hkr' : k ∈ rest := by
              rcases List.mem_cons.mp hk with h | h
              · exact absurd h hkv
              · exact h
            obtain ⟨m2, hm2, hst⟩ := hacc.skel.get hm
            have := IH.rel k m2 m' hkr' hkr (by rw [h3ne k hkv]; exact hm2) hm'
              (by rw [isLeaf_of_strip hst]; exact hlf)
            rw [this, ((strip_eq_iff _ _).mp hst).2.2.2.1]
        · -- trace
          obtain ⟨ev3, hev3, hlen3, hc1, hc0⟩ := IH.trace
          rw [relStep_trace] at hev3
          simp only at hev3
          refine ⟨(if n.back.isSome then [TrEv.call v] else []) ++
            (if relCond root rA v n then [TrEv.release v] else []) ++ ev3, ?_, ?_, ?_, ?_⟩
          · rw [hev3, htr2]; simp
          · simp only [List.length_append, List.length_cons]
            have : (if n.back.isSome then [TrEv.call v] else []).length ≤ 1 := by split <;> simp
            have : (if relCond root rA v n then [TrEv.release v] else []).length ≤ 1 := by split <;> simp
            omega
          · intro w m hw hm hbm
            have hrel0 : (if relCond root rA v n then [TrEv.release v] else []).count (TrEv.call w) = 0 := by
              split <;> simp
            rw [List.count_append, List.count_append, hrel0]
            by_cases hwv : w = v
            · subst hwv
              rw [hv] at hm; cases hm
              rw [hc0 w (Or.inl hvr)]
              simp [hbm]
            · have hwr : w ∈ rest := by
                rcases List.mem_cons.mp hw with h | h
                · exact absurd h hwv
                · exact h
              obtain ⟨m3, hm3, hst⟩ := hsk3.get hm
              rw [hc1 w m3 hwr hm3 (by rw [((strip_eq_iff _ _).mp hst).2.2.1]; exact hbm)]
              have : (if n.back.isSome then [TrEv.call v] else []).count (TrEv.call w) = 0 := by
                split <;> simp [Ne.symm hwv]
              omega
          · intro w hw
            have hrel0 : (if relCond root rA v n then [TrEv.release v] else []).count (TrEv.call w) = 0 := by
              split <;> simp
            rw [List.count_append, List.count_append, hrel0]
            have h3 : ev3.count (TrEv.call w) = 0 := by
              apply hc0
              rcases hw with h | h
              · exact Or.inl (fun e => h (List.mem_cons_of_mem _ e))
              · right
                intro m3 hm3
                obtain ⟨m, hm, hst⟩ := hsk3.symm.get hm3
                rw [← ((strip_eq_iff _ _).mp hst).2.2.1]; exact h m hm
            have h1 : (if n.back.isSome then [TrEv.call v] else []).count (TrEv.call w) = 0 := by
              by_cases hwv : w = v
              · subst hwv
                rcases hw with h | h
                · exact absurd List.mem_cons_self h
                · simp [h n hv]
              · split <;> simp [Ne.symm hwv]
            omega

theorem sweep_succ (root : Nat) (rA : Bool) (ch : Nat → List Nat) (ns0 : Graph G)
    (hbt : ∀ (v : Nat) (n : Node G) (f : G → Option (List (Option G))) (γ : G),
      ns0[v]? = some n → n.back = some f → ∃ l, f γ = some l)
    (hq : ∀ (v : Nat) (n : Node G), ns0[v]? = some n → n.back.isSome = true → n.reqGrad = true) :
    ∀ (L : List Nat) (ns : Graph G) (tr : List TrEv),
      Topo ch L → Skel ns0 ns → (∀ v, chOf ns v = ch v) →
      (∀ x ∈ L, ∃ n, ns[x]? = some n ∧ (n.reqGrad = true → n.grad.isSome = true)) →
      ∃ res, sweep root rA L ns tr = some res := by
  intro L
  induction L with
  | nil => intro ns tr _ _ _ _; exact ⟨_, sweep_nil _ _ _ _⟩
  | cons v rest ih =>
    intro ns tr htopo hs hch hpre
    obtain ⟨hvr, hchr, htopo'⟩ := htopo
    obtain ⟨n, hv, hgv⟩ := hpre v List.mem_cons_self
    obtain ⟨n0, hn0, hst0⟩ := hs.symm.get hv
    have hnch : n.children = ch v := by rw [← hch v]; simp [chOf, hv]
    have hback : n0.back = n.back := ((strip_eq_iff _ _).mp hst0).2.2.1
    have hreq : n0.reqGrad = n.reqGrad := ((strip_eq_iff _ _).mp hst0).2.1
    obtain ⟨p, hb⟩ := back_succ (ns := ns) (v := v) (n := n) (tr := tr)
      (fun h => hgv (hreq ▸ hq v n0 hn0 (hback ▸ h)))
      (fun f γ hf => hbt v n0 f γ hn0 (hback ▸ hf))
      (fun c hc => hpre c (List.mem_cons_of_mem _ (hchr c (hnch ▸ hc))))
    obtain ⟨ns2, tr2⟩ := p
    obtain ⟨hacc, _, _⟩ := back_spec hb
    rw [sweep_cons]
    simp only [hv, hb]
    have hsk3 : Skel ns (relStep root rA v n (ns2, tr2)).1 := hacc.skel.trans (relStep_skel root rA v n (ns2, tr2))
    apply ih _ _ htopo' (hs.trans hsk3) (fun u => by rw [← chOf_skel hsk3 u]; exact hch u)
    intro x hx
    have hxv : x ≠ v := fun e => hvr (e ▸ hx)
    obtain ⟨m, hm, hgm⟩ := hpre x (List.mem_cons_of_mem _ hx)
    obtain ⟨m2, hm2, hst⟩ := hacc.skel.get hm
    refine ⟨m2, by rw [relStep_ne _ _ _ _ _ x hxv]; exact hm2, fun hr => ?_⟩
    exact hacc.keep x m m2 hm hm2 (hgm (((strip_eq_iff _ _).mp hst).2.1 ▸ hr))

theorem sweep_sim (root : Nat) (rA : Bool) (ch : Nat → List Nat) :
    ∀ (L : List Nat) (a b : Graph G) (tr : List TrEv),
      Topo ch L → (∀ v, chOf a v = ch v) → (∀ k ∈ L, a[k]? = b[k]?) →
      (sweep root rA L a tr).isSome = (sweep root rA L b tr).isSome ∧
      ∀ a' ta b' tb, sweep root rA L a tr = some (a', ta) → sweep root rA L b tr = some (b', tb) →
        ta = tb ∧ ∀ k : Nat, a[k]? = b[k]? → a'[k]? = b'[k]? := by
  intro L
  induction L with
  | nil =>
    intro a b tr _ _ _
    simp only [sweep_nil]
    refine ⟨rfl, ?_⟩
    intro a' ta b' tb ha hb
    cases ha; cases hb
    exact ⟨rfl, fun k hk => hk⟩
  | cons v rest ih =>
    intro a b tr htopo hch hab
    obtain ⟨hvr, hchr, htopo'⟩ := htopo
    rw [sweep_cons, sweep_cons, ← hab v List.mem_cons_self]
    cases hv : a[v]? with
    | none => exact ⟨rfl, fun a' ta b' tb ha => by cases ha⟩
    | some n =>
      simp only
      have hnch : n.children = ch v := by rw [← hch v]; simp [chOf, hv]
      obtain ⟨hs1, hs2⟩ := back_sim (a := a) (b := b) (v := v) (n := n) (tr := tr)
        (fun c hc => hab c (List.mem_cons_of_mem _ (hchr c (hnch ▸ hc))))
      cases hba : backStep a v n tr with
      | none =>
        rw [hba] at hs1
        cases hbb : backStep b v n tr with
        | none => exact ⟨rfl, fun a' ta b' tb ha => by cases ha⟩
        | some pb => rw [hbb] at hs1; cases hs1
      | some pa =>
        rw [hba] at hs1
        cases hbb : backStep b v n tr with
        | none => rw [hbb] at hs1; cases hs1
        | some pb =>
          simp only
          obtain ⟨htr, hpt⟩ := hs2 pa pb hba hbb
          obtain ⟨a2, ta2⟩ := pa
          obtain ⟨b2, tb2⟩ := pb
          simp only at htr hpt
          subst htr
          obtain ⟨hacc, _, _⟩ := back_spec hba
          have hsk3 : Skel a (relStep root rA v n (a2, ta2)).1 := hacc.skel.trans (relStep_skel root rA v n (a2, ta2))
          have hpt3 : ∀ k : Nat, a[k]? = b[k]? →
              (relStep root rA v n (a2, ta2)).1[k]? = (relStep root rA v n (b2, ta2)).1[k]? := by
            intro k hk
            by_cases hkv : k = v
            · subst hkv; rw [relStep_self, relStep_self]; simp only; rw [hpt k hk]
            · rw [relStep_ne _ _ _ _ _ k hkv, relStep_ne _ _ _ _ _ k hkv]; exact hpt k hk
          have htr3 : (relStep root rA v n (a2, ta2)).2 = (relStep root rA v n (b2, ta2)).2 := by
            rw [relStep_trace, relStep_trace]
          rw [htr3]
          obtain ⟨i1, i2⟩ := ih (relStep root rA v n (a2, ta2)).1 (relStep root rA v n (b2, ta2)).1
            (relStep root rA v n (b2, ta2)).2 htopo' (fun u => by rw [← chOf_skel hsk3 u]; exact hch u)
            (fun k hk => hpt3 k (hab k (List.mem_cons_of_mem _ hk)))
          refine ⟨i1, ?_⟩
          intro a' ta b' tb ha hb
          obtain ⟨j1, j2⟩ := i2 a' ta b' tb ha hb
          exact ⟨j1, fun k hk => j2 k (hpt3 k hk)⟩

end Proofs.Engine
