import Proofs.VJPDefs
import Proofs.AdjointGeneral
import Proofs.ConvToolsLemmas
import Mathlib.Analysis.SpecialFunctions.ExpDeriv
import Mathlib.Analysis.SpecialFunctions.Log.Deriv
import Mathlib.Analysis.Calculus.Deriv.Add
import Mathlib.Analysis.Calculus.Deriv.Mul
import Mathlib.Analysis.Calculus.Deriv.Inv
import Mathlib.Algebra.BigOperators.Group.Finset.Sigma
import Mathlib.Algebra.BigOperators.Ring.Finset
import Mathlib.Algebra.Order.BigOperators.Ring.Finset
import Mathlib.Tactic.Ring
import Mathlib.Tactic.FieldSimp
/-!
# Helper lemmas for the VJP of softmax / log_softmax / cross-entropy

Index facts about fibres `i.set ax t`, the exchange of "sum over all indices of a fibre sum",
the line `a + t·v` read through `get`, derivatives of list sums, and the scalar derivative of one
softmax / log-softmax entry along a line.
-/
namespace Proofs.NL
open Synap Synap.NDArray Synap.Np Synap.Kernels Proofs.Core Proofs.Calc Proofs.Adjoint

/-! ### fibres -/

theorem sm_valid_set (s : Shape) (i : Idx) (ax t : Nat) (hi : validIdx s i) (ht : t < s.getD ax 0) :
    validIdx s (i.set ax t) := by
  rw [validIdx_iff_getD] at hi ⊢
  obtain ⟨hl, h⟩ := hi
  refine ⟨by simp [hl], fun k hk => ?_⟩
  by_cases hka : ax = k
  · subst hka
    rw [List.getD_eq_getElem?_getD, List.getElem?_set_self (by omega)]
    simpa using ht
  · rw [List.getD_eq_getElem?_getD, List.getElem?_set_ne hka, ← List.getD_eq_getElem?_getD]
    exact h k hk

theorem sm_getD_lt (s : Shape) (i : Idx) (ax : Nat) (hi : validIdx s i) (hax : ax < s.length) :
    i.getD ax 0 < s.getD ax 0 :=
  ((validIdx_iff_getD s i).1 hi).2 ax hax

theorem sm_set_getD (i : Idx) (ax : Nat) : i.set ax (i.getD ax 0) = i := by
  apply List.ext_getElem?
  intro k
  by_cases hka : ax = k
  · subst hka
    by_cases hl : ax < i.length
    · rw [List.getElem?_set_self hl, List.getD_eq_getElem?_getD, List.getElem?_eq_getElem hl]
      simp
    · rw [List.set_eq_of_length_le (by omega)]
  · rw [List.getElem?_set_ne hka]

theorem sm_getD_set (i : Idx) (ax t : Nat) (hl : ax < i.length) : (i.set ax t).getD ax 0 = t := by
  rw [List.getD_eq_getElem?_getD, List.getElem?_set_self hl]
  rfl

theorem sm_fibreSum_eq (f : Idx → ℝ) (s : Shape) (ax : Nat) (i : Idx) :
    fibreSum f s ax i = ∑ t ∈ Finset.range (s.getD ax 0), f (i.set ax t) := by
  unfold fibreSum
  rw [Proofs.ConvTools.sum_map_range]

theorem sm_fibreMax_set (a : NDArray ℝ) (ax : Nat) (i : Idx) (t : Nat) :
    fibreMax a ax (i.set ax t) = fibreMax a ax i := by
  unfold fibreMax
  simp only [List.set_set]

/-- **exchange**: `Σ_i f_i · Σ_{j ∈ fibre i} h_j = Σ_i h_i · Σ_{j ∈ fibre i} f_j` -/
theorem sm_exchange (s : Shape) (ax : Nat) (hax : ax < s.length) (f h : Idx → ℝ) :
    ∑ i ∈ (allIdx s).toFinset, f i * ∑ t ∈ Finset.range (s.getD ax 0), h (i.set ax t)
      = ∑ i ∈ (allIdx s).toFinset, h i * ∑ t ∈ Finset.range (s.getD ax 0), f (i.set ax t) := by
  simp only [Finset.mul_sum]
  rw [← Finset.sum_product', ← Finset.sum_product']
  have hmaps : ∀ p ∈ (allIdx s).toFinset ×ˢ Finset.range (s.getD ax 0),
      (p.1.set ax p.2, p.1.getD ax 0) ∈ (allIdx s).toFinset ×ˢ Finset.range (s.getD ax 0) := by
    intro p hp
    rw [Finset.mem_product, List.mem_toFinset, mem_allIdx, Finset.mem_range] at hp ⊢
    exact ⟨sm_valid_set s p.1 ax p.2 hp.1 hp.2, sm_getD_lt s p.1 ax hp.1 hax⟩
  have hinv : ∀ p ∈ (allIdx s).toFinset ×ˢ Finset.range (s.getD ax 0),
      ((p.1.set ax p.2).set ax (p.1.getD ax 0), (p.1.set ax p.2).getD ax 0) = p := by
    intro p hp
    rw [Finset.mem_product, List.mem_toFinset, mem_allIdx] at hp
    have hl : ax < p.1.length := by rw [validIdx_length s p.1 hp.1]; exact hax
    rw [List.set_set, sm_set_getD, sm_getD_set _ _ _ hl]
  refine Finset.sum_nbij' (fun p => (p.1.set ax p.2, p.1.getD ax 0))
    (fun p => (p.1.set ax p.2, p.1.getD ax 0)) hmaps hmaps hinv hinv ?_
  intro p _
  simp only [List.set_set, sm_set_getD]
  ring

/-! ### the line `a + t·v` -/

theorem sm_line_shape (a v : NDArray ℝ) (t : ℝ) : (line a v t).shape = a.shape := rfl

theorem sm_line_wf (a v : NDArray ℝ) (t : ℝ) (ha : a.WF) (hv : v.WF) (hs : v.shape = a.shape) :
    (line a v t).WF := zipSame_wf _ _ _ ha hv hs.symm

theorem sm_line_get (a v : NDArray ℝ) (t : ℝ) (ha : a.WF) (hv : v.WF) (hs : v.shape = a.shape)
    (i : Idx) (hi : validIdx a.shape i) : (line a v t).get i = a.get i + t * v.get i :=
  get_zipSame _ _ _ ha hv hs.symm i hi

/-! ### derivative of a list sum -/

theorem sm_hasDerivAt_list_sum {ι : Type} (l : List ι) (f : ι → ℝ → ℝ) (f' : ι → ℝ) (x : ℝ)
    (h : ∀ i ∈ l, HasDerivAt (f i) (f' i) x) :
    HasDerivAt (fun t => (l.map (fun i => f i t)).sum) (l.map f').sum x := by
  induction l with
  | nil => simpa using hasDerivAt_const x (0 : ℝ)
  | cons a l ih =>
    simp only [List.map_cons, List.sum_cons]
    exact (h a List.mem_cons_self).fun_add (ih (fun i hi => h i (List.mem_cons_of_mem _ hi)))

/-! ### scalar derivatives along the line -/

theorem sm_hasDerivAt_exp_lin (c w : ℝ) : HasDerivAt (fun t : ℝ => Real.exp (c + t * w)) (w * Real.exp c) 0 := by
  have h1 : HasDerivAt (fun t : ℝ => c + t * w) w 0 := by
    simpa using ((hasDerivAt_id (0 : ℝ)).mul_const w).const_add c
  have h2 := h1.exp
  simpa [mul_comm] using h2

theorem sm_hasDerivAt_sumexp (n : Nat) (c w : Nat → ℝ) :
    HasDerivAt (fun t : ℝ => ∑ k ∈ Finset.range n, Real.exp (c k + t * w k))
      (∑ k ∈ Finset.range n, w k * Real.exp (c k)) 0 :=
  HasDerivAt.fun_sum (fun k _ => sm_hasDerivAt_exp_lin (c k) (w k))

theorem sm_sumexp_pos (n : Nat) (hn : n ≠ 0) (c : Nat → ℝ) : 0 < ∑ k ∈ Finset.range n, Real.exp (c k) :=
  Finset.sum_pos (fun _ _ => Real.exp_pos _) (Finset.nonempty_range_iff.2 hn)

/-- one softmax entry along the line -/
theorem sm_hasDerivAt_softmax_entry (n : Nat) (hn : n ≠ 0) (c w : Nat → ℝ) (c0 w0 : ℝ) :
    HasDerivAt (fun t : ℝ => Real.exp (c0 + t * w0) / ∑ k ∈ Finset.range n, Real.exp (c k + t * w k))
      (Real.exp c0 / (∑ k ∈ Finset.range n, Real.exp (c k)) *
        (w0 - ∑ k ∈ Finset.range n, w k * (Real.exp (c k) / ∑ k ∈ Finset.range n, Real.exp (c k)))) 0 := by
  have hS : 0 < ∑ k ∈ Finset.range n, Real.exp (c k) := sm_sumexp_pos n hn c
  have hD := sm_hasDerivAt_sumexp n c w
  have hN := sm_hasDerivAt_exp_lin c0 w0
  have hne : (∑ k ∈ Finset.range n, Real.exp (c k + 0 * w k)) ≠ 0 := by
    simpa using hS.ne'
  have h := hN.fun_div hD hne
  refine h.congr_deriv ?_
  simp only [zero_mul, add_zero]
  have hW : ∑ k ∈ Finset.range n, w k * (Real.exp (c k) / ∑ k ∈ Finset.range n, Real.exp (c k))
      = (∑ k ∈ Finset.range n, w k * Real.exp (c k)) / ∑ k ∈ Finset.range n, Real.exp (c k) := by
    rw [Finset.sum_div]
    exact Finset.sum_congr rfl (fun k _ => by rw [mul_div_assoc])
  rw [hW]
  generalize (∑ k ∈ Finset.range n, w k * Real.exp (c k)) = W
  generalize (∑ k ∈ Finset.range n, Real.exp (c k)) = S at hS ⊢
  field_simp

/-- one log-softmax entry along the line -/
theorem sm_hasDerivAt_logsoftmax_entry (n : Nat) (hn : n ≠ 0) (c w : Nat → ℝ) (c0 w0 : ℝ) :
    HasDerivAt (fun t : ℝ => c0 + t * w0 - Real.log (∑ k ∈ Finset.range n, Real.exp (c k + t * w k)))
      (w0 - ∑ k ∈ Finset.range n, w k * (Real.exp (c k) / ∑ k ∈ Finset.range n, Real.exp (c k))) 0 := by
  have hS : 0 < ∑ k ∈ Finset.range n, Real.exp (c k) := sm_sumexp_pos n hn c
  have hD := sm_hasDerivAt_sumexp n c w
  have hne : (∑ k ∈ Finset.range n, Real.exp (c k + 0 * w k)) ≠ 0 := by
    simpa using hS.ne'
  have h1 : HasDerivAt (fun t : ℝ => c0 + t * w0) w0 0 := by
    simpa using ((hasDerivAt_id (0 : ℝ)).mul_const w0).const_add c0
  have h := h1.fun_sub (hD.log hne)
  refine h.congr_deriv ?_
  simp only [zero_mul, add_zero]
  rw [Finset.sum_div]
  congr 1
  exact Finset.sum_congr rfl (fun k _ => by rw [mul_div_assoc])

/-! ### the softmax family as index functions -/

/-- `Σ_{j ∈ fibre i} exp x_j` -/
noncomputable def sm_S (x : Idx → ℝ) (n ax : Nat) (i : Idx) : ℝ :=
  ∑ k ∈ Finset.range n, Real.exp (x (i.set ax k))
/-- the mathematical softmax -/
noncomputable def sm_sig (x : Idx → ℝ) (n ax : Nat) (i : Idx) : ℝ := Real.exp (x i) / sm_S x n ax i
/-- the mathematical log-softmax -/
noncomputable def sm_ls (x : Idx → ℝ) (n ax : Nat) (i : Idx) : ℝ := x i - Real.log (sm_S x n ax i)

theorem sm_S_set (x : Idx → ℝ) (n ax : Nat) (i : Idx) (t : Nat) : sm_S x n ax (i.set ax t) = sm_S x n ax i := by
  unfold sm_S
  simp only [List.set_set]

theorem sm_S_pos (x : Idx → ℝ) (n ax : Nat) (i : Idx) (hn : n ≠ 0) : 0 < sm_S x n ax i :=
  sm_sumexp_pos n hn _

theorem sm_S_congr (sh : Shape) (x x' : Idx → ℝ) (ax : Nat) (i : Idx) (hi : validIdx sh i)
    (h : ∀ j, validIdx sh j → x j = x' j) : sm_S x (sh.getD ax 0) ax i = sm_S x' (sh.getD ax 0) ax i := by
  unfold sm_S
  apply Finset.sum_congr rfl
  intro k hk
  rw [h _ (sm_valid_set sh i ax k hi (Finset.mem_range.1 hk))]

theorem sm_sig_congr (sh : Shape) (x x' : Idx → ℝ) (ax : Nat) (i : Idx) (hi : validIdx sh i)
    (h : ∀ j, validIdx sh j → x j = x' j) : sm_sig x (sh.getD ax 0) ax i = sm_sig x' (sh.getD ax 0) ax i := by
  unfold sm_sig
  rw [sm_S_congr sh x x' ax i hi h, h i hi]

theorem sm_ls_congr (sh : Shape) (x x' : Idx → ℝ) (ax : Nat) (i : Idx) (hi : validIdx sh i)
    (h : ∀ j, validIdx sh j → x j = x' j) : sm_ls x (sh.getD ax 0) ax i = sm_ls x' (sh.getD ax 0) ax i := by
  unfold sm_ls
  rw [sm_S_congr sh x x' ax i hi h, h i hi]

theorem sm_fibreSum_congr (sh : Shape) (f f' : Idx → ℝ) (ax : Nat) (i : Idx) (hi : validIdx sh i)
    (h : ∀ j, validIdx sh j → f j = f' j) : fibreSum f sh ax i = fibreSum f' sh ax i := by
  rw [sm_fibreSum_eq, sm_fibreSum_eq]
  apply Finset.sum_congr rfl
  intro k hk
  rw [h _ (sm_valid_set sh i ax k hi (Finset.mem_range.1 hk))]

theorem sm_exp_ls (x : Idx → ℝ) (n ax : Nat) (i : Idx) (hn : n ≠ 0) :
    Real.exp (sm_ls x n ax i) = sm_sig x n ax i := by
  unfold sm_ls sm_sig
  rw [Real.exp_sub, Real.exp_log (sm_S_pos x n ax i hn)]

theorem sm_sum_exp_shift (n : Nat) (y : Nat → ℝ) (m : ℝ) :
    ∑ k ∈ Finset.range n, Real.exp (y k - m) = (∑ k ∈ Finset.range n, Real.exp (y k)) / Real.exp m := by
  rw [Finset.sum_div]
  exact Finset.sum_congr rfl (fun k _ => Real.exp_sub _ _)

/-- the max-shifted quotient the kernel evaluates is the mathematical softmax -/
theorem sm_softmax_fn (x : NDArray ℝ) (ax : Nat) (i : Idx) :
    Transc.exp (x.get i - fibreMax x ax i) /
        fibreSum (fun j => Transc.exp (x.get j - fibreMax x ax j)) x.shape ax i
      = sm_sig x.get (x.shape.getD ax 0) ax i := by
  rw [sm_fibreSum_eq]
  simp only [sm_fibreMax_set]
  show Real.exp _ / ∑ k ∈ _, Real.exp _ = _
  rw [sm_sum_exp_shift, Real.exp_sub]
  unfold sm_sig sm_S
  exact div_div_div_cancel_right₀ (Real.exp_ne_zero _) _ _

/-- the max-shifted log-sum-exp the kernel evaluates is the mathematical log-softmax -/
theorem sm_logsoftmax_fn (x : NDArray ℝ) (ax : Nat) (i : Idx) (hn : x.shape.getD ax 0 ≠ 0) :
    x.get i - (fibreMax x ax i +
        Transc.log (fibreSum (fun j => Transc.exp (x.get j - fibreMax x ax i)) x.shape ax i))
      = sm_ls x.get (x.shape.getD ax 0) ax i := by
  rw [sm_fibreSum_eq]
  show _ - (_ + Real.log (∑ k ∈ _, Real.exp _)) = _
  rw [sm_sum_exp_shift]
  have hS := sm_S_pos x.get (x.shape.getD ax 0) ax i hn
  unfold sm_ls
  unfold sm_S at hS ⊢
  rw [Real.log_div hS.ne' (Real.exp_ne_zero _), Real.log_exp]
  ring

/-! ### the 0-d branch (`dim` 0 / −1 on a 0-d operand) against the general branch -/

theorem sm_not_zeroDim_of_normAxis {s : Shape} {axis : Int} {ax : Nat}
    (hax : normAxis s.length axis = some ax) : ¬ zeroDimAxis s axis := by
  rintro ⟨hs, -⟩
  have := Proofs.Adjoint.normAxis_lt hax
  simp [hs] at this

theorem sm_not_zeroDim_of_length {s : Shape} {axis : Int} (h : s.length ≠ 0) : ¬ zeroDimAxis s axis := by
  rintro ⟨hs, -⟩
  simp [hs] at h

theorem sm_not_zeroDim_one (s : Shape) : ¬ zeroDimAxis s 1 := by
  rintro ⟨-, h | h⟩ <;> omega

theorem sm_softmaxForward_eq (x : NDArray ℝ) (axis : Int) (ax : Nat)
    (hax : normAxis x.shape.length axis = some ax) (hn : x.shape.getD ax 0 ≠ 0) :
    softmaxForward x axis = some (ofFn x.shape (sm_sig x.get (x.shape.getD ax 0) ax)) := by
  simp only [softmaxForward, if_neg (sm_not_zeroDim_of_normAxis hax), hax]
  simp only [Option.bind_eq_bind, Option.bind_some, Option.pure_def]
  rw [if_neg hn]
  exact congrArg (fun f => some (ofFn x.shape f)) (funext fun i => sm_softmax_fn x ax i)

theorem sm_logSoftmaxForward_eq (x : NDArray ℝ) (axis : Int) (ax : Nat)
    (hax : normAxis x.shape.length axis = some ax) (hn : x.shape.getD ax 0 ≠ 0) :
    logSoftmaxForward x axis = some (ofFn x.shape (sm_ls x.get (x.shape.getD ax 0) ax)) := by
  simp only [logSoftmaxForward, if_neg (sm_not_zeroDim_of_normAxis hax), hax]
  simp only [Option.bind_eq_bind, Option.bind_some, Option.pure_def]
  rw [if_neg hn]
  exact congrArg (fun f => some (ofFn x.shape f)) (funext fun i => sm_logsoftmax_fn x ax i hn)

/-- 0-d operand, `dim` 0 / −1: `exp(x − x) / exp(x − x) = 1` -/
theorem sm_softmaxForward_zero (x : NDArray ℝ) (axis : Int) (h0 : zeroDimAxis x.shape axis) :
    softmaxForward x axis = some (ofFn [] (fun _ => (1 : ℝ))) := by
  simp only [softmaxForward, if_pos h0]
  exact congrArg (fun f => some (ofFn [] f)) (funext fun _ => div_self (Real.exp_ne_zero _))

/-- 0-d operand, `dim` 0 / −1: `x − (x + log (exp (x − x))) = 0` -/
theorem sm_logSoftmaxForward_zero (x : NDArray ℝ) (axis : Int) (h0 : zeroDimAxis x.shape axis) :
    logSoftmaxForward x axis = some (ofFn [] (fun _ => (0 : ℝ))) := by
  simp only [logSoftmaxForward, if_pos h0]
  refine congrArg (fun f => some (ofFn [] f)) (funext fun _ => ?_)
  show x.get [] - (x.get [] + Real.log (Real.exp (x.get [] - x.get []))) = 0
  rw [Real.log_exp]
  ring

theorem sm_softmaxBackward_zero (g s : NDArray ℝ) (axis : Int) (h0 : zeroDimAxis s.shape axis) :
    softmaxBackward g s axis = some (ofFn [] (fun _ => s.get [] * (g.get [] - g.get [] * s.get []))) := by
  simp only [softmaxBackward, if_pos h0]

theorem sm_logSoftmaxBackward_zero (g ls : NDArray ℝ) (axis : Int) (h0 : zeroDimAxis ls.shape axis) :
    logSoftmaxBackward g ls axis = some (ofFn [] (fun _ => g.get [] - Real.exp (ls.get []) * g.get [])) := by
  simp only [logSoftmaxBackward, if_pos h0]
  rfl

/-- **softmax of a 0-d operand along dim 0 / −1 is `1`** (`exp(x − x) / exp(x − x)`; shape `()`) -/
theorem softmax_zero_dim (x : NDArray ℝ) (hs : x.shape = []) (d : Int) (hd : d = 0 ∨ d = -1) :
    softmaxForward x d = some ⟨[], [1]⟩ := sm_softmaxForward_zero x d ⟨hs, hd⟩

/-- **log_softmax of a 0-d operand along dim 0 / −1 is `0`** (`x − (x + log (exp (x − x)))`; shape `()`) -/
theorem log_softmax_zero_dim (x : NDArray ℝ) (hs : x.shape = []) (d : Int) (hd : d = 0 ∨ d = -1) :
    logSoftmaxForward x d = some ⟨[], [0]⟩ := sm_logSoftmaxForward_zero x d ⟨hs, hd⟩

/-- the backward kernel on a 0-d saved output `s`: `s·(g − g·s)` … -/
theorem softmax_zero_dim_backward (g s : NDArray ℝ) (hs : s.shape = []) (d : Int) (hd : d = 0 ∨ d = -1) :
    softmaxBackward g s d = some ⟨[], [s.get [] * (g.get [] - g.get [] * s.get [])]⟩ :=
  sm_softmaxBackward_zero g s d ⟨hs, hd⟩

/-- … which, at the saved output of the forward (`s = 1`), is `0` for EVERY upstream gradient -/
theorem softmax_zero_dim_grad (x s g : NDArray ℝ) (hs : x.shape = []) (d : Int) (hd : d = 0 ∨ d = -1)
    (h : softmaxForward x d = some s) : softmaxBackward g s d = some ⟨[], [0]⟩ := by
  rw [softmax_zero_dim x hs d hd] at h
  obtain rfl := Option.some.inj h
  rw [softmax_zero_dim_backward g _ rfl d hd]
  have h1 : (⟨[], [1]⟩ : NDArray ℝ).get [] = 1 := rfl
  rw [h1]
  congr 3
  ring

/-- the backward kernel on a 0-d saved output `ls`: `g − exp(ls)·g` … -/
theorem log_softmax_zero_dim_backward (g ls : NDArray ℝ) (hs : ls.shape = []) (d : Int) (hd : d = 0 ∨ d = -1) :
    logSoftmaxBackward g ls d = some ⟨[], [g.get [] - Real.exp (ls.get []) * g.get []]⟩ :=
  sm_logSoftmaxBackward_zero g ls d ⟨hs, hd⟩

/-- … which, at the saved output of the forward (`ls = 0`), is `0` for EVERY upstream gradient -/
theorem log_softmax_zero_dim_grad (x ls g : NDArray ℝ) (hs : x.shape = []) (d : Int) (hd : d = 0 ∨ d = -1)
    (h : logSoftmaxForward x d = some ls) : logSoftmaxBackward g ls d = some ⟨[], [0]⟩ := by
  rw [log_softmax_zero_dim x hs d hd] at h
  obtain rfl := Option.some.inj h
  rw [log_softmax_zero_dim_backward g _ rfl d hd]
  have h1 : (⟨[], [0]⟩ : NDArray ℝ).get [] = 0 := rfl
  rw [h1, Real.exp_zero]
  congr 3
  ring

/-- an accepted call that is not the 0-d case: `dim` normalises to a non-empty axis -/
theorem sm_softmaxForward_some (a s : NDArray ℝ) (axis : Int) (h0 : ¬ zeroDimAxis a.shape axis)
    (h : softmaxForward a axis = some s) :
    ∃ ax, normAxis a.shape.length axis = some ax ∧ a.shape.getD ax 0 ≠ 0 := by
  unfold softmaxForward at h
  rw [if_neg h0] at h
  cases hax : normAxis a.shape.length axis with
  | none => simp [hax] at h
  | some ax =>
    refine ⟨ax, rfl, fun hn => ?_⟩
    simp [hax] at h
    exact h.1 (by simpa [List.getD_eq_getElem?_getD] using hn)

theorem sm_logSoftmaxForward_some (a s : NDArray ℝ) (axis : Int) (h0 : ¬ zeroDimAxis a.shape axis)
    (h : logSoftmaxForward a axis = some s) :
    ∃ ax, normAxis a.shape.length axis = some ax ∧ a.shape.getD ax 0 ≠ 0 := by
  unfold logSoftmaxForward at h
  rw [if_neg h0] at h
  cases hax : normAxis a.shape.length axis with
  | none => simp [hax] at h
  | some ax =>
    refine ⟨ax, rfl, fun hn => ?_⟩
    simp [hax] at h
    exact h.1 (by simpa [List.getD_eq_getElem?_getD] using hn)

/-! ### one entry along the line, as index functions -/

theorem sm_hasDerivAt_sig (a v : Idx → ℝ) (n ax : Nat) (i : Idx) (hn : n ≠ 0) :
    HasDerivAt (fun t : ℝ => sm_sig (fun j => a j + t * v j) n ax i)
      (sm_sig a n ax i * (v i - ∑ k ∈ Finset.range n, v (i.set ax k) * sm_sig a n ax (i.set ax k))) 0 := by
  unfold sm_sig
  simp only [sm_S_set]
  unfold sm_S
  exact sm_hasDerivAt_softmax_entry n hn (fun k => a (i.set ax k)) (fun k => v (i.set ax k)) (a i) (v i)

theorem sm_hasDerivAt_ls (a v : Idx → ℝ) (n ax : Nat) (i : Idx) (hn : n ≠ 0) :
    HasDerivAt (fun t : ℝ => sm_ls (fun j => a j + t * v j) n ax i)
      (v i - ∑ k ∈ Finset.range n, v (i.set ax k) * sm_sig a n ax (i.set ax k)) 0 := by
  unfold sm_ls sm_sig
  simp only [sm_S_set]
  unfold sm_S
  exact sm_hasDerivAt_logsoftmax_entry n hn (fun k => a (i.set ax k)) (fun k => v (i.set ax k)) (a i) (v i)

/-! ### rearranging the derivative into `⟪v, b⟫` -/

theorem sm_softmax_final (sh : Shape) (ax : Nat) (hax : ax < sh.length) (σ v g : Idx → ℝ) :
    ((allIdx sh).map (fun i => v i * (σ i * (g i - fibreSum (fun j => g j * σ j) sh ax i)))).sum
      = ((allIdx sh).map (fun i =>
          σ i * (v i - ∑ k ∈ Finset.range (sh.getD ax 0), v (i.set ax k) * σ (i.set ax k)) * g i)).sum := by
  rw [← List.sum_toFinset _ (allIdx_nodup sh), ← List.sum_toFinset _ (allIdx_nodup sh)]
  simp only [sm_fibreSum_eq]
  have e1 : ∀ i, v i * (σ i * (g i - ∑ t ∈ Finset.range (sh.getD ax 0), g (i.set ax t) * σ (i.set ax t)))
      = v i * σ i * g i - (v i * σ i) * ∑ t ∈ Finset.range (sh.getD ax 0), g (i.set ax t) * σ (i.set ax t) := by
    intro i; ring
  have e2 : ∀ i, σ i * (v i - ∑ k ∈ Finset.range (sh.getD ax 0), v (i.set ax k) * σ (i.set ax k)) * g i
      = v i * σ i * g i - (g i * σ i) * ∑ k ∈ Finset.range (sh.getD ax 0), v (i.set ax k) * σ (i.set ax k) := by
    intro i; ring
  simp only [e1, e2, Finset.sum_sub_distrib]
  rw [sm_exchange sh ax hax (fun i => v i * σ i) (fun i => g i * σ i)]

theorem sm_logsoftmax_final (sh : Shape) (ax : Nat) (hax : ax < sh.length) (σ v g : Idx → ℝ) :
    ((allIdx sh).map (fun i => v i * (g i - σ i * fibreSum g sh ax i))).sum
      = ((allIdx sh).map (fun i =>
          (v i - ∑ k ∈ Finset.range (sh.getD ax 0), v (i.set ax k) * σ (i.set ax k)) * g i)).sum := by
  rw [← List.sum_toFinset _ (allIdx_nodup sh), ← List.sum_toFinset _ (allIdx_nodup sh)]
  simp only [sm_fibreSum_eq]
  have e1 : ∀ i, v i * (g i - σ i * ∑ t ∈ Finset.range (sh.getD ax 0), g (i.set ax t))
      = v i * g i - (v i * σ i) * ∑ t ∈ Finset.range (sh.getD ax 0), g (i.set ax t) := by
    intro i; ring
  have e2 : ∀ i, (v i - ∑ k ∈ Finset.range (sh.getD ax 0), v (i.set ax k) * σ (i.set ax k)) * g i
      = v i * g i - g i * ∑ k ∈ Finset.range (sh.getD ax 0), v (i.set ax k) * σ (i.set ax k) := by
    intro i; ring
  simp only [e1, e2, Finset.sum_sub_distrib]
  rw [sm_exchange sh ax hax (fun i => v i * σ i) g]

/-! ### the NLL gradient read along a class fibre -/

theorem sm_valid2 {N C : Nat} {i : Idx} (h : validIdx [N, C] i) : ∃ p q, i = [p, q] ∧ p < N ∧ q < C := by
  match i, h with
  | [p, q], h => exact ⟨p, q, rfl, h.1, h.2.1⟩

theorem sm_nll_get (g ls : NDArray ℝ) (labels : List Nat) (N C : Nat) (hls : ls.shape = [N, C])
    (p q : Nat) (hp : p < N) (hq : q < C) :
    (nllBackward g ls labels).get [p, q] = g.get [p] * (if labels.getD p 0 = q then -1 else 0) := by
  unfold nllBackward
  rw [get_ofFn _ _ _ (by rw [hls]; exact ⟨hp, hq, trivial⟩)]
  rfl

theorem sm_nll_fibre (g ls : NDArray ℝ) (labels : List Nat) (N C : Nat) (hls : ls.shape = [N, C])
    (p q : Nat) (hp : p < N) (hlab : labels.getD p 0 < C) :
    fibreSum (nllBackward g ls labels).get [N, C] 1 [p, q] = - g.get [p] := by
  rw [sm_fibreSum_eq]
  have hC : ([N, C] : Shape).getD 1 0 = C := rfl
  rw [hC]
  have hset : ∀ k, ([p, q] : Idx).set 1 k = [p, k] := fun k => rfl
  simp only [hset]
  rw [Finset.sum_congr rfl (fun k hk => sm_nll_get g ls labels N C hls p k hp (Finset.mem_range.1 hk)),
    ← Finset.mul_sum, Finset.sum_ite_eq, if_pos (Finset.mem_range.2 hlab)]
  ring

end Proofs.NL
