import SynapModel.EngineStack
import Proofs.EngineBasic
/-!
# Helper material for `Proofs/EngineStack.lean`

* `stk_unwind` : the recursive meaning of a stack of frames (finish the top frame with the body of
  `visit`'s fold, list its node, continue below);
* `stk_visit_fuel` : on graphs whose operands precede results, `visit` does not depend on its fuel
  once the fuel exceeds the node index;
* `stk_pot` : a potential (pending frame entries + cost of unvisited nodes) that every machine turn
  decreases by at least one, and that equals `stackFuel ns - 1` in the initial state;
* `stk_step` : one machine turn preserves the meaning of the stack;
* `stk_run` : `runStack` with fuel at least the potential computes `stk_unwind`.
-/
namespace Proofs.EngineStack
open Synap.Engine Proofs.Engine

variable {G : Type}

theorem stk_zeroCheck_eq (s : DfsSt G) (c : Nat) : zeroCheck s c = enc s c := rfl
theorem stk_childrenOf_eq (ns : Graph G) (v : Nat) : childrenOf ns v = chOf ns v := rfl

/-- the body of `visit`'s fold over a list of children -/
def stk_body (f : Nat) (s : DfsSt G) (cs : List Nat) : DfsSt G :=
  cs.foldl (fun s c => visit f c (enc s c)) s

theorem stk_body_nil (f : Nat) (s : DfsSt G) : stk_body f s [] = s := rfl
theorem stk_body_cons (f : Nat) (s : DfsSt G) (c : Nat) (cs : List Nat) :
    stk_body f s (c :: cs) = stk_body f (visit f c (enc s c)) cs := rfl

theorem stk_body_skel (f : Nat) (cs : List Nat) (s : DfsSt G) : Skel s.ns (stk_body f s cs).ns :=
  fold_skel f (visit_skel f) cs s

/-- recursive meaning of a stack -/
def stk_unwind (f : Nat) : DfsSt G → List Frame → DfsSt G
  | s, [] => s
  | s, fr :: st =>
    stk_unwind f { stk_body f s fr.rest with ordered := (stk_body f s fr.rest).ordered ++ [fr.node] } st

theorem stk_unwind_nil (f : Nat) (s : DfsSt G) : stk_unwind f s [] = s := rfl
theorem stk_unwind_cons (f : Nat) (s : DfsSt G) (v : Nat) (rest : List Nat) (st : List Frame) :
    stk_unwind f s (⟨v, rest⟩ :: st) =
      stk_unwind f { stk_body f s rest with ordered := (stk_body f s rest).ordered ++ [v] } st := rfl

theorem stk_visit_visited (f v : Nat) (s : DfsSt G) (h : s.visited.contains v = true) :
    visit f v s = s := by
  cases f with
  | zero => rfl
  | succ f => rw [visit_succ, if_pos h]

theorem stk_visit_unvisited (f v : Nat) (s : DfsSt G) (h : ¬ (s.visited.contains v = true)) :
    visit (f+1) v s =
      { stk_body f { s with visited := v :: s.visited } (chOf s.ns v) with
        ordered := (stk_body f { s with visited := v :: s.visited } (chOf s.ns v)).ordered ++ [v] } := by
  rw [visit_succ, if_neg h]; rfl

/-! ### fuel irrelevance -/

theorem stk_body_fuel_aux (ns0 : Graph G) (f f' : Nat)
    (IH : ∀ c (t : DfsSt G), c < f → c < f' → Skel ns0 t.ns → visit f c t = visit f' c t) :
    ∀ (cs : List Nat) (t : DfsSt G), (∀ c ∈ cs, c < f ∧ c < f') → Skel ns0 t.ns →
      stk_body f t cs = stk_body f' t cs := by
  intro cs
  induction cs with
  | nil => intros; rfl
  | cons c cs ih =>
    intro t hcs hs
    rw [stk_body_cons, stk_body_cons]
    have hc := hcs c (by simp)
    have hs1 : Skel ns0 (enc t c).ns := hs.trans (enc_skel t c)
    rw [IH c _ hc.1 hc.2 hs1]
    exact ih _ (fun c' h' => hcs c' (by simp [h'])) (hs1.trans (visit_skel f' c _))

theorem stk_visit_fuel (ns0 : Graph G) (hw : ∀ u c, c ∈ chOf ns0 u → c < u) :
    ∀ (f f' v : Nat) (s : DfsSt G), v < f → v < f' → Skel ns0 s.ns → visit f v s = visit f' v s := by
  intro f
  induction f with
  | zero => intros; omega
  | succ f ih =>
    intro f' v s hv hv' hs
    cases f' with
    | zero => omega
    | succ f' =>
      by_cases hvs : s.visited.contains v = true
      · rw [stk_visit_visited _ _ _ hvs, stk_visit_visited _ _ _ hvs]
      · rw [stk_visit_unvisited _ _ _ hvs, stk_visit_unvisited _ _ _ hvs]
        have hch : chOf s.ns v = chOf ns0 v := (chOf_skel hs v).symm
        have := stk_body_fuel_aux ns0 f f' (fun c t h1 h2 hst => ih f' c t h1 h2 hst) (chOf s.ns v)
          { s with visited := v :: s.visited }
          (by rw [hch]; intro c hc; have := hw v c hc; omega) hs
        rw [this]

theorem stk_body_fuel (ns0 : Graph G) (hw : ∀ u c, c ∈ chOf ns0 u → c < u) (f f' : Nat)
    (cs : List Nat) (t : DfsSt G) (hcs : ∀ c ∈ cs, c < f ∧ c < f') (hs : Skel ns0 t.ns) :
    stk_body f t cs = stk_body f' t cs :=
  stk_body_fuel_aux ns0 f f' (fun c t h1 h2 hst => stk_visit_fuel ns0 hw f f' c t h1 h2 hst) cs t hcs hs

/-- unfolding `visit` on an unvisited node, keeping the same fuel for the children -/
theorem stk_visit_unfold (ns0 : Graph G) (hw : ∀ u c, c ∈ chOf ns0 u → c < u) (f v : Nat) (s : DfsSt G)
    (hv : v < f) (hs : Skel ns0 s.ns) (h : ¬ (s.visited.contains v = true)) :
    visit f v s =
      { stk_body f { s with visited := v :: s.visited } (chOf s.ns v) with
        ordered := (stk_body f { s with visited := v :: s.visited } (chOf s.ns v)).ordered ++ [v] } := by
  cases f with
  | zero => omega
  | succ f =>
    rw [stk_visit_unvisited _ _ _ h]
    have hch : chOf s.ns v = chOf ns0 v := (chOf_skel hs v).symm
    have := stk_body_fuel ns0 hw f (f+1) (chOf s.ns v) { s with visited := v :: s.visited }
      (by rw [hch]; intro c hc; have := hw v c hc; omega) hs
    rw [this]

/-! ### the potential -/

/-- cost of the nodes not yet visited: each will be pushed at most once and then costs one turn per
    operand plus the pop -/
def stk_unv : List (Node G) → Nat → List Nat → Nat
  | [], _, _ => 0
  | n :: ns, i, vis => (if i ∈ vis then 0 else n.children.length + 1) + stk_unv ns (i+1) vis

theorem stk_unv_nil_vis (ns : List (Node G)) (i : Nat) :
    stk_unv ns i [] = (ns.map (fun n => n.children.length + 1)).sum := by
  induction ns generalizing i with
  | nil => rfl
  | cons n ns ih => simp [stk_unv, ih]

theorem stk_unv_lt (ns : List (Node G)) (i c : Nat) (vis : List Nat) (h : c < i) :
    stk_unv ns i (c :: vis) = stk_unv ns i vis := by
  induction ns generalizing i with
  | nil => rfl
  | cons n ns ih =>
    have hne : i ≠ c := by omega
    simp only [stk_unv, List.mem_cons, hne, false_or]
    rw [ih (i+1) (by omega)]

theorem stk_unv_push (ns : List (Node G)) (i c : Nat) (vis : List Nat) (node : Node G)
    (hi : i ≤ c) (hn : ns[c - i]? = some node) (hc : c ∉ vis) :
    stk_unv ns i (c :: vis) + (node.children.length + 1) = stk_unv ns i vis := by
  induction ns generalizing i with
  | nil => simp at hn
  | cons n ns ih =>
    by_cases hic : i = c
    · subst hic
      simp only [Nat.sub_self, List.getElem?_cons_zero, Option.some.injEq] at hn
      subst hn
      simp only [stk_unv, List.mem_cons, true_or, if_true, hc, if_false]
      rw [stk_unv_lt ns (i+1) i vis (by omega)]
      omega
    · have hlt : i < c := by omega
      have hsub : c - i = (c - (i+1)) + 1 := by omega
      rw [hsub, List.getElem?_cons_succ] at hn
      have := ih (i+1) (by omega) hn
      simp only [stk_unv, List.mem_cons, hic, false_or]
      omega

def stk_fcost (st : List Frame) : Nat := (st.map (fun fr => fr.rest.length + 1)).sum

theorem stk_fcost_cons (v : Nat) (rest : List Nat) (st : List Frame) :
    stk_fcost (⟨v, rest⟩ :: st) = (rest.length + 1) + stk_fcost st := by
  simp [stk_fcost]

def stk_pot (ns0 : Graph G) (s : DfsSt G) (st : List Frame) : Nat :=
  stk_fcost st + stk_unv ns0 0 s.visited

/-- the state keeps the skeleton, and the pending operands are nodes of the graph -/
def stk_Inv (ns0 : Graph G) (s : DfsSt G) (st : List Frame) : Prop :=
  Skel ns0 s.ns ∧ ∀ fr ∈ st, ∀ c ∈ fr.rest, c < ns0.length

/-! ### one turn -/

theorem stk_step (ns0 : Graph G) (hw : ∀ u c, c ∈ chOf ns0 u → c < u) (s : DfsSt G) (fr : Frame)
    (st : List Frame) (hI : stk_Inv ns0 s (fr :: st)) :
    stk_Inv ns0 (stackStep s (fr :: st)).1 (stackStep s (fr :: st)).2 ∧
    stk_pot ns0 (stackStep s (fr :: st)).1 (stackStep s (fr :: st)).2 + 1 ≤ stk_pot ns0 s (fr :: st) ∧
    stk_unwind ns0.length (stackStep s (fr :: st)).1 (stackStep s (fr :: st)).2 =
      stk_unwind ns0.length s (fr :: st) := by
  obtain ⟨hsk, hrest⟩ := hI
  obtain ⟨v, rest⟩ := fr
  cases rest with
  | nil =>
    have hstep : stackStep s (⟨v, []⟩ :: st) = ({ s with ordered := s.ordered ++ [v] }, st) := rfl
    rw [hstep]
    refine ⟨⟨hsk, fun fr hfr => hrest fr (List.mem_cons_of_mem _ hfr)⟩, ?_, ?_⟩
    · simp only [stk_pot, stk_fcost_cons, List.length_nil]; omega
    · rw [stk_unwind_cons, stk_body_nil]
  | cons c cs =>
    have hstep : stackStep s (⟨v, c :: cs⟩ :: st) =
        if (enc s c).visited.contains c then (enc s c, ⟨v, cs⟩ :: st)
        else ({ enc s c with visited := c :: (enc s c).visited },
              ⟨c, chOf (enc s c).ns c⟩ :: ⟨v, cs⟩ :: st) := rfl
    have hsk' : Skel ns0 (enc s c).ns := hsk.trans (enc_skel s c)
    have hcn : c < ns0.length := hrest ⟨v, c :: cs⟩ (by simp) c (by simp)
    have hrest' : ∀ fr ∈ (⟨v, cs⟩ : Frame) :: st, ∀ c ∈ fr.rest, c < ns0.length := by
      intro fr hfr c' hc'
      rcases List.mem_cons.mp hfr with rfl | h
      · exact hrest ⟨v, c :: cs⟩ (by simp) c' (List.mem_cons_of_mem _ hc')
      · exact hrest fr (List.mem_cons_of_mem _ h) c' hc'
    by_cases hvis : (enc s c).visited.contains c = true
    · rw [hstep, if_pos hvis]
      refine ⟨⟨hsk', hrest'⟩, ?_, ?_⟩
      · simp only [stk_pot, stk_fcost_cons, enc_visited, List.length_cons]; omega
      · rw [stk_unwind_cons, stk_unwind_cons, stk_body_cons, stk_visit_visited _ _ _ hvis]
    · rw [hstep, if_neg hvis]
      have hch : chOf (enc s c).ns c = chOf ns0 c := (chOf_skel hsk' c).symm
      obtain ⟨node, hnode⟩ : ∃ node, ns0[c]? = some node := ⟨ns0[c], List.getElem?_eq_getElem hcn⟩
      have hchn : chOf ns0 c = node.children := by simp [chOf, hnode]
      refine ⟨⟨hsk', ?_⟩, ?_, ?_⟩
      · intro fr hfr c' hc'
        rcases List.mem_cons.mp hfr with rfl | h
        · simp only [hch] at hc'
          have := hw c c' hc'; omega
        · exact hrest' fr h c' hc'
      · have hcv : c ∉ s.visited := by
          intro h; apply hvis; simpa using h
        have hp := stk_unv_push ns0 0 c s.visited node (Nat.zero_le _) (by simpa using hnode) hcv
        simp only [stk_pot, stk_fcost_cons, enc_visited, List.length_cons, hch, hchn]
        omega
      · rw [stk_unwind_cons, stk_unwind_cons, stk_unwind_cons, stk_body_cons,
          stk_visit_unfold ns0 hw ns0.length c (enc s c) hcn hsk' hvis]

/-! ### the run -/

theorem stk_fcost_pos (fr : Frame) (st : List Frame) : 0 < stk_fcost (fr :: st) := by
  obtain ⟨v, rest⟩ := fr
  rw [stk_fcost_cons]; omega

theorem stk_runStack_cons (F : Nat) (s : DfsSt G) (fr : Frame) (st : List Frame) :
    runStack (F+1) s (fr :: st) = runStack F (stackStep s (fr :: st)).1 (stackStep s (fr :: st)).2 := rfl

theorem stk_run (ns0 : Graph G) (hw : ∀ u c, c ∈ chOf ns0 u → c < u) :
    ∀ (F : Nat) (s : DfsSt G) (st : List Frame), stk_Inv ns0 s st → stk_pot ns0 s st ≤ F →
      runStack F s st = stk_unwind ns0.length s st := by
  intro F
  induction F with
  | zero =>
    intro s st _ hF
    cases st with
    | nil => rfl
    | cons fr st =>
      have := stk_fcost_pos fr st
      simp only [stk_pot] at hF
      omega
  | succ F ih =>
    intro s st hI hF
    cases st with
    | nil => rfl
    | cons fr st =>
      obtain ⟨hI', hp, hu⟩ := stk_step ns0 hw s fr st hI
      rw [stk_runStack_cons, ih _ _ hI' (by omega), hu]

end Proofs.EngineStack
