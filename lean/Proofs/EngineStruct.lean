import SynapModel.Engine
import Proofs.EngineDfs
import Proofs.EngineSweep
/-!
# Structural theorems about `Synap.Engine.backward` (traversal order, zero-initialisation, trace,
success, release rule, frame, independence of left-over non-leaf gradients)

Shared by Props/C03, C04, C07, C17.  Everything is for an arbitrary graph (any depth, width,
fan-out, repeated operands) and an arbitrary gradient type `G` with an addition.
-/
namespace Proofs.Engine
open Synap.Engine

variable {G : Type}

/-- operands are created before results -/
def WFG (ns : Graph G) : Prop :=
  ∀ (v : Nat) (n : Node G), ns[v]? = some n → ∀ c ∈ n.children, c < v

/-- `Reach ns u v` : `v` is `u` or a descendant of `u` along `children` edges -/
inductive Reach (ns : Graph G) : Nat → Nat → Prop
  | refl (u : Nat) : Reach ns u u
  | step {u c v : Nat} {n : Node G} : ns[u]? = some n → c ∈ n.children → Reach ns c v → Reach ns u v

/-- `c` occurs strictly before `u` in `l` -/
def BeforeIn (l : List Nat) (c u : Nat) : Prop := ∃ l1 l2, l = l1 ++ u :: l2 ∧ c ∈ l1

/-- two graphs differ at most in gradient buffers -/
def SameSkeleton (ns ns' : Graph G) : Prop :=
  ns'.length = ns.length ∧ ∀ (v : Nat) (n : Node G), ns[v]? = some n → ∃ n', ns'[v]? = some n' ∧
    n'.children = n.children ∧ n'.reqGrad = n.reqGrad ∧ n'.back = n.back ∧ n'.retain = n.retain ∧ n'.zero = n.zero

/-- `v` is an operand of some node reachable from `root` -/
def ChildOfReach (ns : Graph G) (root v : Nat) : Prop :=
  ∃ u m, Reach ns root u ∧ ns[u]? = some m ∧ v ∈ m.children

/-! ### helper lemmas -/

theorem WFG.ch {ns : Graph G} (hw : WFG ns) : ∀ u c, c ∈ chOf ns u → c < u := by
  intro u c hc
  obtain ⟨n, hn, hcn⟩ := mem_chOf.mp hc
  exact hw u n hn c hcn

theorem Reach.tail {ns : Graph G} {a u c : Nat} (h : Reach ns a u) (hc : c ∈ chOf ns u) : Reach ns a c := by
  induction h with
  | refl u =>
    obtain ⟨n, hn, hcn⟩ := mem_chOf.mp hc
    exact Reach.step hn hcn (Reach.refl c)
  | step hn hcn _ ih => exact Reach.step hn hcn (ih hc)

theorem Reach.le {ns : Graph G} (hw : WFG ns) {a v : Nat} (h : Reach ns a v) : v ≤ a := by
  induction h with
  | refl u => exact Nat.le_refl _
  | step hn hcn _ ih => have := hw _ _ hn _ hcn; omega

theorem Reach.cases_child {ns : Graph G} {a k : Nat} (h : Reach ns a k) : a = k ∨ ChildOfReach ns a k := by
  induction h with
  | refl u => exact Or.inl rfl
  | @step u c v n hn hcn hr ih =>
    right
    rcases ih with rfl | ⟨w, m, hw, hm, hk⟩
    · exact ⟨u, n, Reach.refl u, hn, hcn⟩
    · exact ⟨w, m, Reach.step hn hcn hw, hm, hk⟩

theorem ChildOfReach.reach {ns : Graph G} {root v : Nat} (h : ChildOfReach ns root v) : Reach ns root v := by
  obtain ⟨u, m, hu, hm, hv⟩ := h
  exact hu.tail (mem_chOf.mpr ⟨m, hm, hv⟩)

theorem ChildOfReach.lt {ns : Graph G} (hw : WFG ns) {root v : Nat} (h : ChildOfReach ns root v) : v < root := by
  obtain ⟨u, m, hu, hm, hv⟩ := h
  have := hu.le hw
  have := hw u m hm v hv
  omega

theorem childOfReach_iff {ns : Graph G} (hw : WFG ns) {root v : Nat} :
    ChildOfReach ns root v ↔ Reach ns root v ∧ v ≠ root := by
  constructor
  · intro h; exact ⟨h.reach, by have := h.lt hw; omega⟩
  · rintro ⟨h, hne⟩
    rcases h.cases_child with e | h
    · exact absurd e.symm hne
    · exact h

theorem sameSkeleton_of_skel {a b : Graph G} (h : Skel a b) : SameSkeleton a b := by
  refine ⟨h.length.symm, ?_⟩
  intro v n hn
  obtain ⟨m, hm, hst⟩ := h.get hn
  exact ⟨m, hm, (strip_eq_iff _ _).mp hst⟩

theorem skel_of_sameSkeleton {a b : Graph G} (h : SameSkeleton a b) : Skel a b := by
  unfold Skel
  apply List.ext_getElem?
  intro k
  rw [List.getElem?_map, List.getElem?_map]
  cases ha : a[k]? with
  | none =>
    have : b[k]? = none := by
      rw [List.getElem?_eq_none_iff] at ha ⊢; rw [h.1]; exact ha
    rw [this]
  | some n =>
    obtain ⟨m, hm, hfields⟩ := h.2 k n ha
    rw [hm]; simp only [Option.map_some, Option.some.injEq]
    exact ((strip_eq_iff _ _).mpr hfields).symm

/-- from "children before parents, no repetition" to the recursive form used for the sweep -/
theorem topo_of_before (ch : Nat → List Nat) : ∀ (L' : List Nat), L'.reverse.Nodup →
    (∀ u ∈ L', ∀ c ∈ ch u, Before L'.reverse c u) → Topo ch L' := by
  intro L'
  induction L' with
  | nil => intro _ _; trivial
  | cons v rest ih =>
    intro hnd hb
    rw [List.reverse_cons] at hnd hb
    obtain ⟨hnd1, _, hnd2⟩ := List.nodup_append.mp hnd
    have hvr : v ∉ rest := fun h => hnd2 v (List.mem_reverse.mpr h) v (by simp) rfl
    have key : ∀ (l1 l2 : List Nat) (u : Nat), rest.reverse ++ [v] = l1 ++ u :: l2 →
        (l2 = [] ∧ rest.reverse = l1 ∧ u = v) ∨ (∃ l2', rest.reverse = l1 ++ u :: l2') := by
      intro l1 l2 u h
      rcases List.eq_nil_or_concat l2 with rfl | ⟨l2', w, rfl⟩
      · have := congrArg List.reverse h
        simp at this
        exact Or.inl ⟨rfl, by rw [this.2]; simp, this.1.symm⟩
      · right
        refine ⟨l2', ?_⟩
        have := congrArg List.reverse h
        simp at this
        have h2 := congrArg List.reverse this.2
        simpa using h2
    refine ⟨hvr, ?_, ih hnd1 ?_⟩
    · intro c hc
      obtain ⟨l1, l2, h, hc1⟩ := hb v (by simp) c hc
      rcases key l1 l2 v h with ⟨_, h1, _⟩ | ⟨l2', h1⟩
      · exact List.mem_reverse.mp (h1 ▸ hc1)
      · exact absurd (List.mem_reverse.mp (h1 ▸ (by simp : v ∈ l1 ++ v :: l2'))) hvr
    · intro u hu c hc
      obtain ⟨l1, l2, h, hc1⟩ := hb u (List.mem_cons_of_mem _ hu) c hc
      rcases key l1 l2 u h with ⟨_, _, h1⟩ | ⟨l2', h1⟩
      · exact absurd (h1 ▸ hu) hvr
      · exact ⟨l1, l2', h1, hc1⟩

theorem Reach.closed {ns : Graph G} {S : Nat → Prop} (hS : ∀ u c, S u → c ∈ chOf ns u → S c) {a v : Nat}
    (h : Reach ns a v) (ha : S a) : S v := by
  induction h with
  | refl u => exact ha
  | step hn hcn _ ih => exact ih (hS _ _ ha (mem_chOf.mpr ⟨_, hn, hcn⟩))

/-- everything the traversal phase guarantees -/
structure TravFacts (ns : Graph G) (root : Nat) : Prop where
  skel : Skel ns (traverse ns root).ns
  nodup : (traverse ns root).ordered.Nodup
  root_mem : root ∈ (traverse ns root).ordered
  mem_ord : ∀ v, v ∈ (traverse ns root).ordered ↔ Reach ns root v
  mem_vis : ∀ v, v ∈ (traverse ns root).visited ↔ Reach ns root v
  before : ∀ u ∈ (traverse ns root).ordered, ∀ c ∈ chOf ns u, Before (traverse ns root).ordered c u
  gi : GI ns (fun k => k ∈ (traverse ns root).visited ∧ k ≠ root) (traverse ns root).ns
  trlen : (traverse ns root).trace.length + 1 ≤ (traverse ns root).ordered.length
  zeros : ∀ e ∈ (traverse ns root).trace, ∃ c, e = TrEv.zero c
  topo : Topo (chOf ns) (traverse ns root).ordered.reverse

theorem travFacts (ns : Graph G) (hw : WFG ns) (root : Nat) (hr : root < ns.length) : TravFacts ns root := by
  have hs0 : Skel ns (⟨[], [], ns, []⟩ : DfsSt G).ns := Skel.refl _
  obtain ⟨hI, hroot, hM⟩ := visit_order ns hw.ch (Reach ns root) (fun u c hu hc => hu.tail hc)
    (ns.length + 1) root ⟨[], [], ns, []⟩ (by omega) hs0
    ⟨List.nodup_nil, by simp [pr], by simp [pr], by simp [pr]⟩ (by intro x hx; simp [pr] at hx) (Reach.refl root)
  have hq := visit_grads ns hw.ch root (ns.length + 1) root ⟨[], [], ns, []⟩ (by omega) hs0 (Nat.le_refl _)
    (by
      intro k n n' h0 h1
      simp only at h1
      rw [h0] at h1; cases h1
      exact ⟨fun ⟨⟨h, hk⟩, _⟩ => by simp at h; exact absurd h hk, fun _ => rfl⟩)
  change DfsInv (chOf ns) (Reach ns root) (pr (traverse ns root)) at hI
  change root ∈ (traverse ns root).ordered at hroot
  change Mono ([], []) (pr (traverse ns root)) at hM
  change GQ ns root root ⟨[], [], ns, []⟩ (traverse ns root) at hq
  obtain ⟨hnd, hov, hbef, hR⟩ := hI
  simp only [pr] at hnd hov hbef hR
  have hvo : ∀ v, v ∈ (traverse ns root).visited → v ∈ (traverse ns root).ordered := by
    intro v hv
    by_cases h : v ∈ (traverse ns root).ordered
    · exact h
    · have := (hM.2.2.2 v hv h).1; simp at this
  have hord : ∀ v, v ∈ (traverse ns root).ordered ↔ Reach ns root v := by
    intro v
    constructor
    · intro h; exact hR v (hov v h)
    · intro h
      refine h.closed (S := fun x => x ∈ (traverse ns root).ordered) ?_ hroot
      intro u c hu hc
      obtain ⟨l1, l2, e, hc1⟩ := hbef u hu c hc
      rw [e]; exact List.mem_append_left _ hc1
  have hvis : ∀ v, v ∈ (traverse ns root).visited ↔ Reach ns root v :=
    fun v => ⟨hR v, fun h => hov v ((hord v).mpr h)⟩
  refine ⟨visit_skel (ns.length + 1) root ⟨[], [], ns, []⟩, hnd, hroot, hord, hvis, hbef, hq.gi, ?_, ?_, ?_⟩
  · have h1 := hq.tr
    have h2 := hq.ord
    simp at h1 h2
    omega
  · intro e he
    rcases hq.zeros e he with h | h
    · simp at h
    · exact h
  · apply topo_of_before
    · rw [List.reverse_reverse]; exact hnd
    · intro u hu c hc
      rw [List.reverse_reverse]
      exact hbef u (List.mem_reverse.mp hu) c hc

/-- **Post-order is topological and covers exactly the reachable nodes, each once.** -/
theorem traverse_order (ns : Graph G) (hw : WFG ns) (root : Nat) (hr : root < ns.length) :
    let ord := (traverse ns root).ordered
    ord.Nodup ∧ root ∈ ord ∧
    (∀ u ∈ ord, ∀ n, ns[u]? = some n → ∀ c ∈ n.children, BeforeIn ord c u) ∧
    (∀ v, v ∈ ord ↔ Reach ns root v) := by
  intro ord
  have F := travFacts ns hw root hr
  refine ⟨F.nodup, F.root_mem, ?_, F.mem_ord⟩
  intro u hu n hn c hc
  exact F.before u hu c (mem_chOf.mpr ⟨n, hn, hc⟩)

/-- **The traversal only touches gradient buffers**, and exactly as follows: an operand of a
    reachable node that requires grad ends up with a buffer — freshly zeroed when it is a non-leaf
    (whatever was left on it), zero-initialised when it is a leaf without gradient, untouched when
    it is a leaf that already has one; every other node is untouched. -/
theorem traverse_grads (ns : Graph G) (hw : WFG ns) (root : Nat) (hr : root < ns.length) :
    SameSkeleton ns (traverse ns root).ns ∧
    ∀ (v : Nat) (n n' : Node G), ns[v]? = some n → (traverse ns root).ns[v]? = some n' →
      (ChildOfReach ns root v ∧ n.reqGrad = true →
        n'.grad = if n.isLeaf then some (n.grad.getD n.zero) else some n.zero) ∧
      (¬ (ChildOfReach ns root v ∧ n.reqGrad = true) → n'.grad = n.grad) := by
  have F := travFacts ns hw root hr
  refine ⟨sameSkeleton_of_skel F.skel, ?_⟩
  intro v n n' hn hn'
  have h := F.gi v n n' hn hn'
  have hiff : (v ∈ (traverse ns root).visited ∧ v ≠ root) ↔ ChildOfReach ns root v := by
    rw [F.mem_vis, childOfReach_iff hw]
  constructor
  · intro ⟨hc, hr⟩; exact h.1 ⟨hiff.mpr hc, hr⟩
  · intro hne; exact h.2 (fun ⟨hx, hr⟩ => hne ⟨hiff.mp hx, hr⟩)

theorem lt_of_get {ns : Graph G} {k : Nat} {n : Node G} (h : ns[k]? = some n) : k < ns.length := by
  by_cases hk : k < ns.length
  · exact hk
  · rw [List.getElem?_eq_none_iff.mpr (by omega)] at h; cases h

section
variable [Add G]

/-- every `grad_fn` returns one contribution slot per operand, whatever gradient it is given -/
def BacksTotal (ns : Graph G) : Prop :=
  ∀ (v : Nat) (n : Node G) (f : G → Option (List (Option G))) (γ : G), ns[v]? = some n → n.back = some f →
    ∃ l, f γ = some l ∧ l.length = n.children.length

/-- a node with a `grad_fn` requires grad (invariant of tensor creation) -/
def BackImpliesReq (ns : Graph G) : Prop :=
  ∀ (v : Nat) (n : Node G), ns[v]? = some n → n.back.isSome = true → n.reqGrad = true

/-- the gradient stored on the root before the sweep -/
def rootVal (s : DfsSt G) (root : Nat) (g : G) : G :=
  match s.ns[root]? with
  | some r' => (match r'.isLeaf, r'.grad with
    | true, some old => old + g
    | _, _ => g)
  | none => g

theorem finish_eq (s : DfsSt G) (root : Nat) (g : G) (rA : Bool) (r' : Node G) (h : s.ns[root]? = some r') :
    finish s root g rA =
      sweep root rA s.ordered.reverse (setGrad s.ns root (some (rootVal s root g))) s.trace := by
  unfold finish rootVal
  simp only [h]
  cases r'.isLeaf <;> cases r'.grad <;> rfl

/-- the graph after the traversal and the assignment of the root gradient -/
def ns1 (ns : Graph G) (root : Nat) (g : G) : Graph G :=
  setGrad (traverse ns root).ns root (some (rootVal (traverse ns root) root g))

theorem ns1_ne (ns : Graph G) (root : Nat) (g : G) (k : Nat) (hk : k ≠ root) :
    (ns1 ns root g)[k]? = (traverse ns root).ns[k]? := getElem?_setGrad_ne _ _ _ _ hk

theorem ns1_root (ns : Graph G) (root : Nat) (g : G) {r' : Node G} (h : (traverse ns root).ns[root]? = some r') :
    (ns1 ns root g)[root]? = some { r' with grad := some (rootVal (traverse ns root) root g) } := by
  unfold ns1; rw [getElem?_setGrad_self, h]; rfl

theorem ns1_skel (ns : Graph G) (root : Nat) (g : G) : Skel (traverse ns root).ns (ns1 ns root g) :=
  skel_setGrad _ _ _

theorem backward_eq (ns : Graph G) (root : Nat) (g : G) (rA : Bool) (r : Node G)
    (hr : ns[root]? = some r) (hrg : r.reqGrad = true) :
    backward ns root g rA =
      sweep root rA (traverse ns root).ordered.reverse (ns1 ns root g) (traverse ns root).trace := by
  obtain ⟨r', hr', _⟩ := (visit_skel (ns.length + 1) root ⟨[], [], ns, []⟩).get hr
  unfold backward
  simp only [hr, hrg]
  exact finish_eq _ root g rA r' hr'

theorem backward_inv {ns : Graph G} {root : Nat} {g : G} {rA : Bool} {res : Graph G × List TrEv}
    (h : backward ns root g rA = some res) : ∃ r, ns[root]? = some r ∧ r.reqGrad = true := by
  unfold backward at h
  cases hr : ns[root]? with
  | none => simp [hr] at h
  | some r =>
    refine ⟨r, rfl, ?_⟩
    cases hrg : r.reqGrad with
    | false => simp [hr, hrg] at h
    | true => rfl

/-- everything a successful `backward` call guarantees -/
theorem backward_facts {ns : Graph G} (hw : WFG ns) {root : Nat} {g : G} {rA : Bool} {ns' : Graph G}
    {tr : List TrEv} (h : backward ns root g rA = some (ns', tr)) :
    ∃ r, ns[root]? = some r ∧ r.reqGrad = true ∧ TravFacts ns root ∧
      SweepSpec root rA (traverse ns root).ordered.reverse (ns1 ns root g) ns' (traverse ns root).trace tr := by
  obtain ⟨r, hr, hrg⟩ := backward_inv h
  have F := travFacts ns hw root (lt_of_get hr)
  refine ⟨r, hr, hrg, F, ?_⟩
  rw [backward_eq ns root g rA r hr hrg] at h
  refine sweep_spec root rA (chOf ns) _ _ _ _ _ F.topo ?_ h
  intro v
  exact (chOf_skel (F.skel.trans (ns1_skel ns root g)) v).symm

/-- **backward completes** on every well-formed graph whose kernels accept their gradient. -/
theorem backward_succeeds (ns : Graph G) (hw : WFG ns) (hb : BacksTotal ns) (hq : BackImpliesReq ns)
    (root : Nat) (r : Node G) (hr : ns[root]? = some r) (hrg : r.reqGrad = true) (g : G) (retainAll : Bool) :
    ∃ res, backward ns root g retainAll = some res := by
  have F := travFacts ns hw root (lt_of_get hr)
  rw [backward_eq ns root g retainAll r hr hrg]
  have hsk : Skel ns (ns1 ns root g) := F.skel.trans (ns1_skel ns root g)
  refine sweep_succ root retainAll (chOf ns) ns
    (fun v n f γ hn hf => (hb v n f γ hn hf).imp (fun l hl => hl.1)) hq _ _ _ F.topo hsk
    (fun v => (chOf_skel hsk v).symm) ?_
  intro x hx
  have hxr : Reach ns root x := (F.mem_ord x).mp (List.mem_reverse.mp hx)
  have hxlt : x < ns.length := by have := hxr.le hw; have := lt_of_get hr; omega
  obtain ⟨n0, hn0⟩ : ∃ n0, ns[x]? = some n0 := ⟨ns[x], List.getElem?_eq_getElem hxlt⟩
  obtain ⟨n1, hn1, hst⟩ := F.skel.get hn0
  by_cases hxroot : x = root
  · subst hxroot
    exact ⟨_, ns1_root ns x g hn1, fun _ => rfl⟩
  · refine ⟨n1, by rw [ns1_ne _ _ _ _ hxroot]; exact hn1, fun hrq => ?_⟩
    have := (F.gi x n0 n1 hn0 hn1).1 ⟨⟨(F.mem_vis x).mpr hxr, hxroot⟩, ((strip_eq_iff _ _).mp hst).2.1 ▸ hrq⟩
    rw [this]; unfold expG; split <;> rfl

/-- **Each recorded operation contributes exactly once** per backward call, and only operations
    reachable from the root contribute. -/
theorem each_fn_once (ns : Graph G) (hw : WFG ns) (root : Nat) (g : G) (retainAll : Bool)
    (ns' : Graph G) (tr : List TrEv) (h : backward ns root g retainAll = some (ns', tr)) (v : Nat) :
    (Reach ns root v ∧ (∃ n, ns[v]? = some n ∧ n.back.isSome = true) → tr.count (TrEv.call v) = 1) ∧
    (¬ (Reach ns root v ∧ (∃ n, ns[v]? = some n ∧ n.back.isSome = true)) → tr.count (TrEv.call v) = 0) := by
  obtain ⟨r, hr, hrg, F, S⟩ := backward_facts hw h
  obtain ⟨ev, hev, _, hc1, hc0⟩ := S.trace
  have hsk : Skel ns (ns1 ns root g) := F.skel.trans (ns1_skel ns root g)
  have hz : (traverse ns root).trace.count (TrEv.call v) = 0 := by
    rw [List.count_eq_zero]
    intro hm
    obtain ⟨c, hc⟩ := F.zeros _ hm
    cases hc
  rw [hev, List.count_append, hz, Nat.zero_add]
  constructor
  · rintro ⟨hv, n, hn, hb⟩
    obtain ⟨m, hm, hst⟩ := hsk.get hn
    exact hc1 v m (List.mem_reverse.mpr ((F.mem_ord v).mpr hv)) hm
      (by rw [((strip_eq_iff _ _).mp hst).2.2.1]; exact hb)
  · intro hne
    apply hc0
    by_cases hv : Reach ns root v
    · right
      intro m hm
      obtain ⟨n, hn, hst⟩ := hsk.symm.get hm
      cases hb : m.back.isSome with
      | false => rfl
      | true =>
        exact absurd ⟨hv, n, hn, by rw [((strip_eq_iff _ _).mp hst).2.2.1]; exact hb⟩ hne
    · left
      intro hm
      exact hv ((F.mem_ord v).mp (List.mem_reverse.mp hm))

/-- **Linear cost**: at most three engine events (zero-init, call, release) per reachable node. -/
theorem trace_linear (ns : Graph G) (hw : WFG ns) (root : Nat) (g : G) (retainAll : Bool)
    (ns' : Graph G) (tr : List TrEv) (h : backward ns root g retainAll = some (ns', tr)) :
    tr.length ≤ 3 * (traverse ns root).ordered.length := by
  obtain ⟨r, hr, hrg, F, S⟩ := backward_facts hw h
  obtain ⟨ev, hev, hlen, _, _⟩ := S.trace
  have := F.trlen
  rw [hev, List.length_append]
  rw [List.length_reverse] at hlen
  omega

/-- **Frame**: backward changes nothing but gradient buffers, and no buffer of a node that is not
    reachable from the root, nor of a node that does not require grad. -/
theorem backward_frame (ns : Graph G) (hw : WFG ns) (root : Nat) (g : G) (retainAll : Bool)
    (ns' : Graph G) (tr : List TrEv) (h : backward ns root g retainAll = some (ns', tr)) :
    SameSkeleton ns ns' ∧
    (∀ v, ¬ Reach ns root v → ns'[v]? = ns[v]?) ∧
    (∀ v n n', v ≠ root → ns[v]? = some n → ns'[v]? = some n' → n.reqGrad = false → n'.grad = n.grad) := by
  obtain ⟨r, hr, hrg, F, S⟩ := backward_facts hw h
  have hsk : Skel ns (ns1 ns root g) := F.skel.trans (ns1_skel ns root g)
  refine ⟨sameSkeleton_of_skel (hsk.trans S.skel), ?_, ?_⟩
  · intro v hv
    have hvroot : v ≠ root := by rintro rfl; exact hv (Reach.refl _)
    rw [S.frame v (fun hm => hv ((F.mem_ord v).mp (List.mem_reverse.mp hm))), ns1_ne _ _ _ _ hvroot]
    cases hn : ns[v]? with
    | none => exact F.skel.get_none hn
    | some n =>
      obtain ⟨n1, hn1, hst⟩ := F.skel.get hn
      have := (F.gi v n n1 hn hn1).2 (fun ⟨⟨hx, _⟩, _⟩ => hv ((F.mem_vis v).mp hx))
      rw [hn1, eq_of_strip_of_grad hst this]
  · intro v n n' hvroot hn hn' hrq
    obtain ⟨n1, hn1, hst⟩ := F.skel.get hn
    have hg1 : n1.grad = n.grad := (F.gi v n n1 hn hn1).2 (fun ⟨_, hr'⟩ => by rw [hrq] at hr'; cases hr')
    have h1 : (ns1 ns root g)[v]? = some n1 := by rw [ns1_ne _ _ _ _ hvroot]; exact hn1
    have := S.noreq v n1 h1 (by rw [((strip_eq_iff _ _).mp hst).2.1]; exact hrq)
    rw [hn'] at this; cases this
    exact hg1

set_option linter.unusedVariables false in
/-- **Release rule**: after backward the root holds a gradient; a reachable non-leaf other than
    the root keeps its buffer iff it was marked with `retain_grad` or the call ran under
    `retain_grads`; reachable leaves that require grad hold a gradient. -/
theorem release_rule (ns : Graph G) (hw : WFG ns) (hb : BacksTotal ns) (hq : BackImpliesReq ns)
    (root : Nat) (g : G) (retainAll : Bool)
    (ns' : Graph G) (tr : List TrEv) (h : backward ns root g retainAll = some (ns', tr))
    (v : Nat) (n n' : Node G) (hv : Reach ns root v) (hn : ns[v]? = some n) (hn' : ns'[v]? = some n') :
    (v = root → n'.grad.isSome = true) ∧
    (v ≠ root → n.isLeaf = false → (n'.grad.isSome = (n.retain || retainAll))) ∧
    (v ≠ root → n.isLeaf = true → n.reqGrad = true → n'.grad.isSome = true) := by
  obtain ⟨r, hr, hrg, F, S⟩ := backward_facts hw h
  obtain ⟨n1, hn1, hst⟩ := F.skel.get hn
  have hvL : v ∈ (traverse ns root).ordered.reverse := List.mem_reverse.mpr ((F.mem_ord v).mpr hv)
  refine ⟨?_, ?_, ?_⟩
  · rintro rfl
    exact S.keep v _ n' (ns1_root ns v g hn1) hn' (Or.inl rfl) rfl
  · intro hvroot hlf
    have h1 : (ns1 ns root g)[v]? = some n1 := by rw [ns1_ne _ _ _ _ hvroot]; exact hn1
    rw [S.rel v n1 n' hvL hvroot h1 hn' (by rw [isLeaf_of_strip hst]; exact hlf),
      ((strip_eq_iff _ _).mp hst).2.2.2.1]
  · intro hvroot hlf hrq
    have h1 : (ns1 ns root g)[v]? = some n1 := by rw [ns1_ne _ _ _ _ hvroot]; exact hn1
    have hg1 := (F.gi v n n1 hn hn1).1 ⟨⟨(F.mem_vis v).mpr hv, hvroot⟩, hrq⟩
    refine S.keep v n1 n' h1 hn' (Or.inr (by rw [isLeaf_of_strip hst]; exact hlf)) ?_
    rw [hg1]; unfold expG; split <;> rfl

/-- the two graphs have the same skeleton and the same gradients on leaves -/
def AgreeUpToNonLeafGrads (a b : Graph G) : Prop :=
  SameSkeleton a b ∧ ∀ (v : Nat) (n m : Node G), a[v]? = some n → b[v]? = some m → n.isLeaf = true → m.grad = n.grad

theorem rootVal_nonleaf (s : DfsSt G) (root : Nat) (g : G) {r' : Node G} (h : s.ns[root]? = some r')
    (hl : r'.isLeaf = false) : rootVal s root g = g := by
  unfold rootVal; simp only [h, hl]

/-- the two traversals run in lockstep and the graphs handed to the sweep coincide on every
    reachable node and on every leaf -/
theorem leak_traverse (a b : Graph G) (hw : WFG a) (hab : AgreeUpToNonLeafGrads a b)
    (root : Nat) (g : G) (ra : Node G) (hra : a[root]? = some ra) :
    (traverse b root).ordered = (traverse a root).ordered ∧
    (traverse b root).trace = (traverse a root).trace ∧
    ∀ (k : Nat) (n1 : Node G), (ns1 a root g)[k]? = some n1 →
      (n1.isLeaf = true ∨ k ∈ (traverse a root).ordered) → (ns1 a root g)[k]? = (ns1 b root g)[k]? := by
  have hskab : Skel a b := skel_of_sameSkeleton hab.1
  have F := travFacts a hw root (lt_of_get hra)
  have hleaf : ∀ (k : Nat) (na : Node G), a[k]? = some na → na.isLeaf = true → b[k]? = some na := by
    intro k na hk hl
    obtain ⟨nb, hnb, hst⟩ := hskab.get hk
    rw [hnb, eq_of_strip_of_grad hst (hab.2 k na nb hk hnb hl)]
  have r0 : Rel2 root (fun k => k ∈ (⟨[], [], a, []⟩ : DfsSt G).visited ∨ k = root)
      ⟨[], [], a, []⟩ ⟨[], [], b, []⟩ := by
    refine ⟨rfl, rfl, rfl, hskab, ?_, ?_⟩
    · intro k na hk hx
      rcases hx with h | ⟨h, hne⟩
      · exact hleaf k na hk h
      · simp at h; exact absurd h hne
    · intro k na _ hx hne
      simp at hx; exact absurd hx hne
  have R := visit_sim a hw.ch root (a.length + 1) root ⟨[], [], a, []⟩ ⟨[], [], b, []⟩ (Nat.le_refl _)
    (Skel.refl _) r0
  have hTb : traverse b root = visit (a.length + 1) root ⟨[], [], b, []⟩ := by
    unfold traverse; rw [hskab.length]
  rw [← hTb] at R
  change Rel2 root (fun k => k ∈ (traverse a root).visited) (traverse a root) (traverse b root) at R
  refine ⟨R.ord.symm, R.tr.symm, ?_⟩
  -- the root
  obtain ⟨ra', hra', hsta⟩ := F.skel.get hra
  obtain ⟨rb', hrb', hstb⟩ := R.skel.get hra'
  have hroot : (ns1 a root g)[root]? = (ns1 b root g)[root]? := by
    rw [ns1_root a root g hra', ns1_root b root g hrb']
    cases hl : ra'.isLeaf with
    | true =>
      have := R.agree root ra' hra' (Or.inl hl)
      rw [hrb'] at this; cases this
      unfold rootVal; rw [hra', hrb']
    | false =>
      have hlb : rb'.isLeaf = false := by rw [isLeaf_of_strip hstb]; exact hl
      rw [rootVal_nonleaf _ root g hra' hl, rootVal_nonleaf _ root g hrb' hlb]
      exact congrArg some (withGrad_of_strip hstb.symm _)
  intro k n1 hk hx
  by_cases hkr : k = root
  · subst hkr; exact hroot
  · rw [ns1_ne _ _ _ _ hkr] at hk
    rw [ns1_ne _ _ _ _ hkr, ns1_ne _ _ _ _ hkr, hk]
    refine (R.agree k n1 hk (hx.imp id (fun h => ⟨?_, hkr⟩))).symm
    exact (F.mem_vis k).mpr ((F.mem_ord k).mp h)

/-- **No leak of left-over gradients**: whatever gradients earlier calls left on non-leaf tensors,
    a backward call produces the same trace and the same gradients on every node reachable from
    its root and on every leaf. -/
theorem no_leftover_leak (a b : Graph G) (hw : WFG a) (hab : AgreeUpToNonLeafGrads a b)
    (root : Nat) (g : G) (retainAll : Bool) :
    (backward a root g retainAll).isSome = (backward b root g retainAll).isSome ∧
    ∀ a' ta b' tb, backward a root g retainAll = some (a', ta) → backward b root g retainAll = some (b', tb) →
      ta = tb ∧ ∀ (v : Nat) (n m : Node G), a'[v]? = some n → b'[v]? = some m →
        (Reach a root v ∨ n.isLeaf = true) → m.grad = n.grad := by
  have hskab : Skel a b := skel_of_sameSkeleton hab.1
  cases hra : a[root]? with
  | none =>
    have hrb : b[root]? = none := hskab.get_none hra
    unfold backward; simp [hra, hrb]
  | some ra =>
    obtain ⟨rb, hrb, hst⟩ := hskab.get hra
    have hrq : rb.reqGrad = ra.reqGrad := ((strip_eq_iff _ _).mp hst).2.1
    cases hrg : ra.reqGrad with
    | false =>
      unfold backward; simp [hra, hrb, hrq, hrg]
    | true =>
      have F := travFacts a hw root (lt_of_get hra)
      obtain ⟨hord, htr, hagree⟩ := leak_traverse a b hw hab root g ra hra
      have hska : Skel a (ns1 a root g) := F.skel.trans (ns1_skel a root g)
      rw [backward_eq a root g retainAll ra hra hrg, backward_eq b root g retainAll rb hrb (hrq ▸ hrg),
        hord, htr]
      have hchA : ∀ v, chOf (ns1 a root g) v = chOf a v := fun v => (chOf_skel hska v).symm
      have hL : ∀ k ∈ (traverse a root).ordered.reverse, (ns1 a root g)[k]? = (ns1 b root g)[k]? := by
        intro k hk
        have hko := List.mem_reverse.mp hk
        have hkl : k < a.length := by
          have := ((F.mem_ord k).mp hko).le hw; have := lt_of_get hra; omega
        obtain ⟨n1, hn1⟩ : ∃ n1, (ns1 a root g)[k]? = some n1 :=
          ⟨(ns1 a root g)[k]'(by rw [← hska.length]; exact hkl), List.getElem?_eq_getElem _⟩
        exact hagree k n1 hn1 (Or.inr hko)
      obtain ⟨i1, i2⟩ := sweep_sim root retainAll (chOf a) _ (ns1 a root g) (ns1 b root g)
        (traverse a root).trace F.topo hchA hL
      refine ⟨i1, ?_⟩
      intro a' ta b' tb ha hb
      obtain ⟨j1, j2⟩ := i2 a' ta b' tb ha hb
      refine ⟨j1, ?_⟩
      intro v n m hn hm hx
      have S := sweep_spec root retainAll (chOf a) _ _ _ _ _ F.topo hchA ha
      obtain ⟨n1, hn1, hst1⟩ := S.skel.symm.get hn
      have := j2 v (hagree v n1 hn1 (by
        rcases hx with h | h
        · exact Or.inr ((F.mem_ord v).mpr h)
        · exact Or.inl (by rw [isLeaf_of_strip hst1]; exact h)))
      rw [hn, hm] at this
      cases this; rfl

end

/-! ### Grad-mode contexts -/

/-- **A context restores the mode that was in force when it was entered**, whatever happened in
    between to the *other* flag and whatever the object's `prev` held before (e.g. constructed
    earlier, or re-used). -/
theorem ctx_restores (m : Modes) (c : Ctx) (m' : Modes) :
    let (m1, c1) := ctxEnter m c
    (c.kind = .noGrad → (ctxExit m' c1).grad = m.grad ∧ (ctxExit m' c1).retain = m'.retain ∧ m1.grad = false ∧ m1.retain = m.retain) ∧
    (c.kind = .retainGrads → (ctxExit m' c1).retain = m.retain ∧ (ctxExit m' c1).grad = m'.grad ∧ m1.retain = true ∧ m1.grad = m.grad) := by
  cases c with
  | mk k p => cases k <;> simp [ctxEnter, ctxExit]

/-- a well-nested block: enter a context, run a well-nested body, exit (normally or by exception:
    `__exit__` runs in both cases) -/
inductive Block where
  | seq (bs : List Block)
  | ctx (k : CtxKind) (body : Block)

/-- run a block; context objects are created on the spot with an arbitrary stale `prev` -/
def runBlock (stale : Bool) : Block → Modes → Modes
  | .seq [], m => m
  | .seq (b :: bs), m => runBlock stale (.seq bs) (runBlock stale b m)
  | .ctx k body, m =>
    let (m1, c1) := ctxEnter m ⟨k, stale⟩
    ctxExit (runBlock stale body m1) c1

/-- **Stack discipline**: any well-nested arrangement of `no_grad` / `retain_grads` blocks, at any
    depth, leaves both global modes exactly as it found them. -/
theorem modes_stack (stale : Bool) (b : Block) (m : Modes) : runBlock stale b m = m := by
  fun_induction runBlock stale b m with
  | case1 m => rfl
  | case2 m b bs ih1 ih2 => rw [ih2, ih1]
  | case3 k body m m1 c1 h ih =>
    rw [ih]
    cases k <;> simp [ctxEnter] at h <;> obtain ⟨rfl, rfl⟩ := h <;> simp [ctxExit]

/-- the result flag of an op: grad mode on and at least one operand requires grad -/
theorem resultReqGrad_spec (m : Modes) (ops : List Bool) :
    resultReqGrad m ops = true ↔ (m.grad = true ∧ ∃ b ∈ ops, b = true) := by
  simp [resultReqGrad, and_comm]

end Proofs.Engine
