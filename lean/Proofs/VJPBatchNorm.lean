import Proofs.VJPDefs
import Proofs.VJPBatchNormLemmas
/-! # VJP of batch normalisation (C02), over ℝ — see `Proofs.VJPDefs` for the meaning of `IsVJPAt` -/
namespace Proofs.NL
open Synap Synap.NDArray Synap.Np Synap.Kernels Proofs.Core Proofs.Calc

/-! ### batch normalisation -/

/-- eval mode (statistics are constants): gradient of the input -/
theorem bn_eval_vjp_x (x : NDArray ℝ) (gamma beta : Option (NDArray ℝ)) (mean var : Nat → ℝ) (eps : ℝ) (hx : x.WF) :
    IsVJPAt (fun z => some (bnForward z gamma beta mean var eps)) x x.shape
      (fun g => some (bnBackward g x gamma beta.isSome false mean var eps).1) := by
  intro v g hv hvs hg hgs
  refine ⟨fun t => ⟨_, rfl, ofFn_wf _ _, rfl⟩, _, rfl, ofFn_wf _ _, rfl, ?_⟩
  simp only [Option.map_some, Option.getD_some]
  have hfun : (fun t : ℝ => dot (bnForward (line x v t) gamma beta mean var eps) g)
      = fun t : ℝ => ((allIdx x.shape).map (fun i =>
          (fun t : ℝ => ((x.get i + t * v.get i - mean (getI i 1)) / Real.sqrt (var (getI i 1) + eps)
            * bn_gam gamma (getI i 1) + bn_bet beta (getI i 1)) * g.get i) t)).sum := by
    funext t
    rw [bn_forward_eq, dot_ofFn, bn_line_shape]
    congr 1
    apply List.map_congr_left
    intro i hi
    rw [bn_line_get x v t hx hv hvs i ((mem_allIdx _ i).1 hi)]
  rw [hfun]
  have hd := bn_hasDerivAt_list_sum (allIdx x.shape)
    (fun i t => ((x.get i + t * v.get i - mean (getI i 1)) / Real.sqrt (var (getI i 1) + eps)
            * bn_gam gamma (getI i 1) + bn_bet beta (getI i 1)) * g.get i)
    (fun i => v.get i * (g.get i * bn_gam gamma (getI i 1) / Real.sqrt (var (getI i 1) + eps))) 0
    (fun i _ => by
      have h1 : HasDerivAt (fun t : ℝ => x.get i + t * v.get i - mean (getI i 1)) (v.get i) 0 := by
        simpa using (((hasDerivAt_id (0 : ℝ)).mul_const (v.get i)).const_add (x.get i)).sub_const (mean (getI i 1))
      have h2 := (((h1.div_const (Real.sqrt (var (getI i 1) + eps))).mul_const (bn_gam gamma (getI i 1))).add_const
        (bn_bet beta (getI i 1))).mul_const (g.get i)
      exact h2.congr_deriv (by ring))
  convert hd using 1
  rw [dot_eq_sum, hvs, bn_backward_dx_eq]
  congr 1
  apply List.map_congr_left
  intro i hi
  rw [get_ofFn _ _ _ ((mem_allIdx _ i).1 hi)]
  simp

/-- the batch statistics the training-mode forward uses -/
noncomputable def batchMean (z : NDArray ℝ) (c : Nat) : ℝ := (bnStats z c).1
noncomputable def batchVar (z : NDArray ℝ) (c : Nat) : ℝ := (bnStats z c).2

/-- training mode (statistics are the batch mean and biased variance of the input itself): gradient of the input -/
theorem bn_train_vjp_x (x : NDArray ℝ) (gamma beta : Option (NDArray ℝ)) (eps : ℝ) (heps : 0 < eps) (hx : x.WF)
    (hrank : 2 ≤ x.shape.length) :
    IsVJPAt (fun z => some (bnForward z gamma beta (batchMean z) (batchVar z) eps)) x x.shape
      (fun g => some (bnBackward g x gamma beta.isSome true (batchMean x) (batchVar x) eps).1) := by
  intro v g hv hvs hg hgs
  refine ⟨fun t => ⟨_, rfl, ofFn_wf _ _, rfl⟩, _, rfl, ofFn_wf _ _, rfl, ?_⟩
  simp only [Option.map_some, Option.getD_some]
  have hfun : (fun t : ℝ => dot (bnForward (line x v t) gamma beta (batchMean (line x v t)) (batchVar (line x v t)) eps) g)
      = fun t : ℝ => ((allIdx x.shape).map (fun i =>
          (fun t : ℝ => ((x.get i + t * v.get i - bn_M (chanIdx x.shape (getI i 1)) x.get v.get t)
              / Real.sqrt (bn_V (chanIdx x.shape (getI i 1)) x.get v.get t + eps)
            * bn_gam gamma (getI i 1) + bn_bet beta (getI i 1)) * g.get i) t)).sum := by
    funext t
    rw [bn_forward_eq, dot_ofFn, bn_line_shape]
    congr 1
    apply List.map_congr_left
    intro i hi
    rw [bn_line_get x v t hx hv hvs i ((mem_allIdx _ i).1 hi)]
    simp only [batchMean, batchVar, bn_stats_line x v t hx hv hvs]
  rw [hfun]
  have hd := bn_hasDerivAt_list_sum (allIdx x.shape)
    (fun i t => ((x.get i + t * v.get i - bn_M (chanIdx x.shape (getI i 1)) x.get v.get t)
              / Real.sqrt (bn_V (chanIdx x.shape (getI i 1)) x.get v.get t + eps)
            * bn_gam gamma (getI i 1) + bn_bet beta (getI i 1)) * g.get i)
    (fun i => (fun (i : Idx) (c : Nat) => bn_T (chanIdx x.shape c) (fun k => g.get k * bn_gam gamma (getI k 1)) x.get v.get
      (batchMean x c) (Real.sqrt (batchVar x c + eps)) (((chanIdx x.shape c).length : Nat) : ℝ) i) i (getI i 1)) 0
    (fun i _ => by
      have h1 := bn_hasDerivAt_xhat (chanIdx x.shape (getI i 1)) x.get v.get eps heps i
        (batchMean x (getI i 1)) (batchVar x (getI i 1)) (bn_stats_eq x (getI i 1)).1 (bn_stats_eq x (getI i 1)).2
      have h2 := ((h1.mul_const (bn_gam gamma (getI i 1))).add_const (bn_bet beta (getI i 1))).mul_const (g.get i)
      refine h2.congr_deriv ?_
      simp only [bn_T]
      ring)
  convert hd using 1
  rw [bn_sum_chan _ hrank (fun (i : Idx) (c : Nat) => bn_T (chanIdx x.shape c) (fun k => g.get k * bn_gam gamma (getI k 1))
      x.get v.get (batchMean x c) (Real.sqrt (batchVar x c + eps)) (((chanIdx x.shape c).length : Nat) : ℝ) i)]
  rw [dot_eq_sum, hvs, bn_backward_dx_train_eq]
  have hb : ((allIdx x.shape).map (fun i => v.get i * (ofFn x.shape (fun i =>
      bn_R (chanIdx x.shape (getI i 1)) (fun k => g.get k * bn_gam gamma (getI k 1)) x.get (batchMean x (getI i 1))
        (Real.sqrt (batchVar x (getI i 1) + eps)) (((chanIdx x.shape (getI i 1)).length : Nat) : ℝ)
        ((batchVar x (getI i 1) + eps) ^ (-((3 : ℝ) / 2))) i)).get i)).sum
      = ((allIdx x.shape).map (fun i => (fun (i : Idx) (c : Nat) => v.get i *
          bn_R (chanIdx x.shape c) (fun k => g.get k * bn_gam gamma (getI k 1)) x.get (batchMean x c)
            (Real.sqrt (batchVar x c + eps)) (((chanIdx x.shape c).length : Nat) : ℝ)
            ((batchVar x c + eps) ^ (-((3 : ℝ) / 2))) i) i (getI i 1))).sum := by
    congr 1
    apply List.map_congr_left
    intro i hi
    rw [get_ofFn _ _ _ ((mem_allIdx _ i).1 hi)]
  rw [hb, bn_sum_chan _ hrank (fun (i : Idx) (c : Nat) => v.get i *
          bn_R (chanIdx x.shape c) (fun k => g.get k * bn_gam gamma (getI k 1)) x.get (batchMean x c)
            (Real.sqrt (batchVar x c + eps)) (((chanIdx x.shape c).length : Nat) : ℝ)
            ((batchVar x c + eps) ^ (-((3 : ℝ) / 2))) i)]
  congr 1
  apply List.map_congr_left
  intro c _
  have hpos : 0 < batchVar x c + eps := by
    have h0 : 0 ≤ batchVar x c := by
      rw [batchVar, (bn_stats_eq x c).2]
      apply div_nonneg _ (Nat.cast_nonneg _)
      apply List.sum_nonneg
      intro y hy
      obtain ⟨k, _, rfl⟩ := List.mem_map.1 hy
      exact mul_self_nonneg _
    linarith
  exact (bn_chan_identity _ _ _ _ _ _ _ _ (bn_rpow_neg_three_halves _ hpos)).symm

/-- gradient of the scale `γ` (any mode: the statistics do not depend on it) -/
theorem bn_vjp_gamma (x gm : NDArray ℝ) (beta : Option (NDArray ℝ)) (useBatch : Bool) (mean var : Nat → ℝ) (eps : ℝ) (hx : x.WF)
    (hrank : 2 ≤ x.shape.length) (hgm : gm.WF) (hgs : gm.shape = [x.shape.getD 1 0]) :
    IsVJPAt (fun gm' => some (bnForward x (some gm') beta mean var eps)) gm x.shape
      (fun g => (bnBackward g x (some gm) beta.isSome useBatch mean var eps).2.1) := by
  intro v g hv hvs hg _
  refine ⟨fun t => ⟨_, rfl, ofFn_wf _ _, rfl⟩, _, bn_backward_dgamma_eq g x gm _ _ mean var eps,
    ofFn_wf _ _, hgs.symm, ?_⟩
  simp only [Option.map_some, Option.getD_some]
  have hfun : (fun t : ℝ => dot (bnForward x (some (line gm v t)) beta mean var eps) g)
      = fun t : ℝ => ((allIdx x.shape).map (fun i =>
          (fun t : ℝ => ((x.get i - mean (getI i 1)) / Real.sqrt (var (getI i 1) + eps)
            * (gm.get [getI i 1] + t * v.get [getI i 1]) + bn_bet beta (getI i 1)) * g.get i) t)).sum := by
    funext t
    rw [bn_forward_eq, dot_ofFn]
    congr 1
    apply List.map_congr_left
    intro i hi
    simp only [bn_gam]
    rw [bn_line_data_getD gm v t _ hgs hgm hv hvs _ (bn_chan_lt _ _ hrank ((mem_allIdx _ i).1 hi))]
  rw [hfun]
  have hd := bn_hasDerivAt_list_sum (allIdx x.shape)
    (fun i t => ((x.get i - mean (getI i 1)) / Real.sqrt (var (getI i 1) + eps)
            * (gm.get [getI i 1] + t * v.get [getI i 1]) + bn_bet beta (getI i 1)) * g.get i)
    (fun i => (fun (i : Idx) (c : Nat) => (x.get i - mean (getI i 1)) / Real.sqrt (var (getI i 1) + eps)
        * v.get [c] * g.get i) i (getI i 1)) 0
    (fun i _ => by
      have h1 : HasDerivAt (fun t : ℝ => gm.get [getI i 1] + t * v.get [getI i 1]) (v.get [getI i 1]) 0 := by
        simpa using ((hasDerivAt_id (0 : ℝ)).mul_const (v.get [getI i 1])).const_add (gm.get [getI i 1])
      have h2 := ((h1.const_mul ((x.get i - mean (getI i 1)) / Real.sqrt (var (getI i 1) + eps))).add_const
        (bn_bet beta (getI i 1))).mul_const (g.get i)
      exact h2)
  convert hd using 1
  rw [bn_sum_chan _ hrank (fun (i : Idx) (c : Nat) => (x.get i - mean (getI i 1)) / Real.sqrt (var (getI i 1) + eps)
        * v.get [c] * g.get i), dot_eq_sum, hvs, hgs, bn_sum_allIdx_one]
  congr 1
  apply List.map_congr_left
  intro c hc
  rw [get_ofFn _ _ _ (bn_valid_one _ c (List.mem_range.1 hc)), ← List.sum_map_mul_left]
  rw [show getI [c] 0 = c from rfl]
  congr 1
  apply List.map_congr_left
  intro i _
  ring

/-- gradient of the shift `β` -/
theorem bn_vjp_beta (x bt : NDArray ℝ) (gamma : Option (NDArray ℝ)) (useBatch : Bool) (mean var : Nat → ℝ) (eps : ℝ) (hx : x.WF)
    (hrank : 2 ≤ x.shape.length) (hbt : bt.WF) (hbs : bt.shape = [x.shape.getD 1 0]) :
    IsVJPAt (fun bt' => some (bnForward x gamma (some bt') mean var eps)) bt x.shape
      (fun g => (bnBackward g x gamma true useBatch mean var eps).2.2) := by
  intro v g hv hvs hg _
  refine ⟨fun t => ⟨_, rfl, ofFn_wf _ _, rfl⟩, _, bn_backward_dbeta_eq g x gamma _ mean var eps,
    ofFn_wf _ _, hbs.symm, ?_⟩
  simp only [Option.map_some, Option.getD_some]
  have hfun : (fun t : ℝ => dot (bnForward x gamma (some (line bt v t)) mean var eps) g)
      = fun t : ℝ => ((allIdx x.shape).map (fun i =>
          (fun t : ℝ => ((x.get i - mean (getI i 1)) / Real.sqrt (var (getI i 1) + eps)
            * bn_gam gamma (getI i 1) + (bt.get [getI i 1] + t * v.get [getI i 1])) * g.get i) t)).sum := by
    funext t
    rw [bn_forward_eq, dot_ofFn]
    congr 1
    apply List.map_congr_left
    intro i hi
    simp only [bn_bet]
    rw [bn_line_data_getD bt v t _ hbs hbt hv hvs _ (bn_chan_lt _ _ hrank ((mem_allIdx _ i).1 hi))]
  rw [hfun]
  have hd := bn_hasDerivAt_list_sum (allIdx x.shape)
    (fun i t => ((x.get i - mean (getI i 1)) / Real.sqrt (var (getI i 1) + eps)
            * bn_gam gamma (getI i 1) + (bt.get [getI i 1] + t * v.get [getI i 1])) * g.get i)
    (fun i => (fun (i : Idx) (c : Nat) => v.get [c] * g.get i) i (getI i 1)) 0
    (fun i _ => by
      have h1 : HasDerivAt (fun t : ℝ => bt.get [getI i 1] + t * v.get [getI i 1]) (v.get [getI i 1]) 0 := by
        simpa using ((hasDerivAt_id (0 : ℝ)).mul_const (v.get [getI i 1])).const_add (bt.get [getI i 1])
      have h2 := (h1.const_add ((x.get i - mean (getI i 1)) / Real.sqrt (var (getI i 1) + eps)
            * bn_gam gamma (getI i 1))).mul_const (g.get i)
      exact h2)
  convert hd using 1
  rw [bn_sum_chan _ hrank (fun (i : Idx) (c : Nat) => v.get [c] * g.get i), dot_eq_sum, hvs, hbs, bn_sum_allIdx_one]
  congr 1
  apply List.map_congr_left
  intro c hc
  rw [get_ofFn _ _ _ (bn_valid_one _ c (List.mem_range.1 hc)), ← List.sum_map_mul_left]
  rfl

end Proofs.NL
