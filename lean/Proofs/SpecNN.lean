import Proofs.Core
import Proofs.NNSpecLemmas
import Proofs.AdjointNNLemmas
import Proofs.ConvToolsLemmas
import Proofs.SpecLemmas
import Proofs.SubgradientLemmas
import Proofs.Subgradient
import Proofs.VJPSoftmaxLemmas
import Proofs.PointwiseCalc
import Proofs.ArrayMapLemmas
import SynapModel.Ops
import Mathlib.Algebra.Order.Field.Basic
import Mathlib.Tactic.Ring
import Mathlib.Tactic.Linarith
import Mathlib.Tactic.FieldSimp
/-!
# Specification theorems for the nn kernels (2-d convolution, 2-d pooling, softmax family, losses)

"The executable definition equals its mathematical reading": for each operation the exact
acceptance condition, the output shape, and every output entry as an explicit formula in the
operands' entries.

Conventions: `R` is any commutative ring, `K` any linearly ordered field; `xpad` is the padded
image read at *padded* coordinates; window sums are `Finset` sums over `Finset.range`.
-/
namespace Proofs.SpecNN
open Synap Synap.NDArray Synap.Np Synap.Kernels Proofs.Core
open Finset

/-! ## window geometry -/

/-- **`convOut` in closed form**: a window count exists exactly when kernel, stride and dilation are
    positive and one dilated window (`d·(k−1)+1` cells) fits into the padded length `L + 2p`; it is
    then `⌊(L + 2p − d(k−1) − 1)/s⌋ + 1`. -/
theorem convOut_eq_some_iff (L k s p d n : Nat) :
    convOut L k s p d = some n ↔
      0 < k ∧ 0 < s ∧ 0 < d ∧ d * (k - 1) + 1 ≤ L + 2 * p ∧ n = (L + 2 * p - d * (k - 1) - 1) / s + 1 := by
  unfold convOut
  by_cases h0 : k = 0 ∨ s = 0 ∨ d = 0
  · rw [if_pos h0]
    constructor
    · intro h; cases h
    · rintro ⟨h1, h2, h3, -, -⟩; omega
  · rw [if_neg h0]
    by_cases h1 : L + 2 * p < d * (k - 1) + 1
    · rw [if_pos h1]
      constructor
      · intro h; cases h
      · rintro ⟨-, -, -, h, -⟩; omega
    · rw [if_neg h1]
      constructor
      · intro h
        have := Option.some.inj h
        exact ⟨by omega, by omega, by omega, by omega, this.symm⟩
      · rintro ⟨-, -, -, -, rfl⟩; rfl

example : convOut 5 3 2 1 1 = some 3 := by decide

/-- a coordinate `(ih, iw)` of the padded image lies inside the real image -/
def InImage (H W : Nat) (p : Nat × Nat) (ih iw : Nat) : Prop :=
  p.1 ≤ ih ∧ ih < p.1 + H ∧ p.2 ≤ iw ∧ iw < p.2 + W

instance (H W : Nat) (p : Nat × Nat) (ih iw : Nat) : Decidable (InImage H W p ih iw) := by
  unfold InImage; infer_instance

/-- the image of size `H × W` padded by `p = (pH, pW)` cells of value `pad` on every side, read at
    *padded* coordinates: `xpad[n, c, ih, iw] = x[n, c, ih − pH, iw − pW]` inside, `pad` outside -/
def xpad {α : Type} [Zero α] (x : NDArray α) (H W : Nat) (p : Nat × Nat) (pad : α) (n c ih iw : Nat) : α :=
  if InImage H W p ih iw then x.get [n, c, ih - p.1, iw - p.2] else pad

section Windows
variable {α : Type} [Zero α]

/-- the pair of window positions the kernels form, in closed form -/
theorem sn_winPos_pair (H W : Nat) (s p d : Nat × Nat) (i j a b : Nat) :
    (match winPos H s.1 p.1 d.1 i a, winPos W s.2 p.2 d.2 j b with
      | some qa, some qb => some (qa, qb) | _, _ => (none : Option (Nat × Nat)))
    = if InImage H W p (i * s.1 + a * d.1) (j * s.2 + b * d.2)
      then some (i * s.1 + a * d.1 - p.1, j * s.2 + b * d.2 - p.2) else none := by
  by_cases hin : InImage H W p (i * s.1 + a * d.1) (j * s.2 + b * d.2)
  · rw [if_pos hin]
    unfold InImage at hin
    unfold winPos
    simp only []
    rw [if_neg (by omega), if_pos (by omega), if_neg (by omega), if_pos (by omega)]
  · rw [if_neg hin]
    unfold InImage at hin
    unfold winPos
    simp only []
    split_ifs <;> first | rfl | (exfalso; omega)

/-- the padded read of the kernels is the padded image at the window coordinate -/
theorem sn_readPad2_eq (x : NDArray α) (pad : α) (H W : Nat) (s p d : Nat × Nat) (n c i j a b : Nat) :
    readPad2 x pad n c (winPos H s.1 p.1 d.1 i a) (winPos W s.2 p.2 d.2 j b)
      = xpad x H W p pad n c (i * s.1 + a * d.1) (j * s.2 + b * d.2) := by
  have h := sn_winPos_pair H W s p d i j a b
  unfold xpad readPad2
  by_cases hin : InImage H W p (i * s.1 + a * d.1) (j * s.2 + b * d.2)
  · rw [if_pos hin] at h ⊢
    cases h1 : winPos H s.1 p.1 d.1 i a with
    | none => rw [h1] at h; cases h
    | some qa =>
      cases h2 : winPos W s.2 p.2 d.2 j b with
      | none => rw [h1, h2] at h; cases h
      | some qb =>
        rw [h1, h2] at h
        simp only [Option.some.injEq, Prod.mk.injEq] at h
        rw [h.1, h.2]
  · rw [if_neg hin] at h ⊢
    cases h1 : winPos H s.1 p.1 d.1 i a with
    | none => rfl
    | some qa =>
      cases h2 : winPos W s.2 p.2 d.2 j b with
      | none => rfl
      | some qb => rw [h1, h2] at h; cases h

theorem sn_padGet_eq (g : ConvTools.Geom) (x : NDArray α) (pad : α) (n c ih iw : Nat) :
    ConvTools.padGet g x pad n c ih iw = xpad x g.h g.w g.p pad n c ih iw := rfl

end Windows

/-! ## 1. conv2d is a cross-correlation -/
section Conv
variable {R : Type} [CommRing R]

/-- inversion of an accepted `conv2dForward`, keeping the index function -/
theorem sn_conv2d_inv (x w y : NDArray R) (b : Option (NDArray R)) (s p d : Nat × Nat)
    (h : conv2dForward x w b s p d = some y) :
    ∃ n c hh ww co kh kw lh lw, x.shape = [n, c, hh, ww] ∧ w.shape = [co, c, kh, kw] ∧
      convOut hh kh s.1 p.1 d.1 = some lh ∧ convOut ww kw s.2 p.2 d.2 = some lw ∧
      (∀ bv, b = some bv → bv.shape.size = co) ∧
      y = ofFn [n, co, lh, lw] (fun j =>
        let acc := ((List.range c).flatMap (fun cc => (List.range kh).flatMap (fun a => (List.range kw).map (fun bb =>
          w.get [getI j 1, cc, a, bb] *
            readPad2 x 0 (getI j 0) cc (winPos hh s.1 p.1 d.1 (getI j 2) a) (winPos ww s.2 p.2 d.2 (getI j 3) bb))))).sum
        match (generalizing := false) b with | some bv => acc + bv.data.getD (getI j 1) 0 | none => acc) := by
  unfold conv2dForward at h
  split at h
  · rename_i n c hh ww co ci kh kw hxs hws
    split at h
    · cases h
    · rename_i hci
      split at h
      · rename_i lh lw hlh hlw
        have hci' : ci = c := by simpa using hci
        subst hci'
        cases b with
        | none =>
          simp only [Bool.false_eq_true, if_false] at h
          injection h with h
          subst h
          exact ⟨n, ci, hh, ww, co, kh, kw, lh, lw, hxs, hws, hlh, hlw, (fun bv hbv => by cases hbv), rfl⟩
        | some bv0 =>
          simp only at h
          split at h
          · cases h
          · rename_i hb
            injection h with h
            subst h
            refine ⟨n, ci, hh, ww, co, kh, kw, lh, lw, hxs, hws, hlh, hlw, ?_, rfl⟩
            intro bv hbv
            injection hbv with hbv
            subst hbv
            simpa using hb
      · cases h
  · cases h

/-- **conv2d: acceptance.**  `conv2d(x, w, b, stride, padding, dilation)` returns a result exactly when
    `x` is 4-d `(N, C, H, W)`, `w` is 4-d `(C_out, C, kH, kW)` with the *same* channel count, both
    window counts exist (`convOut`, see `convOut_eq_some_iff`: positive kernel / stride / dilation and
    one dilated window fits the padded axis), and the bias, if given, has `C_out` entries. -/
theorem conv2d_accepts_iff (x w : NDArray R) (b : Option (NDArray R)) (s p d : Nat × Nat) :
    (∃ y, conv2dForward x w b s p d = some y) ↔
      ∃ n c hh ww co kh kw lh lw, x.shape = [n, c, hh, ww] ∧ w.shape = [co, c, kh, kw] ∧
        convOut hh kh s.1 p.1 d.1 = some lh ∧ convOut ww kw s.2 p.2 d.2 = some lw ∧
        ∀ bv, b = some bv → bv.shape.size = co := by
  constructor
  · rintro ⟨y, h⟩
    obtain ⟨n, c, hh, ww, co, kh, kw, lh, lw, h1, h2, h3, h4, h5, -⟩ := sn_conv2d_inv x w y b s p d h
    exact ⟨n, c, hh, ww, co, kh, kw, lh, lw, h1, h2, h3, h4, h5⟩
  · rintro ⟨n, c, hh, ww, co, kh, kw, lh, lw, h1, h2, h3, h4, h5⟩
    unfold conv2dForward
    rw [h1, h2]
    simp only [ne_eq, not_true_eq_false, if_false, h3, h4]
    cases b with
    | none => simp
    | some bv => simp [h5 bv rfl]

/-- **conv2d is a cross-correlation** (PyTorch `F.conv2d`): the result has shape
    `(N, C_out, H_out, W_out)` with `H_out = convOut H kH sH pH dH`, `W_out = convOut W kW sW pW dW`, and
    `out[n,o,i,j] = b[o] + Σ_{c<C} Σ_{a<kH} Σ_{b<kW} w[o,c,a,b] · xpad[n, c, i·sH + a·dH, j·sW + b·dW]`
    where `xpad` is `x` zero-padded by `(pH, pW)` (no kernel flip).  The bias is read flat
    (`b.reshape(-1)[o]`), 0 when absent. -/
theorem conv2d_is_cross_correlation (x w y : NDArray R) (b : Option (NDArray R)) (s p d : Nat × Nat)
    (h : conv2dForward x w b s p d = some y) :
    ∃ n c hh ww co kh kw lh lw, x.shape = [n, c, hh, ww] ∧ w.shape = [co, c, kh, kw] ∧
      convOut hh kh s.1 p.1 d.1 = some lh ∧ convOut ww kw s.2 p.2 d.2 = some lw ∧
      y.shape = [n, co, lh, lw] ∧ y.WF ∧
      ∀ bn o i j, bn < n → o < co → i < lh → j < lw →
        y.get [bn, o, i, j] =
          (match (generalizing := false) b with | some bv => bv.data.getD o 0 | none => 0) +
          ∑ cc ∈ range c, ∑ a ∈ range kh, ∑ bb ∈ range kw,
            w.get [o, cc, a, bb] * xpad x hh ww p 0 bn cc (i * s.1 + a * d.1) (j * s.2 + bb * d.2) := by
  obtain ⟨n, c, hh, ww, co, kh, kw, lh, lw, h1, h2, h3, h4, -, rfl⟩ := sn_conv2d_inv x w y b s p d h
  refine ⟨n, c, hh, ww, co, kh, kw, lh, lw, h1, h2, h3, h4, rfl, ofFn_wf _ _, ?_⟩
  intro bn o i j hbn ho hi hj
  rw [get_ofFn _ _ _ (by simp [validIdx, hbn, ho, hi, hj])]
  simp only [Proofs.ConvTools.getI_cons_zero, Proofs.ConvTools.getI_cons_succ,
    Proofs.ConvTools.sum_flatMap_range, Proofs.ConvTools.sum_map_range, sn_readPad2_eq]
  cases b with
  | none => simp
  | some bv => simp only []; rw [add_comm]

/-- **the bias is added afterwards**: `conv2d(x, w, b) = conv2d(x, w) + b[o]` entry by entry (so the
    unfold / matmul identity `conv2d_is_unfold_matmul` covers the biased op as well). -/
theorem conv2d_bias_splits (x w b y : NDArray R) (s p d : Nat × Nat)
    (h : conv2dForward x w (some b) s p d = some y) :
    ∃ y0, conv2dForward x w none s p d = some y0 ∧ y0.shape = y.shape ∧
      ∀ bn o i j, validIdx y.shape [bn, o, i, j] →
        y.get [bn, o, i, j] = y0.get [bn, o, i, j] + b.data.getD o 0 := by
  obtain ⟨n, c, hh, ww, co, kh, kw, lh, lw, h1, h2, h3, h4, hys, -, hget⟩ := conv2d_is_cross_correlation x w y (some b) s p d h
  obtain ⟨y0, hy0⟩ := (conv2d_accepts_iff x w none s p d).2
    ⟨n, c, hh, ww, co, kh, kw, lh, lw, h1, h2, h3, h4, fun bv hbv => by cases hbv⟩
  obtain ⟨n', c', hh', ww', co', kh', kw', lh', lw', h1', h2', h3', h4', hys', -, hget'⟩ :=
    conv2d_is_cross_correlation x w y0 none s p d hy0
  rw [h1] at h1'
  rw [h2] at h2'
  simp only [List.cons.injEq, and_true] at h1' h2'
  obtain ⟨rfl, rfl, rfl, rfl⟩ := h1'
  obtain ⟨rfl, -, rfl, rfl⟩ := h2'
  obtain rfl : lh = lh' := Option.some.inj (h3.symm.trans h3')
  obtain rfl : lw = lw' := Option.some.inj (h4.symm.trans h4')
  refine ⟨y0, hy0, by rw [hys, hys'], ?_⟩
  intro bn o i j hv
  rw [hys] at hv
  obtain ⟨hbn, ho, hi, hj, -⟩ := hv
  rw [hget bn o i j hbn ho hi hj, hget' bn o i j hbn ho hi hj]
  simp only []
  ring

example : (conv2dForward (⟨[1, 1, 2, 2], [1, 2, 3, 4]⟩ : NDArray Int) ⟨[1, 1, 2, 2], [1, 0, 0, 1]⟩ none (1, 1) (0, 0) (1, 1)).map (·.data)
    = some [5] := by decide

end Conv

/-! ## 2. max_pool2d / avg_pool2d -/
section Pool
open Proofs.ConvTools Proofs.Adjoint

/-- the window of the 2-d pooling kernels, position by position -/
theorem sn_win2_eq (H W : Nat) (k s p d : Nat × Nat) (i j : Nat) :
    win2 H W k s p d i j = (List.range k.1).flatMap (fun a => (List.range k.2).map (fun b =>
      if InImage H W p (i * s.1 + a * d.1) (j * s.2 + b * d.2)
      then some (i * s.1 + a * d.1 - p.1, j * s.2 + b * d.2 - p.2) else none)) := by
  unfold win2
  refine List.flatMap_congr (fun a _ => List.map_congr_left (fun b _ => ?_))
  exact sn_winPos_pair H W s p d i j a b

theorem sn_win2_length (H W : Nat) (k s p d : Nat × Nat) (i j : Nat) :
    (win2 H W k s p d i j).length = k.1 * k.2 := by
  rw [sn_win2_eq, List.length_flatMap]
  simp

theorem sn_win2_getElem? (H W : Nat) (k s p d : Nat × Nat) (i j a b : Nat) (ha : a < k.1) (hb : b < k.2) :
    (win2 H W k s p d i j)[a * k.2 + b]? =
      some (if InImage H W p (i * s.1 + a * d.1) (j * s.2 + b * d.2)
        then some (i * s.1 + a * d.1 - p.1, j * s.2 + b * d.2 - p.2) else none) := by
  rw [sn_win2_eq, getElem?_flatMap_range k.1 k.2 _ (by simp) a b ha hb]
  simp [hb]

section Inv
variable {α : Type} [Zero α] [Add α] [Div α] [NatCast α] [LT α] [DecidableLT α]

omit [LT α] [DecidableLT α] in
theorem sn_avgPool2d_inv (x y : NDArray α) (k s p d : Nat × Nat) (h : avgPool2dForward x k s p d = some y) :
    ∃ n c H W lh lw, x.shape = [n, c, H, W] ∧ convOut H k.1 s.1 p.1 d.1 = some lh ∧
      convOut W k.2 s.2 p.2 d.2 = some lw ∧
      y = ofFn [n, c, lh, lw] (fun j =>
        ((win2 H W k s p d (getI j 2) (getI j 3)).map (fun o =>
          match o with | some (qa, qb) => x.get [getI j 0, getI j 1, qa, qb] | none => 0)).sum / ((k.1 * k.2 : Nat) : α)) := by
  unfold avgPool2dForward at h
  cases hg : poolGeom2 x k s p d with
  | none => simp [hg] at h
  | some r =>
    obtain ⟨n, c, H, W, lh, lw⟩ := r
    simp only [hg, Option.bind_eq_bind, Option.bind_some, Option.pure_def, Option.some.injEq] at h
    obtain ⟨h1, h2, h3⟩ := poolGeom2_someE x k s p d _ hg
    exact ⟨n, c, H, W, lh, lw, h1, h2, h3, h.symm⟩

omit [Add α] [Div α] [NatCast α] in
theorem sn_maxPool2d_inv (x y : NDArray α) (negInf : α) (k s p d : Nat × Nat)
    (h : maxPool2dForward x negInf k s p d = some y) :
    ∃ n c H W lh lw, x.shape = [n, c, H, W] ∧ convOut H k.1 s.1 p.1 d.1 = some lh ∧
      convOut W k.2 s.2 p.2 d.2 = some lw ∧
      y = ofFn [n, c, lh, lw] (fun j =>
        match firstMax ((win2 H W k s p d (getI j 2) (getI j 3)).map (fun o =>
          o.map (fun (q : Nat × Nat) => x.get [getI j 0, getI j 1, q.1, q.2]))) with
        | some (v, _) => v | none => negInf) := by
  unfold maxPool2dForward at h
  cases hg : poolGeom2 x k s p d with
  | none => simp [hg] at h
  | some r =>
    obtain ⟨n, c, H, W, lh, lw⟩ := r
    simp only [hg, Option.bind_eq_bind, Option.bind_some, Option.pure_def, Option.some.injEq] at h
    obtain ⟨h1, h2, h3⟩ := poolGeom2_someE x k s p d _ hg
    exact ⟨n, c, H, W, lh, lw, h1, h2, h3, h.symm⟩

end Inv

variable {K : Type} [Field K] [LinearOrder K] [IsStrictOrderedRing K]

omit [IsStrictOrderedRing K] in
/-- **2-d pooling: acceptance.**  Both pooling ops accept exactly the 4-d inputs `(N, C, H, W)` for
    which both window counts exist (positive kernel / stride / dilation, one dilated window fits
    the padded axis; see `convOut_eq_some_iff`).  No relation between padding and kernel size is
    required (PyTorch's `pad ≤ kernel/2` is *not* checked). -/
theorem pool2d_accepts_iff (x : NDArray K) (negInf : K) (k s p d : Nat × Nat) :
    ((∃ y, avgPool2dForward x k s p d = some y) ↔
      ∃ n c H W lh lw, x.shape = [n, c, H, W] ∧ convOut H k.1 s.1 p.1 d.1 = some lh ∧
        convOut W k.2 s.2 p.2 d.2 = some lw) ∧
    ((∃ y, maxPool2dForward x negInf k s p d = some y) ↔
      ∃ n c H W lh lw, x.shape = [n, c, H, W] ∧ convOut H k.1 s.1 p.1 d.1 = some lh ∧
        convOut W k.2 s.2 p.2 d.2 = some lw) := by
  constructor
  · constructor
    · rintro ⟨y, h⟩
      obtain ⟨n, c, H, W, lh, lw, h1, h2, h3, -⟩ := sn_avgPool2d_inv x y k s p d h
      exact ⟨n, c, H, W, lh, lw, h1, h2, h3⟩
    · rintro ⟨n, c, H, W, lh, lw, h1, h2, h3⟩
      simp [avgPool2dForward, poolGeom2_eqE x k s p d n c H W lh lw h1 h2 h3]
  · constructor
    · rintro ⟨y, h⟩
      obtain ⟨n, c, H, W, lh, lw, h1, h2, h3, -⟩ := sn_maxPool2d_inv x y negInf k s p d h
      exact ⟨n, c, H, W, lh, lw, h1, h2, h3⟩
    · rintro ⟨n, c, H, W, lh, lw, h1, h2, h3⟩
      simp [maxPool2dForward, poolGeom2_eqE x k s p d n c H W lh lw h1 h2 h3]

omit [LinearOrder K] [IsStrictOrderedRing K] in
/-- **avg_pool2d counts the padded zeros** (PyTorch `count_include_pad=True`): shape
    `(N, C, H_out, W_out)` and
    `out[n,c,i,j] = (Σ_{a<kH} Σ_{b<kW} xpad[n, c, i·sH + a·dH, j·sW + b·dW]) / (kH·kW)`
    with `xpad` the zero-padded input. -/
theorem avgpool2d_counts_padding (x y : NDArray K) (k s p d : Nat × Nat) (h : avgPool2dForward x k s p d = some y) :
    ∃ n c H W lh lw, x.shape = [n, c, H, W] ∧ convOut H k.1 s.1 p.1 d.1 = some lh ∧
      convOut W k.2 s.2 p.2 d.2 = some lw ∧ y.shape = [n, c, lh, lw] ∧ y.WF ∧
      ∀ bn cc i j, bn < n → cc < c → i < lh → j < lw →
        y.get [bn, cc, i, j] =
          (∑ a ∈ range k.1, ∑ b ∈ range k.2, xpad x H W p 0 bn cc (i * s.1 + a * d.1) (j * s.2 + b * d.2))
            / ((k.1 * k.2 : Nat) : K) := by
  obtain ⟨n, c, H, W, lh, lw, h1, h2, h3, rfl⟩ := sn_avgPool2d_inv x y k s p d h
  refine ⟨n, c, H, W, lh, lw, h1, h2, h3, rfl, ofFn_wf _ _, ?_⟩
  intro bn cc i j hbn hcc hi hj
  rw [get_ofFn _ _ _ (by simp [validIdx, hbn, hcc, hi, hj])]
  simp only [getI_cons_zero, getI_cons_succ]
  congr 1
  rw [sn_win2_eq, List.map_flatMap, sum_flatMap_range]
  simp only [List.map_map, sum_map_range, Function.comp_def]
  refine Finset.sum_congr rfl (fun a _ => Finset.sum_congr rfl (fun b _ => ?_))
  unfold xpad
  split_ifs <;> rfl

example : (avgPool2dForward (⟨[1, 1, 2, 2], [1, 2, 3, 6]⟩ : NDArray Int) (2, 2) (1, 1) (0, 0) (1, 1)).map (·.data)
    = some [3] := by decide

omit [IsStrictOrderedRing K] in
/-- **max_pool2d: padding never wins.**  Shape `(N, C, H_out, W_out)`.  For every output position:
    if its window contains at least one real (non-padding) cell, the pooled value is the value at a
    real cell of the window and dominates every real cell of the window (so it is the maximum over
    the real cells, and the `−∞` padding value is never read); if the whole window lies in the padding
    (possible because `pad ≤ kernel/2` is not enforced) the value is the padding value `negInf`. -/
theorem maxpool2d_padding_never_wins (x y : NDArray K) (negInf : K) (k s p d : Nat × Nat)
    (h : maxPool2dForward x negInf k s p d = some y) :
    ∃ n c H W lh lw, x.shape = [n, c, H, W] ∧ convOut H k.1 s.1 p.1 d.1 = some lh ∧
      convOut W k.2 s.2 p.2 d.2 = some lw ∧ y.shape = [n, c, lh, lw] ∧ y.WF ∧
      ∀ bn cc i j, bn < n → cc < c → i < lh → j < lw →
        ((∃ a b, a < k.1 ∧ b < k.2 ∧ InImage H W p (i * s.1 + a * d.1) (j * s.2 + b * d.2)) →
          (∃ a b, a < k.1 ∧ b < k.2 ∧ InImage H W p (i * s.1 + a * d.1) (j * s.2 + b * d.2) ∧
            y.get [bn, cc, i, j] = x.get [bn, cc, i * s.1 + a * d.1 - p.1, j * s.2 + b * d.2 - p.2]) ∧
          (∀ a b, a < k.1 → b < k.2 → InImage H W p (i * s.1 + a * d.1) (j * s.2 + b * d.2) →
            x.get [bn, cc, i * s.1 + a * d.1 - p.1, j * s.2 + b * d.2 - p.2] ≤ y.get [bn, cc, i, j])) ∧
        ((∀ a b, a < k.1 → b < k.2 → ¬ InImage H W p (i * s.1 + a * d.1) (j * s.2 + b * d.2)) →
          y.get [bn, cc, i, j] = negInf) := by
  obtain ⟨n, c, H, W, lh, lw, h1, h2, h3, rfl⟩ := sn_maxPool2d_inv x y negInf k s p d h
  refine ⟨n, c, H, W, lh, lw, h1, h2, h3, rfl, ofFn_wf _ _, ?_⟩
  intro bn cc i j hbn hcc hi hj
  rw [get_ofFn _ _ _ (by simp [validIdx, hbn, hcc, hi, hj])]
  simp only [getI_cons_zero, getI_cons_succ]
  -- the window values, position by position
  have hv : ∀ a b, a < k.1 → b < k.2 →
      ((win2 H W k s p d i j).map (fun o => o.map (fun (q : Nat × Nat) => x.get [bn, cc, q.1, q.2])))[a * k.2 + b]? =
        some (if InImage H W p (i * s.1 + a * d.1) (j * s.2 + b * d.2)
          then some (x.get [bn, cc, i * s.1 + a * d.1 - p.1, j * s.2 + b * d.2 - p.2]) else none) := by
    intro a b ha hb
    rw [List.getElem?_map, sn_win2_getElem? H W k s p d i j a b ha hb]
    split_ifs <;> rfl
  have hv' : ∀ (m : Nat) (v : K),
      ((win2 H W k s p d i j).map (fun o => o.map (fun (q : Nat × Nat) => x.get [bn, cc, q.1, q.2])))[m]? = some (some v) →
        ∃ a b, a < k.1 ∧ b < k.2 ∧ InImage H W p (i * s.1 + a * d.1) (j * s.2 + b * d.2) ∧
          v = x.get [bn, cc, i * s.1 + a * d.1 - p.1, j * s.2 + b * d.2 - p.2] := by
    intro m v hm
    have hlt : m < k.1 * k.2 := by
      have := (List.getElem?_eq_some_iff.1 hm).1
      simpa [sn_win2_length] using this
    obtain ⟨ha, hb⟩ := div_lt_of_lt_mul' hlt
    have := hv (m / k.2) (m % k.2) ha hb
    rw [Nat.div_add_mod' m k.2, hm] at this
    by_cases hin : InImage H W p (i * s.1 + m / k.2 * d.1) (j * s.2 + m % k.2 * d.2)
    · rw [if_pos hin] at this
      exact ⟨m / k.2, m % k.2, ha, hb, hin, Option.some.inj (Option.some.inj this)⟩
    · rw [if_neg hin] at this
      cases Option.some.inj this
  rcases Proofs.Subgrad.firstMax_inv
    ((win2 H W k s p d i j).map (fun o => o.map (fun (q : Nat × Nat) => x.get [bn, cc, q.1, q.2]))) with
    ⟨hnone, hno⟩ | ⟨v, m, hsome, hat, hdom⟩
  · rw [hnone]
    refine ⟨?_, fun _ => rfl⟩
    rintro ⟨a, b, ha, hb, hin⟩
    have := hv a b ha hb
    rw [if_pos hin] at this
    exact absurd this (hno _ _)
  · rw [hsome]
    simp only []
    obtain ⟨a0, b0, ha0, hb0, hin0, hv0⟩ := hv' m v hat
    refine ⟨fun _ => ⟨⟨a0, b0, ha0, hb0, hin0, hv0⟩, ?_⟩, ?_⟩
    · intro a b ha hb hin
      have := hv a b ha hb
      rw [if_pos hin] at this
      exact hdom _ _ this
    · intro hall
      exact absurd hin0 (hall a0 b0 ha0 hb0)

example : (maxPool2dForward (⟨[1, 1, 2, 2], [1, 7, 3, 6]⟩ : NDArray Int) (-1000) (2, 2) (1, 1) (0, 0) (1, 1)).map (·.data)
    = some [7] := by decide

end Pool

/-! ## 3. convolution = unfold followed by a matrix product -/
section ConvUnfold
open Proofs.ConvTools Proofs.Adjoint Synap.ConvTools
variable {R : Type} [CommRing R]

theorem sn_bc_nil_single (n : Nat) : broadcastShapes ([] : Shape) [n] = some [n] := by
  unfold broadcastShapes
  by_cases h : 1 = n
  · subst h; simp
  · simp [h]

/-- `(C_out, r) @ (N, r, L)`: the matrix is broadcast over the batch axis -/
theorem sn_matmul_2_3 (A B : NDArray R) (co r n l : Nat) (hA : A.shape = [co, r]) (hB : B.shape = [n, r, l]) :
    ∃ mm, matmulForward A B = some mm ∧ mm.shape = [n, co, l] ∧ mm.WF ∧
      ∀ bn o t, bn < n → o < co → t < l →
        mm.get [bn, o, t] = ∑ q ∈ range r, A.get [o, q] * B.get [bn, q, t] := by
  unfold matmulForward matmul
  simp only [hA, hB, List.length_cons, List.length_nil, Option.bind_eq_bind, Option.pure_def]
  rw [if_neg (by decide), if_neg (by simp)]
  have e1 : List.take (0 + 1 + 1 - 2) [co, r] = [] := rfl
  have e2 : List.take (0 + 1 + 1 + 1 - 2) [n, r, l] = [n] := rfl
  rw [e1, e2, sn_bc_nil_single]
  simp only [Option.bind_some]
  refine ⟨_, rfl, rfl, ofFn_wf _ _, ?_⟩
  intro bn o t hbn ho ht
  rw [get_ofFn _ _ _ (by simp [validIdx, hbn, ho, ht])]
  rw [sum_map_range]
  have e3 : ([co, r] : Shape).getD (0 + 1 + 1 - 1) 0 = r := rfl
  rw [e3]
  refine Finset.sum_congr rfl (fun q _ => ?_)
  have hbn' : (if n = 1 then 0 else bn) = bn := by split_ifs <;> omega
  simp [bcastIdx, getI, hbn']

/-- a reshape to an explicit shape of the same size is accepted and is `reshapeTo` -/
theorem sn_reshape_nat {α : Type} [Zero α] (x : NDArray α) (s : Shape) (hs : Shape.size s = Shape.size x.shape) :
    reshapeForward x (s.map Int.ofNat) = some (reshapeTo x s) := by
  unfold reshapeForward reshape
  rw [← hs, Proofs.Spec.resolveShape_full]
  rfl

theorem sn_row_index (cc a b kh kw : Nat) : (cc * kh + a) * kw + b = cc * (kh * kw) + (a * kw + b) := by ring

/-- **conv2d = reshape(matmul(reshape(w), unfold(x)))** (the identity the library documents; zero
    padding, no bias).  For accepted arguments, with `x : (N, C, H, W)`, `w : (C_out, C, kH, kW)`:
    * `wmat = w.reshape(C_out, C·kH·kW)` is accepted, `wmat[o, (c·kH+a)·kW+b] = w[o,c,a,b]`;
    * `cols = unfold(x, (kH,kW), dilation, stride, padding)` (the function the `unfold` op evaluates,
      `im2colView`, pad value 0) is accepted, of shape `(N, C·kH·kW, H_out·W_out)`, with
      `cols[n, (c·kH+a)·kW+b, i·W_out+j] = xpad[n, c, i·sH+a·dH, j·sW+b·dW]`;
    * `mm = wmat @ cols` is accepted, of shape `(N, C_out, H_out·W_out)`;
    * `mm.reshape(N, C_out, H_out, W_out)` is accepted and **equals** `conv2d(x, w)`;
    entry by entry, `conv2d(x,w)[n,o,i,j] = Σ_r wmat[o,r] · cols[n, r, i·W_out + j]`. -/
theorem conv2d_is_unfold_matmul (x w y : NDArray R) (s p d : Nat × Nat)
    (h : conv2dForward x w none s p d = some y) :
    ∃ n c H W co kh kw lh lw wmat cols mm,
      x.shape = [n, c, H, W] ∧ w.shape = [co, c, kh, kw] ∧
      convOut H kh s.1 p.1 d.1 = some lh ∧ convOut W kw s.2 p.2 d.2 = some lw ∧
      reshapeForward w [(co : Int), ((c * kh * kw : Nat) : Int)] = some wmat ∧
      im2colView ⟨n, c, H, W, (kh, kw), s, p, d⟩ x 0 = some cols ∧
      matmulForward wmat cols = some mm ∧
      reshapeForward mm [(n : Int), (co : Int), (lh : Int), (lw : Int)] = some y ∧
      wmat.shape = [co, c * kh * kw] ∧ cols.shape = [n, c * kh * kw, lh * lw] ∧ mm.shape = [n, co, lh * lw] ∧
      (∀ o cc a b, o < co → cc < c → a < kh → b < kw →
        wmat.get [o, (cc * kh + a) * kw + b] = w.get [o, cc, a, b]) ∧
      (∀ bn cc a b i j, bn < n → cc < c → a < kh → b < kw → i < lh → j < lw →
        cols.get [bn, (cc * kh + a) * kw + b, i * lw + j]
          = xpad x H W p 0 bn cc (i * s.1 + a * d.1) (j * s.2 + b * d.2)) ∧
      ∀ bn o i j, bn < n → o < co → i < lh → j < lw →
        y.get [bn, o, i, j] = ∑ r ∈ range (c * kh * kw), wmat.get [o, r] * cols.get [bn, r, i * lw + j] := by
  obtain ⟨n, c, H, W, co, kh, kw, lh, lw, h1, h2, h3, h4, -, hy⟩ := sn_conv2d_inv x w y none s p d h
  have hkh : 0 < kh := ((convOut_eq_some_iff _ _ _ _ _ _).1 h3).1
  have hkw : 0 < kw := ((convOut_eq_some_iff _ _ _ _ _ _).1 h4).1
  -- the unfolded input
  let g : Geom := ⟨n, c, H, W, (kh, kw), s, p, d⟩
  have ho : g.out = some (lh, lw) := by
    show (match convOut H kh s.1 p.1 d.1, convOut W kw s.2 p.2 d.2 with
      | some a, some b => some (a, b) | _, _ => none) = some (lh, lw)
    rw [h3, h4]
  obtain ⟨cols, hcols⟩ : ∃ u, im2colSpec g x 0 = some u := ⟨_, by rw [im2colSpec, ho]; rfl⟩
  have hview : im2colView g x 0 = some cols := by
    rw [im2colView_eq_spec g x 0 ⟨hkh, hkw⟩, hcols]
  have hcs : cols.shape = [n, c * kh * kw, lh * lw] := by
    rw [im2colSpec, ho, Option.map_some] at hcols
    rw [← Option.some.inj hcols]
    rfl
  have hcget : ∀ bn cc a b i j, bn < n → cc < c → a < kh → b < kw → i < lh → j < lw →
      cols.get [bn, (cc * kh + a) * kw + b, i * lw + j]
        = xpad x H W p 0 bn cc (i * s.1 + a * d.1) (j * s.2 + b * d.2) := by
    intro bn cc a b i j hbn hcc ha hb hi hj
    have hab : a * kw + b < kh * kw := lt_mul_of_lt ha hb
    have hr : cc * (kh * kw) + (a * kw + b) < c * kh * kw := by
      rw [Nat.mul_assoc]; exact lt_mul_of_lt hcc hab
    rw [sn_row_index]
    rw [im2colSpec_get g x cols 0 lh lw ho hcols hbn hr (lt_mul_of_lt hi hj)]
    obtain ⟨f1, f2, f3⟩ := row_facts (c := cc) hab
    obtain ⟨f4, f5⟩ := div_mod_facts (a := a) hb
    obtain ⟨f6, f7⟩ := div_mod_facts (a := i) hj
    show padGet g x 0 bn ((cc * (kh * kw) + (a * kw + b)) / (kh * kw))
      ((i * lw + j) / lw * s.1 + (cc * (kh * kw) + (a * kw + b)) / kw % kh * d.1)
      ((i * lw + j) % lw * s.2 + (cc * (kh * kw) + (a * kw + b)) % kw * d.2) = _
    rw [f1, f2, f3, f4, f5, f6, f7]
    rfl
  -- the weight matrix
  have hwsz : Shape.size [co, c * kh * kw] = Shape.size w.shape := by
    rw [h2]; simp only [Shape.size, List.foldr]; ring
  have hwmat := sn_reshape_nat w [co, c * kh * kw] hwsz
  have hwget : ∀ o cc a b, o < co → cc < c → a < kh → b < kw →
      (reshapeTo w [co, c * kh * kw]).get [o, (cc * kh + a) * kw + b] = w.get [o, cc, a, b] := by
    intro o cc a b ho' hcc ha hb
    have hr : (cc * kh + a) * kw + b < c * kh * kw := by
      rw [sn_row_index, Nat.mul_assoc]; exact lt_mul_of_lt hcc (lt_mul_of_lt ha hb)
    apply get_reshapeTo
    · exact ⟨ho', hr, trivial⟩
    · rw [h2]; exact ⟨ho', hcc, ha, hb, trivial⟩
    · rw [h2]; simp only [ravel, Shape.size, List.foldr]; ring
  -- the product
  obtain ⟨mm, hmm, hms, -, hmget⟩ := sn_matmul_2_3 (reshapeTo w [co, c * kh * kw]) cols co (c * kh * kw) n (lh * lw) rfl hcs
  -- the entry formula
  have key : ∀ bn o i j, bn < n → o < co → i < lh → j < lw →
      y.get [bn, o, i, j] = ∑ r ∈ range (c * kh * kw),
        (reshapeTo w [co, c * kh * kw]).get [o, r] * cols.get [bn, r, i * lw + j] := by
    intro bn o i j hbn ho' hi hj
    rw [hy, get_ofFn _ _ _ (by simp [validIdx, hbn, ho', hi, hj])]
    simp only [getI_cons_zero, getI_cons_succ, sum_flatMap_range, sum_map_range, sn_readPad2_eq]
    rw [sum_range_mul (c * kh) kw, sum_range_mul c kh]
    refine Finset.sum_congr rfl (fun cc hcc => Finset.sum_congr rfl (fun a ha => Finset.sum_congr rfl (fun b hb => ?_)))
    rw [hwget o cc a b ho' (Finset.mem_range.1 hcc) (Finset.mem_range.1 ha) (Finset.mem_range.1 hb),
      hcget bn cc a b i j hbn (Finset.mem_range.1 hcc) (Finset.mem_range.1 ha) (Finset.mem_range.1 hb) hi hj]
  -- the final reshape
  have hmsz : Shape.size [n, co, lh, lw] = Shape.size mm.shape := by
    rw [hms]; simp only [Shape.size, List.foldr]; ring
  have hfinal : reshapeTo mm [n, co, lh, lw] = y := by
    conv_rhs => rw [hy]
    show ofFn [n, co, lh, lw] (fun q => mm.get (unravel mm.shape (ravel [n, co, lh, lw] q))) = _
    rw [← hy]
    refine ext_get _ _ (ofFn_wf _ _) (by rw [hy]; exact ofFn_wf _ _) (by rw [hy]; rfl) ?_
    intro q hq
    change validIdx [n, co, lh, lw] q at hq
    obtain ⟨bn, o, i, j, rfl, hbn, ho', hi, hj⟩ := validIdx4 hq
    rw [get_ofFn _ _ _ hq, key bn o i j hbn ho' hi hj, ← hmget bn o (i * lw + j) hbn ho' (lt_mul_of_lt hi hj)]
    have hv : validIdx mm.shape [bn, o, i * lw + j] := by
      rw [hms]; exact ⟨hbn, ho', lt_mul_of_lt hi hj, trivial⟩
    have hrv : ravel [n, co, lh, lw] [bn, o, i, j] = ravel mm.shape [bn, o, i * lw + j] := by
      rw [hms]; simp only [ravel, Shape.size, List.foldr]; ring
    rw [hrv, unravel_ravel _ _ hv]
  refine ⟨n, c, H, W, co, kh, kw, lh, lw, reshapeTo w [co, c * kh * kw], cols, mm, h1, h2, h3, h4,
    hwmat, hview, hmm, ?_, rfl, hcs, hms, hwget, hcget, key⟩
  rw [← hfinal]
  exact sn_reshape_nat mm [n, co, lh, lw] hmsz

example : (conv2dForward (⟨[1, 1, 2, 3], [1, 2, 3, 4, 5, 6]⟩ : NDArray Int) ⟨[1, 1, 2, 2], [1, 0, 0, 1]⟩ none (1, 1) (0, 0) (1, 1)).map (·.data)
    = some [6, 8] := by decide

end ConvUnfold

/-! ## 4. pooling = window extraction followed by mean / max over the kernel axis -/
section PoolUnfold
open Proofs.ConvTools Proofs.Adjoint Synap.ConvTools

theorem sn_norm_one2 (s : Shape) (hs : s.length = 4) : (Axes.one 2).norm s.length = some [2] := by
  rw [hs]; rfl

theorem sn_normRed_one2 (s : Shape) (hs : s.length = 4) : (Axes.one 2).normRed s.length = some [2] := by
  rw [hs]; rfl

theorem sn_reduce2 (a b q t : Nat) : reduceIdx [2] false [a, b, q, t] = [a, b, t] := by
  simp [reduceIdx, dropAxes, List.zipIdx]

theorem sn_reduceShape2 (a b q t : Nat) : reduceShape [a, b, q, t] [2] false = [a, b, t] := by
  simp [reduceShape, dropAxes, List.zipIdx]

/-- the fibre of `[bn, cc, t]` under "drop axis 2" of a 4-d shape is `{[bn, cc, q, t] | q < kk}` -/
theorem sn_fibre_sum2 {R : Type} [CommRing R] (n c kk l : Nat) (f : Idx → R) (bn cc t : Nat)
    (hbn : bn < n) (hcc : cc < c) (ht : t < l) :
    (((allIdx [n, c, kk, l]).filter (fun i => reduceIdx [2] false i == [bn, cc, t])).map f).sum
      = ∑ q ∈ range kk, f [bn, cc, q, t] := by
  rw [sum_filter_map_eq_ite]
  simp only [sum_allIdx_cons, sum_allIdx_nil, sn_reduce2]
  rw [Finset.sum_eq_single bn, Finset.sum_eq_single cc]
  · refine Finset.sum_congr rfl (fun q _ => ?_)
    rw [Finset.sum_eq_single t]
    · simp
    · intro t' _ hne; simp [hne]
    · intro h; exact absurd (Finset.mem_range.2 ht) h
  · intro c' _ hne
    refine Finset.sum_eq_zero (fun q _ => Finset.sum_eq_zero (fun t' _ => ?_))
    simp [hne]
  · intro h; exact absurd (Finset.mem_range.2 hcc) h
  · intro b' _ hne
    refine Finset.sum_eq_zero (fun c' _ => Finset.sum_eq_zero (fun q _ => Finset.sum_eq_zero (fun t' _ => ?_)))
    simp [hne]
  · intro h; exact absurd (Finset.mem_range.2 hbn) h

/-- the unfolded input regrouped as `(N, C, kH·kW, L)`: accepted, and its entries are the padded image
    at the window coordinates -/
theorem sn_unfold_windows {R : Type} [CommRing R] (x : NDArray R) (pad : R) (n c H W : Nat) (k s p d : Nat × Nat)
    (lh lw : Nat) (h3 : convOut H k.1 s.1 p.1 d.1 = some lh) (h4 : convOut W k.2 s.2 p.2 d.2 = some lw) :
    ∃ cols r4, im2colView ⟨n, c, H, W, k, s, p, d⟩ x pad = some cols ∧
      cols.shape = [n, c * k.1 * k.2, lh * lw] ∧
      reshapeForward cols [(n : Int), (c : Int), ((k.1 * k.2 : Nat) : Int), ((lh * lw : Nat) : Int)] = some r4 ∧
      r4.shape = [n, c, k.1 * k.2, lh * lw] ∧
      ∀ bn cc a b i j, bn < n → cc < c → a < k.1 → b < k.2 → i < lh → j < lw →
        r4.get [bn, cc, a * k.2 + b, i * lw + j] = xpad x H W p pad bn cc (i * s.1 + a * d.1) (j * s.2 + b * d.2) := by
  have hkh : 0 < k.1 := ((convOut_eq_some_iff _ _ _ _ _ _).1 h3).1
  have hkw : 0 < k.2 := ((convOut_eq_some_iff _ _ _ _ _ _).1 h4).1
  let g : Geom := ⟨n, c, H, W, k, s, p, d⟩
  have ho : g.out = some (lh, lw) := by
    show (match convOut H k.1 s.1 p.1 d.1, convOut W k.2 s.2 p.2 d.2 with
      | some a, some b => some (a, b) | _, _ => none) = some (lh, lw)
    rw [h3, h4]
  obtain ⟨cols, hcols⟩ : ∃ u, im2colSpec g x pad = some u := ⟨_, by rw [im2colSpec, ho]; rfl⟩
  have hview : im2colView g x pad = some cols := by
    rw [im2colView_eq_spec g x pad ⟨hkh, hkw⟩, hcols]
  have hcs : cols.shape = [n, c * k.1 * k.2, lh * lw] := by
    rw [im2colSpec, ho, Option.map_some] at hcols
    rw [← Option.some.inj hcols]
    rfl
  have hsz : Shape.size [n, c, k.1 * k.2, lh * lw] = Shape.size cols.shape := by
    rw [hcs]; simp only [Shape.size, List.foldr]; ring
  refine ⟨cols, reshapeTo cols [n, c, k.1 * k.2, lh * lw], hview, hcs,
    sn_reshape_nat cols [n, c, k.1 * k.2, lh * lw] hsz, rfl, ?_⟩
  intro bn cc a b i j hbn hcc ha hb hi hj
  have hab : a * k.2 + b < k.1 * k.2 := lt_mul_of_lt ha hb
  have hl : i * lw + j < lh * lw := lt_mul_of_lt hi hj
  have hr : cc * (k.1 * k.2) + (a * k.2 + b) < c * k.1 * k.2 := by
    rw [Nat.mul_assoc]; exact lt_mul_of_lt hcc hab
  have e1 : (reshapeTo cols [n, c, k.1 * k.2, lh * lw]).get [bn, cc, a * k.2 + b, i * lw + j]
      = cols.get [bn, cc * (k.1 * k.2) + (a * k.2 + b), i * lw + j] := by
    apply get_reshapeTo
    · exact ⟨hbn, hcc, hab, hl, trivial⟩
    · rw [hcs]; exact ⟨hbn, hr, hl, trivial⟩
    · rw [hcs]; simp only [ravel, Shape.size, List.foldr]; ring
  rw [e1, im2colSpec_get g x cols pad lh lw ho hcols hbn hr hl]
  obtain ⟨f1, f2, f3⟩ := row_facts (c := cc) hab
  obtain ⟨f4, f5⟩ := div_mod_facts (a := a) hb
  obtain ⟨f6, f7⟩ := div_mod_facts (a := i) hj
  show padGet g x pad bn ((cc * (k.1 * k.2) + (a * k.2 + b)) / (k.1 * k.2))
    ((i * lw + j) / lw * s.1 + (cc * (k.1 * k.2) + (a * k.2 + b)) / k.2 % k.1 * d.1)
    ((i * lw + j) % lw * s.2 + (cc * (k.1 * k.2) + (a * k.2 + b)) % k.2 * d.2) = _
  rw [f1, f2, f3, f4, f5, f6, f7]
  rfl

variable {K : Type} [Field K] [LinearOrder K] [IsStrictOrderedRing K]

omit [LinearOrder K] [IsStrictOrderedRing K] in
/-- `mean(axis=2)` of a 4-d array -/
theorem sn_mean_axis2 (a : NDArray K) (n c kk l : Nat) (ha : a.shape = [n, c, kk, l]) :
    ∃ m, meanForward a (.one 2) false = some m ∧ m.shape = [n, c, l] ∧ m.WF ∧
      ∀ bn cc t, bn < n → cc < c → t < l →
        m.get [bn, cc, t] = (∑ q ∈ range kk, a.get [bn, cc, q, t]) / ((kk : Nat) : K) := by
  unfold meanForward Np.sum
  rw [sn_norm_one2 a.shape (by rw [ha]; rfl), sn_normRed_one2 a.shape (by rw [ha]; rfl)]
  simp only [Option.bind_eq_bind, Option.bind_some, Option.pure_def]
  rw [ha, sn_reduceShape2]
  refine ⟨_, rfl, rfl, Proofs.Calc.map_wf _ _ (ofFn_wf _ _), ?_⟩
  intro bn cc t hbn hcc ht
  have hv : validIdx [n, c, l] [bn, cc, t] := ⟨hbn, hcc, ht, trivial⟩
  rw [Proofs.Calc.get_map _ (scatterAdd [n, c, l] [n, c, kk, l] (reduceIdx [2] false) a) (ofFn_wf _ _) _ hv,
    get_scatterAdd _ _ _ _ _ hv, sn_fibre_sum2 n c kk l a.get bn cc t hbn hcc ht]
  simp

omit [IsStrictOrderedRing K] in
/-- `max(dim=2)` of a non-empty 4-d array: attained on the fibre and dominating it -/
theorem sn_max_axis2 (a : NDArray K) (n c kk l : Nat) (ha : a.shape = [n, c, kk, l])
    (hn : 0 < n) (hc : 0 < c) (hkk : 0 < kk) (hl : 0 < l) :
    ∃ m, maxForward a (some 2) false = some m ∧ m.shape = [n, c, l] ∧ m.WF ∧
      ∀ bn cc t, bn < n → cc < c → t < l →
        (∃ q, q < kk ∧ m.get [bn, cc, t] = a.get [bn, cc, q, t]) ∧
        (∀ q, q < kk → a.get [bn, cc, q, t] ≤ m.get [bn, cc, t]) := by
  have hax : (match (some 2 : Option Int) with | none => Axes.all | some d => Axes.one d).normRed a.shape.length = some [2] :=
    sn_normRed_one2 a.shape (by rw [ha]; rfl)
  have hacc : maxForward a (some 2) false = some (ofFn [n, c, l] (fun o => a.get (argExt (fun x y => decide (y < x)) a [2] false o))) := by
    unfold maxForward extForward
    simp only []
    rw [sn_normRed_one2 a.shape (by rw [ha]; rfl)]
    simp only [Option.bind_eq_bind, Option.bind_some, Option.pure_def]
    rw [ha, sn_reduceShape2]
    have hsz : Shape.size [n, c, kk, l] ≠ 0 := by
      simp only [Shape.size, List.foldr]
      positivity
    have hkk' : kk ≠ 0 := by omega
    simp [hsz, hkk']
  refine ⟨_, hacc, rfl, ofFn_wf _ _, ?_⟩
  intro bn cc t hbn hcc ht
  have hv : validIdx [n, c, l] [bn, cc, t] := ⟨hbn, hcc, ht, trivial⟩
  obtain ⟨h1, h2, h3, h4⟩ := Proofs.Subgrad.argExt_spec (fun x y : K => x ≤ y) le_total (fun _ _ _ => le_trans)
    (fun x y => decide (y < x)) (fun x y => by simp) a _ (some 2) false hacc [2] hax [bn, cc, t] hv
  rw [ha] at h1 h4
  obtain ⟨b', c', q, t', hj, hb', hc', hq, ht'⟩ := validIdx4 h1
  rw [hj, sn_reduce2] at h2
  simp only [List.cons.injEq, and_true] at h2
  obtain ⟨rfl, rfl, rfl⟩ := h2
  rw [h3, hj]
  refine ⟨⟨q, hq, rfl⟩, fun q' hq' => ?_⟩
  have := h4 [b', c', q', t'] ⟨hb', hc', hq', ht', trivial⟩ (sn_reduce2 _ _ _ _)
  rwa [hj] at this

omit [LinearOrder K] [IsStrictOrderedRing K] in
/-- the last step of both pooling compositions: `(N, C, L) → (N, C, H_out, W_out)` -/
theorem sn_reshape_out (m y : NDArray K) (n c lh lw : Nat) (hm : m.shape = [n, c, lh * lw]) (hys : y.shape = [n, c, lh, lw])
    (hy : y.WF) (hget : ∀ bn cc i j, bn < n → cc < c → i < lh → j < lw → y.get [bn, cc, i, j] = m.get [bn, cc, i * lw + j]) :
    reshapeForward m [(n : Int), (c : Int), (lh : Int), (lw : Int)] = some y := by
  have hsz : Shape.size [n, c, lh, lw] = Shape.size m.shape := by
    rw [hm]; simp only [Shape.size, List.foldr]; ring
  have := sn_reshape_nat m [n, c, lh, lw] hsz
  rw [show ([(n : Int), (c : Int), (lh : Int), (lw : Int)] : List Int) = [n, c, lh, lw].map Int.ofNat from rfl, this]
  congr 1
  refine ext_get _ _ (ofFn_wf _ _) hy hys.symm ?_
  intro q hq
  change validIdx [n, c, lh, lw] q at hq
  obtain ⟨bn, cc, i, j, rfl, hbn, hcc, hi, hj⟩ := validIdx4 hq
  rw [hget bn cc i j hbn hcc hi hj]
  apply get_reshapeTo
  · exact hq
  · rw [hm]; exact ⟨hbn, hcc, lt_mul_of_lt hi hj, trivial⟩
  · rw [hm]; simp only [ravel, Shape.size, List.foldr]; ring

omit [LinearOrder K] [IsStrictOrderedRing K] in
/-- **avg_pool2d = mean over the kernel axis of the unfolded input** (the way the library computes
    it).  For accepted arguments, with `x : (N, C, H, W)`, `L = H_out·W_out`:
    `cols = unfold(x, kernel, dilation, stride, padding)` (pad value 0) is accepted;
    `r4 = cols.reshape(N, C, kH·kW, L)` is accepted, `r4[n,c,a·kW+b,i·W_out+j] = xpad[n,c,i·sH+a·dH,j·sW+b·dW]`;
    `m = r4.mean(axis=2)` is accepted; `m.reshape(N, C, H_out, W_out)` is accepted and **equals**
    `avg_pool2d(x)`; entry by entry `avg_pool2d(x)[n,c,i,j] = (Σ_q r4[n,c,q,i·W_out+j]) / (kH·kW)`. -/
theorem avgpool2d_is_unfold_mean (x y : NDArray K) (k s p d : Nat × Nat) (h : avgPool2dForward x k s p d = some y) :
    ∃ n c H W lh lw cols r4 m, x.shape = [n, c, H, W] ∧ convOut H k.1 s.1 p.1 d.1 = some lh ∧
      convOut W k.2 s.2 p.2 d.2 = some lw ∧
      im2colView ⟨n, c, H, W, k, s, p, d⟩ x 0 = some cols ∧
      reshapeForward cols [(n : Int), (c : Int), ((k.1 * k.2 : Nat) : Int), ((lh * lw : Nat) : Int)] = some r4 ∧
      meanForward r4 (.one 2) false = some m ∧
      reshapeForward m [(n : Int), (c : Int), (lh : Int), (lw : Int)] = some y ∧
      r4.shape = [n, c, k.1 * k.2, lh * lw] ∧ m.shape = [n, c, lh * lw] ∧
      (∀ bn cc a b i j, bn < n → cc < c → a < k.1 → b < k.2 → i < lh → j < lw →
        r4.get [bn, cc, a * k.2 + b, i * lw + j] = xpad x H W p 0 bn cc (i * s.1 + a * d.1) (j * s.2 + b * d.2)) ∧
      ∀ bn cc i j, bn < n → cc < c → i < lh → j < lw →
        y.get [bn, cc, i, j] = (∑ q ∈ range (k.1 * k.2), r4.get [bn, cc, q, i * lw + j]) / ((k.1 * k.2 : Nat) : K) := by
  obtain ⟨n, c, H, W, lh, lw, h1, h2, h3, hys, hywf, hyget⟩ := avgpool2d_counts_padding x y k s p d h
  obtain ⟨cols, r4, hview, -, hr4, hr4s, hr4get⟩ := sn_unfold_windows x 0 n c H W k s p d lh lw h2 h3
  obtain ⟨m, hm, hms, -, hmget⟩ := sn_mean_axis2 r4 n c (k.1 * k.2) (lh * lw) hr4s
  have key : ∀ bn cc i j, bn < n → cc < c → i < lh → j < lw →
      y.get [bn, cc, i, j] = (∑ q ∈ range (k.1 * k.2), r4.get [bn, cc, q, i * lw + j]) / ((k.1 * k.2 : Nat) : K) := by
    intro bn cc i j hbn hcc hi hj
    rw [hyget bn cc i j hbn hcc hi hj, sum_range_mul k.1 k.2]
    congr 1
    refine Finset.sum_congr rfl (fun a ha => Finset.sum_congr rfl (fun b hb => ?_))
    rw [hr4get bn cc a b i j hbn hcc (Finset.mem_range.1 ha) (Finset.mem_range.1 hb) hi hj]
  refine ⟨n, c, H, W, lh, lw, cols, r4, m, h1, h2, h3, hview, hr4, hm, ?_, hr4s, hms, hr4get, key⟩
  apply sn_reshape_out m y n c lh lw hms hys hywf
  intro bn cc i j hbn hcc hi hj
  rw [key bn cc i j hbn hcc hi hj, hmget bn cc (i * lw + j) hbn hcc (lt_mul_of_lt hi hj)]

omit [IsStrictOrderedRing K] in
/-- **max_pool2d = max over the kernel axis of the unfolded input padded with `−∞`.**  Guards (both
    needed): the padding value `negInf` must be a lower bound
    of the entries of `x` (the model's `−∞`), and `N, C > 0` — `max` over an axis *rejects* arrays
    without elements (`max_rejects_empty`), whereas `max_pool2d` itself accepts empty batches.  Then
    `cols = unfold(x, …, pad_value=negInf)`, `r4 = cols.reshape(N, C, kH·kW, L)`,
    `m = r4.max(dim=2)`, and `m.reshape(N, C, H_out, W_out)` are all accepted and the last **equals**
    `max_pool2d(x)`; each entry is attained on, and dominates, the column `r4[n, c, :, i·W_out+j]`. -/
theorem maxpool2d_is_unfold_max (x y : NDArray K) (negInf : K) (k s p d : Nat × Nat)
    (h : maxPool2dForward x negInf k s p d = some y)
    (hn : x.shape.getD 0 0 ≠ 0) (hc : x.shape.getD 1 0 ≠ 0)
    (hneg : ∀ q, validIdx x.shape q → negInf ≤ x.get q) :
    ∃ n c H W lh lw cols r4 m, x.shape = [n, c, H, W] ∧ convOut H k.1 s.1 p.1 d.1 = some lh ∧
      convOut W k.2 s.2 p.2 d.2 = some lw ∧
      im2colView ⟨n, c, H, W, k, s, p, d⟩ x negInf = some cols ∧
      reshapeForward cols [(n : Int), (c : Int), ((k.1 * k.2 : Nat) : Int), ((lh * lw : Nat) : Int)] = some r4 ∧
      maxForward r4 (some 2) false = some m ∧
      reshapeForward m [(n : Int), (c : Int), (lh : Int), (lw : Int)] = some y ∧
      r4.shape = [n, c, k.1 * k.2, lh * lw] ∧ m.shape = [n, c, lh * lw] ∧
      (∀ bn cc a b i j, bn < n → cc < c → a < k.1 → b < k.2 → i < lh → j < lw →
        r4.get [bn, cc, a * k.2 + b, i * lw + j] = xpad x H W p negInf bn cc (i * s.1 + a * d.1) (j * s.2 + b * d.2)) ∧
      ∀ bn cc i j, bn < n → cc < c → i < lh → j < lw →
        (∃ q, q < k.1 * k.2 ∧ y.get [bn, cc, i, j] = r4.get [bn, cc, q, i * lw + j]) ∧
        (∀ q, q < k.1 * k.2 → r4.get [bn, cc, q, i * lw + j] ≤ y.get [bn, cc, i, j]) := by
  obtain ⟨n, c, H, W, lh, lw, h1, h2, h3, hys, hywf, hyspec⟩ := maxpool2d_padding_never_wins x y negInf k s p d h
  rw [h1] at hn hc hneg
  have hn' : 0 < n := Nat.pos_of_ne_zero hn
  have hc' : 0 < c := Nat.pos_of_ne_zero hc
  obtain ⟨hk1, -, -, -, hlh⟩ := (convOut_eq_some_iff _ _ _ _ _ _).1 h2
  obtain ⟨hk2, -, -, -, hlw⟩ := (convOut_eq_some_iff _ _ _ _ _ _).1 h3
  have hL : 0 < lh * lw := Nat.mul_pos (by rw [hlh]; exact Nat.succ_pos _) (by rw [hlw]; exact Nat.succ_pos _)
  obtain ⟨cols, r4, hview, -, hr4, hr4s, hr4get⟩ := sn_unfold_windows x negInf n c H W k s p d lh lw h2 h3
  obtain ⟨m, hm, hms, -, hmspec⟩ := sn_max_axis2 r4 n c (k.1 * k.2) (lh * lw) hr4s hn' hc' (Nat.mul_pos hk1 hk2) hL
  -- the pooled value is the maximum of the column
  have key : ∀ bn cc i j, bn < n → cc < c → i < lh → j < lw → y.get [bn, cc, i, j] = m.get [bn, cc, i * lw + j] := by
    intro bn cc i j hbn hcc hi hj
    obtain ⟨⟨q0, hq0, hmq0⟩, hmdom⟩ := hmspec bn cc (i * lw + j) hbn hcc (lt_mul_of_lt hi hj)
    obtain ⟨hreal, hpad⟩ := hyspec bn cc i j hbn hcc hi hj
    obtain ⟨ha0, hb0⟩ := div_lt_of_lt_mul' hq0
    have hq0e : r4.get [bn, cc, q0, i * lw + j]
        = xpad x H W p negInf bn cc (i * s.1 + q0 / k.2 * d.1) (j * s.2 + q0 % k.2 * d.2) := by
      have := hr4get bn cc (q0 / k.2) (q0 % k.2) i j hbn hcc ha0 hb0 hi hj
      rwa [Nat.div_add_mod' q0 k.2] at this
    by_cases hex : ∃ a b, a < k.1 ∧ b < k.2 ∧ InImage H W p (i * s.1 + a * d.1) (j * s.2 + b * d.2)
    · obtain ⟨⟨a1, b1, ha1, hb1, hin1, hy1⟩, hydom⟩ := hreal hex
      apply le_antisymm
      · -- the pooled value is an entry of the column
        have := hmdom (a1 * k.2 + b1) (lt_mul_of_lt ha1 hb1)
        rw [hr4get bn cc a1 b1 i j hbn hcc ha1 hb1 hi hj] at this
        unfold xpad at this
        rw [if_pos hin1] at this
        rw [hy1]; exact this
      · -- every entry of the column is a real cell (dominated) or the padding value (a lower bound)
        rw [hmq0, hq0e]
        unfold xpad
        by_cases hin : InImage H W p (i * s.1 + q0 / k.2 * d.1) (j * s.2 + q0 % k.2 * d.2)
        · rw [if_pos hin]; exact hydom _ _ ha0 hb0 hin
        · rw [if_neg hin, hy1]
          apply hneg
          unfold InImage at hin1
          exact ⟨hbn, hcc, by omega, by omega, trivial⟩
    · rw [hpad (fun a b ha hb hin => hex ⟨a, b, ha, hb, hin⟩), hmq0, hq0e]
      unfold xpad
      rw [if_neg (fun hin => hex ⟨_, _, ha0, hb0, hin⟩)]
  refine ⟨n, c, H, W, lh, lw, cols, r4, m, h1, h2, h3, hview, hr4, hm,
    sn_reshape_out m y n c lh lw hms hys hywf key, hr4s, hms, hr4get, ?_⟩
  intro bn cc i j hbn hcc hi hj
  rw [key bn cc i j hbn hcc hi hj]
  exact hmspec bn cc (i * lw + j) hbn hcc (lt_mul_of_lt hi hj)

omit [IsStrictOrderedRing K] in
/-- the guard `N, C > 0` of `maxpool2d_is_unfold_max` is necessary: `max` along an axis rejects an
    array without elements (NumPy: "zero-size array to reduction operation maximum which has no identity") -/
theorem max_rejects_empty (a : NDArray K) (dim : Option Int) (keep : Bool) (h : Shape.size a.shape = 0) :
    maxForward a dim keep = none := by
  unfold maxForward extForward
  simp [h]

example : ∃ y, avgPool2dForward (⟨[1, 1, 2, 2], [1, 2, 3, 6]⟩ : NDArray Rat) (2, 2) (1, 1) (0, 0) (1, 1) = some y :=
  ((pool2d_accepts_iff _ 0 _ _ _ _).1).2 ⟨1, 1, 2, 2, 1, 1, rfl, by decide, by decide⟩

example : ∃ n c H W lh lw cols r4 m, (⟨[1, 1, 1, 1], [5]⟩ : NDArray Rat).shape = [n, c, H, W] ∧
      convOut H 1 1 0 1 = some lh ∧ convOut W 1 1 0 1 = some lw ∧
      im2colView ⟨n, c, H, W, (1, 1), (1, 1), (0, 0), (1, 1)⟩ (⟨[1, 1, 1, 1], [5]⟩ : NDArray Rat) 0 = some cols ∧
      reshapeForward cols [(n : Int), (c : Int), ((1 * 1 : Nat) : Int), ((lh * lw : Nat) : Int)] = some r4 ∧
      maxForward r4 (some 2) false = some m := by
  obtain ⟨n, c, H, W, lh, lw, cols, r4, m, h1, h2, h3, h4, h5, h6, -⟩ :=
    maxpool2d_is_unfold_max (⟨[1, 1, 1, 1], [5]⟩ : NDArray Rat) _ 0 (1, 1) (1, 1) (0, 0) (1, 1) rfl (by decide) (by decide)
      (by
        intro q hq
        obtain ⟨a, b, c, d, rfl, ha, hb, hc, hd⟩ := validIdx4 hq
        obtain rfl : a = 0 := by omega
        obtain rfl : b = 0 := by omega
        obtain rfl : c = 0 := by omega
        obtain rfl : d = 0 := by omega
        show (0 : Rat) ≤ 5
        norm_num)
  exact ⟨n, c, H, W, lh, lw, cols, r4, m, h1, h2, h3, h4, h5, h6⟩

end PoolUnfold

/-! ## 5. softmax / log_softmax along any axis (over ℝ) -/
section Softmax
open Proofs.NL

section FM
variable {K : Type} [Field K] [LinearOrder K]

omit [Field K] in
theorem sn_foldl_maxS (l : List K) (v : K) :
    (l.foldl (fun m x => maxS m x) v ∈ v :: l) ∧ ∀ x ∈ v :: l, x ≤ l.foldl (fun m x => maxS m x) v := by
  induction l generalizing v with
  | nil => simp
  | cons a l ih =>
    rw [List.foldl_cons]
    obtain ⟨h1, h2⟩ := ih (maxS v a)
    have hm : maxS v a = max v a := by
      unfold maxS
      split_ifs with h
      · exact (max_eq_right h.le).symm
      · exact (max_eq_left (not_lt.mp h)).symm
    refine ⟨?_, ?_⟩
    · rcases List.mem_cons.1 h1 with e | e
      · rw [e, hm]
        rcases max_choice v a with e' | e' <;> rw [e'] <;> simp
      · simp [e]
    · intro x hx
      have hge := h2 (maxS v a) (List.mem_cons_self)
      have hv : v ≤ maxS v a := by rw [hm]; exact le_max_left _ _
      have ha : a ≤ maxS v a := by rw [hm]; exact le_max_right _ _
      rcases List.mem_cons.1 hx with e | e
      · rw [e]; exact le_trans hv hge
      · rcases List.mem_cons.1 e with e | e
        · rw [e]; exact le_trans ha hge
        · exact h2 x (List.mem_cons_of_mem _ e)

/-- **`fibreMax` is the maximum of the fibre** -/
theorem fibreMax_is_max (a : NDArray K) (ax : Nat) (i : Idx) (hn : a.shape.getD ax 0 ≠ 0) :
    (∃ t, t < a.shape.getD ax 0 ∧ fibreMax a ax i = a.get (i.set ax t)) ∧
    ∀ t, t < a.shape.getD ax 0 → a.get (i.set ax t) ≤ fibreMax a ax i := by
  unfold fibreMax
  simp only []
  obtain ⟨h1, h2⟩ := sn_foldl_maxS ((List.range (a.shape.getD ax 0)).map (fun t => a.get (i.set ax t))) (a.get (i.set ax 0))
  refine ⟨?_, ?_⟩
  · rcases List.mem_cons.1 h1 with e | e
    · exact ⟨0, Nat.pos_of_ne_zero hn, e⟩
    · obtain ⟨t, ht, he⟩ := List.mem_map.1 e
      exact ⟨t, List.mem_range.1 ht, he.symm⟩
  · intro t ht
    exact h2 _ (List.mem_cons_of_mem _ (List.mem_map.2 ⟨t, List.mem_range.2 ht, rfl⟩))
end FM

/-- **softmax / log_softmax: acceptance.**  Accepted exactly when `dim` normalises to an axis of the
    operand (`-ndim ≤ dim < ndim`) and that axis is not empty — or the operand is 0-d and `dim` is `0` / `-1`
    (NumPy's `max` / `sum` reductions accept exactly these two int axes on a 0-d array and reduce nothing;
    every other `dim` is rejected for a 0-d operand: `softmax_zero_dim_accepts`). -/
theorem softmax_accepts_iff (a : NDArray ℝ) (axis : Int) :
    ((∃ y, softmaxForward a axis = some y) ↔
      (a.shape = [] ∧ (axis = 0 ∨ axis = -1)) ∨
      ∃ ax, normAxis a.shape.length axis = some ax ∧ a.shape.getD ax 0 ≠ 0) ∧
    ((∃ y, logSoftmaxForward a axis = some y) ↔
      (a.shape = [] ∧ (axis = 0 ∨ axis = -1)) ∨
      ∃ ax, normAxis a.shape.length axis = some ax ∧ a.shape.getD ax 0 ≠ 0) := by
  refine ⟨⟨fun ⟨y, h⟩ => ?_, ?_⟩, ⟨fun ⟨y, h⟩ => ?_, ?_⟩⟩
  · by_cases h0 : zeroDimAxis a.shape axis
    · exact Or.inl h0
    · exact Or.inr (sm_softmaxForward_some a y axis h0 h)
  · rintro (h0 | ⟨ax, h1, h2⟩)
    · exact ⟨_, sm_softmaxForward_zero a axis h0⟩
    · exact ⟨_, sm_softmaxForward_eq a axis ax h1 h2⟩
  · by_cases h0 : zeroDimAxis a.shape axis
    · exact Or.inl h0
    · exact Or.inr (sm_logSoftmaxForward_some a y axis h0 h)
  · rintro (h0 | ⟨ax, h1, h2⟩)
    · exact ⟨_, sm_logSoftmaxForward_zero a axis h0⟩
    · exact ⟨_, sm_logSoftmaxForward_eq a axis ax h1 h2⟩

/-! ### the 0-d operand -/

/-- on a 0-d operand `softmax` / `log_softmax` accept exactly `dim = 0` and `dim = −1`
    (instance of `softmax_accepts_iff`) -/
theorem softmax_zero_dim_accepts (x : NDArray ℝ) (hs : x.shape = []) (d : Int) :
    ((∃ y, softmaxForward x d = some y) ↔ d = 0 ∨ d = -1) ∧
    ((∃ y, logSoftmaxForward x d = some y) ↔ d = 0 ∨ d = -1) := by
  have hno : ¬ ∃ ax, normAxis x.shape.length d = some ax ∧ x.shape.getD ax 0 ≠ 0 := by
    rintro ⟨ax, hax, -⟩
    have := Proofs.Adjoint.normAxis_lt hax
    simp [hs] at this
  obtain ⟨h1, h2⟩ := softmax_accepts_iff x d
  rw [h1, h2]
  simp [hs, hno]

/-- **softmax along any axis** (over ℝ).  Same shape as the operand; for every index `i`, with
    `i[ax ↦ t]` running over the fibre of `i` along the axis and `M = fibreMax` the maximum of that fibre
    (attained, dominating):
    `out[i] = exp(x[i] − M) / Σ_t exp(x[i[ax ↦ t]] − M)` (what is computed)
    `       = exp(x[i]) / Σ_t exp(x[i[ax ↦ t]])` (the unshifted definition);
    every entry is positive and every fibre sums to 1. -/
theorem softmax_spec (a y : NDArray ℝ) (axis : Int) (h : softmaxForward a axis = some y) :
    (a.shape = [] ∧ (axis = 0 ∨ axis = -1) ∧ y = ⟨[], [1]⟩) ∨
    ∃ ax, normAxis a.shape.length axis = some ax ∧ a.shape.getD ax 0 ≠ 0 ∧ y.shape = a.shape ∧ y.WF ∧
      ∀ i, validIdx a.shape i →
        ((∃ t, t < a.shape.getD ax 0 ∧ fibreMax a ax i = a.get (i.set ax t)) ∧
          ∀ t, t < a.shape.getD ax 0 → a.get (i.set ax t) ≤ fibreMax a ax i) ∧
        y.get i = Real.exp (a.get i - fibreMax a ax i) /
          ∑ t ∈ range (a.shape.getD ax 0), Real.exp (a.get (i.set ax t) - fibreMax a ax i) ∧
        y.get i = Real.exp (a.get i) / ∑ t ∈ range (a.shape.getD ax 0), Real.exp (a.get (i.set ax t)) ∧
        0 < y.get i ∧
        ∑ t ∈ range (a.shape.getD ax 0), y.get (i.set ax t) = 1 := by
  by_cases h0 : zeroDimAxis a.shape axis
  · left
    rw [sm_softmaxForward_zero a axis h0] at h
    exact ⟨h0.1, h0.2, (Option.some.inj h).symm⟩
  right
  obtain ⟨ax, hax, hn⟩ := sm_softmaxForward_some a y axis h0 h
  have hy := sm_softmaxForward_eq a axis ax hax hn
  rw [h] at hy
  have hy' := Option.some.inj hy
  refine ⟨ax, hax, hn, by rw [hy']; rfl, by rw [hy']; exact ofFn_wf _ _, ?_⟩
  intro i hi
  have hget : ∀ j, validIdx a.shape j → y.get j = sm_sig a.get (a.shape.getD ax 0) ax j := by
    intro j hj; rw [hy', get_ofFn _ _ _ hj]
  have hS := sm_S_pos a.get (a.shape.getD ax 0) ax i hn
  have hunshift : y.get i = Real.exp (a.get i) / ∑ t ∈ range (a.shape.getD ax 0), Real.exp (a.get (i.set ax t)) := by
    rw [hget i hi]; rfl
  refine ⟨fibreMax_is_max a ax i hn, ?_, hunshift, ?_, ?_⟩
  · rw [hget i hi, ← sm_softmax_fn a ax i, sm_fibreSum_eq]
    simp only [sm_fibreMax_set]
    rfl
  · rw [hget i hi]; exact div_pos (Real.exp_pos _) hS
  · have : ∀ t ∈ range (a.shape.getD ax 0), y.get (i.set ax t)
        = Real.exp (a.get (i.set ax t)) / sm_S a.get (a.shape.getD ax 0) ax i := by
      intro t ht
      rw [hget _ (sm_valid_set a.shape i ax t hi (Finset.mem_range.1 ht))]
      unfold sm_sig
      rw [sm_S_set]
    rw [Finset.sum_congr rfl this, ← Finset.sum_div]
    exact div_self hS.ne'

/-- **log_softmax along any axis** (over ℝ).  Same shape; for every index `i`
    `out[i] = x[i] − (M + log Σ_t exp(x[i[ax ↦ t]] − M))` (what is computed, `M` the fibre maximum)
    `       = x[i] − log Σ_t exp(x[i[ax ↦ t]])` (log-sum-exp), and `exp(out[i])` is the softmax entry. -/
theorem log_softmax_spec (a y : NDArray ℝ) (axis : Int) (h : logSoftmaxForward a axis = some y) :
    (a.shape = [] ∧ (axis = 0 ∨ axis = -1) ∧ y = ⟨[], [0]⟩) ∨
    ∃ ax, normAxis a.shape.length axis = some ax ∧ a.shape.getD ax 0 ≠ 0 ∧ y.shape = a.shape ∧ y.WF ∧
      ∀ i, validIdx a.shape i →
        y.get i = a.get i - (fibreMax a ax i +
          Real.log (∑ t ∈ range (a.shape.getD ax 0), Real.exp (a.get (i.set ax t) - fibreMax a ax i))) ∧
        y.get i = a.get i - Real.log (∑ t ∈ range (a.shape.getD ax 0), Real.exp (a.get (i.set ax t))) ∧
        Real.exp (y.get i) = Real.exp (a.get i) / ∑ t ∈ range (a.shape.getD ax 0), Real.exp (a.get (i.set ax t)) := by
  by_cases h0 : zeroDimAxis a.shape axis
  · left
    rw [sm_logSoftmaxForward_zero a axis h0] at h
    exact ⟨h0.1, h0.2, (Option.some.inj h).symm⟩
  right
  obtain ⟨ax, hax, hn⟩ := sm_logSoftmaxForward_some a y axis h0 h
  have hy := sm_logSoftmaxForward_eq a axis ax hax hn
  rw [h] at hy
  have hy' := Option.some.inj hy
  refine ⟨ax, hax, hn, by rw [hy']; rfl, by rw [hy']; exact ofFn_wf _ _, ?_⟩
  intro i hi
  have hget : y.get i = sm_ls a.get (a.shape.getD ax 0) ax i := by
    rw [hy', get_ofFn _ _ _ hi]
  refine ⟨?_, by rw [hget]; rfl, ?_⟩
  · rw [hget, ← sm_logsoftmax_fn a ax i hn, sm_fibreSum_eq]
    rfl
  · rw [hget, sm_exp_ls _ _ _ _ hn]; rfl


example : ∃ y, softmaxForward (⟨[2, 2], [1, 2, 3, 4]⟩ : NDArray ℝ) (-1) = some y :=
  (softmax_accepts_iff _ _).1.2 (Or.inr ⟨1, rfl, by decide⟩)

example : ∃ y, logSoftmaxForward (⟨[2, 2], [1, 2, 3, 4]⟩ : NDArray ℝ) 0 = some y :=
  (softmax_accepts_iff _ _).2.2 (Or.inr ⟨0, rfl, by decide⟩)

/-! non-vacuity of the 0-d branch: the accepted calls (value, gradient), the rejected neighbours -/
example : softmaxForward (⟨[], [3]⟩ : NDArray ℝ) 0 = some ⟨[], [1]⟩ := softmax_zero_dim _ rfl 0 (Or.inl rfl)
example : logSoftmaxForward (⟨[], [3]⟩ : NDArray ℝ) (-1) = some ⟨[], [0]⟩ := log_softmax_zero_dim _ rfl (-1) (Or.inr rfl)
example : softmaxBackward (⟨[], [5]⟩ : NDArray ℝ) ⟨[], [1]⟩ (-1) = some ⟨[], [0]⟩ :=
  softmax_zero_dim_grad ⟨[], [3]⟩ _ _ rfl (-1) (Or.inr rfl) (softmax_zero_dim _ rfl (-1) (Or.inr rfl))
example : logSoftmaxBackward (⟨[], [5]⟩ : NDArray ℝ) ⟨[], [0]⟩ 0 = some ⟨[], [0]⟩ :=
  log_softmax_zero_dim_grad ⟨[], [3]⟩ _ _ rfl 0 (Or.inl rfl) (log_softmax_zero_dim _ rfl 0 (Or.inl rfl))
example : softmaxForward (⟨[], [3]⟩ : NDArray ℝ) 1 = none := by
  have h := (softmax_zero_dim_accepts (⟨[], [3]⟩ : NDArray ℝ) rfl 1).1
  cases hh : softmaxForward (⟨[], [3]⟩ : NDArray ℝ) 1 with
  | none => rfl
  | some y => exact absurd (h.1 ⟨y, hh⟩) (by decide)
example : logSoftmaxForward (⟨[], [3]⟩ : NDArray ℝ) (-2) = none := by
  have h := (softmax_zero_dim_accepts (⟨[], [3]⟩ : NDArray ℝ) rfl (-2)).2
  cases hh : logSoftmaxForward (⟨[], [3]⟩ : NDArray ℝ) (-2) with
  | none => rfl
  | some y => exact absurd (h.1 ⟨y, hh⟩) (by decide)

end Softmax

/-! ## 6. losses: mse, nll, cross-entropy -/
section Losses
open Proofs.NL
variable {R : Type} [CommRing R]

/-- **mse (unreduced)**: accepted exactly for operands of equal shape (no broadcasting); same shape;
    `out[i] = (p[i] − t[i])²`.  (The `mean` / `sum` reduction is the tensor-level op.) -/
theorem mse_spec (p t : NDArray R) (hp : p.WF) (ht : t.WF) :
    ((∃ y, mseForward p t = some y) ↔ p.shape = t.shape) ∧
    ∀ y, mseForward p t = some y → y.shape = p.shape ∧ y.WF ∧
      ∀ i, validIdx p.shape i → y.get i = (p.get i - t.get i) * (p.get i - t.get i) := by
  unfold mseForward
  refine ⟨?_, ?_⟩
  · by_cases hs : p.shape = t.shape
    · simp [hs]
    · simp [hs]
  · intro y hy
    by_cases hs : p.shape = t.shape
    · rw [if_pos hs] at hy
      have := (Option.some.inj hy).symm
      subst this
      exact ⟨rfl, Proofs.Calc.zipSame_wf _ _ _ hp ht hs, fun i hi => Proofs.Calc.get_zipSame _ _ _ hp ht hs i hi⟩
    · rw [if_neg hs] at hy; cases hy

/-- **nll: acceptance.**  Predictions must be 2-d `(N, C)`, with exactly `N` labels, all `< C`. -/
theorem nll_accepts_iff (p : NDArray R) (labels : List Nat) :
    (∃ y, nllForward p labels = some y) ↔
      ∃ n c, p.shape = [n, c] ∧ labels.length = n ∧ ∀ l ∈ labels, l < c := by
  constructor
  · rintro ⟨y, h⟩
    unfold nllForward at h
    split at h
    · rename_i n c hps
      split_ifs at h with hl
      exact ⟨n, c, hps, hl.1, by simpa using hl.2⟩
    · cases h
  · rintro ⟨n, c, hps, hl, hall⟩
    unfold nllForward
    rw [hps]
    simp only []
    rw [if_pos ⟨hl, by simpa using hall⟩]
    exact ⟨_, rfl⟩

example : (mseForward (⟨[2], [3, 5]⟩ : NDArray Int) ⟨[2], [1, 1]⟩).map (·.data) = some [4, 16] := by decide

example : (nllForward (⟨[2, 2], [1, 2, 3, 4]⟩ : NDArray Int) [1, 0]).map (·.data) = some [-2, -3] := by decide

theorem sn_nll_inv {α : Type} [Zero α] [Neg α] (p y : NDArray α) (labels : List Nat) (h : nllForward p labels = some y) :
    ∃ n c, p.shape = [n, c] ∧ labels.length = n ∧ (∀ l ∈ labels, l < c) ∧
      y = ofFn [n] (fun i => - p.get [getI i 0, labels.getD (getI i 0) 0]) := by
  unfold nllForward at h
  split at h
  · rename_i n c hps
    split_ifs at h with hl
    exact ⟨n, c, hps, hl.1, by simpa using hl.2, (Option.some.inj h).symm⟩
  · cases h

/-- **nll (unreduced)**: shape `(N,)`, `out[n] = −p[n, label_n]`, the label being a valid column. -/
theorem nll_forward_spec {R : Type} [CommRing R] (p y : NDArray R) (labels : List Nat) (h : nllForward p labels = some y) :
    ∃ n c, p.shape = [n, c] ∧ labels.length = n ∧ y.shape = [n] ∧ y.WF ∧
      ∀ i, i < n → labels.getD i 0 < c ∧ y.get [i] = - p.get [i, labels.getD i 0] := by
  obtain ⟨n, c, hs, hl, hall, rfl⟩ := sn_nll_inv p y labels h
  refine ⟨n, c, hs, hl, rfl, ofFn_wf _ _, fun i hi => ⟨?_, ?_⟩⟩
  · rw [List.getD_eq_getElem _ _ (by omega)]
    exact hall _ (List.getElem_mem _)
  · rw [get_ofFn _ _ _ (by simp [validIdx, hi])]
    rfl

/-- **cross-entropy (unreduced, over ℝ)**: accepted exactly for 2-d logits `(N, C)` with `C ≠ 0`,
    exactly `N` labels, all `< C` (corner: `C = 0` is rejected even when `N = 0`, because the
    log-softmax step refuses an empty axis).  Shape `(N,)` and
    `out[n] = −(x[n, label_n] − log Σ_{j<C} exp x[n, j])`
    `       = −(x[n, label_n] − (M + log Σ_j exp(x[n, j] − M)))`, `M` the maximum of row `n`. -/
theorem cross_entropy_spec (x : NDArray ℝ) (labels : List Nat) :
    ((∃ y, crossEntropyForward x labels = some y) ↔
      ∃ n c, x.shape = [n, c] ∧ c ≠ 0 ∧ labels.length = n ∧ ∀ l ∈ labels, l < c) ∧
    ∀ y, crossEntropyForward x labels = some y →
      ∃ n c, x.shape = [n, c] ∧ y.shape = [n] ∧ y.WF ∧
        ∀ i, i < n →
          y.get [i] = -(x.get [i, labels.getD i 0] - Real.log (∑ j ∈ range c, Real.exp (x.get [i, j]))) ∧
          y.get [i] = -(x.get [i, labels.getD i 0] - (fibreMax x 1 [i, labels.getD i 0] +
            Real.log (∑ j ∈ range c, Real.exp (x.get [i, j] - fibreMax x 1 [i, labels.getD i 0])))) := by
  have hinv : ∀ y, crossEntropyForward x labels = some y →
      ∃ n c ls, x.shape = [n, c] ∧ c ≠ 0 ∧ labels.length = n ∧ (∀ l ∈ labels, l < c) ∧
        logSoftmaxForward x 1 = some ls ∧ y = ofFn [n] (fun i => - ls.get [getI i 0, labels.getD (getI i 0) 0]) := by
    intro y h
    unfold crossEntropyForward at h
    by_cases h2 : x.shape.length ≠ 2
    · simp [h2] at h
    · cases hls : logSoftmaxForward x 1 with
      | none => simp [h2, hls] at h
      | some ls =>
        simp only [h2, hls, if_false, Option.bind_eq_bind, Option.bind_some] at h
        have h' : nllForward ls labels = some y := by simpa using h
        obtain ⟨n, c, hs, hl, hall, hy⟩ := sn_nll_inv ls y labels h'
        obtain ⟨-, h01, -⟩ | ⟨ax, hax, hn, hlss, -, -⟩ := log_softmax_spec x ls 1 hls
        · exact absurd h01 (by decide)
        rw [hlss] at hs
        rw [hs] at hax hn
        have hax1 : ax = 1 := by
          have : normAxis 2 1 = some 1 := rfl
          simp only [List.length_cons, List.length_nil] at hax
          rw [this] at hax
          exact (Option.some.inj hax).symm
        subst hax1
        exact ⟨n, c, ls, hs, by simpa using hn, hl, hall, rfl, hy⟩
  refine ⟨⟨?_, ?_⟩, ?_⟩
  · rintro ⟨y, h⟩
    obtain ⟨n, c, ls, h1, h2, h3, h4, -, -⟩ := hinv y h
    exact ⟨n, c, h1, h2, h3, h4⟩
  · rintro ⟨n, c, hs, hc, hl, hall⟩
    have hax : normAxis x.shape.length 1 = some 1 := by rw [hs]; rfl
    have hn : x.shape.getD 1 0 ≠ 0 := by rw [hs]; simpa using hc
    have hls := sm_logSoftmaxForward_eq x 1 1 hax hn
    unfold crossEntropyForward
    rw [hls]
    have h2 : ¬ x.shape.length ≠ 2 := by rw [hs]; simp
    simp only [h2, if_false, Option.bind_eq_bind, Option.bind_some]
    unfold nllForward
    simp only [ofFn_shape, hs]
    rw [if_pos ⟨hl, by simpa using hall⟩]
    exact ⟨_, rfl⟩
  · intro y h
    obtain ⟨n, c, ls, hs, hc, hl, hall, hls, hy⟩ := hinv y h
    refine ⟨n, c, hs, by rw [hy]; rfl, by rw [hy]; exact ofFn_wf _ _, ?_⟩
    intro i hi
    obtain ⟨-, h01, -⟩ | ⟨ax, hax, hn, hlss, -, hlsget⟩ := log_softmax_spec x ls 1 hls
    · exact absurd h01 (by decide)
    have hax1 : ax = 1 := by
      have : normAxis 2 1 = some 1 := rfl
      rw [hs] at hax
      simp only [List.length_cons, List.length_nil] at hax
      rw [this] at hax
      exact (Option.some.inj hax).symm
    subst hax1
    have hlab : labels.getD i 0 < c := by
      rw [List.getD_eq_getElem _ _ (by omega)]
      exact hall _ (List.getElem_mem _)
    have hv : validIdx x.shape [i, labels.getD i 0] := by rw [hs]; exact ⟨hi, hlab, trivial⟩
    obtain ⟨e1, e2, -⟩ := hlsget _ hv
    have hc' : x.shape.getD 1 0 = c := by rw [hs]; rfl
    rw [hc'] at e1 e2
    have hset : ∀ t, ([i, labels.getD i 0] : Idx).set 1 t = [i, t] := fun t => rfl
    simp only [hset] at e1 e2
    have hyget : y.get [i] = - ls.get [i, labels.getD i 0] := by
      rw [hy, get_ofFn _ _ _ (by simp [validIdx, hi])]
      rfl
    exact ⟨by rw [hyget, e2], by rw [hyget, e1]⟩

example : ∃ y, crossEntropyForward (⟨[2, 2], [1, 2, 3, 4]⟩ : NDArray ℝ) [0, 1] = some y :=
  (cross_entropy_spec _ _).1.2 ⟨2, 2, rfl, by decide, rfl, by decide⟩

end Losses

end Proofs.SpecNN
