import Proofs.AdjointAll
import Proofs.PointwiseCalc
import Proofs.AdjointNNLemmas
import SynapModel.Kernels.NN
/-!
# Vector-Jacobian products of the linear / bilinear nn ops (C02)

linear (x, W, b), nll (in the log-probabilities), mse (both arguments), conv1d / conv2d (input,
weight, bias; every geometry with at least one window), average pooling 1d / 2d.
-/
-- the well-formedness hypotheses of the operands are part of the stated interface but not always needed
set_option linter.unusedVariables false

namespace Proofs.Adjoint
open Synap Synap.NDArray Synap.Np Synap.Kernels Proofs.Core

variable {R : Type} [CommRing R]

/-- linear without bias, in `x` : `v ↦ v @ Wᵀ` -/
theorem linear_adj_x (x w y : NDArray R) (hx : x.WF) (hw : w.WF) (h : linearForward x w none = some y) :
    IsAdjoint (R := R) x.shape y.shape (fun v => linearForward v w none) (fun g => (linearBackward g x w none).map (·.1)) := by
  cases hwt : swapaxes w 0 1 with
  | none => simp [linearForward, hwt] at h
  | some wt =>
    have h' : matmulForward x wt = some y := by simpa [linearForward, hwt] using h
    obtain ⟨hwtwf, hwtl⟩ := swapaxes_wfE w wt 0 1 hwt
    refine (matmul_adj_left x wt y hx hwtwf h').congrB ?_ ?_
    · intro v _ _
      simp [linearForward, hwt]
    · intro g hg hgs
      obtain ⟨_, b2, _, hB2, _, _, _, hb2s, _⟩ :=
        matmul_adj_right x wt y hx hwtwf h' (zeros wt.shape) g (zeros_wf _) rfl hg hgs
      cases hmb : matmulBackward g x wt with
      | none => simp [hmb] at hB2
      | some pr =>
        obtain ⟨gx, gwt⟩ := pr
        simp only [hmb, Option.map_some, Option.some.injEq] at hB2
        subst hB2
        obtain ⟨gt, hgt⟩ := swapaxes_someE w wt gwt 0 1 hwt (by rw [hb2s, hwtl])
        simp [linearBackward, hwt, hmb, hgt]

/-- linear without bias, in `W` : `V ↦ x @ Vᵀ` -/
theorem linear_adj_w (x w y : NDArray R) (hx : x.WF) (hw : w.WF) (h : linearForward x w none = some y) :
    IsAdjoint (R := R) w.shape y.shape (fun v => linearForward x v none) (fun g => (linearBackward g x w none).map (·.2.1)) := by
  cases hwt : swapaxes w 0 1 with
  | none => simp [linearForward, hwt] at h
  | some wt =>
    have h' : matmulForward x wt = some y := by simpa [linearForward, hwt] using h
    obtain ⟨hwtwf, hwtl⟩ := swapaxes_wfE w wt 0 1 hwt
    have k1 : IsAdjoint (R := R) w.shape wt.shape (fun v => swapaxes v 0 1) (fun g => swapaxes g 0 1) :=
      transpose_adj w wt 0 1 hw hwt
    refine (k1.comp (matmul_adj_right x wt y hx hwtwf h')).congrB ?_ ?_
    · intro v _ _
      simp only [linearForward, Option.bind_eq_bind]
    · intro g hg hgs
      simp only [linearBackward, hwt, Option.bind_eq_bind, Option.bind_some, Option.pure_def]
      cases hmb : matmulBackward g x wt with
      | none => rfl
      | some pr =>
        obtain ⟨gx, gwt⟩ := pr
        simp only [Option.bind_some, Option.map_some]
        cases swapaxes gwt 0 1 <;> rfl

/-- linear with bias, in the bias (x @ Wᵀ contributes a constant) -/
theorem linear_adj_b (x w b y : NDArray R) (hx : x.WF) (hw : w.WF) (hb : b.WF) (h : linearForward x w (some b) = some y)
    (hx2 : x.shape.length = 2) (hw2 : w.shape.length = 2) :
    IsAdjoint (R := R) b.shape y.shape (fun v => linearForward (zeros x.shape) w (some v))
      (fun g => (linearBackward g x w (some b)).bind (·.2.2)) := by
  cases hwt : swapaxes w 0 1 with
  | none => simp [linearForward, hwt] at h
  | some wt =>
    have h' : addmmForward b x wt = some y := by simpa [linearForward, hwt] using h
    obtain ⟨hwtwf, hwtl⟩ := swapaxes_wfE w wt 0 1 hwt
    have hwt2 : wt.shape.length = 2 := hwtl.trans hw2
    refine (addmm_adj_a b x wt y hb hx hwtwf h' hx2 hwt2).congrB ?_ ?_
    · intro v _ _
      simp [linearForward, hwt]
    · intro g hg hgs
      obtain ⟨_, b2, _, hB2, _, _, _, hb2s, _⟩ :=
        addmm_adj_c b x wt y hb hx hwtwf h' hx2 hwt2 (zeros wt.shape) g (zeros_wf _) rfl hg hgs
      cases hmb : addmmBackward g b x wt with
      | none => simp [hmb] at hB2
      | some pr =>
        obtain ⟨gb, gx, gwt⟩ := pr
        simp only [hmb, Option.map_some, Option.some.injEq] at hB2
        subst hB2
        obtain ⟨gt, hgt⟩ := swapaxes_someE w wt gwt 0 1 hwt (by rw [hb2s, hwtl])
        simp [linearBackward, hwt, hmb, hgt]

/-- NLL is linear in the log-probabilities: `-p[n, label_n]` -/
theorem nll_adj (p y : NDArray R) (labels : List Nat) (hp : p.WF) (h : nllForward p labels = some y) :
    IsAdjoint (R := R) p.shape y.shape (fun v => nllForward v labels) (fun g => some (nllBackward g p labels)) := by
  unfold nllForward at h
  split at h
  · rename_i n c hps
    split at h
    · rename_i hc
      injection h with h
      subst h
      intro v g hv hvs hg hgs
      have hF : nllForward v labels
          = some (ofFn [n] (fun i => - v.get [getI i 0, labels.getD (getI i 0) 0])) := by
        simp only [nllForward, hvs, hps]
        rw [if_pos hc]
      refine ⟨_, _, hF, rfl, ofFn_wf _ _, rfl, ofFn_wf _ _, rfl, ?_⟩
      rw [dot_ofFn, nllBackward, hps, dot_ofFn_right _ _ _ (hvs.trans hps)]
      simp only [sum_allIdx_cons, sum_allIdx_nil, getI_cons_zero, getI_cons_succ]
      apply Finset.sum_congr rfl
      intro a ha
      rw [Finset.mem_range] at ha
      have hlab : labels.getD a 0 < c := by
        have h2 := hc.2
        rw [List.all_eq_true] at h2
        have hal : a < labels.length := by rw [hc.1]; exact ha
        have := h2 (labels.getD a 0) (by
          rw [List.getD_eq_getElem _ _ hal]; exact List.getElem_mem hal)
        simpa using this
      rw [Finset.sum_eq_single (labels.getD a 0)]
      · simp
      · intro b _ hb
        have hb' : ¬ labels.getD a 0 = b := fun e => hb e.symm
        rw [List.getD_eq_getElem?_getD] at hb'
        simp [hb']
      · intro hb
        exact absurd (Finset.mem_range.2 hlab) hb
    · cases h
  · cases h

/-- conv1d (no bias) in the input: cross-correlation with a fixed kernel; its transpose scatters the
    gradient back through the windows -/
theorem conv1d_adj_x (x w y : NDArray R) (s p d : Nat) (hx : x.WF) (hw : w.WF) (h : conv1dForward x w none s p d = some y) :
    IsAdjoint (R := R) x.shape y.shape (fun v => conv1dForward v w none s p d)
      (fun g => (conv1dBackward g x w false s p d).map (·.1)) := by
  obtain ⟨n, c, l, co, k, lo, hxs, hws, hlo, hys, -⟩ := conv1d_someE x w y none s p d h
  intro v g hv hvs hg hgs
  have hvs' : v.shape = [n, c, l] := hvs.trans hxs
  have hgs' : g.shape = [n, co, lo] := hgs.trans hys
  refine ⟨?y, ?b, ?hF, ?hB, ?_, ?_, ?_, ?_, ?_⟩
  case hF =>
    simp only [conv1dForward, hvs', hws, hlo, ne_eq, not_true_eq_false, if_false, Bool.false_eq_true]
    rfl
  case hB =>
    simp only [conv1dBackward, hxs, hws, hgs', Option.map_some]
    rfl
  · exact ofFn_wf _ _
  · exact hys.symm
  · exact ofFn_wf _ _
  · exact hxs.symm
  · rw [dot_ofFn, dot_ofFn_right _ _ _ hvs']
    simp only [sum_allIdx_cons, sum_allIdx_nil, sum_flatMap_range, sum_map_range, getI_cons_zero,
      getI_cons_succ, readPad1_winPosE]
    refine Finset.sum_congr rfl (fun bn _ => ?_)
    exact conv_core_x (Finset.range co) (Finset.range lo) (Finset.range c) (Finset.range k)
      (Finset.range l) (fun t a q => winPos l s p d t a = some q) (fun o cc a => w.get [o, cc, a])
      (fun cc q => v.get [bn, cc, q]) (fun o t => g.get [bn, o, t])

/-- conv1d in the weight -/
theorem conv1d_adj_w (x w y : NDArray R) (s p d : Nat) (hx : x.WF) (hw : w.WF) (h : conv1dForward x w none s p d = some y) :
    IsAdjoint (R := R) w.shape y.shape (fun v => conv1dForward x v none s p d)
      (fun g => (conv1dBackward g x w false s p d).map (·.2.1)) := by
  obtain ⟨n, c, l, co, k, lo, hxs, hws, hlo, hys, -⟩ := conv1d_someE x w y none s p d h
  intro v g hv hvs hg hgs
  have hvs' : v.shape = [co, c, k] := hvs.trans hws
  have hgs' : g.shape = [n, co, lo] := hgs.trans hys
  refine ⟨?y, ?b, ?hF, ?hB, ?_, ?_, ?_, ?_, ?_⟩
  case hF =>
    simp only [conv1dForward, hvs', hxs, hlo, ne_eq, not_true_eq_false, if_false, Bool.false_eq_true]
    rfl
  case hB =>
    simp only [conv1dBackward, hxs, hws, hgs', Option.map_some]
    rfl
  · exact ofFn_wf _ _
  · exact hys.symm
  · exact ofFn_wf _ _
  · exact hws.symm
  · rw [dot_ofFn, dot_ofFn_right _ _ _ hvs']
    simp only [sum_allIdx_cons, sum_allIdx_nil, sum_flatMap_range, sum_map_range, getI_cons_zero,
      getI_cons_succ]
    exact conv_core_w (Finset.range n) (Finset.range co) (Finset.range lo) (Finset.range c)
      (Finset.range k) (fun o cc a => v.get [o, cc, a])
      (fun bn cc t a => readPad1 x 0 bn cc (winPos l s p d t a)) (fun bn o t => g.get [bn, o, t])

/-- conv1d in the bias -/
theorem conv1d_adj_b (x w b y : NDArray R) (s p d : Nat) (hx : x.WF) (hw : w.WF) (hb : b.WF) (hb1 : b.shape.length = 1)
    (h : conv1dForward x w (some b) s p d = some y) :
    IsAdjoint (R := R) b.shape y.shape (fun v => conv1dForward (zeros x.shape) w (some v) s p d)
      (fun g => (conv1dBackward g x w true s p d).bind (·.2.2)) := by
  obtain ⟨n, c, l, co, k, lo, hxs, hws, hlo, hys, hbsz⟩ := conv1d_someE x w y (some b) s p d h
  obtain ⟨m, hm⟩ := List.length_eq_one_iff.1 hb1
  have hmco : m = co := by
    have := hbsz b rfl
    rw [hm] at this
    simpa [Shape.size] using this
  subst hmco
  intro v g hv hvs hg hgs
  have hvs' : v.shape = [m] := hvs.trans hm
  have hgs' : g.shape = [n, m, lo] := hgs.trans hys
  have hvsz : v.shape.size = m := by rw [hvs']; simp [Shape.size]
  refine ⟨?y, ?b, ?hF, ?hB, ?_, ?_, ?_, ?_, ?_⟩
  case hF =>
    simp only [conv1dForward, zeros_shape, hxs, hws, hlo, hvsz, ne_eq, not_true_eq_false, if_false,
      bne_self_eq_false, Bool.false_eq_true]
    rfl
  case hB =>
    simp only [conv1dBackward, hxs, hws, hgs', if_true, Option.bind_some]
    rfl
  · exact ofFn_wf _ _
  · exact hys.symm
  · exact ofFn_wf _ _
  · exact hm.symm
  · rw [dot_ofFn, dot_ofFn_right _ _ _ hvs']
    simp only [sum_allIdx_cons, sum_allIdx_nil, sum_flatMap_range, sum_map_range, getI_cons_zero,
      getI_cons_succ, readPad1_zerosE, mul_zero, Finset.sum_const_zero, zero_add,
      ← get_singletonE v m hvs']
    rw [Finset.sum_comm]
    refine Finset.sum_congr rfl (fun o _ => ?_)
    simp only [Finset.mul_sum]

/-- conv2d in the input -/
theorem conv2d_adj_x (x w y : NDArray R) (s p d : Nat × Nat) (hx : x.WF) (hw : w.WF) (h : conv2dForward x w none s p d = some y) :
    IsAdjoint (R := R) x.shape y.shape (fun v => conv2dForward v w none s p d)
      (fun g => (conv2dBackward g x w false s p d).map (·.1)) := by
  obtain ⟨n, c, hh, ww, co, kh, kw, lh, lw, hxs, hws, hlh, hlw, hys, -⟩ := conv2d_someE x w y none s p d h
  intro v g hv hvs hg hgs
  have hvs' : v.shape = [n, c, hh, ww] := hvs.trans hxs
  have hgs' : g.shape = [n, co, lh, lw] := hgs.trans hys
  refine ⟨?y, ?b, ?hF, ?hB, ?_, ?_, ?_, ?_, ?_⟩
  case hF =>
    simp only [conv2dForward, hvs', hws, hlh, hlw, ne_eq, not_true_eq_false, if_false, Bool.false_eq_true]
    rfl
  case hB =>
    simp only [conv2dBackward, hxs, hws, hgs', Option.map_some]
    rfl
  · exact ofFn_wf _ _
  · exact hys.symm
  · exact ofFn_wf _ _
  · exact hxs.symm
  · rw [dot_ofFn, dot_ofFn_right _ _ _ hvs']
    simp only [sum_allIdx_cons, sum_allIdx_nil]
    simp only [getI_cons_zero, getI_cons_succ]
    simp only [sum_flatMap_range, sum_map_range]
    refine Finset.sum_congr rfl (fun bn _ => ?_)
    simp only [readPad2_winPosE]
    exact conv_core_x2 (Finset.range co) (Finset.range c) (Finset.range lh) (Finset.range lw)
      (Finset.range kh) (Finset.range kw) (Finset.range hh) (Finset.range ww)
      (fun t a q => winPos hh s.1 p.1 d.1 t a = some q) (fun t a q => winPos ww s.2 p.2 d.2 t a = some q)
      (fun o cc a bb => w.get [o, cc, a, bb]) (fun cc qh qw => v.get [bn, cc, qh, qw])
      (fun o th tw => g.get [bn, o, th, tw])

/-- conv2d in the weight -/
theorem conv2d_adj_w (x w y : NDArray R) (s p d : Nat × Nat) (hx : x.WF) (hw : w.WF) (h : conv2dForward x w none s p d = some y) :
    IsAdjoint (R := R) w.shape y.shape (fun v => conv2dForward x v none s p d)
      (fun g => (conv2dBackward g x w false s p d).map (·.2.1)) := by
  obtain ⟨n, c, hh, ww, co, kh, kw, lh, lw, hxs, hws, hlh, hlw, hys, -⟩ := conv2d_someE x w y none s p d h
  intro v g hv hvs hg hgs
  have hvs' : v.shape = [co, c, kh, kw] := hvs.trans hws
  have hgs' : g.shape = [n, co, lh, lw] := hgs.trans hys
  refine ⟨?y, ?b, ?hF, ?hB, ?_, ?_, ?_, ?_, ?_⟩
  case hF =>
    simp only [conv2dForward, hvs', hxs, hlh, hlw, ne_eq, not_true_eq_false, if_false, Bool.false_eq_true]
    rfl
  case hB =>
    simp only [conv2dBackward, hxs, hws, hgs', Option.map_some]
    rfl
  · exact ofFn_wf _ _
  · exact hys.symm
  · exact ofFn_wf _ _
  · exact hws.symm
  · rw [dot_ofFn, dot_ofFn_right _ _ _ hvs']
    simp only [sum_allIdx_cons, sum_allIdx_nil, sum_flatMap_range, sum_map_range, getI_cons_zero,
      getI_cons_succ]
    exact conv_core_w2 (Finset.range n) (Finset.range co) (Finset.range c) (Finset.range lh)
      (Finset.range lw) (Finset.range kh) (Finset.range kw) (fun o cc a bb => v.get [o, cc, a, bb])
      (fun bn cc th tw a bb =>
        readPad2 x 0 bn cc (winPos hh s.1 p.1 d.1 th a) (winPos ww s.2 p.2 d.2 tw bb))
      (fun bn o th tw => g.get [bn, o, th, tw])

section Field
variable {K : Type} [Field K]

/-- average pooling 1d: windows then mean (padding counted) -/
theorem avgpool1d_adj (x y : NDArray K) (k s p d : Nat) (hx : x.WF) (h : avgPool1dForward x k s p d = some y) :
    IsAdjoint (R := K) x.shape y.shape (fun v => avgPool1dForward v k s p d) (fun g => avgPool1dBackward g x k s p d) := by
  cases hpg : poolGeom1 x k s p d with
  | none => simp [avgPool1dForward, hpg] at h
  | some r =>
    obtain ⟨n, c, l, lo⟩ := r
    obtain ⟨hxs, hlo⟩ := poolGeom1_someE x k s p d _ hpg
    simp only at hxs hlo
    have hys : y.shape = [n, c, lo] := by
      simp only [avgPool1dForward, hpg, Option.bind_eq_bind, Option.bind_some, Option.pure_def,
        Option.some.injEq] at h
      rw [← h]; rfl
    intro v g hv hvs hg hgs
    have hvs' : v.shape = [n, c, l] := hvs.trans hxs
    have hgs' : g.shape = [n, c, lo] := hgs.trans hys
    refine ⟨?y, ?b, ?hF, ?hB, ?_, ?_, ?_, ?_, ?_⟩
    case hF =>
      simp only [avgPool1dForward, poolGeom1_eqE v k s p d n c l lo hvs' hlo, Option.bind_eq_bind,
        Option.bind_some, Option.pure_def]
      rfl
    case hB =>
      simp only [avgPool1dBackward, hpg, Option.bind_eq_bind, Option.bind_some, Option.pure_def]
      rfl
    · exact ofFn_wf _ _
    · exact hys.symm
    · exact ofFn_wf _ _
    · exact hxs.symm
    · rw [dot_ofFn, dot_ofFn_right _ _ _ hvs']
      simp only [sum_allIdx_cons, sum_allIdx_nil, sum_flatMap_range, sum_map_range, getI_cons_zero,
        getI_cons_succ, readPad1_winPosE, div_eq_mul_inv]
      refine Finset.sum_congr rfl (fun bn _ => Finset.sum_congr rfl (fun cc _ => ?_))
      exact pool_core (Finset.range lo) (Finset.range k) (Finset.range l)
        (fun t a q => winPos l s p d t a = some q) (fun q => v.get [bn, cc, q])
        (fun t => g.get [bn, cc, t]) ((k : K))⁻¹

/-- average pooling 2d -/
theorem avgpool2d_adj (x y : NDArray K) (k s p d : Nat × Nat) (hx : x.WF) (h : avgPool2dForward x k s p d = some y) :
    IsAdjoint (R := K) x.shape y.shape (fun v => avgPool2dForward v k s p d) (fun g => avgPool2dBackward g x k s p d) := by
  cases hpg : poolGeom2 x k s p d with
  | none => simp [avgPool2dForward, hpg] at h
  | some r =>
    obtain ⟨n, c, hh, ww, lh, lw⟩ := r
    obtain ⟨hxs, hlh, hlw⟩ := poolGeom2_someE x k s p d _ hpg
    simp only at hxs hlh hlw
    have hys : y.shape = [n, c, lh, lw] := by
      simp only [avgPool2dForward, hpg, Option.bind_eq_bind, Option.bind_some, Option.pure_def,
        Option.some.injEq] at h
      rw [← h]; rfl
    intro v g hv hvs hg hgs
    have hvs' : v.shape = [n, c, hh, ww] := hvs.trans hxs
    have hgs' : g.shape = [n, c, lh, lw] := hgs.trans hys
    refine ⟨?y, ?b, ?hF, ?hB, ?_, ?_, ?_, ?_, ?_⟩
    case hF =>
      simp only [avgPool2dForward, poolGeom2_eqE v k s p d n c hh ww lh lw hvs' hlh hlw,
        Option.bind_eq_bind, Option.bind_some, Option.pure_def]
      rfl
    case hB =>
      simp only [avgPool2dBackward, hpg, Option.bind_eq_bind, Option.bind_some, Option.pure_def]
      rfl
    · exact ofFn_wf _ _
    · exact hys.symm
    · exact ofFn_wf _ _
    · exact hxs.symm
    · rw [dot_ofFn, dot_ofFn_right _ _ _ hvs']
      simp only [sum_allIdx_cons, sum_allIdx_nil]
      simp only [getI_cons_zero, getI_cons_succ]
      simp only [sum_flatMap_range, sum_win2_iteE, div_eq_mul_inv]
      refine Finset.sum_congr rfl (fun bn _ => Finset.sum_congr rfl (fun cc _ => ?_))
      refine Eq.trans (Finset.sum_congr rfl (fun th _ => Finset.sum_congr rfl (fun tw _ => by
        rw [sum_win2_readE hh ww k s p d th tw _ rfl]))) ?_
      exact pool_core2 (Finset.range lh) (Finset.range lw) (Finset.range k.1) (Finset.range k.2)
        (Finset.range hh) (Finset.range ww)
        (fun t a q => winPos hh s.1 p.1 d.1 t a = some q) (fun t a q => winPos ww s.2 p.2 d.2 t a = some q)
        (fun qh qw => v.get [bn, cc, qh, qw]) (fun th tw => g.get [bn, cc, th, tw])
        (((k.1 * k.2 : Nat) : K))⁻¹

end Field

/-- MSE `(p − t)²` per element: the derivative in `p` is `2(p − t)` and in `t` its negative; the
    backward kernel multiplies the upstream gradient by it, for both arguments. -/
theorem mse_vjp (p t g : NDArray ℝ) (hp : p.WF) (ht : t.WF) (hg : g.WF) (hs : t.shape = p.shape) (hgs : g.shape = p.shape) :
    (∀ a b : ℝ, HasDerivAt (fun x => (x - b) * (x - b)) (2 * (a - b)) a ∧ HasDerivAt (fun x => (a - x) * (a - x)) (-(2 * (a - b))) b) ∧
    ∃ y, mseForward p t = some y ∧ y.shape = p.shape ∧
      (mseBackward g p t).1.shape = p.shape ∧ (mseBackward g p t).2.shape = p.shape ∧
      ∀ i, validIdx p.shape i →
        y.get i = (p.get i - t.get i) * (p.get i - t.get i) ∧
        (mseBackward g p t).1.get i = g.get i * (2 * (p.get i - t.get i)) ∧
        (mseBackward g p t).2.get i = g.get i * (-(2 * (p.get i - t.get i))) := by
  refine ⟨fun a b => ⟨?_, ?_⟩, ?_⟩
  · exact (((hasDerivAt_id' a).sub_const b).mul ((hasDerivAt_id' a).sub_const b)).congr_deriv (by ring)
  · exact (((hasDerivAt_id' b).const_sub a).mul ((hasDerivAt_id' b).const_sub a)).congr_deriv (by ring)
  · have hpt : p.shape = t.shape := hs.symm
    have hpair : (zipSame (fun a b => (a, b)) p t).WF := Proofs.Calc.zipSame_wf _ _ _ hp ht hpt
    have hgpair : g.shape = (zipSame (fun a b => (a, b)) p t).shape := hgs
    have hdwf : (mseBackward g p t).1.WF := Proofs.Calc.zipSame_wf _ _ _ hg hpair hgpair
    refine ⟨zipSame (fun a b => (a - b) * (a - b)) p t, by rw [mseForward, if_pos hpt], rfl, hgs, hgs, ?_⟩
    intro i hi
    have hig : validIdx g.shape i := hgs ▸ hi
    have e1 : (mseBackward g p t).1.get i = g.get i * (2 * (p.get i - t.get i)) := by
      show (zipSame _ g (zipSame _ p t)).get i = _
      rw [Proofs.Calc.get_zipSame _ _ _ hg hpair hgpair _ hig,
        Proofs.Calc.get_zipSame _ _ _ hp ht hpt _ hi]
      simp only [Nat.cast_ofNat]
      ring
    refine ⟨Proofs.Calc.get_zipSame _ _ _ hp ht hpt _ hi, e1, ?_⟩
    show ((mseBackward g p t).1.map (- ·)).get i = _
    rw [Proofs.Calc.get_map _ _ hdwf _ (by show validIdx g.shape i; exact hig), e1]
    ring

end Proofs.Adjoint
