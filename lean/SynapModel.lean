import SynapModel.Core.Shape
import SynapModel.Core.NDArray
import SynapModel.Proto
import SynapModel.Data
import SynapModel.Train
import SynapModel.Drv.Data
import SynapModel.Drv.Train
