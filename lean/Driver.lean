import SynapModel.Proto
import SynapModel.Drv.Data
import SynapModel.Drv.Train
import SynapModel.Drv.Modules
import SynapModel.Drv.Optim
import SynapModel.Drv.OptimStore
import SynapModel.Drv.Layers
import SynapModel.Drv.Tensor
import SynapModel.Drv.Init
import SynapModel.Drv.Rng
import SynapModel.Drv.Layer
import SynapModel.Drv.Conv
import SynapModel.Drv.Stab
import SynapModel.Drv.ModuleFwd
/-!
# `synapdrv` : line-protocol interpreter of the model

One request per line, one answer line per request.  The first token selects the part of the
model; a part may keep state between lines (`State`).  `reset` clears all state.
-/
open Synap

structure State where
  mods : Modules.CWorld := {}
  opt : Drv.Optim.St := .none
  optstore : Drv.OptimStore.St := .none
  bn : Drv.Layers.St := {}
  t : Drv.Tensor.St := {}
  tr : Drv.Train.St := {}
  mf : Drv.ModuleFwd.St := {}

def step (st : State) (line : String) : State × String :=
  let toks := (line.trimAscii.toString.splitOn " ").filter (· ≠ "")
  match toks with
  | [] => (st, "")
  | "data" :: rest => (st, Drv.Data.run rest)
  | "train" :: rest => let (w, o) := Drv.Train.runS st.tr rest; ({ st with tr := w }, o)
  | "mod" :: rest => let (w, o) := Drv.Modules.runC st.mods rest; ({ st with mods := w }, o)
  | "opt" :: rest => let (w, o) := Drv.Optim.run st.opt rest; ({ st with opt := w }, o)
  | "optstore" :: rest => let (w, o) := Drv.OptimStore.run st.optstore rest; ({ st with optstore := w }, o)
  | "bn" :: rest => let (w, o) := Drv.Layers.run st.bn rest; ({ st with bn := w }, o)
  | "t" :: rest => let (w, o) := Drv.Tensor.run st.t rest; ({ st with t := w }, o)
  | "init" :: rest => (st, Drv.Init.run rest)
  | "rng" :: rest => (st, Drv.Rng.run rest)
  | "layer" :: rest => (st, Drv.Layer.run rest)
  | "conv" :: rest => (st, Drv.Conv.run rest)
  | "stab" :: rest => (st, Drv.Stab.run rest)
  | "mf" :: rest => let (w, o) := Drv.ModuleFwd.run st.mf rest; ({ st with mf := w }, o)
  | "reset" :: _ => ({}, "ok")
  | _ => (st, "bad-op")

partial def loop (h : IO.FS.Stream) (out : IO.FS.Stream) (st : State) : IO Unit := do
  let line ← h.getLine
  if line.isEmpty then return ()
  let (st', o) := step st line
  out.putStrLn o
  loop h out st'

def main : IO Unit := do
  let out ← IO.getStdout
  loop (← IO.getStdin) out {}
  out.flush
