import Props.C04Logic
import Proofs.EngineDuality
/-!
# C04 — Leaf gradients accumulate exactly across any history of backward calls

Statements about `Synap.Engine.backward` for every graph and every state of the gradient buffers
(i.e. after any history of earlier calls, resets, `retain_grad`, re-use of earlier results).
-/
namespace Props.C04
open Synap.Engine Proofs.Engine

variable {G : Type}

/-- **During the traversal every non-leaf operand is freshly zeroed** (whatever an earlier call
    left on it), a leaf without gradient is zero-initialised, a leaf with a gradient is kept, and
    nothing else is touched. -/
theorem traversal_zeroes_nonleaf_operands (ns : Graph G) (hw : WFG ns) (root : Nat) (hr : root < ns.length) :
    SameSkeleton ns (traverse ns root).ns ∧
    ∀ (v : Nat) (n n' : Node G), ns[v]? = some n → (traverse ns root).ns[v]? = some n' →
      (ChildOfReach ns root v ∧ n.reqGrad = true →
        n'.grad = if n.isLeaf then some (n.grad.getD n.zero) else some n.zero) ∧
      (¬ (ChildOfReach ns root v ∧ n.reqGrad = true) → n'.grad = n.grad) :=
  traverse_grads ns hw root hr

variable [AddCommMonoid G]

/-- **No gradient left over on a non-leaf tensor leaks into a later call**: two states that differ
    only in what earlier calls left on non-leaf tensors produce the same trace and the same
    gradients on every reachable node and every leaf. -/
theorem no_leftover_leak (a b : Graph G) (hw : WFG a) (hab : AgreeUpToNonLeafGrads a b)
    (root : Nat) (g : G) (retainAll : Bool) :
    (backward a root g retainAll).isSome = (backward b root g retainAll).isSome ∧
    ∀ a' ta b' tb, backward a root g retainAll = some (a', ta) → backward b root g retainAll = some (b', tb) →
      ta = tb ∧ ∀ (v : Nat) (n m : Node G), a'[v]? = some n → b'[v]? = some m →
        (Reach a root v ∨ n.isLeaf = true) → m.grad = n.grad :=
  Proofs.Engine.no_leftover_leak a b hw hab root g retainAll

/-- **Leaf gradients accumulate**: what a backward call adds to a leaf does not depend on what any
    buffer held before the call (subtraction-free: the same call on two states that differ only in
    their buffers shifts every leaf by the same amount).  Hence after any history the leaf holds
    the sum of the per-call gradients since its last reset. -/
theorem leaf_gradients_accumulate (a b : Graph G) (hw : WFG a) (hab : SameSkeleton a b)
    (hz : ∀ (v : Nat) (n : Node G), a[v]? = some n → n.zero = 0) (hq : BackImpliesReq a)
    (root : Nat) (g : G) (retainAll : Bool)
    (a' b' : Graph G) (ta tb : List TrEv)
    (ha : backward a root g retainAll = some (a', ta)) (hb' : backward b root g retainAll = some (b', tb))
    (l : Nat) (n : Node G) (hn : a[l]? = some n) (hleaf : n.isLeaf = true) :
    gradOf a' l + gradOf b l = gradOf b' l + gradOf a l :=
  backward_leaf_shift a b hw hab hq hz root g retainAll a' b' ta tb ha hb' l n hn hleaf

/-- **Tensors not reachable from the root of a call are not changed by it**, and the call changes
    nothing but gradient buffers. -/
theorem unreachable_untouched (ns : Graph G) (hw : WFG ns) (root : Nat) (g : G) (retainAll : Bool)
    (ns' : Graph G) (tr : List TrEv) (h : backward ns root g retainAll = some (ns', tr)) :
    SameSkeleton ns ns' ∧
    (∀ v, ¬ Reach ns root v → ns'[v]? = ns[v]?) ∧
    (∀ v n n', v ≠ root → ns[v]? = some n → ns'[v]? = some n' → n.reqGrad = false → n'.grad = n.grad) :=
  backward_frame ns hw root g retainAll ns' tr h

/-! ### Non-vacuity: the history `l1.backward(); (l1 + l2).backward()` over `Int` — the gradient
left on `l1` by the first call does not reach the leaf a second time -/
def g0 : Graph Int := [
  { children := [], reqGrad := true, back := none, retain := false, grad := none, zero := 0 },          -- x
  { children := [0], reqGrad := true, back := some (fun γ => some [some (2 * γ)]), retain := false, grad := none, zero := 0 },  -- l1 = 2x
  { children := [0], reqGrad := true, back := some (fun γ => some [some (3 * γ)]), retain := false, grad := none, zero := 0 },  -- l2 = 3x
  { children := [1, 2], reqGrad := true, back := some (fun γ => some [some γ, some γ]), retain := false, grad := none, zero := 0 } ] -- l1 + l2

example : ((backward g0 1 1 false).bind (fun r => backward r.1 3 1 false)).map (fun r => r.1.map (·.grad))
    = some [some 7, none, none, some 1] := by decide   -- 2 (first call) + 5 (second call), not 2 + 7

end Props.C04
