import Proofs.KernelCallsTie
/-!
# C01 — which NumPy calls the array kernels make, read from the source on this run

`Synap.Gen.Calls.*` (file `SynapModel/Generated/KernelCalls.lean`) is regenerated from `/repo/synapgrad/cpu_ops.py` by
`harness/array_formulas.py` every time a check runs; statements and proofs are in `Proofs/KernelCallsTie.lean`: the model kernel
equals the generated composition of `Synap.NpCall.*` for every array and argument over any scalar type.
-/
namespace Props.C01

/-- transpose: forward and backward are `np.swapaxes` with the same two axes -/
theorem src_calls_transpose : type_of% @Proofs.KernelCallsTie.transpose_is_src := @Proofs.KernelCallsTie.transpose_is_src

/-- movedim: backward is `np.moveaxis(grad, destination, source)` -/
theorem src_calls_movedim : type_of% @Proofs.KernelCallsTie.movedim_is_src := @Proofs.KernelCallsTie.movedim_is_src

/-- reshape: backward reshapes the gradient to the operand shape -/
theorem src_calls_reshape : type_of% @Proofs.KernelCallsTie.reshape_is_src := @Proofs.KernelCallsTie.reshape_is_src

/-- squeeze backward reshapes to the operand shape -/
theorem src_calls_squeeze_backward : type_of% @Proofs.KernelCallsTie.squeeze_backward_is_src := @Proofs.KernelCallsTie.squeeze_backward_is_src

/-- unsqueeze: `np.expand_dims` / `np.squeeze` over the same axes -/
theorem src_calls_unsqueeze : type_of% @Proofs.KernelCallsTie.unsqueeze_is_src := @Proofs.KernelCallsTie.unsqueeze_is_src

/-- matmul: `grad @ swapaxes(b,-2,-1)` and `swapaxes(a,-2,-1) @ grad`, each unbroadcast to its operand shape -/
theorem src_calls_matmul : type_of% @Proofs.KernelCallsTie.matmul_is_src := @Proofs.KernelCallsTie.matmul_is_src

/-- stack: backward is the unbind of the gradient along the same axis -/
theorem src_calls_stack : type_of% @Proofs.KernelCallsTie.stack_is_src := @Proofs.KernelCallsTie.stack_is_src

/-- indexing: backward is the scatter-add (`np.add.at`) of the gradient into zeros of the operand shape -/
theorem src_calls_slice : type_of% @Proofs.KernelCallsTie.slice_is_src := @Proofs.KernelCallsTie.slice_is_src

end Props.C01
