import Props.C05Formulas
import Props.C05Calls
import Proofs.Core
import Proofs.SpecLemmas
import SynapModel.Ops
import SynapModel.Ctors
import Proofs.SpecOps
/-!
# C05 — Forward results of tensor ops match the NumPy / PyTorch definition they mirror

Each executable definition of the model is proved equal to its one-line mathematical reading
(value at every index + result shape), for every shape and every accepted argument value;
wrapper logic (flatten's dim handling, unfold's window count, constructors' shape spellings,
the iteration protocol, operator forms with Python scalars) is stated outright.
-/
namespace Props.C05
open Synap Synap.NDArray Synap.Np Synap.Kernels Synap.Api Synap.Ops Proofs.Core
open Proofs.Adjoint Proofs.Spec

variable {R : Type} [CommRing R]

/-- **flatten(start, end)**: accepted exactly when both dims are in `[-ndim, ndim)` (with `ndim`
    read as 1 for a 0-d tensor) and `start ≤ end` after normalisation; the result merges the dims
    `start..end` into one and keeps the others — never another shape. -/
theorem flatten_spec (s : Shape) (hs : 0 < s.length) (st en : Int) :
    let nd : Int := s.length
    let ok := (-nd ≤ st ∧ st < nd ∧ -nd ≤ en ∧ en < nd)
    let a := if st < 0 then st + nd else st
    let b := if en < 0 then en + nd else en
    (flattenTarget s st en).isSome = decide (ok ∧ a ≤ b) ∧
    (ok → a ≤ b → ∀ (x y : NDArray R), x.WF → x.shape = s → flattenForward x st en = some y →
      y.shape = s.take a.toNat ++ [((s.drop a.toNat).take (b.toNat - a.toNat + 1)).foldr (· * ·) 1] ++ s.drop (b.toNat + 1) ∧
      y.data = x.data) := by
  intro nd ok a b
  have hT := flattenTarget_eq s hs st en
  simp only at hT
  change flattenTarget s st en = if ok then (if a ≤ b then some (if a < b then
    (s.take a.toNat).map Int.ofNat ++ [-1] ++ (s.drop (b.toNat + 1)).map Int.ofNat else s.map Int.ofNat) else none) else none at hT
  constructor
  · rw [hT]
    by_cases hok : ok
    · by_cases hab : a ≤ b
      · simp [hok, hab]
      · simp [hok, hab]
    · simp [hok]
  · intro hok hab x y hx hxs h
    rw [if_pos hok, if_pos hab] at hT
    unfold flattenForward at h
    rw [hxs, hT] at h
    simp only [Option.bind_eq_bind, Option.bind_some] at h
    unfold reshape at h
    rw [hxs] at h
    cases h0 : resolveShape (Shape.size s) (if a < b then _ else _) with
    | none => rw [h0] at h; simp at h
    | some s' =>
      rw [h0] at h
      simp only [Option.map_some, Option.some.injEq] at h
      subst h
      have hsz := resolveShape_size _ _ _ h0
      refine ⟨?_, reshapeTo_data x hx s' (by rw [hsz, hxs])⟩
      show s' = _
      obtain ⟨h1, h2, h3, h4⟩ := hok
      have ha0 : 0 ≤ a := by simp only [a]; split_ifs <;> omega
      have hbn : b < nd := by simp only [b]; split_ifs <;> omega
      have hA : a.toNat ≤ b.toNat := by omega
      have hB : b.toNat < s.length := by omega
      by_cases hlt : a < b
      · rw [if_pos hlt, resolveShape_hole] at h0
        have hsplit : s = s.take a.toNat ++ ((s.drop a.toNat).take (b.toNat - a.toNat + 1) ++ s.drop (b.toNat + 1)) := by
          have e1 : s.drop (b.toNat + 1) = (s.drop a.toNat).drop (b.toNat - a.toNat + 1) := by
            rw [List.drop_drop]; congr 1; omega
          rw [e1, List.take_append_drop, List.take_append_drop]
        have hsize : Shape.size s = Shape.size ((s.drop a.toNat).take (b.toNat - a.toNat + 1)) *
            Shape.size (s.take a.toNat ++ s.drop (b.toNat + 1)) := by
          conv_lhs => rw [hsplit]
          simp only [size_append]
          ac_rfl
        by_cases hz : Shape.size (s.take a.toNat ++ s.drop (b.toNat + 1)) = 0
        · rw [if_pos hz] at h0; cases h0
        · rw [if_neg hz] at h0
          by_cases hm : Shape.size s % Shape.size (s.take a.toNat ++ s.drop (b.toNat + 1)) = 0
          · rw [if_pos hm] at h0
            rw [← Option.some.inj h0, hsize, Nat.mul_div_cancel _ (Nat.pos_of_ne_zero hz)]
            rfl
          · rw [if_neg hm] at h0; cases h0
      · rw [if_neg hlt, resolveShape_full] at h0
        have hab' : b.toNat = a.toNat := by omega
        have hAl : a.toNat < s.length := by omega
        have e : List.take (0 + 1) (List.drop a.toNat s) = [s[a.toNat]] := by
          rw [List.drop_eq_getElem_cons hAl]; rfl
        rw [← Option.some.inj h0, hab', Nat.sub_self, e, foldr_single]
        conv_lhs => rw [← List.take_append_drop a.toNat s, List.drop_eq_getElem_cons hAl]
        simp

/-- **Tensor.unfold(dimension, size, step)**: `out[…, w, …, k] = x[…, w·step + k, …]`, with
    `(n − size)/step + 1` windows, the window contents in a new last axis; rejected when
    `size > n`, or size / step are not positive, or the dimension is out of range. -/
theorem unfold_dim_spec (x y : NDArray R) (hx : x.WF) (dimension size step : Int) (h : unfoldDimForward x dimension size step = some y) :
    ∃ d, normAxis x.shape.length dimension = some d ∧ 0 < size ∧ 0 < step ∧ size.toNat ≤ x.shape.getD d 0 ∧
      y.shape = (x.shape.set d ((x.shape.getD d 0 - size.toNat) / step.toNat + 1)) ++ [size.toNat] ∧
      ∀ j, validIdx y.shape j →
        y.get j = x.get ((j.dropLast).set d (j.getD d 0 * step.toNat + j.getLastD 0)) := by
  have _ := hx
  unfold unfoldDimForward at h
  cases h0 : unfoldDimCheck x.shape dimension size step with
  | none => simp [h0] at h
  | some q =>
    obtain ⟨d, sz, st, cnt⟩ := q
    simp only [h0, Option.bind_eq_bind, Option.bind_some, Option.pure_def, Option.some.injEq] at h
    obtain ⟨hd, hst, hsz, hcnt⟩ := unfoldDimCheck_spec h0
    obtain ⟨hn, h1, h2, rfl, rfl⟩ := unfoldDimCheck_inv h0
    subst hcnt
    have hshape : (x.shape.zipIdx.map (fun (p : Nat × Nat) => if p.2 = d then (x.shape.getD d 0 - size.toNat) / step.toNat + 1 else p.1))
        = x.shape.set d ((x.shape.getD d 0 - size.toNat) / step.toNat + 1) :=
      zipIdx_map_ite_eq_set x.shape d (fun _ => (x.shape.getD d 0 - size.toNat) / step.toNat + 1)
    subst h
    refine ⟨d, hn, h1, h2, hsz, ?_, ?_⟩
    · show _ ++ _ = _
      rw [← hshape]
    · intro j hj
      change validIdx (_ ++ [size.toNat]) j at hj
      rw [get_gather _ _ _ _ hj]
      congr 1
      have hlen := validIdx_length _ _ hj
      simp only [List.length_append, List.length_map, List.length_zipIdx, List.length_singleton] at hlen
      unfold unfoldDimMap
      have := zipIdx_map_ite_eq_set j.dropLast d (fun v => v * step.toNat + j.getLastD 0)
      simp only at this ⊢
      rw [this]
      have hdl' : d < j.length - 1 := by omega
      have hg : (j.dropLast).getD d 0 = j.getD d 0 := by
        rw [List.getD_eq_getElem?_getD, List.getD_eq_getElem?_getD, List.getElem?_dropLast, if_pos hdl']
      rw [hg]

/-- **sum over the named dims**: the value at an output index is the sum of the inputs that agree
    with it off the reduced axes; the shape drops (or keeps as 1) exactly the reduced axes.  The dims
    are normalised by `Axes.normRed` (`axes_normRed_iff`): `None`, an int in `[-ndim, ndim)`, a tuple of
    distinct in-range ints — and, on a 0-d operand, the ints `0` and `-1`, which name no axis
    (`axes = []`: the result is the operand, `sum_zero_dim`). -/
theorem sum_spec (x y : NDArray R) (hx : x.WF) (ax : Axes) (keep : Bool) (h : sumForward x ax keep = some y) :
    ∃ axes, ax.normRed x.shape.length = some axes ∧ y.shape = reduceShape x.shape axes keep ∧
      ∀ o, validIdx y.shape o →
        y.get o = (((allIdx x.shape).filter (fun i => reduceIdx axes keep i == o)).map x.get).sum := by
  have _ := hx
  unfold sumForward Np.sum at h
  cases h0 : ax.normRed x.shape.length with
  | none => simp [h0] at h
  | some axes =>
    simp only [h0, Option.bind_eq_bind, Option.bind_some, Option.pure_def, Option.some.injEq] at h
    subst h
    refine ⟨axes, rfl, rfl, ?_⟩
    intro o ho
    exact get_scatterAdd _ _ _ _ _ ho

/-- `sum` is accepted exactly when its dims normalise (`axes_normRed_iff` spells the condition out) -/
theorem sum_accepts_iff (x : NDArray R) (ax : Axes) (keep : Bool) :
    (sumForward x ax keep).isSome ↔ (ax.normRed x.shape.length).isSome := by
  unfold sumForward Np.sum
  cases ax.normRed x.shape.length <;> simp

/-- **matmul**: `out[…, i, j] = Σ_t a[…, i, t]·b[…, t, j]` with NumPy batch broadcasting; operands of
    rank < 2 are rejected. -/
theorem matmul_spec (a b y : NDArray R) (h : matmulForward a b = some y) :
    2 ≤ a.shape.length ∧ 2 ≤ b.shape.length ∧
    ∃ batch, broadcastShapes (a.shape.take (a.shape.length - 2)) (b.shape.take (b.shape.length - 2)) = some batch ∧
      y.shape = batch ++ [a.shape.getD (a.shape.length - 2) 0, b.shape.getD (b.shape.length - 1) 0] ∧
      ∀ j, validIdx y.shape j →
        y.get j = ((List.range (a.shape.getD (a.shape.length - 1) 0)).map (fun t =>
          a.get (bcastIdx (a.shape.take (a.shape.length - 2)) (j.take batch.length) ++ [j.getD batch.length 0, t]) *
          b.get (bcastIdx (b.shape.take (b.shape.length - 2)) (j.take batch.length) ++ [t, j.getD (batch.length + 1) 0]))).sum := by
  unfold matmulForward matmul at h
  simp only [Option.bind_eq_bind, Option.pure_def] at h
  by_cases h1 : (decide (a.shape.length < 2) || decide (b.shape.length < 2)) = true
  · rw [if_pos h1] at h; simp at h
  · rw [if_neg h1] at h
    by_cases h2 : a.shape.getD (a.shape.length - 1) 0 ≠ b.shape.getD (b.shape.length - 2) 0
    · rw [if_pos h2] at h; simp at h
    · rw [if_neg h2] at h
      simp only [Bool.or_eq_true, decide_eq_true_eq, not_or, Nat.not_lt] at h1
      cases hbc : broadcastShapes (a.shape.take (a.shape.length - 2)) (b.shape.take (b.shape.length - 2)) with
      | none => simp [hbc] at h
      | some batch =>
        simp only [hbc, Option.bind_some, Option.some.injEq] at h
        subst h
        refine ⟨h1.1, h1.2, batch, rfl, rfl, ?_⟩
        intro j hj
        change validIdx (batch ++ _) j at hj
        exact get_ofFn _ _ _ hj

/-- **Broadcasting arithmetic**: `(a ⊕ b)[j] = a[π_a j] + b[π_b j]` on the broadcast shape. -/
theorem add_spec (a b y : NDArray R) (h : addForward a b = some y) :
    broadcastShapes a.shape b.shape = some y.shape ∧
    ∀ j, validIdx y.shape j → y.get j = a.get (bcastIdx a.shape j) + b.get (bcastIdx b.shape j) := by
  unfold addForward at h
  have hs := bcast2_some _ a b y h
  refine ⟨hs, ?_⟩
  rw [bcast2_eq _ a b _ hs] at h
  intro j hj
  have := Option.some.inj h
  rw [← this, get_ofFn _ _ _ hj]

/-- **The three spellings of a shape give the same tensor**: `zeros(2,3) = zeros((2,3)) = zeros([2,3])`. -/
theorem ctor_shape_forms (dims : List Nat) :
    (ShapeArgs.varargs dims).norm = dims ∧ (ShapeArgs.tuple dims).norm = dims ∧ (ShapeArgs.list dims).norm = dims :=
  ⟨rfl, rfl, rfl⟩

/-- `np.arange(start, stop, step)` on integers: the `k`-th value is `start + k·step`, and there are
    exactly as many values as lie strictly before `stop`. -/
theorem arange_spec (start stop step : Int) (hstep : 0 < step) (vs : List Int) (h : arangeVals start stop step = some vs) :
    (∀ k, k < vs.length → vs[k]? = some (start + step * k)) ∧
    (∀ v ∈ vs, start ≤ v ∧ v < stop) ∧ (start + step * vs.length ≥ stop) := by
  unfold arangeVals at h
  rw [if_neg (by omega)] at h
  simp only [gt_iff_lt, hstep, if_true, Option.some.injEq] at h
  subst h
  set n : Int := (stop - start + step - 1) / step with hn
  have hlo : step * n ≤ stop - start + step - 1 := Int.mul_ediv_self_le (by omega)
  have hhi : stop - start + step - 1 < step * n + step := Int.lt_mul_ediv_self_add hstep
  refine ⟨?_, ?_, ?_⟩
  · intro k hk
    simp only [List.length_map, List.length_range] at hk
    simp [hk]
  · intro v hv
    simp only [List.mem_map, List.mem_range] at hv
    obtain ⟨k, hk, rfl⟩ := hv
    have hk' : (k : Int) + 1 ≤ n := by omega
    have h1 : step * ((k : Int) + 1) ≤ step * n := Int.mul_le_mul_of_nonneg_left hk' (by omega)
    have h2 : 0 ≤ step * (k : Int) := Int.mul_nonneg (by omega) (by omega)
    constructor <;> linarith
  · simp only [List.length_map, List.length_range]
    have h3 : n ≤ (n.toNat : Int) := Int.self_le_toNat n
    have h4 : step * n ≤ step * (n.toNat : Int) := Int.mul_le_mul_of_nonneg_left h3 (by omega)
    linarith

/-! ### constructor calls: argument positions and falsy-but-meaningful values (`SynapModel/Ctors.lean`) -/
section CtorCalls
open Synap.Ctors

/-- **The forms of `arange` are told apart by the NUMBER of arguments**, never by their values:
    `arange(e)`, `arange(s, e)`, `arange(s, e, d)`. -/
theorem arange_forms (s e d : Int) :
    arangeArgs [e] = some (0, e, 1) ∧ arangeArgs [s, e] = some (s, e, 1) ∧ arangeArgs [s, e, d] = some (s, e, d) ∧
    arangeArgs ([] : List Int) = none :=
  ⟨rfl, rfl, rfl, rfl⟩

/-- an explicit end of `0` is an END: `arange(s, 0)` is the interval `[s, 0)`, not `arange(0, s)` -/
theorem arange_explicit_end_zero (s d : Int) :
    arangeArgs [s, 0] = some (s, 0, 1) ∧ arangeArgs [s, 0, d] = some (s, 0, d) := ⟨rfl, rfl⟩

/-- `arange(-n, 0)` counts `-n, …, -1` (it is not the empty tensor) -/
theorem arange_negative_interval (n : Nat) :
    (arangeArgs [-(n : Int), 0]).bind (fun (s, e, d) => arangeVals s e d) =
      some ((List.range n).map (fun (k : Nat) => -(n : Int) + 1 * (k : Int))) := by
  simp [arangeArgs, arangeVals, Option.bind]

/-- a count-down to `0`: `arange(n, 0, -1)` has the `n` values `n, n-1, …, 1` -/
theorem arange_count_down (n : Nat) :
    (arangeArgs [(n : Int), 0, -1]).bind (fun (s, e, d) => arangeVals s e d) =
      some ((List.range n).map (fun (k : Nat) => (n : Int) + -1 * (k : Int))) := by
  simp [arangeArgs, arangeVals, Option.bind]

/-- an optional argument that was GIVEN is used as given whatever its truth value; omitted and `None` select the default -/
theorem opt_given_is_kept {β : Type} (v dflt : β) :
    (Opt.given v).get dflt = v ∧ (Opt.omitted : Opt β).get dflt = dflt ∧ (Opt.none : Opt β).get dflt = dflt := ⟨rfl, rfl, rfl⟩

/-- `zeros()` / `zeros(())` / `zeros([])` are 0-d; `zeros(0)` has ONE axis of extent 0 -/
theorem ctor_empty_shape_vs_zero_extent :
    (ShapeArgs.varargs []).norm = [] ∧ (ShapeArgs.tuple []).norm = [] ∧ (ShapeArgs.list []).norm = [] ∧
    (ShapeArgs.varargs [0]).norm = [0] ∧ Shape.size ([] : Shape) = 1 ∧ Shape.size [0] = 0 := by
  refine ⟨rfl, rfl, rfl, rfl, ?_, ?_⟩ <;> simp [Shape.size]

end CtorCalls

/-! ### iteration protocol -/
/-- iterator state of the model: (tensor length, next position) per live iterator -/
abbrev Iters := List (Nat × Nat)

/-- one `next()` on iterator `k`: yields the row index or `none` (StopIteration) -/
def iterNext (its : Iters) (k : Nat) : Iters × Option Nat :=
  match its[k]? with
  | some (n, pos) => if pos < n then (its.set k (n, pos + 1), some pos) else (its, none)
  | none => (its, none)

/-- rows yielded by iterator `k` along a schedule of `next` calls on several iterators -/
def rowsOf (k : Nat) : Iters → List Nat → List Nat
  | _, [] => []
  | its, j :: rest =>
    let (its', r) := iterNext its j
    (if j = k then (match r with | some p => [p] | none => []) else []) ++ rowsOf k its' rest

theorem rowsOf_cons (k : Nat) (its : Iters) (j : Nat) (rest : List Nat) :
    rowsOf k its (j :: rest) =
      (if j = k then (match (iterNext its j).2 with | some p => [p] | none => []) else []) ++
        rowsOf k (iterNext its j).1 rest := rfl

theorem iterNext_other (its : Iters) (j k : Nat) (h : j ≠ k) : (iterNext its j).1[k]? = its[k]? := by
  unfold iterNext
  cases hj : its[j]? with
  | none => rfl
  | some q =>
    obtain ⟨n, pos⟩ := q
    simp only
    split_ifs
    · simp [h]
    · rfl

theorem iterNext_self_lt (its : Iters) (k n p : Nat) (h : its[k]? = some (n, p)) (hp : p < n) :
    iterNext its k = (its.set k (n, p + 1), some p) := by
  unfold iterNext; simp [h, hp]

theorem iterNext_self_ge (its : Iters) (k n p : Nat) (h : its[k]? = some (n, p)) (hp : ¬ p < n) :
    iterNext its k = (its, none) := by
  unfold iterNext; simp [h, hp]

theorem rowsOf_eq (k n : Nat) (sched : List Nat) : ∀ (its : Iters) (p : Nat), its[k]? = some (n, p) → p ≤ n →
    rowsOf k its sched = List.range' p (min (n - p) (sched.count k)) := by
  induction sched with
  | nil => intro its p _ _; simp [rowsOf]
  | cons j rest ih =>
    intro its p h hp
    rw [rowsOf_cons]
    by_cases hjk : j = k
    · subst hjk
      rw [if_pos rfl, List.count_cons_self]
      by_cases hlt : p < n
      · rw [iterNext_self_lt its j n p h hlt]
        simp only
        have hlen : j < its.length := by
          by_contra hc
          rw [List.getElem?_eq_none (by omega)] at h
          cases h
        rw [ih (its.set j (n, p + 1)) (p + 1) (by simp [hlen]) hlt]
        have : min (n - p) (List.count j rest + 1) = min (n - (p + 1)) (List.count j rest) + 1 := by omega
        rw [this, List.range'_succ]
        rfl
      · rw [iterNext_self_ge its j n p h hlt]
        simp only
        rw [ih its p h hp]
        have h0 : n - p = 0 := by omega
        simp [h0]
    · rw [if_neg hjk, List.nil_append, List.count_cons_of_ne hjk]
      exact ih _ p (by rw [iterNext_other its j k hjk, h]) hp

/-- **Every loop over a tensor sees rows `0, 1, 2, …` in order, whatever other loops over the same
    tensor do in between** (several simultaneous or nested iterations): the rows yielded to
    iterator `k` along any interleaved schedule are an initial segment `0..m-1` of the rows. -/
theorem iteration_protocol (n nIt : Nat) (k : Nat) (hk : k < nIt) (sched : List Nat) :
    ∃ m, m ≤ n ∧ rowsOf k (List.replicate nIt (n, 0)) sched = List.range m ∧
      m = min n (sched.count k) := by
  refine ⟨min n (sched.count k), Nat.min_le_left _ _, ?_, rfl⟩
  rw [rowsOf_eq k n sched _ 0 (by simp [hk]) (Nat.zero_le _), Nat.sub_zero, List.range_eq_range']

/-! ### operator forms with Python scalars -/
variable {α : Type} [Zero α] [One α] [Add α] [Sub α] [Mul α] [Div α] [Neg α] [NatCast α]
  [OfScientific α] [LT α] [DecidableLT α] [LE α] [DecidableLE α] [Transc α]

/-- **`a - b` is `a + (b * -1)`, `a / b` is `a * b ** -1`, `s - a` is `(a * -1) + s`, …**: every operator
    form is the stated composition of `add`, `mul`, `pow`, the scalar entering as a 0-d tensor of the
    dtype of the tensor it meets. -/
theorem operator_forms (st : TState α) (a : Nat) (s : α) :
    applySOp st .addS a (.inr s) = (scalarOperand st s a).bind (fun (st1, S) => one1 (apply st1 .add [a, S])) ∧
    applySOp st .subS a (.inr s) = (scalarOperand st (-s) a).bind (fun (st1, S) => one1 (apply st1 .add [a, S])) ∧
    applySOp st .divS a (.inr s) = (scalarOperand st (Transc.pow s (-1)) a).bind (fun (st1, S) => one1 (apply st1 .mul [a, S])) ∧
    applySOp st .neg a (.inr s) = (scalarOperand st (-1) a).bind (fun (st1, S) => one1 (apply st1 .mul [a, S])) := by
  exact ⟨rfl, rfl, rfl, rfl⟩

/-! ### Every other tensor op: acceptance condition, output shape, entry formula

The statements (with their proofs and a concrete `example` each) are in `Proofs/SpecOps.lean`, a file that holds nothing
but these specification theorems and their `so_`-prefixed helper lemmas; they are re-exported here so that the audit of this
namespace covers them.  Reading, for all ranks / sizes / arguments, over any commutative ring (ordered field for max / min / mean):
* `transpose_spec`   accepted ⇔ both dims in [-n, n); shape = sizes swapped; `y[j] = x[j with positions a, b swapped]`; `transpose_same`: same dim twice = identity
* `movedim_spec`     accepted ⇔ both dims in range; shape = source axis removed and re-inserted at destination; entry through that permutation
* `reshape_spec`     accepted ⇔ sizes agree (one −1 resolved by division); row-major data unchanged
* `squeeze_all/one/many_spec`, `unsqueeze_spec`  which axes disappear / appear; data unchanged
* `concat_spec`      accepted ⇔ non-empty, dim in range, equal ranks and equal shapes off the axis; shape; `y[j]` read from the operand whose running-offset block contains `j[a]`
* `stack_spec`       accepted ⇔ non-empty, dim in [-(n+1), n+1), equal shapes; `y[insert k at a into q] = xs[k][q]`
* `unbind_spec`      one output per index along the axis, `ys[k][q] = x[insert k at a into q]`
* `index_spec`       the whole supported index language (ints incl. negative, slices with any non-zero step, one `...`, `None`, one integer list): acceptance, shape, entry position per axis; `slice_positions_pos/neg`: Python's slice arithmetic selects exactly start, start+step, … inside [start, stop)
* `mul_spec`, `neg_spec`, `mean_spec` (sum of the fibre / number of its elements, `mean_count`), `max_spec`, `min_spec` (attained on the fibre and dominating it; an int dim must satisfy `RedDimOk`: in range, or 0 / −1 on a 0-d operand) -/
alias transpose_spec := Proofs.SpecOps.transpose_spec
alias transpose_same := Proofs.SpecOps.transpose_same
alias movedim_spec := Proofs.SpecOps.movedim_spec
alias movedim_entry := Proofs.SpecOps.movedim_entry
alias reshape_spec := Proofs.SpecOps.reshape_spec
alias squeeze_all_spec := Proofs.SpecOps.squeeze_all_spec
alias squeeze_one_spec := Proofs.SpecOps.squeeze_one_spec
alias squeeze_many_spec := Proofs.SpecOps.squeeze_many_spec
alias unsqueeze_spec := Proofs.SpecOps.unsqueeze_spec
alias concat_spec := Proofs.SpecOps.concat_spec
alias stack_spec := Proofs.SpecOps.stack_spec
alias unbind_spec := Proofs.SpecOps.unbind_spec
alias index_spec := Proofs.SpecOps.index_spec
alias slice_positions_pos := Proofs.SpecOps.slice_positions_pos
alias slice_positions_neg := Proofs.SpecOps.slice_positions_neg
alias mul_spec := Proofs.SpecOps.mul_spec
alias neg_spec := Proofs.SpecOps.neg_spec
alias mean_spec := Proofs.SpecOps.mean_spec
alias mean_count := Proofs.SpecOps.mean_count
alias max_spec := Proofs.SpecOps.max_spec
alias min_spec := Proofs.SpecOps.min_spec
/-! the dims of sum / max / min, and the 0-d operand with `dim = 0 / -1` (accepted, nothing reduced; `mean` rejects) -/
alias axes_norm_iff := Proofs.SpecOps.axes_norm_iff
alias axes_normRed_iff := Proofs.SpecOps.axes_normRed_iff
alias sum_zero_dim_accepts := Proofs.SpecOps.sum_zero_dim_accepts
alias sum_zero_dim := Proofs.Adjoint.sum_zero_dim
alias max_zero_dim_accepts := Proofs.SpecOps.max_zero_dim_accepts
alias max_zero_dim := Proofs.SpecOps.max_zero_dim
alias min_zero_dim := Proofs.SpecOps.min_zero_dim
alias mean_zero_dim_rejects := Proofs.SpecOps.mean_zero_dim_rejects

end Props.C05
