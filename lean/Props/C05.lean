import SynapModel.Ops
namespace Props.C05
theorem placeholder : True := trivial
end Props.C05
