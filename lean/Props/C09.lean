import Props.C09Formulas
import Proofs.PointwiseCalc
import Mathlib.Analysis.SpecialFunctions.Exp
import Mathlib.Analysis.SpecialFunctions.Log.Basic
import Mathlib.Analysis.SpecialFunctions.Exponential
import Mathlib.Analysis.Complex.ExponentialBounds
/-!
# C09 — Stability-critical ops stay finite and accurate for large-magnitude inputs (logical core)

What a theorem over ℝ can carry: (a) the formula the kernel evaluates equals the mathematical
definition *exactly* (the max-shift and the log-sum-exp rearrangements change nothing), and
(b) every intermediate quantity the kernel forms lies in a range far from the float32 overflow
threshold, or is an overflow that is provably annihilated afterwards.  Rounding-error
propagation and IEEE overflow semantics themselves are observed by the check (the model is
executed at Float32), not proved.
-/
namespace Props.C09
open Synap Synap.NDArray Synap.Kernels Proofs.Core Proofs.Calc


/-! ### helper lemmas on list sums -/

private theorem sum_exp_shift (xs : List ℝ) (m : ℝ) :
    (xs.map (fun t => Real.exp (t - m))).sum = (xs.map Real.exp).sum / Real.exp m := by
  induction xs with
  | nil => simp
  | cons a l ih =>
    rw [List.map_cons, List.sum_cons, List.map_cons, List.sum_cons, ih, Real.exp_sub]
    ring

private theorem sum_map_nonneg (xs : List ℝ) (f : ℝ → ℝ) (hf : ∀ x ∈ xs, 0 ≤ f x) :
    0 ≤ (xs.map f).sum := by
  induction xs with
  | nil => simp
  | cons a l ih =>
    simp only [List.map_cons, List.sum_cons]
    have h1 := hf a (List.mem_cons_self ..)
    have h2 := ih (fun x hx => hf x (List.mem_cons_of_mem _ hx))
    linarith

private theorem le_sum_map_of_mem (xs : List ℝ) (f : ℝ → ℝ) (hf : ∀ x ∈ xs, 0 ≤ f x) (m : ℝ)
    (hmem : m ∈ xs) : f m ≤ (xs.map f).sum := by
  induction xs with
  | nil => simp at hmem
  | cons a l ih =>
    simp only [List.map_cons, List.sum_cons]
    have h1 := hf a (List.mem_cons_self ..)
    have h2 := sum_map_nonneg l f (fun x hx => hf x (List.mem_cons_of_mem _ hx))
    rcases List.mem_cons.mp hmem with rfl | h
    · linarith
    · have := ih (fun x hx => hf x (List.mem_cons_of_mem _ hx)) h
      linarith

private theorem sum_map_le_length (xs : List ℝ) (f : ℝ → ℝ) (hf : ∀ x ∈ xs, f x ≤ 1) :
    (xs.map f).sum ≤ xs.length := by
  induction xs with
  | nil => simp
  | cons a l ih =>
    simp only [List.map_cons, List.sum_cons, List.length_cons]
    have h1 := hf a (List.mem_cons_self ..)
    have h2 := ih (fun x hx => hf x (List.mem_cons_of_mem _ hx))
    push_cast
    linarith

private theorem sum_exp_pos (xs : List ℝ) (hne : xs ≠ []) : 0 < (xs.map Real.exp).sum := by
  cases xs with
  | nil => exact absurd rfl hne
  | cons a l =>
    have h := le_sum_map_of_mem (a :: l) Real.exp (fun x _ => (Real.exp_pos x).le) a (List.mem_cons_self ..)
    exact lt_of_lt_of_le (Real.exp_pos a) h

/-- the shifted sum lies in `[1, n]` -/
private theorem shifted_sum_bounds (xs : List ℝ) (m : ℝ) (hm : ∀ x ∈ xs, x ≤ m) (hmem : m ∈ xs) :
    1 ≤ (xs.map (fun x => Real.exp (x - m))).sum ∧ (xs.map (fun x => Real.exp (x - m))).sum ≤ xs.length := by
  constructor
  · have h := le_sum_map_of_mem xs (fun x => Real.exp (x - m)) (fun x _ => (Real.exp_pos _).le) m hmem
    simpa using h
  · exact sum_map_le_length xs _ (fun x hx => Real.exp_le_one_iff.mpr (sub_nonpos.mpr (hm x hx)))

private theorem log_shifted_sum (xs : List ℝ) (hne : xs ≠ []) (m : ℝ) :
    m + Real.log ((xs.map (fun t => Real.exp (t - m))).sum) = Real.log ((xs.map Real.exp).sum) := by
  rw [sum_exp_shift, Real.log_div (sum_exp_pos xs hne).ne' (Real.exp_pos m).ne', Real.log_exp]
  ring

/-- **float32 really overflows at the magnitudes of the property**: `e^100 > 3.5·10^38 > FLT_MAX`,
    so an unshifted `exp` of a logit of 100 is `inf` — the shifts below are necessary. -/
theorem exp_100_overflows_f32 : (3.5e38 : ℝ) < Real.exp 100 := by
  have h1 : (2.7182818283 : ℝ) < Real.exp 1 := Real.exp_one_gt_d9
  have h2 : Real.exp 100 = Real.exp 1 ^ 100 := by
    rw [← Real.exp_nat_mul]; norm_num
  rw [h2]
  have h3 : (2.7 : ℝ) ^ 100 < Real.exp 1 ^ 100 :=
    pow_lt_pow_left₀ (by linarith) (by norm_num) (by norm_num)
  have h4 : (3.5e38 : ℝ) < 2.7 ^ 100 := by norm_num
  linarith

/-- **softmax: after the max-shift every exponent is ≤ 0**, so each `exp` lies in `(0, 1]`, the sum
    lies in `[1, n]`, and every output lies in `(0, 1]` — whatever the magnitude of the logits. -/
theorem softmax_shift_range (xs : List ℝ) (hne : xs ≠ []) (m : ℝ) (hm : ∀ x ∈ xs, x ≤ m) (hmem : m ∈ xs) :
    (∀ x ∈ xs, x - m ≤ 0 ∧ 0 < Real.exp (x - m) ∧ Real.exp (x - m) ≤ 1) ∧
    1 ≤ (xs.map (fun x => Real.exp (x - m))).sum ∧ (xs.map (fun x => Real.exp (x - m))).sum ≤ xs.length ∧
    (∀ x ∈ xs, 0 < Real.exp (x - m) / (xs.map (fun t => Real.exp (t - m))).sum ∧
               Real.exp (x - m) / (xs.map (fun t => Real.exp (t - m))).sum ≤ 1) := by
  obtain ⟨hlo, hhi⟩ := shifted_sum_bounds xs m hm hmem
  have hpos : 0 < (xs.map (fun x => Real.exp (x - m))).sum := lt_of_lt_of_le one_pos hlo
  refine ⟨fun x hx => ⟨sub_nonpos.mpr (hm x hx), Real.exp_pos _,
    Real.exp_le_one_iff.mpr (sub_nonpos.mpr (hm x hx))⟩, hlo, hhi, fun x hx => ⟨?_, ?_⟩⟩
  · exact div_pos (Real.exp_pos _) hpos
  · rw [div_le_one hpos]
    exact le_sum_map_of_mem xs (fun t => Real.exp (t - m)) (fun t _ => (Real.exp_pos _).le) x hx

/-- **the shift changes nothing**: `exp(x−m)/Σ exp(t−m) = exp(x)/Σ exp(t)` for any `m` -/
theorem softmax_shift_exact (xs : List ℝ) (hne : xs ≠ []) (m x : ℝ) :
    Real.exp (x - m) / (xs.map (fun t => Real.exp (t - m))).sum = Real.exp x / (xs.map Real.exp).sum := by
  rw [sum_exp_shift, Real.exp_sub]
  have he : Real.exp m ≠ 0 := (Real.exp_pos m).ne'
  field_simp

/-- **log_softmax as computed is exactly `x − log Σ exp(t)`**, and its intermediates are tame:
    the shifted sum lies in `[1, n]`, so its logarithm lies in `[0, log n]`. -/
theorem log_softmax_exact (xs : List ℝ) (hne : xs ≠ []) (m x : ℝ) (hm : ∀ t ∈ xs, t ≤ m) (hmem : m ∈ xs) :
    x - (m + Real.log ((xs.map (fun t => Real.exp (t - m))).sum)) = x - Real.log ((xs.map Real.exp).sum) ∧
    0 ≤ Real.log ((xs.map (fun t => Real.exp (t - m))).sum) ∧
    Real.log ((xs.map (fun t => Real.exp (t - m))).sum) ≤ Real.log xs.length := by
  obtain ⟨hlo, hhi⟩ := shifted_sum_bounds xs m hm hmem
  refine ⟨by rw [log_shifted_sum xs hne m], Real.log_nonneg hlo, ?_⟩
  exact Real.log_le_log (lt_of_lt_of_le one_pos hlo) hhi

/-- the backward of log_softmax, `g − softmax·Σg`, involves no division by a probability -/
theorem log_softmax_backward_bounded (ls : ℝ) (hls : ls ≤ 0) : 0 < Real.exp ls ∧ Real.exp ls ≤ 1 := by
  exact ⟨Real.exp_pos _, Real.exp_le_one_iff.mpr hls⟩

/-- **sigmoid**: the value lies strictly between 0 and 1; for `x ≥ 0` the intermediate `exp(−x)` is
    in `(0, 1]`; for `x < 0` it may be astronomically large, but `1/(1 + E) ≤ 1/E`, so an overflow of
    `E` to `+∞` is annihilated to the correctly rounded value 0 (and never to NaN). -/
theorem sigmoid_range (x : ℝ) :
    0 < 1 / (1 + Real.exp (-x)) ∧ 1 / (1 + Real.exp (-x)) < 1 ∧
    (0 ≤ x → Real.exp (-x) ≤ 1) ∧ (1 / (1 + Real.exp (-x)) ≤ Real.exp x) := by
  have he : 0 < Real.exp (-x) := Real.exp_pos _
  have h1 : 0 < 1 + Real.exp (-x) := by linarith
  refine ⟨div_pos one_pos h1, ?_, fun hx => Real.exp_le_one_iff.mpr (by linarith), ?_⟩
  · rw [div_lt_one h1]; linarith
  · rw [div_le_iff₀ h1]
    have : Real.exp x * Real.exp (-x) = 1 := by rw [← Real.exp_add]; simp
    nlinarith [Real.exp_pos x]

/-- sigmoid backward `g·s·(1−s)` multiplies numbers in `[0,1]` -/
theorem sigmoid_backward_range (x : ℝ) :
    0 < (1 / (1 + Real.exp (-x))) * (1 - 1 / (1 + Real.exp (-x))) ∧
    (1 / (1 + Real.exp (-x))) * (1 - 1 / (1 + Real.exp (-x))) ≤ 1 / 4 := by
  have he : 0 < Real.exp (-x) := Real.exp_pos _
  have h1 : 0 < 1 + Real.exp (-x) := by linarith
  have hs0 : 0 < 1 / (1 + Real.exp (-x)) := div_pos one_pos h1
  have hs1 : 1 / (1 + Real.exp (-x)) < 1 := by rw [div_lt_one h1]; linarith
  constructor
  · exact mul_pos hs0 (by linarith)
  · nlinarith [sq_nonneg (1 / (1 + Real.exp (-x)) - 1 / 2)]

/-- tanh and its backward factor `1 − tanh²` stay in `[-1, 1]` / `[0, 1]` -/
theorem tanh_range (x : ℝ) : -1 < Real.tanh x ∧ Real.tanh x < 1 ∧ 0 < 1 - Real.tanh x ^ 2 ∧ 1 - Real.tanh x ^ 2 ≤ 1 := by
  have h1 := Real.neg_one_lt_tanh x
  have h2 := Real.tanh_lt_one x
  refine ⟨h1, h2, ?_, ?_⟩
  · nlinarith
  · nlinarith [sq_nonneg (Real.tanh x)]

/-- **selu backward** evaluates `exp(min(x, 0))`, which is in `(0, 1]` for every `x` (the unguarded
    `exp(x)·(x ≤ 0)` would be `∞·0` for large `x`). -/
theorem selu_backward_bounded (x : ℝ) : 0 < Real.exp (min x 0) ∧ Real.exp (min x 0) ≤ 1 := by
  exact ⟨Real.exp_pos _, Real.exp_le_one_iff.mpr (min_le_right _ _)⟩

/-- **BCE-with-logits**: with the shift `tn = max(−x, 0)` both exponents `−tn` and `−x−tn` are ≤ 0
    (so both `exp` are in `(0,1]` and their sum in `[1,2]`), and the value is exactly
    `(1−y)·x + log(1 + exp(−x))`. -/
theorem bce_logits_shift_nonpos (x y : ℝ) :
    let tn := max (-x) 0;
    (-tn ≤ 0) ∧ -x - tn ≤ 0 ∧ 1 ≤ Real.exp (-tn) + Real.exp (-x - tn) ∧ Real.exp (-tn) + Real.exp (-x - tn) ≤ 2 ∧
    (1 - y) * x + tn + Real.log (Real.exp (-tn) + Real.exp (-x - tn)) = (1 - y) * x + Real.log (1 + Real.exp (-x)) := by
  intro tn
  have key : ∀ t : ℝ, t + Real.log (Real.exp (-t) + Real.exp (-x - t)) = Real.log (1 + Real.exp (-x)) := by
    intro t
    have hpos : 0 < Real.exp (-t) + Real.exp (-x - t) := add_pos (Real.exp_pos _) (Real.exp_pos _)
    have : 1 + Real.exp (-x) = Real.exp t * (Real.exp (-t) + Real.exp (-x - t)) := by
      rw [mul_add, ← Real.exp_add, ← Real.exp_add]
      simp
    rw [this, Real.log_mul (Real.exp_pos t).ne' hpos.ne', Real.log_exp]
  have htn0 : 0 ≤ tn := le_max_right _ _
  have htnx : -x ≤ tn := le_max_left _ _
  refine ⟨by linarith, by linarith, ?_, ?_, ?_⟩
  · by_cases hx : 0 ≤ x
    · have : tn = 0 := max_eq_right (by linarith)
      rw [this]
      simp only [neg_zero, Real.exp_zero]
      linarith [Real.exp_pos (-x - 0)]
    · have : tn = -x := max_eq_left (by linarith)
      rw [this]
      have : -x - -x = 0 := by ring
      rw [this, Real.exp_zero]
      linarith [Real.exp_pos (- -x)]
  · have h1 : Real.exp (-tn) ≤ 1 := Real.exp_le_one_iff.mpr (by linarith)
    have h2 : Real.exp (-x - tn) ≤ 1 := Real.exp_le_one_iff.mpr (by linarith)
    linarith
  · rw [add_assoc, key tn]

/-- **cross-entropy through log_softmax is exact**: `−(x_label − log Σ exp)`; no probability is ever
    formed, so nothing underflows into a clipped logarithm. -/
theorem cross_entropy_exact (xs : List ℝ) (hne : xs ≠ []) (m xl : ℝ) (hm : ∀ t ∈ xs, t ≤ m) (hmem : m ∈ xs) (hl : xl ∈ xs) :
    -(xl - (m + Real.log ((xs.map (fun t => Real.exp (t - m))).sum))) = Real.log ((xs.map Real.exp).sum) - xl ∧
    0 ≤ Real.log ((xs.map Real.exp).sum) - xl := by
  have hlog := log_shifted_sum xs hne m
  refine ⟨by rw [hlog]; ring, ?_⟩
  have h1 : Real.exp xl ≤ (xs.map Real.exp).sum :=
    le_sum_map_of_mem xs Real.exp (fun t _ => (Real.exp_pos t).le) xl hl
  have h2 := Real.log_le_log (Real.exp_pos xl) h1
  rw [Real.log_exp] at h2
  linarith

/-! ### the model kernels, instantiated at ℝ, evaluate these formulas -/

/-- `softmaxForward` at ℝ: every entry is `exp(x − M)/Σ exp(· − M)` with `M` the maximum of its fibre,
    hence (by `softmax_shift_exact`) the mathematical softmax.  On a 0-d operand with `dim` `0` / `−1` (the only
    other accepted call) the fibre is the element itself: `M = x`, the result is `exp(x − x)/exp(x − x)`. -/
theorem softmax_model_formula (a y : NDArray ℝ) (axis : Int) (h : softmaxForward a axis = some y) :
    (a.shape = [] ∧ (axis = 0 ∨ axis = -1) ∧
      y = ⟨[], [Real.exp (a.get [] - a.get []) / Real.exp (a.get [] - a.get [])]⟩) ∨
    ∃ ax, normAxis a.shape.length axis = some ax ∧ y.shape = a.shape ∧
      ∀ i, validIdx a.shape i →
        y.get i = Real.exp (a.get i - fibreMax a ax i) / fibreSum (fun j => Real.exp (a.get j - fibreMax a ax j)) a.shape ax i := by
  unfold softmaxForward at h
  by_cases h0 : zeroDimAxis a.shape axis
  · rw [if_pos h0] at h
    exact Or.inl ⟨h0.1, h0.2, (Option.some.inj h).symm⟩
  rw [if_neg h0] at h
  right
  cases hax : normAxis a.shape.length axis with
  | none => simp [hax] at h
  | some ax =>
    simp [hax] at h
    obtain ⟨_, rfl⟩ := h
    refine ⟨ax, rfl, rfl, fun i hi => ?_⟩
    rw [get_ofFn _ _ _ hi]
    rfl

/-- non-vacuity of the 0-d case -/
example : softmaxForward (⟨[], [3]⟩ : NDArray ℝ) (-1) = some ⟨[], [Real.exp (3 - 3) / Real.exp (3 - 3)]⟩ := rfl

end Props.C09
