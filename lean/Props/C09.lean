import SynapModel.Kernels.NN
namespace Props.C09
theorem placeholder : True := trivial
end Props.C09
