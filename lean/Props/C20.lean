import SynapModel.Train
import Proofs.TrainMetrics
import Mathlib.Algebra.Order.Field.Rat
import Mathlib.Algebra.Order.Field.Basic
import Mathlib.Tactic.Linarith
/-!
# C20 — Trainer.fit performs one optimisation step per batch in the right mode

All statements are about `Synap.Train.fit`, the event-trace model of `Trainer.fit`
(synapgrad/nn/utils/train.py), for *every* number of epochs and batches, with and without a
validation loader and callbacks, started in any training flag / gradient mode.
-/
namespace Props.C20
open Synap.Train

/-- the four events of one optimisation step, in the mode `g` the caller left the engine in -/
def batchBlock (g : Bool) : List Ev := [.forward true g, .zeroGrad, .backward, .step]

/-- the events of one epoch -/
def epochBlock (c : Cfg) (g : Bool) : List Ev :=
  [.setTrain] ++ (if c.cbTrain then [.cbTrain] else []) ++ [.setTrain]
    ++ (List.replicate c.nTrain (batchBlock g)).flatten
    ++ (match c.nVal with
        | none => []
        | some nv => (if c.cbVal then [.cbVal] else []) ++ [.setEval, .noGradEnter]
            ++ List.replicate nv (.forward false false) ++ [.noGradExit])

theorem foldl_trainBatch (n : Nat) (s : St) (h : s.training = true) :
    (List.range n).foldl (fun s _ => trainBatch s) s
      = { s with trace := s.trace ++ (List.replicate n (batchBlock s.gradOn)).flatten } := by
  induction n generalizing s with
  | zero => simp
  | succ n ih =>
    rw [List.range_succ_eq_map, List.foldl_cons, List.foldl_map]
    have : (trainBatch s).training = true := by simp [trainBatch, St.emit, h]
    rw [ih _ this]
    cases s
    simp_all [trainBatch, St.emit, batchBlock, List.replicate_succ]

theorem foldl_valBatch (n : Nat) (s : St) (ht : s.training = false) (hg : s.gradOn = false) :
    (List.range n).foldl (fun s _ => s.emit (.forward s.training s.gradOn)) s
      = { s with trace := s.trace ++ List.replicate n (.forward false false) } := by
  induction n generalizing s with
  | zero => simp
  | succ n ih =>
    rw [List.range_succ_eq_map, List.foldl_cons, List.foldl_map]
    rw [ih _ (by simp [St.emit, ht]) (by simp [St.emit, hg])]
    cases s
    simp_all [St.emit, List.replicate_succ]

theorem foldl_valBatch' (n : Nat) (s : St) (ht : s.training = false) (hg : s.gradOn = false) :
    (List.range n).foldl (fun s _ => St.mk s.training s.gradOn
        (s.trace ++ [Ev.forward s.training s.gradOn])) s
      = { s with trace := s.trace ++ List.replicate n (.forward false false) } := by
  have := foldl_valBatch n s ht hg
  simpa [St.emit] using this

/-- one epoch appends exactly `epochBlock`, restores the gradient mode, and leaves the model in
    eval mode iff validation ran -/
theorem epoch_spec (c : Cfg) (s s' : St) (h : epoch c s = some s') :
    s'.trace = s.trace ++ epochBlock c s.gradOn ∧ s'.gradOn = s.gradOn ∧
    s'.training = c.nVal.isNone ∧ 0 < c.nTrain ∧ (∀ nv, c.nVal = some nv → 0 < nv) := by
  obtain ⟨tr, g, t⟩ := s
  by_cases hn : c.nTrain = 0
  · cases hct : c.cbTrain <;> simp [epoch, trainEpoch, hn, hct] at h
  have hpos : 0 < c.nTrain := Nat.pos_of_ne_zero hn
  cases g with
  | false => cases hct : c.cbTrain <;> simp [epoch, trainEpoch, hct, St.emit] at h
  | true =>
  cases hv : c.nVal with
  | none =>
    cases hct : c.cbTrain <;>
      simp [epoch, trainEpoch, hn, hct, hv, St.emit, foldl_trainBatch] at h <;>
      subst h <;> simp [epochBlock, hv, hct, hpos]
  | some nv =>
    by_cases hnv : nv = 0
    · cases hct : c.cbTrain <;> cases hcv : c.cbVal <;>
        simp [epoch, trainEpoch, validate, hn, hct, hcv, hv, hnv, St.emit, foldl_trainBatch] at h
    · have hnvpos : 0 < nv := Nat.pos_of_ne_zero hnv
      cases hct : c.cbTrain <;> cases hcv : c.cbVal <;>
        simp [epoch, trainEpoch, validate, hn, hct, hcv, hv, hnv, St.emit, foldl_trainBatch,
          foldl_valBatch'] at h <;>
        subst h <;> simp [epochBlock, hv, hct, hcv, hpos, hnvpos]

theorem fitFrom_spec (c : Cfg) : ∀ (k : Nat) (s s' : St), fitFrom c k s = some s' →
    s'.trace = s.trace ++ (List.replicate k (epochBlock c s.gradOn)).flatten ∧
    s'.gradOn = s.gradOn ∧ (0 < k → s'.training = c.nVal.isNone) := by
  intro k
  induction k with
  | zero => intro s s' h; simp [fitFrom] at h; subst h; simp
  | succ k ih =>
    intro s s' h
    simp only [fitFrom] at h
    cases he : epoch c s with
    | none => simp [he] at h
    | some s1 =>
      simp only [he, Option.bind_some] at h
      obtain ⟨e1, e2, e3, _, _⟩ := epoch_spec c s s1 he
      obtain ⟨f1, f2, f3⟩ := ih s1 s' h
      refine ⟨?_, by rw [f2, e2], ?_⟩
      · rw [f1, e1, e2, List.replicate_succ, List.flatten_cons, List.append_assoc]
      · intro _
        rcases Nat.eq_zero_or_pos k with hk | hk
        · subst hk; simp [fitFrom] at h; subst h; exact e3
        · exact f3 hk

/-- **Trace theorem.** Whenever `fit` returns, its event trace is exactly `epochs` copies of the
    epoch block, and the global gradient mode is left as it was found. -/
theorem fit_trace (c : Cfg) (tr0 g0 : Bool) (s : St) (h : fit c tr0 g0 = some s) :
    s.trace = (List.replicate c.epochs (epochBlock c g0)).flatten ∧ s.gradOn = g0 := by
  have := fitFrom_spec c c.epochs ⟨tr0, g0, []⟩ s h
  simpa using ⟨this.1, this.2.1⟩

theorem count_step_batch (g : Bool) (n : Nat) :
    (List.replicate n (batchBlock g)).flatten.count Ev.step = n := by
  induction n with
  | zero => simp
  | succ n ih =>
    rw [List.replicate_succ, List.flatten_cons, List.count_append, ih]
    have : (batchBlock g).count Ev.step = 1 := by cases g <;> decide
    omega

theorem count_step_epochBlock (c : Cfg) (g : Bool) : (epochBlock c g).count Ev.step = c.nTrain := by
  unfold epochBlock
  simp only [List.count_append, count_step_batch]
  cases c.nVal <;> by_cases h1 : c.cbTrain <;> by_cases h2 : c.cbVal <;>
    simp [h1, h2, List.count_cons, List.count_replicate]

/-- **epochs × len(train_loader) parameter updates.** -/
theorem steps_count (c : Cfg) (tr0 g0 : Bool) (s : St) (h : fit c tr0 g0 = some s) :
    countStep s.trace = c.epochs * c.nTrain := by
  rw [countStep, (fit_trace c tr0 g0 s h).1]
  induction c.epochs with
  | zero => simp
  | succ k ih => rw [List.replicate_succ, List.flatten_cons, List.count_append, ih,
      count_step_epochBlock]; rw [Nat.succ_mul]; omega

/-- every event of an epoch block that touches parameters or statistics is classified -/
def inBatch (g : Bool) (e : Ev) : Prop := e ∈ batchBlock g

/-- **Step discipline.** In the trace of `fit` every `step` is the 4th event of a block
    `forward(training = true, grad mode as found) ; zero_grad ; backward ; step`:
    the trace splits into a prefix, that block, and a suffix. -/
theorem step_discipline_block (g : Bool) (n : Nat) (pre post : List Ev)
    (h : (List.replicate n (batchBlock g)).flatten = pre ++ Ev.step :: post) :
    ∃ pre', pre = pre' ++ [Ev.forward true g, Ev.zeroGrad, Ev.backward] := by
  induction n generalizing pre with
  | zero => simp at h
  | succ n ih =>
    rw [List.replicate_succ, List.flatten_cons] at h
    simp only [batchBlock, List.cons_append, List.nil_append] at h
    match pre, h with
    | [], h => simp at h
    | [_], h => simp at h
    | [_, _], h => simp at h
    | [a, b, c'], h =>
      simp only [List.cons_append, List.nil_append, List.cons.injEq] at h
      obtain ⟨rfl, rfl, rfl, _⟩ := h
      exact ⟨[], rfl⟩
    | a :: b :: c' :: d :: rest, h =>
      simp only [List.cons_append, List.cons.injEq] at h
      obtain ⟨rfl, rfl, rfl, rfl, h⟩ := h
      obtain ⟨pre', hp⟩ := ih rest (by simpa [batchBlock] using h)
      exact ⟨Ev.forward true g :: Ev.zeroGrad :: Ev.backward :: Ev.step :: pre', by simp [hp]⟩

/-- validation never steps, never back-propagates, never zeroes: the validation part of the
    epoch block contains none of these events, and all its forwards run in eval mode with
    gradients off -/
theorem validation_pure (c : Cfg) (g : Bool) (nv : Nat) (hv : c.nVal = some nv) :
    ∃ trainPart, epochBlock c g = trainPart ++ (if c.cbVal then [Ev.cbVal] else [])
        ++ [Ev.setEval, Ev.noGradEnter] ++ List.replicate nv (Ev.forward false false) ++ [Ev.noGradExit] := by
  refine ⟨[.setTrain] ++ (if c.cbTrain then [.cbTrain] else []) ++ [.setTrain]
    ++ (List.replicate c.nTrain (batchBlock g)).flatten, ?_⟩
  simp [epochBlock, hv]

/-- **History shape**: one entry per epoch for the loss and every metric, `val_` prefixed keys
    exactly when a validation loader is given. -/
theorem history_shape (c : Cfg) (ev : Bool) :
    (∀ kv ∈ historyKeys c ev, kv.2 = c.epochs) ∧
    (0 < c.epochs → (("loss", c.epochs) ∈ historyKeys c ev) ∧
      ((("val_loss", c.epochs) ∈ historyKeys c ev) ↔ c.nVal.isSome)) := by
  unfold historyKeys
  constructor
  · intro kv h
    by_cases h0 : c.epochs = 0
    · simp [h0] at h
    · cases hv : c.nVal <;> cases ev <;> simp [h0, hv] at h <;> rcases h with h | h | h | h <;> simp_all
  · intro hpos
    have h0 : c.epochs ≠ 0 := Nat.pos_iff_ne_zero.mp hpos
    cases hv : c.nVal <;> cases ev <;> simp [h0]

/-- **Accuracy** is (#positions where prediction = label) / (#labels). -/
theorem accuracy_spec (yt yp : List Nat) (h : yt.length = yp.length) :
    (accuracyCount yt yp).2 = yt.length ∧ (accuracyCount yt yp).1 ≤ yt.length ∧
    ((accuracyCount yt yp).1 = yt.length ↔ yt = yp) := by
  induction yt generalizing yp with
  | nil => cases yp <;> simp_all [accuracyCount]
  | cons a t ih =>
    cases yp with
    | nil => simp at h
    | cons b u =>
      have hl : t.length = u.length := by simpa using h
      obtain ⟨_, i2, i3⟩ := ih u hl
      simp only [accuracyCount, List.zipWith_cons_cons, List.sum_cons, List.length_cons] at *
      refine ⟨trivial, ?_, ?_⟩
      · split <;> omega
      · by_cases hab : a = b
        · simp [hab]; rw [← i3]; omega
        · simp [hab]; omega

/-! ### Non-vacuity: concrete configurations on which `fit` returns -/
example : (fit { epochs := 2, nTrain := 3, nVal := some 2, cbTrain := true, cbVal := false } false true).isSome = true := by decide
example : (fit { epochs := 2, nTrain := 3, nVal := some 2, cbTrain := true, cbVal := false } false true).map
    (fun s => countStep s.trace) = some 6 := by decide

/-- **`test` runs in eval mode with gradients off, updates nothing, and restores the gradient mode it found**
    (whatever that mode was — e.g. when the caller is itself inside `no_grad`): its trace is
    `eval, no_grad+, n × forward(eval, grad off), no_grad-`. -/
theorem test_trace (tr0 g0 : Bool) (n : Nat) :
    (test ⟨tr0, g0, []⟩ n).trace = [Ev.setEval, Ev.noGradEnter] ++ List.replicate n (Ev.forward false false) ++ [Ev.noGradExit] ∧
    (test ⟨tr0, g0, []⟩ n).gradOn = g0 ∧ (test ⟨tr0, g0, []⟩ n).training = false ∧
    countStep (test ⟨tr0, g0, []⟩ n).trace = 0 := by
  have h := foldl_valBatch n (⟨false, false, [Ev.setEval, Ev.noGradEnter]⟩ : St) rfl rfl
  have e : test ⟨tr0, g0, []⟩ n =
      ⟨false, g0, [Ev.setEval, Ev.noGradEnter] ++ List.replicate n (Ev.forward false false) ++ [Ev.noGradExit]⟩ := by
    unfold test
    simp only [St.emit, List.nil_append, List.cons_append] at h ⊢
    rw [h]
    simp
  rw [e]
  refine ⟨rfl, rfl, rfl, ?_⟩
  simp [countStep, List.count_append, List.count_replicate]

example : (test ⟨true, false, []⟩ 2).trace = [.setEval, .noGradEnter, .forward false false, .forward false false, .noGradExit] := by decide

/-! ## The VALUES in the history, and the Evaluator as a state machine

Model: `SynapModel/TrainMetrics.lean` (`evStep` / `evCompute` / `evReset`, `fitHist`); lemmas:
`Proofs/TrainMetrics.lean`.  Scores are integers on a common positive `scale` (output = score / scale),
losses are exact rationals. -/

/-! ### decoding rules, stated outright -/

/-- **binary**: the prediction is 1 exactly when the output exceeds one half -/
theorem decode_binary (scale : Nat) (hs : 0 < scale) (s : Sample) :
    decodePred .binary scale s = if ((s.score.headD 0 : Int) : Rat) / ((scale : Nat) : Rat) > 1 / 2 then 1 else 0 := by
  have hsq : (0 : Rat) < (scale : Rat) := by exact_mod_cast hs
  have key : (((s.score.headD 0 : Int) : Rat) / ((scale : Nat) : Rat) > 1 / 2) ↔ (2 * s.score.headD 0 > (scale : Int)) := by
    rw [gt_iff_lt, lt_div_iff₀ hsq]
    constructor
    · intro h
      have h2 : ((scale : Nat) : Rat) < 2 * ((s.score.headD 0 : Int) : Rat) := by linarith
      have h3 : (((scale : Nat) : Int) : Rat) < ((2 * s.score.headD 0 : Int) : Rat) := by push_cast; exact h2
      exact_mod_cast h3
    · intro h
      have h3 : (((scale : Nat) : Int) : Rat) < ((2 * s.score.headD 0 : Int) : Rat) := by exact_mod_cast h
      have h2 : ((scale : Nat) : Rat) < 2 * ((s.score.headD 0 : Int) : Rat) := by push_cast at h3; exact h3
      linarith
  unfold decodePred
  by_cases h : 2 * s.score.headD 0 > (scale : Int)
  · simp only [h, ↓reduceIte]; rw [if_pos (key.mpr h)]
  · simp only [h, ↓reduceIte]; rw [if_neg (fun hc => h (key.mp hc))]

/-- **multi-class / categorical**: the prediction is the first index of the row maximum — the row splits as
    `l ++ m :: r`, the prediction is `|l|`, every earlier score is strictly smaller, no later one is larger -/
theorem decode_argmax (mode : Mode) (hm : mode ≠ .binary) (scale : Nat) (s : Sample) (h : s.score ≠ []) :
    ∃ l m r, s.score = l ++ m :: r ∧ decodePred mode scale s = (l.length : Int) ∧ (∀ a ∈ l, a < m) ∧ (∀ a ∈ r, a ≤ m) := by
  obtain ⟨l, m, r, e1, e2, e3, e4⟩ := argmax_split s.score h
  refine ⟨l, m, r, e1, ?_, e3, e4⟩
  cases mode with
  | binary => exact absurd rfl hm
  | multiClass => simp [decodePred, e2]
  | categorical => simp [decodePred, e2]

/-- the label is taken as given (binary, multi-class) or is the first index of the maximum of the one-hot row (categorical) -/
theorem decode_label (s : Sample) :
    decodeTrue .binary s = s.label.headD 0 ∧ decodeTrue .multiClass s = s.label.headD 0 ∧
    (s.label ≠ [] → ∃ l m r, s.label = l ++ m :: r ∧ decodeTrue .categorical s = (l.length : Int) ∧
        (∀ a ∈ l, a < m) ∧ (∀ a ∈ r, a ≤ m)) := by
  refine ⟨rfl, rfl, fun h => ?_⟩
  obtain ⟨l, m, r, e1, e2, e3, e4⟩ := argmax_split s.label h
  exact ⟨l, m, r, e1, by simp [decodeTrue, e2], e3, e4⟩

/-- the `int16` buffers store every value of the `int16` range unchanged -/
theorem wrap16_id (x : Int) (h1 : -32768 ≤ x) (h2 : x < 32768) : wrap16 x = x := by
  unfold wrap16; omega

/-- `correctCount` is the number of samples whose decoded (int16) label equals the decoded (int16) prediction -/
theorem correctCount_def (cfg : EvCfg) (ss : List Sample) :
    correctCount cfg ss = (ss.filter (fun s =>
      decide (wrap16 (decodeTrue cfg.mode s) = wrap16 (decodePred cfg.mode cfg.scale s)))).length ∧
    correctCount cfg ss ≤ ss.length := ⟨rfl, List.length_filter_le _ _⟩

/-- with labels and class indices inside the `int16` range, "correct" is plain equality of the decoded label and
    the decoded prediction -/
theorem correct_of_int16_range (cfg : EvCfg) (s : Sample)
    (ht : -32768 ≤ decodeTrue cfg.mode s ∧ decodeTrue cfg.mode s < 32768)
    (hp : -32768 ≤ decodePred cfg.mode cfg.scale s ∧ decodePred cfg.mode cfg.scale s < 32768) :
    correct cfg s = decide (decodeTrue cfg.mode s = decodePred cfg.mode cfg.scale s) := by
  unfold correct
  rw [wrap16_id _ ht.1 ht.2, wrap16_id _ hp.1 hp.2]

/-- quirk: outside it the stored values wrap — label 65539 is "equal" to prediction 3 -/
example : correct { accuracy := true, mode := .multiClass, scale := 1, epochCb := none, stepCb := none } ⟨[65539], [0, 1, 2, 3]⟩ = true := by decide

/-! ### the Evaluator -/

/-- the metric list `compute(prefix)` returns on buffers holding the samples `ss` -/
def computeOn (cfg : EvCfg) (pre : Option String) (ss : List Sample) : List Metric :=
  prefixed pre ((if cfg.accuracy then [("accuracy", MVal.frac (correctCount cfg ss) ss.length)] else []) ++
    (match cfg.epochCb with
     | none => []
     | some f => f (batchTrue cfg ss) (batchPred cfg ss)))

/-- the shape one sample must have, spelled out per mode -/
theorem wellShaped_iff (mode : Mode) (s : Sample) :
    wellShaped mode s = true ↔
      (match mode with
       | .binary => s.score.length = 1 ∧ s.label.length = 1
       | .multiClass => 2 ≤ s.score.length ∧ s.label.length = 1
       | .categorical => 2 ≤ s.score.length ∧ 2 ≤ s.label.length) := by
  cases mode <;> simp [wellShaped]

/-- **Admissibility does not depend on the batch size**: a batch goes through iff each of its samples is well
    shaped — whether it holds no sample, one sample or many (fix a611d24; before it a batch of one sample raised). -/
theorem stepOk_iff (mode : Mode) (b : List Sample) : stepOk mode b = true ↔ ∀ s ∈ b, wellShaped mode s = true := by
  simp [stepOk]

/-- a batch of ONE sample is admissible exactly when that sample is well shaped -/
theorem stepOk_singleton (mode : Mode) (s : Sample) : stepOk mode [s] = wellShaped mode s := by
  simp [stepOk]

/-- well-shaped samples may be grouped into batches in any way whatsoever -/
theorem grouping_admissible (mode : Mode) (bs : List (List Sample)) (hw : ∀ s ∈ bs.flatten, wellShaped mode s = true) :
    ∀ b ∈ bs, stepOk mode b = true := by
  intro b hb
  rw [stepOk_iff]
  intro s hs
  exact hw s (List.mem_flatten.mpr ⟨b, hb, hs⟩)

/-- **The evaluator accumulates.**  After `reset` / `compute` the buffers are empty; after any sequence of `step`s
    from there — batches of ANY size, one-sample batches and empty batches included, as long as every sample is well
    shaped — they hold the decoded labels and predictions of all the samples of all those batches, in order;
    `compute` then returns the accuracy pair (number of samples whose decoded label equals the decoded prediction,
    number of samples) over their concatenation — followed by the epoch callback's metrics on the same
    concatenation, all prefixed — and empties the buffers; a `compute` on empty buffers reports `frac 0 0`, i.e.
    NumPy's `0 / 0 = nan` (`toRat? = none`): it does not raise and it is no number. -/
theorem evaluator_accumulates (cfg : EvCfg) (pre pre' : Option String) (st0 : EvState) (bs : List (List Sample))
    (hw : ∀ s ∈ bs.flatten, wellShaped cfg.mode s = true) :
    (evCompute cfg st0 pre').1 = EvState.empty ∧ evReset st0 = EvState.empty ∧
    evSteps cfg pre EvState.empty bs = some ⟨batchTrue cfg bs.flatten, batchPred cfg bs.flatten⟩ ∧
    evCompute cfg ⟨batchTrue cfg bs.flatten, batchPred cfg bs.flatten⟩ pre' = (EvState.empty, computeOn cfg pre' bs.flatten) ∧
    evCompute cfg EvState.empty pre' = (EvState.empty, computeOn cfg pre' []) ∧
    (cfg.accuracy = true → cfg.epochCb = none → computeOn cfg none [] = [("accuracy", MVal.frac 0 0)]) ∧
    (MVal.frac 0 0).toRat? = none := by
  refine ⟨rfl, rfl, ?_, ?_, ?_, ?_, rfl⟩
  · have := evSteps_ok cfg pre bs EvState.empty (grouping_admissible cfg.mode bs hw)
    simpa [EvState.empty] using this
  · simp only [evCompute, evReset, computeMetrics, basicAccuracy, computeOn, countEq_batch, batchTrue_length]
    rfl
  · simp [evCompute, evReset, computeMetrics, basicAccuracy, computeOn, EvState.empty, countEq, correctCount, batchTrue, batchPred]
    rfl
  · intro ha hc
    simp [computeOn, ha, hc, prefixed, correctCount]

/-- a step with ONE well-shaped sample goes through: one decoded label and one decoded prediction are appended, and the
    step metrics are those of that one sample -/
theorem evaluator_accepts_one_sample (cfg : EvCfg) (st : EvState) (pre : Option String) (s : Sample)
    (hw : wellShaped cfg.mode s = true) :
    evStep cfg st pre [s] = some (⟨st.yTrue ++ [wrap16 (decodeTrue cfg.mode s)], st.yPred ++ [wrap16 (decodePred cfg.mode cfg.scale s)]⟩,
      computeMetrics cfg [wrap16 (decodeTrue cfg.mode s)] [wrap16 (decodePred cfg.mode cfg.scale s)] pre cfg.stepCb) := by
  rw [evStep_ok cfg st pre [s] (by rw [stepOk_singleton]; exact hw)]
  rfl

/-- **What is still rejected**: `step` raises (the model returns no new state) exactly when some sample of the batch is
    not well shaped -/
theorem evaluator_rejects (cfg : EvCfg) (st : EvState) (pre : Option String) (b : List Sample) :
    evStep cfg st pre b = none ↔ ∃ s ∈ b, wellShaped cfg.mode s = false := by
  unfold evStep
  by_cases h : stepOk cfg.mode b = true
  · simp only [h, ↓reduceIte, reduceCtorEq, false_iff, not_exists, not_and, Bool.not_eq_false]
    exact (stepOk_iff _ _).mp h
  · simp only [h, Bool.false_eq_true, ↓reduceIte, true_iff]
    have : ¬ ∀ s ∈ b, wellShaped cfg.mode s = true := fun hc => h ((stepOk_iff _ _).mpr hc)
    simpa using this

/-- … in particular a single score column in an arg-max mode (`(N,1)` outputs lose the class axis: `AxisError`),
    whatever the batch size -/
theorem evaluator_rejects_single_column (cfg : EvCfg) (hm : cfg.mode ≠ .binary) (st : EvState) (pre : Option String)
    (b : List Sample) (s : Sample) (hs : s ∈ b) (hk : s.score.length < 2) : evStep cfg st pre b = none := by
  rw [evaluator_rejects]
  refine ⟨s, hs, ?_⟩
  cases hmode : cfg.mode with
  | binary => exact absurd hmode hm
  | multiClass => simp [wellShaped]; omega
  | categorical => simp [wellShaped]; omega

/-- **Batching invariance** (evaluator level): ANY two groupings of the same well-shaped samples — batches of any
    sizes, one-sample batches included — give the same `compute` result: every metric, the callback's included. -/
theorem accuracy_batching_invariant (cfg : EvCfg) (pre pre' : Option String) (bs bs' : List (List Sample))
    (hflat : bs.flatten = bs'.flatten) (hw : ∀ s ∈ bs.flatten, wellShaped cfg.mode s = true) :
    (evSteps cfg pre EvState.empty bs).map (fun st => evCompute cfg st pre')
      = (evSteps cfg pre EvState.empty bs').map (fun st => evCompute cfg st pre') := by
  rw [evSteps_ok cfg pre bs EvState.empty (grouping_admissible cfg.mode bs hw),
    evSteps_ok cfg pre bs' EvState.empty (grouping_admissible cfg.mode bs' (hflat ▸ hw)), hflat]

/-- … in particular feeding the samples one at a time gives the same result as any batching -/
theorem accuracy_regroup_singletons (cfg : EvCfg) (pre pre' : Option String) (bs : List (List Sample))
    (hw : ∀ s ∈ bs.flatten, wellShaped cfg.mode s = true) :
    (evSteps cfg pre EvState.empty (bs.flatten.map (fun s => [s]))).map (fun st => evCompute cfg st pre')
      = (evSteps cfg pre EvState.empty bs).map (fun st => evCompute cfg st pre') := by
  have hf : ∀ l : List Sample, (l.map (fun s => [s])).flatten = l := by
    intro l; induction l with
    | nil => rfl
    | cons a l ih => simp [ih]
  exact (accuracy_batching_invariant cfg pre pre' bs _ (hf _).symm hw).symm

/-! ### the history of `fit` -/

/-- every epoch's metric names are pairwise different (no callback metric is called like another metric
    of the epoch: "loss", "accuracy", "val_loss", …) -/
def KeysOk (ev : Option EvCfg) (hasVal : Bool) (ds : List EpochData) : Prop :=
  ∀ d ∈ ds, ((epochSpec ev hasVal d).map Prod.fst).Nodup

theorem flatMap_singleton {α β : Type} (l : List α) (g : α → List β) (f : α → β) (h : ∀ a ∈ l, g a = [f a]) :
    l.flatMap g = l.map f := by
  induction l with
  | nil => rfl
  | cons a l ih =>
    rw [List.flatMap_cons, h a (by simp), ih (fun a' ha' => h a' (by simp [ha']))]
    rfl

/-- the list stored under `k` holds, per epoch, the value `f d` — as soon as `k` names exactly that metric in every epoch -/
theorem hist_column {ev : Option EvCfg} {hasVal : Bool} {ds : List EpochData} {st : EvState} {H : Hist}
    (hfit : fitHist ev hasVal EvState.empty ds = some (st, H)) (k : String) (f : EpochData → MVal)
    (hk : ∀ d ∈ ds, valuesNamed k (epochSpec ev hasVal d) = [f d]) : histGet H k = ds.map f := by
  obtain ⟨_, h2, _, _⟩ := fitV_spec ev hasVal ds [] H st hfit
  rw [h2 k, flatMap_singleton ds _ f hk]
  simp [histGet]

/-- **The reported epoch loss is the mean of the per-batch losses**, for the training loss of every epoch and
    (with a validation loader) the validation loss of every epoch; the mean is a genuine quotient: `fit` does
    not return at all on a loader without batches. -/
theorem epoch_loss_is_mean {ev : Option EvCfg} {hasVal : Bool} {ds : List EpochData} {st : EvState} {H : Hist}
    (hfit : fitHist ev hasVal EvState.empty ds = some (st, H)) (hkeys : KeysOk ev hasVal ds) :
    histGet H "loss" = ds.map (fun d => MVal.num ((d.train.map (·.loss)).sum / (d.train.length : Rat))) ∧
    (hasVal = true → histGet H "val_loss" = ds.map (fun d => MVal.num ((d.val.map (·.loss)).sum / (d.val.length : Rat)))) ∧
    (∀ d ∈ ds, d.train.length ≠ 0 ∧ (hasVal = true → d.val.length ≠ 0)) := by
  refine ⟨?_, ?_, ?_⟩
  · apply hist_column hfit
    intro d hd
    apply valuesNamed_of_nodup _ _ _ (hkeys d hd)
    simp [epochSpec, specMetrics, meanLoss, lossSum]
  · intro hv
    apply hist_column hfit
    intro d hd
    apply valuesNamed_of_nodup _ _ _ (hkeys d hd)
    simp [epochSpec, specMetrics, meanLoss, lossSum, hv]
  · obtain ⟨_, _, _, h4⟩ := fitV_spec ev hasVal ds [] H st hfit
    intro d hd
    obtain ⟨a, b⟩ := h4 d hd
    exact ⟨by simpa using a, fun hv => by simpa using b hv⟩

/-- **Accuracy is the fraction of correct predictions over the whole epoch**: the pair stored for epoch `d` is
    (number of samples of ALL its batches whose decoded label equals the decoded prediction, number of those
    samples) — not a mean of per-batch accuracies; likewise `val_accuracy` over the validation batches.
    (Decoding: `decode_binary`, `decode_argmax`, `decode_label`.) -/
theorem accuracy_is_fraction_correct {cfg : EvCfg} {hasVal : Bool} {ds : List EpochData} {st : EvState} {H : Hist}
    (hacc : cfg.accuracy = true)
    (hfit : fitHist (some cfg) hasVal EvState.empty ds = some (st, H)) (hkeys : KeysOk (some cfg) hasVal ds) :
    histGet H "accuracy" = ds.map (fun d => MVal.frac (correctCount cfg (samplesOf d.train)) (samplesOf d.train).length) ∧
    (hasVal = true → histGet H "val_accuracy" =
      ds.map (fun d => MVal.frac (correctCount cfg (samplesOf d.val)) (samplesOf d.val).length)) := by
  refine ⟨?_, ?_⟩
  · apply hist_column hfit
    intro d hd
    apply valuesNamed_of_nodup _ _ _ (hkeys d hd)
    simp [epochSpec, specMetrics, computeMetrics, basicAccuracy, hacc, prefixed, stAfter, EvState.empty, countEq_batch]
  · intro hv
    apply hist_column hfit
    intro d hd
    apply valuesNamed_of_nodup _ _ _ (hkeys d hd)
    simp [epochSpec, specMetrics, computeMetrics, basicAccuracy, hacc, prefixed, stAfter, EvState.empty, countEq_batch, hv]

/-- **Batching invariance** (history level): two runs whose epochs contain the same training samples, grouped into
    batches in any two ways, report the same accuracy for every epoch. -/
theorem accuracy_batching_invariant_fit {cfg : EvCfg} {hasVal : Bool} {ds ds' : List EpochData} {st st' : EvState} {H H' : Hist}
    (hacc : cfg.accuracy = true)
    (hfit : fitHist (some cfg) hasVal EvState.empty ds = some (st, H)) (hkeys : KeysOk (some cfg) hasVal ds)
    (hfit' : fitHist (some cfg) hasVal EvState.empty ds' = some (st', H')) (hkeys' : KeysOk (some cfg) hasVal ds')
    (hsame : ds.map (fun d => samplesOf d.train) = ds'.map (fun d => samplesOf d.train)) :
    histGet H "accuracy" = histGet H' "accuracy" := by
  rw [(accuracy_is_fraction_correct hacc hfit hkeys).1, (accuracy_is_fraction_correct hacc hfit' hkeys').1]
  have e : ∀ l : List EpochData, l.map (fun d => MVal.frac (correctCount cfg (samplesOf d.train)) (samplesOf d.train).length)
      = (l.map (fun d => samplesOf d.train)).map (fun ss => MVal.frac (correctCount cfg ss) ss.length) := by
    intro l; simp
  rw [e ds, e ds', hsame]

/-- the callback (if any) always returns metrics with the names `names`, in that order -/
def CbNames (cb : Option Callback) (names : List String) : Prop :=
  match cb with
  | none => names = []
  | some f => ∀ yt yp, (f yt yp).map Prod.fst = names

/-- metric names the evaluator contributes to an epoch -/
def evKeys (ev : Option EvCfg) (names : List String) : List String :=
  match ev with
  | none => []
  | some cfg => (if cfg.accuracy then ["accuracy"] else []) ++ names

/-- the keys of the history: the loss, accuracy (if enabled), the epoch callback's metrics; then the same with `val_` -/
def epochKeys (ev : Option EvCfg) (names : List String) (hasVal : Bool) : List String :=
  ["loss"] ++ evKeys ev names ++
    (if hasVal then ["val_loss"] ++ (evKeys ev names).map (fun m => "val" ++ "_" ++ m) else [])

theorem epochSpec_keys (ev : Option EvCfg) (names : List String) (hasVal : Bool) (d : EpochData)
    (hn : match ev with | none => True | some cfg => CbNames cfg.epochCb names) :
    (epochSpec ev hasVal d).map Prod.fst = epochKeys ev names hasVal := by
  cases ev with
  | none => cases hasVal <;> simp [epochSpec, specMetrics, epochKeys, evKeys]
  | some cfg =>
    cases hcb : cfg.epochCb with
    | none =>
      simp only [hcb, CbNames] at hn
      subst hn
      cases hasVal <;> cases ha : cfg.accuracy <;>
        simp [epochSpec, specMetrics, epochKeys, evKeys, computeMetrics, basicAccuracy, prefixed, hcb, ha]
    | some f =>
      simp only [hcb, CbNames] at hn
      have hmap : ∀ yt yp, List.map (fun x : Metric => "val_" ++ x.1) (f yt yp) = List.map (fun m => "val_" ++ m) names := by
        intro yt yp; rw [← hn yt yp, List.map_map]; rfl
      cases hasVal <;> cases ha : cfg.accuracy <;>
        simp [epochSpec, specMetrics, epochKeys, evKeys, computeMetrics, basicAccuracy, prefixed, hcb, ha, hn,
          List.map_map, Function.comp_def, hmap]

theorem foldl_addKeys_const (K : List String) (hK : K.Nodup) (n : List Unit) :
    n.foldl (fun ks _ => addKeys ks K) [] = if n = [] then [] else K := by
  cases n with
  | nil => rfl
  | cons _ n =>
    simp only [List.foldl_cons]
    rw [addKeys_fresh K [] (by simpa using hK)]
    simp only [List.nil_append]
    have : ∀ n : List Unit, n.foldl (fun ks _ => addKeys ks K) K = K := by
      intro n
      induction n with
      | nil => rfl
      | cons _ n ih => simp only [List.foldl_cons]; rw [addKeys_known K K (fun _ h => h)]; exact ih
    simp [this]

theorem find?_of_nodup_keys (H : Hist) (kv : String × List MVal) (hkv : kv ∈ H) (hnd : (H.map Prod.fst).Nodup) :
    H.find? (fun e => e.1 == kv.1) = some kv := by
  induction H with
  | nil => simp at hkv
  | cons e t ih =>
    simp only [List.map_cons, List.nodup_cons] at hnd
    rcases List.mem_cons.mp hkv with h | h
    · subst h; simp
    · have hne : ¬ e.1 = kv.1 := by
        intro e'
        exact hnd.1 (List.mem_map.mpr ⟨kv, h, e'.symm⟩)
      have : (e.1 == kv.1) = false := by simpa using hne
      simp only [List.find?_cons, this]
      exact ih h hnd.2

/-- **One entry per epoch for every key.**  When the epoch callback's metric names are fixed and no two metric
    names of an epoch coincide, the returned history has — as soon as there is one epoch — exactly the keys
    `loss`, `accuracy` (if enabled), the callback metrics, and their `val_` counterparts iff a validation loader
    was given, in this order, and the list under each of them has exactly `epochs` entries. -/
theorem history_one_entry_per_epoch {ev : Option EvCfg} {hasVal : Bool} {ds : List EpochData} {st : EvState} {H : Hist}
    (names : List String) (hn : match ev with | none => True | some cfg => CbNames cfg.epochCb names)
    (hnd : (epochKeys ev names hasVal).Nodup)
    (hfit : fitHist ev hasVal EvState.empty ds = some (st, H)) :
    (∀ k ∈ epochKeys ev names hasVal, (histGet H k).length = ds.length) ∧
    H.map Prod.fst = (if ds = [] then [] else epochKeys ev names hasVal) ∧
    (∀ kv ∈ H, kv.2.length = ds.length) := by
  obtain ⟨_, h2, h3, _⟩ := fitV_spec ev hasVal ds [] H st hfit
  have hkeys : ∀ d, (epochSpec ev hasVal d).map Prod.fst = epochKeys ev names hasVal :=
    fun d => epochSpec_keys ev names hasVal d hn
  have hlen : ∀ k ∈ epochKeys ev names hasVal, (histGet H k).length = ds.length := by
    intro k hk
    rw [h2 k]
    simp only [histGet, List.find?_nil, List.nil_append]
    have : ∀ l : List EpochData, (l.flatMap (fun d => valuesNamed k (epochSpec ev hasVal d))).length = l.length := by
      intro l
      induction l with
      | nil => rfl
      | cons d l ih =>
        rw [List.flatMap_cons, List.length_append, ih,
          valuesNamed_length_of_nodup _ k (by rw [hkeys d]; exact hnd) (by rw [hkeys d]; exact hk)]
        simp; omega
    exact this ds
  have hkeysH : H.map Prod.fst = (if ds = [] then [] else epochKeys ev names hasVal) := by
    rw [h3]
    simp only [hkeys, List.map_nil]
    have := foldl_addKeys_const (epochKeys ev names hasVal) hnd (ds.map (fun _ => ()))
    rw [List.foldl_map] at this
    rw [this]
    cases ds <;> simp
  refine ⟨hlen, hkeysH, ?_⟩
  intro kv hkv
  have hmem : kv.1 ∈ H.map Prod.fst := List.mem_map.mpr ⟨kv, hkv, rfl⟩
  by_cases hds : ds = []
  · simp [hkeysH, hds] at hmem
  · have hndH : (H.map Prod.fst).Nodup := by rw [hkeysH]; simpa [hds] using hnd
    rw [hkeysH] at hmem
    simp only [hds, ↓reduceIte] at hmem
    have hget : histGet H kv.1 = kv.2 := by
      unfold histGet
      have : H.find? (fun e => e.1 == kv.1) = some kv := find?_of_nodup_keys H kv hkv hndH
      rw [this]
    rw [← hget]
    exact hlen kv.1 hmem

/-! ### a Trainer used again: every `fit` call returns the history of THAT call -/

/-- **Second and later `fit` calls.**  Successive `fit` calls on one compiled Trainer (any numbers of epochs, each with or
    without a validation loader), started with an evaluator that holds nothing: every call that returns leaves the evaluator
    empty again, and the history it returns has exactly the keys of ITS configuration, each with exactly as many entries as
    ITS epochs — nothing of the earlier calls is in it. -/
theorem refit_history_one_entry_per_epoch {ev : Option EvCfg} (names : List String)
    (hn : match ev with | none => True | some cfg => CbNames cfg.epochCb names)
    (hnd : ∀ hv, (epochKeys ev names hv).Nodup) :
    ∀ (calls : List (Bool × List EpochData)) (st : EvState) (Hs : List Hist),
      refits ev EvState.empty calls = some (st, Hs) →
      st = EvState.empty ∧
      List.Forall₂ (fun (c : Bool × List EpochData) (H : Hist) =>
        H.map Prod.fst = (if c.2 = [] then [] else epochKeys ev names c.1) ∧ ∀ kv ∈ H, kv.2.length = c.2.length) calls Hs := by
  intro calls
  induction calls with
  | nil => intro st Hs h; simp [refits] at h; obtain ⟨rfl, rfl⟩ := h; exact ⟨rfl, List.Forall₂.nil⟩
  | cons c cs ih =>
    intro st Hs h
    simp only [refits] at h
    cases hf : fitHist ev c.1 EvState.empty c.2 with
    | none => simp [hf] at h
    | some p =>
      obtain ⟨s1, H⟩ := p
      have hs1 : s1 = EvState.empty := (fitV_spec ev c.1 c.2 [] H s1 hf).1
      subst hs1
      simp only [hf] at h
      cases hr : refits ev EvState.empty cs with
      | none => simp [hr] at h
      | some q =>
        obtain ⟨s2, Hs'⟩ := q
        simp only [hr, Option.map_some, Option.some.injEq, Prod.mk.injEq] at h
        obtain ⟨rfl, rfl⟩ := h
        obtain ⟨e1, e2⟩ := ih s2 Hs' hr
        obtain ⟨_, k2, k3⟩ := history_one_entry_per_epoch (ev := ev) (hasVal := c.1) (ds := c.2) names hn (hnd c.1) hf
        exact ⟨e1, List.Forall₂.cons ⟨k2, k3⟩ e2⟩

/-- a session that consists of `fit` calls is `refits`; `test` in between changes nothing that a later call sees -/
theorem session_test_transparent (ev : Option EvCfg) (st : EvState) (b : List (List Sample)) (cs : List Call) :
    session ev st (.test b :: cs) =
      (session ev st cs).map (fun p => (p.1, Ret.testRet (testReturn b).1 (testReturn b).2 :: p.2)) := by
  simp [session, Call.run]

/-- the dictionary a `fit` call returns does not depend on what the Trainer returned before: in a session, the answer of a
    `fit` call is `fitHist` of that call's own arguments and of the evaluator state the call found -/
theorem session_fit_fresh (ev : Option EvCfg) (st : EvState) (hv : Bool) (ds : List EpochData) (cs : List Call) :
    session ev st (.fit hv ds :: cs) =
      (fitHist ev hv st ds).bind (fun r => (session ev r.1 cs).map (fun p => (p.1, Ret.hist r.2 :: p.2))) := by
  simp only [session, Call.run]
  cases fitHist ev hv st ds <;> simp

/-- `Trainer.test` returns one output row and one label per sample of the loader, in loader order -/
theorem test_returns_all_samples (batches : List (List Sample)) :
    (testReturn batches).1 = batches.flatten.map (·.score) ∧ (testReturn batches).2 = batches.flatten.map (·.label) ∧
    (testReturn batches).1.length = (batches.map List.length).sum ∧ (testReturn batches).2.length = (batches.map List.length).sum := by
  simp [testReturn, List.length_flatten, Function.comp_def]

/-! ### Non-vacuity: concrete evaluators and histories -/
section Examples

def cfgMC : EvCfg := { accuracy := true, mode := .multiClass, scale := 1, epochCb := none, stepCb := none }
def cfgBin : EvCfg :=
  { accuracy := true, mode := .binary, scale := 4, epochCb := some (fun yt _ => [("n", .cb yt.length true)]), stepCb := none }

/-- step, step, compute, compute : 3 of 5 correct (ties go to the first index), then empty, then `0/0` -/
example : (evSteps cfgMC none EvState.empty
      [[⟨[1], [1, 5, 5]⟩, ⟨[0], [3, 3, 3]⟩], [⟨[2], [0, 1, 9]⟩, ⟨[2], [7, 1, 7]⟩, ⟨[1], [9, 1, 0]⟩]]).map
      (fun st => (evCompute cfgMC st (some "val"), evCompute cfgMC (evCompute cfgMC st none).1 none))
    = some ((EvState.empty, [("val_accuracy", .frac 3 5)]), (EvState.empty, [("accuracy", .frac 0 0)])) := by decide

/-- binary: 3/4 is above one half, 2/4 is not -/
example : (evStep cfgBin EvState.empty none [⟨[1], [3]⟩, ⟨[1], [2]⟩]).map (·.1) = some ⟨[1, 1], [1, 0]⟩ := by decide

/-- a batch of one sample goes through (fix a611d24); a single score column in an arg-max mode is still rejected -/
example : (evStep cfgMC EvState.empty none [⟨[1], [1, 5]⟩]).map (·.1) = some ⟨[1], [1]⟩ := by decide +kernel
example : evStep cfgMC EvState.empty none [⟨[0], [5]⟩, ⟨[0], [7]⟩] = none := by decide
/-- one at a time or all at once: the same accuracy -/
example : (evSteps cfgMC none EvState.empty [[⟨[1], [1, 5]⟩], [⟨[0], [3, 3]⟩], [⟨[0], [0, 9]⟩]]).map (fun st => (evCompute cfgMC st none).2)
    = some [("accuracy", .frac 2 3)] := by decide +kernel

/-- two epochs, two training batches of different sizes and one validation batch each, callback metric `n` -/
example : (fitHist (some cfgBin) true EvState.empty
      [⟨[⟨3/8, [⟨[1], [3]⟩, ⟨[0], [3]⟩]⟩, ⟨1/8, [⟨[1], [3]⟩, ⟨[0], [1]⟩, ⟨[0], [2]⟩]⟩], [⟨1/2, [⟨[1], [1]⟩, ⟨[0], [1]⟩]⟩]⟩,
       ⟨[⟨1, [⟨[1], [3]⟩, ⟨[0], [0]⟩]⟩, ⟨0, [⟨[1], [3]⟩, ⟨[0], [1]⟩, ⟨[0], [2]⟩]⟩], [⟨1/3, [⟨[1], [3]⟩, ⟨[0], [1]⟩]⟩]⟩]).map (·.2)
    = some [("loss", [.num (1/4), .num (1/2)]), ("accuracy", [.frac 4 5, .frac 5 5]), ("n", [.cb 5 true, .cb 5 true]),
            ("val_loss", [.num (1/2), .num (1/3)]), ("val_accuracy", [.frac 1 2, .frac 2 2]), ("val_n", [.cb 2 true, .cb 2 true])] := by
  decide +kernel

/-- the hypotheses of the history theorems hold for that configuration -/
example : (epochKeys (some cfgBin) ["n"] true).Nodup := by decide
example : CbNames cfgBin.epochCb ["n"] := fun _ _ => rfl

/-- quirk: a callback metric called "loss" lands in the loss list — two entries per epoch -/
example : (fitHist (some { cfgMC with epochCb := some (fun _ _ => [("loss", .cb 7 true)]) }) false EvState.empty
      [⟨[⟨1/2, []⟩], []⟩]).map (·.2) = some [("loss", [.num (1/2), .cb 7 true]), ("accuracy", [.frac 0 0])] := by
  decide +kernel

/-- quirk: what the evaluator had accumulated before `fit` is counted in the first epoch -/
example : (fitHist (some cfgMC) false ⟨[0, 0, 0], [1, 1, 1]⟩
      [⟨[⟨0, [⟨[1], [1, 5]⟩, ⟨[0], [3, 3]⟩]⟩], []⟩, ⟨[⟨0, [⟨[1], [1, 5]⟩, ⟨[0], [3, 3]⟩]⟩], []⟩]).map (·.2)
    = some [("loss", [.num 0, .num 0]), ("accuracy", [.frac 2 5, .frac 2 2])] := by
  decide +kernel

/-- fit for two epochs, then for one more on the same trainer: the second history has ONE entry per key -/
example : (refits (some cfgMC) EvState.empty
      [(false, [⟨[⟨1/2, [⟨[1], [1, 5]⟩]⟩], []⟩, ⟨[⟨1/4, [⟨[0], [1, 5]⟩]⟩], []⟩]), (false, [⟨[⟨1, [⟨[1], [1, 5]⟩]⟩], []⟩])]).map (·.2)
    = some [[("loss", [.num (1/2), .num (1/4)]), ("accuracy", [.frac 1 1, .frac 0 1])], [("loss", [.num 1]), ("accuracy", [.frac 1 1])]] := by
  decide +kernel

/-- a metric value that is not a float, a loader without batches: `fit` does not return -/
example : fitHist (some { cfgMC with epochCb := some (fun _ _ => [("m", .cb 7 false)]) }) false EvState.empty
      [⟨[⟨1/2, []⟩], []⟩] = none := by decide +kernel
example : fitHist none true EvState.empty [⟨[⟨1/2, []⟩], []⟩] = none := by decide +kernel

end Examples

end Props.C20
