import SynapModel.Train
/-!
# C20 — Trainer.fit performs one optimisation step per batch in the right mode

All statements are about `Synap.Train.fit`, the event-trace model of `Trainer.fit`
(synapgrad/nn/utils/train.py), for *every* number of epochs and batches, with and without a
validation loader and callbacks, started in any training flag / gradient mode.
-/
namespace Props.C20
open Synap.Train

/-- the four events of one optimisation step, in the mode `g` the caller left the engine in -/
def batchBlock (g : Bool) : List Ev := [.forward true g, .zeroGrad, .backward, .step]

/-- the events of one epoch -/
def epochBlock (c : Cfg) (g : Bool) : List Ev :=
  [.setTrain] ++ (if c.cbTrain then [.cbTrain] else []) ++ [.setTrain]
    ++ (List.replicate c.nTrain (batchBlock g)).flatten
    ++ (match c.nVal with
        | none => []
        | some nv => (if c.cbVal then [.cbVal] else []) ++ [.setEval, .noGradEnter]
            ++ List.replicate nv (.forward false false) ++ [.noGradExit])

theorem foldl_trainBatch (n : Nat) (s : St) (h : s.training = true) :
    (List.range n).foldl (fun s _ => trainBatch s) s
      = { s with trace := s.trace ++ (List.replicate n (batchBlock s.gradOn)).flatten } := by
  induction n generalizing s with
  | zero => simp
  | succ n ih =>
    rw [List.range_succ_eq_map, List.foldl_cons, List.foldl_map]
    have : (trainBatch s).training = true := by simp [trainBatch, St.emit, h]
    rw [ih _ this]
    cases s
    simp_all [trainBatch, St.emit, batchBlock, List.replicate_succ]

theorem foldl_valBatch (n : Nat) (s : St) (ht : s.training = false) (hg : s.gradOn = false) :
    (List.range n).foldl (fun s _ => s.emit (.forward s.training s.gradOn)) s
      = { s with trace := s.trace ++ List.replicate n (.forward false false) } := by
  induction n generalizing s with
  | zero => simp
  | succ n ih =>
    rw [List.range_succ_eq_map, List.foldl_cons, List.foldl_map]
    rw [ih _ (by simp [St.emit, ht]) (by simp [St.emit, hg])]
    cases s
    simp_all [St.emit, List.replicate_succ]

theorem foldl_valBatch' (n : Nat) (s : St) (ht : s.training = false) (hg : s.gradOn = false) :
    (List.range n).foldl (fun s _ => St.mk s.training s.gradOn
        (s.trace ++ [Ev.forward s.training s.gradOn])) s
      = { s with trace := s.trace ++ List.replicate n (.forward false false) } := by
  have := foldl_valBatch n s ht hg
  simpa [St.emit] using this

/-- one epoch appends exactly `epochBlock`, restores the gradient mode, and leaves the model in
    eval mode iff validation ran -/
theorem epoch_spec (c : Cfg) (s s' : St) (h : epoch c s = some s') :
    s'.trace = s.trace ++ epochBlock c s.gradOn ∧ s'.gradOn = s.gradOn ∧
    s'.training = c.nVal.isNone ∧ 0 < c.nTrain ∧ (∀ nv, c.nVal = some nv → 0 < nv) := by
  obtain ⟨tr, g, t⟩ := s
  by_cases hn : c.nTrain = 0
  · cases hct : c.cbTrain <;> simp [epoch, trainEpoch, hn, hct] at h
  have hpos : 0 < c.nTrain := Nat.pos_of_ne_zero hn
  cases g with
  | false => cases hct : c.cbTrain <;> simp [epoch, trainEpoch, hct, St.emit] at h
  | true =>
  cases hv : c.nVal with
  | none =>
    cases hct : c.cbTrain <;>
      simp [epoch, trainEpoch, hn, hct, hv, St.emit, foldl_trainBatch] at h <;>
      subst h <;> simp [epochBlock, hv, hct, hpos]
  | some nv =>
    by_cases hnv : nv = 0
    · cases hct : c.cbTrain <;> cases hcv : c.cbVal <;>
        simp [epoch, trainEpoch, validate, hn, hct, hcv, hv, hnv, St.emit, foldl_trainBatch] at h
    · have hnvpos : 0 < nv := Nat.pos_of_ne_zero hnv
      cases hct : c.cbTrain <;> cases hcv : c.cbVal <;>
        simp [epoch, trainEpoch, validate, hn, hct, hcv, hv, hnv, St.emit, foldl_trainBatch,
          foldl_valBatch'] at h <;>
        subst h <;> simp [epochBlock, hv, hct, hcv, hpos, hnvpos]

theorem fitFrom_spec (c : Cfg) : ∀ (k : Nat) (s s' : St), fitFrom c k s = some s' →
    s'.trace = s.trace ++ (List.replicate k (epochBlock c s.gradOn)).flatten ∧
    s'.gradOn = s.gradOn ∧ (0 < k → s'.training = c.nVal.isNone) := by
  intro k
  induction k with
  | zero => intro s s' h; simp [fitFrom] at h; subst h; simp
  | succ k ih =>
    intro s s' h
    simp only [fitFrom] at h
    cases he : epoch c s with
    | none => simp [he] at h
    | some s1 =>
      simp only [he, Option.bind_some] at h
      obtain ⟨e1, e2, e3, _, _⟩ := epoch_spec c s s1 he
      obtain ⟨f1, f2, f3⟩ := ih s1 s' h
      refine ⟨?_, by rw [f2, e2], ?_⟩
      · rw [f1, e1, e2, List.replicate_succ, List.flatten_cons, List.append_assoc]
      · intro _
        rcases Nat.eq_zero_or_pos k with hk | hk
        · subst hk; simp [fitFrom] at h; subst h; exact e3
        · exact f3 hk

/-- **Trace theorem.** Whenever `fit` returns, its event trace is exactly `epochs` copies of the
    epoch block, and the global gradient mode is left as it was found. -/
theorem fit_trace (c : Cfg) (tr0 g0 : Bool) (s : St) (h : fit c tr0 g0 = some s) :
    s.trace = (List.replicate c.epochs (epochBlock c g0)).flatten ∧ s.gradOn = g0 := by
  have := fitFrom_spec c c.epochs ⟨tr0, g0, []⟩ s h
  simpa using ⟨this.1, this.2.1⟩

theorem count_step_batch (g : Bool) (n : Nat) :
    (List.replicate n (batchBlock g)).flatten.count Ev.step = n := by
  induction n with
  | zero => simp
  | succ n ih =>
    rw [List.replicate_succ, List.flatten_cons, List.count_append, ih]
    have : (batchBlock g).count Ev.step = 1 := by cases g <;> decide
    omega

theorem count_step_epochBlock (c : Cfg) (g : Bool) : (epochBlock c g).count Ev.step = c.nTrain := by
  unfold epochBlock
  simp only [List.count_append, count_step_batch]
  cases c.nVal <;> by_cases h1 : c.cbTrain <;> by_cases h2 : c.cbVal <;>
    simp [h1, h2, List.count_cons, List.count_replicate]

/-- **epochs × len(train_loader) parameter updates.** -/
theorem steps_count (c : Cfg) (tr0 g0 : Bool) (s : St) (h : fit c tr0 g0 = some s) :
    countStep s.trace = c.epochs * c.nTrain := by
  rw [countStep, (fit_trace c tr0 g0 s h).1]
  induction c.epochs with
  | zero => simp
  | succ k ih => rw [List.replicate_succ, List.flatten_cons, List.count_append, ih,
      count_step_epochBlock]; rw [Nat.succ_mul]; omega

/-- every event of an epoch block that touches parameters or statistics is classified -/
def inBatch (g : Bool) (e : Ev) : Prop := e ∈ batchBlock g

/-- **Step discipline.** In the trace of `fit` every `step` is the 4th event of a block
    `forward(training = true, grad mode as found) ; zero_grad ; backward ; step`:
    the trace splits into a prefix, that block, and a suffix. -/
theorem step_discipline_block (g : Bool) (n : Nat) (pre post : List Ev)
    (h : (List.replicate n (batchBlock g)).flatten = pre ++ Ev.step :: post) :
    ∃ pre', pre = pre' ++ [Ev.forward true g, Ev.zeroGrad, Ev.backward] := by
  induction n generalizing pre with
  | zero => simp at h
  | succ n ih =>
    rw [List.replicate_succ, List.flatten_cons] at h
    simp only [batchBlock, List.cons_append, List.nil_append] at h
    match pre, h with
    | [], h => simp at h
    | [_], h => simp at h
    | [_, _], h => simp at h
    | [a, b, c'], h =>
      simp only [List.cons_append, List.nil_append, List.cons.injEq] at h
      obtain ⟨rfl, rfl, rfl, _⟩ := h
      exact ⟨[], rfl⟩
    | a :: b :: c' :: d :: rest, h =>
      simp only [List.cons_append, List.cons.injEq] at h
      obtain ⟨rfl, rfl, rfl, rfl, h⟩ := h
      obtain ⟨pre', hp⟩ := ih rest (by simpa [batchBlock] using h)
      exact ⟨Ev.forward true g :: Ev.zeroGrad :: Ev.backward :: Ev.step :: pre', by simp [hp]⟩

/-- validation never steps, never back-propagates, never zeroes: the validation part of the
    epoch block contains none of these events, and all its forwards run in eval mode with
    gradients off -/
theorem validation_pure (c : Cfg) (g : Bool) (nv : Nat) (hv : c.nVal = some nv) :
    ∃ trainPart, epochBlock c g = trainPart ++ (if c.cbVal then [Ev.cbVal] else [])
        ++ [Ev.setEval, Ev.noGradEnter] ++ List.replicate nv (Ev.forward false false) ++ [Ev.noGradExit] := by
  refine ⟨[.setTrain] ++ (if c.cbTrain then [.cbTrain] else []) ++ [.setTrain]
    ++ (List.replicate c.nTrain (batchBlock g)).flatten, ?_⟩
  simp [epochBlock, hv]

/-- **History shape**: one entry per epoch for the loss and every metric, `val_` prefixed keys
    exactly when a validation loader is given. -/
theorem history_shape (c : Cfg) (ev : Bool) :
    (∀ kv ∈ historyKeys c ev, kv.2 = c.epochs) ∧
    (0 < c.epochs → (("loss", c.epochs) ∈ historyKeys c ev) ∧
      ((("val_loss", c.epochs) ∈ historyKeys c ev) ↔ c.nVal.isSome)) := by
  unfold historyKeys
  constructor
  · intro kv h
    by_cases h0 : c.epochs = 0
    · simp [h0] at h
    · cases hv : c.nVal <;> cases ev <;> simp [h0, hv] at h <;> rcases h with h | h | h | h <;> simp_all
  · intro hpos
    have h0 : c.epochs ≠ 0 := Nat.pos_iff_ne_zero.mp hpos
    cases hv : c.nVal <;> cases ev <;> simp [h0]

/-- **Accuracy** is (#positions where prediction = label) / (#labels). -/
theorem accuracy_spec (yt yp : List Nat) (h : yt.length = yp.length) :
    (accuracyCount yt yp).2 = yt.length ∧ (accuracyCount yt yp).1 ≤ yt.length ∧
    ((accuracyCount yt yp).1 = yt.length ↔ yt = yp) := by
  induction yt generalizing yp with
  | nil => cases yp <;> simp_all [accuracyCount]
  | cons a t ih =>
    cases yp with
    | nil => simp at h
    | cons b u =>
      have hl : t.length = u.length := by simpa using h
      obtain ⟨_, i2, i3⟩ := ih u hl
      simp only [accuracyCount, List.zipWith_cons_cons, List.sum_cons, List.length_cons] at *
      refine ⟨trivial, ?_, ?_⟩
      · split <;> omega
      · by_cases hab : a = b
        · simp [hab]; rw [← i3]; omega
        · simp [hab]; omega

/-! ### Non-vacuity: concrete configurations on which `fit` returns -/
example : (fit { epochs := 2, nTrain := 3, nVal := some 2, cbTrain := true, cbVal := false } false true).isSome = true := by decide
example : (fit { epochs := 2, nTrain := 3, nVal := some 2, cbTrain := true, cbVal := false } false true).map
    (fun s => countStep s.trace) = some 6 := by decide

/-- **`test` runs in eval mode with gradients off, updates nothing, and restores the gradient mode it found**
    (whatever that mode was — e.g. when the caller is itself inside `no_grad`): its trace is
    `eval, no_grad+, n × forward(eval, grad off), no_grad-`. -/
theorem test_trace (tr0 g0 : Bool) (n : Nat) :
    (test ⟨tr0, g0, []⟩ n).trace = [Ev.setEval, Ev.noGradEnter] ++ List.replicate n (Ev.forward false false) ++ [Ev.noGradExit] ∧
    (test ⟨tr0, g0, []⟩ n).gradOn = g0 ∧ (test ⟨tr0, g0, []⟩ n).training = false ∧
    countStep (test ⟨tr0, g0, []⟩ n).trace = 0 := by
  have h := foldl_valBatch n (⟨false, false, [Ev.setEval, Ev.noGradEnter]⟩ : St) rfl rfl
  have e : test ⟨tr0, g0, []⟩ n =
      ⟨false, g0, [Ev.setEval, Ev.noGradEnter] ++ List.replicate n (Ev.forward false false) ++ [Ev.noGradExit]⟩ := by
    unfold test
    simp only [St.emit, List.nil_append, List.cons_append] at h ⊢
    rw [h]
    simp
  rw [e]
  refine ⟨rfl, rfl, rfl, ?_⟩
  simp [countStep, List.count_append, List.count_replicate]

example : (test ⟨true, false, []⟩ 2).trace = [.setEval, .noGradEnter, .forward false false, .forward false false, .noGradExit] := by decide

end Props.C20
