import Proofs.LayerLogicTie
import SynapModel.Layers
import SynapModel.Modules
import Mathlib.Algebra.Field.Basic
import Mathlib.Algebra.Order.Field.Basic
import Mathlib.Algebra.CharZero.Defs
import Mathlib.Tactic.Ring
import Mathlib.Tactic.FieldSimp
import Mathlib.Algebra.BigOperators.Group.List.Basic
import Mathlib.Algebra.BigOperators.Ring.List
import Mathlib.Data.List.Induction
/-!
# C13 — Dropout and BatchNorm honour train/eval mode over any call history

Statements about `Synap.Layers` (the model of BatchNorm / Dropout in synapgrad/nn/layers.py and
cpu_ops.batch_norm_forward) over an arbitrary field with an arbitrary square-root function.
-/
namespace Props.C13
open Synap.Layers Synap.Optim

-- the statements carry section instances / length hypotheses that some proofs do not need
set_option linter.unusedSectionVars false
set_option linter.unusedVariables false

section BN
variable {α : Type} [Field α] [HasSqrt α]

/-- **Every constructor option is honoured at construction**: a layer built with `affine` owns a weight and a bias (two
    parameters) exactly when `affine` is set, and running statistics exactly when `track_running_stats` is set — the two options
    are independent. -/
theorem init_owns_by_options (c : BNCfg α) (channels : Nat) (affine : Bool) :
    bnOwns c (bnInit c channels affine)
      = { weight := affine, bias := affine, runningMean := c.track, runningVar := c.track, params := if affine then 2 else 0 } := by
  cases affine <;> simp [bnOwns, bnInit]

/-- forwards never create or remove the affine parameters -/
theorem forward_keeps_owned (c : BNCfg α) (s : BNState α) (xs : List (List α)) :
    bnOwns c (bnForward c s xs).2 = bnOwns c s := by
  unfold bnForward bnOwns
  simp only
  split <;> rfl

/-- **Eval mode never changes the layer state** (running statistics, counter, flags), accepted
    or rejected. -/
theorem eval_keeps_state (c : BNCfg α) (s : BNState α) (xs : List (List α)) (h : s.training = false) :
    (bnForward c s xs).2 = s := by
  unfold bnForward avgFactor
  cases s with | mk rm rv gamma beta nbt training =>
  simp only at h
  subst h
  simp
  split <;> rfl

/-- **Eval mode with tracked statistics normalises with the running statistics**: the output is
    a function of the input and the state only. -/
theorem eval_uses_running (c : BNCfg α) (s : BNState α) (xs : List (List α)) (h : s.training = false)
    (ht : c.track = true) :
    (bnForward c s xs).1 = some (xs.zipIdx.map (fun (x, k) =>
      normalise c.eps (s.rm.getD k 0) (s.rv.getD k 1) (s.gamma.map (·.getD k 1)) (s.beta.map (·.getD k 0)) x)) := by
  unfold bnForward avgFactor
  simp [h, ht, List.map_map, Function.comp_def]

/-- **A training forward advances the counter exactly once** ... -/
theorem train_updates_once (c : BNCfg α) (s : BNState α) (xs : List (List α)) (h : s.training = true)
    (ht : c.track = true) :
    (bnForward c s xs).2.nbt = s.nbt + 1 ∧ (bnForward c s xs).2.training = true := by
  unfold bnForward avgFactor
  simp only [h, ht, Bool.and_self, if_true]
  split <;> simp

/-- ... and, when accepted, moves every channel's running mean / variance by the documented rule
    with factor `momentum`, or `1 / num_batches_tracked` when momentum is `None`; the variance
    that enters is the unbiased one `var · n/(n−1)`. -/
theorem train_update_rule (c : BNCfg α) (s : BNState α) (xs : List (List α)) (h : s.training = true)
    (ht : c.track = true) (out : List (List α)) (hacc : (bnForward c s xs).1 = some out)
    (k : Nat) (x : List α) (hk : xs[k]? = some x) :
    let f : α := match c.momentum with | none => 1 / ((s.nbt + 1 : Nat) : α) | some m => m
    let n : α := (((xs.head?.map List.length).getD 0 : Nat) : α)
    (bnForward c s xs).2.rm[k]? = some (mean x * f + s.rm.getD k 0 * (1 - f)) ∧
    (bnForward c s xs).2.rv[k]? = some ((var x * (n / (n - 1))) * f + s.rv.getD k 1 * (1 - f)) ∧
    out[k]? = some (normalise c.eps (mean x) (var x) (s.gamma.map (·.getD k 1)) (s.beta.map (·.getD k 0)) x) := by
  intro f n
  obtain ⟨mom, eps, track⟩ := c
  simp only at ht
  subst ht
  unfold bnForward avgFactor at hacc ⊢
  simp only [h, Bool.and_self, if_true, Bool.true_or, Bool.true_and] at hacc ⊢
  split at hacc
  · simp at hacc
  · rename_i hn
    simp only [hn]
    simp only [Option.some.injEq] at hacc
    subst hacc
    cases mom <;> simp [List.getElem?_map, List.getElem?_zipIdx, hk, f, n]

/-- **Exponential moving average, closed form**: folding `r ← m·a + r·(1−a)` over batch means
    `ms` gives `(1−a)^n r₀ + a Σ_i (1−a)^{n−1−i} m_i`. -/
theorem running_mean_exponential (a r0 : α) (ms : List α) :
    ms.foldl (fun r m => m * a + r * (1 - a)) r0
      = (1 - a) ^ ms.length * r0 + a * ((ms.zipIdx.map (fun (m, i) => (1 - a) ^ (ms.length - 1 - i) * m)).sum) := by
  induction ms using List.reverseRecOn with
  | nil => simp
  | append_singleton ms m ih =>
    have key : (ms.zipIdx.map (fun (p : α × Nat) => (1 - a) ^ (ms.length + 1 - 1 - p.2) * p.1))
        = ms.zipIdx.map (fun (p : α × Nat) => (1 - a) * ((1 - a) ^ (ms.length - 1 - p.2) * p.1)) := by
      apply List.map_congr_left
      rintro ⟨m', i⟩ hmem
      have hi := List.snd_lt_of_mem_zipIdx hmem
      simp only [Nat.add_zero] at hi
      have : ms.length + 1 - 1 - i = (ms.length - 1 - i) + 1 := by omega
      simp only [this, pow_succ]
      ring
    rw [List.foldl_append, ih]
    simp only [List.zipIdx_append, List.map_append, List.sum_append, List.length_append,
      List.length_singleton, key, List.sum_map_mul_left]
    simp [pow_succ]
    ring

/-- **Cumulative moving average** (`momentum=None`): with factor `1/k` at the k-th training batch
    the running mean after `n ≥ 1` batches is the plain average of the batch means, whatever the
    initial value was. -/
theorem running_mean_cumulative [CharZero α] (r0 : α) (ms : List α) (hne : ms ≠ []) :
    (ms.zipIdx.foldl (fun r (m, i) => m * (1 / ((i + 1 : Nat) : α)) + r * (1 - 1 / ((i + 1 : Nat) : α))) r0)
      = ms.sum / (ms.length : α) := by
  induction ms using List.reverseRecOn with
  | nil => exact absurd rfl hne
  | append_singleton ms m ih =>
    rw [List.zipIdx_append, List.foldl_append]
    by_cases hms : ms = []
    · subst hms; simp
    · rw [ih hms]
      have h1 : (ms.length : α) ≠ 0 := by
        have : ms.length ≠ 0 := by simpa using hms
        exact_mod_cast this
      have h2 : (ms.length : α) + 1 ≠ 0 := Nat.cast_add_one_ne_zero _
      simp only [List.zipIdx_singleton, List.foldl_cons, List.foldl_nil, Nat.zero_add, List.sum_append,
        List.sum_singleton, List.length_append, List.length_singleton]
      push_cast
      field_simp
      ring

/-- **Without tracked statistics** the layer always normalises with the batch statistics and has
    no state to change. -/
theorem no_track_uses_batch_stats (c : BNCfg α) (s : BNState α) (xs : List (List α)) (ht : c.track = false) :
    (bnForward c s xs).2 = s ∧
    (∀ out, (bnForward c s xs).1 = some out → out = xs.zipIdx.map (fun (x, k) =>
      normalise c.eps (mean x) (var x) (s.gamma.map (·.getD k 1)) (s.beta.map (·.getD k 0)) x)) := by
  unfold bnForward avgFactor
  cases s with | mk rm rv gamma beta nbt training =>
  simp only [ht]
  simp
  split
  · simp
  · simp [Function.comp_def]

end BN

section Dropout
variable {α : Type} [Field α] [LinearOrder α] [IsStrictOrderedRing α]

/-- **Eval-mode dropout is the identity.** -/
theorem dropout_eval_identity (p : α) (xs us : List α) : dropout p false xs us = xs := by
  simp [dropout]

/-- **Training-mode dropout** zeroes exactly the elements whose draw is `≤ p` and scales the
    survivors by exactly `1/(1−p)` (by 1 when `p = 1`, where nothing survives a draw in [0,1)). -/
theorem dropout_train_spec (p : α) (xs us : List α) (i : Nat) (x u : α)
    (hx : xs[i]? = some x) (hu : us[i]? = some u) :
    (dropout p true xs us)[i]? = some (if u ≤ p then 0 else if p < 1 then x * (1 / (1 - p)) else x) := by
  simp only [dropout, if_true, dropMask, List.getElem?_zipWith, List.getElem?_map, hx, hu,
    Option.map_some]
  by_cases h1 : u ≤ p <;> by_cases h2 : p < 1 <;> simp [h1, h2]

/-- **Backward goes through the same mask**: the training-mode forward is `x ↦ x ⊙ mask`, linear
    in `x`, and `dropoutBackward` is its transpose: ⟨v ⊙ mask, g⟩ = ⟨v, g ⊙ mask⟩. -/
theorem dropout_backward_same_mask (p : α) (vs gs us : List α)
    (h1 : vs.length = us.length) (h2 : gs.length = us.length) :
    (List.zipWith (· * ·) (dropout p true vs us) gs).sum
      = (List.zipWith (· * ·) vs (dropoutBackward p gs us)).sum := by
  simp only [dropout, if_true, dropoutBackward]
  generalize dropMask p us = ws
  clear h1 h2
  induction vs generalizing gs ws with
  | nil => simp
  | cons v vs ih =>
    cases gs with
    | nil => cases ws <;> simp
    | cons g gs =>
      cases ws with
      | nil => simp
      | cons w ws =>
        simp only [List.zipWith_cons_cons, List.sum_cons, ih]
        ring

theorem dropout_linear (p t : α) (xs vs us : List α) (h1 : xs.length = us.length) (h2 : vs.length = us.length) :
    dropout p true (List.zipWith (fun x v => x + t * v) xs vs) us
      = List.zipWith (fun y w => y + t * w) (dropout p true xs us) (dropout p true vs us) := by
  simp only [dropout, if_true]
  generalize dropMask p us = ws
  clear h1 h2
  induction xs generalizing vs ws with
  | nil => simp
  | cons x xs ih =>
    cases vs with
    | nil => simp
    | cons v vs =>
      cases ws with
      | nil => simp
      | cons w ws =>
        simp only [List.zipWith_cons_cons, ih, List.cons.injEq, and_true]
        ring

end Dropout

/-! ### Attachment is not a mode switch

The mode of a layer is the flag `train()` / `eval()` last wrote into it: directly, or through a parent that held the layer in its
registry AT THE TIME OF THAT CALL (`Synap.Modules.setTraining`, theorem `Props.C12.setTraining_reaches`).  Assigning the layer as an
attribute of a parent, `register_module`, handing it to a container constructor, re-attaching it elsewhere or detaching it leave the
flag of every module as it is — so a layer put in eval mode and then attached to a (training-mode) model stays in eval mode. -/
section Attach
open Synap.Modules

theorem updMod_training (w : World) (m : Nat) (f : Mod → Mod) (hf : ∀ M, (f M).training = M.training) (k : Nat) :
    ((updMod w m f).mods[k]?).map Mod.training = (w.mods[k]?).map Mod.training := by
  simp only [updMod, List.getElem?_map, List.getElem?_zipIdx]
  cases w.mods[k]? with
  | none => rfl
  | some M => by_cases h : k = m <;> simp [h, hf]

/-- **`register_module` leaves every mode as it is** (the registered module's, the parent's, everybody else's). -/
theorem register_keeps_modes (w : World) (m : Nat) (name : String) (j k : Nat) :
    ((regMod w m name j).mods[k]?).map Mod.training = (w.mods[k]?).map Mod.training := by
  unfold regMod
  refine updMod_training w m _ ?_ k
  intro M; rfl

/-- **Attribute assignment leaves every mode as it is**, whatever is assigned (a module: attach; `None` / a plain value / a
    parameter: detach). -/
theorem attach_keeps_modes (w : World) (m : Nat) (name : String) (v : Val) (k : Nat) :
    ((setAttr w m name v).mods[k]?).map Mod.training = (w.mods[k]?).map Mod.training := by
  cases v with
  | mod j =>
    simp only [setAttr]
    refine (register_keeps_modes _ m name j k).trans (updMod_training w m _ ?_ k)
    intro M; rfl
  | par j =>
    simp only [setAttr, regPar]
    refine (updMod_training _ m _ ?_ k).trans (updMod_training w m _ ?_ k) <;> intro M <;> rfl
  | other =>
    simp only [setAttr]
    refine updMod_training w m _ ?_ k
    intro M; rfl

theorem foldl_keeps_modes {β : Type} (g : World → β → World)
    (hg : ∀ (w : World) (x : β) (k : Nat), ((g w x).mods[k]?).map Mod.training = (w.mods[k]?).map Mod.training)
    (l : List β) (w : World) (k : Nat) :
    ((l.foldl g w).mods[k]?).map Mod.training = (w.mods[k]?).map Mod.training := by
  induction l generalizing w with
  | nil => rfl
  | cons x l ih => rw [List.foldl_cons, ih, hg]

/-- **A container built around existing modules** (`Sequential(a, b, …)`) starts in training mode and leaves the mode of each of
    its members — and of every other existing module — as it is. -/
theorem container_keeps_modes (w : World) (ks : List Nat) :
    (((sequential w ks).1.mods[(sequential w ks).2]?).map Mod.training = some true) ∧
    ∀ k : Nat, k < w.mods.length → ((sequential w ks).1.mods[k]?).map Mod.training = (w.mods[k]?).map Mod.training := by
  have hnew : ∀ k : Nat, k < w.mods.length → (newMod w).1.mods[k]? = w.mods[k]? := by
    intro k hk; simp [newMod, List.getElem?_append_left hk]
  have hfold : ∀ k : Nat, ((sequential w ks).1.mods[k]?).map Mod.training = ((newMod w).1.mods[k]?).map Mod.training := by
    intro k
    simp only [sequential]
    exact foldl_keeps_modes _ (fun (w : World) (x : Nat × Nat) (k : Nat) => by obtain ⟨a, b⟩ := x; exact register_keeps_modes w _ _ a k) _ _ k
  refine ⟨?_, fun k hk => by rw [hfold, hnew k hk]⟩
  have : (sequential w ks).2 = w.mods.length := by simp [sequential, newMod]
  rw [this, hfold]
  simp [newMod]

end Attach

/-! ### Non-vacuity: a concrete rational batch -/
instance : HasSqrt ℚ := ⟨fun x => x⟩   -- any function will do for the state theorems

example : (bnForward (α := ℚ) ⟨some (1/2), 0, true⟩ (bnInit ⟨some (1/2), 0, true⟩ 1 false) [[1, 3]]).2.rm = [1] := by
  decide +kernel

/-- `bn.eval()`, then `model = Sequential(fc, bn)` (a fresh container, in training mode): the layer is still in eval mode; a later
    `model.train()` reaches it -/
example : (let w := (Synap.Modules.newMod (Synap.Modules.newMod Synap.Modules.World.empty).1).1      -- m0 = bn, m1 = fc
           let w := Synap.Modules.setTraining false (Synap.Modules.fuelOf w) w 0
           let w := (Synap.Modules.sequential w [1, 0]).1
           (w.mods.map Synap.Modules.Mod.training, (Synap.Modules.setTraining true (Synap.Modules.fuelOf w) w 2).mods.map Synap.Modules.Mod.training))
    = ([false, true, true], [true, true, true]) := by decide

/-! ### the decision logic of `BatchNorm.forward`, read from `layers.py` on this run (`Generated/LayerLogic.lean`, rewritten by
    `harness/layer_logic.py` every time the check runs), is the logic of the layer model -/
open Proofs.LayerLogicTie in
/-- counter, averaging factor, use of batch statistics and passing of the running buffers, for every option setting, mode and
    counter value, over any field -/
theorem src_bn_forward_logic_is_model : type_of% @bn_forward_logic_is_model := @bn_forward_logic_is_model

end Props.C13
