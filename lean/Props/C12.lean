import SynapModel.Modules
import Std.Data.String.ToNat
/-!
# C12 — Module trees report each parameter once and propagate mode to all descendants

Statements about `Synap.Modules` (the model of synapgrad/nn/modules.py), for every world of
modules and parameters (any tree shape, any sharing, any assignment history).
-/
namespace Props.C12
open Synap.Modules

/-- well-formed world: a submodule was created before its parent (no cycles) -/
def WFW (w : World) : Prop :=
  ∀ (m : Nat) (M : Mod), w.mods[m]? = some M → ∀ s ∈ M.subs, s.2 < m

/-- `Reach w m m'` : `m'` is `m` or a descendant of `m` through submodule registrations -/
inductive Reach (w : World) : Nat → Nat → Prop
  | refl (m : Nat) : Reach w m m
  | step {m k m' : Nat} {M : Mod} {n : String} :
      w.mods[m]? = some M → (n, k) ∈ M.subs → Reach w k m' → Reach w m m'

/-! ### `dedup` as a fold with an explicit accumulator -/

def go (acc l : List Nat) : List Nat :=
  l.foldl (fun acc x => if acc.contains x then acc else acc ++ [x]) acc

theorem dedup_eq_go (l : List Nat) : dedup l = go [] l := rfl

theorem go_nil (acc : List Nat) : go acc [] = acc := rfl
theorem go_cons (acc : List Nat) (x : Nat) (l : List Nat) :
    go acc (x :: l) = go (if x ∈ acc then acc else acc ++ [x]) l := by
  simp [go]
theorem go_append (acc l1 l2 : List Nat) : go acc (l1 ++ l2) = go (go acc l1) l2 := by
  simp [go]
theorem go_snoc (acc l : List Nat) (x : Nat) :
    go acc (l ++ [x]) = if x ∈ go acc l then go acc l else go acc l ++ [x] := by
  rw [go_append, go_cons, go_nil]

theorem mem_go (acc l : List Nat) (x : Nat) : x ∈ go acc l ↔ x ∈ acc ∨ x ∈ l := by
  induction l generalizing acc with
  | nil => simp [go_nil]
  | cons y l ih =>
    rw [go_cons, ih]
    by_cases h : y ∈ acc
    · simp only [h, if_true, List.mem_cons]
      constructor
      · rintro (h1 | h1) <;> simp [h1]
      · rintro (h1 | h1 | h1)
        · exact Or.inl h1
        · exact Or.inl (h1 ▸ h)
        · exact Or.inr h1
    · simp only [h, if_false, List.mem_append, List.mem_cons, List.not_mem_nil, or_false]
      constructor
      · rintro ((h1 | h1) | h1) <;> simp [h1]
      · rintro (h1 | h1 | h1) <;> simp [h1]

theorem go_nodup (acc l : List Nat) (h : acc.Nodup) : (go acc l).Nodup := by
  induction l generalizing acc with
  | nil => simpa [go_nil]
  | cons y l ih =>
    rw [go_cons]
    apply ih
    by_cases hy : y ∈ acc
    · simpa [hy]
    · simp only [hy, if_false]
      rw [List.nodup_append]
      refine ⟨h, by simp, ?_⟩
      intro a ha b hb
      simp at hb
      subst hb
      intro e; subst e; exact hy ha

theorem go_dedup (acc ys : List Nat) : go acc (dedup ys) = go acc ys := by
  rw [← List.reverse_reverse ys]
  generalize ys.reverse = r
  induction r with
  | nil => rfl
  | cons y r ih =>
    rw [List.reverse_cons]
    generalize r.reverse = ys at ih ⊢
    rw [dedup_eq_go, go_snoc, ← dedup_eq_go, go_snoc]
    by_cases hy : y ∈ dedup ys
    · have : y ∈ go acc ys := by
        rw [mem_go]; right; rw [dedup_eq_go, mem_go] at hy; simpa using hy
      simp [hy, this, ih]
    · simp only [hy, if_false]
      rw [go_snoc, ih]

theorem mem_dedup (l : List Nat) (x : Nat) : x ∈ dedup l ↔ x ∈ l := by
  rw [dedup_eq_go, mem_go]; simp

theorem dedup_nodup (l : List Nat) : (dedup l).Nodup := by
  rw [dedup_eq_go]; exact go_nodup _ _ List.nodup_nil

/-- **Each parameter once.** -/
theorem parameters_nodup (w : World) (f m : Nat) : (parameters w f m).Nodup := by
  cases f with
  | zero => simp [parameters]
  | succ f =>
    simp only [parameters]
    split
    · exact List.nodup_nil
    · exact dedup_nodup _

theorem go_flatMap_dedup {α : Type} (g : α → List Nat) (l : List α) (acc : List Nat) :
    go acc (l.flatMap (fun s => dedup (g s))) = go acc (l.flatMap g) := by
  induction l generalizing acc with
  | nil => rfl
  | cons s l ih =>
    simp only [List.flatMap_cons, go_append, go_dedup, ih]

/-- **Registration order.** De-duplicating at every level (as the code does) equals keeping the
    first occurrence in the plain pre-order listing `own parameters, then each submodule in
    registration order`. -/
theorem parameters_eq_dedup_flat (w : World) (f m : Nat) :
    parameters w f m = dedup (paramsFlat w f m) := by
  induction f generalizing m with
  | zero => rfl
  | succ f ih =>
    simp only [parameters, paramsFlat]
    split
    · rfl
    · rename_i M _
      simp only [dedup_eq_go, go_append]
      have : (fun s : String × Nat => parameters w f s.2) = fun s => dedup (paramsFlat w f s.2) := by
        funext s; exact ih s.2
      rw [this, go_flatMap_dedup (fun s : String × Nat => paramsFlat w f s.2)]

theorem reach_iff (w : World) (m k : Nat) :
    Reach w m k ↔ m = k ∨ ∃ M s, w.mods[m]? = some M ∧ s ∈ M.subs ∧ Reach w s.2 k := by
  constructor
  · intro h
    cases h with
    | refl => exact Or.inl rfl
    | step h1 h2 h3 => exact Or.inr ⟨_, _, h1, h2, h3⟩
  · rintro (rfl | ⟨M, ⟨n, j⟩, h1, h2, h3⟩)
    · exact Reach.refl _
    · exact Reach.step h1 h2 h3

/-- **Completeness.** With enough fuel (`m < f`, which `fuelOf` guarantees for every existing
    module) a parameter is reported iff it is registered on `m` or on a descendant of `m`. -/
theorem mem_parameters_iff (w : World) (hw : WFW w) (f m p : Nat) (hf : m < f) :
    p ∈ parameters w f m ↔
      ∃ m' M, Reach w m m' ∧ w.mods[m']? = some M ∧ p ∈ M.params.map (·.2) := by
  induction f generalizing m with
  | zero => omega
  | succ f ih =>
    simp only [parameters]
    split
    · rename_i hnone
      simp only [List.not_mem_nil, false_iff]
      rintro ⟨m', M, hr, hM, _⟩
      rw [reach_iff] at hr
      rcases hr with rfl | ⟨M0, s, h1, _⟩
      · rw [hnone] at hM; cases hM
      · rw [hnone] at h1; cases h1
    · rename_i M hM
      rw [mem_dedup, List.mem_append, List.mem_flatMap]
      constructor
      · rintro (h | ⟨s, hs, hp⟩)
        · exact ⟨m, M, Reach.refl _, hM, h⟩
        · have hlt := hw m M hM s hs
          obtain ⟨m', M', hr, hM', hp'⟩ := (ih s.2 (by omega)).1 hp
          exact ⟨m', M', (reach_iff w m m').2 (Or.inr ⟨M, s, hM, hs, hr⟩), hM', hp'⟩
      · rintro ⟨m', M', hr, hM', hp⟩
        rw [reach_iff] at hr
        rcases hr with rfl | ⟨M0, s, h1, hs, hr⟩
        · rw [hM] at hM'; cases hM'; exact Or.inl hp
        · rw [hM] at h1; cases h1
          have hlt := hw m M hM s hs
          exact Or.inr ⟨s, hs, (ih s.2 (by omega)).2 ⟨m', M', hr, hM', hp⟩⟩

theorem sum_split (ps : List Par) :
    (ps.map (·.size)).sum = ((ps.filter (·.reqGrad)).map (·.size)).sum
      + ((ps.filter (!·.reqGrad)).map (·.size)).sum := by
  induction ps with
  | nil => rfl
  | cons a l ih =>
    cases h : a.reqGrad <;> simp [h, ih] <;> omega

/-- **num_params splits.** total = trainable + frozen. -/
theorem numParams_split (w : World) (m : Nat) :
    (numParams w m).1 = (numParams w m).2.1 + (numParams w m).2.2 := by
  simp only [numParams]
  exact sum_split _

/-! ### `updMod` and the ordered-dict operations -/

theorem updMod_getElem? (w : World) (m : Nat) (f : Mod → Mod) (k : Nat) :
    (updMod w m f).mods[k]? = (w.mods[k]?).map (fun x => if k = m then f x else x) := by
  simp only [updMod, List.getElem?_map, List.getElem?_zipIdx]
  cases w.mods[k]? <;> simp

theorem updMod_pars (w : World) (m : Nat) (f : Mod → Mod) : (updMod w m f).pars = w.pars := rfl
theorem updMod_length (w : World) (m : Nat) (f : Mod → Mod) :
    (updMod w m f).mods.length = w.mods.length := by simp [updMod]

theorem odGet_nil (n : String) : odGet [] n = none := rfl
theorem odGet_cons (e : String × Nat) (d : List (String × Nat)) (n : String) :
    odGet (e :: d) n = if e.1 = n then some e.2 else odGet d n := by
  by_cases h : e.1 = n <;> simp [odGet, h]

theorem odPop_cons (e : String × Nat) (d : List (String × Nat)) (k : String) :
    odPop (e :: d) k = if e.1 = k then odPop d k else e :: odPop d k := by
  by_cases h : e.1 = k <;> simp [odPop, h]

theorem odGet_odPop_self (d : List (String × Nat)) (k : String) : odGet (odPop d k) k = none := by
  induction d with
  | nil => rfl
  | cons e d ih =>
    rw [odPop_cons]
    by_cases h : e.1 = k
    · rw [if_pos h]; exact ih
    · rw [if_neg h, odGet_cons, if_neg h]; exact ih

theorem odGet_odPop_ne (d : List (String × Nat)) (k n : String) (h : n ≠ k) :
    odGet (odPop d k) n = odGet d n := by
  induction d with
  | nil => rfl
  | cons e d ih =>
    rw [odPop_cons]
    by_cases he : e.1 = k
    · have : ¬ e.1 = n := by rw [he]; exact fun e => h e.symm
      rw [if_pos he, odGet_cons, if_neg this]; exact ih
    · rw [if_neg he, odGet_cons, odGet_cons, ih]

theorem odGet_append_none (d d' : List (String × Nat)) (n : String) (h : odGet d n = none) :
    odGet (d ++ d') n = odGet d' n := by
  induction d with
  | nil => rfl
  | cons e d ih =>
    rw [odGet_cons] at h
    by_cases he : e.1 = n
    · simp [he] at h
    · rw [if_neg he] at h
      rw [List.cons_append, odGet_cons, if_neg he, ih h]

theorem odGet_append_ne (d : List (String × Nat)) (k n : String) (v : Nat) (h : n ≠ k) :
    odGet (d ++ [(k, v)]) n = odGet d n := by
  have hk : ¬ k = n := fun e => h e.symm
  induction d with
  | nil => simp [odGet_cons, odGet_nil, hk]
  | cons e d ih => rw [List.cons_append, odGet_cons, odGet_cons, ih]

theorem any_key_cons (e : String × Nat) (d : List (String × Nat)) (k : String) :
    ((e :: d).any (·.1 == k) = true) ↔ (e.1 = k ∨ d.any (·.1 == k) = true) := by
  simp

theorem any_false_odGet (d : List (String × Nat)) (k : String) (h : ¬ d.any (·.1 == k) = true) :
    odGet d k = none := by
  induction d with
  | nil => rfl
  | cons e d ih =>
    rw [any_key_cons] at h
    by_cases he : e.1 = k
    · exact absurd (Or.inl he) h
    · rw [odGet_cons, if_neg he]; exact ih (fun h' => h (Or.inr h'))

def repl (k : String) (v : Nat) (e : String × Nat) : String × Nat := if e.1 == k then (k, v) else e
theorem repl_pos (k : String) (v : Nat) (e : String × Nat) (h : e.1 = k) : repl k v e = (k, v) := by
  simp [repl, h]
theorem repl_neg (k : String) (v : Nat) (e : String × Nat) (h : ¬ e.1 = k) : repl k v e = e := by
  simp [repl, h]

theorem odGet_map_self (d : List (String × Nat)) (k : String) (v : Nat)
    (h : d.any (·.1 == k) = true) :
    odGet (d.map (repl k v)) k = some v := by
  induction d with
  | nil => simp at h
  | cons e d ih =>
    rw [any_key_cons] at h
    by_cases he : e.1 = k
    · rw [List.map_cons, repl_pos _ _ _ he, odGet_cons, if_pos rfl]
    · rw [List.map_cons, repl_neg _ _ _ he, odGet_cons, if_neg he]
      exact ih (h.resolve_left he)

theorem odGet_map_ne (d : List (String × Nat)) (k n : String) (v : Nat) (h : n ≠ k) :
    odGet (d.map (repl k v)) n = odGet d n := by
  have hk : ¬ k = n := fun e => h e.symm
  induction d with
  | nil => rfl
  | cons e d ih =>
    by_cases he : e.1 = k
    · have : ¬ e.1 = n := by rw [he]; exact hk
      rw [List.map_cons, repl_pos _ _ _ he, odGet_cons, odGet_cons, if_neg hk, if_neg this]
      exact ih
    · rw [List.map_cons, repl_neg _ _ _ he, odGet_cons, odGet_cons, ih]

theorem odSet_eq (d : List (String × Nat)) (k : String) (v : Nat) :
    odSet d k v = if d.any (·.1 == k) then d.map (repl k v) else d ++ [(k, v)] := rfl

theorem odGet_odSet_self (d : List (String × Nat)) (k : String) (v : Nat) :
    odGet (odSet d k v) k = some v := by
  rw [odSet_eq]
  split
  · rename_i h; exact odGet_map_self d k v h
  · rename_i h
    rw [odGet_append_none _ _ _ (any_false_odGet d k h)]
    simp [odGet_cons]

theorem odGet_odSet_ne (d : List (String × Nat)) (k n : String) (v : Nat) (h : n ≠ k) :
    odGet (odSet d k v) n = odGet d n := by
  rw [odSet_eq]
  split
  · exact odGet_map_ne d k n v h
  · exact odGet_append_ne d k n v h
/-- **Replacing an attribute replaces its registration**: after `setattr(m, name, v)` the name is
    registered exactly according to the kind of `v`, and every other name is untouched. -/
theorem setAttr_replaces (w : World) (m : Nat) (M : Mod) (name : String) (v : Val)
    (hM : w.mods[m]? = some M) :
    ∃ M', (setAttr w m name v).mods[m]? = some M' ∧
      odGet M'.subs name = (match v with | .mod k => some k | _ => none) ∧
      odGet M'.params name = (match v with | .par k => some k | _ => none) ∧
      (∀ n, n ≠ name → odGet M'.subs n = odGet M.subs n ∧ odGet M'.params n = odGet M.params n) ∧
      M'.training = M.training := by
  cases v with
  | mod k =>
    simp only [setAttr, regMod, updMod_getElem?, hM, Option.map_some, if_true]
    refine ⟨_, rfl, ?_, ?_, ?_, rfl⟩
    · simp [odGet_odSet_self]
    · simp [odGet_odPop_self]
    · intro n hn
      simp [odGet_odSet_ne _ _ _ _ hn, odGet_odPop_ne _ _ _ hn]
  | par k =>
    simp only [setAttr, regPar, updMod_getElem?, hM, Option.map_some, if_true]
    refine ⟨_, rfl, ?_, ?_, ?_, rfl⟩
    · simp [odGet_odPop_self]
    · simp [odGet_odSet_self]
    · intro n hn
      simp [odGet_odSet_ne _ _ _ _ hn, odGet_odPop_ne _ _ _ hn]
  | other =>
    simp only [setAttr, updMod_getElem?, hM, Option.map_some, if_true]
    refine ⟨_, rfl, ?_, ?_, ?_, rfl⟩
    · simp [odGet_odPop_self]
    · simp [odGet_odPop_self]
    · intro n hn
      simp [odGet_odPop_ne _ _ _ hn]

/-! ### `setTraining` -/

/-- frame invariant: only training flags change, and they only change to `v` -/
def Frame (v : Bool) (w w' : World) : Prop :=
  w'.pars = w.pars ∧ w'.mods.length = w.mods.length ∧
  ∀ (k : Nat) (K : Mod), w.mods[k]? = some K → ∃ K' : Mod, w'.mods[k]? = some K' ∧
      K'.subs = K.subs ∧ K'.params = K.params ∧ (K'.training = K.training ∨ K'.training = v)

theorem Frame.refl (v : Bool) (w : World) : Frame v w w :=
  ⟨rfl, rfl, fun _ K h => ⟨K, h, rfl, rfl, Or.inl rfl⟩⟩

theorem Frame.trans {v : Bool} {w1 w2 w3 : World} (h12 : Frame v w1 w2) (h23 : Frame v w2 w3) :
    Frame v w1 w3 := by
  refine ⟨h23.1.trans h12.1, h23.2.1.trans h12.2.1, ?_⟩
  intro k K hK
  obtain ⟨K2, hK2, a1, a2, a3⟩ := h12.2.2 k K hK
  obtain ⟨K3, hK3, b1, b2, b3⟩ := h23.2.2 k K2 hK2
  refine ⟨K3, hK3, b1.trans a1, b2.trans a2, ?_⟩
  rcases b3 with b3 | b3
  · rw [b3]; exact a3
  · exact Or.inr b3

theorem Frame.upd (v : Bool) (w : World) (m : Nat) :
    Frame v w (updMod w m (fun M => { M with training := v })) := by
  refine ⟨rfl, updMod_length _ _ _, ?_⟩
  intro k K hK
  rw [updMod_getElem?, hK]
  by_cases h : k = m
  · exact ⟨{ K with training := v }, by simp only [Option.map_some, h, if_true], rfl, rfl, Or.inr rfl⟩
  · exact ⟨K, by simp only [Option.map_some, h, if_false], rfl, rfl, Or.inl rfl⟩

theorem Frame.foldl (v : Bool) (g : World → String × Nat → World)
    (hg : ∀ w s, Frame v w (g w s)) (l : List (String × Nat)) (w : World) :
    Frame v w (l.foldl g w) := by
  induction l generalizing w with
  | nil => exact Frame.refl v w
  | cons s l ih => exact (hg w s).trans (ih (g w s))

theorem setTraining_Frame (v : Bool) (f : Nat) (w : World) (m : Nat) :
    Frame v w (setTraining v f w m) := by
  induction f generalizing w m with
  | zero => exact Frame.refl v w
  | succ f ih =>
    simp only [setTraining]
    split
    · exact Frame.refl v w
    · exact (Frame.upd v w m).trans (Frame.foldl v _ (fun w s => ih w s.2) _ _)

/-- `setTraining` changes nothing but `training` flags -/
theorem setTraining_frame (v : Bool) (f : Nat) (w : World) (m k : Nat) :
    (setTraining v f w m).pars = w.pars ∧
    (setTraining v f w m).mods.length = w.mods.length ∧
    ∀ K, w.mods[k]? = some K → ∃ K', (setTraining v f w m).mods[k]? = some K' ∧
      K'.subs = K.subs ∧ K'.params = K.params ∧ (K'.training = K.training ∨ K'.training = v) := by
  have h := setTraining_Frame v f w m
  exact ⟨h.1, h.2.1, fun K hK => h.2.2 k K hK⟩

/-- `w` has the same registration structure as the reference world `w0` -/
def SameSubs (w0 w : World) : Prop :=
  ∀ k : Nat, (w.mods[k]?).map Mod.subs = (w0.mods[k]?).map Mod.subs

theorem SameSubs.of_frame {v : Bool} {w0 w w' : World} (h : SameSubs w0 w) (hf : Frame v w w') :
    SameSubs w0 w' := by
  intro k
  rw [← h k]
  cases hk : w.mods[k]? with
  | none =>
    have : w.mods.length ≤ k := by simpa using hk
    have : w'.mods[k]? = none := by
      rw [List.getElem?_eq_none_iff]; rw [hf.2.1]; exact this
    rw [this]
  | some K =>
    obtain ⟨K', hK', e, _⟩ := hf.2.2 k K hk
    rw [hK']; simp [e]

/-- effect of `setTraining` relative to a fixed reference world `w0` -/
def Eff (v : Bool) (R : Nat → Prop) (w w' : World) : Prop :=
  ∀ (k : Nat) (K : Mod), w.mods[k]? = some K → ∃ K' : Mod, w'.mods[k]? = some K' ∧
    (R k → K'.training = v) ∧ (¬ R k → K'.training = K.training)

theorem setTraining_eff (v : Bool) (w0 : World) (hw : WFW w0) (f : Nat) :
    ∀ (w : World) (m : Nat), m < f → SameSubs w0 w →
      Eff v (Reach w0 m) w (setTraining v f w m) := by
  induction f with
  | zero => intro w m h; omega
  | succ f ih =>
    intro w m hf hs
    simp only [setTraining]
    split
    · rename_i hnone
      intro k K hK
      refine ⟨K, hK, ?_, fun _ => rfl⟩
      intro hr
      exfalso
      have h0 : w0.mods[m]? = none := by
        have := hs m; rw [hnone] at this
        cases h : w0.mods[m]? with
        | none => rfl
        | some _ => rw [h] at this; cases this
      rw [reach_iff] at hr
      rcases hr with rfl | ⟨M, s, h1, _⟩
      · rw [hnone] at hK; cases hK
      · rw [h0] at h1; cases h1
    · rename_i M hM
      -- the reference module
      obtain ⟨M0, hM0, hsubs⟩ : ∃ M0, w0.mods[m]? = some M0 ∧ M0.subs = M.subs := by
        have := hs m; rw [hM] at this
        cases h : w0.mods[m]? with
        | none => rw [h] at this; cases this
        | some M0 => rw [h] at this; exact ⟨M0, rfl, by simpa using this.symm⟩
      -- inner induction over the submodule list
      have inner : ∀ (l : List (String × Nat)), (∀ s ∈ l, s.2 < f) → ∀ w1, SameSubs w0 w1 →
          Eff v (fun k => ∃ s ∈ l, Reach w0 s.2 k) w1
            (l.foldl (fun w s => setTraining v f w s.2) w1) := by
        intro l
        induction l with
        | nil =>
          intro _ w1 _ k K hK
          exact ⟨K, hK, by simp, fun _ => rfl⟩
        | cons s l ihl =>
          intro hl w1 hs1 k K hK
          have hs2 : SameSubs w0 (setTraining v f w1 s.2) := hs1.of_frame (setTraining_Frame v f w1 s.2)
          obtain ⟨K2, hK2, a1, a2⟩ := ih w1 s.2 (hl s (by simp)) hs1 k K hK
          obtain ⟨K3, hK3, b1, b2⟩ :=
            ihl (fun s' hs' => hl s' (by simp [hs'])) _ hs2 k K2 hK2
          refine ⟨K3, hK3, ?_, ?_⟩
          · rintro ⟨s', hs', hr⟩
            by_cases hex : ∃ s ∈ l, Reach w0 s.2 k
            · exact b1 hex
            · rw [b2 hex]
              rcases List.mem_cons.1 hs' with rfl | hs'
              · exact a1 hr
              · exact absurd ⟨s', hs', hr⟩ hex
          · intro hno
            have h1 : ¬ ∃ s ∈ l, Reach w0 s.2 k := fun ⟨s', hs', hr⟩ => hno ⟨s', by simp [hs'], hr⟩
            have h2 : ¬ Reach w0 s.2 k := fun hr => hno ⟨s, by simp, hr⟩
            rw [b2 h1, a2 h2]
      have hlt : ∀ s ∈ M.subs, s.2 < f := by
        intro s hs'
        have := hw m M0 hM0 s (hsubs ▸ hs')
        omega
      have hs1 : SameSubs w0 (updMod w m (fun M => { M with training := v })) :=
        hs.of_frame (Frame.upd v w m)
      intro k K hK
      have hK1 : (updMod w m (fun M => { M with training := v })).mods[k]? =
          some (if k = m then { K with training := v } else K) := by
        rw [updMod_getElem?, hK]; rfl
      obtain ⟨K', hK', c1, c2⟩ := inner M.subs hlt _ hs1 k _ hK1
      refine ⟨K', hK', ?_, ?_⟩
      · intro hr
        by_cases hex : ∃ s ∈ M.subs, Reach w0 s.2 k
        · exact c1 hex
        · rw [c2 hex]
          rw [reach_iff] at hr
          rcases hr with rfl | ⟨M', s, h1, h2, h3⟩
          · simp
          · rw [hM0] at h1; cases h1
            exact absurd ⟨s, hsubs ▸ h2, h3⟩ hex
      · intro hno
        have hne : ¬ k = m := fun e => hno (e ▸ Reach.refl _)
        have hex : ¬ ∃ s ∈ M.subs, Reach w0 s.2 k := by
          rintro ⟨s, h2, h3⟩
          exact hno ((reach_iff w0 m k).2 (Or.inr ⟨M0, s, hM0, hsubs ▸ h2, h3⟩))
        rw [c2 hex]; simp [hne]

/-- **train()/eval() reach every descendant** (and nothing that is not a descendant). -/
theorem setTraining_reaches (v : Bool) (w : World) (hw : WFW w) (f m : Nat) (hf : m < f) (k : Nat)
    (K : Mod) (hK : w.mods[k]? = some K) (hm : m < w.mods.length) :
    ∃ K', (setTraining v f w m).mods[k]? = some K' ∧
      (Reach w m k → K'.training = v) ∧ (¬ Reach w m k → K'.training = K.training) := by
  have _ := hm
  exact setTraining_eff v w hw f w m hf (fun _ => rfl) k K hK

/-! ### `Sequential` -/

theorem toString_nat_inj {i j : Nat} (h : toString i = toString j) : i = j :=
  Nat.repr_injective h

theorem odSet_fresh (d : List (String × Nat)) (k : String) (v : Nat)
    (h : ∀ e ∈ d, e.1 ≠ k) : odSet d k v = d ++ [(k, v)] := by
  unfold odSet
  rw [if_neg]
  simp only [List.any_eq_true, beq_iff_eq, not_exists, not_and]
  exact fun e he => h e he

theorem seq_fold (m : Nat) (ks : List Nat) :
    ∀ (j : Nat) (w1 : World) (M : Mod), w1.mods[m]? = some M →
      (∀ e ∈ M.subs, ∃ i, i < j ∧ e.1 = toString i) →
      ∃ M' : Mod, ((ks.zipIdx j).foldl (fun w (x : Nat × Nat) => regMod w m (toString x.2) x.1) w1).mods[m]?
          = some M' ∧ M'.subs.map (·.2) = M.subs.map (·.2) ++ ks := by
  induction ks with
  | nil => intro j w1 M hM _; exact ⟨M, hM, by simp⟩
  | cons k ks ih =>
    intro j w1 M hM hkeys
    rw [List.zipIdx_cons, List.foldl_cons]
    have hfresh : ∀ e ∈ M.subs, e.1 ≠ toString j := by
      intro e he heq
      obtain ⟨i, hi, hei⟩ := hkeys e he
      have := toString_nat_inj (hei.symm.trans heq)
      omega
    have h1 : (regMod w1 m (toString j) k).mods[m]? =
        some { M with params := odPop M.params (toString j), subs := M.subs ++ [(toString j, k)] } := by
      rw [regMod, updMod_getElem?, hM]
      simp only [Option.map_some, if_true, odSet_fresh _ _ _ hfresh]
    obtain ⟨M', hM', hsubs⟩ := ih (j + 1) _ _ h1 (by
      intro e he
      simp only [List.mem_append, List.mem_singleton] at he
      rcases he with he | rfl
      · obtain ⟨i, hi, hei⟩ := hkeys e he
        exact ⟨i, by omega, hei⟩
      · exact ⟨j, by omega, rfl⟩)
    exact ⟨M', hM', by simpa using hsubs⟩

/-- **Sequential applies its submodules in registration (argument) order.** -/
theorem sequential_order (w : World) (ks : List Nat) :
    applyOrder (sequential w ks).1 (sequential w ks).2 = ks := by
  have h0 : (newMod w).1.mods[(newMod w).2]? = some ⟨[], [], true⟩ := by
    simp [newMod]
  obtain ⟨M', hM', hsubs⟩ := seq_fold (newMod w).2 ks 0 (newMod w).1 _ h0 (by simp)
  have : (sequential w ks).1.mods[(sequential w ks).2]? = some M' := hM'
  simp only [applyOrder, this]
  simpa using hsubs

/-! ### order of the members after one of them is replaced, removed or added -/
theorem any_odPop_self (d : List (String × Nat)) (k : String) : (odPop d k).any (·.1 == k) = false := by
  simp [odPop, List.any_eq_false]

/-- **A member (re)assigned by `setattr` runs last**: assignment drops the name's registration and registers anew, so the
    container applies the remaining members in their old order and then the new one — whatever the name looks like (a
    numeric key such as `"3"` of a positional Sequential included: the slot is NOT kept, and the keys are never re-sorted). -/
theorem applyOrder_setAttr_mod (w : World) (m : Nat) (M : Mod) (name : String) (k : Nat)
    (hM : w.mods[m]? = some M) :
    applyOrder (setAttr w m name (.mod k)) m = (odPop M.subs name).map (·.2) ++ [k] := by
  simp only [applyOrder, setAttr, regMod, updMod_getElem?, hM, Option.map_some, if_true]
  simp [odSet_eq, any_odPop_self]

/-- **A member removed by assignment of `None` / a plain value / a parameter** leaves the others in their order. -/
theorem applyOrder_setAttr_other (w : World) (m : Nat) (M : Mod) (name : String)
    (hM : w.mods[m]? = some M) :
    applyOrder (setAttr w m name .other) m = (odPop M.subs name).map (·.2) := by
  simp only [applyOrder, setAttr, updMod_getElem?, hM, Option.map_some, if_true]

theorem applyOrder_setAttr_par (w : World) (m : Nat) (M : Mod) (name : String) (p : Nat)
    (hM : w.mods[m]? = some M) :
    applyOrder (setAttr w m name (.par p)) m = (odPop M.subs name).map (·.2) := by
  simp only [applyOrder, setAttr, regPar, updMod_getElem?, hM, Option.map_some, if_true]
  congr 1
  simp [odPop]

/-- **`register_module` over an existing key keeps the slot** (the entry is replaced where it stands); a new key is appended. -/
theorem applyOrder_regMod (w : World) (m : Nat) (M : Mod) (name : String) (k : Nat)
    (hM : w.mods[m]? = some M) :
    applyOrder (regMod w m name k) m =
      if M.subs.any (·.1 == name) then M.subs.map (fun e => if e.1 = name then k else e.2)
      else M.subs.map (·.2) ++ [k] := by
  simp only [applyOrder, regMod, updMod_getElem?, hM, Option.map_some, if_true, odSet_eq]
  split
  · simp only [List.map_map]
    apply List.map_congr_left
    intro e _
    by_cases he : e.1 = name <;> simp [repl, he]
  · simp

/-! ### zero_grad / freeze / unfreeze act on exactly the parameters of the module -/
theorem updPar_getElem? (w : World) (p : Nat) (f : Par → Par) (k : Nat) :
    (updPar w p f).pars[k]? = (w.pars[k]?).map (fun P => if k = p then f P else P) := by
  simp only [updPar, List.getElem?_map, List.getElem?_zipIdx]
  cases h : w.pars[k]? with
  | none => simp
  | some P => simp

theorem updPar_mods (w : World) (p : Nat) (f : Par → Par) : (updPar w p f).mods = w.mods := rfl

/-- folding `updPar` over a duplicate-free list of parameter ids applies `f` once to each listed parameter and leaves every
    other parameter (and every module) as it was -/
theorem foldl_updPar (f : Par → Par) : ∀ (ps : List Nat) (w : World), ps.Nodup →
    (ps.foldl (fun w p => updPar w p f) w).mods = w.mods ∧
    ∀ k, (ps.foldl (fun w p => updPar w p f) w).pars[k]? = (w.pars[k]?).map (fun P => if k ∈ ps then f P else P) := by
  intro ps
  induction ps with
  | nil => intro w _; exact ⟨rfl, fun k => by simp⟩
  | cons p ps ih =>
    intro w hnd
    obtain ⟨hp, hps⟩ := List.nodup_cons.mp hnd
    obtain ⟨h1, h2⟩ := ih (updPar w p f) hps
    refine ⟨by rw [List.foldl_cons, h1, updPar_mods], fun k => ?_⟩
    rw [List.foldl_cons, h2 k, updPar_getElem?]
    cases hk : w.pars[k]? with
    | none => simp
    | some P =>
      simp only [Option.map_some, List.mem_cons]
      by_cases hkp : k = p
      · subst hkp; simp [hp]
      · simp [hkp]

/-- **`Module.zero_grad()` acts on exactly the trainable parameters `parameters()` lists**: each of them gets a zero gradient,
    every other parameter of the world — frozen ones, parameters of other modules, also a parameter that was given the SAME
    gradient values (`q.grad = p.grad`) — keeps what it had; no module changes. -/
theorem zeroGrad_exact (w : World) (m : Nat) :
    (zeroGrad w m).mods = w.mods ∧
    ∀ k, (zeroGrad w m).pars[k]? = (w.pars[k]?).map (fun P =>
      if k ∈ parameters w (fuelOf w) m ∧ P.reqGrad = true then { P with hasGrad := true, gval := some 0 } else P) := by
  obtain ⟨h1, h2⟩ := foldl_updPar (fun P => if P.reqGrad then { P with hasGrad := true, gval := some 0 } else P)
    (parameters w (fuelOf w) m) w (parameters_nodup w _ m)
  refine ⟨h1, fun k => ?_⟩
  rw [zeroGrad, h2 k]
  cases w.pars[k]? with
  | none => rfl
  | some P =>
    simp only [Option.map_some]
    by_cases hk : k ∈ parameters w (fuelOf w) m <;> by_cases hr : P.reqGrad = true <;> simp [hk, hr]

/-- **`freeze()` / `unfreeze()` set the flag of exactly the parameters `parameters()` lists** and touch nothing else -/
theorem setReqGrad_exact (v : Bool) (w : World) (m : Nat) :
    (setReqGrad v w m).mods = w.mods ∧
    ∀ k, (setReqGrad v w m).pars[k]? = (w.pars[k]?).map (fun P =>
      if k ∈ parameters w (fuelOf w) m then { P with reqGrad := v } else P) := by
  obtain ⟨h1, h2⟩ := foldl_updPar (fun P => { P with reqGrad := v }) (parameters w (fuelOf w) m) w (parameters_nodup w _ m)
  exact ⟨h1, fun k => by rw [setReqGrad, h2 k]⟩

/-! ### parameters created from existing tensors / parameters (`Parameter(t)`, `dec.w = Parameter(enc.w)`) -/

/-- **A parameter made from an existing one is a new object** under a fresh id that starts as a copy of its source ... -/
theorem wrapPar_spec (w : World) (p : Nat) (P : Par) (h : w.pars[p]? = some P) :
    wrapPar w p = ({ w with pars := w.pars ++ [P] }, some w.pars.length) := by
  simp [wrapPar, h]

/-- ... and leaves every existing parameter (its source included) and every module as they are. -/
theorem wrapPar_frame (w : World) (p k : Nat) (hk : k < w.pars.length) :
    (wrapPar w p).1.pars[k]? = w.pars[k]? ∧ (wrapPar w p).1.mods = w.mods := by
  unfold wrapPar
  cases h : w.pars[p]? with
  | none => simp
  | some P => simp [List.getElem?_append_left hk]

/-- **freeze / unfreeze on a node leave every parameter outside its `parameters()` alone** — the source of a wrapped copy, a copy
    registered in another subtree -/
theorem setReqGrad_other (v : Bool) (w : World) (m k : Nat) (h : k ∉ parameters w (fuelOf w) m) :
    (setReqGrad v w m).pars[k]? = w.pars[k]? := by
  rw [(setReqGrad_exact v w m).2 k]
  cases w.pars[k]? <;> simp [h]

/-- the same for `zero_grad` -/
theorem zeroGrad_other (w : World) (m k : Nat) (h : k ∉ parameters w (fuelOf w) m) :
    (zeroGrad w m).pars[k]? = w.pars[k]? := by
  rw [(zeroGrad_exact w m).2 k]
  cases w.pars[k]? <;> simp [h]

/-- the setter on one parameter object changes that object only -/
theorem setParReqGrad_other (w : World) (p k : Nat) (v : Bool) (h : k ≠ p) :
    (setParReqGrad w p v).pars[k]? = w.pars[k]? := by
  rw [setParReqGrad, updPar_getElem?]
  cases w.pars[k]? <;> simp [h]

/-! ### containers built from a collection of the caller (an `OrderedDict` / a list that lives on in the caller's hands) -/

/-- assignment / registration on module `m` leaves every other module as it is -/
theorem setAttr_frame (w : World) (m k : Nat) (name : String) (v : Val) (h : k ≠ m) :
    (setAttr w m name v).mods[k]? = w.mods[k]? := by
  cases v <;> simp [setAttr, regMod, regPar, updMod_getElem?, h]

theorem regMod_frame (w : World) (m k : Nat) (name : String) (j : Nat) (h : k ≠ m) :
    (regMod w m name j).mods[k]? = w.mods[k]? := by
  simp [regMod, updMod_getElem?, h]

/-- **A container depends on its own history only**: whatever is assigned to ANOTHER module — e.g. to a second container that was
    built from the same ordered dict — leaves its members, their order, its parameters and its mode as they are. -/
theorem applyOrder_setAttr_frame (w : World) (m k : Nat) (name : String) (v : Val) (h : k ≠ m) :
    applyOrder (setAttr w m name v) k = applyOrder w k := by
  simp [applyOrder, setAttr_frame w m k name v h]

theorem applyOrder_regMod_frame (w : World) (m k : Nat) (name : String) (j : Nat) (h : k ≠ m) :
    applyOrder (regMod w m name j) k = applyOrder w k := by
  simp [applyOrder, regMod_frame w m k name j h]

/-- **No operation on a collection of the caller reaches a module**: adding, removing, replacing, reordering or clearing entries of
    the dict / list changes that object only. -/
theorem updColl_frame (cw : CWorld) (i : Nat) (f : Coll → Coll) : (updColl cw i f).w = cw.w := rfl

/-- **The constructor copies**: `Sequential(d)` is `sequentialDict` on the entries `d` holds at that moment, `Sequential(*l)` is
    `sequential` on the members of `l`; the collection itself is left as it is. -/
theorem seqFrom_spec (cw : CWorld) (i : Nat) (c : Coll) (h : cw.colls[i]? = some c) :
    (seqFrom cw i).1.colls = cw.colls ∧
    ((seqFrom cw i).1.w, (seqFrom cw i).2) =
      if c.isDict then ((sequentialDict cw.w c.items).1, some (sequentialDict cw.w c.items).2)
      else ((sequential cw.w (c.items.map (·.2))).1, some (sequential cw.w (c.items.map (·.2))).2) := by
  simp only [seqFrom, h]
  cases c.isDict <;> simp

/-- … so a container built from a list applies the members the list held AT CONSTRUCTION, in that order, whatever the caller does
    to the list afterwards -/
theorem seqFrom_list_order_stable (cw : CWorld) (i : Nat) (c : Coll) (h : cw.colls[i]? = some c) (hd : c.isDict = false)
    (j : Nat) (f : Coll → Coll) (m : Nat) (hm : (seqFrom cw i).2 = some m) :
    applyOrder (updColl (seqFrom cw i).1 j f).w m = c.items.map (·.2) := by
  rw [updColl_frame]
  simp only [seqFrom, h, hd] at hm ⊢
  simp only [Bool.false_eq_true, if_false, Option.some.injEq] at hm ⊢
  subst hm
  exact sequential_order cw.w _

/-! ### Non-vacuity -/
def w0 : World :=
  let (w, m0) := newMod World.empty
  let (w, p0) := newPar w 3 true
  let (w, m1) := newMod w
  let w := setAttr w m0 "a" (.par p0)
  let w := setAttr w m1 "x" (.mod m0)
  let w := setAttr w m1 "y" (.mod m0)
  setAttr w m1 "z" (.par p0)

example : parameters w0 (fuelOf w0) 1 = [0] := by decide
example : numParams w0 1 = (3, 3, 0) := by decide
example : (setTraining false (fuelOf w0) w0 1).mods.map (·.training) = [false, false] := by decide

/-- a 12-member positional container: keys "0" … "11" in registration order (not "0","1","10","11","2",…); replacing member "3" by
    assignment moves it to the end, `register_module("3", …)` keeps the slot -/
def w12 : World := (sequential (newMod (newMod World.empty).1).1 [0, 1, 0, 1, 0, 1, 0, 1, 0, 1, 0, 1]).1
example : (w12.mods[2]?.map (fun M => M.subs.map (·.1))) = some ["0", "1", "2", "3", "4", "5", "6", "7", "8", "9", "10", "11"] := by decide
example : applyOrder w12 2 = [0, 1, 0, 1, 0, 1, 0, 1, 0, 1, 0, 1] := by decide
example : applyOrder (setAttr w12 2 "3" (.mod 0)) 2 = [0, 1, 0, 0, 1, 0, 1, 0, 1, 0, 1, 0] := by decide
example : applyOrder (regMod w12 2 "3" 0) 2 = [0, 1, 0, 0, 0, 1, 0, 1, 0, 1, 0, 1] := by decide

/-- two containers built from ONE ordered dict of the caller, then an attribute of the second one replaced and the dict edited: the
    first container still applies what it was given -/
def cw2 : CWorld :=
  let w := (newMod (newMod (newMod World.empty).1).1).1          -- m0 m1 m2
  let (cw, d) := newColl { w := w } ⟨true, [("fc", 0), ("act", 1), ("out", 0)]⟩
  let cw := (seqFrom cw d).1                                      -- m3
  let cw := (seqFrom cw d).1                                      -- m4
  let cw := { cw with w := setAttr cw.w 4 "out" (.mod 2) }
  updColl cw d (fun c => (c.put "extra" 2).del "fc")
example : applyOrder cw2.w 3 = [0, 1, 0] := by decide
example : applyOrder cw2.w 4 = [0, 1, 2] := by decide
example : cw2.colls.map (·.items) = [[("act", 1), ("out", 0), ("extra", 2)]] := by decide

end Props.C12
