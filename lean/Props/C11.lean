import SynapModel.Ops
import Proofs.EngineStruct
import Proofs.ApiLemmas
import Proofs.EffectsSound
import SynapModel.Generated.EffectTable
/-!
# C11 — Forward and backward never modify operands, targets or the caller's gradient (logical core)

In the model, tensor data live in `TState.vals`.  The theorems say that the only transitions of
the model that touch existing data are none of: applying an op, back-propagating, zeroing.
Aliasing between NumPy arrays (views, the caller's gradient array) cannot be expressed in a
value-level model; it is observed by byte-level snapshots in the check, and — for the NumPy kernels
of `cpu_ops.py` / `conv_tools.py` — carried by the *effect table* at the end of this file: an
abstract program per kernel, regenerated from the source on every run (`harness/effects.py`),
judged by a may-alias analysis whose soundness w.r.t. a store semantics with buffer identities is
`Proofs.Effects.safe_sound`.
-/
namespace Props.C11
open Synap Synap.NDArray Synap.Api Synap.Ops Synap.Engine Proofs.Engine

set_option linter.unusedSectionVars false

variable {α : Type} [Zero α] [One α] [Add α] [Sub α] [Mul α] [Div α] [Neg α] [NatCast α]
  [OfScientific α] [LT α] [DecidableLT α] [LE α] [DecidableLE α] [Transc α]

/-- `a` is a prefix of `b` -/
def IsPrefix {β : Type} (a b : List β) : Prop := ∃ t, b = a ++ t

/-- **Applying an op changes no existing tensor**: data, dtypes and the whole graph state of the
    operands (and of every other tensor) are kept; new tensors are appended. -/
theorem apply_preserves (st st' : TState α) (op : Op α) (inputs ks : List Nat)
    (h : Ops.apply st op inputs = some (st', ks)) :
    IsPrefix st.vals st'.vals ∧ IsPrefix st.dtypes st'.dtypes ∧ IsPrefix st.g st'.g ∧ st'.modes = st.modes := by
  obtain ⟨ins, outs, _, _, a, b, ⟨new, c, _, _⟩, d, _, _⟩ := Proofs.Api.apply_spec h
  exact ⟨⟨_, a⟩, ⟨_, b⟩, ⟨new, c⟩, d⟩

/-
STATEMENT FALSE AS WRITTEN (kept for reference, replaced by `apply_repeatable'` below).

theorem apply_repeatable (st st' : TState α) (op : Op α) (inputs ks : List Nat)
    (hin : ∀ i ∈ inputs, i < st.vals.length)
    (h : Ops.apply st op inputs = some (st', ks)) :
    ∃ st2 ks2, Ops.apply st' op inputs = some (st2, ks2) ∧
      ks.map (fun k => st'.vals[k]?) = ks2.map (fun k => st2.vals[k]?) := (no proof: false, see below)

Reason: the result indices are `st.g.length, st.g.length + 1, …` but the values are appended to
`st.vals`; nothing in `TState` forces `g`, `vals`, `dtypes` to have the same length.
Counterexample (any `α`): `st.g = []`, `st.vals = [⟨[], []⟩, ⟨[1], []⟩]`, `st.dtypes = []`,
`op = .clone`, `inputs = [0]`.  First call: `ks = [0]`, `st'.vals = [⟨[], []⟩, ⟨[1], []⟩, ⟨[], []⟩]`,
so `ks.map … = [some ⟨[], []⟩]`.  Second call: `ks2 = [1]`, `st2.vals[1]? = some ⟨[1], []⟩`.
Machine-checked as `apply_repeatable_counterexample`.
-/

/-- the original `apply_repeatable` is refuted by a store whose lists are not aligned -/
theorem apply_repeatable_counterexample :
    ¬ ∀ (st st' : TState α) (op : Op α) (inputs ks : List Nat),
      (∀ i ∈ inputs, i < st.vals.length) → Ops.apply st op inputs = some (st', ks) →
      ∃ st2 ks2, Ops.apply st' op inputs = some (st2, ks2) ∧
        ks.map (fun k => st'.vals[k]?) = ks2.map (fun k => st2.vals[k]?) := by
  intro H
  let a0 : NDArray α := ⟨[], []⟩
  let st0 : TState α := { g := [], vals := [a0, ⟨[1], []⟩], dtypes := [], modes := {} }
  have h1 : [0].mapM (fun i => st0.vals[i]?) = some [a0] := rfl
  have h2 : evalOp (Op.clone : Op α) [a0] =
      some (unary (Kernels.cloneForward a0) (fun g => some (Kernels.cloneBackward g))) := rfl
  obtain ⟨⟨st', ks⟩, hres⟩ := Proofs.Api.apply_succ (st := st0) (op := Op.clone) (inputs := [0]) h1 h2
    (fun _ => rfl)
  obtain ⟨st2, ks2, hres2, heq⟩ := H st0 st' .clone [0] ks (by simp [st0]) hres
  obtain ⟨ins, outs, e1, e2, hv, _, ⟨new, hg, hl, _⟩, _, hks, _⟩ := Proofs.Api.apply_spec hres
  rw [h1] at e1; cases e1
  rw [h2] at e2; cases e2
  obtain ⟨ins2, outs2, f1, f2, hv2, _, _, _, hks2, _⟩ := Proofs.Api.apply_spec hres2
  have f1' : [0].mapM (fun i => st'.vals[i]?) = some [a0] := by rw [hv]; rfl
  rw [f1'] at f1; cases f1
  rw [h2] at f2; cases f2
  have hgl : st'.g.length = 1 := by rw [hg]; simpa [unary, st0] using hl
  rw [hks, hks2, hgl, hv2, hv] at heq
  simp [unary, st0, a0, Kernels.cloneForward] at heq

/-- **Repeating an operation on unchanged operands gives identical results**: applying the same
    op to the same operands again (after the first application, or after anything that only
    appends) yields tensors with exactly the same values.
    Added hypotheses w.r.t. the original statement: `hv : st.vals.length = st.g.length` and
    `hd : st.dtypes.length = st.g.length` (the three lists of the store are aligned; this holds of
    every store built by the API, see `Props.C10.mkTensor_aligned` / `apply_aligned`). -/
theorem apply_repeatable' (st st' : TState α) (op : Op α) (inputs ks : List Nat)
    (hv : st.vals.length = st.g.length) (hd : st.dtypes.length = st.g.length)
    (hin : ∀ i ∈ inputs, i < st.vals.length)
    (h : Ops.apply st op inputs = some (st', ks)) :
    ∃ st2 ks2, Ops.apply st' op inputs = some (st2, ks2) ∧
      ks.map (fun k => st'.vals[k]?) = ks2.map (fun k => st2.vals[k]?) := by
  obtain ⟨ins, outs, h1, h2, a, b, ⟨new, c, hl, _⟩, d, hks, hc⟩ := Proofs.Api.apply_spec h
  -- the second call sees the same operands
  have e1 : inputs.mapM (fun i => st'.vals[i]?) = some ins := by
    rw [← h1]
    apply Proofs.Api.mapM_opt_congr
    intro i hi
    rw [a, List.getElem?_append_left (hin i hi)]
  have e2 : inputs.filterMap (fun i => st'.dtypes[i]?) = inputs.filterMap (fun i => st.dtypes[i]?) := by
    apply Proofs.Api.filterMap_congr_mem
    intro i hi
    rw [b, List.getElem?_append_left (by have := hin i hi; omega)]
  have e3 : Proofs.Api.rgOf st' inputs = Proofs.Api.rgOf st inputs := by
    unfold Proofs.Api.rgOf
    congr 1
    apply List.map_congr_left
    intro i hi
    rw [c, List.getElem?_append_left (by have := hin i hi; omega)]
  obtain ⟨⟨st2, ks2⟩, hres2⟩ := Proofs.Api.apply_succ (st := st') (op := op) (inputs := inputs) e1 h2
    (by rw [e2, e3, d]; exact hc)
  refine ⟨st2, ks2, hres2, ?_⟩
  obtain ⟨ins2, outs2, f1, f2, a2, _, _, _, hks2, _⟩ := Proofs.Api.apply_spec hres2
  rw [e1] at f1; cases f1
  rw [h2] at f2; cases f2
  rw [hks, hks2, a2]
  rw [Proofs.Api.range'_map_getElem?_append' st'.vals _ _ _ (by rw [a, c]; simp [hv, hl]) (by simp)]
  rw [a, Proofs.Api.range'_map_getElem?_append' st.vals _ _ _ hv (by simp)]

/-- **backward changes no tensor data** (of operands, targets, or anything else), no dtype and no
    mode — only gradient buffers, and (`backward_frame`) only those of tensors reachable from the root. -/
theorem backward_preserves_data (st : TState α) (root : Nat) (g : NDArray α) :
    (Api.backward st root g).1.vals = st.vals ∧ (Api.backward st root g).1.dtypes = st.dtypes ∧
    (Api.backward st root g).1.modes = st.modes := by
  unfold Api.backward
  split
  · split
    · exact ⟨rfl, rfl, rfl⟩
    · simp only
      split
      · exact ⟨rfl, rfl, rfl⟩
      · split <;> exact ⟨rfl, rfl, rfl⟩
  · exact ⟨rfl, rfl, rfl⟩

/-- the upstream gradient handed to `backward` is a *value*: the root stores (a cast copy of) it
    and later accumulation goes through `+`, which builds a new array -/
theorem root_gradient_is_copied (ns : Graph (NDArray α)) (hw : WFG ns) (root : Nat) (g : NDArray α) (retainAll : Bool)
    (ns' : Graph (NDArray α)) (tr : List TrEv) (h : Engine.backward ns root g retainAll = some (ns', tr))
    (r : Node (NDArray α)) (hr : ns[root]? = some r) (hleaf : r.isLeaf = false) :
    ∃ r', ns'[root]? = some r' ∧ r'.grad = some g :=
  Proofs.Api.backward_root_grad ns hw root g retainAll ns' tr h r hr hleaf

/-- zeroing a gradient touches no data -/
theorem zeroGrad_preserves_data (st st' : TState α) (i : Nat) (h : zeroGrad st i = some st') :
    st'.vals = st.vals ∧ st'.dtypes = st.dtypes := by
  unfold zeroGrad at h
  split at h
  · cases h; exact ⟨rfl, rfl⟩
  · cases h

/-! ### The NumPy kernels never write their operands (aliasing included)

`Synap.Generated.effectTable` holds one effect program per top-level function of `cpu_ops.py` and
`conv_tools.py` (regenerated from the source on every run).  `safe` is the verdict of the
flow-insensitive may-alias analysis of `SynapModel/Effects.lean`: no statement that writes array
memory in place (`x += …`, `x[i] = …`, `out=x`, `np.add.at(x, …)`, `x.fill(…)`, …) goes through a name
that may share memory with a parameter — through views (`reshape`, `.T`, slices, `swapaxes`,
`moveaxis`, `as_strided`, `sliding_window_view`, `np.asarray`, …), tuples, conditional expressions or
the results of other kernels (inlined). -/
section EffectTable
open Synap.Effects Synap.Generated

/-- **No kernel writes through a name that may alias one of its parameters.**  Regenerated from the
    source on every run; an in-place statement on an operand (or on a view of it) makes this fail. -/
theorem kernels_never_write_operands : ∀ k ∈ effectTable, safe k = true := by decide +kernel

/-- every array-valued parameter of every kernel is protected: there is no output parameter -/
theorem kernels_protect_every_parameter : ∀ k ∈ effectTable, allProtected k = true := by decide +kernel

/-- the table is not empty, and it does contain in-place statements (on fresh arrays) to be judged -/
theorem effecttable_nonempty :
    90 ≤ effectTable.length ∧
    20 ≤ (effectTable.flatMap (·.body)).countP (fun s => match s with | .write _ => true | _ => false) := by
  decide +kernel

/-- **The operands of every kernel are unchanged by the kernel.**  For every kernel of the table,
    every entry state — the parameters bound to any existing buffers, *aliased in any way* (operands
    that are views of one another, the caller's gradient array passed twice, …) — and every
    execution (any order and repetition of the kernel's statements with any oracle choices, which
    covers every path through its branches and loops), the contents of the buffer of every
    parameter after the execution are its contents before. -/
theorem kernel_operands_unchanged (k : Kernel) (hk : k ∈ effectTable)
    (s0 s : State) (he : Entry k s0) (tr : Trace k.body s0 s) :
    ∀ p b, s0.env p = some b → s.mem b = s0.mem b :=
  Proofs.Effects.safe_sound_all k (kernels_never_write_operands k hk)
    (kernels_protect_every_parameter k hk) s0 s he tr

/-! ### The op wrappers, their `backward` closures and the `Tensor` methods

`tensorEffectTable` holds one effect program per op wrapper of `functional.py` / `nn/functional.py`
(the `backward` closure included: closure variables are the wrapper's variables), per method of
`Tensor` and per constructor of `tensor.py`.  Parameters come in triples `t`, `t.data`, `t._grad`
plus one `<upstream>`; protected are `t.data` of every parameter (operands, targets, running
statistics), array-valued parameters themselves, and `<upstream>` — the gradient buffer stored on the
result when its closure runs (for the root: the copy of the caller's gradient; in `Tensor.backward`
the caller's `grad.data` is a protected parameter of its own).  `t._grad` is not protected
(`x._grad += g` is the documented accumulation) but every *re-binding* `t._grad = e` / `t.grad = e`
is translated with an additional write of `t._grad`, so a re-binding to anything that may share
memory with an operand's data or with the upstream gradient makes `safe` fail: some later closure
would accumulate into it.  Likewise `t.data = e` outside the documented running-statistics update. -/

/-- **No wrapper, closure or `Tensor` method writes the data of an operand / target or the upstream
    gradient, and none re-binds a gradient buffer to memory shared with them.** -/
theorem wrappers_never_write_data_or_upstream : ∀ k ∈ tensorEffectTable, safe k = true := by
  decide +kernel

/-- the table is not empty and contains the accumulation writes that are judged -/
theorem tensoreffecttable_nonempty :
    100 ≤ tensorEffectTable.length ∧
    100 ≤ (tensorEffectTable.flatMap (·.body)).countP (fun s => match s with | .write _ => true | _ => false) ∧
    tensorEffectTable.all (fun k => !k.protectedParams.isEmpty) = true := by
  decide +kernel

/-- **Operands, targets and the upstream gradient are unchanged by every wrapper / closure / method.**
    For every entry state in which no protected buffer is shared with a gradient buffer of an
    operand (`Separated`: gradient buffers are created by `zero_` and by `Tensor.backward` as fresh
    arrays, and the first theorem shows that nothing ever re-binds them to shared memory) — the
    protected parameters may alias one another in any way — and every execution. -/
theorem tensor_operands_unchanged (k : Kernel) (hk : k ∈ tensorEffectTable)
    (s0 s : State) (he : Entry k s0) (hsep : Separated k s0) (tr : Trace k.body s0 s) :
    ∀ p ∈ k.protectedParams, ∀ b, s0.env p = some b → s.mem b = s0.mem b :=
  Proofs.Effects.safe_sound k (wrappers_never_write_data_or_upstream k hk) s0 s he hsep tr

/-- the functions the property names: "clone() and detach() return storage independent of their source" -/
def freshResultNames : List String := ["clone_forward", "clone", "Tensor.clone", "Tensor.detach"]

/-- **clone / detach return fresh storage** (each name occurs exactly once in the tables, and its
    result variable can refer to no buffer that existed on entry) -/
theorem clone_detach_return_fresh :
    freshResultNames.all (fun n =>
      ((effectTable ++ tensorEffectTable).filter (fun k => k.name == n)).length == 1 &&
      ((effectTable ++ tensorEffectTable).filter (fun k => k.name == n)).all returnsFresh) = true := by
  decide +kernel

/-- … while the view operations do return views (the predicate is not vacuous) -/
theorem view_ops_return_views :
    ["reshape_forward", "reshape", "transpose", "slice", "Tensor.numpy", "clone_backward"].all (fun n =>
      ((effectTable ++ tensorEffectTable).filter (fun k => k.name == n)).any (fun k => !returnsFresh k)) = true := by
  decide +kernel

/-- **Storage independence of clone / detach**: after any execution from any entry state, the
    buffer of the result is none of the buffers that existed on entry. -/
theorem clone_detach_storage_independent (k : Kernel) (hk : k ∈ effectTable ++ tensorEffectTable)
    (hn : k.name ∈ freshResultNames)
    (s0 s : State) (he : Entry k s0) (hsep : Separated k s0) (tr : Trace k.body s0 s)
    (b : Nat) (hr : s.env k.ret = some b) : s0.next ≤ b ∧ ∀ p b', s0.env p = some b' → b' ≠ b := by
  have hs : safe k = true := by
    rcases List.mem_append.mp hk with h | h
    · exact kernels_never_write_operands k h
    · exact wrappers_never_write_data_or_upstream k h
  have hf : returnsFresh k = true := by
    have h := clone_detach_return_fresh
    rw [List.all_eq_true] at h
    have h1 := h k.name hn
    rw [Bool.and_eq_true, List.all_eq_true] at h1
    exact h1.2 k (List.mem_filter.mpr ⟨hk, by simp⟩)
  exact Proofs.Effects.returnsFresh_sound k hs hf s0 s he hsep tr b hr

end EffectTable

end Props.C11
