import SynapModel.Ops
import Proofs.EngineStruct
import Proofs.ApiLemmas
/-!
# C11 — Forward and backward never modify operands, targets or the caller's gradient (logical core)

In the model, tensor data live in `TState.vals`.  The theorems say that the only transitions of
the model that touch existing data are none of: applying an op, back-propagating, zeroing.
Aliasing between NumPy arrays (views, the caller's gradient array) cannot be expressed in a
value-level model; it is observed by byte-level snapshots in the check.
-/
namespace Props.C11
open Synap Synap.NDArray Synap.Api Synap.Ops Synap.Engine Proofs.Engine

set_option linter.unusedSectionVars false

variable {α : Type} [Zero α] [One α] [Add α] [Sub α] [Mul α] [Div α] [Neg α] [NatCast α]
  [OfScientific α] [LT α] [DecidableLT α] [LE α] [DecidableLE α] [Transc α]

/-- `a` is a prefix of `b` -/
def IsPrefix {β : Type} (a b : List β) : Prop := ∃ t, b = a ++ t

/-- **Applying an op changes no existing tensor**: data, dtypes and the whole graph state of the
    operands (and of every other tensor) are kept; new tensors are appended. -/
theorem apply_preserves (st st' : TState α) (op : Op α) (inputs ks : List Nat)
    (h : Ops.apply st op inputs = some (st', ks)) :
    IsPrefix st.vals st'.vals ∧ IsPrefix st.dtypes st'.dtypes ∧ IsPrefix st.g st'.g ∧ st'.modes = st.modes := by
  obtain ⟨ins, outs, _, _, a, b, ⟨new, c, _, _⟩, d, _, _⟩ := Proofs.Api.apply_spec h
  exact ⟨⟨_, a⟩, ⟨_, b⟩, ⟨new, c⟩, d⟩

/-
STATEMENT FALSE AS WRITTEN (kept for reference, replaced by `apply_repeatable'` below).

theorem apply_repeatable (st st' : TState α) (op : Op α) (inputs ks : List Nat)
    (hin : ∀ i ∈ inputs, i < st.vals.length)
    (h : Ops.apply st op inputs = some (st', ks)) :
    ∃ st2 ks2, Ops.apply st' op inputs = some (st2, ks2) ∧
      ks.map (fun k => st'.vals[k]?) = ks2.map (fun k => st2.vals[k]?) := (no proof: false, see below)

Reason: the result indices are `st.g.length, st.g.length + 1, …` but the values are appended to
`st.vals`; nothing in `TState` forces `g`, `vals`, `dtypes` to have the same length.
Counterexample (any `α`): `st.g = []`, `st.vals = [⟨[], []⟩, ⟨[1], []⟩]`, `st.dtypes = []`,
`op = .clone`, `inputs = [0]`.  First call: `ks = [0]`, `st'.vals = [⟨[], []⟩, ⟨[1], []⟩, ⟨[], []⟩]`,
so `ks.map … = [some ⟨[], []⟩]`.  Second call: `ks2 = [1]`, `st2.vals[1]? = some ⟨[1], []⟩`.
Machine-checked as `apply_repeatable_counterexample`.
-/

/-- the original `apply_repeatable` is refuted by a store whose lists are not aligned -/
theorem apply_repeatable_counterexample :
    ¬ ∀ (st st' : TState α) (op : Op α) (inputs ks : List Nat),
      (∀ i ∈ inputs, i < st.vals.length) → Ops.apply st op inputs = some (st', ks) →
      ∃ st2 ks2, Ops.apply st' op inputs = some (st2, ks2) ∧
        ks.map (fun k => st'.vals[k]?) = ks2.map (fun k => st2.vals[k]?) := by
  intro H
  let a0 : NDArray α := ⟨[], []⟩
  let st0 : TState α := { g := [], vals := [a0, ⟨[1], []⟩], dtypes := [], modes := {} }
  have h1 : [0].mapM (fun i => st0.vals[i]?) = some [a0] := rfl
  have h2 : evalOp (Op.clone : Op α) [a0] =
      some (unary (Kernels.cloneForward a0) (fun g => some (Kernels.cloneBackward g))) := rfl
  obtain ⟨⟨st', ks⟩, hres⟩ := Proofs.Api.apply_succ (st := st0) (op := Op.clone) (inputs := [0]) h1 h2
    (fun _ => rfl)
  obtain ⟨st2, ks2, hres2, heq⟩ := H st0 st' .clone [0] ks (by simp [st0]) hres
  obtain ⟨ins, outs, e1, e2, hv, _, ⟨new, hg, hl, _⟩, _, hks, _⟩ := Proofs.Api.apply_spec hres
  rw [h1] at e1; cases e1
  rw [h2] at e2; cases e2
  obtain ⟨ins2, outs2, f1, f2, hv2, _, _, _, hks2, _⟩ := Proofs.Api.apply_spec hres2
  have f1' : [0].mapM (fun i => st'.vals[i]?) = some [a0] := by rw [hv]; rfl
  rw [f1'] at f1; cases f1
  rw [h2] at f2; cases f2
  have hgl : st'.g.length = 1 := by rw [hg]; simpa [unary, st0] using hl
  rw [hks, hks2, hgl, hv2, hv] at heq
  simp [unary, st0, a0, Kernels.cloneForward] at heq

/-- **Repeating an operation on unchanged operands gives identical results**: applying the same
    op to the same operands again (after the first application, or after anything that only
    appends) yields tensors with exactly the same values.
    Added hypotheses w.r.t. the original statement: `hv : st.vals.length = st.g.length` and
    `hd : st.dtypes.length = st.g.length` (the three lists of the store are aligned; this holds of
    every store built by the API, see `Props.C10.mkTensor_aligned` / `apply_aligned`). -/
theorem apply_repeatable' (st st' : TState α) (op : Op α) (inputs ks : List Nat)
    (hv : st.vals.length = st.g.length) (hd : st.dtypes.length = st.g.length)
    (hin : ∀ i ∈ inputs, i < st.vals.length)
    (h : Ops.apply st op inputs = some (st', ks)) :
    ∃ st2 ks2, Ops.apply st' op inputs = some (st2, ks2) ∧
      ks.map (fun k => st'.vals[k]?) = ks2.map (fun k => st2.vals[k]?) := by
  obtain ⟨ins, outs, h1, h2, a, b, ⟨new, c, hl, _⟩, d, hks, hc⟩ := Proofs.Api.apply_spec h
  -- the second call sees the same operands
  have e1 : inputs.mapM (fun i => st'.vals[i]?) = some ins := by
    rw [← h1]
    apply Proofs.Api.mapM_opt_congr
    intro i hi
    rw [a, List.getElem?_append_left (hin i hi)]
  have e2 : inputs.filterMap (fun i => st'.dtypes[i]?) = inputs.filterMap (fun i => st.dtypes[i]?) := by
    apply Proofs.Api.filterMap_congr_mem
    intro i hi
    rw [b, List.getElem?_append_left (by have := hin i hi; omega)]
  have e3 : Proofs.Api.rgOf st' inputs = Proofs.Api.rgOf st inputs := by
    unfold Proofs.Api.rgOf
    congr 1
    apply List.map_congr_left
    intro i hi
    rw [c, List.getElem?_append_left (by have := hin i hi; omega)]
  obtain ⟨⟨st2, ks2⟩, hres2⟩ := Proofs.Api.apply_succ (st := st') (op := op) (inputs := inputs) e1 h2
    (by rw [e2, e3, d]; exact hc)
  refine ⟨st2, ks2, hres2, ?_⟩
  obtain ⟨ins2, outs2, f1, f2, a2, _, _, _, hks2, _⟩ := Proofs.Api.apply_spec hres2
  rw [e1] at f1; cases f1
  rw [h2] at f2; cases f2
  rw [hks, hks2, a2]
  rw [Proofs.Api.range'_map_getElem?_append' st'.vals _ _ _ (by rw [a, c]; simp [hv, hl]) (by simp)]
  rw [a, Proofs.Api.range'_map_getElem?_append' st.vals _ _ _ hv (by simp)]

/-- **backward changes no tensor data** (of operands, targets, or anything else), no dtype and no
    mode — only gradient buffers, and (`backward_frame`) only those of tensors reachable from the root. -/
theorem backward_preserves_data (st : TState α) (root : Nat) (g : NDArray α) :
    (Api.backward st root g).1.vals = st.vals ∧ (Api.backward st root g).1.dtypes = st.dtypes ∧
    (Api.backward st root g).1.modes = st.modes := by
  unfold Api.backward
  split
  · split
    · exact ⟨rfl, rfl, rfl⟩
    · simp only
      split
      · exact ⟨rfl, rfl, rfl⟩
      · split <;> exact ⟨rfl, rfl, rfl⟩
  · exact ⟨rfl, rfl, rfl⟩

/-- the upstream gradient handed to `backward` is a *value*: the root stores (a cast copy of) it
    and later accumulation goes through `+`, which builds a new array -/
theorem root_gradient_is_copied (ns : Graph (NDArray α)) (hw : WFG ns) (root : Nat) (g : NDArray α) (retainAll : Bool)
    (ns' : Graph (NDArray α)) (tr : List TrEv) (h : Engine.backward ns root g retainAll = some (ns', tr))
    (r : Node (NDArray α)) (hr : ns[root]? = some r) (hleaf : r.isLeaf = false) :
    ∃ r', ns'[root]? = some r' ∧ r'.grad = some g :=
  Proofs.Api.backward_root_grad ns hw root g retainAll ns' tr h r hr hleaf

/-- zeroing a gradient touches no data -/
theorem zeroGrad_preserves_data (st st' : TState α) (i : Nat) (h : zeroGrad st i = some st') :
    st'.vals = st.vals ∧ st'.dtypes = st.dtypes := by
  unfold zeroGrad at h
  split at h
  · cases h; exact ⟨rfl, rfl⟩
  · cases h

end Props.C11
